package c16

import (
	"encoding/base64"
	"encoding/hex"
	"encoding/json"
	"fmt"
	"sort"
	"strings"
	"sync"
	"testing"

	"github.com/nspcc-dev/neo-go/pkg/config/netmode"
	"github.com/nspcc-dev/neo-go/pkg/core/interop/interopnames"
	"github.com/nspcc-dev/neo-go/pkg/core/state"
	"github.com/nspcc-dev/neo-go/pkg/core/transaction"
	"github.com/nspcc-dev/neo-go/pkg/crypto/keys"
	"github.com/nspcc-dev/neo-go/pkg/io"
	"github.com/nspcc-dev/neo-go/pkg/neotest"
	"github.com/nspcc-dev/neo-go/pkg/smartcontract"
	"github.com/nspcc-dev/neo-go/pkg/smartcontract/callflag"
	"github.com/nspcc-dev/neo-go/pkg/smartcontract/manifest"
	"github.com/nspcc-dev/neo-go/pkg/smartcontract/nef"
	"github.com/nspcc-dev/neo-go/pkg/util"
	"github.com/nspcc-dev/neo-go/pkg/vm/emit"
	"github.com/nspcc-dev/neo-go/pkg/vm/opcode"
	"github.com/nspcc-dev/neo-go/pkg/vm/vmstate"
	"github.com/nspcc-dev/neo-go/verifharness/vlib/ev"
	"github.com/nspcc-dev/neo-go/verifharness/vlib/rng"
)

// ---------------------------------------------------------------------------
// The reference: what the property says, written without the manifest package.

// permSpec is one manifest permission as the harness wrote it into the JSON
// manifest that was deployed.
type permSpec struct {
	Kind      string       // "*", "hash", "group"
	Hash      util.Uint160 // Kind == "hash"
	Key       string       // Kind == "group": hex of the compressed public key
	AnyMethod bool         // methods: "*"
	Methods   []string     // explicit list otherwise (may be empty)
	di, li    int          // which descriptor / method list of the enumeration
}

// refMayCall: a permission matches when it matches the callee (wildcard, its
// hash, or one of its groups) AND the method (wildcard or listed).
func refMayCall(perms []permSpec, callee util.Uint160, calleeGroups []string, method string) bool {
	for _, p := range perms {
		contractOK := p.Kind == "*" || (p.Kind == "hash" && p.Hash == callee)
		if p.Kind == "group" {
			for _, g := range calleeGroups {
				contractOK = contractOK || g == p.Key
			}
		}
		methodOK := p.AnyMethod
		for _, m := range p.Methods {
			methodOK = methodOK || m == method
		}
		if contractOK && methodOK {
			return true
		}
	}
	return false
}

// ---------------------------------------------------------------------------

type calleeSpec struct {
	Name   string
	Groups []*keys.PrivateKey
	Hash   util.Uint160
	keys   []string
}

type callerSpec struct {
	Name  string
	Perms []permSpec
	Hash  util.Uint160
}

var calleeMethods = []struct {
	Name string
	Safe bool
	Ret  int64
}{{"m1", false, 41}, {"m2", false, 42}, {"s", true, 43}}

func manifestJSON(name string, groups []map[string]any, methods []map[string]any, perms []permSpec) []byte {
	return manifestJSONTrusts(name, groups, methods, perms, []any{})
}

func manifestJSONTrusts(name string, groups []map[string]any, methods []map[string]any, perms []permSpec, trusts any) []byte {
	ps := []any{}
	for _, p := range perms {
		var c any
		switch p.Kind {
		case "*":
			c = "*"
		case "hash":
			c = "0x" + p.Hash.StringLE()
		case "group":
			c = p.Key
		}
		var m any = "*"
		if !p.AnyMethod {
			l := []string{}
			l = append(l, p.Methods...)
			m = l
		}
		ps = append(ps, map[string]any{"contract": c, "methods": m})
	}
	if groups == nil {
		groups = []map[string]any{}
	}
	b, err := json.Marshal(map[string]any{
		"name": name, "groups": groups, "features": map[string]any{}, "supportedstandards": []string{},
		"abi":         map[string]any{"methods": methods, "events": []any{}},
		"permissions": ps, "trusts": trusts, "extra": nil,
	})
	if err != nil {
		panic(err)
	}
	return b
}

func method(name string, off int, safe bool, params ...[2]string) map[string]any {
	ps := []map[string]any{}
	for _, p := range params {
		ps = append(ps, map[string]any{"name": p[0], "type": p[1]})
	}
	return map[string]any{"name": name, "offset": off, "parameters": ps, "returntype": "Integer", "safe": safe}
}

func mkNEF(script []byte, tokens []nef.MethodToken) *nef.File {
	f, err := nef.NewFile(script)
	if err != nil {
		panic(err)
	}
	f.Header.Compiler = "verif-c16"
	if tokens != nil {
		f.Tokens = tokens
	}
	f.Checksum = f.CalculateChecksum()
	return f
}

func permShape(p permSpec, callee *calleeSpec, method string) string {
	var c string
	switch p.Kind {
	case "*":
		c = "wildcard"
	case "hash":
		c = "hash-other"
		if p.Hash == callee.Hash {
			c = "hash-match"
		}
	case "group":
		c = "group-other"
		for _, g := range callee.keys {
			if g == p.Key {
				c = "group-match"
			}
		}
	}
	m := "methods-any"
	if !p.AnyMethod {
		m = "method-not-in-list"
		if len(p.Methods) == 0 {
			m = "method-list-empty"
		}
		for _, x := range p.Methods {
			if x == method {
				m = "method-listed"
			}
		}
	}
	return c + "/" + m
}

func permPart(t *testing.T, run *ev.Run) {
	stages := []string{"all"}
	if ev.Tier() == "thorough" {
		// Before Domovoi the caller's manifest is read from ContractManagement
		// instead of the executing context.
		stages = append(stages, stagesBefore()...)
	}
	for _, st := range stages {
		permStage(t, run, st)
		permSequences(t, run, st)
	}
}

type deployment struct {
	name string
	hash util.Uint160
	nef  *nef.File
	mf   []byte // the JSON manifest that was deployed
}

func permStage(t *testing.T, run *ev.Run, stage string) {
	v := newEnv(t, stage)
	e, bc, val := v.e, v.bc, v.val
	sender := val.ScriptHash()
	_ = e
	r := rng.New(0xbe16)

	g := []*keys.PrivateKey{detKey("group1"), detKey("group2"), detKey("group-unrelated")}
	gk := func(k *keys.PrivateKey) string { return hex.EncodeToString(k.PublicKey().Bytes()) }

	// --- callees -----------------------------------------------------------
	w := io.NewBufBinWriter()
	var cm []map[string]any
	for _, m := range calleeMethods {
		cm = append(cm, method(m.Name, w.Len(), m.Safe))
		emit.Int(w.BinWriter, m.Ret)
		emit.Opcodes(w.BinWriter, opcode.RET)
	}
	calleeNEF := mkNEF(w.Bytes(), nil)
	callees := []*calleeSpec{
		{Name: "calleeNoGroup"},
		{Name: "calleeGroup1", Groups: g[:1]},
		{Name: "calleeGroup1and2", Groups: g[:2]},
	}
	var deps []deployment
	for _, c := range callees {
		c.Hash = state.CreateContractHash(sender, calleeNEF.Checksum, c.Name)
		var gs []map[string]any
		for _, k := range c.Groups {
			gs = append(gs, map[string]any{"pubkey": gk(k), "signature": base64.StdEncoding.EncodeToString(k.Sign(c.Hash.BytesBE()))})
			c.keys = append(c.keys, gk(k))
		}
		deps = append(deps, deployment{c.Name, c.Hash, calleeNEF, manifestJSON(c.Name, gs, cm, nil)})
		v.names[c.Hash] = c.Name
	}

	// --- the caller code: dyn(hash, method) and one CALLT method per (callee, method)
	w = io.NewBufBinWriter()
	callerMethods := []map[string]any{method("dyn", 0, false, [2]string{"h", "Hash160"}, [2]string{"m", "String"})}
	emit.Instruction(w.BinWriter, opcode.INITSLOT, []byte{0, 2})
	emit.Opcodes(w.BinWriter, opcode.NEWARRAY0)
	emit.Int(w.BinWriter, int64(callflag.All))
	emit.Opcodes(w.BinWriter, opcode.LDARG1, opcode.LDARG0)
	emit.Syscall(w.BinWriter, interopnames.SystemContractCall)
	emit.Opcodes(w.BinWriter, opcode.RET)
	var tokens []nef.MethodToken
	tokName := map[string]string{}
	for ci, c := range callees {
		for _, m := range calleeMethods {
			n := fmt.Sprintf("t%d", len(tokens))
			tokName[fmt.Sprint(ci, m.Name)] = n
			callerMethods = append(callerMethods, method(n, w.Len(), false))
			emit.Instruction(w.BinWriter, opcode.CALLT, []byte{byte(len(tokens)), 0})
			emit.Opcodes(w.BinWriter, opcode.RET)
			tokens = append(tokens, nef.MethodToken{Hash: c.Hash, Method: m.Name, ParamCount: 0, HasReturn: true, CallFlag: callflag.All})
		}
	}
	callerNEF := mkNEF(w.Bytes(), tokens)

	// --- permission sets -----------------------------------------------------
	descs := []permSpec{
		{Kind: "*"},
		{Kind: "hash", Hash: callees[0].Hash}, {Kind: "hash", Hash: callees[1].Hash}, {Kind: "hash", Hash: callees[2].Hash},
		{Kind: "hash", Hash: util.Uint160{0xde, 0xad}},
		{Kind: "group", Key: gk(g[0])}, {Kind: "group", Key: gk(g[1])}, {Kind: "group", Key: gk(g[2])},
	}
	type ml struct {
		any bool
		l   []string
	}
	lists := []ml{{true, nil}, {false, []string{"m1"}}, {false, []string{"m2"}}, {false, []string{"m1", "m2"}}, {false, []string{"zz"}}, {false, []string{}},
		{false, []string{"M1", "m", "m11", "m2 "}},           // near misses: case, prefix, extension, trailing blank
		{false, []string{"*"}}, {false, []string{"*", "zz"}}} // a LIST holding an asterisk names a method called "*", it is no wildcard
	mk := func(di, li int) permSpec {
		d := descs[di]
		d.AnyMethod, d.Methods = lists[li].any, lists[li].l
		d.di, d.li = di, li
		return d
	}
	single := map[[2]int]*callerSpec{}
	var callers []*callerSpec
	callers = append(callers, &callerSpec{Name: "callerNoPermissions"})
	for di := range descs {
		for li := range lists {
			c := &callerSpec{Name: fmt.Sprintf("caller-d%d-l%d", di, li), Perms: []permSpec{mk(di, li)}}
			single[[2]int{di, li}] = c
			callers = append(callers, c)
		}
	}
	multi := ev.Pick(500, 24000)
	for i := range multi {
		n := 2
		if i%3 == 2 {
			n = 3
		}
		idx := r.Perm(len(descs))[:n]
		c := &callerSpec{Name: fmt.Sprintf("caller-multi-%d", i)}
		for _, di := range idx {
			c.Perms = append(c.Perms, mk(di, r.Intn(len(lists))))
		}
		callers = append(callers, c)
	}
	for _, c := range callers {
		c.Hash = state.CreateContractHash(sender, callerNEF.Checksum, c.Name)
		// trusts take every form as well: they go through the same stored form
		var trusts any
		switch len(deps) % 4 {
		case 0:
			trusts = "*"
		case 1:
			trusts = []any{"0x" + callees[0].Hash.StringLE()}
		case 2:
			trusts = []any{gk(g[1]), "0x" + callees[1].Hash.StringLE()}
		default:
			trusts = []any{}
		}
		deps = append(deps, deployment{c.Name, c.Hash, callerNEF, manifestJSONTrusts(c.Name, nil, callerMethods, c.Perms, trusts)})
		v.names[c.Hash] = c.Name
	}

	// --- deploy everything in real blocks ------------------------------------
	mgmt := bc.ManagementContractHash()
	for i := 0; i < len(deps); i += 16 {
		var txs []*transaction.Transaction
		for _, d := range deps[i:min(i+16, len(deps))] {
			nb, err := d.nef.Bytes()
			if err != nil {
				t.Fatal(err)
			}
			script, err := smartcontract.CreateCallScript(mgmt, "deploy", nb, d.mf, nil)
			if err != nil {
				t.Fatal(err)
			}
			tx := transaction.New(script, 0)
			tx.Nonce = neotest.Nonce()
			tx.ValidUntilBlock = bc.BlockHeight() + 1
			tx.Signers = []transaction.Signer{{Account: sender, Scopes: transaction.Global}}
			neotest.AddNetworkFee(t, bc, tx, val)
			e.AddSystemFee(tx, -1)
			if err := val.SignTx(netmode.UnitTestNet, tx); err != nil {
				t.Fatal(err)
			}
			txs = append(txs, tx)
		}
		e.AddNewBlock(t, txs...)
		for k, tx := range txs {
			aer, err := bc.GetAppExecResults(tx.Hash(), 0x40)
			if err != nil || len(aer) != 1 || aer[0].VMState != vmstate.Halt {
				fe := ""
				if len(aer) == 1 {
					fe = aer[0].FaultException
				}
				t.Fatalf("deployment of %s failed: %v %s", deps[i+k].name, err, fe)
			}
			if bc.GetContractState(deps[i+k].hash) == nil {
				t.Fatalf("contract %s not found at its computed hash", deps[i+k].name)
			}
		}
	}
	run.Obs("perm_contracts_deployed", int64(len(deps)))

	// --- membership must be proven: a manifest listing a group with a signature
	// made for ANOTHER contract (copied from a real member's manifest) is refused
	// wherever the forged entry stands among correctly signed ones
	{
		pname := "pretender"
		ph := state.CreateContractHash(sender, calleeNEF.Checksum, pname)
		good := func(k *keys.PrivateKey) map[string]any {
			return map[string]any{"pubkey": gk(k), "signature": base64.StdEncoding.EncodeToString(k.Sign(ph.BytesBE()))}
		}
		forged := map[string]any{"pubkey": gk(g[0]), "signature": base64.StdEncoding.EncodeToString(g[0].Sign(callees[1].Hash.BytesBE()))}
		nb, _ := calleeNEF.Bytes()
		for name, gs := range map[string][]map[string]any{
			"forged-first":  {forged, good(g[2])},
			"forged-middle": {good(g[1]), forged, good(g[2])},
			"forged-last":   {good(g[2]), forged},
			"forged-only":   {forged},
		} {
			id := fmt.Sprintf("perm/%s/deploy-with-forged-group-membership/%s", stage, name)
			if !run.Want(id) {
				continue
			}
			script, err := smartcontract.CreateCallScript(mgmt, "deploy", nb, manifestJSON(pname, gs, cm, nil), nil)
			if err != nil {
				t.Fatal(err)
			}
			o, err := v.run(&invocation{Script: script, EntryFlags: callflag.All, Signers: []transaction.Signer{{Account: sender, Scopes: transaction.Global}}})
			run.Case(id, true)
			run.Obs("deployments_with_forged_group_membership_offered", 1)
			if err != nil {
				violation(stage, "panic-escaped-vm:deploy-with-forged-group", id, err.Error(), nil)
			} else if o.Halted {
				violation(stage, "deploy-accepted:group-signature-made-for-another-contract:"+name, id, "ContractManagement.deploy accepted a manifest whose group entry carries a signature of another contract's hash", map[string]any{"groups": gs})
			}
		}
	}

	// --- the matrix, as test invocations -------------------------------------
	type cell struct {
		caller *callerSpec // nil: called from the entry script
		ci     int
		mi     int
		kind   string // dyn | token | entry
	}
	var cells []cell
	for _, c := range callers {
		for ci := range callees {
			for mi := range calleeMethods {
				cells = append(cells, cell{c, ci, mi, "dyn"}, cell{c, ci, mi, "token"})
			}
		}
	}
	for ci := range callees {
		for mi := range calleeMethods {
			cells = append(cells, cell{nil, ci, mi, "entry"})
		}
	}
	phase1Sigs := map[string]bool{}
	var sigMu sync.Mutex
	evaluate := func(v *env, phase string) {
		e, bc := v.e, v.bc
		tag := stage
		if phase != "deploying node" {
			tag = stage + "@" + strings.ReplaceAll(phase, " ", "-")
		}
		// A deviation that shows only on the restarted node has a cause of its own
		// (what the node rebuilt from its database differs from what it cached at
		// deployment) and gets a signature of its own.
		viol := func(sig, caseID, detail string, witness any) {
			sigMu.Lock()
			if phase == "deploying node" {
				phase1Sigs[sig] = true
			} else if !phase1Sigs[sig] {
				sig += "@only-after-node-restart"
			}
			sigMu.Unlock()
			violation(stage, sig, caseID, detail, witness)
		}
		cnt := &counters{m: map[string]int64{}}
		expect := func(cl cell) (bool, string) {
			callee, m := callees[cl.ci], calleeMethods[cl.mi]
			if cl.caller == nil {
				return true, "entry-script"
			}
			var shapes []string
			for _, p := range cl.caller.Perms {
				shapes = append(shapes, permShape(p, callee, m.Name))
			}
			sort.Strings(shapes)
			shape := strings.Join(shapes, "+")
			if shape == "" {
				shape = "no-permissions"
			}
			if m.Safe {
				return true, "safe-method;" + shape
			}
			return refMayCall(cl.caller.Perms, callee.Hash, callee.keys, m.Name), shape
		}
		script := func(cl cell) []byte {
			callee, m := callees[cl.ci], calleeMethods[cl.mi]
			var s []byte
			var err error
			switch cl.kind {
			case "entry":
				s, err = callScript(callee.Hash, m.Name, callflag.All)
			case "dyn":
				s, err = callScript(cl.caller.Hash, "dyn", callflag.All, callee.Hash, m.Name)
			case "token":
				s, err = callScript(cl.caller.Hash, tokName[fmt.Sprint(cl.ci, m.Name)], callflag.All)
			}
			if err != nil {
				panic(err)
			}
			return s
		}
		// observed results of the test invocations, for decomposing permission sets
		type obsKey struct {
			caller string
			ci, mi int
			kind   string
		}
		observed := map[obsKey]bool{}
		var obsMu sync.Mutex
		// observe returns the engine's answer for a cell (run on demand when the
		// matrix pass was filtered by a replay).
		observe := func(cl cell) bool {
			k := obsKey{cl.caller.Name, cl.ci, cl.mi, cl.kind}
			obsMu.Lock()
			got, ok := observed[k]
			obsMu.Unlock()
			if ok {
				return got
			}
			o, err := v.run(&invocation{Script: script(cl), EntryFlags: callflag.All})
			got = err == nil && o.Halted
			obsMu.Lock()
			observed[k] = got
			obsMu.Unlock()
			return got
		}
		var judge func(cl cell, id string, halted bool, result int64, fault string, where string)
		judge = func(cl cell, id string, halted bool, result int64, fault string, where string) {
			callee, m := callees[cl.ci], calleeMethods[cl.mi]
			want, shape := expect(cl)
			if cl.caller != nil && len(cl.caller.Perms) > 1 && halted != want && !m.Safe {
				// A permission set allows what the union of its permissions allows.
				// If the engine's answer for the set equals the union of its answers
				// for the one-permission manifests (deployed as well), the deviation
				// is the one already shown by those; report it under their signature.
				union := false
				var culprits []*callerSpec
				for _, p := range cl.caller.Perms {
					sc := single[[2]int{p.di, p.li}]
					got := observe(cell{sc, cl.ci, cl.mi, cl.kind})
					union = union || got
					if w, _ := expect(cell{sc, cl.ci, cl.mi, cl.kind}); w != got {
						culprits = append(culprits, sc)
					}
				}
				if union == halted && len(culprits) > 0 {
					for _, sc := range culprits {
						judge(cell{sc, cl.ci, cl.mi, cl.kind}, id+"[as part of "+cl.caller.Name+"]", observe(cell{sc, cl.ci, cl.mi, cl.kind}), result, fault, where)
					}
					return
				}
				viol(fmt.Sprintf("perm:permission-set-not-the-union-of-its-permissions:set-%v:union-%v", halted, union), id,
					fmt.Sprintf("%s call %s -> %s.%s: halted=%v, reference=%v, union of the engine's answers for its single permissions=%v; shapes: %s", cl.kind, cl.caller.Name, callee.Name, m.Name, halted, want, union, shape),
					map[string]any{"stage": stage, "node": phase, "caller_permissions": cl.caller.Perms, "callee": callee.Name, "callee_groups": callee.keys, "method": m.Name, "executed": where})
				return
			}
			wit := map[string]any{"stage": stage, "node": phase, "cell": id, "executed": where, "callee": callee.Name, "callee_groups": callee.keys, "method": m.Name, "call_kind": cl.kind, "fault": fault, "shape": shape}
			if cl.caller != nil {
				wit["caller_permissions"] = cl.caller.Perms
				wit["caller"] = cl.caller.Name
			}
			switch {
			case halted && !want:
				// name the permissions that match the contract but not the method
				var near []string
				for _, s := range strings.Split(shape, "+") {
					if strings.HasSuffix(s, "-match/method-not-in-list") || strings.HasSuffix(s, "-match/method-list-empty") || s == "wildcard/method-not-in-list" || s == "wildcard/method-list-empty" {
						k := strings.SplitN(s, "/", 2)[0]
						k = strings.TrimSuffix(k, "-match")
						if !contains(near, k) {
							near = append(near, k)
						}
					}
				}
				sort.Strings(near)
				sig := "perm:call-succeeded-without-matching-permission:no-permission-matches-the-contract"
				if len(near) > 0 {
					sig = "perm:call-succeeded-without-matching-permission:contract-matched-by=" + strings.Join(near, ",") + ":method-not-in-its-list"
				}
				viol(sig, id, fmt.Sprintf("%s call %s -> %s.%s HALTed (result %d) although no permission of the caller matches both the callee and the method; permission shapes: %s", cl.kind, cl.caller.Name, callee.Name, m.Name, result, shape), wit)
			case !halted && want:
				viol("perm:call-failed-despite-matching-permission:"+shape, id,
					fmt.Sprintf("%s call -> %s.%s FAULTed (%s) although a permission matches; shapes: %s", cl.kind, callee.Name, m.Name, fault, shape), wit)
			case halted && result != m.Ret:
				viol("perm:wrong-callee-result", id, fmt.Sprintf("result %d, want %d", result, m.Ret), wit)
			}
		}
		cellID := func(cl cell) string {
			cn := "entry"
			if cl.caller != nil {
				cn = cl.caller.Name
			}
			return fmt.Sprintf("perm/%s/%s/%s->%s.%s", tag, cl.kind, cn, callees[cl.ci].Name, calleeMethods[cl.mi].Name)
		}
		var mu sync.Mutex
		shapesSeen := map[string]int{}
		type cellResult struct {
			id     string
			halted bool
			res    int64
			fault  string
			done   bool
		}
		results := make([]cellResult, len(cells))
		parallel(len(cells), func(i int) {
			cl := cells[i]
			callee, m := callees[cl.ci], calleeMethods[cl.mi]
			cn := "entry"
			if cl.caller != nil {
				cn = cl.caller.Name
			}
			id := fmt.Sprintf("perm/%s/%s/%s->%s.%s", tag, cl.kind, cn, callee.Name, m.Name)
			if !run.Want(id) {
				return
			}
			s := script(cl)
			o, err := v.run(&invocation{Script: s, EntryFlags: callflag.All})
			if err != nil {
				viol("panic-escaped-vm:perm", id, err.Error(), map[string]any{"script": hex.EncodeToString(s)})
				return
			}
			var res int64 = -1
			if o.Halted && len(o.Stack) == 1 {
				if n, err := o.Stack[0].TryInteger(); err == nil {
					res = n.Int64()
				}
			}
			want, shape := expect(cl)
			// the permission check was reached when the caller contract's context was entered
			reached := cl.caller == nil || len(o.Calls) > 0
			run.Case(fmt.Sprintf("perm/%s/%s/%s/%s/want=%v/halt=%v", tag, cl.kind, callee.Name+"."+m.Name, shape, want, o.Halted), reached)
			cnt.add("cells", 1)
			if o.Halted {
				cnt.add("calls_succeeded", 1)
			} else if strings.Contains(o.Fault, "disallowed method call") {
				cnt.add("calls_refused_by_permission_check", 1)
			} else {
				cnt.add("calls_failed_otherwise", 1)
			}
			if want {
				cnt.add("reference_allows", 1)
			} else {
				cnt.add("reference_denies", 1)
			}
			mu.Lock()
			shapesSeen[shape]++
			mu.Unlock()
			obsMu.Lock()
			observed[obsKey{cn, cl.ci, cl.mi, cl.kind}] = o.Halted
			obsMu.Unlock()
			mu.Lock()
			results[i] = cellResult{id, o.Halted, res, o.Fault, true}
			mu.Unlock()
			if i%211 == 0 {
				run.Sample(map[string]any{"case": id, "shape": shape, "reference_allows": want, "halted": o.Halted})
			}
		})
		run.Obs("perm_distinct_permission_shapes_"+tag, int64(len(shapesSeen)))
		for i, cr := range results {
			if cr.done {
				judge(cells[i], cr.id, cr.halted, cr.res, cr.fault, "test invocation on the "+phase)
			}
		}

		// --- a sample of the cells in real transactions --------------------------
		var sample []cell
		for i, cl := range cells {
			if cl.caller != nil && len(cl.caller.Perms) <= 1 && cl.ci == 1 && cl.kind == "dyn" && cl.mi != 1 || i%97 == 0 {
				if run.Want(cellID(cl)) {
					sample = append(sample, cl)
				}
			}
		}
		user := neotest.Signer(v.user)
		for i := 0; i < len(sample); i += 32 {
			part := sample[i:min(i+32, len(sample))]
			var txs []*transaction.Transaction
			for _, cl := range part {
				tx := transaction.New(script(cl), 0)
				tx.Nonce = neotest.Nonce()
				tx.ValidUntilBlock = bc.BlockHeight() + 1
				e.SignTx(t, tx, 1_0000_0000, user)
				txs = append(txs, tx)
			}
			e.AddNewBlock(t, txs...)
			for k, tx := range txs {
				cl := part[k]
				aer, err := bc.GetAppExecResults(tx.Hash(), 0x40)
				if err != nil || len(aer) != 1 {
					run.Inconclusive("on-chain permission cell: no execution result: %v", err)
					continue
				}
				cn := "entry"
				if cl.caller != nil {
					cn = cl.caller.Name
				}
				id := fmt.Sprintf("perm/%s/%s/%s->%s.%s", tag, cl.kind, cn, callees[cl.ci].Name, calleeMethods[cl.mi].Name)
				var res int64 = -1
				if aer[0].VMState == vmstate.Halt && len(aer[0].Stack) == 1 {
					if n, err := aer[0].Stack[0].TryInteger(); err == nil {
						res = n.Int64()
					}
				}
				cnt.add("cells_executed_in_blocks", 1)
				run.Case("perm-onchain/"+id, true)
				judge(cl, id, aer[0].VMState == vmstate.Halt, res, aer[0].FaultException, fmt.Sprintf("transaction %s in block %d on the %s", tx.Hash().StringLE(), bc.BlockHeight(), phase))
			}
		}
		cnt.flush(run, "perm_"+strings.ReplaceAll(phase, " ", "_")+"_")
	}
	evaluate(v, "deploying node")
	checkManifests(run, v, stage, "deploying node", deps)
	v2, err := v.restart()
	if err != nil {
		run.Inconclusive("stage %s: node could not be restarted on its database: %v", stage, err)
		return
	}
	run.Obs("perm_node_restarts", 1)
	checkManifests(run, v2, stage, "restarted node", deps)
	evaluate(v2, "restarted node")
}

func contains(l []string, s string) bool {
	for _, x := range l {
		if x == s {
			return true
		}
	}
	return false
}

// --- what the node holds for a deployed manifest vs. what was deployed ------

// canonJSON renders the enforcement-relevant parts of the deployed JSON.
func canonJSON(mf []byte) (map[string]string, error) {
	var m struct {
		Groups []struct {
			PubKey string `json:"pubkey"`
		} `json:"groups"`
		ABI struct {
			Methods []struct {
				Name       string `json:"name"`
				Parameters []any  `json:"parameters"`
				Safe       bool   `json:"safe"`
			} `json:"methods"`
		} `json:"abi"`
		Permissions []struct {
			Contract string          `json:"contract"`
			Methods  json.RawMessage `json:"methods"`
		} `json:"permissions"`
		Trusts json.RawMessage `json:"trusts"`
	}
	if err := json.Unmarshal(mf, &m); err != nil {
		return nil, err
	}
	list := func(raw json.RawMessage) string {
		if string(raw) == `"*"` {
			return "*"
		}
		var l []string
		_ = json.Unmarshal(raw, &l)
		return "[" + strings.Join(l, ",") + "]"
	}
	res := map[string]string{}
	var ps, gs, ms []string
	for _, p := range m.Permissions {
		ps = append(ps, strings.ToLower(p.Contract)+":"+list(p.Methods))
	}
	for _, g := range m.Groups {
		gs = append(gs, strings.ToLower(g.PubKey))
	}
	for _, x := range m.ABI.Methods {
		ms = append(ms, fmt.Sprintf("%s/%d:safe=%v", x.Name, len(x.Parameters), x.Safe))
	}
	res["permissions"] = strings.Join(ps, ";")
	res["groups"] = strings.Join(gs, ";")
	res["safe-flags"] = strings.Join(ms, ";")
	res["trusts"] = strings.ToLower(list(m.Trusts))
	return res, nil
}

func descString(d *manifest.PermissionDesc) string {
	switch d.Type {
	case manifest.PermissionWildcard:
		return "*"
	case manifest.PermissionHash:
		return "0x" + d.Hash().StringLE()
	case manifest.PermissionGroup:
		return hex.EncodeToString(d.Group().Bytes())
	}
	return fmt.Sprintf("?%d", d.Type)
}

// canonManifest renders the same parts of a manifest object held by the node.
func canonManifest(m *manifest.Manifest) map[string]string {
	res := map[string]string{}
	var ps, gs, ms, ts []string
	for i := range m.Permissions {
		p := &m.Permissions[i]
		l := "*"
		if p.Methods.Value != nil { // nil is what the engine treats as "any method"
			l = "[" + strings.Join(p.Methods.Value, ",") + "]"
		}
		ps = append(ps, descString(&p.Contract)+":"+l)
	}
	for _, g := range m.Groups {
		gs = append(gs, hex.EncodeToString(g.PublicKey.Bytes()))
	}
	for _, x := range m.ABI.Methods {
		ms = append(ms, fmt.Sprintf("%s/%d:safe=%v", x.Name, len(x.Parameters), x.Safe))
	}
	t := "*"
	if !m.Trusts.Wildcard {
		for i := range m.Trusts.Value {
			ts = append(ts, descString(&m.Trusts.Value[i]))
		}
		t = "[" + strings.Join(ts, ",") + "]"
	}
	res["permissions"] = strings.Join(ps, ";")
	res["groups"] = strings.Join(gs, ";")
	res["safe-flags"] = strings.Join(ms, ";")
	res["trusts"] = t
	return res
}

// checkManifests compares, for every contract deployed by the matrix, the
// manifest the node holds (and the stack-item round trip it performs when it
// stores / reloads a contract) with the JSON that was deployed.
func checkManifests(run *ev.Run, v *env, stage, phase string, deps []deployment) {
	sections := []string{"permissions", "trusts", "groups", "safe-flags"}
	cmp := func(where string, d deployment, want, got map[string]string) {
		for _, sec := range sections {
			if want[sec] != got[sec] {
				violation(stage, "manifest-round-trip:"+sec+"-differ:"+where, "manifest/"+stage+"/"+d.name,
					fmt.Sprintf("contract %s: %s deployed as %q, %s has %q", d.name, sec, want[sec], where, got[sec]),
					map[string]any{"stage": stage, "contract": d.name, "deployed_manifest": string(d.mf), "where": where, "section": sec, "deployed": want[sec], "held": got[sec]})
			}
		}
	}
	n := int64(0)
	for _, d := range deps {
		if !run.Want("manifest/" + stage + "/" + d.name) {
			continue
		}
		want, err := canonJSON(d.mf)
		if err != nil {
			run.Inconclusive("cannot parse own manifest of %s: %v", d.name, err)
			continue
		}
		cs := v.bc.GetContractState(d.hash)
		if cs == nil {
			violation(stage, "manifest-round-trip:contract-missing:"+strings.ReplaceAll(phase, " ", "-"), "manifest/"+stage+"/"+d.name, "contract "+d.name+" not found on the "+phase, nil)
			continue
		}
		cmp("contract-state-on-"+strings.ReplaceAll(phase, " ", "-"), d, want, canonManifest(&cs.Manifest))
		n++
		if phase == "deploying node" {
			// the conversion the node applies when it stores and reloads a contract
			m := new(manifest.Manifest)
			if err := json.Unmarshal(d.mf, m); err != nil {
				run.Inconclusive("manifest of %s does not parse: %v", d.name, err)
				continue
			}
			it, err := m.ToStackItem()
			if err != nil {
				run.Inconclusive("manifest of %s has no stack item form: %v", d.name, err)
				continue
			}
			m2 := new(manifest.Manifest)
			if err := m2.FromStackItem(it); err != nil {
				violation(stage, "manifest-round-trip:stack-item-form-not-decodable", "manifest/"+stage+"/"+d.name, err.Error(), map[string]any{"deployed_manifest": string(d.mf)})
				continue
			}
			cmp("stack-item-form", d, want, canonManifest(m2))
			run.Case("manifest-round-trip/"+stage+"/"+want["permissions"]+"/"+want["trusts"]+"/"+want["groups"], true)
		}
	}
	run.Obs("manifests_compared_on_"+strings.ReplaceAll(phase, " ", "_"), n)
}

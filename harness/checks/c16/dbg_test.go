package c16

import (
	"fmt"
	"testing"

	"github.com/nspcc-dev/neo-go/pkg/smartcontract/callflag"
)

func TestDbg(t *testing.T) {
	v := newEnv(t, "all")
	cases, _, _ := v.sysCases()
	for _, c := range cases {
		h := v.probes[0].Hash
		o, err := v.run(&invocation{Script: c.Script, EntryFlags: callflag.All, AsHash: &h, Preload: c.Preload})
		fmt.Println(c.id(), err, o.summary(v.name), o.Fault)
	}
}

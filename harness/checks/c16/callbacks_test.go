package c16

import (
	"encoding/hex"
	"encoding/json"
	"fmt"
	"sort"
	"strings"
	"sync"

	"github.com/nspcc-dev/neo-go/pkg/core/native/nativenames"
	"github.com/nspcc-dev/neo-go/pkg/core/transaction"
	"github.com/nspcc-dev/neo-go/pkg/io"
	"github.com/nspcc-dev/neo-go/pkg/neotest"
	"github.com/nspcc-dev/neo-go/pkg/smartcontract"
	"github.com/nspcc-dev/neo-go/pkg/smartcontract/callflag"
	"github.com/nspcc-dev/neo-go/pkg/smartcontract/manifest"
	"github.com/nspcc-dev/neo-go/pkg/util"
	"github.com/nspcc-dev/neo-go/pkg/vm/emit"
	"github.com/nspcc-dev/neo-go/pkg/vm/opcode"
	"github.com/nspcc-dev/neo-go/pkg/vm/stackitem"
	"github.com/nspcc-dev/neo-go/pkg/vm/vmstate"
	"github.com/nspcc-dev/neo-go/verifharness/vlib/ev"
	"github.com/nspcc-dev/neo-go/verifharness/vlib/rng"
)

// Call chains that pass through a callback made BY a native contract:
//
//	entry [-> relay probe : f1] -> native method : f -> callback of a probe [-> probe -> probe]
//
// The native methods that call back into deployed contracts (payment callbacks
// of NEP-17 transfers and of GAS mints caused by NEO transfers / votes / vote
// revocation on destroy and blockAccount, _deploy on deploy / update, the
// oracle response callback, Notary's withdrawal transfer, the token calls of
// Policy.recoverFund) are invoked under every flag set; the callback reads its
// flags, tries one effect and relays to further probes with a plan that it
// gets as its data argument or that the same script stored before. Every edge
// of such a chain, the native -> contract one included, is judged by the
// effect monitor exactly like the edges made by System.Contract.Call.

// cbState is the chain state the callback chains need.
type cbState struct {
	H *neotest.Contract // holds NEO, never voted
	V *neotest.Contract // holds NEO, voted for user (where user is a candidate)
	S *neotest.Contract // holds NEO; its callbacks are marked safe in the manifest
	T *neotest.Contract // declares NEP-17, balanceOf marked safe: the token of Policy.recoverFund
	D *neotest.Contract // compiled, deployed only inside monitored invocations

	nefD, mfD []byte
	nefH, mfH []byte
	voted     bool
	// oracle requests: label -> id
	oracle map[string]uint64
}

func markSafe(names ...string) func(*manifest.Manifest) {
	return func(m *manifest.Manifest) {
		for i := range m.ABI.Methods {
			for _, n := range names {
				if m.ABI.Methods[i].Name == n {
					m.ABI.Methods[i].Safe = true
				}
			}
		}
	}
}

// dataPlanForOracle is the plan baked into the second oracle request of a
// probe (user data is fixed when the request is made): put, then call B.
func (v *env) dataPlanForOracle() []any {
	return []any{1, []byte("k-od"), []any{v.probes[1].Hash, "probe", int(callflag.All), 1, []byte("k-od2"), []any{}}}
}

func (v *env) setupCallbackState(ws *witnessState, log *setupLog) *cbState {
	t, e := v.t, v.e
	cs := &cbState{oracle: map[string]uint64{}}
	val := v.val
	deploy := func(name string, mod func(*manifest.Manifest)) *neotest.Contract {
		c := compileProbe(t, val.ScriptHash(), name)
		if mod != nil {
			mod(c.Manifest)
		}
		e.DeployContract(t, c, nil)
		v.names[c.Hash] = name
		v.mfsMu.Lock()
		v.mfs[c.Hash] = c.Manifest
		v.mfsMu.Unlock()
		return c
	}
	cs.H = deploy("probeH", nil)
	cs.V = deploy("probeV", nil)
	cs.S = deploy("probeS", markSafe("onNEP17Payment", "oracleCb"))
	cs.T = deploy("probeT", func(m *manifest.Manifest) {
		m.SupportedStandards = []string{manifest.NEP17StandardName}
		markSafe("balanceOf")(m)
	})
	cs.D = compileProbe(t, v.user.ScriptHash(), "probeE")
	v.names[cs.D.Hash] = "probeE"
	v.mfsMu.Lock()
	v.mfs[cs.D.Hash] = cs.D.Manifest
	v.mfsMu.Unlock()
	cs.nefD, _ = cs.D.NEF.Bytes()
	cs.mfD, _ = json.Marshal(cs.D.Manifest)
	cs.nefH, _ = cs.H.NEF.Bytes()
	cs.mfH, _ = json.Marshal(cs.H.Manifest)

	gasH, neoH := v.native(nativenames.Gas), v.native(nativenames.Neo)
	// S is armed with a plan that does nothing, so that the payments funding it
	// succeed whether or not a safe-marked callback is allowed to write.
	v.chainTx(log, "arm probeS with the empty plan", []neotest.Signer{val}, cs.S.Hash, "arm", 0, []byte("k"), []any{})
	var fund []*transaction.Transaction
	for i, c := range []*neotest.Contract{cs.H, cs.V, cs.S, cs.T} {
		fund = append(fund, e.NewTx(t, []neotest.Signer{val}, gasH, "transfer", val.ScriptHash(), c.Hash, int64(50_0000_0000), nil))
		if c != cs.T {
			fund = append(fund, e.NewTx(t, []neotest.Signer{val}, neoH, "transfer", val.ScriptHash(), c.Hash, int64(100-30*i), nil))
		}
	}
	e.AddBlockCheckHalt(t, fund...)
	user := neotest.Signer(v.user)
	if ws.userCand {
		tx := e.NewTx(t, []neotest.Signer{user}, cs.V.Hash, "call", neoH, "vote", int(callflag.All), []any{cs.V.Hash, v.user.Account().PublicKey().Bytes()})
		e.AddNewBlock(t, tx)
		aer, err := v.bc.GetAppExecResults(tx.Hash(), 0x40)
		cs.voted = err == nil && len(aer) > 0 && aer[0].VMState == vmstate.Halt && len(aer[0].Stack) == 1 && aer[0].Stack[0].Value() == true
		if cs.voted {
			log.OK = append(log.OK, "probeV votes for user")
		} else {
			log.Failed = append(log.Failed, "probeV votes for user")
		}
	}
	if or, ok := v.natives[nativenames.Oracle]; ok {
		req := func(label string, c *neotest.Contract, data any) {
			tx := e.NewUnsignedTx(t, c.Hash, "callVoid", or.Hash, "request", int(callflag.All), []any{"https://x.y/" + label, nil, "oracleCb", data, int64(1000_0000)})
			e.SignTx(t, tx, -1, user)
			e.AddNewBlock(t, tx)
			aer, err := v.bc.GetAppExecResults(tx.Hash(), 0x40)
			if err != nil || len(aer) == 0 || aer[0].VMState != vmstate.Halt {
				log.Failed = append(log.Failed, "oracle request "+label)
				return
			}
			for _, n := range aer[0].Events {
				if n.Name == "OracleRequest" && n.ScriptHash == or.Hash {
					if arr := n.Item.Value().([]stackitem.Item); len(arr) > 0 {
						if id, err := arr[0].TryInteger(); err == nil {
							cs.oracle[label] = id.Uint64()
							log.OK = append(log.OK, "oracle request "+label)
							return
						}
					}
				}
			}
			log.Failed = append(log.Failed, "oracle request "+label+": id not found")
		}
		req("H", cs.H, nil)
		req("H-data", cs.H, v.dataPlanForOracle())
		req("S", cs.S, nil)
	}
	// let GAS accrue for the NEO holders
	e.GenerateNewBlocks(t, 2)
	v.refreshNatives()
	v.cb = cs
	return cs
}

// cbPlan is what the callback does: one effect, then up to two relays.
type cbPlan struct {
	Act    int
	Hops   []hop // probes B / C of the environment (indices into v.probes)
	HopAct int   // effect of the last hop
	ByData bool  // the plan travels in the data argument (else it is stored by Arm first)
}

func (p cbPlan) String() string {
	var sb strings.Builder
	if p.ByData {
		sb.WriteString("data:")
	} else {
		sb.WriteString("armed:")
	}
	sb.WriteString(actNames[p.Act])
	for _, h := range p.Hops {
		fmt.Fprintf(&sb, ">%c.%s:%s", 'A'+h.Probe, h.Method, fstr(h.Flags))
	}
	if len(p.Hops) > 0 {
		sb.WriteString("=" + actNames[p.HopAct])
	}
	return sb.String()
}

func init() { actNames[8] = "put+notify" }

// planArgs gives the (act, key, next) triple of a plan.
func (v *env) planArgs(p cbPlan, notifyScript []byte) (int, []byte, []any) {
	keyFor := func(a int, k string) []byte {
		switch a {
		case 6:
			return notifyScript
		case 7:
			return v.user.ScriptHash().BytesBE()
		}
		return []byte(k)
	}
	next := []any{}
	for i := len(p.Hops) - 1; i >= 0; i-- {
		a := 0
		if i == len(p.Hops)-1 {
			a = p.HopAct
		}
		h := p.Hops[i]
		next = []any{v.probes[h.Probe].Hash, h.Method, int(h.Flags), a, keyFor(a, fmt.Sprintf("k-cb%d", i+1)), next}
	}
	return p.Act, keyFor(p.Act, "k-cb"), next
}

// cbScenario is one native method that calls back into probes.
type cbScenario struct {
	ID        string
	Contract  string
	Method    string
	Void      bool
	Arm       []*neotest.Contract // probes whose callbacks run (armed with the plan when it is not passed as data)
	Relay     *neotest.Contract   // the native is called by this probe (needed where the native looks at its caller); nil = any
	NoRelay   bool                // must be called by the entry script
	DataAt    int                 // index of the data argument, -1 = the callback gets no data
	FixedData bool                // the data was fixed at set-up (oracle user data): no armed / data plans, one cell per flag set
	Args      []any
	Attrs     []transaction.Attribute
	Signers   []transaction.Signer
	TimeShift uint64
}

func (v *env) cbScenarios(ws *witnessState, cs *cbState) []*cbScenario {
	var res []*cbScenario
	add := func(s *cbScenario) {
		c := v.natives[s.Contract]
		if c == nil {
			return
		}
		md := c.Manifest.ABI.GetMethod(s.Method, len(s.Args))
		if md == nil {
			return
		}
		s.Void = md.ReturnType == smartcontract.VoidType
		res = append(res, s)
	}
	user, other := v.user.ScriptHash(), v.other.ScriptHash()
	userPub := v.user.Account().PublicKey().Bytes()
	mg, neo, gas, nt, or, pol := nativenames.Management, nativenames.Neo, nativenames.Gas, nativenames.Notary, nativenames.Oracle, nativenames.Policy
	H, V, S, T := cs.H, cs.V, cs.S, cs.T
	P := func(c ...*neotest.Contract) []*neotest.Contract { return c }
	withProbes := func(c ...*neotest.Contract) []transaction.Signer {
		s := v.allSigners()
		for _, x := range c {
			s = append(s, transaction.Signer{Account: x.Hash, Scopes: transaction.Global})
		}
		return s
	}

	// payment callbacks of plain transfers
	add(&cbScenario{ID: "GAS.transfer:user->H", Contract: gas, Method: "transfer", Arm: P(H), DataAt: 3, Args: []any{user, H.Hash, 5, nil}})
	add(&cbScenario{ID: "GAS.transfer:user->S(safe-marked-callback)", Contract: gas, Method: "transfer", Arm: P(S), DataAt: 3, Args: []any{user, S.Hash, 5, nil}})
	add(&cbScenario{ID: "GAS.transfer:H->V", Contract: gas, Method: "transfer", Arm: P(V), Relay: H, DataAt: 3, Args: []any{H.Hash, V.Hash, 5, nil}})
	// NEO transfers: payment callback of the receiver, then GAS minted to both ends
	add(&cbScenario{ID: "NEO.transfer:user->H(+GAS-mint-to-H)", Contract: neo, Method: "transfer", Arm: P(H), DataAt: 3, Args: []any{user, H.Hash, 1, nil}})
	add(&cbScenario{ID: "NEO.transfer:user->S(safe-marked-callback,+GAS-mint)", Contract: neo, Method: "transfer", Arm: P(S), DataAt: 3, Args: []any{user, S.Hash, 1, nil}})
	add(&cbScenario{ID: "NEO.transfer:H->user(GAS-mint-to-H)", Contract: neo, Method: "transfer", Arm: P(H), Relay: H, DataAt: -1, Args: []any{H.Hash, user, 1, nil}})
	add(&cbScenario{ID: "NEO.transfer:H->H:0(GAS-claim)", Contract: neo, Method: "transfer", Arm: P(H), Relay: H, DataAt: 3, Args: []any{H.Hash, H.Hash, 0, nil}})
	add(&cbScenario{ID: "NEO.transfer:H->V(three-callbacks)", Contract: neo, Method: "transfer", Arm: P(H, V), Relay: H, DataAt: 3, Args: []any{H.Hash, V.Hash, 2, nil}})
	// votes: GAS minted to the voter
	if ws.userCand {
		add(&cbScenario{ID: "NEO.vote:H-for-user(witness-by-signer)", Contract: neo, Method: "vote", Arm: P(H), DataAt: -1, Args: []any{H.Hash, userPub}, Signers: withProbes(H)})
		add(&cbScenario{ID: "NEO.vote:H-for-user(called-by-H)", Contract: neo, Method: "vote", Arm: P(H), Relay: H, DataAt: -1, Args: []any{H.Hash, userPub}})
		add(&cbScenario{ID: "NEO.vote:S-for-user(safe-marked-callback)", Contract: neo, Method: "vote", Arm: P(S), DataAt: -1, Args: []any{S.Hash, userPub}, Signers: withProbes(S)})
	}
	if cs.voted {
		add(&cbScenario{ID: "NEO.vote:V-revokes(called-by-V)", Contract: neo, Method: "vote", Arm: P(V), Relay: V, DataAt: -1, Args: []any{V.Hash, nil}})
	}
	// destroy / blockAccount: votes revoked, GAS minted to the contract
	add(&cbScenario{ID: "Management.destroy:H(NEO-holder)", Contract: mg, Method: "destroy", Arm: P(H), Relay: H, DataAt: -1, Args: []any{}})
	add(&cbScenario{ID: "Management.destroy:V(NEO-holder,voted)", Contract: mg, Method: "destroy", Arm: P(V), Relay: V, DataAt: -1, Args: []any{}})
	add(&cbScenario{ID: "Policy.blockAccount:H(NEO-holder)", Contract: pol, Method: "blockAccount", Arm: P(H), DataAt: -1, Args: []any{H.Hash}})
	add(&cbScenario{ID: "Policy.blockAccount:V(NEO-holder,voted)", Contract: pol, Method: "blockAccount", Arm: P(V), DataAt: -1, Args: []any{V.Hash}})
	add(&cbScenario{ID: "Policy.blockAccount:S(safe-marked-callback)", Contract: pol, Method: "blockAccount", Arm: P(S), DataAt: -1, Args: []any{S.Hash}})
	// _deploy
	add(&cbScenario{ID: "Management.deploy:E", Contract: mg, Method: "deploy", DataAt: 2, Args: []any{cs.nefD, cs.mfD, nil}})
	add(&cbScenario{ID: "Management.update:H", Contract: mg, Method: "update", Arm: P(H), Relay: H, DataAt: 2, Args: []any{cs.nefH, cs.mfH, nil}})
	add(&cbScenario{ID: "Management.update:H(no-data)", Contract: mg, Method: "update", Arm: P(H), Relay: H, DataAt: -1, Args: []any{cs.nefH, cs.mfH}})
	// oracle response
	for _, l := range []string{"H", "H-data", "S"} {
		id, ok := cs.oracle[l]
		if !ok {
			continue
		}
		p := H
		if l == "S" {
			p = S
		}
		add(&cbScenario{ID: "Oracle.finish:" + l, Contract: or, Method: "finish", Arm: P(p), NoRelay: true, DataAt: -1, FixedData: l == "H-data", Args: []any{},
			Attrs: []transaction.Attribute{{Type: transaction.OracleResponseT, Value: &transaction.OracleResponse{ID: id, Code: transaction.Success, Result: []byte{1, 2}}}}})
	}
	// Notary -> GAS.transfer -> payment callback
	if ws.otherDep {
		add(&cbScenario{ID: "Notary.withdraw:other->H", Contract: nt, Method: "withdraw", Arm: P(H), DataAt: -1, Args: []any{other, H.Hash}})
	}
	// Policy.recoverFund -> balanceOf / transfer of a deployed token
	add(&cbScenario{ID: "Policy.recoverFund:victim,token=T", Contract: pol, Method: "recoverFund", Arm: P(T), DataAt: -1, Args: []any{ws.victim.ScriptHash(), T.Hash}, TimeShift: 400 * 24 * 3600 * 1000})
	return res
}

// cbPlans lists the plans every scenario is run with.
func cbPlans(r *rng.R, nRandom int) []cbPlan {
	all, ro := callflag.All, callflag.ReadStates|callflag.AllowCall
	var ps []cbPlan
	for _, a := range []int{0, 1, 2, 3, 4, 6, 7, 8} {
		ps = append(ps, cbPlan{Act: a})
	}
	hopsets := [][]hop{
		{{1, "probe", all}},
		{{1, "probe", callflag.States | callflag.AllowNotify}},
		{{1, "probe", all}, {2, "probe", all}},
		{{1, "probe", ro}, {2, "probe", all}},
		{{1, "safeProbe", all}},
		{{1, "tryProbe", all}, {2, "probe", all}},
	}
	for i, hs := range hopsets {
		ps = append(ps, cbPlan{Act: 0, Hops: hs, HopAct: 1 + i%2})
		ps = append(ps, cbPlan{Act: 1, Hops: hs, HopAct: 2 - i%2})
	}
	acts := []int{0, 1, 2, 3, 4, 6, 7, 8}
	for range nRandom {
		p := cbPlan{Act: acts[r.Intn(len(acts))], HopAct: acts[r.Intn(len(acts))]}
		for i := range r.Intn(3) {
			f := callflag.CallFlag(r.Intn(16))
			if r.Chance(2, 3) {
				f |= ro
			}
			p.Hops = append(p.Hops, hop{1 + i, chainMethods[r.Intn(3)], f})
		}
		ps = append(ps, p)
	}
	return ps
}

// build assembles the script of one cell: [arm the probes] ; (entry | relay:f1) -> native:f.
func (v *env) cbScript(s *cbScenario, p cbPlan, relay *neotest.Contract, f1, f callflag.CallFlag, notifyScript []byte) ([]byte, error) {
	w := io.NewBufBinWriter()
	a, key, next := v.planArgs(p, notifyScript)
	args := append([]any{}, s.Args...)
	if p.ByData {
		args[s.DataAt] = []any{a, key, next}
	} else if !s.FixedData {
		for _, c := range s.Arm {
			emit.AppCall(w.BinWriter, c.Hash, "arm", callflag.All, a, key, next)
		}
	}
	h := v.natives[s.Contract].Hash
	if relay == nil {
		emit.AppCall(w.BinWriter, h, s.Method, f, args...)
	} else {
		m := "call"
		if s.Void {
			m = "callVoid"
		}
		emit.AppCall(w.BinWriter, relay.Hash, m, f1, h, s.Method, int(f), args)
	}
	if w.Err != nil {
		return nil, w.Err
	}
	return w.Bytes(), nil
}

// isProbe tells whether h is one of the deployed (non-native) contracts of the harness.
func (v *env) isProbe(h util.Uint160) bool {
	v.mfsMu.RLock()
	defer v.mfsMu.RUnlock()
	return v.mfs[h] != nil
}

func (v *env) isNative(h util.Uint160) bool {
	n, ok := v.names[h]
	return ok && v.natives[n] != nil && v.natives[n].Hash == h
}

// runCallbacks: scenarios x plans x (entry | relay flags) x all sixteen flag
// sets of the native method.
func runCallbacks(run *ev.Run, v *env, ws *witnessState, cs *cbState) {
	scs := v.cbScenarios(ws, cs)
	nRandom := ev.Pick(12, 200)
	if v.stage != "all" || v.variant != "" {
		nRandom /= 3
	}
	plans := cbPlans(rng.New(0xc16cb), nRandom)
	relayFlags := []callflag.CallFlag{callflag.All, callflag.All &^ callflag.AllowNotify, callflag.All &^ callflag.WriteStates, callflag.ReadStates | callflag.AllowCall, callflag.States | callflag.AllowNotify}
	if ev.Tier() == "thorough" && v.stage == "all" {
		relayFlags = nil
		for f := callflag.CallFlag(0); f <= callflag.All; f++ {
			relayFlags = append(relayFlags, f)
		}
	}
	notifyScript := asm(func(w *io.BinWriter) {
		emit.Array(w, 5)
		emit.String(w, "Ev")
		emit.Syscall(w, "System.Runtime.Notify")
	})
	type cell struct {
		s     *cbScenario
		p     cbPlan
		relay *neotest.Contract
		f1, f callflag.CallFlag
	}
	var cells []cell
	for _, s := range scs {
		var ps []cbPlan
		if s.FixedData {
			ps = []cbPlan{{Act: -1}}
		} else {
			for _, p := range plans {
				ps = append(ps, p)
				if s.DataAt >= 0 {
					q := p
					q.ByData = true
					ps = append(ps, q)
				}
			}
		}
		for _, p := range ps {
			for f := callflag.CallFlag(0); f <= callflag.All; f++ {
				if s.Relay == nil {
					cells = append(cells, cell{s, p, nil, callflag.All, f})
				}
				if s.NoRelay {
					continue
				}
				rel := s.Relay
				if rel == nil {
					rel = v.probes[0]
				}
				for _, f1 := range relayFlags {
					cells = append(cells, cell{s, p, rel, f1, f})
				}
			}
		}
	}
	cnt := &counters{m: map[string]int64{}}
	var mu sync.Mutex
	accepted := map[string]map[string]bool{} // scenario -> flag sets of the native under which a callback context was entered
	edgeKinds := map[string]bool{}           // native method -> callback entered
	perScenario := map[string]int{}
	parallel(len(cells), func(i int) {
		cl := cells[i]
		s := cl.s
		via := "entry"
		if cl.relay != nil {
			via = v.name(cl.relay.Hash) + ":" + fstr(cl.f1)
		}
		pl := "fixed-user-data"
		if cl.p.Act >= 0 {
			pl = cl.p.String()
		}
		id := fmt.Sprintf("callback/%s/%s/via=%s/f=%s/plan=%s", v.stage+v.variant, s.ID, via, fstr(cl.f), pl)
		if !run.Want(id) {
			return
		}
		script, err := v.cbScript(s, cl.p, cl.relay, cl.f1, cl.f, notifyScript)
		if err != nil {
			cnt.add("script_build_failed", 1)
			return
		}
		inv := &invocation{Script: script, EntryFlags: callflag.All, Attrs: s.Attrs, Signers: s.Signers, TimeShiftMs: s.TimeShift}
		o, err := v.run(inv)
		if err != nil {
			violation(v.stage, "panic-escaped-vm:callback:"+s.Contract+"."+s.Method, id, err.Error(), map[string]any{"script": hex.EncodeToString(script)})
			return
		}
		// edges native -> deployed contract, and what followed them
		nEdges, below := 0, 0
		lacking := 0
		for _, c := range o.Calls {
			if c.By.Op == opcode.CALL {
				continue
			}
			if v.isNative(c.By.Hash) && v.isProbe(c.CalleeHash) {
				nEdges++
				if c.By.Flags != callflag.All {
					lacking++
				}
				mu.Lock()
				edgeKinds[v.actor(c.By)] = true
				mu.Unlock()
			} else if nEdges > 0 {
				below++
			}
		}
		run.Case(id+"/"+o.summary(v.name), nEdges > 0)
		cnt.add("cells", 1)
		if o.Halted {
			cnt.add("halted", 1)
		} else if strings.Contains(o.Fault, "missing call flags") {
			cnt.add("refused_for_missing_flags", 1)
		}
		if nEdges > 0 {
			cnt.add("cells_where_a_native_entered_a_contract", 1)
			cnt.add("contexts_entered_by_natives", int64(nEdges))
			cnt.add("contexts_entered_below_a_callback", int64(below))
			if lacking > 0 {
				cnt.add("contexts_entered_by_natives_holding_less_than_All", int64(lacking))
				cnt.add("cells_where_the_native_held_less_than_All", 1)
			}
			if o.Halted {
				cnt.add("cells_halted_after_a_callback", 1)
			}
		}
		nr := 0
		for _, r := range o.FlagReads {
			if r.By.Via != nil && v.isNative(r.By.Via.Hash) {
				nr++
			}
		}
		cnt.add("getcallflags_answers_read_inside_callbacks", int64(nr))
		cnt.add("getcallflags_answers", int64(len(o.FlagReads)))
		cnt.add("final_writes", int64(len(o.FinalWrites)))
		cnt.add("final_notifications", int64(len(o.FinalNotifs)))
		cnt.add("rolled_back_writes", int64(o.TransientWrites))
		for _, w := range o.FinalWrites {
			if w.By.Via != nil && v.isNative(w.By.Via.Hash) && v.isProbe(w.By.Hash) {
				cnt.add("final_writes_made_by_callbacks", 1)
			}
		}
		for _, n := range o.FinalNotifs {
			if n.By.Via != nil && v.isNative(n.By.Via.Hash) && v.isProbe(n.By.Hash) {
				cnt.add("final_notifications_made_by_callbacks", 1)
			}
		}
		wit := map[string]any{"scenario": s.ID, "native": s.Contract + "." + s.Method, "called": via, "native_flags": fstr(cl.f), "callback_plan": pl, "script": hex.EncodeToString(script)}
		report(run, v, o, id, wit)
		mu.Lock()
		if nEdges > 0 {
			if accepted[s.ID] == nil {
				accepted[s.ID] = map[string]bool{}
			}
			accepted[s.ID][fstr(cl.f)] = true
			perScenario[s.ID]++
		}
		mu.Unlock()
		if i%2503 == 0 || (nEdges > 1 && i%211 == 0) {
			run.Sample(map[string]any{"case": id, "outcome": o.summary(v.name)})
		}
	})
	pfx := "callback_"
	if v.variant != "" {
		pfx = "callback" + v.variant + "_"
	}
	cnt.flush(run, pfx)
	if v.variant != "" {
		return
	}
	run.Obs("callback_scenarios_"+v.stage, int64(len(scs)))
	run.Obs("callback_plans_"+v.stage, int64(len(plans)))
	reached := 0
	var tab, dead []string
	for _, s := range scs {
		if perScenario[s.ID] > 0 {
			reached++
			var fs []string
			for f := range accepted[s.ID] {
				fs = append(fs, f)
			}
			sort.Strings(fs)
			tab = append(tab, fmt.Sprintf("%s: callback entered in %d cells, native flag sets %s", s.ID, perScenario[s.ID], strings.Join(fs, ",")))
		} else {
			dead = append(dead, s.ID)
		}
	}
	run.Obs("callback_scenarios_whose_callback_ran_"+v.stage, int64(reached))
	run.Note("callback_scenarios_"+v.stage, tab)
	run.Note("callback_scenarios_never_reaching_a_callback_"+v.stage, dead)
	var ek []string
	for k := range edgeKinds {
		ek = append(ek, k)
	}
	sort.Strings(ek)
	run.Note("natives_seen_entering_a_contract_"+v.stage, ek)
	run.Obs("native_methods_seen_entering_a_contract_"+v.stage, int64(len(ek)))
}

// runCallbackBlocks repeats a few callback chains as transactions in real
// blocks (at the very end: they change the chain) and compares what the block
// execution persisted with what the monitored test invocation of the same
// script showed: same VM state, and the callback's notification is in the
// application log iff the test invocation kept it. This ties the monitor's
// observations of native callbacks to block execution.
func runCallbackBlocks(run *ev.Run, v *env, ws *witnessState, cs *cbState) {
	t, e := v.t, v.e
	byID := map[string]*cbScenario{}
	for _, s := range v.cbScenarios(ws, cs) {
		byID[s.ID] = s
	}
	less := callflag.States | callflag.AllowNotify
	user := neotest.Signer(v.user)
	type blk struct {
		id      string
		f1, f   callflag.CallFlag
		relay   *neotest.Contract
		probe   *neotest.Contract
		signers []neotest.Signer
	}
	cells := []blk{
		{"GAS.transfer:user->S(safe-marked-callback)", callflag.All, callflag.All, nil, cs.S, []neotest.Signer{user}},
		{"GAS.transfer:user->H", callflag.All, callflag.All, nil, cs.H, []neotest.Signer{user}},
		{"NEO.vote:H-for-user(called-by-H)", callflag.All, less, cs.H, cs.H, []neotest.Signer{user}},
		{"NEO.vote:H-for-user(called-by-H)", callflag.All, callflag.All, cs.H, cs.H, []neotest.Signer{user}},
		{"Policy.blockAccount:S(safe-marked-callback)", callflag.All, less, nil, cs.S, []neotest.Signer{v.val, v.com}},
		{"Management.destroy:V(NEO-holder,voted)", callflag.All, less, cs.V, cs.V, []neotest.Signer{user}},
		{"Management.destroy:H(NEO-holder)", callflag.All, callflag.All, cs.H, cs.H, []neotest.Signer{user}},
	}
	plan := cbPlan{Act: 8} // put + notify
	for _, c := range cells {
		s := byID[c.id]
		if s == nil {
			continue
		}
		via := "entry"
		if c.relay != nil {
			via = v.name(c.relay.Hash) + ":" + fstr(c.f1)
		}
		id := fmt.Sprintf("callback-in-block/%s/%s/via=%s/f=%s/plan=%s", v.stage, s.ID, via, fstr(c.f), plan)
		if !run.Want(id) {
			continue
		}
		e.GenerateNewBlocks(t, 1) // GAS accrues for the NEO holders
		script, err := v.cbScript(s, plan, c.relay, c.f1, c.f, nil)
		if err != nil {
			continue
		}
		var sg []transaction.Signer
		for _, x := range c.signers {
			sg = append(sg, transaction.Signer{Account: x.ScriptHash(), Scopes: transaction.Global})
		}
		o, err := v.run(&invocation{Script: script, EntryFlags: callflag.All, Signers: sg})
		if err != nil {
			continue
		}
		evs := func(o *outcome) int {
			n := 0
			for _, x := range o.FinalNotifs {
				if x.By.Hash == c.probe.Hash && x.Name == "Ev" && x.By.Via != nil && v.isNative(x.By.Via.Hash) {
					n++
				}
			}
			return n
		}
		want := evs(o)
		tx := e.PrepareInvocationNoSign(t, script)
		tx.Signers = sg
		neotest.AddNetworkFee(t, v.bc, tx, c.signers...)
		e.AddSystemFee(tx, -1)
		tx.SystemFee += 1_0000_0000
		for _, x := range c.signers {
			if err := x.SignTx(v.bc.GetConfig().Magic, tx); err != nil {
				t.Fatalf("cannot sign: %v", err)
			}
		}
		e.AddNewBlock(t, tx)
		aer, err := v.bc.GetAppExecResults(tx.Hash(), 0x40)
		if err != nil || len(aer) == 0 {
			run.Inconclusive("no application log for %s", id)
			continue
		}
		got := 0
		// "Ev" events of the probe: one is emitted by nothing but the callback here
		for _, n := range aer[0].Events {
			if n.ScriptHash == c.probe.Hash && n.Name == "Ev" {
				got++
			}
		}
		halted := aer[0].VMState == vmstate.Halt
		run.Case(fmt.Sprintf("%s/block:halt=%v,callback-events=%d/test:%s", id, halted, got, o.summary(v.name)), want > 0 || got > 0)
		run.Obs("callback_chains_executed_in_real_blocks", 1)
		if halted == o.Halted && got == want {
			run.Obs("callback_chains_in_blocks_agreeing_with_the_monitored_test_invocation", 1)
			if got > 0 && c.f != callflag.All {
				run.Obs("callback_chains_in_blocks_where_the_native_held_less_than_All_and_the_callback_ran", 1)
			}
		} else {
			run.Inconclusive("block execution and test invocation disagree for %s: block halt=%v events=%d (%s), test invocation halt=%v events=%d", id, halted, got, aer[0].FaultException, o.Halted, want)
		}
		report(run, v, o, id, map[string]any{"scenario": s.ID, "script": hex.EncodeToString(script), "also_executed_in_block": tx.Hash().StringLE(), "block_vm_state": aer[0].VMState.String(), "callback_events_in_application_log": got})
	}
}

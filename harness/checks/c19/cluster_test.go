package c19

import (
	"encoding/hex"
	"fmt"
	"os"
	"path/filepath"
	"runtime"
	"slices"
	"sort"
	"strings"
	"sync"
	"sync/atomic"
	"testing"
	"time"

	"github.com/nspcc-dev/dbft"
	"github.com/nspcc-dev/neo-go/pkg/config"
	"github.com/nspcc-dev/neo-go/pkg/config/netmode"
	"github.com/nspcc-dev/neo-go/pkg/consensus"
	"github.com/nspcc-dev/neo-go/pkg/core"
	"github.com/nspcc-dev/neo-go/pkg/core/block"
	"github.com/nspcc-dev/neo-go/pkg/core/storage"
	"github.com/nspcc-dev/neo-go/pkg/core/transaction"
	"github.com/nspcc-dev/neo-go/pkg/crypto/hash"
	"github.com/nspcc-dev/neo-go/pkg/crypto/keys"
	"github.com/nspcc-dev/neo-go/pkg/io"
	"github.com/nspcc-dev/neo-go/pkg/neotest"
	"github.com/nspcc-dev/neo-go/pkg/network/bqueue"
	"github.com/nspcc-dev/neo-go/pkg/network/extpool"
	npayload "github.com/nspcc-dev/neo-go/pkg/network/payload"
	"github.com/nspcc-dev/neo-go/pkg/smartcontract"
	"github.com/nspcc-dev/neo-go/pkg/util"
	"github.com/nspcc-dev/neo-go/pkg/wallet"
	"github.com/nspcc-dev/neo-go/verifharness/vlib/vchain"
	"go.uber.org/zap"
	"go.uber.org/zap/zapcore"
)

// clusterCfg is the protocol-level configuration shared by all nodes of one
// simulated network.
type clusterCfg struct {
	N         int
	BlockTime time.Duration
	SRIH      bool          // StateRootInHeader: prepare requests carry and check the state root
	ExtPool   bool          // payloads pass a real extpool.Pool (witness, height, sender, dedup) first, as in network.Server
	MaxTx     int           // MaxTransactionsPerBlock (0 = default)
	MaxSysFee int64         // MaxBlockSystemFee (0 = default)
	Extra     int           // committee members beyond the N validators; they run nodes too (watch-only until elected)
	MaxTPB    time.Duration // MaxTimePerBlock (0 = off): empty proposals are postponed until a transaction arrives
	SwitchTo  int           // ValidatorsHistory: the number of validators changes from N to SwitchTo (0 = constant) ...
	SwitchAt  uint32        // ... at this height (a multiple of the committee size); the committee is all nodes
	MaxSize   uint32        // MaxBlockSize (0 = default)
	// Misconfigured validators (misconf_test.go): node-local block limits that
	// differ from everybody else's. The nodes run the same honest code.
	Mis        []misNode
	KeyLabel   string
	WalletsDir string
}

// misNode gives one node its own value of one block limit (the fields left
// zero keep the cluster's value).
type misNode struct {
	Node      int    `json:"node"`
	MaxTx     int    `json:"max_tx,omitempty"`
	MaxSize   uint32 `json:"max_size,omitempty"`
	MaxSysFee int64  `json:"max_sys_fee,omitempty"`
}

func (c clusterCfg) misOf(node int) *misNode {
	for i := range c.Mis {
		if c.Mis[i].Node == node {
			return &c.Mis[i]
		}
	}
	return nil
}

// F is the number of silent validators every validator set of the run
// tolerates (the smaller set decides when the count changes during the run).
func (c clusterCfg) F() int {
	n := c.N
	if c.SwitchTo > 0 {
		n = min(n, c.SwitchTo)
	}
	return (n - 1) / 3
}

// F7 is the number of silent validators the first validator set tolerates.
func (c clusterCfg) F7() int { return (c.N - 1) / 3 }

// MaxVals is the size of the largest validator set of the run.
func (c clusterCfg) MaxVals() int { return max(c.N, c.SwitchTo) }
func (c clusterCfg) Nodes() int   { return c.MaxVals() + c.Extra }

func (c clusterCfg) String() string {
	s := fmt.Sprintf("n=%d+%d srih=%v extpool=%v maxtx=%d maxsysfee=%d maxtpb=%s", c.N, c.Extra, c.SRIH, c.ExtPool, c.MaxTx, c.MaxSysFee, c.MaxTPB)
	if c.SwitchTo > 0 {
		s += fmt.Sprintf(" validators %d->%d at height %d", c.N, c.SwitchTo, c.SwitchAt)
	}
	if c.MaxSize > 0 {
		s += fmt.Sprintf(" maxsize=%d", c.MaxSize)
	}
	for _, m := range c.Mis {
		s += fmt.Sprintf(" node%d{", m.Node)
		if m.MaxTx > 0 {
			s += fmt.Sprintf("maxtx=%d", m.MaxTx)
		}
		if m.MaxSize > 0 {
			s += fmt.Sprintf("maxsize=%d", m.MaxSize)
		}
		if m.MaxSysFee > 0 {
			s += fmt.Sprintf("maxsysfee=%d", m.MaxSysFee)
		}
		s += "}"
	}
	return s
}

// blockEvent is one entry of the block event log: an AddBlock attempt made by
// a node's block queue.
type blockEvent struct {
	Seq         int64  `json:"seq"`
	Node        int    `json:"node"`
	Height      uint32 `json:"height"`
	Hash        string `json:"hash"`
	Err         string `json:"err,omitempty"`
	ChainHeight uint32 `json:"chain_height_before"`
	Phase       int    `json:"phase"`
	// after a successful AddBlock: the validators the ledger now names for the
	// next block, the address of their default multisignature account, and
	// the block's NextConsensus
	NextVals     int    `json:"next_validators,omitempty"`
	LedgerNextNC string `json:"ledger_next_consensus,omitempty"`
	BlockNextNC  string `json:"block_next_consensus,omitempty"`
	hash         util.Uint256
}

// commitRec is a block a validator's consensus service assembled and handed
// to its block queue ("committed"), serialized at that moment.
type commitRec struct {
	Seq    int64
	Node   int
	Height uint32
	Hash   util.Uint256
	Raw    []byte
	Phase  int
}

// prepRec is a PrepareRequest seen at the sender's Broadcast boundary.
type prepRec struct {
	Node      int // the node that sent it
	Validator int
	Height    uint32
	View      byte
	Txs       []util.Uint256
}

// respRec is a PrepareResponse seen at the sender's Broadcast boundary.
type respRec struct {
	Node   int
	Height uint32
	View   byte
}

// txRec is a transaction given to the network together with where and when it
// entered a validator's pool.
type txRec struct {
	Hash      util.Uint256
	VUB       uint32
	Size      int
	SysFee    int64
	NetFee    int64
	Raw       []byte
	mu        sync.Mutex
	PooledAt  map[int]uint32 // node -> its chain height right after PoolTx succeeded
	Requested bool           // reached some pool through RequestTx
	PreStart  bool           // pooled everywhere before the services started (full_test.go)
	Burst     int            // misconf schedules: the burst it belongs to (from 1)
	Deadline  uint32         // misconf schedules: the height by which it must be on chain
}

const maxPreps = 20000

// recorder is the event log of one schedule attempt. Only the harness writes to it.
type recorder struct {
	mu            sync.Mutex
	seq           int64
	phase         atomic.Int32
	events        []blockEvent
	commits       []commitRec
	preps         []prepRec
	resps         []respRec
	txs           map[util.Uint256]*txRec
	txOrder       []util.Uint256
	panics        []string
	fatals        []string
	msgTypes      map[string]int64
	maxView       map[uint32]byte          // per height, highest view seen in any payload
	commitViews   map[uint32]map[byte]bool // per height, the views commits were sent in
	prepsLostFrom uint32                   // lowest height of a prepare request that was not recorded (0 = none)
	logs          map[string]int64
	warns         []string
	// extpool verdicts
	xpRejects map[string]int64
	// every Commit a node broadcast: node -> height -> the distinct (view, signature) pairs
	sentCommits map[int]map[uint32][]sentCommit
	// ChangeView / RecoveryRequest payloads a node broadcast for a height it
	// had already broadcast a Commit for
	afterCommit []afterCommitRec
	// payloads a node's timer makes it send (proposal, change view, recovery
	// request / message): the logical clock of the post-fault progress verdict
	timerSent map[int]int64
	typeSent  map[int]map[string]int64 // node -> payload type -> broadcasts
	accepted  atomic.Int64             // successful AddBlock calls on any node
	// chain events the consensus loop handled while its ledger was already
	// further (several blocks arrived in one burst)
	ledgerAhead           int64
	lastAheadHeight       map[int]uint32 // node -> the height dBFT was initialised for by such an event
	commitsAfterBurstInit int64
	// the receive boundary: every payload handed to a node is decoded the way
	// its service will decode it (own lock: deliveries are many)
	rmu         sync.Mutex
	recvDecoded int64
	cvReasons   map[string]int64     // ChangeView payloads received, by reason
	undecodable map[string]*undecRec // "<type>[:<reason>]" -> first payload of an honest sender no receiver could decode
}

// undecRec is a payload that left an honest sender's encoder and failed to
// decode at a receiver.
type undecRec struct {
	Type      string `json:"type"`
	Reason    string `json:"change_view_reason,omitempty"`
	Receiver  int    `json:"receiver"`
	Validator int    `json:"sender_validator_index"`
	Height    uint32 `json:"height"`
	View      int    `json:"view"`
	Err       string `json:"error"`
	Raw       string `json:"payload_hex"`
	Count     int64  `json:"deliveries_that_failed_to_decode"`
}

type afterCommitRec struct {
	Node       int    `json:"node"`
	Height     uint32 `json:"height"`
	Type       string `json:"payload_type"`
	View       byte   `json:"view"`
	CommitView byte   `json:"view_of_its_commit"`
	Seq        int64  `json:"seq"`
	CommitSeq  int64  `json:"seq_of_its_commit"`
}

type sentCommit struct {
	View byte   `json:"view"`
	Sig  string `json:"signature"`
	Seq  int64  `json:"seq"`
}

func newRecorder() *recorder {
	return &recorder{txs: map[util.Uint256]*txRec{}, msgTypes: map[string]int64{}, maxView: map[uint32]byte{}, commitViews: map[uint32]map[byte]bool{}, logs: map[string]int64{}, xpRejects: map[string]int64{},
		sentCommits: map[int]map[uint32][]sentCommit{}, timerSent: map[int]int64{}, typeSent: map[int]map[string]int64{}, lastAheadHeight: map[int]uint32{},
		cvReasons: map[string]int64{}, undecodable: map[string]*undecRec{}}
}

func (r *recorder) nextSeq() int64 { r.seq++; return r.seq }

func (r *recorder) addEvent(e blockEvent) {
	r.mu.Lock()
	e.Seq = r.nextSeq()
	e.Phase = int(r.phase.Load())
	r.events = append(r.events, e)
	r.mu.Unlock()
	if e.Err == "" {
		r.accepted.Add(1)
	}
}

// sentOf returns how many payloads of the given types the node broadcast so far.
func (r *recorder) sentOf(node int, types ...string) (k int64) {
	r.mu.Lock()
	defer r.mu.Unlock()
	for _, t := range types {
		k += r.typeSent[node][t]
	}
	return
}

// timerSentBy returns a copy of the per-node counters of timer-driven payloads.
func (r *recorder) timerSentBy(n int) []int64 {
	r.mu.Lock()
	defer r.mu.Unlock()
	v := make([]int64, n)
	for i := range v {
		v[i] = r.timerSent[i]
	}
	return v
}

func (r *recorder) addCommit(c commitRec) {
	r.mu.Lock()
	c.Seq = r.nextSeq()
	c.Phase = int(r.phase.Load())
	r.commits = append(r.commits, c)
	r.mu.Unlock()
}

func (r *recorder) panicked(where string, x any) {
	buf := make([]byte, 4096)
	buf = buf[:runtime.Stack(buf, false)]
	r.mu.Lock()
	r.panics = append(r.panics, fmt.Sprintf("%s: %v\n%s", where, x, buf))
	r.mu.Unlock()
}

// node is one validator: ledger, block queue, consensus service and the small
// part of network.Server that sits between them and the wire.
type node struct {
	idx    int
	cl     *cluster
	bc     *core.Blockchain
	bq     *bqueue.Queue[*block.Block]
	bqDone chan struct{}
	srv    consensus.Service
	xp     *extpool.Pool
	cbList atomic.Value // []util.Uint256, as Server.txCbList
	dead   atomic.Bool  // the service logged at Fatal level
}

type cluster struct {
	t     testing.TB
	cfg   clusterCfg
	nodes []*node
	net   *simnet
	rec   *recorder
	keys  []*keys.PrivateKey
	multi neotest.Signer
	magic netmode.Magic
	pcfg  func(*config.Blockchain)
	// transactions no peer hands out on request (losttx_test.go): the relay
	// path of that one transaction is broken
	withheld sync.Map // util.Uint256 -> struct{}
}

// sortedKeys derives n deterministic keys ordered by public key, so that node
// index == validator index.
func sortedKeys(label string, n int) []*keys.PrivateKey {
	ks := make([]*keys.PrivateKey, n)
	for i := range ks {
		ks[i] = vchain.DetKey(label, i)
	}
	sort.Slice(ks, func(i, j int) bool { return ks[i].PublicKey().Cmp(ks[j].PublicKey()) < 0 })
	return ks
}

func protoCfg(c clusterCfg, ks []*keys.PrivateKey) func(*config.Blockchain) {
	var committee []string
	for _, k := range ks {
		committee = append(committee, k.PublicKey().StringCompressed())
	}
	return func(b *config.Blockchain) {
		b.ProtocolConfiguration = config.ProtocolConfiguration{
			Magic:                       netmode.UnitTestNet,
			MaxTraceableBlocks:          200000,
			MaxValidUntilBlockIncrement: 1000,
			TimePerBlock:                c.BlockTime,
			Genesis:                     config.Genesis{TimePerBlock: c.BlockTime},
			StandbyCommittee:            committee,
			ValidatorsCount:             uint32(c.N),
			VerifyTransactions:          true,
			StateRootInHeader:           c.SRIH,
			MaxTransactionsPerBlock:     uint16(c.MaxTx),
			MaxBlockSystemFee:           c.MaxSysFee,
			MaxBlockSize:                c.MaxSize,
			MaxTimePerBlock:             c.MaxTPB,
			MemPoolSize:                 5000,
			Hardforks:                   nil, // all stable hardforks from genesis
		}
		if c.SwitchTo > 0 {
			b.ProtocolConfiguration.ValidatorsCount = 0
			b.ProtocolConfiguration.ValidatorsHistory = map[uint32]uint32{0: uint32(c.N), c.SwitchAt: uint32(c.SwitchTo)}
		}
	}
}

// protoCfgOf is the configuration of one node: the cluster's, with the
// node-local block limits of a misconfigured validator.
func protoCfgOf(c clusterCfg, ks []*keys.PrivateKey, node int) func(*config.Blockchain) {
	base := protoCfg(c, ks)
	m := c.misOf(node)
	if m == nil {
		return base
	}
	return func(b *config.Blockchain) {
		base(b)
		if m.MaxTx > 0 {
			b.ProtocolConfiguration.MaxTransactionsPerBlock = uint16(m.MaxTx)
		}
		if m.MaxSize > 0 {
			b.ProtocolConfiguration.MaxBlockSize = m.MaxSize
		}
		if m.MaxSysFee > 0 {
			b.ProtocolConfiguration.MaxBlockSystemFee = m.MaxSysFee
		}
	}
}

func openLedger(pc func(*config.Blockchain)) (*core.Blockchain, error) {
	var cfg config.Blockchain
	pc(&cfg)
	bc, err := core.NewBlockchain(storage.NewMemoryStore(), cfg, zap.NewNop(), nil)
	if err != nil {
		return nil, err
	}
	go bc.Run()
	return bc, nil
}

// chainAdapter is network.chainBlockQueueAdapter plus the event log.
type chainAdapter struct{ n *node }

func (a chainAdapter) AddItem(b *block.Block) (err error) {
	h := a.n.bc.BlockHeight()
	defer func() {
		if x := recover(); x != nil {
			a.n.cl.rec.panicked(fmt.Sprintf("AddBlock(node %d, height %d)", a.n.idx, b.Index), x)
			err = fmt.Errorf("panic: %v", x)
		}
	}()
	err = a.n.bc.AddBlock(b)
	e := blockEvent{Node: a.n.idx, Height: b.Index, Hash: b.Hash().StringLE(), hash: b.Hash(), ChainHeight: h}
	if err != nil {
		e.Err = err.Error()
	} else if vals, verr := a.n.bc.GetNextBlockValidators(); verr == nil {
		// only this goroutine (the queue's) adds blocks to this ledger, so the
		// ledger still stands at b
		if script, serr := smartcontract.CreateDefaultMultiSigRedeemScript(vals); serr == nil {
			e.NextVals = len(vals)
			e.LedgerNextNC = hash.Hash160(script).StringLE()
			e.BlockNextNC = b.NextConsensus.StringLE()
		}
	}
	a.n.cl.rec.addEvent(e)
	if debugLogs && os.Getenv("C19_DEBUG") == "2" {
		fmt.Printf("%s LOG node%d ledger=%d ADDBLOCK %d done err=%v\n", time.Now().Format("05.000000"), a.n.idx, a.n.bc.BlockHeight(), b.Index, err)
	}
	return err
}
func (a chainAdapter) AddItems(...*block.Block) error { panic("not used for blocks") }
func (a chainAdapter) Height() uint32                 { return a.n.bc.BlockHeight() }

// commitQueue is what the consensus service sees as its BlockQueuer: it logs
// the committed block (serialized) and passes it to the node's real queue.
type commitQueue struct{ n *node }

func (q commitQueue) Put(b *block.Block) error {
	q.n.cl.rec.addCommit(commitRec{Node: q.n.idx, Height: b.Index, Hash: b.Hash(), Raw: vchain.EncodeBlock(b)})
	return q.n.bq.Put(b)
}

var debugLogs = os.Getenv("C19_DEBUG") != ""

// logCore collects what the consensus service and dBFT log.
type logCore struct {
	n   *node
	rec *recorder
}

func (c *logCore) Enabled(l zapcore.Level) bool      { return l >= zapcore.DebugLevel }
func (c *logCore) With([]zapcore.Field) zapcore.Core { return c }
func (c *logCore) Sync() error                       { return nil }

// msgChainEvent is the one Debug entry that is kept: the consensus loop
// re-initialises dBFT after a block of its ledger.
const msgChainEvent = "new block in the chain"

func (c *logCore) Check(e zapcore.Entry, ce *zapcore.CheckedEntry) *zapcore.CheckedEntry {
	if e.Level >= zapcore.InfoLevel || e.Message == msgChainEvent {
		return ce.AddCore(e, c)
	}
	return ce
}
func (c *logCore) Write(e zapcore.Entry, fields []zapcore.Field) error {
	if e.Level < zapcore.InfoLevel {
		enc := zapcore.NewMapObjectEncoder()
		for _, f := range fields {
			f.AddTo(enc)
		}
		di, _ := enc.Fields["dbft index"].(uint32)
		ci, _ := enc.Fields["chain index"].(uint32)
		if debugLogs && os.Getenv("C19_DEBUG") == "2" {
			fmt.Printf("%s LOG node%d ledger=%d phase=%d chain event: dbft index %d chain index %d\n", time.Now().Format("05.000000"), c.n.idx, c.n.bc.BlockHeight(), c.rec.phase.Load(), di, ci)
		}
		c.rec.mu.Lock()
		c.rec.logs["debug:"+e.Message]++
		if ci > di {
			c.rec.ledgerAhead++
			c.rec.lastAheadHeight[c.n.idx] = ci + 1
		}
		c.rec.mu.Unlock()
		return nil
	}
	if debugLogs && os.Getenv("C19_DEBUG") == "2" {
		enc := zapcore.NewMapObjectEncoder()
		for _, f := range fields {
			f.AddTo(enc)
		}
		fmt.Printf("%s LOG node%d ledger=%d phase=%d %s %s %v\n", time.Now().Format("05.000000"), c.n.idx, c.n.bc.BlockHeight(), c.rec.phase.Load(), e.Level, e.Message, enc.Fields)
	}
	c.rec.mu.Lock()
	defer c.rec.mu.Unlock()
	c.rec.logs[e.Level.String()+":"+e.Message]++
	if e.Level >= zapcore.WarnLevel && len(c.rec.warns) < 400 {
		enc := zapcore.NewMapObjectEncoder()
		for _, f := range fields {
			f.AddTo(enc)
		}
		c.rec.warns = append(c.rec.warns, fmt.Sprintf("node%d %s %s %v", c.n.idx, e.Level, e.Message, enc.Fields))
		if strings.Contains(e.Message, "commit signature") { // rare and worth a look: always in the part's log
			fmt.Printf("NOTE %s node%d (of %d, key label %s) ledger=%d phase=%d %s %s %v\n", time.Now().Format("05.000000"), c.n.idx, len(c.n.cl.nodes), c.n.cl.cfg.KeyLabel, c.n.bc.BlockHeight(), c.rec.phase.Load(), e.Level, e.Message, enc.Fields)
		}
		if debugLogs {
			fmt.Printf("LOG node%d h=%d %s %s %v\n", c.n.idx, c.n.bc.BlockHeight(), e.Level, e.Message, enc.Fields)
		}
	}
	return nil
}

type fatalHook struct {
	n   *node
	rec *recorder
}

func (h fatalHook) OnWrite(ce *zapcore.CheckedEntry, _ []zapcore.Field) {
	h.n.dead.Store(true)
	h.rec.mu.Lock()
	h.rec.fatals = append(h.rec.fatals, fmt.Sprintf("node%d: %s", h.n.idx, ce.Message))
	h.rec.mu.Unlock()
	runtime.Goexit()
}

func newCluster(t testing.TB, cfg clusterCfg, net *simnet) (*cluster, error) {
	cl := &cluster{t: t, cfg: cfg, net: net, rec: newRecorder(), magic: netmode.UnitTestNet}
	// all committee keys in key order: the first N are the standby validators,
	// node index == validator index as long as the standby set is in office
	cl.keys = sortedKeys(cfg.KeyLabel, cfg.Nodes())
	cl.pcfg = protoCfg(cfg, cl.keys)
	pubs := make(keys.PublicKeys, cfg.N)
	for i, k := range cl.keys[:cfg.N] {
		pubs[i] = k.PublicKey()
	}
	var accs []*wallet.Account
	for _, k := range cl.keys[:cfg.N] {
		a := wallet.NewAccountFromPrivateKey(k)
		if err := a.ConvertMultisig(smartcontract.GetDefaultHonestNodeCount(cfg.N), pubs); err != nil {
			return nil, err
		}
		accs = append(accs, a)
	}
	cl.multi = neotest.NewMultiSigner(accs...)
	net.attach(cl)
	for i := 0; i < cfg.Nodes(); i++ {
		nd := &node{idx: i, cl: cl, bqDone: make(chan struct{})}
		bc, err := openLedger(protoCfgOf(cfg, cl.keys, i))
		if err != nil {
			return nil, fmt.Errorf("ledger %d: %w", i, err)
		}
		nd.bc = bc
		nd.bq = bqueue.New[*block.Block](chainAdapter{nd}, zap.NewNop(), nd.relayBlock, 64, nil, bqueue.NonBlocking)
		if cfg.ExtPool {
			nd.xp = extpool.New(bc, 100, nil)
		}
		// wallet file with this validator's key only
		path := filepath.Join(cfg.WalletsDir, fmt.Sprintf("wallet%d.json", i))
		w, err := wallet.NewWallet(path)
		if err != nil {
			return nil, err
		}
		w.Scrypt = keys.ScryptParams{N: 2, R: 1, P: 1}
		kc, err := keys.NewPrivateKeyFromBytes(cl.keys[i].Bytes()) // Wallet.Close wipes the key it holds
		if err != nil {
			return nil, err
		}
		acc := wallet.NewAccountFromPrivateKey(kc)
		pass := fmt.Sprintf("pass-%d", i)
		if err := acc.Encrypt(pass, w.Scrypt); err != nil {
			return nil, err
		}
		w.AddAccount(acc)
		if err := w.Save(); err != nil {
			return nil, err
		}
		w.Close()
		logger := zap.New(&logCore{n: nd, rec: cl.rec}, zap.WithFatalHook(fatalHook{nd, cl.rec}))
		srv, err := consensus.NewService(consensus.Config{
			Logger:                logger,
			Broadcast:             nd.broadcast,
			Chain:                 bc,
			BlockQueue:            commitQueue{nd},
			ProtocolConfiguration: bc.GetConfig().ProtocolConfiguration,
			RequestTx:             nd.requestTx,
			StopTxFlow:            func() { nd.cbList.Store([]util.Uint256(nil)) },
			Wallet:                config.Wallet{Path: path, Password: pass},
		})
		if err != nil {
			return nil, fmt.Errorf("service %d: %w", i, err)
		}
		nd.srv = srv
		cl.nodes = append(cl.nodes, nd)
	}
	return cl, nil
}

func (cl *cluster) start() {
	for _, nd := range cl.nodes {
		go func(nd *node) { defer close(nd.bqDone); nd.bq.Run() }(nd)
	}
	for _, nd := range cl.nodes {
		nd.srv.Start()
	}
}

// stop shuts everything down; the network must already be closed and drained.
func (cl *cluster) stop() (problems []string) {
	for _, nd := range cl.nodes {
		if nd.dead.Load() {
			continue // its event loop is gone, Shutdown would wait forever
		}
		done := make(chan struct{})
		go func() { nd.srv.Shutdown(); close(done) }()
		select {
		case <-done:
		case <-time.After(30 * time.Second):
			problems = append(problems, fmt.Sprintf("node %d: consensus Shutdown did not return in 30 s", nd.idx))
		}
	}
	for _, nd := range cl.nodes {
		nd.bq.Discard()
		select {
		case <-nd.bqDone:
		case <-time.After(30 * time.Second):
			problems = append(problems, fmt.Sprintf("node %d: block queue did not stop in 30 s", nd.idx))
		}
	}
	return
}

func (cl *cluster) closeLedgers() {
	for _, nd := range cl.nodes {
		nd.bc.Close()
	}
}

func (cl *cluster) heights() []uint32 {
	hs := make([]uint32, len(cl.nodes))
	for i, nd := range cl.nodes {
		hs[i] = nd.bc.BlockHeight()
	}
	return hs
}

// validatorNodes marks the nodes whose key is among the validators of the
// next block, as the highest ledger sees it.
func (cl *cluster) validatorNodes() []bool {
	hs := cl.heights()
	best := 0
	for i := range hs {
		if hs[i] > hs[best] {
			best = i
		}
	}
	r := make([]bool, len(cl.nodes))
	vals, err := cl.nodes[best].bc.GetNextBlockValidators()
	if err != nil {
		return r
	}
	for _, v := range vals {
		for i, k := range cl.keys {
			if v.Equal(k.PublicKey()) {
				r[i] = true
			}
		}
	}
	return r
}

func maxU32(v []uint32) uint32 { return slices.Max(v) }
func minU32(v []uint32) uint32 { return slices.Min(v) }

// ---- the wire side of a node (what network.Server does) ----

// broadcast is Config.Broadcast: serialize once, observe, hand to the network.
func (nd *node) broadcast(p *npayload.Extensible) {
	w := io.NewBufBinWriter()
	p.EncodeBinary(w.BinWriter)
	if w.Err != nil {
		nd.cl.rec.panicked("encode payload", w.Err)
		return
	}
	raw := w.Bytes()
	typ, view, height := nd.cl.observePayload(nd.idx, raw)
	for j := range nd.cl.nodes {
		if j == nd.idx {
			continue
		}
		dst := nd.cl.nodes[j]
		nd.cl.net.sendH(nd.idx, j, "payload", typ, view, height, func() { dst.onExtensibleRaw(raw) })
	}
}

// observePayload decodes the payload the way a receiver would, for statistics
// and for the inclusion oracle (prepare requests).
func (cl *cluster) observePayload(from int, raw []byte) (string, int, uint32) {
	p := consensus.NewPayload(cl.magic, cl.cfg.SRIH)
	r := io.NewBinReaderFromBuf(raw)
	p.DecodeBinary(r)
	rec := cl.rec
	rec.mu.Lock()
	defer rec.mu.Unlock()
	if r.Err != nil {
		// the envelope and the fixed message header (type, height, validator,
		// view) are still readable
		typ := "undecodable"
		var q npayload.Extensible
		r2 := io.NewBinReaderFromBuf(raw)
		q.DecodeBinary(r2)
		if r2.Err == nil && len(q.Data) >= 7 {
			switch q.Data[0] {
			case 0x00, 0x20, 0x40, 0x41:
				rec.timerSent[from]++
			}
			typ = fmt.Sprintf("undecodable:type-0x%02x", q.Data[0])
		}
		rec.msgTypes[typ]++
		return "undecodable", -1, 0
	}
	rec.msgTypes[p.Type().String()]++
	if rec.typeSent[from] == nil {
		rec.typeSent[from] = map[string]int64{}
	}
	rec.typeSent[from][p.Type().String()]++
	if p.ViewNumber() > rec.maxView[p.Height()] {
		rec.maxView[p.Height()] = p.ViewNumber()
	}
	switch p.Type().String() {
	case "Commit":
		if rec.commitViews[p.Height()] == nil {
			rec.commitViews[p.Height()] = map[byte]bool{}
		}
		rec.commitViews[p.Height()][p.ViewNumber()] = true
		if rec.sentCommits[from] == nil {
			rec.sentCommits[from] = map[uint32][]sentCommit{}
		}
		sc := sentCommit{View: p.ViewNumber(), Sig: hex.EncodeToString(p.GetCommit().Signature()), Seq: rec.nextSeq()}
		if !slices.ContainsFunc(rec.sentCommits[from][p.Height()], func(x sentCommit) bool { return x.View == sc.View && x.Sig == sc.Sig }) {
			rec.sentCommits[from][p.Height()] = append(rec.sentCommits[from][p.Height()], sc)
		}
		if rec.lastAheadHeight[from] == p.Height() {
			rec.commitsAfterBurstInit++
		}
	case "RecoveryMessage":
		rec.timerSent[from]++
		rec.msgTypes["RecoveryMessage:"+cl.recoveryShape(from, p)]++
		if p.ViewNumber() > 0 {
			rec.msgTypes["RecoveryMessage:view>=1"]++
		}
	case "ChangeView", "RecoveryRequest":
		rec.timerSent[from]++
		if cs := rec.sentCommits[from][p.Height()]; len(cs) > 0 && len(rec.afterCommit) < 200 {
			rec.afterCommit = append(rec.afterCommit, afterCommitRec{from, p.Height(), p.Type().String(), p.ViewNumber(), cs[0].View, rec.nextSeq(), cs[0].Seq})
		}
	case "PrepareRequest":
		rec.timerSent[from]++
	case "PrepareResponse":
		if len(rec.resps) < 4*maxPreps {
			rec.resps = append(rec.resps, respRec{from, p.Height(), p.ViewNumber()})
		}
	}
	if p.Type().String() == "PrepareRequest" && len(rec.preps) >= maxPreps {
		// a proposal storm: from this height on the inclusion oracle cannot
		// tell which proposal became the block
		if rec.prepsLostFrom == 0 || p.Height() < rec.prepsLostFrom {
			rec.prepsLostFrom = p.Height()
		}
	} else if p.Type().String() == "PrepareRequest" {
		rec.preps = append(rec.preps, prepRec{Node: from, Validator: int(p.ValidatorIndex()), Height: p.Height(), View: p.ViewNumber(), Txs: slices.Clone(p.GetPrepareRequest().TransactionHashes())})
	}
	return p.Type().String(), int(p.ViewNumber()), p.Height()
}

// recoveryShape tells what a recovery message carries about the proposal:
// the full PrepareRequest, only its hash, or nothing.
func (cl *cluster) recoveryShape(from int, p *consensus.Payload) (shape string) {
	defer func() {
		if recover() != nil {
			shape = "unclassified"
		}
	}()
	rm := p.GetRecoveryMessage()
	if rm.PreparationHash() != nil {
		return "preparation-hash-only"
	}
	bc := cl.nodes[from].bc
	vals, err := bc.GetNextBlockValidators()
	if err != nil || bc.BlockHeight()+1 != p.Height() {
		return "unclassified"
	}
	pubs := make([]dbft.PublicKey, len(vals))
	for i := range vals {
		pubs[i] = vals[i]
	}
	primary := (int(p.Height()) - int(p.ViewNumber())) % len(pubs)
	if primary < 0 {
		primary += len(pubs)
	}
	if rm.GetPrepareRequest(p, pubs, uint16(primary)) != nil {
		return "full-prepare-request"
	}
	return "no-preparation"
}

func (nd *node) onExtensibleRaw(raw []byte) {
	defer func() {
		if x := recover(); x != nil {
			nd.cl.rec.panicked(fmt.Sprintf("OnPayload(node %d)", nd.idx), x)
		}
	}()
	var q npayload.Extensible
	r := io.NewBinReaderFromBuf(raw)
	q.DecodeBinary(r)
	if r.Err != nil {
		nd.cl.rec.panicked("decode extensible", r.Err)
		return
	}
	nd.observeReceived(raw, &q)
	if nd.xp != nil {
		ok, err := nd.xp.Add(&q)
		if err != nil {
			cls := "other"
			switch {
			case strings.Contains(err.Error(), "invalid height"):
				cls = "old-height"
			case strings.Contains(err.Error(), "disallowed sender"):
				cls = "sender"
			default:
				cls = "witness"
			}
			nd.cl.rec.mu.Lock()
			nd.cl.rec.xpRejects[cls]++
			if cls != "old-height" && len(nd.cl.rec.warns) < 400 {
				nd.cl.rec.warns = append(nd.cl.rec.warns, fmt.Sprintf("node%d extpool rejected payload: %v", nd.idx, err))
			}
			nd.cl.rec.mu.Unlock()
			return
		}
		if !ok {
			nd.cl.rec.mu.Lock()
			nd.cl.rec.xpRejects["duplicate-or-current"]++
			nd.cl.rec.mu.Unlock()
			return
		}
	}
	_ = nd.srv.OnPayload(&q)
}

var msgTypeNames = map[byte]string{0x00: "ChangeView", 0x20: "PrepareRequest", 0x21: "PrepareResponse", 0x30: "Commit", 0x31: "PreCommit", 0x40: "RecoveryRequest", 0x41: "RecoveryMessage"}

// observeReceived decodes a delivered payload the way the receiving service
// will (consensus.Payload over the extensible envelope). Every sender is an
// honest node and the bytes are what its encoder produced, so a failure is a
// disagreement between encoder and decoder.
func (nd *node) observeReceived(raw []byte, q *npayload.Extensible) {
	p := consensus.NewPayload(nd.cl.magic, nd.cl.cfg.SRIH)
	r := io.NewBinReaderFromBuf(raw)
	p.DecodeBinary(r)
	rec := nd.cl.rec
	rec.rmu.Lock()
	defer rec.rmu.Unlock()
	if r.Err == nil {
		rec.recvDecoded++
		if p.Type() == dbft.ChangeViewType {
			rec.cvReasons[p.GetChangeView().Reason().String()]++
		}
		return
	}
	u := &undecRec{Type: "unknown", Receiver: nd.idx, Validator: -1, View: -1, Err: r.Err.Error(), Raw: hex.EncodeToString(raw)}
	if d := q.Data; len(d) >= 7 {
		// the fixed message header: type, height, validator, view
		u.Type = msgTypeNames[d[0]]
		if u.Type == "" {
			u.Type = fmt.Sprintf("type-0x%02x", d[0])
		}
		u.Height = uint32(d[1]) | uint32(d[2])<<8 | uint32(d[3])<<16 | uint32(d[4])<<24
		u.Validator, u.View = int(d[5]), int(d[6])
		if d[0] == 0x00 && len(d) >= 16 { // ChangeView: timestamp (8), reason (1)
			u.Reason = dbft.ChangeViewReason(d[15]).String()
		}
	}
	k := u.Type
	if u.Reason != "" {
		k += ":" + u.Reason
	}
	if old := rec.undecodable[k]; old != nil {
		old.Count++
		return
	}
	u.Count = 1
	rec.undecodable[k] = u
}

// relayBlock is the block queue's relay callback: the block was accepted by
// this node's ledger and is announced to the peers (inv/getdata/block folded
// into one message).
func (nd *node) relayBlock(b *block.Block) {
	if nd.xp != nil {
		nd.xp.RemoveStale(b.Index)
	}
	raw := vchain.EncodeBlock(b)
	for j := range nd.cl.nodes {
		if j == nd.idx {
			continue
		}
		dst := nd.cl.nodes[j]
		nd.cl.net.sendH(nd.idx, j, "block", "", -1, b.Index, func() { dst.onBlockRaw(raw) })
	}
}

func (nd *node) onBlockRaw(raw []byte) {
	defer func() {
		if x := recover(); x != nil {
			nd.cl.rec.panicked(fmt.Sprintf("bqueue.Put(node %d)", nd.idx), x)
		}
	}()
	b, err := vchain.DecodeBlock(raw, nd.cl.cfg.SRIH)
	if err != nil {
		nd.cl.rec.panicked("decode relayed block", err)
		return
	}
	_ = nd.bq.Put(b)
}

// requestTx is Config.RequestTx: as Server.RequestTx it remembers the wanted
// hashes and asks every peer (getdata); peers that hold a transaction in
// their pool answer with it.
func (nd *node) requestTx(hs ...util.Uint256) {
	if len(hs) == 0 {
		return
	}
	sorted := slices.Clone(hs)
	slices.SortFunc(sorted, util.Uint256.Compare)
	nd.cbList.Store(sorted)
	nd.cl.net.count("tx_requests", 1)
	want := slices.Clone(hs)
	for j := range nd.cl.nodes {
		if j == nd.idx {
			continue
		}
		peer := nd.cl.nodes[j]
		nd.cl.net.send(nd.idx, j, "getdata", "", -1, func() {
			for _, h := range want {
				if _, broken := nd.cl.withheld.Load(h); broken {
					nd.cl.net.count("tx_requests_not_answered_for_a_withheld_tx", 1)
					continue
				}
				if tx, ok := peer.bc.GetMemPool().TryGetValue(h); ok {
					raw := tx.Bytes()
					nd.cl.net.send(peer.idx, nd.idx, "tx", "", -1, func() { nd.onTxRaw(raw, true) })
				}
			}
		})
	}
}

// onTxRaw is Server.txHandlerLoop for one received transaction.
func (nd *node) onTxRaw(raw []byte, viaRequest bool) {
	defer func() {
		if x := recover(); x != nil {
			nd.cl.rec.panicked(fmt.Sprintf("tx handler(node %d)", nd.idx), x)
		}
	}()
	tx, err := transaction.NewTransactionFromBytes(raw)
	if err != nil {
		nd.cl.rec.panicked("decode tx", err)
		return
	}
	if l, _ := nd.cbList.Load().([]util.Uint256); l != nil {
		if _, found := slices.BinarySearchFunc(l, tx.Hash(), util.Uint256.Compare); found {
			nd.srv.OnTransaction(tx)
			nd.cl.net.count("tx_callbacks", 1)
		}
	}
	if nd.bc.PoolTx(tx) == nil {
		nd.cl.notePooled(tx.Hash(), nd.idx, nd.bc.BlockHeight(), viaRequest)
	}
}

func (cl *cluster) notePooled(h util.Uint256, node int, height uint32, viaRequest bool) {
	cl.rec.mu.Lock()
	tr := cl.rec.txs[h]
	cl.rec.mu.Unlock()
	if tr == nil {
		return
	}
	tr.mu.Lock()
	if _, ok := tr.PooledAt[node]; !ok {
		tr.PooledAt[node] = height
	}
	if viaRequest {
		tr.Requested = true
	}
	tr.mu.Unlock()
}

package c19

import (
	"fmt"
	"slices"
	"sync"
	"time"

	"github.com/nspcc-dev/neo-go/verifharness/vlib/rng"
)

// netCfg is the fault configuration of the simulated network for one step of
// a phase.
type netCfg struct {
	Kind       string        `json:"kind"`
	Loss       int           `json:"loss_pct"`
	Dup        int           `json:"dup_pct"`
	MaxDelay   time.Duration `json:"max_delay_ns"`
	Group      []int         `json:"partition_group,omitempty"` // nodes talk only inside their group
	Cut        []bool        `json:"cut,omitempty"`             // silent: nothing in, nothing out
	Mute       []bool        `json:"mute,omitempty"`            // hears, but nothing it sends arrives
	Deaf       []bool        `json:"deaf,omitempty"`            // speaks, but receives nothing
	Late       []bool        `json:"late,omitempty"`            // everything it sends is late by LateBy
	LateBy     time.Duration `json:"late_by_ns,omitempty"`
	Quorumless bool          `json:"quorumless,omitempty"` // no group can reach M: progress is not expected
	// targeted loss: payloads of the listed types are dropped with TypeLoss
	// percent unless the receiver is favoured (so that the favoured nodes
	// commit while the others time out and change view)
	TypeLoss  int      `json:"type_loss_pct,omitempty"`
	LossView  int      `json:"loss_view"` // only payloads of this view are affected
	LossTypes []string `json:"loss_types,omitempty"`
	Favoured  []bool   `json:"favoured,omitempty"`
	// scripted scenarios: any number of targeted rules, and receivers whose
	// inbound link stalls (everything sent to them is kept, in order, and
	// delivered in one burst when the link comes back)
	Rules []lossRule `json:"rules,omitempty"`
	Hold  []bool     `json:"hold,omitempty"`
	// consensus payloads for heights >= HoldBelow get through a stalled link
	// (0: nothing does): the small high-priority traffic of the open height
	// arrives before the batch of blocks and the stale traffic
	HoldBelow uint32 `json:"hold_below,omitempty"`
}

// holds says whether a message to a node with a stalled inbound link is kept back.
func (c *netCfg) holds(to int, kind string, height uint32) bool {
	if !c.flag(c.Hold, to) {
		return false
	}
	return !(kind == "payload" && c.HoldBelow > 0 && height >= c.HoldBelow)
}

// lossRule drops (Pct percent of) the messages it matches.
type lossRule struct {
	Kinds   []string `json:"kinds,omitempty"` // message kinds (payload, block, syncblock, tx, getdata); empty = payload
	Types   []string `json:"types,omitempty"` // consensus payload types; empty = any
	ViewMin int      `json:"view_min"`
	ViewMax int      `json:"view_max"` // < 0: no upper limit
	From    []bool   `json:"from,omitempty"`
	To      []bool   `json:"to,omitempty"`
	Pct     int      `json:"pct"`
}

func (r *lossRule) matches(from, to int, kind, sub string, view int) bool {
	if len(r.Kinds) == 0 {
		if kind != "payload" {
			return false
		}
	} else if !slices.Contains(r.Kinds, kind) {
		return false
	}
	if kind == "payload" {
		if len(r.Types) > 0 && !slices.Contains(r.Types, sub) {
			return false
		}
		if view < r.ViewMin || (r.ViewMax >= 0 && view > r.ViewMax) {
			return false
		}
	}
	if r.From != nil && !r.From[from] {
		return false
	}
	if r.To != nil && !r.To[to] {
		return false
	}
	return true
}

func quietCfg(n int) netCfg { return netCfg{Kind: "quiet"} }

func (c *netCfg) flag(v []bool, i int) bool { return v != nil && v[i] }

// connected says whether a message from -> to can arrive at all.
func (c *netCfg) connected(from, to int) bool {
	if c.flag(c.Cut, from) || c.flag(c.Cut, to) || c.flag(c.Mute, from) || c.flag(c.Deaf, to) {
		return false
	}
	if c.Group != nil && c.Group[from] != c.Group[to] {
		return false
	}
	return true
}

// impaired lists the nodes the configuration silences or delays.
func (c *netCfg) impaired(n int) []bool {
	r := make([]bool, n)
	for i := range r {
		r[i] = c.flag(c.Cut, i) || c.flag(c.Mute, i) || c.flag(c.Deaf, i) || c.flag(c.Late, i)
	}
	return r
}

func (c netCfg) summary() string {
	s := fmt.Sprintf("%s loss=%d%% dup=%d%% delay<=%s", c.Kind, c.Loss, c.Dup, c.MaxDelay)
	idx := func(v []bool) (r []int) {
		for i, b := range v {
			if b {
				r = append(r, i)
			}
		}
		return
	}
	if c.Group != nil {
		s += fmt.Sprintf(" groups=%v", c.Group)
	}
	if x := idx(c.Cut); x != nil {
		s += fmt.Sprintf(" cut=%v", x)
	}
	if x := idx(c.Mute); x != nil {
		s += fmt.Sprintf(" mute=%v", x)
	}
	if x := idx(c.Deaf); x != nil {
		s += fmt.Sprintf(" deaf=%v", x)
	}
	if x := idx(c.Late); x != nil {
		s += fmt.Sprintf(" late=%v by %s", x, c.LateBy)
	}
	if c.TypeLoss > 0 {
		s += fmt.Sprintf(" %d%% of view-%d %v lost unless receiver in %v", c.TypeLoss, c.LossView, c.LossTypes, idx(c.Favoured))
	}
	if x := idx(c.Hold); x != nil {
		s += fmt.Sprintf(" inbound-stalled=%v", x)
		if c.HoldBelow > 0 {
			s += fmt.Sprintf(" (payloads of heights >= %d pass)", c.HoldBelow)
		}
	}
	for _, r := range c.Rules {
		s += fmt.Sprintf(" rule{%v %v views %d..%d", r.Kinds, r.Types, r.ViewMin, r.ViewMax)
		if r.From != nil {
			s += fmt.Sprintf(" from %v", idx(r.From))
		}
		if r.To != nil {
			s += fmt.Sprintf(" to %v", idx(r.To))
		}
		s += fmt.Sprintf(" %d%%}", r.Pct)
	}
	return s
}

// maxInflight bounds the messages on their way to one node.
const maxInflight = 1000

// simnet carries every message between nodes. Decisions (drop, duplicate,
// delay) are drawn from one seeded stream under the lock, in the order the
// senders reach it.
type simnet struct {
	mu       sync.Mutex
	r        *rng.R
	cfg      netCfg
	closed   bool
	wg       sync.WaitGroup
	cl       *cluster
	counters map[string]int64
	linkSeq  map[[2]int]int64 // last sequence number handed to a link
	linkSeen map[[2]int]int64 // highest sequence number delivered on a link
	inflight map[int]int      // messages on their way to (or being handled by) a node
	seq      int64
	held     map[int][]heldMsg // backlog of a stalled inbound link, in sending order
}

type heldMsg struct {
	from   int
	kind   string
	height uint32
	run    func()
}

func newSimnet(r *rng.R) *simnet {
	return &simnet{r: r, cfg: netCfg{Kind: "quiet"}, counters: map[string]int64{}, linkSeq: map[[2]int]int64{}, linkSeen: map[[2]int]int64{}, inflight: map[int]int{}, held: map[int][]heldMsg{}}
}

func (n *simnet) attach(cl *cluster) { n.cl = cl }

func (n *simnet) setCfg(c netCfg) {
	n.mu.Lock()
	n.cfg = c
	var release [][]heldMsg
	for to, q := range n.held {
		var out, keep []heldMsg
		for _, m := range q {
			if c.holds(to, m.kind, m.height) {
				keep = append(keep, m)
			} else {
				out = append(out, m)
			}
		}
		if len(out) > 0 {
			release = append(release, out)
			n.counters["backlog_bursts"]++
			n.counters["backlog_messages_released"] += int64(len(out))
		}
		if len(keep) > 0 {
			n.held[to] = keep
		} else {
			delete(n.held, to)
		}
	}
	n.mu.Unlock()
	// the backlog of a link arrives in one burst: per sender in the order of
	// sending, the senders concurrently
	for _, q := range release {
		// blocks and the rest travel separately (block batches are fetched by
		// the synchroniser, payloads are pushed by the peers)
		bySender := map[[2]int][]func(){}
		for _, m := range q {
			k := [2]int{m.from, 0}
			if m.kind == "block" || m.kind == "syncblock" {
				k[1] = 1
			}
			bySender[k] = append(bySender[k], m.run)
		}
		for _, fs := range bySender {
			go func() {
				for _, f := range fs {
					f()
				}
			}()
		}
	}
}

func (n *simnet) getCfg() netCfg {
	n.mu.Lock()
	defer n.mu.Unlock()
	return n.cfg
}

func (n *simnet) count(name string, d int64) {
	n.mu.Lock()
	n.counters[name] += d
	n.mu.Unlock()
}

func (n *simnet) max(name string, v int64) {
	n.mu.Lock()
	if v > n.counters[name] {
		n.counters[name] = v
	}
	n.mu.Unlock()
}

func (n *simnet) snapshot() map[string]int64 {
	n.mu.Lock()
	defer n.mu.Unlock()
	m := make(map[string]int64, len(n.counters))
	for k, v := range n.counters {
		m[k] = v
	}
	return m
}

// send hands one message to the network. fn runs at the receiver.
func (n *simnet) send(from, to int, kind, sub string, view int, fn func()) {
	n.sendH(from, to, kind, sub, view, 0, fn)
}

// sendH is send for messages that belong to a height (payloads, blocks).
func (n *simnet) sendH(from, to int, kind, sub string, view int, height uint32, fn func()) {
	n.mu.Lock()
	if n.closed {
		n.mu.Unlock()
		return
	}
	c := &n.cfg
	n.counters["sent"]++
	n.counters["sent_"+kind]++
	if !c.connected(from, to) {
		if c.Group != nil && c.Group[from] != c.Group[to] {
			n.counters["dropped_partition"]++
		} else {
			n.counters["dropped_silenced"]++
		}
		n.mu.Unlock()
		return
	}
	if c.Loss > 0 && n.r.Intn(100) < c.Loss {
		n.counters["dropped_loss"]++
		n.mu.Unlock()
		return
	}
	if c.TypeLoss > 0 && sub != "" && view == c.LossView && !c.flag(c.Favoured, to) && slices.Contains(c.LossTypes, sub) && n.r.Intn(100) < c.TypeLoss {
		n.counters["dropped_targeted"]++
		n.mu.Unlock()
		return
	}
	for i := range c.Rules {
		if r := &c.Rules[i]; r.matches(from, to, kind, sub, view) && (r.Pct >= 100 || n.r.Intn(100) < r.Pct) {
			n.counters["dropped_targeted"]++
			n.mu.Unlock()
			return
		}
	}
	hold := c.holds(to, kind, height)
	// like a peer's send queue the path to a node is finite: a message storm
	// loses messages instead of piling them up
	if n.inflight[to] >= maxInflight || (hold && len(n.held[to]) >= 4*maxInflight) {
		n.counters["dropped_receiver_queue_full"]++
		n.mu.Unlock()
		return
	}
	copies := 1
	if c.Dup > 0 && n.r.Intn(100) < c.Dup {
		copies = 2
		n.counters["duplicated"]++
	}
	link := [2]int{from, to}
	type plan struct {
		d   time.Duration
		seq int64
	}
	plans := make([]plan, copies)
	for i := range plans {
		var d time.Duration
		if c.MaxDelay > 0 {
			d = time.Duration(n.r.Int64N(int64(c.MaxDelay) + 1))
		}
		if c.flag(c.Late, from) {
			d += c.LateBy
			n.counters["late"]++
		}
		if d > 0 {
			n.counters["delayed"]++
		}
		n.seq++
		n.linkSeq[link] = n.seq
		plans[i] = plan{d, n.seq}
	}
	n.wg.Add(copies)
	if !hold {
		n.inflight[to] += copies
	}
	defer n.mu.Unlock()
	for _, p := range plans {
		p := p
		run := func() {
			defer n.wg.Done()
			defer func() {
				n.mu.Lock()
				if !hold {
					n.inflight[to]--
				}
				n.mu.Unlock()
			}()
			n.mu.Lock()
			if n.closed {
				n.counters["undelivered_at_close"]++
				n.mu.Unlock()
				return
			}
			n.counters["delivered"]++
			n.counters["delivered_"+kind]++
			if p.seq < n.linkSeen[link] {
				n.counters["reordered"]++
			} else {
				n.linkSeen[link] = p.seq
			}
			n.mu.Unlock()
			fn()
		}
		switch {
		case hold:
			n.counters["held_in_backlog"]++
			n.held[to] = append(n.held[to], heldMsg{from, kind, height, run})
		case p.d == 0:
			go run()
		default:
			time.AfterFunc(p.d, run)
		}
	}
}

// close stops the network and waits for what is in flight.
func (n *simnet) close(timeout time.Duration) bool {
	n.mu.Lock()
	n.closed = true
	held := n.held
	n.held = map[int][]heldMsg{}
	n.mu.Unlock()
	for _, q := range held {
		for _, m := range q {
			m.run() // only counts: the network is closed
		}
	}
	done := make(chan struct{})
	go func() { n.wg.Wait(); close(done) }()
	select {
	case <-done:
		return true
	case <-time.After(timeout):
		return false
	}
}

// genStep draws the fault configuration of one step. lagging marks nodes that
// are still behind the highest ledger; together with the nodes the step
// silences or delays they must not exceed f (partitions are exempt: they are
// allowed to stop progress, never to break safety).
func genStep(r *rng.R, n, f int, bt time.Duration, lagging, isVal []bool, allowPartition bool, force string) netCfg {
	nLag := 0
	for _, l := range lagging {
		if l {
			nLag++
		}
	}
	budget := max(f-nLag, 0)
	pickSet := func(k int) []bool {
		v := make([]bool, n)
		// a lagging node may be chosen "for free": it is impaired anyway
		perm := r.Perm(n)
		for _, i := range perm {
			if k == 0 {
				break
			}
			if lagging[i] || budget > 0 {
				if !lagging[i] {
					budget--
				}
				v[i] = true
				k--
			}
		}
		return v
	}
	anySet := func(v []bool) bool {
		for _, b := range v {
			if b {
				return true
			}
		}
		return false
	}
	c := netCfg{}
	kinds := []string{"lossy", "cut", "mute", "deaf", "late", "mixed", "partition", "dup-reorder", "commit-split", "lost-proposal"}
	w := []int{3, 3, 2, 2, 3, 4, 3, 2, 4, 2}
	if !allowPartition {
		w[6] = 0
	}
	c.Kind = kinds[r.Weighted(w)]
	if force != "" {
		c.Kind = force
	}
	switch c.Kind {
	case "lossy":
		c.Loss = 8 + r.Intn(25)
		c.Dup = r.Intn(10)
		c.MaxDelay = bt * time.Duration(r.Intn(120)) / 100
	case "dup-reorder":
		c.Dup = 20 + r.Intn(40)
		c.MaxDelay = bt * time.Duration(50+r.Intn(250)) / 100
	case "cut":
		c.Cut = pickSet(1 + r.Intn(f))
		c.MaxDelay = bt * time.Duration(r.Intn(60)) / 100
	case "mute":
		c.Mute = pickSet(1 + r.Intn(f))
		c.Loss = r.Intn(8)
	case "deaf":
		c.Deaf = pickSet(1 + r.Intn(f))
		c.Loss = r.Intn(8)
	case "late":
		c.Late = pickSet(1 + r.Intn(f))
		c.LateBy = bt * time.Duration(150+r.Intn(450)) / 100
		c.MaxDelay = bt * time.Duration(r.Intn(50)) / 100
	case "mixed":
		c.Loss = 5 + r.Intn(20)
		c.Dup = 5 + r.Intn(15)
		c.MaxDelay = bt * time.Duration(30+r.Intn(150)) / 100
		switch r.Intn(3) {
		case 0:
			c.Cut = pickSet(1 + r.Intn(f))
		case 1:
			c.Late = pickSet(1 + r.Intn(f))
			c.LateBy = bt * time.Duration(150+r.Intn(300)) / 100
		default:
			c.Mute = pickSet(1)
			if f > 1 && budget > 0 {
				c.Deaf = pickSet(1)
				for i := range c.Deaf {
					if c.Mute[i] {
						c.Deaf[i] = false
					}
				}
			}
		}
	case "commit-split":
		c.Favoured = make([]bool, n)
		k := 1 + r.Intn(f)
		for _, i := range r.Perm(n) {
			if k > 0 && isVal[i] && !lagging[i] {
				c.Favoured[i] = true
				k--
			}
		}
		// up to f validators see every view-0 preparation and commit at view 0;
		// the others lose the view-0 prepare responses (and the recovery
		// messages that would replay them), time out, change view and finish
		// the block at a later view, with the stale commits still in their context
		c.TypeLoss = 85 + r.Intn(16)
		c.LossTypes = []string{"PrepareResponse", "RecoveryMessage"}
		c.LossView = 0
		c.MaxDelay = bt * time.Duration(r.Intn(30)) / 100
	case "lost-proposal":
		// nobody receives the view-0 proposal (nor a recovery message replaying
		// it): every height is settled at a later view, by a later primary
		c.TypeLoss = 100
		c.LossTypes = []string{"PrepareRequest", "RecoveryMessage"}
		c.LossView = 0
		c.Favoured = make([]bool, n)
		c.MaxDelay = bt * time.Duration(r.Intn(30)) / 100
	case "partition":
		nVal := 0
		for _, v := range isVal {
			if v {
				nVal++
			}
		}
		m := nVal - (nVal-1)/3
		groups := 2 + r.Intn(2)
		c.Group = make([]int, n)
		for {
			seen := map[int]bool{}
			for i := range c.Group {
				c.Group[i] = r.Intn(groups)
				seen[c.Group[i]] = true
			}
			if len(seen) >= 2 {
				break
			}
		}
		c.Quorumless = true
		for g := 0; g < groups; g++ {
			k := 0
			for i := range c.Group {
				if c.Group[i] == g && isVal[i] {
					k++
				}
			}
			if k >= m {
				c.Quorumless = false
			}
		}
		c.Loss = r.Intn(10)
		c.MaxDelay = bt * time.Duration(r.Intn(80)) / 100
	}
	// a step that was meant to silence somebody but had no budget left degrades to plain loss
	if (c.Kind == "cut" && !anySet(c.Cut)) || (c.Kind == "mute" && !anySet(c.Mute)) || (c.Kind == "deaf" && !anySet(c.Deaf)) || (c.Kind == "late" && !anySet(c.Late)) {
		c.Kind = "lossy"
		c.Loss = 10 + r.Intn(15)
	}
	return c
}

package c19

import (
	"fmt"
	"os"
	"slices"

	"github.com/nspcc-dev/neo-go/pkg/core/transaction"
	"github.com/nspcc-dev/neo-go/pkg/util"
	"github.com/nspcc-dev/neo-go/verifharness/vlib/ev"
	"github.com/nspcc-dev/neo-go/verifharness/vlib/rng"
)

// A proposed transaction the backups cannot get.
//
// The harness is the only way a transaction travels: it pools transactions at
// the nodes it chooses, and it serves a node's RequestTx from the other nodes'
// pools (getdata / tx folded into two messages). In these schedules one or
// several transactions reach the pool of one validator only, shortly before
// its turn as primary, and no peer hands them out on request (the relay path
// of these transactions is broken; every consensus payload, block and other
// transaction is delivered at once). The primary proposes them, the backups
// ask for them in vain, run into their timers - RecoveryRequest first, because
// they have not heard from each other at this height, then ChangeView with the
// reason TxNotFound; the primary's own says Timeout - the view changes, the
// next primary proposes without them (it does not have them) and the chain
// goes on. What happens to the transactions afterwards is drawn per round:
//
//	deliver  the relay is repaired and the transactions are pooled at every
//	         node: they must be on chain within the usual bound;
//	keep     nothing is repaired for another turn of the validators: the same
//	         primary proposes them again, the same happens again; then deliver;
//	expire   they are valid for a few blocks only and are never seen again.
//
// In the "invalid" schedules the transaction is one the others refuse by their
// node-local policy (its system fee is above their MaxBlockSystemFee, the one
// validator has a larger value; misconf_test.go): it can only ever be pooled
// at that validator. With the relay cut the backups behave as above; with the
// relay working they fetch it, find the proposed block invalid and ask for a
// change of view with the reason TxInvalid.
//
// Ordinary transfers pooled at every node are mixed in; all of them, and the
// delivered ones, are under the inclusion bound. Progress is demanded by the
// logical criterion of steady (misconf_test.go) during the whole run.

const lostTxBase = 3000 // schedule indices of these schedules start here

type lostCfg struct {
	MaxLost int  // transactions per round that reach the primary only: 1..MaxLost
	Invalid bool // they are above the other validators' MaxBlockSystemFee
	Rounds  int
}

func lostTxSchedules() []schedule {
	if os.Getenv("VERIF_PART") == "bursts" {
		return nil // these run in the part with the race detector only
	}
	type variant struct {
		n             int
		srih, extPool bool
		maxLost       int
		invalid       bool
	}
	vs := []variant{
		{4, false, false, 1, false},
		{4, true, true, 3, false},
		{7, false, false, 2, false},
		{4, true, false, 2, true},
		{4, false, true, 2, false},
	}
	if ev.Tier() == "thorough" {
		vs = append(vs,
			variant{7, true, true, 3, false},
			variant{7, false, false, 1, true},
			variant{4, false, true, 1, true},
		)
		g := rng.New(589999)
		for len(vs) < 24 {
			v := variant{n: 4, srih: g.Bool(), extPool: g.Intn(3) == 0, maxLost: 1 + g.Intn(3), invalid: g.Intn(4) == 0}
			if g.Intn(3) == 0 {
				v.n = 7
			}
			vs = append(vs, v)
		}
	}
	var out []schedule
	for i, v := range vs {
		idx := lostTxBase + i
		r := rng.New(uint64(590000 + idx))
		c := clusterCfg{N: v.n, SRIH: v.srih, ExtPool: v.extPool, BlockTime: blockTime, KeyLabel: fmt.Sprintf("c19-%d-%d", ev.Seed(), idx)}
		if v.invalid {
			c.MaxSysFee = int64(4+r.Intn(3)) * txSysFee
			c.Mis = []misNode{{Node: r.Intn(v.n), MaxSysFee: 1500 * txSysFee}}
		}
		out = append(out, schedule{Idx: idx, ID: fmt.Sprintf("losttx-%d", i), Cfg: c, Scen: "losttx", Lost: lostCfg{MaxLost: v.maxLost, Invalid: v.invalid, Rounds: ev.Pick(3, 6)}})
	}
	return out
}

// proposedBy returns the first height above after for which node p, at view
// 0, proposed one of the given transactions (0 = not yet).
func (cl *cluster) proposedBy(p int, hashes []util.Uint256, after uint32) uint32 {
	cl.rec.mu.Lock()
	defer cl.rec.mu.Unlock()
	for _, pr := range cl.rec.preps {
		if pr.Node == p && pr.View == 0 && pr.Height > after && slices.ContainsFunc(pr.Txs, func(h util.Uint256) bool { return slices.Contains(hashes, h) }) {
			return pr.Height
		}
	}
	return 0
}

// lostTx runs the rounds of a schedule of this family.
func (a *attempt) lostTx() {
	cl, cfg, lc := a.cl, a.sc.Cfg, a.sc.Lost
	n := len(cl.nodes)
	r := a.sr
	a.net.setCfg(netCfg{Kind: "quiet"})
	a.res.kinds["proposed-tx-unavailable"] = true
	if !a.steady("the network starts", func() bool { return minU32(cl.heights()) >= 2 }, 0, nil) {
		return
	}
	lowest := cl.commonLimits()
	for _, nd := range cl.nodes {
		l := limitsOf(nd.bc)
		lowest.MaxTx, lowest.MaxSysFee = min(lowest.MaxTx, l.MaxTx), min(lowest.MaxSysFee, l.MaxSysFee)
	}
	capLowest := max(1, min(lowest.MaxTx, int(lowest.MaxSysFee/txSysFee)))
	var (
		obligations []util.Uint256 // pooled at every node: under the inclusion bound
		deadline    uint32
	)
	pend := func() []util.Uint256 { return cl.pendingEverywhere(obligations) }
	oblige := func(hs []util.Uint256) {
		obligations = append(obligations, hs...)
		deadline = maxU32(cl.heights()) + 2 + uint32((len(pend())+capLowest-1)/capLowest) + uint32(n)
		cl.rec.mu.Lock()
		for _, h := range hs {
			cl.rec.txs[h].Deadline = deadline
		}
		cl.rec.mu.Unlock()
	}
	for round := 0; round < lc.Rounds; round++ {
		p := r.Intn(n)
		mode := []string{"deliver", "keep", "expire"}[r.Weighted([]int{5, 2, 2})]
		if lc.Invalid {
			p = cfg.Mis[0].Node
			mode = []string{"invalid-fetched", "invalid-cut"}[round%2]
		}
		// p proposes the height after next
		want := uint32((p - 2 + 2*n) % n)
		if !a.steady(fmt.Sprintf("round %d (%s): waiting for the turn of node %d", round+1, mode, p), func() bool { return maxU32(cl.heights())%uint32(n) == want }, deadline, pend) {
			return
		}
		top := maxU32(cl.heights())
		k := 1 + r.Intn(lc.MaxLost)
		var lost []util.Uint256
		vubMax := uint32(0)
		for i := 0; i < k; i++ {
			vub, fee := top+100+uint32(r.Intn(50)), int64(txSysFee)
			if mode == "expire" || lc.Invalid {
				vub = top + 3 + uint32(r.Intn(2))
			}
			if lc.Invalid {
				fee = cfg.MaxSysFee + int64(1+r.Intn(3))*txSysFee
			}
			tx := a.newLostTransfer(r, vub, fee)
			if mode != "invalid-fetched" {
				cl.withheld.Store(tx.Hash(), struct{}{})
			}
			a.submit(tx, []int{p})
			lost = append(lost, tx.Hash())
			vubMax = max(vubMax, vub)
		}
		a.net.count("losttx_rounds", 1)
		a.net.count("losttx_rounds_"+mode, 1)
		a.net.count("losttx_txs_pooled_at_the_coming_primary_only", int64(k))
		// ordinary transfers, pooled everywhere
		if j := r.Intn(4); j > 0 {
			txs := make([]*transaction.Transaction, j)
			for i := range txs {
				txs[i] = a.newPaddedTransfer(r, top+100+uint32(r.Intn(50)), r.Intn(100))
			}
			oblige(a.submitEverywhere(txs, round+1))
			a.net.count("losttx_ordinary_txs_pooled_everywhere", int64(j))
		}
		// until the primary has proposed them and that height is on every ledger
		settle := func(after uint32) (uint32, bool) {
			var hx uint32
			ok := a.steady(fmt.Sprintf("round %d (%s): %d transactions pooled at node %d only at height %d", round+1, mode, k, p, top), func() bool {
				if hx == 0 {
					hx = cl.proposedBy(p, lost, after)
				}
				if hx != 0 {
					return minU32(cl.heights()) >= hx
				}
				return maxU32(cl.heights()) > vubMax // never proposed, expired
			}, deadline, pend)
			return hx, ok
		}
		hx, ok := settle(0)
		if !ok {
			return
		}
		if hx == 0 {
			a.net.count("losttx_rounds_in_which_the_primary_never_proposed_them", 1)
			continue
		}
		note := func(h uint32) {
			if cl.rec.viewSeen(h) > 0 {
				a.net.count("losttx_heights_settled_after_a_view_change", 1)
			} else {
				a.net.count("losttx_heights_settled_at_view_0", 1)
			}
		}
		note(hx)
		if mode == "keep" {
			// nothing is repaired: the same primary proposes them once more
			hx2, ok := settle(hx)
			if !ok {
				return
			}
			if hx2 != 0 {
				a.net.count("losttx_second_turns_of_the_same_primary", 1)
				note(hx2)
			}
		}
		if mode == "deliver" || mode == "keep" {
			// the relay is repaired, everybody gets them
			for _, h := range lost {
				cl.withheld.Delete(h)
			}
			a.deliverEverywhere(lost, p)
			oblige(lost)
			a.net.count("losttx_txs_delivered_to_everybody_later", int64(len(lost)))
		}
	}
	// everything pooled everywhere gets on chain, and everybody has one more turn
	target := maxU32(cl.heights()) + uint32(n) + 1
	a.steady("the rest", func() bool { return len(pend()) == 0 && minU32(cl.heights()) >= target }, max(deadline, target), pend)
}

// newLostTransfer is a transfer with a high priority (the primary proposes
// it first) and the given declared system fee.
func (a *attempt) newLostTransfer(r *rng.R, vub uint32, sysFee int64) *transaction.Transaction {
	tx := a.newPaddedTransfer(r, vub, 0)
	if sysFee == tx.SystemFee {
		return tx
	}
	return a.newTx(tx.Script, sysFee, vub, int64(1+r.Intn(4))*10_0000)
}

// deliverEverywhere pools already registered transactions at every node but
// the one that has them.
func (a *attempt) deliverEverywhere(hashes []util.Uint256, except int) {
	cl := a.cl
	for _, h := range hashes {
		cl.rec.mu.Lock()
		tr := cl.rec.txs[h]
		cl.rec.mu.Unlock()
		for i, nd := range cl.nodes {
			if i == except {
				continue
			}
			tx, err := transaction.NewTransactionFromBytes(tr.Raw)
			if err != nil {
				continue
			}
			if err := nd.bc.PoolTx(tx); err == nil {
				cl.notePooled(h, i, nd.bc.BlockHeight(), false)
				a.net.count("tx_pool_accepts", 1)
			} else {
				a.net.count("tx_pool_rejects", 1)
				if debugLogs {
					fmt.Println("pool reject:", i, err)
				}
			}
		}
	}
}

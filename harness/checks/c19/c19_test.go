// Package c19 decides property C19 (consensus through the node's dBFT
// integration is safe, and live under synchrony): N real consensus services
// over N real ledgers and block queues exchange payloads, blocks and
// transactions through a simulated network driven by a seeded fault
// scheduler; an offline checker over the recorded event log and the ledgers
// decides safety, bounded progress and transaction inclusion.
package c19

import (
	"fmt"
	"math"
	"os"
	"slices"
	"sort"
	"strings"
	"sync"
	"sync/atomic"
	"testing"
	"time"

	"github.com/nspcc-dev/neo-go/pkg/core/native/nativehashes"
	"github.com/nspcc-dev/neo-go/pkg/core/transaction"
	"github.com/nspcc-dev/neo-go/pkg/neotest"
	"github.com/nspcc-dev/neo-go/pkg/smartcontract"
	"github.com/nspcc-dev/neo-go/pkg/util"
	"github.com/nspcc-dev/neo-go/pkg/wallet"
	"github.com/nspcc-dev/neo-go/verifharness/vlib/ev"
	"github.com/nspcc-dev/neo-go/verifharness/vlib/rng"
	"github.com/nspcc-dev/neo-go/verifharness/vlib/vchain"
)

const (
	blockTime      = 100 * time.Millisecond
	stallIntervals = 200 // bounded progress: a block within this many block intervals
	txSysFee       = 1_0000_0000
)

type schedule struct {
	Idx         int
	ID          string
	Cfg         clusterCfg
	FaultPhases int
	MaxTxs      int
	Scen        string      // "" = random fault phases; otherwise a scripted schedule (scen_test.go)
	Rounds      []scenRound // the scripted rounds
	MisRounds   int         // Scen "misconf": the number of bursts
	Lost        lostCfg     // Scen "losttx"
	Full        fullCfg     // Scen "full"
}

func makeSchedule(idx int) schedule {
	thorough := ev.Tier() == "thorough"
	sc := schedule{Idx: idx, FaultPhases: ev.Pick(3, 5), MaxTxs: ev.Pick(60, 110)}
	c := clusterCfg{N: 4, BlockTime: blockTime, KeyLabel: fmt.Sprintf("c19-%d-%d", ev.Seed(), idx)}
	c.SRIH = idx%2 == 1
	c.ExtPool = idx%3 == 0
	switch idx % 4 {
	case 1:
		c.MaxTx = 3
	case 3:
		c.MaxSysFee = 4 * txSysFee
	}
	switch idx % 6 {
	case 1:
		if thorough {
			c.N = 7
		}
	case 2:
		// committee of N+2 with elections: the validator set changes at epoch
		// boundaries, nodes switch between watch-only and validator
		c.Extra = 2
		c.MaxTx, c.MaxSysFee = 0, 20000*txSysFee // candidate registration costs 1000 GAS of system fee
		if thorough && idx%12 == 8 {
			c.N = 7
		}
	case 3:
		// ValidatorsHistory: seven validators shrink to four at an epoch
		// boundary inside the run (committee of seven throughout)
		c.N, c.SwitchTo, c.SwitchAt = 7, 4, 7
		if idx%12 == 9 {
			c.SwitchAt = 14
		}
	case 4:
		c.MaxTPB = 4 * blockTime
	case 5:
		// ValidatorsHistory: four validators grow to seven; the three other
		// committee members run watch-only nodes until then
		c.N, c.SwitchTo, c.SwitchAt = 4, 7, 14
		if idx%12 == 11 {
			c.SwitchAt = 7
		}
	}
	sc.Cfg = c
	sc.ID = fmt.Sprintf("sched-%d", idx)
	return sc
}

type stepInfo struct {
	Phase    int      `json:"phase"`
	Net      string   `json:"net"`
	Before   []uint32 `json:"heights_before"`
	After    []uint32 `json:"heights_after"`
	Ms       int64    `json:"ms"`
	Produced int      `json:"blocks_produced"`
}

type attemptResult struct {
	an                       *analysis
	stall                    string // "" or the kind of bounded-progress failure
	stallMsg                 string
	steps                    []stepInfo
	net                      map[string]int64
	rec                      *recorder
	problems                 []string
	kinds                    map[string]bool
	faultBlocks, quietBlocks int
	heights                  []uint32
	wall                     time.Duration
}

type attempt struct {
	t      testing.TB
	sc     schedule
	cl     *cluster
	net    *simnet
	sr     *rng.R
	res    *attemptResult
	nonce  atomic.Uint32
	txLeft int
	govTxs []util.Uint256

	stopFeed chan struct{}
	wgFeed   sync.WaitGroup
	feedOnce sync.Once

	// Scen "full": what fullPrepool put into every pool, and the size of one
	fullFirst []util.Uint256
	fullSize  int
}

func (a *attempt) stopFeeder() {
	a.feedOnce.Do(func() {
		close(a.stopFeed)
		a.wgFeed.Wait()
	})
}

// waitUntil polls cond every quarter block interval.
func waitUntil(d time.Duration, cond func() bool) bool {
	dl := time.Now().Add(d)
	for {
		if cond() {
			return true
		}
		if time.Now().After(dl) {
			return false
		}
		time.Sleep(blockTime / 4)
	}
}

func (a *attempt) step(cfg netCfg, wantBlocks int, cap time.Duration) {
	before := a.cl.heights()
	a.net.setCfg(cfg)
	ph := int(a.cl.rec.phase.Add(1))
	t0 := time.Now()
	target := maxU32(before) + uint32(wantBlocks)
	waitUntil(cap, func() bool { return maxU32(a.cl.heights()) >= target })
	after := a.cl.heights()
	prod := int(maxU32(after) - maxU32(before))
	a.res.steps = append(a.res.steps, stepInfo{ph, cfg.summary(), before, after, time.Since(t0).Milliseconds(), prod})
	a.res.kinds[cfg.Kind] = true
	a.res.faultBlocks += prod
}

// quiet heals the network and demands bounded progress: all validators
// honest, every message delivered at once.
func (a *attempt) quiet(wantBlocks int, untilNoPending bool) bool {
	before := a.cl.heights()
	a.net.setCfg(netCfg{Kind: "quiet"})
	ph := int(a.cl.rec.phase.Add(1))
	t0 := time.Now()
	bound := stallIntervals * blockTime
	lastMax, lastMin := maxU32(before), minU32(before)
	tMax, tMin := time.Now(), time.Now()
	target := lastMax + uint32(wantBlocks)
	// transactions count as pending only when pooled at a node that is a
	// validator during the whole phase (only those get to propose)
	stable := a.cl.validatorNodes()
	hardStop := target
	if untilNoPending {
		bcfg := a.cl.nodes[0].bc.GetConfig()
		perBlock := min(int64(bcfg.MaxTransactionsPerBlock), bcfg.MaxBlockSystemFee/txSysFee)
		hardStop += uint32(6*a.sc.Cfg.MaxVals()+6) + uint32(int64(len(a.cl.pendingTxs(stable)))/max(perBlock, 1))
	}
	ok := true
	for {
		hs := a.cl.heights()
		for i, v := range a.cl.validatorNodes() {
			stable[i] = stable[i] && v
		}
		mx, mn := maxU32(hs), minU32(hs)
		now := time.Now()
		if mx > lastMax {
			lastMax, tMax = mx, now
		}
		if mn > lastMin || mn == mx {
			lastMin, tMin = mn, now
		}
		if mn >= target {
			if !untilNoPending {
				break
			}
			pend := a.cl.pendingTxs(stable)
			if len(pend) == 0 {
				break
			}
			if mn >= hardStop {
				a.res.stall = "inclusion:pooled-tx-never-included"
				a.res.stallMsg = fmt.Sprintf("%d pooled and still valid transactions are not on chain after %d blocks of a quiet phase (first %s); heights %v", len(pend), mn-maxU32(before), pend[0].StringLE(), hs)
				ok = false
				break
			}
		}
		if now.Sub(tMax) > bound {
			a.res.stall = "progress:no-block-within-200-intervals-in-quiet-phase"
			a.res.stallMsg = fmt.Sprintf("quiet phase %d: no new block for %s; heights %v (phase began at %v)", ph, now.Sub(tMax).Round(time.Millisecond), hs, before)
			ok = false
			break
		}
		if now.Sub(tMin) > bound {
			a.res.stall = "progress:lagging-node-does-not-catch-up-in-quiet-phase"
			a.res.stallMsg = fmt.Sprintf("quiet phase %d: the lowest ledger did not advance for %s; heights %v", ph, now.Sub(tMin).Round(time.Millisecond), hs)
			ok = false
			break
		}
		time.Sleep(blockTime / 4)
	}
	after := a.cl.heights()
	prod := int(maxU32(after) - maxU32(before))
	a.res.steps = append(a.res.steps, stepInfo{ph, "quiet", before, after, time.Since(t0).Milliseconds(), prod})
	a.res.quietBlocks += prod
	return ok
}

// syncer plays the P2P block synchroniser: a node below a reachable peer
// receives the blocks it misses from that peer's ledger through its own
// block queue (and through the network, so they can be lost or late too).
func (a *attempt) syncer(stop chan struct{}, wg *sync.WaitGroup) {
	defer wg.Done()
	for {
		select {
		case <-stop:
			return
		case <-time.After(2 * blockTime):
		}
		cfg := a.net.getCfg()
		hs := a.cl.heights()
		for j, nd := range a.cl.nodes {
			best := -1
			for p := range a.cl.nodes {
				if p != j && hs[p] > hs[j] && cfg.connected(p, j) && cfg.connected(j, p) && (best < 0 || hs[p] > hs[best]) {
					best = p
				}
			}
			if best < 0 {
				continue
			}
			src := a.cl.nodes[best].bc
			for h := hs[j] + 1; h <= hs[best] && h <= hs[j]+8; h++ {
				b, err := src.GetBlock(src.GetHeaderHash(h))
				if err != nil {
					break
				}
				raw := vchain.EncodeBlock(b)
				dst := nd
				a.net.sendH(best, j, "syncblock", "", -1, h, func() { dst.onBlockRaw(raw) })
			}
		}
	}
}

// feeder submits transfers signed by the validators' multisignature account
// (the only funded account at genesis), each to a random non-empty subset of
// the validators' pools.
func (a *attempt) feeder(stop chan struct{}, wg *sync.WaitGroup) {
	defer wg.Done()
	if a.sc.Scen == "misconf" || a.sc.Scen == "losttx" || a.sc.Scen == "full" {
		return // the scenario submits its transactions itself
	}
	if a.sc.Scen != "" {
		// scripted schedules: a light, steady load pooled everywhere or at
		// random subsets
		a.steadyFeeder(stop)
		return
	}
	r := rng.New(uint64(390000 + a.sc.Idx))
	cl := a.cl
	n := len(cl.nodes)
	for a.txLeft > 0 {
		select {
		case <-stop:
			return
		case <-time.After(blockTime * time.Duration(1+r.Intn(2))):
		}
		k := 0
		switch x := r.Intn(10); {
		case x < 5:
			k = 1 + r.Intn(2)
		case x < 7:
			k = 4 + r.Intn(4) // a burst above the small per-block limits
		}
		for ; k > 0 && a.txLeft > 0; k-- {
			a.txLeft--
			hs := cl.heights()
			mx := maxU32(hs)
			vub := mx + 15 + uint32(r.Intn(40))
			if r.Intn(8) == 0 {
				vub = mx + 2 + uint32(r.Intn(2)) // may expire before anybody proposes it
			}
			tx := a.newTransfer(r, vub)
			var subset []int
			switch x := r.Intn(12); {
			case x < 2:
				for i := 0; i < n; i++ {
					subset = append(subset, i)
				}
			case x < 5:
				subset = []int{r.Intn(n)}
			default:
				for i := 0; i < n; i++ {
					if r.Bool() {
						subset = append(subset, i)
					}
				}
				if len(subset) == 0 {
					subset = []int{r.Intn(n)}
				}
			}
			if c := a.sc.Cfg; c.SwitchTo > 0 && c.SwitchTo < c.N && mx <= c.SwitchAt {
				// up to a shrinking of the validator set every primary has
				// something to propose: the first block after the last epoch of
				// the big set is then never empty
				subset = a.allNodes()
			}
			a.submit(tx, subset)
			a.net.count("txs_submitted", 1)
		}
	}
}

func (a *attempt) steadyFeeder(stop chan struct{}) {
	r := rng.New(uint64(390000 + a.sc.Idx))
	n := len(a.cl.nodes)
	for a.txLeft > 0 {
		select {
		case <-stop:
			return
		case <-time.After(blockTime * time.Duration(2+r.Intn(3))):
		}
		a.txLeft--
		tx := a.newTransfer(r, maxU32(a.cl.heights())+30+uint32(r.Intn(40)))
		subset := a.allNodes()
		if a.sc.Scen == "rec" && r.Intn(3) == 0 {
			subset = nil
			for i := 0; i < n; i++ {
				if r.Bool() {
					subset = append(subset, i)
				}
			}
			if len(subset) == 0 {
				subset = []int{r.Intn(n)}
			}
		}
		a.submit(tx, subset)
		a.net.count("txs_submitted", 1)
	}
}

// submit registers the transaction with the oracle and pools a private
// decoded copy at every node of subset.
func (a *attempt) submit(tx *transaction.Transaction, subset []int) {
	cl := a.cl
	tr := &txRec{Hash: tx.Hash(), VUB: tx.ValidUntilBlock, Size: tx.Size(), SysFee: tx.SystemFee, NetFee: tx.NetworkFee, Raw: tx.Bytes(), PooledAt: map[int]uint32{}}
	cl.rec.mu.Lock()
	cl.rec.txs[tr.Hash] = tr
	cl.rec.txOrder = append(cl.rec.txOrder, tr.Hash)
	cl.rec.mu.Unlock()
	for _, i := range subset {
		t2, err := transaction.NewTransactionFromBytes(tr.Raw)
		if err != nil {
			continue
		}
		nd := cl.nodes[i]
		if err := nd.bc.PoolTx(t2); err == nil {
			cl.notePooled(tr.Hash, i, nd.bc.BlockHeight(), false)
			a.net.count("tx_pool_accepts", 1)
		} else {
			a.net.count("tx_pool_rejects", 1)
			if os.Getenv("C19_DEBUG") != "" {
				fmt.Println("pool reject:", err)
			}
		}
	}
}

// newTx builds a transaction paid and signed by the standby validators'
// multisignature account, optionally co-signed by single keys.
func (a *attempt) newTx(script []byte, sysFee int64, vub uint32, extraFee int64, cosigners ...neotest.Signer) *transaction.Transaction {
	cl := a.cl
	tx := transaction.New(script, sysFee)
	tx.Nonce = a.nonce.Add(1)
	tx.ValidUntilBlock = vub
	signers := append([]neotest.Signer{cl.multi}, cosigners...)
	for _, s := range signers {
		tx.Signers = append(tx.Signers, transaction.Signer{Account: s.ScriptHash(), Scopes: transaction.CalledByEntry})
	}
	neotest.AddNetworkFee(a.t, cl.nodes[0].bc, tx, signers...)
	tx.NetworkFee += extraFee
	for _, s := range signers {
		if err := s.SignTx(cl.magic, tx); err != nil {
			panic(err)
		}
	}
	return tx
}

func (a *attempt) newTransfer(r *rng.R, vub uint32) *transaction.Transaction {
	var to util.Uint160
	copy(to[:], r.Bytes(20))
	script, err := smartcontract.CreateCallScript(nativehashes.GasToken, "transfer", a.cl.multi.ScriptHash(), to, int64(1+r.Intn(1000)), nil)
	if err != nil {
		panic(err)
	}
	return a.newTx(script, txSysFee, vub, int64(r.Intn(4))*10_0000) // different priorities
}

func (a *attempt) allNodes() []int {
	r := make([]int, len(a.cl.nodes))
	for i := range r {
		r[i] = i
	}
	return r
}

// onChain reports whether all the given transactions are on the highest ledger.
func (a *attempt) onChain(hs []util.Uint256) bool {
	heights := a.cl.heights()
	best := 0
	for i := range heights {
		if heights[i] > heights[best] {
			best = i
		}
	}
	for _, h := range hs {
		if _, ih, err := a.cl.nodes[best].bc.GetTransaction(h); err != nil || ih == math.MaxUint32 {
			return false
		}
	}
	return true
}

// registerCandidates makes every committee key a candidate (one transaction
// each, pooled everywhere) and waits until they are on chain.
func (a *attempt) registerCandidates() bool {
	cl := a.cl
	var hs []util.Uint256
	for _, k := range cl.keys {
		script, err := smartcontract.CreateCallScript(nativehashes.NeoToken, "registerCandidate", k.PublicKey().Bytes())
		if err != nil {
			panic(err)
		}
		cand := neotest.NewSingleSigner(wallet.NewAccountFromPrivateKey(k))
		tx := a.newTx(script, 1001*txSysFee, maxU32(cl.heights())+200, 0, cand)
		a.submit(tx, a.allNodes())
		hs = append(hs, tx.Hash())
	}
	a.govTxs = append(a.govTxs, hs...)
	return waitUntil(60*blockTime, func() bool { return a.onChain(hs) })
}

// vote moves all NEO votes of the standby multisignature account (the whole
// supply) to committee key k: from the next epoch on k is a validator
// together with the N-1 lowest other keys.
func (a *attempt) vote(k int) {
	cl := a.cl
	script, err := smartcontract.CreateCallScript(nativehashes.NeoToken, "vote", cl.multi.ScriptHash(), cl.keys[k].PublicKey().Bytes())
	if err != nil {
		panic(err)
	}
	tx := a.newTx(script, 2*txSysFee, maxU32(cl.heights())+200, 50_0000)
	a.submit(tx, a.allNodes())
	a.govTxs = append(a.govTxs, tx.Hash())
	a.net.count("vote_txs_submitted", 1)
}

func runAttempt(t testing.TB, sc schedule) (res *attemptResult, setupErr error) {
	t0 := time.Now()
	res = &attemptResult{kinds: map[string]bool{}}
	cfg := sc.Cfg
	cfg.WalletsDir = t.TempDir()
	net := newSimnet(rng.New(uint64(290000 + sc.Idx)))
	cl, err := newCluster(t, cfg, net)
	if err != nil {
		return nil, err
	}
	// node index must be the validator index
	vals, err := cl.nodes[0].bc.GetNextBlockValidators()
	if err != nil || len(vals) != cfg.N {
		return nil, fmt.Errorf("validators: %v (%d)", err, len(vals))
	}
	for i, v := range vals {
		if !v.Equal(cl.keys[i].PublicKey()) { // cl.keys[:N] are the standby validators
			return nil, fmt.Errorf("validator order differs from node order at %d", i)
		}
	}
	a := &attempt{t: t, sc: sc, cl: cl, net: net, sr: rng.New(uint64(190000 + sc.Idx)), res: res, txLeft: sc.MaxTxs, stopFeed: make(chan struct{})}
	res.rec = cl.rec
	if sc.Scen == "full" {
		a.fullPrepool() // every pool is full before the first proposal is built
	}
	cl.start()
	stop := make(chan struct{})
	var wg sync.WaitGroup
	wg.Add(1)
	go a.syncer(stop, &wg)
	a.wgFeed.Add(1)
	go a.feeder(a.stopFeed, &a.wgFeed)

	if sc.Scen == "misconf" {
		a.misconf()
	} else if sc.Scen == "losttx" {
		a.lostTx()
	} else if sc.Scen == "full" {
		a.full()
	} else if sc.Scen != "" {
		a.scenario()
	} else {
		a.randomPhases()
	}
	a.stopFeeder()
	close(stop)
	wg.Wait()
	res.heights = cl.heights()
	if !net.close(20 * time.Second) {
		res.problems = append(res.problems, "network did not drain in 20 s (a receiver is blocked)")
	}
	res.problems = append(res.problems, cl.stop()...)
	res.net = net.snapshot()
	if len(res.problems) == 0 {
		res.an = analyze(cl)
	}
	cl.closeLedgers()
	res.wall = time.Since(t0)
	return res, nil
}

// randomPhases: fault steps drawn independently from the seed alternate with
// quiet phases.
func (a *attempt) randomPhases() {
	sc, cl, net, cfg := a.sc, a.cl, a.net, a.sc.Cfg
	n, f := cfg.Nodes(), cfg.F()
	ok := a.quiet(2, false) // the network starts
	registered := false
	if ok && cfg.Extra > 0 {
		registered = a.registerCandidates()
		if !registered {
			net.count("candidate_registration_not_on_chain_in_time", 1)
		}
	}
	// elections: N+1 (an outsider comes in, the highest standby validator goes), N, N-1 (back to the standby set), ...
	voteFor := []int{cfg.N + 1, cfg.N, cfg.N - 1}
	for p := 0; ok && p < sc.FaultPhases; p++ {
		if registered {
			a.vote(voteFor[p%len(voteFor)])
		}
		steps := 1 + a.sr.Intn(2)
		for s := 0; s < steps; s++ {
			hs := cl.heights()
			mx := maxU32(hs)
			lag := make([]bool, n)
			for i := range lag {
				lag[i] = hs[i] < mx
			}
			force := ""
			if p == 0 && s == 0 {
				force = "commit-split" // every schedule meets the one-commits-others-change-view situation
			}
			want := 2 + a.sr.Intn(3)
			crossing := force != "" && cfg.SwitchTo > 0 && cfg.SwitchAt <= 7 && mx <= cfg.SwitchAt
			if crossing {
				// an early change of the validator count is crossed while every
				// height is settled at a later view, so that the late primaries
				// of the old set take their turn at the switch height
				force = "lost-proposal"
				want = max(want, int(cfg.SwitchAt+1-mx))
			}
			c := genStep(a.sr, n, f, blockTime, lag, cl.validatorNodes(), true, force)
			cap := 30 * blockTime
			if c.Quorumless {
				cap = 12 * blockTime
			}
			if crossing {
				cap = time.Duration(want) * 10 * blockTime
			}
			a.step(c, want, cap)
		}
		ok = a.quiet(2+a.sr.Intn(2), false)
	}
	a.stopFeeder()
	if ok {
		// final quiet phase: every validator gets its turn as primary, and a
		// configured change of the validator count is well behind
		want := cfg.MaxVals() + 1
		if mx := maxU32(cl.heights()); cfg.SwitchTo > 0 && mx < cfg.SwitchAt+1 {
			want += int(cfg.SwitchAt + 1 - mx)
		}
		a.quiet(want, true)
	}
}

func TestCheck(t *testing.T) {
	run := ev.Start("C19", "one case = one seeded network schedule over a cluster variant (N validators, optionally N+2 committee nodes with elections, or a ValidatorsHistory that changes the number of validators 4->7 / 7->4 at an epoch boundary inside the run, StateRootInHeader, extensible pool in front of the service, tiny block limits, MaxTimePerBlock): real consensus services over real ledgers and block queues. Random schedules: fault phases drawn from the seed (loss, duplication, delay/reordering, partitions, targeted loss of view-0 prepare responses so that some validators commit while the others change view, loss of every view-0 proposal so that later primaries take over, up to f validators cut/mute/deaf/late; impaired+lagging <= f outside partitions) alternate with quiet phases in which bounded progress is demanded; transactions are pooled at random subsets of nodes and fetched through RequestTx. Scripted schedules (rec-*, burst-*, epoch-burst-*; the part without the race detector repeats the bursts): commit-lock rounds (F+1 validators commit at view v in {0,1,2,..} after the proposals of the lower views were lost, the others miss the responses / the proposal / everything, so that after the faults stop the height can only be finished through RecoveryRequest and RecoveryMessage, with the full PrepareRequest or its hash only, on both StateRootInHeader settings), backlog bursts (the inbound link of up to f validators stalls for > N blocks, then payloads kept for later and a batch of blocks arrive at once while the other validators are one short of M, what the laggers send is lost and recovery messages are lost), and the same burst for f+1 validators across a shrinking of the validator set 7->4 with the block accepted by the primary alone; after every scripted fault the post-fault bounded-progress verdict applies. Schedules with validators of different node-local block limits (misconf-*): up to f validators get their own MaxBlockSize / MaxBlockSystemFee / MaxTransactionsPerBlock (larger, smaller, or one of each), the common limits are tiny, the network is perfect, bursts of transfers larger than a block of the common limits are pooled at every node, most of them timed to the odd validator's turn as primary - the others refuse its proposal and the next primary must propose what fits; bounded progress is demanded throughout and every transaction pooled everywhere must be on chain within a bound counted in heights. Schedules with a proposed transaction the backups cannot get (losttx-*): 1-3 transactions reach the pool of the coming primary only and no peer hands them out on request (every consensus payload, block and other transaction is delivered); the backups run into their timers and ask for a change of view with the reason TxNotFound, the next primary proposes without them; afterwards the transactions are delivered to everybody (inclusion bound), kept back for another turn of the same primary, or expire; a variant makes them invalid for the others by node-local policy (MaxBlockSystemFee), with the relay cut or working (reason TxInvalid); ordinary transfers pooled everywhere are mixed in. Every payload handed to a node is decoded at the receive boundary the way its service decodes it: ChangeViews are counted by reason, a payload that does not decode is a violation. Full-block schedules (full-*): all validators configured alike with the default limits (MaxTransactionsPerBlock 512) or a higher configured maximum (1000 / 2000 and a MaxBlockSize to match), perfect network, N cheap transactions with N around the limits (499..513, 520, 999..1100, 1999..2100) in every pool before the services start, so that the first proposal names min(N, limit) hashes; a second burst is pooled while the chain runs; blocks of min(N, limit) transactions are expected at view 0 (view-0 inclusion oracle from height 1 on) and everything on chain within 2 + ceil(N/limit) + validators heights. Distinct = cluster variant x fault kinds applied x mechanisms reached (view change, recovery, tx fetch, block sync, duplication, reordering); non-trivial = blocks were produced under faults (scripted: the commit lock was observed at the Broadcast boundary / a backlog was delivered in one burst / a height was settled at a later view after a proposal above the common limits, or over the refusal of a validator with smaller limits / after the backups could not get a proposed transaction / a block carried min(N, limit) transactions) and the offline checker compared the ledgers of all nodes")
	defer run.Finish()
	run.Assume("the simulated network stands for the P2P layer: payloads, blocks and transactions are re-encoded and re-decoded on every hop; inv/getdata/response exchanges are folded into one message that can be lost, duplicated or delayed")
	run.Assume("validators are honest or silent/late (cut, mute, deaf, delayed); Byzantine payloads are out of scope of the property")
	run.Assume("the dBFT timers are real (100 ms block time): safety verdicts do not depend on timing; progress verdicts use the 200-interval bound in quiet phases, and after scripted faults 120 intervals without any accepted block during which every validator's timer demonstrably fired >= 5 times (counted at the Broadcast boundary); either needs three consecutive runs of the same schedule to fail at the same point, otherwise the run is inconclusive")
	run.Assume("every sender is an honest node and the simulated network delivers the bytes its encoder produced: a consensus payload that does not decode at a receiver (consensus.Payload over the extensible envelope, as service.OnPayload does) is a disagreement between encoder and decoder and is reported whatever its effect on progress")
	run.Assume("block limits are node-local settings: at most f validators differ from the others, so every block has a preparation (proposal or PrepareResponse) of a validator with the common limits; sizes are compared without the block witness, as a backup sees a proposal; a Commit for a block above the signer's own limits is only counted (dBFT lets a validator that refused a proposal join in after more than f commits)")
	run.Assume("an honest validator signs one block per height: two different Commit payloads of one node at one height, or a ChangeView / RecoveryRequest after its Commit at that height (dBFT's commit lock), count as a safety violation although a fork needs f+1 such validators")
	run.Assume("a fresh ledger with the same protocol settings stands for 'any other node's ledger' when committed copies of a block are replayed after serialization; peers' real ledgers additionally verify every committed witness")

	nSched := ev.Pick(6, 60)
	par := ev.Pick(3, 4)
	if os.Getenv("VERIF_PART") == "bursts" {
		par = ev.Pick(4, 5) // no race detector: lighter
	}
	if v := os.Getenv("C19_PAR"); v != "" {
		fmt.Sscan(v, &par)
	}
	var (
		wg   sync.WaitGroup
		sem  = make(chan struct{}, par)
		smu  sync.Mutex
		live = map[string]bool{}
	)
	var scheds []schedule
	for idx := 0; idx < nSched && os.Getenv("VERIF_PART") != "bursts"; idx++ {
		scheds = append(scheds, makeSchedule(idx))
	}
	// the scripted schedules go first: a stalled one is repeated twice
	scheds = append(scenSchedules(), scheds...)
	// validators with different block limits on a perfect network: short
	// schedules, they fill the gaps the long ones leave
	scheds = append(scheds, misconfSchedules()...)
	// a proposed transaction the backups cannot get
	scheds = append(scheds, lostTxSchedules()...)
	// pools fuller than a block of the default (or a higher configured) limits
	scheds = append(scheds, fullSchedules()...)
	if v := os.Getenv("C19_ONLY"); v != "" { // development aid: prefix filter
		scheds = slices.DeleteFunc(scheds, func(s schedule) bool { return !strings.HasPrefix(s.ID, v) })
	}
	for _, sc := range scheds {
		if !run.Want(sc.ID) {
			continue
		}
		wg.Add(1)
		sem <- struct{}{}
		go func() {
			defer wg.Done()
			defer func() { <-sem }()
			smu.Lock()
			live[sc.ID] = true
			var running []string
			for k := range live {
				running = append(running, k)
			}
			sort.Strings(running)
			run.BeginCase(sc.ID, map[string]any{"schedule": sc.ID, "config": sc.Cfg.String(), "running_concurrently": running})
			smu.Unlock()
			runSchedule(t, run, sc)
			smu.Lock()
			delete(live, sc.ID)
			smu.Unlock()
		}()
	}
	wg.Wait()
}

func runSchedule(t *testing.T, run *ev.Run, sc schedule) {
	var stalls, stallSigs []string
	var last *attemptResult
	for att := 1; att <= 3; att++ {
		res, err := runAttempt(t, sc)
		if err != nil {
			run.Inconclusive("%s: harness set-up failed: %v", sc.ID, err)
			return
		}
		last = res
		run.Obs("attempts", 1)
		report(run, sc, att, res)
		if len(res.problems) > 0 {
			run.Inconclusive("%s attempt %d: %s", sc.ID, att, strings.Join(res.problems, "; "))
			return
		}
		if res.stall == "" {
			break
		}
		stalls = append(stalls, res.stall+": "+res.stallMsg)
		stallSigs = append(stallSigs, res.stall)
		run.Obs("stalled_attempts", 1)
		if run.HasViolations() && slices.ContainsFunc(res.an.findings, func(f finding) bool {
			return !strings.HasPrefix(f.Sig, "limits:") && !strings.HasPrefix(f.Sig, "wire:")
		}) {
			break // a safety finding explains the stall; no need to retry
		}
		// (a block-limit or wire finding names a cause, but whether progress is
		// lost for good is still decided by three attempts)
	}
	sameStall := true
	for _, s := range stallSigs {
		sameStall = sameStall && s == stallSigs[0]
	}
	if len(stalls) == 3 && !sameStall {
		run.Inconclusive("%s: three attempts stalled, but not at the same point (%v): %s", sc.ID, stallSigs, strings.Join(stalls, " | "))
	} else if len(stalls) == 3 {
		run.Violation(last.stall, sc.ID, fmt.Sprintf("%s (%s): three consecutive fresh attempts failed: %s", sc.ID, sc.Cfg, strings.Join(stalls, " | ")),
			witness(sc, last, map[string]any{"stalls": stalls}))
	} else if len(stalls) > 0 {
		run.Inconclusive("%s: %d of %d attempts stalled (bounded progress is decided by three consecutive failures only): %s", sc.ID, len(stalls), len(stalls)+1, stalls[0])
	}
}

func witness(sc schedule, res *attemptResult, extra map[string]any) map[string]any {
	w := map[string]any{"schedule": sc.ID, "config": sc.Cfg.String(), "steps": res.steps, "heights": res.heights, "network": res.net}
	if sc.Scen != "" {
		w["scripted_rounds"] = fmt.Sprint(sc.Rounds)
	}
	rec := res.rec
	rec.mu.Lock()
	evs := rec.events
	if len(evs) > 150 {
		evs = evs[len(evs)-150:]
	}
	w["event_log_tail"] = evs
	wl := rec.warns
	if len(wl) > 80 {
		wl = wl[len(wl)-80:]
	}
	w["node_warnings_tail"] = wl
	w["payloads_broadcast"] = rec.msgTypes
	rec.mu.Unlock()
	for k, v := range extra {
		w[k] = v
	}
	return w
}

func report(run *ev.Run, sc schedule, att int, res *attemptResult) {
	rec := res.rec
	for k, v := range res.net {
		if strings.Contains(k, "max_") {
			run.ObsMax("net_"+k, v)
			continue
		}
		run.Obs("net_"+k, v)
	}
	rec.mu.Lock()
	for k, v := range rec.msgTypes {
		run.Obs("payload_"+k, v)
	}
	for k, v := range rec.xpRejects {
		run.Obs("extpool_"+k, v)
	}
	viewChanges := rec.logs["info:changing dbft view"]
	recoveries := rec.msgTypes["RecoveryMessage"]
	run.Obs("view_changes_performed_by_nodes", viewChanges)
	for k, v := range rec.logs {
		if strings.HasPrefix(k, "warn:") || strings.HasPrefix(k, "error:") {
			run.Obs("log_"+strings.ReplaceAll(k, " ", "_"), v)
		}
	}
	events := int64(len(rec.events))
	run.Obs("chain_events_handled_with_ledger_ahead", rec.ledgerAhead)
	run.Obs("commits_sent_from_a_burst_initialisation", rec.commitsAfterBurstInit)
	rec.mu.Unlock()
	run.Obs("event_log_entries", events)
	var kinds []string
	for k := range res.kinds {
		kinds = append(kinds, k)
		run.Obs("fault_steps_"+k, 1)
	}
	sort.Strings(kinds)
	run.Obs("blocks_produced_in_fault_phases", int64(res.faultBlocks))
	run.Obs("blocks_produced_in_quiet_phases", int64(res.quietBlocks))
	for _, s := range res.steps {
		if s.Net != "quiet" && s.Produced == 0 {
			run.Obs("fault_steps_without_progress", 1)
		}
		if s.Net == "quiet" {
			run.ObsMax("quiet_phase_max_ms", s.Ms)
		}
	}
	if res.an == nil {
		return
	}
	for k, v := range res.an.obs {
		if strings.HasPrefix(k, "largest_") && os.Getenv("VERIF_PART") == "bursts" {
			continue // the driver adds the parts' numbers up: the maxima come from the part 'net' alone
		}
		if strings.Contains(k, "max_") || strings.HasPrefix(k, "largest_") {
			run.ObsMax(k, v)
			continue
		}
		run.Obs(k, v)
	}
	run.ObsMax("max_height", int64(res.an.maxH))
	for _, f := range res.an.findings {
		run.Violation(f.Sig, sc.ID, fmt.Sprintf("%s attempt %d (%s): %s", sc.ID, att, sc.Cfg, f.Detail), witness(sc, res, f.Witness))
	}
	cfgSig := sc.Cfg.String()
	if sc.Scen != "" {
		cfgSig = "scripted:" + sc.Scen + " " + cfgSig
	}
	if sc.Scen == "full" {
		cfgSig += fmt.Sprintf(" in-every-pool-before-the-start=%d later=%v", sc.Full.N, sc.Full.Second > 0)
	}
	if sc.Scen == "losttx" {
		cfgSig += fmt.Sprintf(" withheld<=%d invalid-for-the-others=%v", sc.Lost.MaxLost, sc.Lost.Invalid)
	}
	sig := fmt.Sprintf("%s faults=%s viewchange=%v recovery=%v reqtx=%v sync=%v dup=%v reorder=%v",
		cfgSig, strings.Join(kinds, ","), viewChanges > 0, recoveries > 0, res.net["delivered_tx"] > 0, res.net["delivered_syncblock"] > 0, res.net["duplicated"] > 0, res.net["reordered"] > 0)
	nontrivial := res.faultBlocks > 0 && res.an.obs["heights_agreed"] > 0 && res.an.obs["node_height_hashes_compared"] > 0
	if sc.Scen != "" {
		// scripted: the situation was really built (commit lock observed at the
		// Broadcast boundary / a backlog of >= 2 blocks delivered in one burst)
		// and the ledgers were compared
		built := res.net["commit_lock_rounds_established"] + res.net["backlog_rounds"] + res.net["epoch_burst_rounds"] +
			res.an.obs["misconf_heights_settled_at_a_later_view_after_a_refused_proposal"] + res.an.obs["misconf_blocks_above_the_limits_of_an_odd_validator_settled_without_its_preparation"] +
			res.net["losttx_heights_settled_after_a_view_change"]
		if sc.Scen == "full" && res.an.obs["largest_block_on_chain_txs"] >= min(int64(sc.Full.N), res.net["full_max_block_capacity_txs"]) {
			built++ // a block carried everything pooled before the start, or as much as the limits allow
		}
		nontrivial = built > 0 && res.an.obs["heights_agreed"] > 0 && res.an.obs["node_height_hashes_compared"] > 0
		sig += fmt.Sprintf(" race-detector=%v lagger-committed-in-burst=%v", os.Getenv("VERIF_PART") != "bursts", res.net["backlog_laggers_that_committed_during_the_burst"]+res.net["epoch_burst_laggers_that_committed_during_the_burst"] > 0)
	}
	if res.stall == "" || att == 3 || len(res.an.findings) > 0 {
		run.Case(sig, nontrivial)
	}
	run.Sample(map[string]any{"schedule": sc.ID, "attempt": att, "config": sc.Cfg.String(), "steps": res.steps, "final_heights": res.heights,
		"heights_agreed": res.an.obs["heights_agreed"], "deliveries": res.net["delivered"], "dropped_loss": res.net["dropped_loss"], "dropped_partition": res.net["dropped_partition"],
		"dropped_silenced": res.net["dropped_silenced"], "duplicated": res.net["duplicated"], "reordered": res.net["reordered"], "view_changes": viewChanges,
		"txs_on_chain": res.an.obs["transactions_on_chain"], "stall": res.stall, "wall_ms": res.wall.Milliseconds()})
}

package c19

import (
	"fmt"
	"os"
	"slices"
	"time"

	"github.com/nspcc-dev/neo-go/verifharness/vlib/ev"
)

// Scripted schedules. The random schedules of makeSchedule draw every fault
// step independently; the situations below need a particular history, so they
// are built step by step from the same network primitives (targeted loss,
// cut, mute, a stalled inbound link that delivers its backlog in one burst).
// Which validators play which part is drawn from the schedule's stream.
//
//	commit-lock     F+1 validators receive every preparation of view v and
//	                commit; the others miss the prepare responses (one of them
//	                optionally the proposal too, or everything: it is cut), so
//	                nobody can change view any more and nobody can finish. After
//	                the faults stop the height can only be finished through
//	                RecoveryRequest / RecoveryMessage. v = 0, or v >= 1 after
//	                every proposal of the lower views was lost.
//	backlog-burst   the inbound links of up to f validators stall for more than
//	                N blocks; f+1-|laggers| more validators are then cut, so that
//	                the others cannot finish the next height without a lagger.
//	                First the consensus payloads of the heights above the
//	                laggers' get through (kept for later, including the proposal
//	                and the responses of the open height), then the batch of
//	                blocks and the rest in one burst: the ledger adds blocks
//	                while the consensus loop replays what it kept, and runs
//	                ahead of it. What the laggers send meanwhile is lost; then
//	                recovery messages are lost, so that the only way on is a view
//	                change - unless a validator still knows that it committed.
//	epoch-burst     the same burst across a change of the validator count
//	                (7 -> 4): f+1 = 2 validators of the small set lag behind the
//	                big one (f = 2 there) and catch up on its last blocks and on
//	                the first proposal of the small set at once; their answers
//	                reach only the primary, which accepts the block and falls
//	                silent (f = 1). With fixed validators f+1 nodes can never
//	                lag >= 2 blocks behind together (the top block needs M
//	                signers that hold its parent); across a shrinking they can.
//
// After every scripted fault the network heals completely and the post-fault
// bounded-progress verdict applies (afterFaults).
type scenRound struct {
	Kind  string `json:"kind"`
	View  int    `json:"view,omitempty"`
	BMode string `json:"b_mode,omitempty"` // commit-lock: "", "lost-request", "responses-only", "cut"
}

func (r scenRound) String() string {
	if r.Kind != "commit-lock" {
		return r.Kind
	}
	s := fmt.Sprintf("%s@view%d", r.Kind, r.View)
	if r.BMode != "" {
		s += "+" + r.BMode
	}
	return s
}

// faultKind is the part of a progress signature that names the fault.
func (r scenRound) faultKind() string {
	if r.Kind != "commit-lock" {
		return r.Kind
	}
	if r.View == 0 {
		return "commit-lock-at-view-0"
	}
	return "commit-lock-after-view-change"
}

const scenBase = 1000 // schedule indices of scripted schedules start here

func scenSchedules() []schedule {
	thorough := ev.Tier() == "thorough"
	part := os.Getenv("VERIF_PART")
	var out []schedule
	add := func(id, scen string, c clusterCfg, rounds []scenRound, maxTxs int) {
		idx := scenBase + len(out)
		c.BlockTime = blockTime
		c.KeyLabel = fmt.Sprintf("c19-%d-%d", ev.Seed(), idx)
		out = append(out, schedule{Idx: idx, ID: id, Cfg: c, Scen: scen, Rounds: rounds, MaxTxs: maxTxs})
	}
	lock := func(v int, b string) scenRound { return scenRound{Kind: "commit-lock", View: v, BMode: b} }
	recRounds := []scenRound{lock(0, ""), lock(0, "lost-request"), lock(0, "responses-only"), lock(1, "lost-request"), lock(1, ""), lock(1, "cut"), lock(1, "responses-only"), lock(0, "cut"), lock(2, "lost-request")}
	burst := scenRound{Kind: "backlog-burst"}
	epoch := []scenRound{{Kind: "epoch-burst"}}
	if part == "bursts" {
		// The part without the race detector: the bursts once more, with the
		// timing of a production build (under the detector a ledger needs
		// relatively longer per block than the consensus loop per height, and
		// the point of a burst is a ledger that runs ahead of the loop).
		nb, ne, rounds := 3, 4, 6
		if thorough {
			nb, ne, rounds = 8, 24, 10
		}
		for i := 0; i < nb; i++ {
			c := clusterCfg{N: 7, SRIH: i%2 == 1, ExtPool: i%3 == 2}
			if i%4 == 3 {
				c.N = 4
			}
			add(fmt.Sprintf("burst-nr-%d", i), "burst", c, slices.Repeat([]scenRound{burst}, rounds), 30)
		}
		for i := 0; i < ne; i++ {
			c := clusterCfg{N: 7, SwitchTo: 4, SwitchAt: 14, SRIH: i%2 == 1, ExtPool: i%3 == 2}
			if i%4 == 3 {
				c.SwitchAt = 21
			}
			add(fmt.Sprintf("epoch-burst-nr-%d", i), "epoch", c, epoch, 20)
		}
		return out
	}
	for i, srih := range []bool{false, true} {
		add(fmt.Sprintf("rec-%d", i), "rec", clusterCfg{N: 4, SRIH: srih, ExtPool: i == 1}, recRounds, 40)
	}
	// the consensus loop of a node among seven validators needs longer per
	// height than its ledger needs per block: only there a backlog makes the
	// ledger run ahead of the loop
	for i, srih := range []bool{false, true} {
		add(fmt.Sprintf("burst-%d", i), "burst", clusterCfg{N: 7, SRIH: srih}, slices.Repeat([]scenRound{burst}, 6), 30)
	}
	add("burst-2", "burst", clusterCfg{N: 4, ExtPool: true}, slices.Repeat([]scenRound{burst}, 6), 30)
	add("epoch-burst-0", "epoch", clusterCfg{N: 7, SwitchTo: 4, SwitchAt: 14}, epoch, 20)
	if thorough {
		long := slices.Concat(recRounds, []scenRound{lock(2, ""), lock(2, "cut"), lock(3, "lost-request"), lock(1, "lost-request"), lock(2, "responses-only"), lock(0, "")})
		for i := 2; i < 8; i++ {
			c := clusterCfg{N: 4, SRIH: i%2 == 1, ExtPool: i%3 == 0}
			if i >= 4 {
				c.N = 7
			}
			if i == 3 {
				c.MaxTx = 3
			}
			add(fmt.Sprintf("rec-%d", i), "rec", c, long, 80)
		}
		for i := 3; i < 8; i++ {
			c := clusterCfg{N: 7, SRIH: i%2 == 1, ExtPool: i%3 == 0}
			if i >= 7 {
				c.N = 4
			}
			add(fmt.Sprintf("burst-%d", i), "burst", c, slices.Repeat([]scenRound{burst}, 10), 60)
		}
		for i := 1; i < 6; i++ {
			c := clusterCfg{N: 7, SwitchTo: 4, SwitchAt: 14, SRIH: i%2 == 1, ExtPool: i%3 == 0}
			if i%4 == 3 {
				c.SwitchAt = 21
			}
			add(fmt.Sprintf("epoch-burst-%d", i), "epoch", c, epoch, 20)
		}
	}
	return out
}

// ---- post-fault bounded progress ----

const (
	postFaultIntervals = 120 // block intervals without any accepted block ...
	postFaultTimeouts  = 5   // ... during which every validator's timer fired at least this often
)

// afterFaults heals the network completely (every node connected, nothing
// lost or delayed, lagging nodes synchronised by the harness as always) and
// waits for a block above the present top. The run is a stall candidate when
// no node at all accepted a block for postFaultIntervals block intervals while
// every live validator sent at least postFaultTimeouts timer-driven payloads
// (proposal, change view, recovery request, recovery message): the logical
// part makes sure that a frozen process alone never decides.
func (a *attempt) afterFaults(kind string) bool {
	cl, rec := a.cl, a.cl.rec
	n := len(cl.nodes)
	before := cl.heights()
	a.net.setCfg(netCfg{Kind: "quiet"})
	ph := int(rec.phase.Add(1))
	t0 := time.Now()
	top0 := maxU32(before)
	acc := rec.accepted.Load()
	tAcc := time.Now()
	timers := rec.timerSentBy(n)
	ok := true
	for {
		hs := cl.heights()
		if maxU32(hs) > top0 {
			break
		}
		now := time.Now()
		if x := rec.accepted.Load(); x != acc {
			acc, tAcc, timers = x, now, rec.timerSentBy(n)
		}
		if idle := now.Sub(tAcc); idle > postFaultIntervals*blockTime {
			cur := rec.timerSentBy(n)
			isVal := cl.validatorNodes()
			fired := true
			var per []int64
			for i := range cur {
				per = append(per, cur[i]-timers[i])
				if isVal[i] && !cl.nodes[i].dead.Load() && cur[i]-timers[i] < postFaultTimeouts {
					fired = false
				}
			}
			if fired {
				a.res.stall = "progress:permanent-stall-after-faults-stopped:" + kind
				a.res.stallMsg = fmt.Sprintf("phase %d (after %s): every node connected and every message delivered for %s, yet no node accepted a block (heights %v, timer-driven payloads sent per node meanwhile %v)", ph, kind, idle.Round(time.Millisecond), hs, per)
				ok = false
				break
			}
			if idle > 4*postFaultIntervals*blockTime {
				a.res.problems = append(a.res.problems, fmt.Sprintf("phase %d (after %s): no block for %s, but the validators' timers did not fire often enough to judge (%v)", ph, kind, idle.Round(time.Millisecond), per))
				ok = false
				break
			}
		}
		time.Sleep(blockTime / 4)
	}
	after := cl.heights()
	prod := int(maxU32(after) - top0)
	ms := time.Since(t0).Milliseconds()
	a.res.steps = append(a.res.steps, stepInfo{ph, "healed after " + kind, before, after, ms, prod})
	a.res.quietBlocks += prod
	a.net.count("post_fault_phases", 1)
	if ok {
		a.net.count("post_fault_phases_with_progress", 1)
		a.net.max("post_fault_max_ms_to_next_block", ms)
	}
	return ok
}

// faultStep switches the network to cfg and logs the step when it ends.
func (a *attempt) faultStep(cfg netCfg, done func() bool, cap time.Duration) bool {
	before := a.cl.heights()
	ph := int(a.cl.rec.phase.Add(1))
	if debugLogs {
		fmt.Printf("%s STEP phase=%d heights=%v %s\n", time.Now().Format("05.000000"), ph, before, cfg.summary())
	}
	a.net.setCfg(cfg)
	t0 := time.Now()
	reached := waitUntil(cap, done)
	after := a.cl.heights()
	prod := int(maxU32(after) - maxU32(before))
	a.res.steps = append(a.res.steps, stepInfo{ph, cfg.summary(), before, after, time.Since(t0).Milliseconds(), prod})
	a.res.kinds[cfg.Kind] = true
	a.res.faultBlocks += prod
	return reached
}

func setOf(n int, idx ...int) []bool {
	v := make([]bool, n)
	for _, i := range idx {
		v[i] = true
	}
	return v
}

func notOf(v []bool) []bool {
	r := make([]bool, len(v))
	for i := range v {
		r[i] = !v[i]
	}
	return r
}

// commitSenders counts the nodes that broadcast a Commit for height h at a
// view >= minView.
func (cl *cluster) commitSenders(h uint32, minView int) (k int) {
	cl.rec.mu.Lock()
	defer cl.rec.mu.Unlock()
	for _, m := range cl.rec.sentCommits {
		if slices.ContainsFunc(m[h], func(c sentCommit) bool { return int(c.View) >= minView }) {
			k++
		}
	}
	return
}

func (a *attempt) validatorIdx() (r []int) {
	for i, v := range a.cl.validatorNodes() {
		if v {
			r = append(r, i)
		}
	}
	return
}

// scenario runs the scripted rounds of a schedule.
func (a *attempt) scenario() {
	ok := a.quiet(2, false)
	for _, r := range a.sc.Rounds {
		if !ok {
			return
		}
		switch r.Kind {
		case "commit-lock":
			a.commitLock(r)
		case "backlog-burst":
			a.backlogBurst(r)
		case "epoch-burst":
			a.epochBurst(r)
		}
		ok = a.afterFaults(r.faultKind())
		if ok {
			ok = a.quiet(1+a.sr.Intn(2), false) // everybody catches up before the next round
		}
	}
	if ok {
		a.stopFeeder()
		a.quiet(a.sc.Cfg.MaxVals()+1, true)
	}
}

// commitLock: see the comment at the top of the file.
func (a *attempt) commitLock(r scenRound) {
	cl := a.cl
	n := len(cl.nodes)
	vals := a.validatorIdx()
	f := (len(vals) - 1) / 3
	perm := a.sr.Perm(len(vals))
	fav := make([]bool, n)
	for i := range fav {
		fav[i] = true // nodes that are not validators hear everything
	}
	nb := 0
	if r.BMode != "" {
		nb = 1 + a.sr.Intn(f) // at most f: the others still make M preparations
	}
	var bs []int
	for k, pi := range perm {
		v := vals[pi]
		if k < f+1 {
			continue // favoured
		}
		fav[v] = false
		if len(bs) < nb {
			bs = append(bs, v)
		}
	}
	unfav := notOf(fav)
	c := netCfg{Kind: r.faultKind()}
	if r.View > 0 {
		c.Rules = append(c.Rules, lossRule{Types: []string{"PrepareRequest", "RecoveryMessage"}, ViewMin: 0, ViewMax: r.View - 1, Pct: 100})
	}
	respLost, recLost := lossRule{Types: []string{"PrepareResponse"}, ViewMin: r.View, ViewMax: -1, To: unfav, Pct: 100}, lossRule{Types: []string{"RecoveryMessage"}, ViewMin: r.View, ViewMax: -1, To: unfav, Pct: 100}
	if r.BMode == "responses-only" {
		// B hears the responses but not the proposal: what it can tell others
		// in a recovery message is the hash of the proposal only, and that is
		// the one kind of recovery message that gets through during the fault
		respLost.To = slices.Clone(unfav)
		for _, b := range bs {
			respLost.To[b] = false
		}
		recLost.From = notOf(setOf(n, bs...))
	}
	c.Rules = append(c.Rules, respLost, recLost)
	switch r.BMode {
	case "lost-request", "responses-only":
		c.Rules = append(c.Rules, lossRule{Types: []string{"PrepareRequest"}, ViewMin: r.View, ViewMax: -1, To: setOf(n, bs...), Pct: 100})
	case "cut":
		c.Cut = setOf(n, bs...)
	}
	var lockedAt uint32
	established := a.faultStep(c, func() bool {
		h := maxU32(cl.heights()) + 1
		if cl.commitSenders(h, r.View) >= f+1 {
			if lockedAt == h {
				return true // seen twice: the commits had time to spread
			}
			lockedAt = h
		}
		return false
	}, time.Duration(30+25*r.View)*blockTime)
	a.net.count("commit_lock_rounds", 1)
	if established {
		a.net.count("commit_lock_rounds_established", 1)
		a.net.count(fmt.Sprintf("commit_lock_established_%s", r), 1)
	}
}

// backlogBurst: see the comment at the top of the file. Node index ==
// validator index in the clusters this is used with.
func (a *attempt) backlogBurst(r scenRound) {
	cl := a.cl
	n := len(cl.nodes)
	f := (n - 1) / 3
	nl := f // laggers; with f+1-nl more validators cut the others are one short of M
	if a.sr.Intn(3) == 0 {
		nl = 1 + a.sr.Intn(f)
	}
	laggers := a.sr.Perm(n)[:nl]
	isLagger := setOf(n, laggers...)
	k := uint32(n + 1 + a.sr.Intn(4))
	// (0) the laggers' inbound links stall right after a block, so that the
	// whole consensus traffic of their next height is in the backlog; the
	// others go on until the laggers are k blocks behind and none of them is
	// the primary of the next height
	base := maxU32(cl.heights())
	for dl := time.Now().Add(20 * blockTime); time.Now().Before(dl); time.Sleep(blockTime / 50) {
		if h := minU32(cl.heights()); h > base {
			base = h
			break
		}
	}
	c := netCfg{Kind: "backlog-burst", Hold: isLagger}
	// the last height the others finish without the laggers: the first one
	// from base+k on whose successor has no lagger for a primary. The height
	// before it is settled at view 1 (its view-0 proposal is lost): what the
	// laggers keep of it is a change of view plus a round, the longest thing
	// their consensus loop will have to replay.
	last := base + k
	for isLagger[int(last+1)%n] {
		last++
	}
	var top uint32
	reach := func(h uint32) func() bool {
		return func() bool { top = maxU32(cl.heights()); return top >= h }
	}
	ok := a.faultStep(c, reach(last-2), time.Duration(40+10*n)*blockTime)
	if ok {
		c2 := c
		c2.Rules = []lossRule{{Types: []string{"PrepareRequest", "RecoveryMessage"}, ViewMin: 0, ViewMax: 0, Pct: 100}}
		ok = a.faultStep(c2, reach(last-1), 30*blockTime)
	}
	if !ok || !a.faultStep(c, reach(last), 30*blockTime) || top != last {
		a.net.count("backlog_rounds_not_set_up", 1)
		return
	}
	// (1) validators that are neither laggers nor the next primaries are cut:
	// the open height now needs a lagger. Its proposal and the responses get
	// through to the laggers, which keep them for later.
	var cut []int
	for _, i := range a.sr.Perm(n) {
		if len(cut) < f+1-nl && !isLagger[i] && i != int(top+1)%n && i != int(top)%n {
			cut = append(cut, i)
		}
	}
	c.Cut = setOf(n, cut...)
	// The consensus payloads of the heights above the one the laggers work on
	// get through first (small, pushed by every peer; the laggers keep them
	// for later), the batch of blocks and the rest follow in step (2).
	for _, l := range laggers {
		c.HoldBelow = max(c.HoldBelow, cl.heights()[l]+2)
	}
	a.faultStep(c, func() bool { return false }, 3*blockTime)
	hs := cl.heights()
	behind := maxU32(hs) - hs[laggers[0]]
	// (2) the backlog arrives in one burst; nothing the laggers send gets
	// through, and from now on recovery messages are lost
	c.Hold, c.HoldBelow = nil, 0
	c.Mute = isLagger
	c.Rules = []lossRule{{Types: []string{"RecoveryMessage"}, ViewMin: 0, ViewMax: -1, Pct: 100}}
	open := maxU32(hs) + 1
	a.faultStep(c, func() bool { return false }, 4*blockTime)
	a.net.count("backlog_rounds", 1)
	a.net.count("backlog_laggers", int64(nl))
	a.net.count("backlog_blocks_behind_at_burst", int64(behind))
	a.net.count("backlog_laggers_that_committed_during_the_burst", int64(cl.commitSenders(open, 0)))
	// (3) the laggers are heard again. A validator that knows that it committed
	// answers its timer with recovery messages only (lost here): nothing can
	// happen and the step ends early. One that asks for recovery or for a view
	// change gets the time to carry it through.
	c.Mute = nil
	sent := func(types ...string) (k int64) {
		for _, l := range laggers {
			k += cl.rec.sentOf(l, types...)
		}
		return
	}
	rm0, ask0 := sent("RecoveryMessage"), sent("RecoveryRequest", "ChangeView")
	t0 := time.Now()
	a.faultStep(c, func() bool {
		if maxU32(cl.heights()) >= open {
			return true
		}
		return sent("RecoveryRequest", "ChangeView") == ask0 && time.Since(t0) > 7*blockTime && sent("RecoveryMessage") > rm0
	}, 30*blockTime)
	if sent("RecoveryRequest", "ChangeView") > ask0 {
		a.net.count("backlog_rounds_a_lagger_asked_for_recovery_or_view_change", 1)
	}
}

// epochBurst: see the comment at the top of the file.
func (a *attempt) epochBurst(r scenRound) {
	cl := a.cl
	cfg := a.sc.Cfg
	n := len(cl.nodes)
	nv := cfg.SwitchTo // validators of the small set: nodes 0..nv-1
	if nv == 0 || nv >= cfg.N {
		return
	}
	fNew := (nv - 1) / 3
	nextVals := func() int {
		hs := cl.heights()
		best := 0
		for i := range hs {
			if hs[i] > hs[best] {
				best = i
			}
		}
		vals, err := cl.nodes[best].bc.GetNextBlockValidators()
		if err != nil {
			return 0
		}
		return len(vals)
	}
	// f+1 validators of the coming set lag; neither is the primary of the
	// first height of that set (which is SwitchAt or the height after it)
	var laggers []int
	for _, i := range a.sr.Perm(nv) {
		if len(laggers) < fNew+1 && i != int(cfg.SwitchAt)%nv && i != int(cfg.SwitchAt+1)%nv {
			laggers = append(laggers, i)
		}
	}
	isLagger := setOf(n, laggers...)
	k := uint32(cfg.N + 1 + a.sr.Intn(3))
	if len(laggers) != fNew+1 || len(laggers) > cfg.F7() || cfg.SwitchAt < k+3 {
		a.net.count("epoch_burst_not_set_up", 1)
		return
	}
	// the chain runs quietly until k blocks before the change
	if !waitUntil(time.Duration(cfg.SwitchAt)*10*blockTime, func() bool { return minU32(cl.heights()) >= cfg.SwitchAt-k }) || nextVals() != cfg.N {
		a.net.count("epoch_burst_not_set_up", 1)
		return
	}
	// (0) the laggers' inbound links stall; the big set goes on without them to
	// its last block and the small set opens its first height: the proposal
	// and the one response the others can give are less than M
	c := netCfg{Kind: "epoch-burst", Hold: isLagger}
	// as in backlogBurst the height before the last one of the big set is
	// settled at view 1 (the switch comes right after SwitchAt-1 or SwitchAt)
	ok := a.faultStep(c, func() bool { return maxU32(cl.heights()) >= cfg.SwitchAt-2 }, time.Duration(k)*12*blockTime)
	if ok && nextVals() == cfg.N {
		c2 := c
		c2.Rules = []lossRule{{Types: []string{"PrepareRequest", "RecoveryMessage"}, ViewMin: 0, ViewMax: 0, Pct: 100}}
		ok = a.faultStep(c2, func() bool { return maxU32(cl.heights()) >= cfg.SwitchAt-1 }, 30*blockTime)
	}
	if !ok || !a.faultStep(c, func() bool { return nextVals() == nv }, 30*blockTime) {
		a.net.count("epoch_burst_not_set_up", 1)
		return
	}
	open := maxU32(cl.heights()) + 1
	prim := int(open) % nv
	if isLagger[prim] {
		a.net.count("epoch_burst_not_set_up", 1)
		return
	}
	for _, l := range laggers { // as in backlogBurst: the newer payloads first
		c.HoldBelow = max(c.HoldBelow, cl.heights()[l]+2)
	}
	a.faultStep(c, func() bool { return false }, 3*blockTime)
	hs := cl.heights()
	behind := maxU32(hs) - hs[laggers[0]]
	// (1) the backlog arrives in one burst; whatever is sent now reaches the
	// primary only
	c.Hold, c.HoldBelow = nil, 0
	c.Rules = []lossRule{{Kinds: []string{"payload", "block", "syncblock", "tx", "getdata"}, ViewMin: 0, ViewMax: -1, To: notOf(setOf(n, prim)), Pct: 100}}
	a.faultStep(c, func() bool { return cl.heights()[prim] >= open }, 12*blockTime)
	a.net.count("epoch_burst_rounds", 1)
	a.net.count("epoch_burst_blocks_behind_at_burst", int64(behind))
	a.net.count("epoch_burst_laggers_that_committed_during_the_burst", int64(cl.commitSenders(open, 0)))
	if cl.heights()[prim] >= open {
		a.net.count("epoch_burst_block_accepted_by_the_primary_alone", 1)
	}
	// (2) the primary falls silent (f = 1 of the small set), recovery messages
	// are lost. Validators that know that they committed can only repeat
	// themselves: nothing happens and the step ends early.
	c.Rules = []lossRule{{Types: []string{"RecoveryMessage"}, ViewMin: 0, ViewMax: -1, Pct: 100}}
	c.Cut = setOf(n, prim)
	sent := func(types ...string) (k int64) {
		for _, l := range laggers {
			k += cl.rec.sentOf(l, types...)
		}
		return
	}
	rm0, ask0 := sent("RecoveryMessage"), sent("RecoveryRequest", "ChangeView")
	t0 := time.Now()
	a.faultStep(c, func() bool {
		for i, h := range cl.heights() {
			if i != prim && h >= open {
				return true
			}
		}
		return sent("RecoveryRequest", "ChangeView") == ask0 && time.Since(t0) > 7*blockTime && sent("RecoveryMessage") > rm0
	}, 40*blockTime)
}

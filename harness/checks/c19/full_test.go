package c19

import (
	"fmt"
	"math"
	"os"

	"github.com/nspcc-dev/neo-go/pkg/core/transaction"
	"github.com/nspcc-dev/neo-go/pkg/neotest"
	"github.com/nspcc-dev/neo-go/pkg/util"
	"github.com/nspcc-dev/neo-go/pkg/vm/opcode"
	"github.com/nspcc-dev/neo-go/verifharness/vlib/ev"
	"github.com/nspcc-dev/neo-go/verifharness/vlib/rng"
)

// Full blocks.
//
// All validators are honest and configured alike, with the default block
// limits (MaxTransactionsPerBlock 512) or a higher configured per-block
// maximum (1000 / 2000 with a MaxBlockSize to match; the protocol allows up to
// 65535), and the network is perfect. N cheap valid transactions, N around the
// limits (499 .. 513, 520, 999 .. 1100, ...), are in every pool *before the
// services start*: the first primary then builds its first proposal from a
// pool that holds all of them, whatever the timing, and names min(N, limit)
// hashes in one PrepareRequest. Expected: the blocks carry min(N, limit)
// transactions at view 0 and everything is on chain ceil(N / limit) + a few
// heights later. A second burst of that kind is pooled while the chain runs
// (the blocks then take what has arrived; it is under the inclusion bound).
//
// Oracles: the safety oracles of every schedule (a committed block of 512
// transactions is replayed on fresh ledgers like any other), progress by the
// logical criterion of steady, the inclusion bound, the view-0 inclusion
// oracle from height 1 on (the transactions were pooled before the start), and
// the receive-boundary decode of every payload.

const fullBase = 4000 // schedule indices of these schedules start here

type fullCfg struct {
	N      int // transactions in every pool before the services start
	Second int // transactions pooled later, while the chain runs (0 = none)
}

func fullSchedules() []schedule {
	if os.Getenv("VERIF_PART") == "bursts" {
		return nil // these run in the part with the race detector only
	}
	type variant struct {
		n             int
		srih, extPool bool
		maxTx         int // 0 = default (512)
		pooled        []int
	}
	around512 := []int{499, 500, 501, 511, 512, 513, 520, 530}
	vs := []variant{
		{4, false, false, 0, []int{501, 511, 512, 513, 520}},
		{4, true, true, 0, []int{499, 500, 501, 502}},
		{4, false, false, 1000, []int{999, 1000, 1001, 1040}},
	}
	if ev.Tier() == "thorough" {
		vs = append(vs,
			variant{7, false, false, 0, around512},
			variant{7, true, true, 0, around512},
			variant{4, true, false, 0, around512},
			variant{4, false, true, 0, []int{1030, 1100, 1536, 1540}},
			variant{4, true, false, 1000, []int{999, 1000, 1001, 1100, 2001}},
			variant{7, false, false, 1000, []int{1000, 1001, 1100}},
			variant{4, false, false, 2000, []int{1999, 2000, 2001, 2100}},
			variant{4, true, true, 2000, []int{2000, 2001, 2050}},
			variant{4, false, false, 600, []int{599, 600, 601, 1201}},
			variant{4, true, false, 500, []int{499, 500, 501, 1001}},
			variant{4, false, true, 501, []int{500, 501, 502, 1003}},
		)
	}
	var out []schedule
	for i, v := range vs {
		idx := fullBase + i
		r := rng.New(uint64(690000 + idx))
		c := clusterCfg{N: v.n, SRIH: v.srih, ExtPool: v.extPool, BlockTime: blockTime, KeyLabel: fmt.Sprintf("c19-%d-%d", ev.Seed(), idx), MaxTx: v.maxTx}
		if v.maxTx > 600 {
			c.MaxSize = uint32(v.maxTx) * 1024 // the size limit follows the configured count
		}
		fc := fullCfg{N: v.pooled[r.Intn(len(v.pooled))]}
		if r.Intn(3) > 0 {
			fc.Second = 200 + r.Intn(400)
		}
		out = append(out, schedule{Idx: idx, ID: fmt.Sprintf("full-%d", i), Cfg: c, Scen: "full", Full: fc})
	}
	return out
}

// cheapTxs builds k minimal transactions (one PUSH1) paid and signed by the
// validators' multisignature account: one fee calculation for all of them
// (they have the same size), M signatures each.
func (a *attempt) cheapTxs(r *rng.R, k int, vub uint32) []*transaction.Transaction {
	cl := a.cl
	const sysFee = 10_0000
	var netFee int64
	txs := make([]*transaction.Transaction, k)
	for i := range txs {
		tx := transaction.New([]byte{byte(opcode.PUSH1)}, sysFee)
		tx.Nonce = a.nonce.Add(1)
		tx.ValidUntilBlock = vub
		tx.Signers = []transaction.Signer{{Account: cl.multi.ScriptHash(), Scopes: transaction.CalledByEntry}}
		if netFee == 0 {
			neotest.AddNetworkFee(a.t, cl.nodes[0].bc, tx, cl.multi)
			netFee = tx.NetworkFee
		}
		tx.NetworkFee = netFee + int64(r.Intn(4))*1_0000 // different priorities
		if err := cl.multi.SignTx(cl.magic, tx); err != nil {
			panic(err)
		}
		txs[i] = tx
	}
	return txs
}

// fullPrepool fills every pool before the services start.
func (a *attempt) fullPrepool() {
	fc := a.sc.Full
	txs := a.cheapTxs(a.sr, fc.N, 200)
	a.fullSize = txs[0].Size()
	a.fullFirst = a.submitEverywhere(txs, 1)
	a.cl.rec.mu.Lock()
	for _, h := range a.fullFirst {
		a.cl.rec.txs[h].PreStart = true
	}
	a.cl.rec.mu.Unlock()
	a.net.count("full_txs_in_every_pool_before_the_start", int64(fc.N))
}

// full runs a schedule of this family (fullPrepool ran before the start).
func (a *attempt) full() {
	cl, fc := a.cl, a.sc.Full
	n := len(cl.nodes)
	a.net.setCfg(netCfg{Kind: "quiet"})
	a.res.kinds["full-blocks"] = true
	l := cl.commonLimits()
	noWit, wit := emptyBlockSize(n, a.sc.Cfg.SRIH)
	capTx := max(1, min(l.MaxTx, (l.MaxSize-noWit-wit-8)/(a.fullSize+2), int(l.MaxSysFee/10_0000)))
	a.net.max("full_max_block_capacity_txs", int64(capTx))
	onAll := func(hashes []util.Uint256) func() bool {
		return func() bool {
			for _, nd := range cl.nodes {
				// the latest first: they are the last to get in
				for i := len(hashes) - 1; i >= 0; i-- {
					if _, ih, err := nd.bc.GetTransaction(hashes[i]); err != nil || ih == math.MaxUint32 {
						return false
					}
				}
			}
			return true
		}
	}
	bound := func(k int, from uint32) uint32 { return from + 2 + uint32((k+capTx-1)/capTx) + uint32(n) }
	all := a.fullFirst
	pend := func() []util.Uint256 { return cl.pendingEverywhere(all) }
	setDeadline := func(hs []util.Uint256, d uint32) {
		cl.rec.mu.Lock()
		for _, h := range hs {
			cl.rec.txs[h].Deadline = d
		}
		cl.rec.mu.Unlock()
	}
	d1 := bound(fc.N, 0)
	setDeadline(a.fullFirst, d1)
	if !a.steady(fmt.Sprintf("%d transactions in every pool before the start, at most %d fit a block", fc.N, capTx), onAll(a.fullFirst), d1, pend) {
		return
	}
	if fc.Second > 0 {
		txs := a.cheapTxs(a.sr, fc.Second, maxU32(cl.heights())+200)
		second := a.submitEverywhere(txs, 2)
		all = append(all, second...)
		h1 := maxU32(cl.heights())
		d2 := bound(len(pend()), h1)
		setDeadline(second, d2)
		a.net.count("full_txs_pooled_everywhere_while_the_chain_runs", int64(fc.Second))
		if !a.steady(fmt.Sprintf("%d more transactions pooled at every node by height %d", fc.Second, h1), onAll(second), d2, pend) {
			return
		}
	}
	target := maxU32(cl.heights()) + uint32(n) + 1
	a.steady("empty pools", func() bool { return minU32(cl.heights()) >= target }, 0, nil)
}

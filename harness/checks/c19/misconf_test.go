package c19

import (
	"encoding/hex"
	"fmt"
	"math"
	"os"
	"slices"
	"sync"
	"time"

	"github.com/nspcc-dev/neo-go/pkg/core"
	"github.com/nspcc-dev/neo-go/pkg/core/block"
	"github.com/nspcc-dev/neo-go/pkg/core/native/nativehashes"
	"github.com/nspcc-dev/neo-go/pkg/core/transaction"
	"github.com/nspcc-dev/neo-go/pkg/smartcontract"
	"github.com/nspcc-dev/neo-go/pkg/util"
	"github.com/nspcc-dev/neo-go/pkg/vm/opcode"
	"github.com/nspcc-dev/neo-go/verifharness/vlib/ev"
	"github.com/nspcc-dev/neo-go/verifharness/vlib/rng"
	"github.com/nspcc-dev/neo-go/verifharness/vlib/vchain"
)

// Validators with different node-local block limits.
//
// MaxTransactionsPerBlock, MaxBlockSize and MaxBlockSystemFee are settings of
// a node, not of the chain: a validator whose operator left a larger (or
// smaller) value in its configuration runs the same honest code as everybody
// else, yet packs and judges proposals by its own numbers. The schedules below
// give up to f validators their own value of one limit and keep the network
// perfect (nothing lost, nothing late): whatever happens is the doing of the
// nodes alone.
//
//	larger   the odd validator, when it is the primary of view 0, proposes all
//	         it has in its pool. The pool (the same transactions were delivered
//	         to everybody) holds more than fits a block under the others'
//	         limits: the backups refuse the proposal, the view changes, the
//	         next primary proposes under its own limits - from its pool, or
//	         from the part of the refused proposal that fits - and the height
//	         is settled.
//	smaller  the odd validator refuses what the others propose and asks for a
//	         change of view alone; the others are M and go on, it takes the
//	         blocks from the network. Its own proposals are small.
//
// Expected in both cases: blocks keep coming, every transaction pooled
// everywhere is on chain a bounded number of heights later, every block
// respects the limits of the validators that signed it. Safety as in every
// schedule.
//
// The bursts are sized from the capacity of a block under the common limits
// and (most of them) timed so that the odd validator's turn as primary comes
// while the pool is still too big for one block.

const misconfBase = 2000 // schedule indices of these schedules start here

type misVariant struct {
	limit   string // "size", "sysfee", "maxtx"
	n       int
	srih    bool
	extPool bool
	nMis    int    // validators with their own value (<= f)
	dir     string // "larger", "smaller", "both" (nMis = 2: one of each)
	rounds  int
}

func misconfSchedules() []schedule {
	if os.Getenv("VERIF_PART") == "bursts" {
		return nil // these run in the part with the race detector only
	}
	var vs []misVariant
	rounds := ev.Pick(3, 6)
	vs = append(vs,
		misVariant{"size", 4, false, false, 1, "larger", rounds},
		misVariant{"sysfee", 4, true, true, 1, "larger", rounds},
		misVariant{"maxtx", 4, false, false, 1, "larger", rounds},
		misVariant{"size", 4, true, false, 1, "smaller", rounds},
		misVariant{"sysfee", 7, false, false, 2, "larger", rounds},
		misVariant{"size", 4, true, true, 1, "larger", rounds},
	)
	if ev.Tier() == "thorough" {
		vs = append(vs,
			misVariant{"sysfee", 4, false, false, 1, "larger", rounds},
			misVariant{"maxtx", 4, true, true, 1, "larger", rounds},
			misVariant{"size", 7, false, false, 2, "larger", rounds},
			misVariant{"sysfee", 7, true, false, 2, "larger", rounds},
			misVariant{"maxtx", 7, false, true, 1, "larger", rounds},
			misVariant{"size", 4, false, false, 1, "smaller", rounds},
			misVariant{"sysfee", 4, true, false, 1, "smaller", rounds},
			misVariant{"maxtx", 4, false, true, 1, "smaller", rounds},
			misVariant{"size", 7, true, false, 2, "both", rounds},
			misVariant{"sysfee", 7, false, true, 2, "both", rounds},
			misVariant{"maxtx", 7, true, false, 2, "both", rounds},
			misVariant{"size", 7, true, true, 1, "larger", rounds},
			misVariant{"sysfee", 4, false, true, 1, "larger", rounds},
			misVariant{"size", 4, true, false, 1, "larger", rounds},
		)
	}
	if ev.Tier() == "thorough" {
		g := rng.New(489999)
		for len(vs) < 48 {
			v := misVariant{limit: []string{"size", "sysfee", "maxtx"}[g.Weighted([]int{3, 3, 1})], n: 4, srih: g.Bool(), extPool: g.Intn(3) == 0, nMis: 1, dir: []string{"larger", "smaller"}[g.Weighted([]int{4, 1})], rounds: rounds}
			if g.Intn(3) == 0 {
				v.n, v.nMis = 7, 1+g.Intn(2)
				if v.nMis == 2 && g.Intn(3) == 0 {
					v.dir = "both"
				}
			}
			vs = append(vs, v)
		}
	}
	var out []schedule
	for i, v := range vs {
		idx := misconfBase + i
		r := rng.New(uint64(490000 + idx))
		c := clusterCfg{N: v.n, SRIH: v.srih, ExtPool: v.extPool, BlockTime: blockTime, KeyLabel: fmt.Sprintf("c19-%d-%d", ev.Seed(), idx)}
		// the common limits are small, so that ordinary transfers fill a block
		switch v.limit {
		case "size":
			c.MaxSize = uint32(3072 + 512*r.Intn(5)) // 3..5 KB
		case "sysfee":
			c.MaxSysFee = int64(3+r.Intn(4)) * txSysFee
		case "maxtx":
			c.MaxTx = 3 + r.Intn(6)
		}
		// who is odd: nMis validators next to each other (the primary of view
		// 1 is the one below the primary of view 0) or anywhere
		first := r.Intn(v.n)
		for k := 0; k < v.nMis; k++ {
			node := (first - k + v.n) % v.n
			if k > 0 && r.Intn(3) == 0 {
				for node = r.Intn(v.n); c.misOf(node) != nil; node = r.Intn(v.n) {
				}
			}
			dir := v.dir
			if dir == "both" {
				dir = []string{"larger", "smaller"}[k%2]
			}
			m := misNode{Node: node}
			switch {
			case v.limit == "size" && dir == "larger":
				m.MaxSize = []uint32{16384, 65536, 262144}[r.Intn(3)]
			case v.limit == "size":
				m.MaxSize = c.MaxSize/2 + uint32(r.Intn(256))
			case v.limit == "sysfee" && dir == "larger":
				m.MaxSysFee = int64(20+r.Intn(200)) * txSysFee
			case v.limit == "sysfee":
				m.MaxSysFee = int64(1+r.Intn(2)) * txSysFee
			case dir == "larger":
				m.MaxTx = 40 + r.Intn(200)
			default:
				m.MaxTx = 1 + r.Intn(2)
			}
			c.Mis = append(c.Mis, m)
		}
		out = append(out, schedule{Idx: idx, ID: fmt.Sprintf("misconf-%d", i), Cfg: c, Scen: "misconf", MisRounds: v.rounds})
	}
	return out
}

// limits are the block limits of one node.
type limits struct {
	MaxTx     int   `json:"MaxTransactionsPerBlock"`
	MaxSize   int   `json:"MaxBlockSize"`
	MaxSysFee int64 `json:"MaxBlockSystemFee"`
}

func limitsOf(bc *core.Blockchain) limits {
	c := bc.GetConfig()
	return limits{int(c.MaxTransactionsPerBlock), int(c.MaxBlockSize), c.MaxBlockSystemFee}
}

// exceeded names the first limit a block of nTx transactions, size bytes and
// fee system fee is above ("" = none).
func (l limits) exceeded(nTx, size int, fee int64) string {
	switch {
	case nTx > l.MaxTx:
		return "MaxTransactionsPerBlock"
	case fee > l.MaxSysFee:
		return "MaxBlockSystemFee"
	case size > l.MaxSize:
		return "MaxBlockSize"
	}
	return ""
}

// commonLimits are the limits of the nodes that were not given their own.
func (cl *cluster) commonLimits() limits {
	for i, nd := range cl.nodes {
		if cl.cfg.misOf(i) == nil {
			return limitsOf(nd.bc)
		}
	}
	return limitsOf(cl.nodes[0].bc)
}

// emptyBlockSize is a block without transactions as a backup sees it when it
// judges a proposal (no witness yet) plus the witness the validators will add.
func emptyBlockSize(nVals int, srih bool) (withoutWitness, witness int) {
	withoutWitness = 4 + 32 + 32 + 8 + 8 + 4 + 1 + 20 + 1 + 2 + 1 // header fields, witness count, two empty scripts, transaction count
	if srih {
		withoutWitness += 32
	}
	m := nVals - (nVals-1)/3
	witness = m*66 + nVals*35 + 16
	return
}

// ---- bounded progress without any network fault ----

// steady waits for done() on a perfect network. There is no fault to wait
// out, so progress is demanded all the time, by the logical criterion of
// afterFaults: the run is a stall candidate when no node at all accepted a
// block for postFaultIntervals block intervals while every live validator sent
// at least postFaultTimeouts timer-driven payloads meanwhile. With deadline >
// 0 the transactions pend() lists must be gone when every ledger reached that
// height.
func (a *attempt) steady(what string, done func() bool, deadline uint32, pend func() []util.Uint256) bool {
	cl, rec := a.cl, a.cl.rec
	n := len(cl.nodes)
	before := cl.heights()
	ph := int(rec.phase.Add(1))
	t0 := time.Now()
	acc := rec.accepted.Load()
	tAcc := time.Now()
	timers := rec.timerSentBy(n)
	ok := true
	for !done() {
		now := time.Now()
		hs := cl.heights()
		if x := rec.accepted.Load(); x != acc {
			acc, tAcc, timers = x, now, rec.timerSentBy(n)
		}
		if deadline > 0 && minU32(hs) >= deadline {
			if done() {
				break
			}
			p := pend()
			if len(p) > 0 {
				a.res.stall = "inclusion:pooled-everywhere-tx-not-on-chain-within-bound:" + a.family()
				a.res.stallMsg = fmt.Sprintf("phase %d (%s): %d transactions pooled at every validator are still valid and not on chain at height %d, the bound (first %s); heights %v", ph, what, len(p), deadline, p[0].StringLE(), hs)
				ok = false
				break
			}
		}
		if idle := now.Sub(tAcc); idle > postFaultIntervals*blockTime {
			cur := rec.timerSentBy(n)
			isVal := cl.validatorNodes()
			fired := true
			var per []int64
			for i := range cur {
				per = append(per, cur[i]-timers[i])
				if isVal[i] && !cl.nodes[i].dead.Load() && cur[i]-timers[i] < postFaultTimeouts {
					fired = false
				}
			}
			if fired {
				a.res.stall = a.stallSig()
				a.res.stallMsg = fmt.Sprintf("phase %d (%s): every node connected and every consensus payload and block delivered since the start, yet no node accepted a block for %s (heights %v, timer-driven payloads sent per node meanwhile %v, highest view seen at height %d: %d)", ph, what, idle.Round(time.Millisecond), hs, per, maxU32(hs)+1, rec.viewSeen(maxU32(hs)+1))
				ok = false
				break
			}
			if idle > 4*postFaultIntervals*blockTime {
				a.res.problems = append(a.res.problems, fmt.Sprintf("phase %d (%s): no block for %s, but the validators' timers did not fire often enough to judge (%v)", ph, what, idle.Round(time.Millisecond), per))
				ok = false
				break
			}
		}
		time.Sleep(blockTime / 4)
	}
	after := cl.heights()
	prod := int(maxU32(after) - maxU32(before))
	a.res.steps = append(a.res.steps, stepInfo{ph, "no faults: " + what, before, after, time.Since(t0).Milliseconds(), prod})
	a.res.quietBlocks += prod
	return ok
}

// family names the schedule family in stall signatures.
func (a *attempt) family() string {
	if a.sc.Scen == "full" {
		return "pools-fuller-than-a-block"
	}
	if a.sc.Scen == "losttx" {
		return "proposed-transaction-unavailable-to-the-backups"
	}
	return "validator-with-different-block-limits"
}

func (a *attempt) stallSig() string {
	if a.sc.Scen == "losttx" {
		// the relay of one transaction is cut, nothing else
		return "progress:permanent-stall-with-every-consensus-payload-delivered:" + a.family()
	}
	return "progress:permanent-stall-without-network-faults:" + a.family()
}

func (r *recorder) viewSeen(h uint32) byte {
	r.mu.Lock()
	defer r.mu.Unlock()
	return r.maxView[h]
}

// misconf runs the bursts of a schedule with odd validators.
func (a *attempt) misconf() {
	cl, cfg := a.cl, a.sc.Cfg
	n := len(cl.nodes)
	r := a.sr
	a.net.setCfg(netCfg{Kind: "quiet"})
	a.res.kinds["different-block-limits"] = true
	if !a.steady("the network starts", func() bool { return minU32(cl.heights()) >= 2 }, 0, nil) {
		return
	}
	common := cl.commonLimits()
	lowest := common // per limit, the lowest value any node has
	for _, nd := range cl.nodes {
		l := limitsOf(nd.bc)
		lowest.MaxTx, lowest.MaxSize, lowest.MaxSysFee = min(lowest.MaxTx, l.MaxTx), min(lowest.MaxSize, l.MaxSize), min(lowest.MaxSysFee, l.MaxSysFee)
	}
	noWit, wit := emptyBlockSize(n, cfg.SRIH)
	maxPad := 160
	txMax := a.newPaddedTransfer(r, 1000, maxPad).Size() + 8 // amounts and fees vary by a few bytes
	capOf := func(l limits) int {
		return max(1, min(l.MaxTx, int(l.MaxSysFee/txSysFee), (l.MaxSize-noWit-wit)/txMax))
	}
	capCommon, capLowest := capOf(common), capOf(lowest)
	a.net.max("misconf_max_block_capacity_under_common_limits_txs", int64(capCommon))
	odd := cfg.Mis[0].Node
	var all []util.Uint256
	for round := 0; round < a.sc.MisRounds; round++ {
		aligned := round%3 != 2
		var k int
		if aligned {
			// the odd validator proposes the height after next
			want := uint32((odd - 2 + 2*n) % n)
			if !a.steady("waiting for the turn of the odd validator", func() bool { return maxU32(cl.heights())%uint32(n) == want }, 0, nil) {
				return
			}
			k = capCommon*(2+r.Intn(3)) + 1 + r.Intn(capCommon)
		} else {
			// a backlog that outlasts a whole turn of the validators
			k = capCommon*(n+1) + 1 + r.Intn(2*capCommon)
		}
		top := maxU32(cl.heights())
		txs := make([]*transaction.Transaction, k)
		for i := range txs {
			txs[i] = a.newPaddedTransfer(r, top+100+uint32(r.Intn(50)), r.Intn(maxPad+1))
		}
		hashes := a.submitEverywhere(txs, round+1)
		all = append(all, hashes...)
		a.net.count("misconf_bursts", 1)
		a.net.count("misconf_txs_submitted", int64(k))
		if aligned {
			a.net.count("misconf_bursts_timed_to_the_odd_validators_turn", 1)
		}
		h1 := maxU32(cl.heights())
		pend := func() []util.Uint256 { return cl.pendingEverywhere(all) }
		deadline := h1 + 2 + uint32((len(pend())+capLowest-1)/capLowest) + uint32(n)
		cl.rec.mu.Lock()
		for _, h := range hashes {
			cl.rec.txs[h].Deadline = deadline
		}
		cl.rec.mu.Unlock()
		onAll := func() bool {
			for _, nd := range cl.nodes {
				for _, h := range hashes {
					if _, ih, err := nd.bc.GetTransaction(h); err != nil || ih == math.MaxUint32 {
						return false
					}
				}
			}
			return true
		}
		if !a.steady(fmt.Sprintf("burst %d of %d transactions pooled at every node by height %d", round+1, k, h1), onAll, deadline, pend) {
			return
		}
	}
	// everybody has one more turn, with an empty pool
	target := maxU32(cl.heights()) + uint32(n) + 1
	a.steady("empty pools", func() bool { return minU32(cl.heights()) >= target }, 0, nil)
}

// newPaddedTransfer is newTransfer with pad bytes of dead weight in the
// script, so that blocks are cut at different points. All transactions
// declare the same system fee.
func (a *attempt) newPaddedTransfer(r *rng.R, vub uint32, pad int) *transaction.Transaction {
	var to util.Uint160
	copy(to[:], r.Bytes(20))
	script, err := smartcontract.CreateCallScript(nativehashes.GasToken, "transfer", a.cl.multi.ScriptHash(), to, int64(1+r.Intn(1000)), nil)
	if err != nil {
		panic(err)
	}
	if pad > 0 {
		script = append(script, byte(opcode.PUSHDATA1), byte(pad))
		script = append(script, r.Bytes(pad)...)
		script = append(script, byte(opcode.DROP))
	}
	return a.newTx(script, txSysFee, vub, int64(r.Intn(4))*10_0000)
}

// submitEverywhere registers the transactions with the oracle and pools a
// private decoded copy of each at every node, the nodes concurrently.
func (a *attempt) submitEverywhere(txs []*transaction.Transaction, burst int) []util.Uint256 {
	cl := a.cl
	hashes := make([]util.Uint256, len(txs))
	raws := make([][]byte, len(txs))
	cl.rec.mu.Lock()
	for i, tx := range txs {
		tr := &txRec{Hash: tx.Hash(), VUB: tx.ValidUntilBlock, Size: tx.Size(), SysFee: tx.SystemFee, NetFee: tx.NetworkFee, Raw: tx.Bytes(), PooledAt: map[int]uint32{}, Burst: burst}
		cl.rec.txs[tr.Hash] = tr
		cl.rec.txOrder = append(cl.rec.txOrder, tr.Hash)
		hashes[i], raws[i] = tr.Hash, tr.Raw
	}
	cl.rec.mu.Unlock()
	var wg sync.WaitGroup
	for _, nd := range cl.nodes {
		wg.Add(1)
		go func() {
			defer wg.Done()
			for i, raw := range raws {
				t2, err := transaction.NewTransactionFromBytes(raw)
				if err != nil {
					continue
				}
				if err := nd.bc.PoolTx(t2); err == nil {
					cl.notePooled(hashes[i], nd.idx, nd.bc.BlockHeight(), false)
					a.net.count("tx_pool_accepts", 1)
				} else {
					a.net.count("tx_pool_rejects", 1)
					if debugLogs {
						fmt.Println("pool reject:", nd.idx, err)
					}
				}
			}
		}()
	}
	wg.Wait()
	a.net.count("txs_submitted", int64(len(txs)))
	return hashes
}

// pendingEverywhere lists the given transactions that were pooled at every
// node, are still valid for the next block and are not on the highest ledger.
func (cl *cluster) pendingEverywhere(hashes []util.Uint256) (r []util.Uint256) {
	hs := cl.heights()
	ref := cl.nodes[slices.Index(hs, maxU32(hs))].bc
	h := ref.BlockHeight()
	for _, th := range hashes {
		cl.rec.mu.Lock()
		tr := cl.rec.txs[th]
		cl.rec.mu.Unlock()
		if tr == nil {
			continue
		}
		tr.mu.Lock()
		np := len(tr.PooledAt)
		tr.mu.Unlock()
		if np < len(cl.nodes) || tr.VUB < h+2 {
			continue
		}
		if _, ih, err := ref.GetTransaction(th); err == nil && ih != math.MaxUint32 {
			continue
		}
		r = append(r, th)
	}
	return
}

// ---- offline: block limits ----

// checkLimits is the part of the offline checker that deals with block
// limits. It runs for every schedule (with equal limits everywhere the common
// limits are everybody's). rec.mu is held by the caller.
//
//   - every proposal respects the limits of its author (it packs under them);
//   - a validator answers a proposal with a PrepareResponse only after it has
//     judged the block under its own limits: the proposal respects them;
//   - every block on chain respects the common limits: it took M preparations,
//     at most f validators have other limits, so a validator with the common
//     limits proposed or answered it.
//
// A Commit proves less: dBFT lets a validator that refused a proposal (and
// asked for a change of view) join in once more than f others have committed
// - the view cannot change any more, the block can only be finished. Commits
// for blocks above the signer's own limits are therefore counted only.
//
// Size: a backup judges the proposed block before the block witness exists,
// so what it compares with MaxBlockSize is the size without that witness, and
// so does this checker. Blocks above MaxBlockSize only by their witness are
// counted and logged (see below).
func checkLimits(cl *cluster, a *analysis, blocks []*block.Block) {
	rec := cl.rec
	common := cl.commonLimits()
	own := make([]limits, len(cl.nodes))
	for i, nd := range cl.nodes {
		own[i] = limitsOf(nd.bc)
	}
	type shape struct {
		nTx, size, sizeNoWit int
		fee                  int64
	}
	shapes := make([]shape, len(blocks))
	for h, b := range blocks {
		if b == nil {
			continue
		}
		s := shape{nTx: len(b.Transactions), size: len(vchain.EncodeBlock(b))}
		s.sizeNoWit = s.size - len(b.Script.InvocationScript) - len(b.Script.VerificationScript)
		for _, tx := range b.Transactions {
			s.fee += tx.SystemFee
		}
		shapes[h] = s
		a.obs["blocks_checked_against_the_common_block_limits"]++
		if s.nTx > 0 && (s.nTx == common.MaxTx || s.fee+txSysFee > common.MaxSysFee || s.size+512 > common.MaxSize) {
			a.obs["blocks_filled_to_a_block_limit"]++
		}
		if which := common.exceeded(s.nTx, s.sizeNoWit, s.fee); which != "" {
			a.add("limits:block-on-chain-above-the-limits-of-every-validator-that-could-have-prepared-it:"+which,
				fmt.Sprintf("block %d (%d transactions, %d bytes, %d without the block witness, system fee %d) is above %s of the validators' common limits %+v", h, s.nTx, s.size, s.sizeNoWit, s.fee, which, common),
				map[string]any{"height": h, "limits": common, "block_hex": hexBlock(vchain.EncodeBlock(b)), "commits_broadcast_at_height": sentCommitsAt(rec, uint32(h))})
			break
		} else if s.size > common.MaxSize {
			// Counted and logged, not reported. Two inaccuracies of the size
			// accounting meet here: a backup judges the proposal before the
			// block witness exists (verifyBlock), and the author packs without
			// the 32 bytes of the state root a StateRootInHeader block carries
			// (ApplyPolicyToTxSet). The first lets through what a primary
			// with a larger MaxBlockSize proposes, the second makes an honest
			// primary overshoot its own limit.
			a.obs["blocks_above_the_common_MaxBlockSize_by_less_than_the_block_witness"]++
			author, authorMax := -1, 0
			for _, pr := range rec.preps {
				if pr.Height == uint32(h) && pr.Validator == int(b.PrimaryIndex) && slices.Equal(pr.Txs, blockHashes(b)) {
					author, authorMax = pr.Node, own[pr.Node].MaxSize
				}
			}
			if author >= 0 && s.size > authorMax {
				a.obs["blocks_above_their_authors_own_MaxBlockSize_by_less_than_the_block_witness"]++
			}
			// rare and worth a look: always in the part's log
			fmt.Printf("NOTE %s: block %d on chain is %d bytes long (%d without its witness, %d transactions), proposed by node %d (its MaxBlockSize %d), MaxBlockSize of the validators that prepared it is %d\n", cl.cfg, h, s.size, s.sizeNoWit, s.nTx, author, authorMax, common.MaxSize)
		}
	}
	for node := range cl.nodes {
		pub := cl.keys[node].PublicKey()
		for h, cs := range rec.sentCommits[node] {
			if int(h) >= len(blocks) || blocks[h] == nil {
				continue
			}
			b, s := blocks[h], shapes[h]
			for _, c := range cs {
				sig, err := hex.DecodeString(c.Sig)
				if err != nil || !pub.VerifyHashable(sig, uint32(cl.magic), b) {
					continue // a commit for another proposal of that height
				}
				a.obs["commits_matched_to_the_block_on_chain"]++
				if own[node].exceeded(s.nTx, s.sizeNoWit, s.fee) != "" {
					a.obs["commits_for_a_block_above_the_signers_own_limits_sent_after_refusing_the_proposal"]++
				}
			}
		}
	}

	// proposals and the answers to them
	noWit, _ := emptyBlockSize(len(cl.nodes), cl.cfg.SRIH)
	type propShape struct {
		shape
		known bool
		txs   []util.Uint256
		node  int
	}
	shapeOf := func(pr prepRec) propShape {
		ps := propShape{shape: shape{nTx: len(pr.Txs), sizeNoWit: noWit}, known: true, txs: pr.Txs, node: pr.Node}
		for _, h := range pr.Txs {
			tr := rec.txs[h]
			if tr == nil {
				ps.known = false
				break
			}
			ps.sizeNoWit += tr.Size
			ps.fee += tr.SysFee
		}
		return ps
	}
	type hv struct {
		h uint32
		v byte
	}
	props := map[hv]propShape{}
	ambiguous := map[hv]bool{}
	refused := map[uint32][]util.Uint256{} // height -> the latest proposal the validators with the common limits must refuse
	for _, pr := range rec.preps {
		ps := shapeOf(pr)
		k := hv{pr.Height, pr.View}
		if old, ok := props[k]; ok && !slices.Equal(old.txs, pr.Txs) {
			ambiguous[k] = true
		}
		props[k] = ps
		a.obs["largest_proposal_seen"] = max(a.obs["largest_proposal_seen"], int64(len(pr.Txs)))
		if len(pr.Txs) >= 500 {
			a.obs["proposals_with_500_or_more_transactions"]++
		}
		if !ps.known {
			continue
		}
		a.obs["proposals_checked_against_the_authors_own_limits"]++
		if which := own[pr.Node].exceeded(ps.nTx, ps.sizeNoWit, ps.fee); which != "" {
			a.add("limits:validator-proposed-a-block-above-its-own-block-limits:"+which,
				fmt.Sprintf("node %d proposed %d transactions (%d bytes with the header, system fee %d) for height %d at view %d, above %s of its own limits %+v", pr.Node, ps.nTx, ps.sizeNoWit, ps.fee, pr.Height, pr.View, which, own[pr.Node]),
				map[string]any{"height": pr.Height, "view": pr.View, "node": pr.Node, "limits_of_node": own[pr.Node], "proposed": hashStrings(pr.Txs), "proposal_refused_before_at_this_height": hashStrings(refused[pr.Height])})
			return
		}
		if len(cl.cfg.Mis) == 0 || int(pr.Height) >= len(blocks) || blocks[pr.Height] == nil {
			continue
		}
		// what the odd validators caused: proposals the others had to refuse,
		// how those heights were settled, and proposals an odd validator with
		// smaller limits refused alone
		if which := common.exceeded(ps.nTx, ps.sizeNoWit, ps.fee); which != "" {
			a.obs["misconf_proposals_above_the_common_limits"]++
			a.obs["misconf_proposals_above_the_common_limits:"+which]++
			if pr.View > 0 {
				a.obs["misconf_proposals_above_the_common_limits_at_a_later_view"]++
			}
			refused[pr.Height] = pr.Txs
			continue
		}
		onChain := slices.Equal(pr.Txs, blockHashes(blocks[pr.Height]))
		if prev := refused[pr.Height]; prev != nil && pr.View > 0 && onChain {
			a.obs["misconf_heights_settled_at_a_later_view_after_a_refused_proposal"]++
			if len(pr.Txs) > 0 && len(pr.Txs) < len(prev) && isSubsequence(pr.Txs, prev) {
				a.obs["misconf_blocks_that_are_a_part_of_the_refused_proposal"]++
			}
			delete(refused, pr.Height)
		}
		for _, m := range cl.cfg.Mis {
			if m.Node != pr.Node && onChain && own[m.Node].exceeded(ps.nTx, ps.sizeNoWit, ps.fee) != "" {
				a.obs["misconf_blocks_above_the_limits_of_an_odd_validator_settled_without_its_preparation"]++
			}
		}
	}
	for _, rs := range rec.resps {
		k := hv{rs.Height, rs.View}
		ps, ok := props[k]
		if !ok || !ps.known || ambiguous[k] {
			continue
		}
		a.obs["prepare_responses_checked_against_the_responders_own_limits"]++
		if which := own[rs.Node].exceeded(ps.nTx, ps.sizeNoWit, ps.fee); which != "" {
			a.add("limits:validator-answered-a-proposal-above-its-own-block-limits:"+which,
				fmt.Sprintf("node %d sent a PrepareResponse at height %d view %d to the proposal of node %d: %d transactions, %d bytes with the header, system fee %d - above %s of its own limits %+v", rs.Node, rs.Height, rs.View, ps.node, ps.nTx, ps.sizeNoWit, ps.fee, which, own[rs.Node]),
				map[string]any{"height": rs.Height, "view": rs.View, "node": rs.Node, "limits_of_node": own[rs.Node], "proposed_by": ps.node, "proposed": hashStrings(ps.txs)})
			return
		}
	}
	if len(cl.cfg.Mis) == 0 {
		return
	}

	// inclusion, in heights: from the moment the last node pooled the
	// transaction to the block that carries it (the bound itself is enforced
	// while the schedule runs, see steady)
	for _, th := range rec.txOrder {
		tr := rec.txs[th]
		if tr.Burst == 0 {
			continue
		}
		tr.mu.Lock()
		np, last := len(tr.PooledAt), uint32(0)
		for _, h := range tr.PooledAt {
			last = max(last, h)
		}
		tr.mu.Unlock()
		if np < len(cl.nodes) {
			a.obs["misconf_txs_not_pooled_at_every_node"]++
			continue
		}
		a.obs["misconf_txs_pooled_at_every_node"]++
		ih, ok := a.included[th]
		if !ok {
			a.obs["misconf_txs_pooled_at_every_node_not_on_chain_at_the_end"]++
			continue
		}
		a.obs["misconf_txs_on_chain"]++
		if ih <= tr.Deadline {
			a.obs["misconf_txs_on_chain_within_the_bound"]++
		}
		a.obs["misconf_max_heights_from_pooled_everywhere_to_on_chain"] = max(a.obs["misconf_max_heights_from_pooled_everywhere_to_on_chain"], int64(ih)-int64(last))
	}
}

func blockHashes(b *block.Block) []util.Uint256 {
	r := make([]util.Uint256, len(b.Transactions))
	for i, tx := range b.Transactions {
		r[i] = tx.Hash()
	}
	return r
}

func hashStrings(hs []util.Uint256) []string {
	r := make([]string, len(hs))
	for i, h := range hs {
		r[i] = h.StringLE()
	}
	return r
}

// isSubsequence: the elements of sub appear in of, in the same order.
func isSubsequence(sub, of []util.Uint256) bool {
	j := 0
	for _, x := range of {
		if j < len(sub) && sub[j] == x {
			j++
		}
	}
	return j == len(sub)
}

package c19

import (
	"encoding/hex"
	"fmt"
	"maps"
	"math"
	"regexp"
	"slices"
	"sort"
	"strings"

	"github.com/nspcc-dev/neo-go/pkg/core/block"
	"github.com/nspcc-dev/neo-go/pkg/util"
	"github.com/nspcc-dev/neo-go/verifharness/vlib/vchain"
)

// finding is one refuted clause with its witness.
type finding struct {
	Sig     string
	Detail  string
	Witness map[string]any
}

var (
	reHex = regexp.MustCompile(`[0-9a-fA-F]{8,}`)
	reNum = regexp.MustCompile(`\d+`)
)

// errClass maps an AddBlock / VerifyWitness error to the check it failed.
func errClass(err string) string {
	e := strings.ToLower(err)
	switch {
	case strings.Contains(e, "panic"):
		return "panic"
	case strings.Contains(e, "onpersist failed") && strings.Contains(e, "index out of range"):
		return "onpersist-index-out-of-range"
	case strings.Contains(e, "onpersist failed"):
		return "onpersist"
	case strings.Contains(e, "postpersist failed"):
		return "postpersist"
	case strings.Contains(e, "witness") || strings.Contains(e, "signature") || strings.Contains(e, "verification"):
		return "witness"
	case strings.Contains(e, "merkle"):
		return "merkle-root"
	case strings.Contains(e, "not newer") || strings.Contains(e, "timestamp"):
		return "timestamp"
	case strings.Contains(e, "previous header hash") || strings.Contains(e, "hash doesn't match") || strings.Contains(e, "prevhash"):
		return "prev-hash"
	case strings.Contains(e, "state root"):
		return "state-root"
	case strings.Contains(e, "nextconsensus") || strings.Contains(e, "next consensus"):
		return "next-consensus"
	case strings.Contains(e, "transaction"):
		return "transaction"
	case strings.Contains(e, "index"):
		return "index"
	}
	s := reNum.ReplaceAllString(reHex.ReplaceAllString(e, "H"), "N")
	if len(s) > 60 {
		s = s[:60]
	}
	return "other:" + s
}

type analysis struct {
	findings []finding
	obs      map[string]int64
	maxH     uint32
	included map[util.Uint256]uint32
}

func (a *analysis) add(sig, detail string, w map[string]any) {
	a.findings = append(a.findings, finding{sig, detail, w})
}

func hexBlock(raw []byte) string {
	if len(raw) > 4096 {
		return hex.EncodeToString(raw[:4096]) + "..."
	}
	return hex.EncodeToString(raw)
}

// analyze is the offline checker: it looks only at the recorded event log and
// at the ledgers after every service and queue has stopped.
func analyze(cl *cluster) *analysis {
	a := &analysis{obs: map[string]int64{}, included: map[util.Uint256]uint32{}}
	rec := cl.rec
	rec.mu.Lock()
	defer rec.mu.Unlock()
	n := len(cl.nodes)
	hs := cl.heights()
	a.maxH = maxU32(hs)

	commitsAt := map[uint32][]commitRec{}
	commitByHash := map[util.Uint256]commitRec{}
	for _, c := range rec.commits {
		commitsAt[c.Height] = append(commitsAt[c.Height], c)
		if _, ok := commitByHash[c.Hash]; !ok {
			commitByHash[c.Hash] = c
		}
	}
	a.obs["blocks_committed_by_validators"] = int64(len(rec.commits))
	eventsAt := func(h uint32) (r []blockEvent) {
		for _, e := range rec.events {
			if e.Height == h {
				r = append(r, e)
			}
		}
		return
	}
	commitsWitness := func(h uint32) (r []map[string]any) {
		for _, c := range commitsAt[h] {
			r = append(r, map[string]any{"node": c.Node, "hash": c.Hash.StringLE(), "phase": c.Phase, "block_hex": hexBlock(c.Raw)})
		}
		return
	}

	// panics and fatal logs
	for _, p := range rec.panics {
		first := strings.SplitN(p, "\n", 2)[0]
		where := strings.SplitN(first, "(", 2)[0]
		a.add("panic:"+strings.TrimSpace(strings.SplitN(where, ":", 2)[0]), first, map[string]any{"panic": p})
	}
	for _, f := range rec.fatals {
		msg := strings.SplitN(f, ": ", 2)
		a.add("node-died:fatal-log:"+reNum.ReplaceAllString(msg[len(msg)-1], "N"), f, map[string]any{"fatal": f})
	}

	// (0) the wire: a payload of an honest sender that a receiver could not
	// decode, and what the receivers decoded
	rec.rmu.Lock()
	a.obs["consensus_payloads_decoded_at_the_receivers"] = rec.recvDecoded
	for reason, k := range rec.cvReasons {
		a.obs["change_views_received_with_reason_"+reason] = k
	}
	for _, key := range slices.Sorted(maps.Keys(rec.undecodable)) {
		u := rec.undecodable[key]
		a.obs["consensus_payloads_undecodable_at_the_receivers"] += u.Count
		a.add("wire:honest-consensus-payload-undecodable-at-receiver:"+key,
			fmt.Sprintf("node %d could not decode a %s payload (reason %q, height %d, view %d) broadcast by validator %d: %s; %d deliveries of this kind failed", u.Receiver, u.Type, u.Reason, u.Height, u.View, u.Validator, u.Err, u.Count),
			map[string]any{"first": u})
	}
	rec.rmu.Unlock()
	a.obs["payloads_the_services_reported_as_undecodable"] = rec.logs["info:can't decode payload data"]

	// (1a) agreement at acceptance time: every successful AddBlock of the run
	// was recorded as (node, height, hash) when it happened, so that a fork is
	// seen even if the minority ledger could not be compared at the end
	diverged := uint32(0)
	acceptedAt := map[uint32]map[string][]int{}
	var forkHeights []uint32
	for _, e := range rec.events {
		if e.Err != "" {
			continue
		}
		if acceptedAt[e.Height] == nil {
			acceptedAt[e.Height] = map[string][]int{}
		}
		if len(acceptedAt[e.Height][e.Hash]) == 0 && len(acceptedAt[e.Height]) == 1 {
			forkHeights = append(forkHeights, e.Height)
		}
		acceptedAt[e.Height][e.Hash] = append(acceptedAt[e.Height][e.Hash], e.Node)
		a.obs["accepted_node_height_hash_records"]++
	}
	slices.Sort(forkHeights)
	forkReported := map[uint32]bool{}
	for _, h := range forkHeights {
		if diverged == 0 {
			diverged = h
		}
		forkReported[h] = true
		a.add("safety:different-blocks-at-one-height", fmt.Sprintf("height %d: honest nodes accepted different blocks (hash -> accepting nodes): %v", h, acceptedAt[h]),
			map[string]any{"height": h, "accepted_by": acceptedAt[h], "heights": hs, "commits": commitsWitness(h), "events": eventsAt(h), "commits_broadcast_at_height": sentCommitsAt(rec, h)})
		break // later heights of the two branches differ as a consequence
	}

	// (1b) a validator signs (commits) one block per height: two Commit
	// payloads of one node at one height with different views or signatures
	// mean that it gave its signature to two different blocks
	for node := 0; node < n; node++ {
		var heights []uint32
		for h := range rec.sentCommits[node] {
			heights = append(heights, h)
		}
		slices.Sort(heights)
		for _, h := range heights {
			cs := rec.sentCommits[node][h]
			a.obs["validator_height_commits_checked_for_double_signing"]++
			if len(cs) > 1 {
				a.add("safety:validator-committed-two-different-blocks-at-one-height",
					fmt.Sprintf("node %d broadcast %d different Commit payloads for height %d (views %v): it signed more than one block of that height", node, len(cs), h, commitViewsOf(cs)),
					map[string]any{"node": node, "height": h, "commits_of_node": cs, "commits_broadcast_at_height": sentCommitsAt(rec, h), "accepted_by": acceptedAt[h], "blocks_committed": commitsWitness(h)})
				break
			}
		}
	}

	// (1c) commit lock: a validator that broadcast its Commit for a height
	// stands by it - on its timer it re-sends what it has (RecoveryMessage), it
	// never asks for a view change or for recovery at that height again. One
	// that does has lost its commit and is free to sign another block.
	a.obs["commit_lock_breaks"] = int64(len(rec.afterCommit))
	if len(rec.afterCommit) > 0 {
		x := rec.afterCommit[0]
		a.add("safety:validator-asks-for-view-change-or-recovery-after-its-commit",
			fmt.Sprintf("node %d broadcast its Commit for height %d (view %d) and later a %s (view %d) for the same height: it no longer knows that it committed", x.Node, x.Height, x.CommitView, x.Type, x.View),
			map[string]any{"first": x, "all": rec.afterCommit, "commits_broadcast_at_height": sentCommitsAt(rec, x.Height), "accepted_by": acceptedAt[x.Height]})
	}

	// (1) agreement: no two nodes hold different hashes at one height
	for h := uint32(1); h <= a.maxH; h++ {
		var ref util.Uint256
		holders := 0
		same := true
		per := map[string]string{}
		for i, nd := range cl.nodes {
			if hs[i] < h {
				continue
			}
			x := nd.bc.GetHeaderHash(h)
			per[fmt.Sprintf("node%d", i)] = x.StringLE()
			if holders == 0 {
				ref = x
			} else if x != ref {
				same = false
			}
			holders++
			a.obs["node_height_hashes_compared"]++
		}
		if !same && (forkReported[h] || (diverged != 0 && diverged < h)) {
			// already reported from the acceptance records (or a consequence of it)
		} else if !same {
			if diverged == 0 {
				diverged = h
			}
			a.add("safety:different-blocks-at-one-height", fmt.Sprintf("height %d: %v", h, per),
				map[string]any{"height": h, "hashes": per, "heights": hs, "commits": commitsWitness(h), "events": eventsAt(h)})
		} else if holders >= 2 {
			a.obs["heights_agreed"]++
		}
		// validators that committed at h must have committed the same block
		cs := commitsAt[h]
		for _, c := range cs[min(1, len(cs)):] {
			if c.Hash != cs[0].Hash {
				if diverged == 0 {
					diverged = h
				}
				a.add("safety:validators-committed-different-blocks", fmt.Sprintf("height %d: node %d committed %s, node %d committed %s", h, cs[0].Node, cs[0].Hash.StringLE(), c.Node, c.Hash.StringLE()),
					map[string]any{"height": h, "commits": commitsWitness(h), "events": eventsAt(h)})
				break
			}
		}
	}

	// (2a) every AddBlock error of the run: a node's queue only offers the
	// block right above its ledger, so an error is a rejection
	lastVals := map[int]int{}
	for _, e := range rec.events {
		if e.Err == "" {
			a.obs["addblock_ok"]++
			// (2d) NextConsensus of an accepted block is the account of the
			// validators the accepting ledger names for the next block
			if e.LedgerNextNC != "" {
				a.obs["next_consensus_checked_against_ledger_validators"]++
				if e.LedgerNextNC != e.BlockNextNC {
					a.add("safety:next-consensus-differs-from-ledger-next-validators",
						fmt.Sprintf("block %d %s accepted by node %d has NextConsensus %s, but the %d validators its ledger names for block %d make %s", e.Height, e.Hash, e.Node, e.BlockNextNC, e.NextVals, e.Height+1, e.LedgerNextNC),
						map[string]any{"event": e, "commits": commitsWitness(e.Height), "heights": hs})
				}
				if lv, ok := lastVals[e.Node]; ok && lv != e.NextVals && e.Node == 0 {
					a.obs["validator_count_changes"]++
				}
				lastVals[e.Node] = e.NextVals
			}
			continue
		}
		if e.Height <= e.ChainHeight {
			// Not a rejection: the queue offered a block its ledger already
			// holds. bqueue.Put reads the height before it takes its lock, so a
			// copy that arrives while the ledger accepts the same block stays
			// in the ring (cacheSize slots, here 64) and is offered once more
			// when the ledger comes to that slot again, 64 heights later. C20
			// counts such calls as legitimate; so does this check.
			a.obs["stale_queue_offers_at_or_below_ledger_height"]++
			continue
		}
		a.obs["addblock_errors"]++
		c, ok := commitByHash[e.hash]
		by := "nobody"
		if ok {
			by = fmt.Sprintf("node %d", c.Node)
		}
		a.add("safety:committed-block-rejected:"+errClass(e.Err),
			fmt.Sprintf("node %d (ledger height %d) rejected block %d %s committed by %s: %s", e.Node, e.ChainHeight, e.Height, e.Hash, by, e.Err),
			map[string]any{"event": e, "commits": commitsWitness(e.Height), "heights": hs})
	}

	// (2b) every committed copy (they differ in the witness only) against the
	// ledger of every other node that holds this height
	for _, c := range rec.commits {
		b, err := vchain.DecodeBlock(c.Raw, cl.cfg.SRIH)
		if err != nil {
			a.add("safety:committed-block-rejected:undecodable", fmt.Sprintf("block %d committed by node %d does not decode: %v", c.Height, c.Node, err), map[string]any{"commits": commitsWitness(c.Height)})
			continue
		}
		for j, nd := range cl.nodes {
			if j == c.Node || hs[j] < c.Height || nd.bc.GetHeaderHash(c.Height) != c.Hash {
				continue
			}
			prev, err := nd.bc.GetHeader(b.PrevHash)
			if err != nil {
				continue
			}
			a.obs["committed_witness_checks_on_peer_ledgers"]++
			if _, err := nd.bc.VerifyWitness(prev.NextConsensus, b, &b.Script, 3_0000_0000); err != nil {
				a.add("safety:committed-block-rejected:witness", fmt.Sprintf("witness of block %d as committed by node %d fails on node %d's ledger: %v", c.Height, c.Node, j, err),
					map[string]any{"commits": commitsWitness(c.Height), "heights": hs})
				break
			}
		}
	}

	// (2c) every committed copy, after serialization, through the whole
	// AddBlock of a fresh ledger with the same protocol settings: validator
	// i's ledger replays i's own copies where it has one
	if diverged == 0 {
		bad := false
		for i := 0; i < n && !bad; i++ {
			mine := 0
			for _, c := range rec.commits {
				if c.Node == i {
					mine++
				}
			}
			if mine == 0 {
				continue
			}
			bc, err := openLedger(cl.pcfg)
			if err != nil {
				break
			}
			for h := uint32(1); h <= a.maxH; h++ {
				cs := commitsAt[h]
				if len(cs) == 0 {
					break // cannot happen: every block comes from a commit
				}
				pick := cs[0]
				for _, c := range cs {
					if c.Node == i {
						pick = c
						break
					}
				}
				b, err := vchain.DecodeBlock(pick.Raw, cl.cfg.SRIH)
				if err == nil {
					err = bc.AddBlock(b)
				}
				a.obs["committed_blocks_replayed_on_fresh_ledgers"]++
				if err != nil {
					a.add("safety:committed-block-rejected:"+errClass(err.Error()),
						fmt.Sprintf("fresh ledger rejects block %d as committed and serialized by node %d: %v", h, pick.Node, err),
						map[string]any{"height": h, "commits": commitsWitness(h), "heights": hs})
					bad = true
					break
				}
			}
			bc.Close()
		}
	}

	// transactions on chain (reference: a node with the highest ledger)
	refIdx := 0
	for i := range hs {
		if hs[i] > hs[refIdx] {
			refIdx = i
		}
	}
	ref := cl.nodes[refIdx].bc
	blocks := make([]*block.Block, a.maxH+1)
	for h := uint32(1); h <= a.maxH; h++ {
		b, err := ref.GetBlock(ref.GetHeaderHash(h))
		if err != nil {
			continue
		}
		blocks[h] = b
		for _, tx := range b.Transactions {
			a.included[tx.Hash()] = h
		}
		if len(b.Transactions) > 0 {
			a.obs["blocks_with_transactions"]++
		}
		if len(b.Transactions) >= 500 {
			a.obs["blocks_with_500_or_more_transactions"]++
		}
		a.obs["largest_block_on_chain_txs"] = max(a.obs["largest_block_on_chain_txs"], int64(len(b.Transactions)))
		a.obs["transactions_on_chain"] += int64(len(b.Transactions))
		if rec.maxView[h] > 0 {
			a.obs["heights_with_view_change"]++
		}
		if len(rec.commitViews[h]) > 1 {
			a.obs["heights_with_commits_in_several_views"]++
		}
		if h > 1 && blocks[h-1] != nil && blocks[h-1].NextConsensus != b.NextConsensus {
			a.obs["validator_set_changes"]++
		}
	}

	// (4) block limits (misconf_test.go)
	checkLimits(cl, a, blocks)

	// (3) inclusion: a block proposed at view 0 by primary p omits a
	// transaction that was in p's pool since before p accepted the previous
	// block, is still valid, and fits (under p's own limits)
	for h := uint32(1); h <= a.maxH; h++ {
		b := blocks[h]
		if b == nil {
			continue
		}
		if rec.prepsLostFrom != 0 && h >= rec.prepsLostFrom {
			a.obs["blocks_not_at_view0_or_ambiguous"]++
			continue
		}
		p := int(b.PrimaryIndex)
		var hashes []util.Uint256
		var sysFee int64
		size := 0
		for _, tx := range b.Transactions {
			hashes = append(hashes, tx.Hash())
			sysFee += tx.SystemFee
			size += tx.Size()
		}
		view0, other := false, false
		pn := -1 // the node that was primary
		for _, pr := range rec.preps {
			if pr.Height != h || pr.Validator != p {
				continue
			}
			if pr.View == 0 && slices.Equal(pr.Txs, hashes) && (pn < 0 || pn == pr.Node) {
				view0 = true
				pn = pr.Node
			} else {
				other = true
			}
		}
		if !view0 || other {
			a.obs["blocks_not_at_view0_or_ambiguous"]++
			continue
		}
		a.obs["view0_blocks_checked_for_inclusion"]++
		cfg := cl.nodes[pn].bc.GetConfig()
		maxTx := int(cfg.MaxTransactionsPerBlock)
		for _, th := range rec.txOrder {
			tr := rec.txs[th]
			tr.mu.Lock()
			at, pooled := tr.PooledAt[pn]
			tr.mu.Unlock()
			// (what was pooled before the services started is in time for height 1)
			if !pooled || (at+2 > h && !tr.PreStart) || tr.VUB < h {
				continue
			}
			if ih, ok := a.included[th]; ok && ih <= h {
				continue
			}
			a.obs["pooled_tx_obligations_checked"]++
			fits := len(hashes) < maxTx && sysFee+tr.SysFee <= cfg.MaxBlockSystemFee && size+tr.Size+1024 <= int(cfg.MaxBlockSize)
			if !fits {
				a.obs["omissions_justified_by_block_limits"]++
				continue
			}
			a.add("inclusion:view0-proposal-omits-pooled-valid-tx",
				fmt.Sprintf("block %d (primary index %d = node %d, view 0, %d of max %d txs) omits tx %s pooled at that node since its height %d, valid until %d", h, p, pn, len(hashes), maxTx, th.StringLE(), at, tr.VUB),
				map[string]any{"height": h, "primary": p, "primary_node": pn, "block_txs": len(hashes), "max_tx": maxTx, "tx": th.StringLE(), "tx_hex": hex.EncodeToString(tr.Raw), "pooled_at_height": at, "valid_until": tr.VUB, "block_hex": hexBlock(vchain.EncodeBlock(b))})
			break
		}
	}

	for _, th := range rec.txOrder {
		tr := rec.txs[th]
		tr.mu.Lock()
		np := len(tr.PooledAt)
		rq := tr.Requested
		tr.mu.Unlock()
		if np == 0 {
			continue
		}
		a.obs["txs_pooled_somewhere"]++
		if np < n {
			a.obs["txs_missing_from_some_pool"]++
		}
		if rq {
			a.obs["txs_fetched_via_requesttx"]++
		}
		if _, ok := a.included[th]; ok {
			a.obs["txs_pooled_and_included"]++
		} else if tr.VUB <= a.maxH {
			a.obs["txs_expired_unincluded"]++
		}
	}
	return a
}

func sentCommitsAt(rec *recorder, h uint32) map[string][]sentCommit {
	r := map[string][]sentCommit{}
	for node, m := range rec.sentCommits {
		if len(m[h]) > 0 {
			r[fmt.Sprintf("node%d", node)] = m[h]
		}
	}
	return r
}

func commitViewsOf(cs []sentCommit) (r []byte) {
	for _, c := range cs {
		r = append(r, c.View)
	}
	return
}

// pendingTxs lists transactions pooled at one of the holders that are still
// valid for the next block and not on chain yet (judged on the highest ledger).
func (cl *cluster) pendingTxs(holders []bool) (r []util.Uint256) {
	hs := cl.heights()
	refIdx := 0
	for i := range hs {
		if hs[i] > hs[refIdx] {
			refIdx = i
		}
	}
	ref := cl.nodes[refIdx].bc
	h := hs[refIdx]
	cl.rec.mu.Lock()
	var list []*txRec
	for _, th := range cl.rec.txOrder {
		list = append(list, cl.rec.txs[th])
	}
	cl.rec.mu.Unlock()
	for _, tr := range list {
		th := tr.Hash
		tr.mu.Lock()
		np := 0
		for i := range tr.PooledAt {
			if holders[i] {
				np++
			}
		}
		tr.mu.Unlock()
		if np == 0 || tr.VUB < h+2 {
			continue
		}
		if _, ih, err := ref.GetTransaction(th); err == nil && ih != math.MaxUint32 {
			continue
		}
		r = append(r, th)
	}
	return
}

func sortedKeysOf(m map[string]int64) []string {
	ks := make([]string, 0, len(m))
	for k := range m {
		ks = append(ks, k)
	}
	sort.Strings(ks)
	return ks
}

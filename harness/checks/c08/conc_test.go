package c08

import (
	"fmt"
	"sync"
	"sync/atomic"
	"time"

	"github.com/nspcc-dev/neo-go/pkg/core/mempool"
	"github.com/nspcc-dev/neo-go/pkg/core/transaction"
	"github.com/nspcc-dev/neo-go/pkg/util"
	"github.com/nspcc-dev/neo-go/verifharness/vlib/ev"
	"github.com/nspcc-dev/neo-go/verifharness/vlib/rng"
)

// concurrentPart runs the pool the way a node does: several goroutines add
// (network handlers, RPC), remove and read at once; the refresh after a block
// (RemoveStale with changed balances) happens while the adders keep going.
// Every listing taken during the concurrent phase is one consistent snapshot
// and must satisfy the listing clauses; at the quiescent point after each phase
// all clauses are evaluated. Built with -race.
func concurrentPart(run *ev.Run) {
	nruns := ev.Pick(60, 1200)
	for i := 0; i < nruns; i++ {
		id := fmt.Sprint("conc", i)
		if !run.Want(id) {
			continue
		}
		v, s, phases := concurrentRun(run, i)
		run.Case(fmt.Sprint(id, "/cap", s.cap, "/phases", phases), true)
		if v != nil {
			run.Violation("concurrent:"+v.sig, id, v.detail, map[string]any{"capacity": s.cap, "detail": v.detail})
		}
	}
}

// share fills the lazily computed caches of a transaction (hash, size) before
// it is handed to several goroutines: on a node transactions come out of the
// decoder with both already set.
func share(tx *transaction.Transaction) {
	_ = tx.Hash()
	_ = tx.Size()
}

func concurrentRun(run *ev.Run, idx int) (*violation, *seqState, int) {
	r := rng.New(uint64(idx) + 77000)
	s := &seqState{r: r, f: &feer{bal: map[util.Uint160]int64{}, dep: map[util.Uint160]int64{}, h: 1, yield: true}}
	s.accs = []util.Uint160{{1}, {2}, {3}, {4}}
	s.deps = []util.Uint160{{0xA}, {0xB}, {0xC}}
	for _, a := range s.accs {
		s.f.bal[a] = int64(10 + r.Intn(40))
	}
	for _, d := range s.deps {
		s.f.dep[d] = int64(10 + r.Intn(40))
	}
	s.cap = 1 + r.Intn(10)
	s.mp = mempool.New(s.cap, false, nil)
	if r.Intn(2) == 0 {
		s.mp.SetResendThreshold(uint32(1+r.Intn(3)), func(*transaction.Transaction, any) {})
	}
	const workers = 4
	phases := 3 + r.Intn(3)
	for ph := 0; ph < phases; ph++ {
		// the work of this phase is drawn single-threaded (the generator is not
		// shared), conflicts refer to transactions of earlier phases and of
		// other workers of this phase
		adds := make([][]*transaction.Transaction, workers)
		for w := range adds {
			for k := 0; k < 5+r.Intn(6); k++ {
				tx := s.mk()
				share(tx)
				s.known = append(s.known, tx)
				adds[w] = append(adds[w], tx)
			}
		}
		// the same transactions offered by every worker at once (a transaction
		// reaches a node from several peers and RPC clients simultaneously)
		var dups []*transaction.Transaction
		for k := 0; k < 2+r.Intn(3); k++ {
			tx := s.mk()
			share(tx)
			s.known = append(s.known, tx)
			dups = append(dups, tx)
		}
		removes := make([][]util.Uint256, workers)
		for w := range removes {
			for k := 0; k < r.Intn(5); k++ {
				removes[w] = append(removes[w], s.known[r.Intn(len(s.known))].Hash())
			}
		}
		known := append([]*transaction.Transaction{}, s.known...)
		var firstBad atomic.Pointer[violation]
		var dupOK atomic.Int64 // successful additions of the shared transactions
		var wg sync.WaitGroup
		var stop atomic.Bool
		for w := 0; w < workers; w++ {
			wg.Add(1)
			go func(w int) {
				defer wg.Done()
				defer func() {
					if x := recover(); x != nil {
						firstBad.CompareAndSwap(nil, &violation{"panic", fmt.Sprint(x)})
					}
				}()
				ri := 0
				for _, tx := range dups {
					if s.mp.Add(tx, s.f, int(tx.Nonce)) == nil {
						dupOK.Add(1)
					}
					run.Obs("concurrent_duplicate_adds", 1)
				}
				for i, tx := range adds[w] {
					_ = s.mp.Add(tx, s.f, int(tx.Nonce))
					run.Obs("concurrent_adds", 1)
					if i%2 == 1 && ri < len(removes[w]) {
						s.mp.Remove(removes[w][ri])
						ri++
						run.Obs("concurrent_removes", 1)
					}
				}
			}(w)
		}
		// two readers
		for q := 0; q < 2; q++ {
			wg.Add(1)
			go func(q int) {
				defer wg.Done()
				defer func() {
					if x := recover(); x != nil {
						firstBad.CompareAndSwap(nil, &violation{"panic", fmt.Sprint(x)})
					}
				}()
				for n := 0; !stop.Load() && n < 400; n++ {
					txs := s.mp.GetVerifiedTransactions()
					if v := s.checkList(txs, "concurrent-phase:snapshot"); v != nil {
						firstBad.CompareAndSwap(nil, v)
						return
					}
					run.Obs("concurrent_snapshots_checked", 1)
					k := known[(n*7+q)%len(known)]
					_ = s.mp.ContainsKey(k.Hash())
					_, _ = s.mp.TryGetValue(k.Hash())
					_ = s.mp.Verify(k, s.f)
					_ = s.mp.HasConflicts(k, s.f)
					s.mp.IterateVerifiedTransactions(func(tx *transaction.Transaction, data any) bool { return true })
				}
			}(q)
		}
		// the adders/removers finish first, then the readers are told to stop
		done := make(chan struct{})
		go func() { wg.Wait(); close(done) }()
		// wait for adders by polling a counter is not needed: readers are bounded
		// A listing that breaks a clause is a verdict at once, whatever the other
		// goroutines do afterwards (a corrupted pool may never let them finish).
		tick := time.NewTicker(5 * time.Millisecond)
		waited := 0
	wait:
		for {
			select {
			case <-done:
				break wait
			case <-tick.C:
				if v := firstBad.Load(); v != nil {
					tick.Stop()
					stop.Store(true)
					return v, s, ph + 1
				}
				if waited++; waited > 24000 { // 2 minutes: not a verdict
					tick.Stop()
					stop.Store(true)
					run.Inconclusive("conc%d: phase %d did not finish in 2 minutes", idx, ph)
					return nil, s, ph + 1
				}
			}
		}
		tick.Stop()
		stop.Store(true)
		if v := firstBad.Load(); v != nil {
			return v, s, ph + 1
		}
		if v := s.invariants("concurrent-phase"); v != nil {
			return v, s, ph + 1
		}
		// (more successful additions than shared transactions are legitimate: an
		// entry removed or evicted meanwhile can be added again)
		run.Obs("concurrent_duplicate_adds_succeeded", dupOK.Load())
		// block arrives: balances change, stale entries are dropped; half of the
		// time other goroutines keep adding while the refresh runs
		s.f.h++
		drop := uint32(r.Intn(4))
		var late []*transaction.Transaction
		if r.Intn(2) == 0 {
			for k := 0; k < 6; k++ {
				tx := s.mk()
				share(tx)
				s.known = append(s.known, tx)
				late = append(late, tx)
			}
		}
		// balances for the refresh: a separate feer so that concurrent adders
		// (which verify against the old one) never see a map being written
		nf := &feer{bal: map[util.Uint160]int64{}, dep: map[util.Uint160]int64{}, h: s.f.h, fpb: s.f.fpb, yield: true}
		for k, v := range s.f.bal {
			nf.bal[k] = v
		}
		for k, v := range s.f.dep {
			nf.dep[k] = v
		}
		if r.Intn(2) == 0 {
			nf.bal[s.accs[r.Intn(len(s.accs))]] = int64(5 + r.Intn(45))
		}
		if r.Intn(2) == 0 {
			nf.dep[s.deps[r.Intn(len(s.deps))]] = int64(5 + r.Intn(45))
		}
		var wg2 sync.WaitGroup
		if len(late) > 0 {
			wg2.Add(1)
			go func() {
				defer wg2.Done()
				for _, tx := range late {
					_ = s.mp.Add(tx, nf, int(tx.Nonce))
				}
			}()
		}
		s.mp.RemoveStale(func(tx *transaction.Transaction) bool { return tx.Nonce%4 != drop }, nf)
		wg2.Wait()
		s.f = nf
		run.Obs("concurrent_refreshes", 1)
		if v := s.invariants("concurrent-refresh"); v != nil {
			return v, s, ph + 1
		}
	}
	return nil, s, phases
}

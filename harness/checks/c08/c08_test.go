// Package c08 monitors the memory pool invariants (property C08) after every
// operation of seeded random Add / Remove / RemoveStale sequences.
package c08

import (
	"errors"
	"fmt"
	"math/big"
	"os"
	"runtime"
	"sort"
	"strings"
	"sync"
	"testing"

	"github.com/nspcc-dev/neo-go/pkg/core/mempool"
	"github.com/nspcc-dev/neo-go/pkg/core/native/nativehashes"
	"github.com/nspcc-dev/neo-go/pkg/core/transaction"
	"github.com/nspcc-dev/neo-go/pkg/util"
	"github.com/nspcc-dev/neo-go/verifharness/vlib/ev"
	"github.com/nspcc-dev/neo-go/verifharness/vlib/rng"
)

type feer struct {
	bal map[util.Uint160]int64 // ordinary senders
	dep map[util.Uint160]int64 // notary deposits
	fpb int64
	h   uint32
	// yield makes the chain queries give up the processor, as the real ones
	// (which take the chain's locks) may: the pool calls them between its own
	// critical sections, where other goroutines can get in (concurrent part)
	yield bool
}

func (f *feer) FeePerByte() int64 { return f.fpb }
func (f *feer) BlockHeight() uint32 {
	if f.yield {
		runtime.Gosched()
	}
	return f.h
}
func (f *feer) GetUtilityTokenBalance(p, s util.Uint160) *big.Int {
	if f.yield {
		runtime.Gosched()
	}
	if p == nativehashes.Notary && s != (util.Uint160{}) {
		return big.NewInt(f.dep[s])
	}
	return big.NewInt(f.bal[p])
}

func payerOf(tx *transaction.Transaction) string {
	if tx.Sender() == nativehashes.Notary {
		return "N:" + tx.Signers[1].Account.StringLE()
	}
	return "S:" + tx.Sender().StringLE()
}

func prio(tx *transaction.Transaction) [3]int64 {
	hp := int64(0)
	if hasAttr(tx, transaction.HighPriority) {
		hp = 1
	}
	// the fee per byte is taken from the encoding, not from the transaction's own helper (the pool's comparator uses that one)
	return [3]int64{hp, tx.NetworkFee / int64(len(tx.Bytes())), tx.NetworkFee}
}

func less(a, b [3]int64) bool {
	for i := range a {
		if a[i] != b[i] {
			return a[i] < b[i]
		}
	}
	return false
}

// The monitor reads the attribute list itself (not through the transaction's
// own lookup helpers, which the pool uses too).
func hasAttr(tx *transaction.Transaction, t transaction.AttrType) bool {
	for i := range tx.Attributes {
		if tx.Attributes[i].Type == t {
			return true
		}
	}
	return false
}

func oracleID(tx *transaction.Transaction) (uint64, bool) {
	for i := range tx.Attributes {
		if tx.Attributes[i].Type == transaction.OracleResponseT {
			return tx.Attributes[i].Value.(*transaction.OracleResponse).ID, true
		}
	}
	return 0, false
}

func conflictsOf(tx *transaction.Transaction) []util.Uint256 {
	var r []util.Uint256
	for i := range tx.Attributes {
		if tx.Attributes[i].Type == transaction.ConflictsT {
			r = append(r, tx.Attributes[i].Value.(*transaction.Conflicts).Hash)
		}
	}
	return r
}

func short(tx *transaction.Transaction) string {
	s := fmt.Sprintf("%s{payer=%s sys=%d net=%d size=%d", tx.Hash().StringLE()[:6], payerOf(tx)[:6], tx.SystemFee, tx.NetworkFee, tx.Size())
	if hasAttr(tx, transaction.HighPriority) {
		s += " high"
	}
	if id, ok := oracleID(tx); ok {
		s += fmt.Sprintf(" oracle=%d", id)
	}
	for _, c := range conflictsOf(tx) {
		s += " conflicts=" + c.StringLE()[:6]
	}
	if len(tx.Signers) > 1 {
		s += " signers="
		for _, sg := range tx.Signers {
			s += sg.Account.StringLE()[:4] + ","
		}
	}
	return s + "}"
}

type seqState struct {
	r      *rng.R
	f      *feer
	cap    int
	mp     *mempool.Pool
	known  []*transaction.Transaction
	accs   []util.Uint160
	deps   []util.Uint160
	nonce  uint32
	log    []string
	kinds  []string
	nontri bool
}

func (s *seqState) mk() *transaction.Transaction {
	r := s.r
	s.nonce++
	script := make([]byte, 1+r.Intn(3)*20)
	for i := range script {
		script[i] = 0x21 // NOP
	}
	tx := transaction.New(script, int64(r.Intn(5)))
	tx.Nonce = s.nonce
	tx.NetworkFee = int64(1 + r.Intn(12))
	tx.ValidUntilBlock = 100
	if r.Intn(3) == 0 {
		tx.Signers = []transaction.Signer{{Account: nativehashes.Notary}, {Account: s.deps[r.Intn(len(s.deps))]}}
	} else {
		tx.Signers = []transaction.Signer{{Account: s.accs[r.Intn(len(s.accs))]}}
		if r.Intn(3) == 0 {
			o := s.accs[r.Intn(len(s.accs))]
			if o != tx.Signers[0].Account {
				tx.Signers = append(tx.Signers, transaction.Signer{Account: o})
			}
		}
	}
	tx.Scripts = make([]transaction.Witness, len(tx.Signers))
	nc := 0
	if len(s.known) > 0 {
		switch r.Intn(8) {
		case 0, 1:
			nc = 1
		case 2:
			nc = 2
		case 3:
			nc = 2 + r.Intn(2)
		}
	}
	seen := map[util.Uint256]bool{}
	for i := 0; i < nc; i++ {
		k := s.known[r.Intn(len(s.known))]
		if seen[k.Hash()] {
			continue
		}
		seen[k.Hash()] = true
		tx.Attributes = append(tx.Attributes, transaction.Attribute{Type: transaction.ConflictsT, Value: &transaction.Conflicts{Hash: k.Hash()}})
	}
	if r.Intn(6) == 0 {
		tx.Attributes = append(tx.Attributes, transaction.Attribute{Type: transaction.OracleResponseT, Value: &transaction.OracleResponse{ID: uint64(r.Intn(3))}})
	}
	if r.Intn(8) == 0 {
		tx.Attributes = append(tx.Attributes, transaction.Attribute{Type: transaction.HighPriority})
	}
	if r.Intn(10) == 0 {
		tx.Attributes = append(tx.Attributes, transaction.Attribute{Type: transaction.NotValidBeforeT, Value: &transaction.NotValidBefore{Height: uint32(r.Intn(3))}})
	}
	// nothing orders the attributes of a transaction: attributes of one type
	// need not be adjacent
	if len(tx.Attributes) > 1 && r.Intn(2) == 0 {
		r.Shuffle(len(tx.Attributes), func(i, j int) { tx.Attributes[i], tx.Attributes[j] = tx.Attributes[j], tx.Attributes[i] })
	}
	if nc >= 2 && len(tx.Attributes) >= 2 && tx.Attributes[0].Type == transaction.ConflictsT && tx.Attributes[1].Type == transaction.ConflictsT && r.Intn(2) == 0 {
		// Conflicts attributes separated by an attribute of another type
		sep := transaction.Attribute{Type: transaction.NotValidBeforeT, Value: &transaction.NotValidBefore{Height: 1}}
		for _, a := range tx.Attributes {
			if a.Type == transaction.NotValidBeforeT {
				sep = transaction.Attribute{}
			}
		}
		if sep.Value != nil {
			tx.Attributes = append(tx.Attributes[:1], append([]transaction.Attribute{sep}, tx.Attributes[1:]...)...)
		}
	}
	return tx
}

// observable returns everything a client can see of the pool, as a string.
func (s *seqState) observable() string {
	var b strings.Builder
	txs := s.mp.GetVerifiedTransactions()
	fmt.Fprintf(&b, "count=%d list=", s.mp.Count())
	for _, tx := range txs {
		b.WriteString(tx.Hash().StringLE()[:8] + ",")
	}
	b.WriteString(" known=")
	for _, k := range s.known {
		d, ok := s.mp.TryGetData(k.Hash())
		_, ok2 := s.mp.TryGetValue(k.Hash())
		fmt.Fprintf(&b, "%v%v%v%v%v;", s.mp.ContainsKey(k.Hash()), s.mp.HasConflicts(k, s.f), ok, ok2, d)
	}
	// free room per payer as Verify sees it: the largest fee a fresh transaction
	// of that payer may carry.
	b.WriteString(" room=")
	for i, a := range s.accs {
		b.WriteString(fmt.Sprintf("%d:%d,", i, s.room(false, a)))
	}
	for i, d := range s.deps {
		b.WriteString(fmt.Sprintf("n%d:%d,", i, s.room(true, d)))
	}
	return b.String()
}

func (s *seqState) room(notary bool, acc util.Uint160) int64 {
	probe := func(fee int64) bool {
		tx := transaction.New([]byte{0x21}, 0)
		tx.NetworkFee = fee
		tx.Nonce = 0xfffffff0
		if notary {
			tx.Signers = []transaction.Signer{{Account: nativehashes.Notary}, {Account: acc}}
		} else {
			tx.Signers = []transaction.Signer{{Account: acc}}
		}
		tx.Scripts = make([]transaction.Witness, len(tx.Signers))
		return s.mp.Verify(tx, s.f)
	}
	lo, hi := int64(-1), int64(200) // invariant: probe(lo) true (or lo==-1), probe(hi) false
	if !probe(0) {
		return -1
	}
	lo = 0
	for hi-lo > 1 {
		m := (lo + hi) / 2
		if probe(m) {
			lo = m
		} else {
			hi = m
		}
	}
	return lo
}

type violation struct{ sig, detail string }

// invariants checks the statement's clauses on the current pool.
func (s *seqState) invariants(lastOp string) *violation {
	txs := s.mp.GetVerifiedTransactions()
	if len(txs) != s.mp.Count() {
		return &violation{"count-differs-from-list", fmt.Sprintf("Count=%d list=%d", s.mp.Count(), len(txs))}
	}
	seen := map[util.Uint256]bool{}
	for _, tx := range txs {
		seen[tx.Hash()] = true
		if !s.mp.ContainsKey(tx.Hash()) {
			return &violation{"listed-but-not-contained", short(tx)}
		}
	}
	for _, k := range s.known {
		if s.mp.ContainsKey(k.Hash()) && !seen[k.Hash()] {
			return &violation{"contained-but-not-listed", short(k)}
		}
	}
	return s.checkList(txs, lastOp)
}

// checkList checks the clauses that concern one listing of the pool (one
// consistent snapshot: GetVerifiedTransactions copies under the pool's lock).
func (s *seqState) checkList(txs []*transaction.Transaction, lastOp string) *violation {
	if len(txs) > s.cap {
		return &violation{"capacity-exceeded", fmt.Sprintf("len=%d cap=%d", len(txs), s.cap)}
	}
	seen := map[util.Uint256]bool{}
	sums := map[string]int64{}
	oracle := map[uint64]int{}
	for i, tx := range txs {
		if seen[tx.Hash()] {
			return &violation{"duplicate-entry", short(tx)}
		}
		seen[tx.Hash()] = true
		if i > 0 && less(prio(txs[i-1]), prio(tx)) {
			return &violation{"order", fmt.Sprintf("pos %d %s before %s", i, short(txs[i-1]), short(tx))}
		}
		sums[payerOf(tx)] += tx.SystemFee + tx.NetworkFee
		if id, ok := oracleID(tx); ok {
			oracle[id]++
		}
	}
	for _, tx := range txs {
		for _, c := range conflictsOf(tx) {
			if seen[c] {
				return &violation{"pooled-conflict", short(tx)}
			}
		}
	}
	for id, n := range oracle {
		if n > 1 {
			return &violation{"oracle-response-duplicate", fmt.Sprint("id ", id)}
		}
	}
	var ps []string
	for p := range sums {
		ps = append(ps, p)
	}
	sort.Strings(ps)
	for _, p := range ps {
		u, _ := util.Uint160DecodeStringLE(p[2:])
		var bal int64
		kind := "sender"
		if p[0] == 'N' {
			bal = s.f.dep[u]
			kind = "notary-depositor"
		} else {
			bal = s.f.bal[u]
		}
		if sums[p] > bal {
			return &violation{"solvency:" + kind + ":after-" + lastOp, fmt.Sprintf("payer=%s pooled fees=%d balance=%d", p[:8], sums[p], bal)}
		}
	}
	return nil
}

func errClass(err error) string {
	switch {
	case err == nil:
		return "ok"
	case errors.Is(err, mempool.ErrDup):
		return "dup"
	case errors.Is(err, mempool.ErrOOM):
		return "oom"
	case errors.Is(err, mempool.ErrInsufficientFunds):
		return "funds"
	case errors.Is(err, mempool.ErrConflict):
		return "conflict"
	case errors.Is(err, mempool.ErrConflictsAttribute):
		return "conflictsattr"
	case errors.Is(err, mempool.ErrOracleResponse):
		return "oracle"
	}
	return "other"
}

// runSeq runs one sequence and returns the first violation (or nil).
func runSeq(run *ev.Run, idx int, nops int) (*violation, *seqState) {
	r := rng.New(uint64(idx) + 1000)
	s := &seqState{r: r, f: &feer{bal: map[util.Uint160]int64{}, dep: map[util.Uint160]int64{}, h: 1}}
	s.accs = []util.Uint160{{1}, {2}, {3}, {4}}
	s.deps = []util.Uint160{{0xA}, {0xB}, {0xC}}
	for _, a := range s.accs {
		s.f.bal[a] = int64(10 + r.Intn(40))
	}
	for _, d := range s.deps {
		s.f.dep[d] = int64(10 + r.Intn(40))
	}
	s.cap = 1 + r.Intn(8)
	s.mp = mempool.New(s.cap, false, nil)
	if r.Intn(2) == 0 {
		// as network.Server does: stale items are handed to a resend callback
		s.mp.SetResendThreshold(uint32(1+r.Intn(3)), func(*transaction.Transaction, any) {})
	}
	s.log = append(s.log, fmt.Sprintf("capacity=%d balances=%v deposits=%v", s.cap, s.f.bal, s.f.dep))
	for op := 0; op < nops; op++ {
		var lastOp string
		switch x := r.Intn(10); {
		case x < 7:
			var tx *transaction.Transaction
			if r.Intn(5) == 0 && len(s.known) > 0 {
				tx = s.known[r.Intn(len(s.known))]
			} else {
				tx = s.mk()
				s.known = append(s.known, tx)
			}
			before := s.observable()
			beforeTxs := s.mp.GetVerifiedTransactions()
			var err error
			var pan any
			func() {
				defer func() { pan = recover() }()
				err = s.mp.Add(tx, s.f, int(tx.Nonce))
			}()
			if pan != nil {
				s.log = append(s.log, fmt.Sprintf("Add %s -> PANIC %v", short(tx), pan))
				sig := "panic-in-Add"
				if _, ok := oracleID(tx); ok {
					sig += ":oracle-response"
				}
				return &violation{sig, fmt.Sprint(pan)}, s
			}
			cls := errClass(err)
			s.log = append(s.log, fmt.Sprintf("Add %s -> %s", short(tx), cls))
			lastOp = "add"
			if len(conflictsOf(tx)) > 0 {
				lastOp = "add-with-conflicts"
			}
			s.kinds = append(s.kinds, "add:"+cls)
			if err != nil {
				s.nontri = true
				run.Obs("failed_adds_compared", 1)
				if after := s.observable(); after != before {
					return &violation{"failed-add-changed-pool:" + cls, fmt.Sprintf("before: %s\nafter:  %s", before, after)}, s
				}
			} else {
				if !s.mp.ContainsKey(tx.Hash()) {
					return &violation{"added-but-absent", short(tx)}, s
				}
				if d, ok := s.mp.TryGetData(tx.Hash()); !ok || d != int(tx.Nonce) {
					return &violation{"data-lost", short(tx)}, s
				}
				after := map[util.Uint256]bool{}
				for _, t2 := range s.mp.GetVerifiedTransactions() {
					after[t2.Hash()] = true
				}
				for _, t2 := range beforeTxs {
					if after[t2.Hash()] {
						continue
					}
					s.nontri = true
					isC := false
					for _, c := range conflictsOf(tx) {
						if c == t2.Hash() {
							isC = true
						}
					}
					for _, c := range conflictsOf(t2) {
						if c == tx.Hash() {
							isC = true
						}
					}
					ia, oka := oracleID(tx)
					ib, okb := oracleID(t2)
					if oka && okb && ia == ib {
						isC = true
					}
					if isC {
						run.Obs("replacements", 1)
						continue
					}
					run.Obs("evictions", 1)
					if len(beforeTxs) < s.cap {
						return &violation{"removed-without-reason", short(t2)}, s
					}
					minP := prio(beforeTxs[0])
					for _, b := range beforeTxs {
						if less(prio(b), minP) {
							minP = prio(b)
						}
					}
					if prio(t2) != minP {
						return &violation{"evicted-not-lowest-priority", fmt.Sprintf("evicted %s lowest %v", short(t2), minP)}, s
					}
				}
			}
		case x < 9:
			lastOp = "remove"
			if len(s.known) > 0 {
				k := s.known[r.Intn(len(s.known))]
				was := s.mp.ContainsKey(k.Hash())
				n := s.mp.Count()
				s.mp.Remove(k.Hash())
				s.log = append(s.log, fmt.Sprintf("Remove %s (pooled=%v)", k.Hash().StringLE()[:6], was))
				s.kinds = append(s.kinds, fmt.Sprint("rm:", was))
				if s.mp.ContainsKey(k.Hash()) {
					return &violation{"remove-kept-entry", short(k)}, s
				}
				exp := n
				if was {
					exp--
				}
				if s.mp.Count() != exp {
					return &violation{"remove-count", fmt.Sprintf("count %d -> %d, pooled=%v", n, s.mp.Count(), was)}, s
				}
			}
		default:
			lastOp = "removestale"
			s.f.h++
			if r.Intn(2) == 0 {
				a := s.accs[r.Intn(len(s.accs))]
				s.f.bal[a] = int64(5 + r.Intn(45))
			}
			if r.Intn(2) == 0 {
				d := s.deps[r.Intn(len(s.deps))]
				s.f.dep[d] = int64(5 + r.Intn(45))
			}
			if r.Intn(4) == 0 {
				s.f.fpb += int64(r.Intn(2)) // fee-per-byte policy may rise
			}
			drop := uint32(r.Intn(4))
			beforeN := s.mp.Count()
			s.mp.RemoveStale(func(tx *transaction.Transaction) bool { return tx.Nonce%4 != drop }, s.f)
			s.log = append(s.log, fmt.Sprintf("RemoveStale drop nonce%%4==%d h=%d bal=%v dep=%v fpb=%d: %d -> %d", drop, s.f.h, s.f.bal, s.f.dep, s.f.fpb, beforeN, s.mp.Count()))
			s.kinds = append(s.kinds, "stale")
			for _, tx := range s.mp.GetVerifiedTransactions() {
				if tx.Nonce%4 == drop {
					return &violation{"stale-kept", short(tx)}, s
				}
			}
		}
		run.Obs("ops", 1)
		if v := s.invariants(lastOp); v != nil {
			return v, s
		}
	}
	return nil, s
}

func TestCheck(t *testing.T) {
	run := ev.Start("C08", "seeded sequences of Add/Remove/RemoveStale on pools of capacity 1-8 over 4 senders + 3 notary depositors with balances near their fee sums; a case is one sequence, distinct by its (capacity, op/outcome sequence), non-trivial if it contained a failed addition, an eviction or a conflict/oracle replacement; invariants are evaluated after every operation")
	defer run.Finish()
	run.Assume("pool observed only through exported API (GetVerifiedTransactions, Count, ContainsKey, HasConflicts, TryGetData, TryGetValue, Verify)")
	run.Assume("balances change only together with RemoveStale, as on a node (refresh after a block)")
	if os.Getenv("VERIF_PART") == "conc" {
		concurrentPart(run)
		return
	}
	if os.Getenv("VERIF_PART") == "chain" {
		run.Assume("chain part: balances and on-chain facts are read from the node's own ledger through exported getters right after AddBlock returned")
		chainPart(t, run)
		return
	}
	nseq := ev.Pick(4000, 100000)
	nops := ev.Pick(40, 60)
	var wg sync.WaitGroup
	ch := make(chan int, 256)
	for w := 0; w < runtime.NumCPU(); w++ {
		wg.Add(1)
		go func() {
			defer wg.Done()
			for i := range ch {
				id := fmt.Sprint("seq", i)
				if !run.Want(id) {
					continue
				}
				v, s := runSeq(run, i, nops)
				run.Case(fmt.Sprint(s.cap, s.kinds), s.nontri)
				if i < 2 {
					run.Sample(map[string]any{"case": id, "ops": s.log})
				}
				if v != nil {
					run.Violation(v.sig, id, v.detail, map[string]any{"ops": s.log, "detail": v.detail})
				}
			}
		}()
	}
	for i := 0; i < nseq; i++ {
		ch <- i
	}
	close(ch)
	wg.Wait()
}

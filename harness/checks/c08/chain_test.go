package c08

import (
	"fmt"
	"github.com/nspcc-dev/neo-go/pkg/config"
	"math/big"
	"sort"
	"testing"

	"github.com/nspcc-dev/neo-go/pkg/core/native/nativehashes"
	"github.com/nspcc-dev/neo-go/pkg/core/transaction"
	"github.com/nspcc-dev/neo-go/pkg/neotest"
	"github.com/nspcc-dev/neo-go/pkg/smartcontract/trigger"
	"github.com/nspcc-dev/neo-go/pkg/util"
	"github.com/nspcc-dev/neo-go/pkg/vm/opcode"
	"github.com/nspcc-dev/neo-go/verifharness/vlib/ev"
	"github.com/nspcc-dev/neo-go/verifharness/vlib/rng"
	"github.com/nspcc-dev/neo-go/verifharness/vlib/vchain"
)

// chainPart observes the pool of a real node (the Blockchain's own pool, with
// the ledger as its fee source) across block-driven refreshes: the node is fed
// a generated history block by block - sometimes with the next headers already
// known, as during header-first synchronisation - while its pool holds
// transactions of the coming blocks, never-mined ones and transactions built
// here to take a payer's pooled fees to within a few units of its balance.
// After every block the clauses of the statement are evaluated against the
// ledger itself.
func chainPart(t *testing.T, run *ev.Run) {
	nh := ev.Pick(3, 12)
	nb := ev.Pick(60, 120)
	for hi := 0; hi < nh; hi++ {
		hc := vchain.HistoryCfg{Idx: 1800 + hi, Blocks: nb}
		if hi%3 == 2 {
			// the node-wide P2P signature extensions switched off (the native Notary
			// contract and its deposits work regardless of it)
			pn, pr := vchain.ProtoFor(1800 + hi)
			hc.PName, hc.Proto = pn+"+no-p2p-sig-extensions", func(c *config.Blockchain) { pr(c); c.P2PSigExtensions = false }
		}
		h := vchain.BuildHistory(t, hc)
		p := h.P
		if p.Rejected != nil {
			// the producing node refuses a block it has just built from transactions
			// it admitted (as in the other chain checks, this is reported: on the
			// unchanged tree every generated history is accepted)
			run.Case(fmt.Sprintf("chain/h%d/producer", hi), true)
			run.Violation("chain:producer-rejected-own-block", fmt.Sprintf("chain/h%d/producer", hi), p.Rejected.Error(), map[string]any{"history": 1800 + hi, "protocol": h.PName})
			p.Close()
			continue
		}
		for variant := 0; variant < 2; variant++ {
			id := fmt.Sprintf("chain/h%d/%s", hi, []string{"blocks-only", "headers-ahead"}[variant])
			if !run.Want(id) {
				continue
			}
			v, log, refreshed := chainCase(t, run, h, hi, variant)
			run.Case(id, refreshed > 0)
			if v != nil {
				run.Violation(v.sig, id, v.detail, map[string]any{"history": 1800 + hi, "variant": variant, "log": log, "detail": v.detail})
			}
		}
		p.Close()
	}
}

func chainCase(t *testing.T, run *ev.Run, h *vchain.History, hi, variant int) (*violation, []string, int) {
	p := h.P
	rep, err := vchain.OpenReplica(t, vchain.ReplicaCfg{Name: "c08chain", Cfg: h.Proto})
	if err != nil {
		t.Fatal(err)
	}
	defer rep.Close()
	bc := rep.BC
	pool := bc.GetMemPool()
	r := rng.New(uint64(hi)*2 + uint64(variant) + 18_000_000)
	magic := bc.GetConfig().Magic
	var log []string
	var nonce uint32 = 0x7c080000
	headersTo := 0 // headers of blocks [0, headersTo) are known
	refreshed := 0
	userOf := map[util.Uint160]*vchain.User{}
	for _, u := range p.Users {
		userOf[u.Hash()] = u
	}
	pooledSum := func(acc util.Uint160) int64 {
		var s int64
		for _, tx := range pool.GetVerifiedTransactions() {
			if tx.Sender() == acc {
				s += tx.SystemFee + tx.NetworkFee
			}
		}
		return s
	}
	for i := range p.Raw {
		height := uint32(i) // the node is at this height, block i+1 comes next
		// transactions the network would have relayed by now
		for d := 0; d < 2 && i+d < len(h.Txs); d++ {
			for _, tx := range h.Txs[i+d] {
				if r.Intn(3) != 0 {
					tc := *tx
					if bc.PoolTx(&tc) == nil {
						run.Obs("chain_block_txs_pooled", 1)
					}
				}
			}
		}
		if i < len(h.Extras) {
			for _, tx := range h.Extras[i] {
				tc := *tx
				if bc.PoolTx(&tc) == nil {
					run.Obs("chain_never_mined_txs_pooled", 1)
				}
			}
		}
		// payers of the coming block get their pooled fees pushed to just below
		// their balance: the block then makes them insolvent unless the refresh
		// evicts something
		if i < len(h.Txs) {
			seen := map[util.Uint160]bool{}
			for _, btx := range h.Txs[i] {
				u := userOf[btx.Sender()]
				if u == nil || seen[u.Hash()] || r.Intn(2) == 0 {
					continue
				}
				seen[u.Hash()] = true
				for k := 0; k < 2; k++ {
					bal := bc.GetUtilityTokenBalance(u.Hash(), util.Uint160{}).Int64()
					room := bal - pooledSum(u.Hash())
					tx := transaction.New([]byte{byte(opcode.PUSH1)}, 0)
					nonce++
					tx.Nonce = nonce
					tx.ValidUntilBlock = height + 2 + uint32(r.Intn(3))
					tx.Signers = []transaction.Signer{{Account: u.Hash(), Scopes: transaction.CalledByEntry}}
					neotest.AddNetworkFee(t, bc, tx, u.S)
					share := room
					if k == 0 {
						share = room / 2
					}
					// the system fee of one transaction is capped by policy, the
					// network fee is not: the payer overpays the network fee
					tx.SystemFee = 100_000
					extra := share - tx.NetworkFee - tx.SystemFee - int64(r.Intn(2000))
					if extra < 0 {
						break
					}
					tx.NetworkFee += extra
					if err := u.S.SignTx(magic, tx); err != nil {
						t.Fatal(err)
					}
					if err := bc.PoolTx(tx); err == nil {
						run.Obs("chain_near_balance_txs_pooled", 1)
						log = append(log, fmt.Sprintf("h%d: pooled near-balance tx of user %d fees %d balance %d", height, u.Idx, tx.SystemFee+tx.NetworkFee, bal))
					} else {
						run.Obs("chain_near_balance_txs_refused", 1)
					}
				}
			}
		}
		// notary depositors: transactions sent by the Notary contract and paid from
		// a deposit, up to just below the deposit - and one more that no longer
		// fits, which the pool must refuse whatever the other depositors hold
		for _, u := range p.Users {
			if u.Blocked || r.Intn(3) != 0 {
				continue
			}
			dep := bc.GetUtilityTokenBalance(nativehashes.Notary, u.Hash()).Int64()
			var have int64
			for _, tx := range pool.GetVerifiedTransactions() {
				if tx.Sender() == nativehashes.Notary && len(tx.Signers) > 1 && tx.Signers[1].Account == u.Hash() {
					have += tx.SystemFee + tx.NetworkFee
				}
			}
			room := dep - have
			if dep < 1_0000_0000 || room < 5000_0000 {
				continue
			}
			nonce++
			fit := vchain.NotaryAssistedTx(t, bc, u, room-int64(r.Intn(1000)), height+2+uint32(r.Intn(2)), nonce)
			if fit == nil {
				break
			}
			if err := bc.PoolTx(fit); err == nil {
				run.Obs("chain_near_deposit_notary_txs_pooled", 1)
				nonce++
				over := vchain.NotaryAssistedTx(t, bc, u, 3000_0000, height+2, nonce)
				if err := bc.PoolTx(over); err == nil {
					log = append(log, fmt.Sprintf("h%d: depositor %d (deposit %d) had %d pooled, then %d and %d more were accepted", height, u.Idx, dep, have, fit.SystemFee+fit.NetworkFee, over.SystemFee+over.NetworkFee))
					run.Obs("chain_notary_txs_accepted_beyond_the_deposit", 1)
				} else {
					run.Obs("chain_notary_txs_beyond_the_deposit_refused", 1)
				}
			}
		}
		if v := checkChainPool(run, rep, false); v != nil {
			v.sig += ":before-block"
			log = append(log, fmt.Sprintf("h%d: %s", height, v.detail))
			return v, log, refreshed
		}
		if variant == 1 && i >= headersTo && r.Intn(3) == 0 {
			k := 2 + r.Intn(3)
			for j := i; j < i+k && j < len(p.Raw); j++ {
				if err := rep.AddHeaderRaw(p.Raw[j]); err != nil {
					return &violation{"chain:header-rejected", fmt.Sprintf("height %d: %v", j+1, err)}, log, refreshed
				}
				headersTo = j + 1
			}
			log = append(log, fmt.Sprintf("h%d: headers known up to %d", height, headersTo))
			run.Obs("chain_header_batches_ahead", 1)
		}
		before := pool.Count()
		if err := rep.AddRaw(p.Raw[i]); err != nil {
			return &violation{"chain:block-rejected", fmt.Sprintf("height %d: %v", i+1, err)}, log, refreshed
		}
		below := headersTo > i+1
		if below {
			run.Obs("chain_blocks_added_below_header_height", 1)
		}
		if before > 0 {
			refreshed++
			run.Obs("chain_refreshes_of_nonempty_pool", 1)
		}
		if v := checkChainPool(run, rep, below); v != nil {
			log = append(log, fmt.Sprintf("h%d: %s", i+1, v.detail))
			return v, log, refreshed
		}
	}
	return nil, log, refreshed
}

// checkChainPool evaluates the pool of a node against its own ledger right
// after a block was accepted.
func checkChainPool(run *ev.Run, rep *vchain.Replica, belowHeaders bool) *violation {
	bc := rep.BC
	pool := bc.GetMemPool()
	txs := pool.GetVerifiedTransactions()
	height := bc.BlockHeight()
	where := ":after-block"
	if belowHeaders {
		where = ":after-block-below-header-height"
	}
	if pool.Count() != len(txs) {
		return &violation{"chain:count-differs-from-list" + where, fmt.Sprintf("Count=%d list=%d", pool.Count(), len(txs))}
	}
	seen := map[util.Uint256]bool{}
	sums := map[string]int64{}
	for i, tx := range txs {
		run.Obs("chain_pooled_txs_checked", 1)
		if seen[tx.Hash()] {
			return &violation{"chain:duplicate-entry" + where, short(tx)}
		}
		seen[tx.Hash()] = true
		if i > 0 && less(prio(txs[i-1]), prio(tx)) {
			return &violation{"chain:order" + where, fmt.Sprintf("pos %d %s before %s", i, short(txs[i-1]), short(tx))}
		}
		if aers, err := bc.GetAppExecResults(tx.Hash(), trigger.Application); err == nil && len(aers) > 0 {
			return &violation{"chain:pooled-transaction-is-on-chain" + where, fmt.Sprintf("height %d tx %s", height, short(tx))}
		}
		if tx.ValidUntilBlock <= height {
			return &violation{"chain:pooled-transaction-expired" + where, fmt.Sprintf("height %d tx %s valid until %d", height, short(tx), tx.ValidUntilBlock)}
		}
		sums[payerOf(tx)] += tx.SystemFee + tx.NetworkFee
	}
	for _, tx := range txs {
		for _, c := range conflictsOf(tx) {
			if seen[c] {
				return &violation{"chain:pooled-conflict" + where, short(tx)}
			}
		}
	}
	var ps []string
	for p := range sums {
		ps = append(ps, p)
	}
	sort.Strings(ps)
	for _, p := range ps {
		u, _ := util.Uint160DecodeStringLE(p[2:])
		var bal *big.Int
		kind := "sender"
		if p[0] == 'N' {
			bal = bc.GetUtilityTokenBalance(nativehashes.Notary, u)
			kind = "notary-depositor"
		} else {
			bal = bc.GetUtilityTokenBalance(u, util.Uint160{})
		}
		run.Obs("chain_payer_sums_checked", 1)
		if big.NewInt(sums[p]).Cmp(bal) > 0 {
			return &violation{"chain:solvency:" + kind + where, fmt.Sprintf("height %d payer=%s pooled fees=%d balance=%s", height, p[:10], sums[p], bal)}
		}
	}
	return nil
}

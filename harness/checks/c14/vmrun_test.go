package c14

// neo-go side of the differential: pkg/compiler, a bare VM entered through the
// manifest offsets, and a deployed copy called through System.Contract.Call.

import (
	"encoding/binary"
	"encoding/hex"
	"encoding/json"
	"fmt"
	"math/big"
	"os"
	"path/filepath"
	"regexp"
	"strings"
	"testing"
	"unicode"

	"github.com/nspcc-dev/neo-go/pkg/compiler"
	"github.com/nspcc-dev/neo-go/pkg/config"
	"github.com/nspcc-dev/neo-go/pkg/core"
	"github.com/nspcc-dev/neo-go/pkg/core/state"
	"github.com/nspcc-dev/neo-go/pkg/core/transaction"
	"github.com/nspcc-dev/neo-go/pkg/neotest"
	"github.com/nspcc-dev/neo-go/pkg/neotest/chain"
	"github.com/nspcc-dev/neo-go/pkg/smartcontract"
	"github.com/nspcc-dev/neo-go/pkg/smartcontract/callflag"
	"github.com/nspcc-dev/neo-go/pkg/smartcontract/manifest"
	"github.com/nspcc-dev/neo-go/pkg/smartcontract/nef"
	"github.com/nspcc-dev/neo-go/pkg/smartcontract/trigger"
	"github.com/nspcc-dev/neo-go/pkg/util"
	"github.com/nspcc-dev/neo-go/pkg/vm"
	"github.com/nspcc-dev/neo-go/pkg/vm/opcode"
	"github.com/nspcc-dev/neo-go/pkg/vm/stackitem"
	"go.uber.org/zap"
)

type compiled struct {
	nef *nef.File
	di  *compiler.DebugInfo
	m   *manifest.Manifest
	err error
	// set when the harness, not the compiler, failed
	harnessErr error
}

// vmRoot is the root of the scratch module the multi-file programs are
// compiled in (see newVMRoot); "" before TestCheck sets it up.
var vmRoot string

// newVMRoot makes dir the root of a module that resolves like the harness
// module does: pkg/compiler loads a directory with the go command, and the go
// command wants the directory inside a module. Under the driver GOFLAGS carries
// -modfile, which replaces the content of this go.mod anyway; for manual runs
// the harness' own go.mod / go.sum are copied with the replace aimed at the
// repository under test.
func newVMRoot(dir string) error {
	if err := os.MkdirAll(dir, 0o755); err != nil {
		return err
	}
	cwd, err := os.Getwd()
	if err != nil {
		return err
	}
	for d := cwd; ; d = filepath.Dir(d) {
		b, err := os.ReadFile(filepath.Join(d, "go.mod"))
		if err == nil {
			mod := regexp.MustCompile(`(?m)^replace github.com/nspcc-dev/neo-go => .*$`).ReplaceAllString(string(b), "replace github.com/nspcc-dev/neo-go => "+repoDir())
			if err := os.WriteFile(filepath.Join(dir, "go.mod"), []byte(mod), 0o644); err != nil {
				return err
			}
			sum, _ := os.ReadFile(filepath.Join(d, "go.sum"))
			rsum, _ := os.ReadFile(filepath.Join(repoDir(), "go.sum"))
			return os.WriteFile(filepath.Join(dir, "go.sum"), append(append(sum, '\n'), rsum...), 0o644)
		}
		if d == filepath.Dir(d) {
			return fmt.Errorf("no go.mod above %s", cwd)
		}
	}
}

// writeVMDir writes the package (and its sub-package) below vmRoot.
func writeVMDir(p *program) (string, error) {
	if vmRoot == "" {
		return "", fmt.Errorf("harness: no module for directory compilation")
	}
	d := filepath.Join(vmRoot, p.pkg)
	if err := os.MkdirAll(d, 0o755); err != nil {
		return "", err
	}
	for _, f := range p.fileList() {
		if err := os.WriteFile(filepath.Join(d, f.Name), []byte(f.Text), 0o644); err != nil {
			return "", err
		}
	}
	if p.aux != nil {
		ad := filepath.Join(d, p.aux.name)
		if err := os.MkdirAll(ad, 0o755); err != nil {
			return "", err
		}
		for _, f := range p.aux.files {
			if err := os.WriteFile(filepath.Join(ad, f.Name), []byte(f.Text), 0o644); err != nil {
				return "", err
			}
		}
	}
	return d, nil
}

func compileProg(p *program) (c compiled) {
	defer func() {
		if r := recover(); r != nil {
			c.err = fmt.Errorf("compiler panic: %v", r)
		}
	}()
	config.Version = "neotest"
	opts := &compiler.Options{Name: "c14-" + p.pkg, NoEventsCheck: true, NoPermissionsCheck: true}
	if p.dirCompile {
		// a contract package: a directory of files, possibly with a package of its own
		dir, err := writeVMDir(p)
		if err != nil {
			c.harnessErr = err
			c.err = err
			return
		}
		c.nef, c.di, c.err = compiler.CompileWithOptions(dir, nil, opts)
	} else {
		f := p.fileList()[0]
		c.nef, c.di, c.err = compiler.CompileWithOptions(f.Name, strings.NewReader(f.Text), opts)
	}
	if c.err != nil {
		return
	}
	c.m, c.err = compiler.CreateManifest(c.di, opts)
	return
}

// lowerFirst is the manifest naming convention for exported Go functions.
func lowerFirst(s string) string {
	r := []rune(s)
	r[0] = unicode.ToLower(r[0])
	return string(r)
}

func argItem(a argSpec) stackitem.Item {
	switch a.T {
	case tInt:
		return stackitem.NewBigInteger(big.NewInt(a.I))
	case tBool:
		return stackitem.NewBool(a.B)
	default:
		return stackitem.NewByteArray([]byte(a.S))
	}
}

func argAny(a argSpec) any {
	switch a.T {
	case tInt:
		return a.I
	case tBool:
		return a.B
	case tStr:
		return a.S
	default:
		return []byte(a.S)
	}
}

// encItem renders a result item in the encoding of the native side. ok=false
// when the item has a shape no generated function returns.
func encItem(it stackitem.Item, want ty) (string, bool) {
	switch want {
	case tVoid:
		// what the caller of a procedure gets from System.Contract.Call
		if it.Type() != stackitem.AnyT {
			return "type:" + it.Type().String(), false
		}
		return "v:", true
	case tInt:
		if it.Type() != stackitem.IntegerT {
			return "type:" + it.Type().String(), false
		}
		return "i:" + it.Value().(*big.Int).String(), true
	case tBool:
		if it.Type() != stackitem.BooleanT {
			return "type:" + it.Type().String(), false
		}
		return fmt.Sprintf("b:%v", it.Value().(bool)), true
	case tStr, tBytes:
		switch it.Type() {
		case stackitem.ByteArrayT, stackitem.BufferT:
			b, _ := it.TryBytes()
			return "s:" + hex.EncodeToString(b), true
		case stackitem.AnyT: // nil slice
			return "s:", true
		}
		return "type:" + it.Type().String(), false
	case tInts:
		switch it.Type() {
		case stackitem.AnyT:
			return "a:", true
		case stackitem.ArrayT:
			var s []string
			for _, e := range it.Value().([]stackitem.Item) {
				if e.Type() != stackitem.IntegerT {
					return "type:element-" + e.Type().String(), false
				}
				s = append(s, e.Value().(*big.Int).String())
			}
			return "a:" + strings.Join(s, ","), true
		}
		return "type:" + it.Type().String(), false
	}
	return "?", false
}

func itemsJSON(items []stackitem.Item) []string {
	var r []string
	for _, it := range items {
		b, err := stackitem.ToJSONWithTypes(it)
		if err != nil {
			r = append(r, "unserializable "+it.Type().String())
		} else {
			r = append(r, string(b))
		}
	}
	return r
}

// Every generated loop has a constant bound, so a terminating Go call needs a
// few thousand instructions; far beyond that the VM side is taken to diverge.
const (
	stepBound    = 400_000
	stepBoundMsg = "step bound exceeded (4e5 instructions)"
	gasBound     = 5_0000_0000
)

// vmOutcome is the result of one execution on the neo-go side.
type vmOutcome struct {
	fault    string // "" when HALT
	n        int    // items left (bare VM) / returned (contract call)
	val      string // encoding of the top item
	valOK    bool
	stack    []string
	leftover int // max number of items found above a TRY's entry depth when its catch block was entered
	catches  int // exceptions caught by compiled code
	steps    int
}

// runBare enters the function through its manifest offset with `_initialize`
// called first, as the VM does for a contract method.
//
// pre "deploy" / "update": `_deploy(nil, false / true)` runs in between, the way
// it would at deployment, but in this very VM so that the function sees the
// package state `_deploy` left.
func runBare(c compiled, md *manifest.Method, args []argSpec, ret ty, pre string) (o vmOutcome) {
	v := vm.New()
	v.LoadScriptWithFlags(c.nef.Script, callflag.All)
	for i := len(args) - 1; i >= 0; i-- {
		v.Estack().PushItem(argItem(args[i]))
	}
	v.Context().Jump(md.Offset)
	if pre != "" {
		dep := c.m.ABI.GetMethod(manifest.MethodDeploy, 2)
		if dep == nil {
			o.fault = "harness: _deploy is not in the manifest"
			return
		}
		v.Estack().PushItem(stackitem.NewBool(pre == "update"))
		v.Estack().PushItem(stackitem.Null{})
		v.Call(dep.Offset)
	}
	if ini := c.m.ABI.GetMethod(manifest.MethodInit, 0); ini != nil {
		v.Call(ini.Offset)
	}
	// A shadow of the TRY stack: evaluation stack depth when a TRY was entered.
	type tryRec struct {
		ctx   *vm.Context
		depth int
	}
	shadow := map[int][]tryRec{} // absolute catch offset -> entries
	script := c.nef.Script
	v.SetOnExecHook(func(_ util.Uint160, ip int, op opcode.Opcode) {
		o.steps++
		if o.steps > stepBound {
			panic(stepBoundMsg)
		}
		ctx := v.Context()
		if recs := shadow[ip]; len(recs) > 0 {
			for i := len(recs) - 1; i >= 0; i-- {
				if recs[i].ctx == ctx {
					// catch block entered: the exception item is on top
					o.catches++
					if l := v.Estack().Len() - 1 - recs[i].depth; l > o.leftover {
						o.leftover = l
					}
					shadow[ip] = append(recs[:i:i], recs[i+1:]...)
					break
				}
			}
		}
		switch op {
		case opcode.TRYL:
			off := int(int32(binary.LittleEndian.Uint32(script[ip+1:])))
			if off != 0 {
				shadow[ip+off] = append(shadow[ip+off], tryRec{ctx, v.Estack().Len()})
			}
		case opcode.TRY:
			off := int(int8(script[ip+1]))
			if off != 0 {
				shadow[ip+off] = append(shadow[ip+off], tryRec{ctx, v.Estack().Len()})
			}
		}
	})
	err := func() (err error) {
		defer func() {
			if r := recover(); r != nil {
				err = fmt.Errorf("VM PANIC: %v", r)
			}
		}()
		return v.Run()
	}()
	if err != nil {
		o.fault = err.Error()
		return
	}
	items := v.Estack().ToArray() // bottom .. top
	o.n = len(items)
	o.stack = itemsJSON(items)
	if o.n > 0 {
		o.val, o.valOK = encItem(items[len(items)-1], ret)
	} else if ret == tVoid {
		o.val, o.valOK = "v:", true
	}
	return
}

// ---------------------------------------------------------------- chain

type chainEnv struct {
	bc  *core.Blockchain
	val neotest.Signer
	e   *neotest.Executor
}

func newChain(t testing.TB) *chainEnv {
	bc, val := chain.NewSingleWithOptions(t, &chain.Options{Logger: zap.NewNop()})
	return &chainEnv{bc: bc, val: val, e: neotest.NewExecutor(t, bc, val, val)}
}

// deploy puts the contract on the chain; the error is the Management
// contract's verdict on the NEF / manifest pair.
func (ce *chainEnv) deploy(t testing.TB, c compiled) (h util.Uint160, err error) {
	defer func() {
		if r := recover(); r != nil {
			err = fmt.Errorf("deploy panic: %v", r)
		}
	}()
	ct := &neotest.Contract{
		Hash:     state.CreateContractHash(ce.val.ScriptHash(), c.nef.Checksum, c.m.Name),
		NEF:      c.nef,
		Manifest: c.m,
	}
	rawM, err := json.Marshal(c.m)
	if err != nil {
		return h, err
	}
	neb, err := c.nef.Bytes()
	if err != nil {
		return h, err
	}
	script, err := smartcontract.CreateCallScript(ce.bc.ManagementContractHash(), "deploy", neb, rawM, nil)
	if err != nil {
		return h, err
	}
	// dry run first: a rejected deployment must not abort the harness
	tx := transaction.New(script, 0)
	tx.Signers = []transaction.Signer{{Account: ce.val.ScriptHash(), Scopes: transaction.Global}}
	ic, err := ce.bc.GetTestVM(trigger.Application, tx, nil)
	if err != nil {
		return h, err
	}
	ic.VM.SetGasLimit(10 * gasBound) // deployment itself costs 10 GAS and runs _initialize
	ic.VM.LoadWithFlags(script, callflag.All)
	err = ic.VM.Run()
	ic.Finalize()
	if err != nil {
		return h, fmt.Errorf("deploy rejected: %w", err)
	}
	dtx := ce.e.NewDeployTx(t, ct, nil)
	ce.e.AddNewBlock(t, dtx)
	aer, err := ce.bc.GetAppExecResults(dtx.Hash(), trigger.Application)
	if err != nil || len(aer) != 1 {
		return h, fmt.Errorf("no deployment result: %v", err)
	}
	if aer[0].VMState.String() != "HALT" {
		return h, fmt.Errorf("deploy transaction failed: %s", aer[0].FaultException)
	}
	return ct.Hash, nil
}

// call runs method through System.Contract.Call from an entry script in a
// test invocation against the current state of the chain.
func (ce *chainEnv) call(h util.Uint160, method string, args []argSpec, ret ty) (o vmOutcome) {
	var as []any
	for _, a := range args {
		as = append(as, argAny(a))
	}
	script, err := smartcontract.CreateCallScript(h, method, as...)
	if err != nil {
		o.fault = "harness: " + err.Error()
		return
	}
	tx := transaction.New(script, 0)
	tx.Signers = []transaction.Signer{{Account: ce.val.ScriptHash(), Scopes: transaction.Global}}
	ic, err := ce.bc.GetTestVM(trigger.Application, tx, nil)
	if err != nil {
		o.fault = "harness: " + err.Error()
		return
	}
	defer ic.Finalize()
	ic.VM.SetGasLimit(gasBound)
	ic.VM.LoadWithFlags(script, callflag.All)
	err = func() (err error) {
		defer func() {
			if r := recover(); r != nil {
				err = fmt.Errorf("VM PANIC: %v", r)
			}
		}()
		return ic.VM.Run()
	}()
	if err != nil {
		o.fault = err.Error()
		return
	}
	items := ic.VM.Estack().ToArray()
	o.n = len(items)
	o.stack = itemsJSON(items)
	if o.n > 0 {
		o.val, o.valOK = encItem(items[len(items)-1], ret)
	}
	return
}

var (
	numRe   = regexp.MustCompile(`-?\d+`)
	quoteRe = regexp.MustCompile(`"[^"]*"`)
)

// faultClass normalises a fault text: opcode and message without numbers.
func faultClass(s string) string {
	if i := strings.Index(s, "("); i >= 0 && strings.HasPrefix(s, "at instruction") {
		s = s[i:]
	}
	s = quoteRe.ReplaceAllString(s, `"…"`)
	s = numRe.ReplaceAllString(s, "N")
	if len(s) > 90 {
		s = s[:90]
	}
	return s
}

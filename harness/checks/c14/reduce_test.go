package c14

// Development aid: line-based reduction of a program that the compiler rejects
// (VERIF_REDUCE=<file>). Not part of the check.

import (
	"encoding/json"
	"fmt"
	"go/ast"
	"go/importer"
	"go/parser"
	"go/token"
	"go/types"
	"os"
	"strings"
	"testing"

	"github.com/nspcc-dev/neo-go/pkg/compiler"
)

func typeChecks(src string) bool {
	fset := token.NewFileSet()
	f, err := parser.ParseFile(fset, "x.go", src, 0)
	if err != nil {
		return false
	}
	conf := types.Config{Importer: importer.Default(), Error: func(error) {}}
	info := &types.Info{Uses: map[*ast.Ident]types.Object{}}
	pkg, err := conf.Check("x", fset, []*ast.File{f}, info)
	return err == nil && !hasClosure(f, info, pkg)
}

// hasClosure reports a function literal that mentions a variable of an
// enclosing function: a reduction step must not turn a literal into a closure.
func hasClosure(f *ast.File, info *types.Info, pkg *types.Package) (found bool) {
	ast.Inspect(f, func(n ast.Node) bool {
		lit, ok := n.(*ast.FuncLit)
		if !ok {
			return true
		}
		ast.Inspect(lit, func(m ast.Node) bool {
			id, ok := m.(*ast.Ident)
			if !ok {
				return true
			}
			o, ok := info.Uses[id].(*types.Var)
			if !ok || o.IsField() || o.Parent() == pkg.Scope() {
				return true
			}
			if o.Pos() < lit.Pos() || o.Pos() > lit.End() {
				found = true
			}
			return true
		})
		return true
	})
	return
}

func compileErr(src string) (s string) {
	defer func() {
		if r := recover(); r != nil {
			s = faultClass(fmt.Sprint("compiler panic: ", r))
		}
	}()
	_, _, err := compiler.CompileWithOptions("red.go", strings.NewReader(src), nil)
	if err == nil {
		return ""
	}
	return faultClass(err.Error())
}

func TestReduce(t *testing.T) {
	file := os.Getenv("VERIF_REDUCE")
	if file == "" {
		t.Skip()
	}
	b, _ := os.ReadFile(file)
	lines := strings.Split(string(b), "\n")
	want := compileErr(string(b))
	fmt.Println("target:", want)
	ok := func(ls []string) bool {
		s := strings.Join(ls, "\n")
		return strings.Contains(s, "\nfunc F") && typeChecks(s) && compileErr(s) == want
	}
	for chunk := len(lines) / 2; chunk >= 1; chunk /= 2 {
		for i := 0; i+chunk <= len(lines); {
			if i+chunk > len(lines) {
				break
			}
			cand := append(append([]string{}, lines[:i]...), lines[i+chunk:]...)
			if ok(cand) {
				lines = cand
			} else {
				i++
			}
		}
	}
	// brace-balanced removal: "X {" ... "}" keeping the inside
	for changed := true; changed; {
		changed = false
		for i := range lines {
			if !strings.HasSuffix(strings.TrimSpace(lines[i]), "{") {
				continue
			}
			depth := 0
			if i >= len(lines) {
				break
			}
			for j := i; j < len(lines); j++ {
				depth += strings.Count(lines[j], "{") - strings.Count(lines[j], "}")
				if depth == 0 {
					if j > i {
						cand := append(append(append([]string{}, lines[:i]...), lines[i+1:j]...), lines[j+1:]...)
						if ok(cand) {
							lines = cand
							changed = true
						}
					}
					break
				}
			}
			if changed {
				break
			}
		}
	}
	fmt.Println(strings.Join(lines, "\n"))
}

// TestReduceWitness shrinks the program of a replay file (VERIF_REDUCE_W) while
// the same call keeps disagreeing with the same signature. Development aid.
func TestReduceWitness(t *testing.T) {
	file := os.Getenv("VERIF_REDUCE_W")
	if file == "" {
		t.Skip()
	}
	b, _ := os.ReadFile(file)
	var rep struct {
		Sig     string `json:"sig"`
		Witness struct {
			Source   string    `json:"source"`
			Function string    `json:"function"`
			Args     []argSpec `json:"args"`
			Program  string    `json:"program"`
		} `json:"witness"`
	}
	if err := json.Unmarshal(b, &rep); err != nil {
		t.Fatal(err)
	}
	w := rep.Witness
	// find the function's signature in the source to learn the return type
	retOf := func(src string) (ty, bool) {
		for _, l := range strings.Split(src, "\n") {
			if strings.HasPrefix(l, "func "+w.Function+"(") {
				rt := strings.TrimSuffix(strings.TrimSpace(l[strings.LastIndex(l, ")")+1:]), " {")
				rt = strings.TrimSpace(rt)
				for k, v := range map[string]ty{"int": tInt, "bool": tBool, "string": tStr, "[]byte": tBytes, "[]int": tInts} {
					if rt == k {
						return v, true
					}
				}
			}
		}
		return 0, false
	}
	n := 0
	eval := func(src string) string {
		rt, ok := retOf(src)
		if !ok {
			return ""
		}
		n++
		p := &program{idx: 0, pkg: w.Program, src: src, reset: "package " + w.Program + "\nfunc ResetGlobals() {}\n"}
		f := &fn{name: w.Function, exported: true, rets: []ty{rt}}
		for i, a := range w.Args {
			f.params = append(f.params, &vr{name: fmt.Sprintf("a%d", i), t: a.T})
		}
		p.exported = []*fn{f}
		p.calls = []callSpec{{Fn: w.Function, Args: w.Args}}
		c := compileProg(p)
		if c.err != nil {
			return ""
		}
		md := c.m.ABI.GetMethod(lowerFirst(w.Function), len(w.Args))
		if md == nil {
			return ""
		}
		bare := runBare(c, md, w.Args, rt, "")
		dir, _ := os.MkdirTemp("", "c14red")
		defer os.RemoveAll(dir)
		nb, err := runNative(dir, []*program{p})
		if err != nil || len(nb.buildErr) > 0 || len(nb.results[0]) != 1 {
			return ""
		}
		con := bare
		if bare.fault == "" && bare.n != 1 {
			con = vmOutcome{fault: "invalid return values count"}
		}
		sig, _ := classify(nb.results[0][0], bare, con, rt)
		return sig
	}
	lines := strings.Split(w.Source, "\n")
	want := eval(w.Source)
	fmt.Println("target:", want, "(replay says", rep.Sig+")")
	if want == "" {
		t.Fatal("does not reproduce")
	}
	ok := func(ls []string) bool { return eval(strings.Join(ls, "\n")) == want }
	pass := func() bool {
		changed := false
		for chunk := len(lines) / 2; chunk >= 1; chunk /= 2 {
			for i := 0; i+chunk <= len(lines); {
				cand := append(append([]string{}, lines[:i]...), lines[i+chunk:]...)
				if typeChecksLoose(strings.Join(cand, "\n")) && ok(cand) {
					lines = cand
					changed = true
				} else {
					i++
				}
			}
		}
		for again := true; again; {
			again = false
			for i := 0; i < len(lines); i++ {
				if !strings.HasSuffix(strings.TrimSpace(lines[i]), "{") {
					continue
				}
				depth := 0
				for j := i; j < len(lines); j++ {
					depth += strings.Count(lines[j], "{") - strings.Count(lines[j], "}")
					if depth == 0 {
						if j > i {
							cand := append(append(append([]string{}, lines[:i]...), lines[i+1:j]...), lines[j+1:]...)
							if typeChecksLoose(strings.Join(cand, "\n")) && ok(cand) {
								lines = cand
								again, changed = true, true
							}
						}
						break
					}
				}
				if again {
					break
				}
			}
		}
		return changed
	}
	for pass() {
	}
	fmt.Printf("---- reduced (%d evaluations), call %s%s\n", n, w.Function, argsStr(w.Args))
	fmt.Println(strings.Join(lines, "\n"))
}

// typeChecksLoose parses only (imports of the inlined packages cannot be
// resolved by the default importer); the native build decides.
func typeChecksLoose(src string) bool {
	if !strings.Contains(src, "inline") {
		return typeChecks(src)
	}
	_, err := parser.ParseFile(token.NewFileSet(), "x.go", src, 0)
	return err == nil
}

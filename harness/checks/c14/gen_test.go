package c14

// Grammar-based generator of programs inside the dialect that pkg/compiler
// documents (docs/compiler.md). Every integer expression carries an interval;
// `% m` reductions keep every intermediate inside 61 bits, so that Go's int64
// and NeoVM's 256-bit integers cannot disagree by overflow.

import (
	"fmt"
	"regexp"
	"sort"
	"strings"

	"github.com/nspcc-dev/neo-go/verifharness/vlib/rng"
)

type ty uint8

const (
	tInt ty = iota
	tBool
	tStr
	tBytes
	tInts
	tMapII
	tMapSI
	tPtr
	tVoid // no result (procedures); never the type of a variable
)

const (
	capAdd  = int64(1) << 59 // operands of + and -
	capMul  = int64(1) << 29 // operands of *
	modBig  = int64(1000003)
	strMax  = 24 // maximal length of a string variable
	sliceMx = 12 // append is guarded by len(x) < sliceMx
)

type ivl struct{ lo, hi int64 }

func (a ivl) abs() int64 { return max(-a.lo, a.hi) }

type structT struct {
	name string
	ints []string // int fields, |v| <= fieldBound
}

// ret0 is the type of the single result of an exported function, tVoid for a
// procedure.
func (f *fn) ret0() ty {
	if len(f.rets) == 0 {
		return tVoid
	}
	return f.rets[0]
}

const fieldBound = int64(1) << 31

type vr struct {
	name   string
	t      ty
	bound  int64 // ints: |v| <= bound; tInts / maps: bound of the elements / values
	ro     bool  // never assigned by generated statements
	noApp  bool  // no append on it (parameter or being ranged over)
	minLen int   // slices: length guaranteed from the declaration on
	st     *structT
	keys   []int64  // tMapII: keys that are surely present
	skeys  []string // tMapSI: keys that are surely present
	global bool
	lvl    int
	iv     *ivl // read-only ints with a tighter interval (loop counters)
	mayNil bool // declared without a value
}

type fn struct {
	name     string
	recv     *structT
	params   []*vr
	rets     []ty
	retBound int64
	exported bool
	named    bool // results are named (and grouped when adjacent types are equal)
	unc      bool // may raise a fault NeoVM cannot catch (division by zero, shift, slice bounds)
	mayPanic bool
	impure   bool // writes globals / referents of its arguments
	recovers bool
	tainted  bool // calls, transitively, a function that recovers
	grouped  bool // adjacent parameters of one type share the type (`a, b int`)
	lambda   bool // a function literal bound to a local variable of the enclosing function
	tailProc bool // a small procedure that is little more than its last statement
	rcPanics bool // small function that panics on guardC + n*guardK and recovers
	rcWatch  bool // small function that never panics and logs what its deferred recover() sees
	guardK   int
	guardC   int
	lines    [2]int // first and last source line, filled after assembly
	file     string // the file of the package it stands in
}

func (f *fn) sig() string {
	var p []string
	for i, a := range f.params {
		if f.grouped && i+1 < len(f.params) && f.params[i+1].t == a.t && f.params[i+1].st == a.st {
			p = append(p, a.name)
			continue
		}
		p = append(p, a.name+" "+typeName(a.t, a.st))
	}
	var r []string
	for i, t := range f.rets {
		switch {
		case !f.named:
			r = append(r, typeName(t, nil))
		case i+1 < len(f.rets) && f.rets[i+1] == t:
			r = append(r, fmt.Sprintf("q%d", i)) // grouped: `q0, q1 int`
		default:
			r = append(r, fmt.Sprintf("q%d %s", i, typeName(t, nil)))
		}
	}
	rs := ""
	if len(r) == 1 && !f.named {
		rs = " " + r[0]
	} else if len(r) > 0 {
		rs = " (" + strings.Join(r, ", ") + ")"
	}
	recv := ""
	if f.recv != nil {
		recv = "(s *" + f.recv.name + ") "
	}
	return fmt.Sprintf("func %s%s(%s)%s", recv, f.name, strings.Join(p, ", "), rs)
}

func typeName(t ty, st *structT) string {
	switch t {
	case tInt:
		return "int"
	case tBool:
		return "bool"
	case tStr:
		return "string"
	case tBytes:
		return "[]byte"
	case tInts:
		return "[]int"
	case tMapII:
		return "map[int]int"
	case tMapSI:
		return "map[string]int"
	case tVoid:
		return "void"
	default:
		return "*" + st.name
	}
}

type loopCtx struct {
	label   string
	used    *bool
	isRange bool
	inSwDep int // switch nesting depth at the loop
}

type gen struct {
	r   *rng.R
	sb  strings.Builder
	ind int

	structs []*structT
	globals []*vr
	funcs   []*fn // callable, in generation order
	scope   []*vr
	nvar    int
	lvl     int

	cur       *fn
	noUnc     bool // current function (and its callees) must not raise uncatchable faults
	noPanic   bool // nothing that may panic (initialisers, init functions)
	noHeap    bool // expression leaves restricted to locals and literals (an impure call is present)
	pureOnly  bool // only pure callees (heap reads may be present in the same expression)
	noCalls   bool
	hasDefer  bool
	loops     []*loopCtx
	swDepth   int
	budget    int // statements left in the current function
	forceDecl int
	nmark     int
	inLambda  bool // the body of a function literal is being generated
	onlyLog   bool // of the package variables only glog may be mentioned
	arr       *arrInfo
	nilPtrs   []*vr  // pointers of the current function that may be nil
	names     *namer // identifiers of the program (see names_test.go)

	feat   map[string]bool
	cnt    map[string]int // occurrences of the constructs
	useInl map[string]bool
}

func (g *gen) w(f string, a ...any) {
	s := fmt.Sprintf(f, a...)
	g.sb.WriteString(strings.Repeat("\t", g.ind))
	g.sb.WriteString(s)
	g.sb.WriteString("\n")
}

func (g *gen) f(name string) {
	g.feat[name] = true
	g.cnt[name]++
}

// ---------------------------------------------------------------- intervals

func fit(code string, iv ivl, b int64) (string, ivl) {
	if iv.lo >= -b && iv.hi <= b {
		return code, iv
	}
	r := ivl{-b, b}
	if iv.lo >= 0 {
		r.lo = 0
	}
	if iv.hi <= 0 {
		r.hi = 0
	}
	r.lo = max(r.lo, iv.lo)
	r.hi = min(r.hi, iv.hi)
	return fmt.Sprintf("(%s %% %d)", code, b+1), r
}

func bits(v int64) uint {
	n := uint(0)
	for v > 0 {
		v >>= 1
		n++
	}
	return n
}

func lit(v int64) string {
	if v < 0 {
		return fmt.Sprintf("(%d)", v)
	}
	return fmt.Sprintf("%d", v)
}

// ---------------------------------------------------------------- scope

func (g *gen) push(v *vr) *vr {
	v.lvl = g.lvl
	g.scope = append(g.scope, v)
	return v
}

func (g *gen) fresh(p string) string {
	g.nvar++
	return fmt.Sprintf("%s%d", p, g.nvar)
}

// visible returns the variables usable as leaves in the current mode.
func (g *gen) visible(t ty, writable bool) []*vr {
	var r []*vr
	seen := map[string]bool{}
	for i := len(g.scope) - 1; i >= 0; i-- {
		v := g.scope[i]
		if seen[v.name] {
			continue
		}
		seen[v.name] = true
		if v.t != t || (writable && v.ro) {
			continue
		}
		if g.noHeap && v.global {
			continue
		}
		r = append(r, v)
	}
	return r
}

func (g *gen) pick(t ty, writable bool) *vr {
	c := g.visible(t, writable)
	if len(c) == 0 {
		return nil
	}
	v := c[g.r.Intn(len(c))]
	if writable && v.global && g.cur != nil {
		// writable picks are assignment targets
		g.cur.impure = true
	}
	return v
}

// ---------------------------------------------------------------- integer expressions

var intLits = []int64{0, 1, 2, 3, 5, 7, 8, 10, 16, 31, 64, 100, 255, 256, 1000, 65535, 1 << 20, 1<<31 - 1}

func (g *gen) intLit() (string, ivl) {
	var v int64
	switch g.r.Intn(4) {
	case 0:
		v = int64(g.r.Intn(41) - 20)
	case 1:
		v = intLits[g.r.Intn(len(intLits))]
		if g.r.Intn(3) == 0 {
			v = -v
		}
	default:
		v = int64(g.r.Intn(10))
	}
	return lit(v), ivl{v, v}
}

func varIvl(v *vr) ivl {
	if v.iv != nil {
		return *v.iv
	}
	return ivl{-v.bound, v.bound}
}

// safeIdx builds an index expression that is always inside [0, n) for the
// slice-like variable v with guaranteed length n >= 1.
func (g *gen) safeIdx(v *vr, d int) string {
	if g.r.Intn(3) == 0 {
		return fmt.Sprintf("%d", g.r.Intn(v.minLen))
	}
	e, _ := g.intExpr(d)
	if g.r.Bool() {
		return fmt.Sprintf("((%s%%%d + %d) %% %d)", e, v.minLen, v.minLen, v.minLen)
	}
	return fmt.Sprintf("((%s%%len(%s) + len(%s)) %% len(%s))", e, v.name, v.name, v.name)
}

func (g *gen) intAtom() (string, ivl) {
	for try := 0; try < 6; try++ {
		switch g.r.Intn(12) {
		case 0, 1:
			return g.intLit()
		case 2, 3, 4, 5:
			if v := g.pick(tInt, false); v != nil {
				return v.name, varIvl(v)
			}
		case 6:
			if g.noHeap {
				continue
			}
			if v := g.pick(tPtr, false); v != nil {
				fld := v.st.ints[g.r.Intn(len(v.st.ints))]
				g.f("field-read")
				return fmt.Sprintf("%s.%s", v.name, fld), ivl{-fieldBound, fieldBound}
			}
		case 7:
			if g.noHeap {
				continue
			}
			if v := g.pick(tInts, false); v != nil && v.minLen > 0 {
				g.f("slice-read")
				return fmt.Sprintf("%s[%s]", v.name, g.safeIdx(v, 0)), ivl{-v.bound, v.bound}
			}
		case 8:
			if g.noHeap {
				continue
			}
			if v := g.pick(tBytes, false); v != nil && v.minLen > 0 {
				g.f("bytes-read")
				return fmt.Sprintf("int(%s[%s])", v.name, g.safeIdx(v, 0)), ivl{0, 255}
			}
		case 9:
			t := []ty{tStr, tBytes, tInts, tMapII, tMapSI}[g.r.Intn(5)]
			if v := g.pick(t, false); v != nil && (!g.noHeap || t == tStr) {
				g.f("len")
				return fmt.Sprintf("len(%s)", v.name), ivl{0, 4096}
			}
		case 10:
			if g.noHeap {
				continue
			}
			if v := g.pick(tMapII, false); v != nil && len(v.keys) > 0 {
				g.f("map-read")
				return fmt.Sprintf("%s[%s]", v.name, lit(v.keys[g.r.Intn(len(v.keys))])), ivl{-v.bound, v.bound}
			}
			if v := g.pick(tMapSI, false); v != nil && len(v.skeys) > 0 {
				g.f("map-read")
				return fmt.Sprintf("%s[%q]", v.name, v.skeys[g.r.Intn(len(v.skeys))]), ivl{-v.bound, v.bound}
			}
		case 11:
			if g.noHeap {
				continue
			}
			if v := g.pick(tStr, false); v != nil && g.r.Bool() {
				// guarded read of one character through the hashing helper
				return fmt.Sprintf("hs(%s)", v.name), ivl{0, modBig}
			}
		}
	}
	return g.intLit()
}

// callable returns the functions the current context may call.
func (g *gen) callable(pred func(*fn) bool) []*fn {
	var r []*fn
	if g.noCalls {
		return nil
	}
	for _, f := range g.funcs {
		if g.noUnc && f.unc {
			continue
		}
		if g.noPanic && (f.mayPanic || f.unc) {
			continue
		}
		if g.pureOnly && f.impure {
			continue
		}
		if pred(f) {
			r = append(r, f)
		}
	}
	return r
}

// args builds the argument list of a call to f; returns "" ok=false when an
// argument cannot be built in the current scope.
func (g *gen) args(f *fn, d int) (string, bool) {
	var a []string
	for _, p := range f.params {
		switch p.t {
		case tInt:
			e, iv := g.intExpr(d)
			e, _ = fit(e, iv, p.bound)
			a = append(a, e)
		case tBool:
			a = append(a, g.boolExpr(d))
		case tStr:
			e, _ := g.strExpr(d)
			a = append(a, e)
		case tBytes:
			if v := g.pickRef(tBytes, nil); v != nil && g.r.Intn(3) > 0 {
				a = append(a, v.name)
			} else {
				a = append(a, g.bytesLit())
			}
		case tInts:
			v := g.pickRef(tInts, nil)
			if v == nil || v.minLen < p.minLen || v.bound > p.bound {
				a = append(a, g.intsLit(max(p.minLen, 1), p.bound))
			} else {
				a = append(a, v.name)
			}
		case tMapII, tMapSI:
			v := g.pickRef(p.t, nil)
			if v == nil || v.bound > p.bound {
				if p.t == tMapII {
					a = append(a, "map[int]int{}")
				} else {
					a = append(a, "map[string]int{}")
				}
			} else {
				a = append(a, v.name)
			}
		case tPtr:
			v := g.pickRef(tPtr, p.st)
			if v == nil {
				a = append(a, g.structLit(p.st))
			} else {
				a = append(a, v.name)
			}
		}
	}
	return strings.Join(a, ", "), true
}

// pickRef picks a reference-typed variable to pass to a callee. With noHeap
// (an impure call in the expression) reading a *global* variable is excluded,
// locals holding references are fine: the callee cannot rebind them.
func (g *gen) pickRef(t ty, st *structT) *vr {
	var c []*vr
	for _, v := range g.visible(t, false) {
		if t == tPtr && v.st != st {
			continue
		}
		c = append(c, v)
	}
	if len(c) == 0 {
		return nil
	}
	return c[g.r.Intn(len(c))]
}

func (g *gen) noteCall(f *fn) {
	c := g.cur
	if c == nil {
		return
	}
	c.unc = c.unc || f.unc
	c.mayPanic = c.mayPanic || f.mayPanic || f.unc
	c.impure = c.impure || f.impure
	c.tainted = c.tainted || f.tainted || f.recovers
	if f == c {
		g.f("recursion")
	}
}

// intCall returns a call expression of a function returning one int.
func (g *gen) intCall(d int) (string, ivl, bool) {
	fs := g.callable(func(f *fn) bool {
		return len(f.rets) == 1 && f.rets[0] == tInt && (!f.impure || g.noHeap) && f.recv == nil
	})
	if len(fs) == 0 {
		return "", ivl{}, false
	}
	f := fs[g.r.Intn(len(fs))]
	a, ok := g.args(f, d)
	if !ok {
		return "", ivl{}, false
	}
	g.noteCall(f)
	g.f("call-in-expr")
	return fmt.Sprintf("%s(%s)", f.name, a), ivl{-f.retBound, f.retBound}, true
}

type inlFn struct {
	pkg, name string
	params    []string // parameter names of the inlined function
	out       func(a []ivl) ivl
	shape     []int // per argument: 0 any (|v| <= 2^20), 1 small base, 2 small exponent, 3 positive modulus, 4 non-negative
}

func sumIvl(a []ivl) ivl {
	var r ivl
	for _, x := range a {
		r.lo += x.lo
		r.hi += x.hi
	}
	return r
}

func absIvl(a []ivl) ivl { return ivl{-a[0].abs(), a[0].abs()} }

// Functions the compiler inlines at the call site: the plain-Go packages of
// /repo/pkg/compiler/testdata/inline and the opcode wrappers of
// pkg/interop/math (natively replaced by equivalent Go, see native_test.go).
var inlFns = []inlFn{
	{"inl", "Sum", []string{"a", "b"}, sumIvl, nil},
	{"inl", "SumSquared", []string{"a", "b"}, func(a []ivl) ivl { m := sumIvl(a).abs(); return ivl{0, m * m} }, nil},
	{"inl", "VarSum", []string{"a", "b", "b"}, sumIvl, nil},
	{"inl", "SumVar", []string{"a", "b"}, sumIvl, nil},
	{"inl", "Concat", []string{"n"}, func(a []ivl) ivl { m := a[0].abs()*100 + 200; return ivl{-m, m} }, nil},
	{"inlc", "MulIfSmall", []string{"n"}, func(a []ivl) ivl { m := a[0].abs() * 2; return ivl{-m, m} }, nil},
	{"inlc", "Transform", []string{"a", "b"}, func(a []ivl) ivl { m := max(a[0].abs(), a[1].abs()) * 2; return ivl{-m, m} }, nil},
	{"inld", "Negate", []string{"n"}, absIvl, nil},
	{"inld", "AddNeg", []string{"a", "b"}, func(a []ivl) ivl { m := sumIvl(a).abs(); return ivl{-m, m} }, nil},
	{"inld", "Wrap2", []string{"n"}, absIvl, nil},
	{"imath", "Abs", []string{"a"}, func(a []ivl) ivl { return ivl{0, a[0].abs()} }, nil},
	{"imath", "Sign", []string{"a"}, func(a []ivl) ivl { return ivl{-1, 1} }, nil},
	{"imath", "Pow", []string{"a", "b"}, func(a []ivl) ivl { return ivl{-(1 << 21), 1 << 21} }, []int{1, 2}},
	{"imath", "Sqrt", []string{"x"}, func(a []ivl) ivl { return ivl{0, 1 << 11} }, []int{4}},
	{"imath", "ModMul", []string{"a", "b", "mod"}, func(a []ivl) ivl { return ivl{-200, 200} }, []int{0, 0, 3}},
	{"imath", "ModPow", []string{"a", "b", "mod"}, func(a []ivl) ivl { return ivl{0, 200} }, []int{4, 2, 3}},
}

// clashNames are the parameter names of the inlined functions; locals get
// these names on purpose.
var clashNames = []string{"a", "b", "n", "x", "mod"}

// shapeArg brings an argument expression into the domain of the parameter.
func shapeArg(e string, iv ivl, shape int) (string, ivl) {
	switch shape {
	case 1:
		return fit(e, iv, 8)
	case 2:
		return fmt.Sprintf("((%s%%4 + 4) %% 4)", e), ivl{0, 3}
	case 3:
		return fmt.Sprintf("(%s%%97 + 100)", e), ivl{4, 196}
	case 4:
		e, _ = fit(e, iv, 1<<20)
		return fmt.Sprintf("(%s + %d)", e, 1<<20), ivl{0, 1 << 21}
	}
	return fit(e, iv, 1<<20)
}

// clashArg builds an argument that contains a call and mentions a caller
// variable named like one of the earlier parameters of the inlined function.
func (g *gen) clashArg(earlier []string) (string, ivl, bool) {
	var cand []*vr
	for _, v := range g.visible(tInt, false) {
		for _, n := range earlier {
			if v.name == n {
				cand = append(cand, v)
			}
		}
	}
	if len(cand) == 0 || g.noCalls {
		return "", ivl{}, false
	}
	v := cand[g.r.Intn(len(cand))]
	fs := g.callable(func(f *fn) bool {
		return len(f.rets) == 1 && f.rets[0] == tInt && f.recv == nil && (!f.impure || g.noHeap) &&
			len(f.params) > 0 && f.params[0].t == tInt
	})
	if len(fs) == 0 {
		return "", ivl{}, false
	}
	f := fs[g.r.Intn(len(fs))]
	first, _ := fit(v.name, varIvl(v), f.params[0].bound)
	as := first
	if len(f.params) > 1 {
		rest, _ := g.args(&fn{params: f.params[1:]}, 0)
		as += ", " + rest
	}
	g.noteCall(f)
	g.f("inlined-helper-argument-names-a-parameter")
	return fmt.Sprintf("%s(%s)", f.name, as), ivl{-f.retBound, f.retBound}, true
}

func (g *gen) inlCall(d int) (string, ivl) {
	f := inlFns[g.r.Intn(len(inlFns))]
	var as []string
	var ivs []ivl
	// The inliner substitutes call-free argument expressions at their uses (the
	// library functions it is meant for use every argument once), so arguments
	// here must not be able to fail.
	saved := g.noPanic
	g.noPanic = true
	defer func() { g.noPanic = saved }()
	for i := range f.params {
		e, iv := g.intExpr(d)
		if i > 0 && g.r.Intn(3) > 0 {
			if ce, civ, ok := g.clashArg(f.params[:i]); ok {
				e, iv = ce, civ
			}
		} else if i == 0 && g.r.Intn(4) == 0 {
			// a call in the first argument: the parameter is stored, not aliased
			if ce, civ, ok := g.intCall(0); ok {
				e, iv = ce, civ
			}
		}
		sh := 0
		if f.shape != nil {
			sh = f.shape[i]
		}
		e, iv = shapeArg(e, iv, sh)
		as = append(as, e)
		ivs = append(ivs, iv)
	}
	g.useInl[f.pkg] = true
	g.f("inlined-helper")
	return fmt.Sprintf("%s.%s(%s)", f.pkg, f.name, strings.Join(as, ", ")), f.out(ivs)
}

func (g *gen) intExpr(d int) (string, ivl) {
	if d <= 0 {
		return g.intAtom()
	}
	for try := 0; try < 4; try++ {
		switch g.r.Intn(20) {
		case 0, 1, 2:
			a, ia := g.intExpr(d - 1)
			b, ib := g.intExpr(d - 1)
			a, ia = fit(a, ia, capAdd)
			b, ib = fit(b, ib, capAdd)
			if g.r.Bool() {
				return fmt.Sprintf("(%s + %s)", a, b), ivl{ia.lo + ib.lo, ia.hi + ib.hi}
			}
			return fmt.Sprintf("(%s - %s)", a, b), ivl{ia.lo - ib.hi, ia.hi - ib.lo}
		case 3, 4:
			a, ia := g.intExpr(d - 1)
			b, ib := g.intExpr(d - 1)
			a, ia = fit(a, ia, capMul)
			b, ib = fit(b, ib, capMul)
			m := ia.abs() * ib.abs()
			return fmt.Sprintf("(%s * %s)", a, b), ivl{-m, m}
		case 5, 6:
			// division / remainder by a divisor that cannot be zero
			a, ia := g.intExpr(d - 1)
			v, _ := g.intExpr(0)
			k := int64(2 + g.r.Intn(7))
			dv := fmt.Sprintf("(%s%%%d + %d)", v, k, k+int64(g.r.Intn(3)))
			g.f("div-safe")
			if g.r.Bool() {
				return fmt.Sprintf("(%s / %s)", a, dv), ivl{-ia.abs(), ia.abs()}
			}
			m := min(ia.abs(), 2*k+2)
			lo, hi := -m, m
			if ia.lo >= 0 {
				lo = 0
			}
			if ia.hi <= 0 {
				hi = 0
			}
			return fmt.Sprintf("(%s %% %s)", a, dv), ivl{lo, hi}
		case 7:
			// possibly-zero divisor: both sides must fail; NeoVM cannot catch it
			if g.noUnc || g.noPanic {
				continue
			}
			a, ia := g.intExpr(d - 1)
			v := g.pick(tInt, false)
			if v == nil {
				continue
			}
			g.cur.unc, g.cur.mayPanic = true, true
			g.f("div-maybe-zero")
			dv := fmt.Sprintf("(%s %% %d)", v.name, 2+g.r.Intn(4))
			if g.r.Intn(3) == 0 {
				dv = v.name
			}
			if g.r.Bool() {
				return fmt.Sprintf("(%s / %s)", a, dv), ivl{-ia.abs(), ia.abs()}
			}
			lo, hi := -ia.abs(), ia.abs()
			if ia.lo >= 0 {
				lo = 0
			}
			if ia.hi <= 0 {
				hi = 0
			}
			return fmt.Sprintf("(%s %% %s)", a, dv), ivl{lo, hi}
		case 8:
			a, ia := g.intExpr(d - 1)
			if g.r.Bool() {
				return fmt.Sprintf("(-%s)", a), ivl{-ia.hi, -ia.lo}
			}
			g.f("bitnot")
			return fmt.Sprintf("(^%s)", a), ivl{-ia.hi - 1, -ia.lo - 1}
		case 9, 10:
			a, ia := g.intExpr(d - 1)
			a, ia = fit(a, ia, 1<<20)
			k := g.r.Intn(9)
			cnt := fmt.Sprintf("%d", k)
			kmax := int64(k)
			if g.r.Intn(3) == 0 && !g.noUnc && !g.noPanic {
				if v := g.pick(tInt, false); v != nil {
					// negative counts fail on both sides (uncatchable in NeoVM)
					cnt = fmt.Sprintf("(%s %% 8)", v.name)
					kmax = 7
					// an untyped constant as the left operand of a non-constant shift
					// would take its type from the context
					a = "int(" + a + ")"
					g.cur.unc, g.cur.mayPanic = true, true
					g.f("shift-var-count")
				}
			}
			if g.r.Bool() {
				g.f("shl")
				return fmt.Sprintf("(%s << %s)", a, cnt), ivl{ia.lo << kmax, ia.hi << kmax}
			}
			g.f("shr")
			return fmt.Sprintf("(%s >> %s)", a, cnt), ivl{min(ia.lo, -1), max(ia.hi, 0)}
		case 11:
			a, ia := g.intExpr(d - 1)
			b, ib := g.intExpr(d - 1)
			a, ia = fit(a, ia, 1<<40)
			b, ib = fit(b, ib, 1<<40)
			k := max(bits(ia.abs()), bits(ib.abs())) + 1
			op := []string{"&", "|", "^"}[g.r.Intn(3)]
			g.f("bitop")
			return fmt.Sprintf("(%s %s %s)", a, op, b), ivl{-(int64(1) << k), int64(1) << k}
		case 12, 13:
			if e, iv, ok := g.intCall(d - 1); ok {
				return e, iv
			}
		case 14:
			if g.noHeap {
				continue
			}
			// pointer-receiver method returning int is impure: only as a statement
			continue
		case 15:
			if g.noCalls {
				continue
			}
			return g.inlCall(d - 1)
		case 16:
			a, ia := g.intExpr(d - 1)
			b, ib := g.intExpr(d - 1)
			g.f("minmax")
			if g.r.Bool() {
				return fmt.Sprintf("min(%s, %s)", a, b), ivl{min(ia.lo, ib.lo), min(ia.hi, ib.hi)}
			}
			return fmt.Sprintf("max(%s, %s)", a, b), ivl{max(ia.lo, ib.lo), max(ia.hi, ib.hi)}
		case 17:
			// possibly out-of-range index: a catchable failure on both sides
			if g.noPanic || g.noHeap {
				continue
			}
			t := []ty{tInts, tBytes}[g.r.Intn(2)]
			v := g.pick(t, false)
			if v == nil || v.mayNil {
				continue
			}
			iv := g.pick(tInt, false)
			if iv == nil {
				continue
			}
			g.cur.mayPanic = true
			g.f("index-maybe-out-of-range")
			idx := fmt.Sprintf("(%s %% %d)", iv.name, v.minLen+2)
			if t == tBytes {
				return fmt.Sprintf("int(%s[%s])", v.name, idx), ivl{0, 255}
			}
			return fmt.Sprintf("%s[%s]", v.name, idx), ivl{-v.bound, v.bound}
		default:
			return g.intAtom()
		}
	}
	return g.intAtom()
}

// ---------------------------------------------------------------- booleans, strings, bytes

func (g *gen) boolExpr(d int) string {
	if g.cur != nil && g.r.Intn(6) == 0 {
		if e, ok := g.guardedMix(d); ok {
			return e
		}
	}
	if d <= 0 {
		if v := g.pick(tBool, false); v != nil && g.r.Bool() {
			return v.name
		}
		a, _ := g.intExpr(0)
		b, _ := g.intExpr(0)
		return fmt.Sprintf("%s %s %s", a, []string{"<", "<=", "==", "!=", ">", ">="}[g.r.Intn(6)], b)
	}
	switch g.r.Intn(10) {
	case 0, 1, 2, 3:
		a, _ := g.intExpr(d - 1)
		b, _ := g.intExpr(d - 1)
		return fmt.Sprintf("%s %s %s", a, []string{"<", "<=", "==", "!=", ">", ">="}[g.r.Intn(6)], b)
	case 4:
		g.f("land")
		return fmt.Sprintf("(%s && %s)", g.boolExpr(d-1), g.boolExpr(d-1))
	case 5:
		g.f("lor")
		return fmt.Sprintf("(%s || %s)", g.boolExpr(d-1), g.boolExpr(d-1))
	case 6:
		return fmt.Sprintf("!(%s)", g.boolExpr(d-1))
	case 7:
		if !g.noCalls && g.r.Intn(3) == 0 {
			saved := g.noPanic
			g.noPanic = true
			x, ix := g.intExpr(d - 1)
			y, iy := g.intExpr(d - 1)
			z, iz := g.intExpr(d - 1)
			if g.r.Bool() {
				if ce, civ, ok := g.clashArg([]string{"x", "a"}); ok {
					z, iz = ce, civ
				}
			}
			g.noPanic = saved
			x, _ = fit(x, ix, 1<<20)
			y, _ = fit(y, iy, 1<<20)
			z, _ = fit(z, iz, 1<<20)
			g.f("inlined-helper")
			if g.r.Bool() {
				return fmt.Sprintf("imath.Within(%s, %s, %s)", x, y, z)
			}
			return fmt.Sprintf("iutil.Equals(%s, %s)", y, z)
		}
		a, _ := g.strExpr(d - 1)
		b, _ := g.strExpr(d - 1)
		g.f("string-compare")
		return fmt.Sprintf("%s %s %s", a, []string{"==", "!="}[g.r.Intn(2)], b)
	case 8:
		fs := g.callable(func(f *fn) bool {
			return len(f.rets) == 1 && f.rets[0] == tBool && (!f.impure || g.noHeap) && f.recv == nil
		})
		if len(fs) > 0 {
			f := fs[g.r.Intn(len(fs))]
			if a, ok := g.args(f, d-1); ok {
				g.noteCall(f)
				return fmt.Sprintf("%s(%s)", f.name, a)
			}
		}
		fallthrough
	default:
		if v := g.pick(tBool, false); v != nil {
			if g.r.Bool() {
				a := g.pick(tBool, false)
				return fmt.Sprintf("%s %s %s", v.name, []string{"==", "!="}[g.r.Intn(2)], a.name)
			}
			return v.name
		}
		return []string{"true", "false"}[g.r.Intn(2)]
	}
}

var strLits = []string{"", "a", "b", "ab", "neo", "go", "key", "x1", "hello", "Zz", "0", " "}

// strExpr returns a string expression and a bound of its length. Results of
// `+` go through norm (a re-slice inside a function), see the directed cases
// "string-concatenation-result-is-not-a-string-item" and "slice-of-constant-string".
func (g *gen) strExpr(d int) (string, int) {
	for try := 0; try < 4; try++ {
		switch g.r.Intn(8) {
		case 0, 1:
			s := strLits[g.r.Intn(len(strLits))]
			return fmt.Sprintf("%q", s), len(s)
		case 2, 3, 4:
			if v := g.pick(tStr, false); v != nil {
				return v.name, strMax
			}
		case 5:
			if d <= 0 {
				continue
			}
			a, la := g.strExpr(d - 1)
			b, lb := g.strExpr(d - 1)
			if la+lb > 2*strMax {
				continue
			}
			g.f("string-concat")
			return fmt.Sprintf("norm(%s + %s)", a, b), la + lb
		case 6:
			if g.noHeap {
				continue
			}
			if v := g.pick(tBytes, false); v != nil {
				g.f("bytes-to-string")
				return fmt.Sprintf("string(%s)", v.name), 64
			}
		case 7:
			// clipped prefix / suffix that cannot fail
			if v := g.pick(tStr, false); v != nil {
				g.f("string-slice")
				k := g.r.Intn(4)
				if g.r.Bool() {
					return fmt.Sprintf("%s[min(%d, len(%s)):]", v.name, k, v.name), strMax
				}
				return fmt.Sprintf("%s[:min(%d, len(%s))]", v.name, k, v.name), k
			}
		}
	}
	s := strLits[g.r.Intn(len(strLits))]
	return fmt.Sprintf("%q", s), len(s)
}

// clip fits a string expression into a variable.
func clip(e string, l int) string {
	if l <= strMax {
		return e
	}
	return fmt.Sprintf("clip(%s)", e)
}

func (g *gen) bytesLit() string {
	n := g.r.Intn(5)
	var b []string
	for range n {
		b = append(b, fmt.Sprintf("%d", g.r.Intn(128)))
	}
	return "[]byte{" + strings.Join(b, ", ") + "}"
}

func (g *gen) intsLit(minLen int, bound int64) string {
	n := minLen + g.r.Intn(4)
	var b []string
	for range n {
		v := int64(g.r.Intn(21) - 10)
		if g.r.Intn(4) == 0 {
			v = intLits[g.r.Intn(len(intLits))] % (bound + 1)
		}
		b = append(b, fmt.Sprintf("%d", v))
	}
	return "[]int{" + strings.Join(b, ", ") + "}"
}

func (g *gen) structLit(st *structT) string {
	var f []string
	for _, n := range st.ints {
		if g.r.Bool() {
			f = append(f, fmt.Sprintf("%s: %d", n, g.r.Intn(200)-100))
		}
	}
	if g.r.Bool() {
		f = append(f, fmt.Sprintf("T: %q", strLits[g.r.Intn(len(strLits))]))
	}
	return "&" + st.name + "{" + strings.Join(f, ", ") + "}"
}

// ---------------------------------------------------------------- statements

func (g *gen) block(n, depth int) {
	g.lvl++
	sv := len(g.scope)
	g.ind++
	for i := 0; i < n && (i == 0 || g.budget > 0); i++ {
		g.stmt(depth)
	}
	g.ind--
	g.scope = g.scope[:sv]
	g.lvl--
}

// exprMode chooses, for one statement, between "heap reads + pure callees" and
// "any callee + leaves that no callee can change" (Go leaves the order of a
// variable read relative to a call in the same expression unspecified).
func (g *gen) exprMode() func() {
	oh, op := g.noHeap, g.pureOnly
	if oh || op {
		return func() {}
	}
	if g.r.Intn(3) == 0 {
		g.noHeap = true
	} else {
		g.pureOnly = true
	}
	return func() { g.noHeap, g.pureOnly = oh, op }
}

var intBounds = []int64{100, modBig - 1, 1 << 31, 1 << 40}

func (g *gen) declLocal(depth int) {
	restore := g.exprMode()
	defer restore()
	name := g.fresh("v")
	if g.cur != nil && g.cur.name != "pure0" && g.r.Intn(4) == 0 {
		// names of parameters of inlined functions
		n := clashNames[g.r.Intn(len(clashNames))]
		free := true
		for _, v := range g.scope {
			free = free && v.name != n
		}
		if free {
			name = n
		}
	}
	shadows := false
	// deliberate shadowing of an outer integer (with `:=` only, see the directed
	// case "shadowing-var-declaration-reads-outer-variable")
	if g.lvl > 1 && g.r.Intn(5) == 0 {
		for _, v := range g.visible(tInt, true) {
			if v.lvl < g.lvl && !v.global && !v.ro && v.name != "acc" {
				name = v.name
				shadows = true
				g.f("shadowing")
				break
			}
		}
		for _, v := range g.scope {
			if v.name == name && v.lvl == g.lvl {
				name = g.fresh("v")
				shadows = false
			}
		}
	}
	kind := g.r.Intn(15)
	if g.forceDecl > 0 {
		kind = g.forceDecl
		g.forceDecl = 0
	}
	if kind == 14 {
		// two-value map read: the key may be absent
		m := g.pick(tMapII, false)
		if m == nil || g.noHeap {
			kind = 0
		} else {
			k, _ := g.intExpr(1)
			ok := g.fresh("ok")
			g.f("map-comma-ok")
			g.w("%s, %s := %s[%s %% 8]", name, ok, m.name, k)
			g.w("_, _ = %s, %s", name, ok)
			g.push(&vr{name: name, t: tInt, bound: m.bound})
			g.push(&vr{name: ok, t: tBool})
			return
		}
	}
	switch kind {
	case 0, 1, 2, 3, 4:
		b := intBounds[g.r.Intn(len(intBounds))]
		e, iv := g.intExpr(2)
		e, _ = fit(e, iv, b)
		if g.r.Intn(4) == 0 && !shadows {
			g.w("var %s int = %s", name, e)
		} else {
			g.w("%s := %s", name, e)
		}
		g.w("_ = %s", name)
		g.push(&vr{name: name, t: tInt, bound: b})
	case 5, 6:
		if g.r.Intn(4) == 0 {
			g.w("var %s bool", name)
		} else {
			g.w("%s := %s", name, g.boolExpr(2))
		}
		g.w("_ = %s", name)
		g.push(&vr{name: name, t: tBool})
	case 7, 8:
		if g.r.Intn(5) == 0 {
			g.w("var %s string", name)
		} else {
			e, l := g.strExpr(2)
			g.w("%s := %s", name, clip(e, l))
		}
		g.w("_ = %s", name)
		g.push(&vr{name: name, t: tStr})
	case 9:
		n := 0
		isNil := false
		switch g.r.Intn(4) {
		case 0:
			n = 1 + g.r.Intn(4)
			g.w("%s := make([]byte, %d)", name, n)
			g.f("make-bytes")
		case 1:
			// nil byte slices: see the directed case "nil-slice-operations"
			g.w("%s := []byte{}", name)
		case 2:
			if s := g.pick(tStr, false); s != nil {
				g.w("%s := []byte(%s)", name, s.name)
				g.f("string-to-bytes")
				break
			}
			fallthrough
		default:
			l := g.bytesLit()
			n = strings.Count(l, ",")
			if l != "[]byte{}" {
				n++
			}
			g.w("%s := %s", name, l)
		}
		g.w("_ = %s", name)
		g.push(&vr{name: name, t: tBytes, minLen: n, mayNil: isNil})
	case 10, 11:
		b := intBounds[g.r.Intn(len(intBounds))]
		n := 0
		isNil := false
		switch g.r.Intn(4) {
		case 0:
			n = 1 + g.r.Intn(4)
			g.w("%s := make([]int, %d)", name, n)
			g.f("make-ints")
		case 1:
			g.w("var %s []int", name)
			g.f("nil-slice")
			isNil = true
		default:
			l := g.intsLit(1, b)
			n = strings.Count(l, ",") + 1
			g.w("%s := %s", name, l)
		}
		g.w("_ = %s", name)
		g.push(&vr{name: name, t: tInts, bound: b, minLen: n, mayNil: isNil})
	case 12:
		b := intBounds[g.r.Intn(len(intBounds))]
		if g.r.Bool() {
			var ks []int64
			var kv []string
			for k := range 1 + g.r.Intn(3) {
				ks = append(ks, int64(k))
				kv = append(kv, fmt.Sprintf("%d: %d", k, g.r.Intn(100)))
			}
			if g.r.Intn(4) == 0 {
				g.w("%s := make(map[int]int)", name)
				ks = nil
			} else {
				g.w("%s := map[int]int{%s}", name, strings.Join(kv, ", "))
			}
			g.w("_ = %s", name)
			g.push(&vr{name: name, t: tMapII, bound: b, keys: ks})
		} else {
			sk := []string{"k0", "k1"}
			g.w("%s := map[string]int{\"k0\": %d, \"k1\": %d}", name, g.r.Intn(100), g.r.Intn(100))
			g.w("_ = %s", name)
			g.push(&vr{name: name, t: tMapSI, bound: b, skeys: sk})
		}
		g.f("map")
	default:
		if len(g.structs) == 0 {
			g.w("%s := %d", name, g.r.Intn(10))
			g.w("_ = %s", name)
			g.push(&vr{name: name, t: tInt, bound: 100})
			return
		}
		st := g.structs[g.r.Intn(len(g.structs))]
		g.w("%s := %s", name, g.structLit(st))
		g.w("_ = %s", name)
		g.push(&vr{name: name, t: tPtr, st: st})
		g.f("struct-pointer")
	}
}

func (g *gen) assign(depth int) {
	restore := g.exprMode()
	defer restore()
	has := func(t ty) bool { return len(g.visible(t, false)) > 0 }
	var cand []int
	for _, c := range []int{0, 1, 2, 3, 4, 5, 6, 14} {
		cand = append(cand, c)
	}
	if has(tBool) {
		cand = append(cand, 7)
	}
	if has(tStr) {
		cand = append(cand, 8, 8)
	}
	if !g.noHeap {
		if has(tInts) {
			cand = append(cand, 9, 9, 13, 13)
		}
		if has(tBytes) {
			cand = append(cand, 10, 10, 13, 15)
		}
		if has(tMapII) || has(tMapSI) {
			cand = append(cand, 11, 11, 15)
		}
		if has(tPtr) {
			cand = append(cand, 12, 12, 16, 16)
		}
	}
	switch cand[g.r.Intn(len(cand))] {
	case 16:
		g.methodCall()
	case 0, 1, 2, 3:
		v := g.pick(tInt, true)
		if v == nil {
			return
		}
		e, iv := g.intExpr(2)
		e, _ = fit(e, iv, v.bound)
		g.w("%s = %s", v.name, e)
	case 4, 5:
		v := g.pick(tInt, true)
		if v == nil {
			return
		}
		e, iv := g.intExpr(1)
		op := []string{"+=", "-=", "*=", "|=", "&=", "<<=", ">>=", "%=", "/="}[g.r.Intn(9)]
		g.f("compound-assign")
		switch op {
		case "+=", "-=":
			e, _ = fit(e, iv, capAdd)
		case "*=":
			if v.bound > capMul {
				op = "+="
				e, _ = fit(e, iv, capAdd)
			} else {
				e, _ = fit(e, iv, capMul)
			}
		case "|=", "&=":
			e, _ = fit(e, iv, v.bound)
		case "<<=":
			if v.bound > 1<<40 {
				op = ">>="
			}
			e = fmt.Sprintf("%d", g.r.Intn(6))
		case ">>=":
			e = fmt.Sprintf("%d", g.r.Intn(6))
		case "%=", "/=":
			x, _ := g.intExpr(0)
			e = fmt.Sprintf("(%s%%5 + 7)", x)
		}
		g.w("%s %s %s", v.name, op, e)
		if op != ">>=" && op != "%=" && op != "/=" {
			g.w("%s %%= %d", v.name, v.bound+1)
		}
	case 6:
		v := g.pick(tInt, true)
		if v == nil {
			return
		}
		g.f("incdec")
		g.w("%s%s", v.name, []string{"++", "--"}[g.r.Intn(2)])
		g.w("%s %%= %d", v.name, v.bound+1)
	case 7:
		if v := g.pick(tBool, true); v != nil {
			g.w("%s = %s", v.name, g.boolExpr(2))
		}
	case 8:
		if v := g.pick(tStr, true); v != nil {
			e, l := g.strExpr(2)
			g.w("%s = %s", v.name, clip(e, l))
		}
	case 9:
		if g.noHeap {
			return
		}
		if v := g.pick(tInts, false); v != nil && v.minLen > 0 {
			e, iv := g.intExpr(2)
			e, _ = fit(e, iv, v.bound)
			g.f("slice-store")
			g.markImpure(v)
			g.w("%s[%s] = %s", v.name, g.safeIdx(v, 1), e)
		}
	case 10:
		if g.noHeap {
			return
		}
		if v := g.pick(tBytes, false); v != nil && v.minLen > 0 && !v.ro {
			e, iv := g.intExpr(1)
			e, _ = fit(e, iv, 1<<30)
			g.f("bytes-store")
			g.markImpure(v)
			g.w("%s[%s] = byte((%s%%64 + 64) %% 128)", v.name, g.safeIdx(v, 1), e)
		}
	case 11:
		if g.noHeap {
			return
		}
		if v := g.pick(tMapII, false); v != nil {
			k, _ := g.intExpr(1)
			e, iv := g.intExpr(1)
			e, _ = fit(e, iv, v.bound)
			g.f("map-store")
			g.markImpure(v)
			g.w("%s[%s %% 6] = %s", v.name, k, e)
		} else if v := g.pick(tMapSI, false); v != nil {
			// keys are literals or unmodified string values (see the directed
			// case "string-concatenation-result-is-not-a-string-item")
			e, iv := g.intExpr(1)
			e, _ = fit(e, iv, v.bound)
			g.f("map-store")
			g.markImpure(v)
			g.w("%s[%q] = %s", v.name, strLits[1+g.r.Intn(len(strLits)-1)], e)
		}
	case 12:
		if g.noHeap {
			return
		}
		if v := g.pick(tPtr, false); v != nil {
			g.markImpure(v)
			g.f("field-store")
			switch g.r.Intn(4) {
			case 0:
				g.w("%s.F = %s", v.name, g.boolExpr(1))
			case 1:
				e, l := g.strExpr(1)
				g.w("%s.T = %s", v.name, clip(e, l))
			default:
				e, iv := g.intExpr(2)
				e, _ = fit(e, iv, fieldBound)
				fld := v.st.ints[g.r.Intn(len(v.st.ints))]
				if g.r.Intn(3) == 0 {
					e2, iv2 := g.intExpr(1)
					e2, _ = fit(e2, iv2, capAdd)
					g.w("%s.%s += %s", v.name, fld, e2)
					g.w("%s.%s %%= %d", v.name, fld, fieldBound+1)
				} else {
					g.w("%s.%s = %s", v.name, fld, e)
				}
			}
		}
	case 13:
		// append, guarded so that lengths stay small
		t := []ty{tInts, tBytes}[g.r.Intn(2)]
		v := g.pick(t, false)
		if v == nil || v.noApp || v.ro || v.global || g.noHeap {
			return
		}
		g.f("append")
		g.markImpure(v)
		if t == tInts {
			e, iv := g.intExpr(1)
			e, _ = fit(e, iv, v.bound)
			if g.r.Intn(3) == 0 {
				// several elements: the operands must not read the slice, see the
				// directed case "append-of-several-elements-reading-the-slice"
				g.noHeap = true
				e, iv = g.intExpr(1)
				e, _ = fit(e, iv, v.bound)
				e2, iv2 := g.intExpr(0)
				e2, _ = fit(e2, iv2, v.bound)
				g.noHeap = false
				e += ", " + e2
			}
			g.w("if len(%s) < %d {", v.name, sliceMx)
			g.w("\t%s = append(%s, %s)", v.name, v.name, e)
			g.w("}")
		} else {
			g.w("if len(%s) < %d {", v.name, sliceMx)
			if o := g.pick(tBytes, false); o != nil && g.r.Intn(3) == 0 {
				g.w("\t%s = append(%s, %s...)", v.name, v.name, o.name)
				g.f("append-spread")
			} else {
				e, iv := g.intExpr(1)
				e, _ = fit(e, iv, 1<<30)
				g.w("\t%s = append(%s, byte((%s%%64 + 64) %% 128))", v.name, v.name, e)
			}
			g.w("}")
		}
	case 14:
		// swap / tuple assignment of locals
		a, b := g.pick(tInt, true), g.pick(tInt, true)
		if a == nil || a == b || a.name == b.name {
			return
		}
		g.f("tuple-assign")
		bb := min(a.bound, b.bound)
		g.w("%s, %s = %s %% %d, %s %% %d", a.name, b.name, b.name, bb+1, a.name, bb+1)
	case 15:
		if g.noHeap {
			return
		}
		if v := g.pick(tMapII, false); v != nil {
			k, _ := g.intExpr(1)
			g.f("map-delete")
			g.markImpure(v)
			g.w("delete(%s, (%s %% 4) + 100)", v.name, k)
			if g.r.Bool() {
				g.w("%s[(%s %% 4) + 100] = %d", v.name, k, g.r.Intn(50))
			}
		} else if d, s := g.pick(tBytes, false), g.pick(tBytes, false); d != nil && s != nil && !d.ro && !d.mayNil && !s.mayNil {
			// copy with a nil operand: see the directed case "nil-slice-operations"
			n := g.fresh("n")
			g.f("copy")
			g.markImpure(d)
			g.w("%s := copy(%s, %s)", n, d.name, s.name)
			g.w("_ = %s", n)
			g.push(&vr{name: n, t: tInt, bound: 4096, ro: true, iv: &ivl{0, 4096}})
		}
	}
}

// markImpure records that the current function changed something a caller can
// observe through v (a global or a reference parameter).
func (g *gen) markImpure(v *vr) {
	if g.cur != nil && (v.global || v.noApp || v.t == tPtr && (v.ro || v.name == "s")) {
		g.cur.impure = true
	}
	if g.cur != nil && v.global {
		g.cur.impure = true
	}
}

func (g *gen) cond(depth int) string {
	return g.boolExpr(1 + g.r.Intn(2))
}

func (g *gen) ifStmt(depth int) {
	restore := g.exprMode()
	c := g.cond(depth)
	if g.r.Intn(5) == 0 {
		n := g.fresh("t")
		e, iv := g.intExpr(1)
		e, _ = fit(e, iv, 1<<31)
		c = fmt.Sprintf("%s := %s; %s > %d", n, e, n, g.r.Intn(20)-10)
		g.f("if-init")
	}
	restore()
	g.w("if %s {", c)
	g.block(1+g.r.Intn(3), depth-1)
	switch g.r.Intn(4) {
	case 0:
		restore := g.exprMode()
		c2 := g.cond(depth)
		restore()
		g.w("} else if %s {", c2)
		g.block(1+g.r.Intn(2), depth-1)
		if g.r.Bool() {
			g.w("} else {")
			g.block(1+g.r.Intn(2), depth-1)
		}
		g.f("else-if")
	case 1:
		g.w("} else {")
		g.block(1+g.r.Intn(2), depth-1)
	}
	g.w("}")
}

func (g *gen) pushLoop(isRange bool) *loopCtx {
	u := false
	l := &loopCtx{label: g.fresh("L"), used: &u, isRange: isRange, inSwDep: g.swDepth}
	g.loops = append(g.loops, l)
	return l
}

// loop emits header (with a place for the label), body and footer.
func (g *gen) loop(depth int) {
	kind := g.r.Intn(10)
	var hdr string
	var bodyVars []*vr
	isRange := false
	var ranged *vr
	oldNoApp := false
	restore := g.exprMode()
	switch kind {
	case 0, 1, 2:
		i := g.fresh("i")
		n := int64(1 + g.r.Intn(5))
		hdr = fmt.Sprintf("for %s := 0; %s < %d; %s++ {", i, i, n, i)
		bodyVars = append(bodyVars, &vr{name: i, t: tInt, bound: n, ro: true, iv: &ivl{0, n}})
		g.f("for-3clause")
	case 3:
		i := g.fresh("i")
		n := int64(1 + g.r.Intn(5))
		hdr = fmt.Sprintf("for %s := %d; %s > 0; %s -= %d {", i, n, i, i, 1+g.r.Intn(2))
		bodyVars = append(bodyVars, &vr{name: i, t: tInt, bound: n, ro: true, iv: &ivl{-1, n}})
		g.f("for-3clause")
	case 4:
		// condition-only loop with an explicit fuel counter
		k := g.fresh("k")
		g.w("%s := 0", k)
		hdr = fmt.Sprintf("for %s < %d && %s {", k, 2+g.r.Intn(4), g.boolExpr(1))
		bodyVars = append(bodyVars, &vr{name: k, t: tInt, bound: 8, ro: true, iv: &ivl{0, 8}})
		g.f("for-cond")
	case 5, 6:
		isRange = true
		i, x := g.fresh("i"), g.fresh("x")
		if v := g.pick(tInts, false); v != nil && !g.noHeap && g.r.Intn(3) > 0 {
			ranged = v
			hdr = fmt.Sprintf("for %s, %s := range %s {", i, x, v.name)
			bodyVars = append(bodyVars, &vr{name: x, t: tInt, bound: v.bound, ro: true})
		} else {
			b := int64(100)
			hdr = fmt.Sprintf("for %s, %s := range %s {", i, x, g.intsLit(1, b))
			bodyVars = append(bodyVars, &vr{name: x, t: tInt, bound: b, ro: true})
		}
		bodyVars = append(bodyVars, &vr{name: i, t: tInt, bound: 64, ro: true, iv: &ivl{0, 64}})
		switch g.r.Intn(4) {
		case 0:
			hdr = strings.Replace(hdr, i+", "+x, "_, "+x, 1)
			bodyVars = bodyVars[:1]
		case 1:
			hdr = strings.Replace(hdr, i+", "+x, i, 1)
			bodyVars = bodyVars[1:]
		}
		g.f("range-slice")
	case 7:
		isRange = true
		i, x := g.fresh("i"), g.fresh("c")
		if g.r.Bool() {
			s, _ := g.strExpr(0)
			hdr = fmt.Sprintf("for %s, %s := range %s {", i, x, s)
			g.f("range-string")
		} else if v := g.pick(tBytes, false); v != nil && !g.noHeap {
			ranged = v
			hdr = fmt.Sprintf("for %s, %s := range %s {", i, x, v.name)
			g.f("range-bytes")
		} else {
			hdr = fmt.Sprintf("for %s, %s := range %s {", i, x, g.bytesLit())
			g.f("range-bytes")
		}
		g.w("// ranged characters are ASCII by construction")
		bodyVars = append(bodyVars, &vr{name: i, t: tInt, bound: 64, ro: true, iv: &ivl{0, 64}})
		y := g.fresh("y")
		bodyVars = append(bodyVars, &vr{name: y, t: tInt, bound: 255, ro: true, iv: &ivl{0, 255}})
		hdr += fmt.Sprintf("\n%s\t%s := int(%s)\n%s\t_ = %s", strings.Repeat("\t", g.ind), y, x, strings.Repeat("\t", g.ind), y)
	case 8:
		isRange = true
		i := g.fresh("i")
		n := int64(1 + g.r.Intn(4))
		if g.r.Bool() {
			hdr = fmt.Sprintf("for %s := range %d {", i, n)
			bodyVars = append(bodyVars, &vr{name: i, t: tInt, bound: n, ro: true, iv: &ivl{0, n}})
		} else {
			hdr = fmt.Sprintf("for range %d {", n)
		}
		g.f("range-int")
	default:
		// commutative fold over a map: the only use of map iteration
		restore()
		g.mapFold()
		return
	}
	restore()
	l := g.pushLoop(isRange)
	if ranged != nil {
		oldNoApp = ranged.noApp
		ranged.noApp = true
	}
	// body is generated into a side buffer so that the label is emitted only when used
	saved := g.sb
	g.sb = strings.Builder{}
	g.w("%s", hdr)
	g.lvl++
	sv := len(g.scope)
	for _, v := range bodyVars {
		g.push(v)
	}
	g.lvl--
	g.ind++
	if kind == 4 {
		g.w("%s++", bodyVars[0].name)
	} else if kind >= 5 {
		for _, v := range bodyVars {
			if v.name[0] != 'y' {
				g.w("_ = %s", v.name)
			}
		}
	}
	g.ind--
	g.block(1+g.r.Intn(3), depth-1)
	g.scope = g.scope[:sv]
	g.w("}")
	body := g.sb.String()
	g.sb = saved
	if *l.used {
		g.sb.WriteString(strings.Repeat("\t", g.ind) + l.label + ":\n")
		g.f("label")
	}
	g.sb.WriteString(body)
	g.loops = g.loops[:len(g.loops)-1]
	if ranged != nil {
		ranged.noApp = oldNoApp
	}
}

func (g *gen) mapFold() {
	v := g.pick(tMapII, false)
	if v == nil || g.noHeap {
		g.assign(0)
		return
	}
	a := g.pick(tInt, true)
	if a == nil {
		return
	}
	g.f("range-map")
	t := g.fresh("m")
	k, x := g.fresh("k"), g.fresh("x")
	g.w("%s := 0", t)
	switch g.r.Intn(3) {
	case 0:
		g.w("for %s, %s := range %s {", k, x, v.name)
		g.w("\t%s += (%s%%1000)*3 + %s%%100000", t, k, x)
	case 1:
		g.w("for %s := range %s {", k, v.name)
		g.w("\t%s += %s %% 1000", t, k)
	default:
		g.w("for _, %s := range %s {", x, v.name)
		g.w("\tif %s%%2 == 0 {", x)
		g.w("\t\tcontinue")
		g.w("\t}")
		g.w("\t%s += %s %% 100000", t, x)
	}
	g.w("}")
	g.w("%s = (%s%%%d + %s) %% %d", a.name, a.name, min(a.bound, 1<<40)+1, t, a.bound+1)
}

func (g *gen) switchStmt(depth int) {
	restore := g.exprMode()
	var cases []string
	kind := g.r.Intn(5)
	switch kind {
	case 0, 1:
		e, _ := g.intExpr(1)
		hdr := fmt.Sprintf("switch %s %% 4 {", e)
		if g.r.Intn(4) == 0 {
			n := g.fresh("t")
			hdr = fmt.Sprintf("switch %s := %s %% 5; %s {", n, e, n)
			g.f("switch-init")
		}
		g.w("%s", hdr)
		cases = []string{"case 0:", "case 1, -1:", "case 2, 3, -3:", "default:"}
		g.f("switch-tag")
	case 2:
		g.w("switch {")
		cases = []string{"case " + g.nonConstBool() + ":", "case " + g.nonConstBool() + ":", "default:"}
		g.f("switch-tagless")
	case 3:
		s, _ := g.strExpr(0)
		g.w("switch %s {", s)
		cases = []string{`case "a", "ab":`, `case "neo":`, `case "":`, "default:"}
		g.f("switch-string")
	default:
		if g.noHeap || len(g.visible(tInts, false)) == 0 {
			e, _ := g.intExpr(0)
			g.w("switch %s %% 2 {", e)
		} else {
			v := g.pick(tInts, false)
			if v.minLen == 0 {
				g.w("switch len(%s) {", v.name)
			} else {
				g.w("switch %s[%s] %% 3 {", v.name, g.safeIdx(v, 0))
			}
		}
		cases = []string{"case 0:", "case 1:", "default:"}
		g.f("switch-tag")
	}
	restore()
	g.r.Shuffle(len(cases), func(i, j int) { cases[i], cases[j] = cases[j], cases[i] })
	cases = cases[:2+g.r.Intn(len(cases)-1)]
	if kind == 2 {
		// cases that are not constants are evaluated in order: `default` goes
		// last, see the directed case "switch-with-early-default-reorders-clauses"
		for i, c := range cases {
			if c == "default:" {
				cases = append(append(cases[:i:i], cases[i+1:]...), c)
				break
			}
		}
	}
	// fallthrough only when `default` is the last clause or absent: see the
	// directed case "switch-with-early-default-reorders-clauses"
	ft := true
	for i, c := range cases {
		if c == "default:" && i != len(cases)-1 {
			ft = false
		}
	}
	g.swDepth++
	for i, c := range cases {
		g.w("%s", c)
		g.block(1+g.r.Intn(3), depth-1)
		if ft && i < len(cases)-1 && g.r.Intn(4) == 0 {
			g.w("\tfallthrough")
			g.f("fallthrough")
		}
	}
	g.swDepth--
	g.w("}")
}

func (g *gen) branch() {
	if len(g.loops) == 0 {
		if g.swDepth > 0 {
			restore := g.exprMode()
			c := g.cond(1)
			restore()
			g.w("if %s {", c)
			g.w("\tbreak")
			g.w("}")
			g.f("break-inside-switch")
			g.mark()
		}
		return
	}
	defer g.mark()
	restore := g.exprMode()
	c := g.cond(1)
	restore()
	in := g.loops[len(g.loops)-1]
	tgt := g.loops[g.r.Intn(len(g.loops))]
	kw := []string{"break", "continue"}[g.r.Intn(2)]
	if g.swDepth > in.inSwDep {
		g.f(kw + "-inside-switch")
	}
	if tgt != in || g.r.Intn(4) == 0 {
		*tgt.used = true
		g.w("if %s {", c)
		g.w("\t%s %s", kw, tgt.label)
		g.w("}")
		g.f("labeled-" + kw)
		return
	}
	g.w("if %s {", c)
	g.w("\t%s", kw)
	g.w("}")
	g.f(kw)
}

// callStmt emits calls whose results are bound by a statement of their own:
// multi-value functions, methods, impure helpers.
func (g *gen) callStmt(depth int) {
	on, op := g.noHeap, g.pureOnly
	g.noHeap, g.pureOnly = true, false
	defer func() { g.noHeap, g.pureOnly = on, op }()
	fs := g.callable(func(f *fn) bool { return true })
	if len(fs) == 0 {
		return
	}
	f := fs[g.r.Intn(len(fs))]
	// prefer functions that are not plain int helpers
	for range 3 {
		if len(f.rets) == 1 && f.recv == nil && !f.impure {
			f = fs[g.r.Intn(len(fs))]
		}
	}
	// procedures are reachable through call statements only
	if procs := g.callable(func(f *fn) bool { return len(f.rets) == 0 && f.name != "note" }); len(procs) > 0 && g.r.Intn(3) == 0 {
		f = procs[g.r.Intn(len(procs))]
		g.f("procedure-call")
		if len(g.loops) > 0 {
			g.f("procedure-call-in-loop")
		}
	}
	a, ok := g.args(f, 1)
	if !ok {
		return
	}
	call := fmt.Sprintf("%s(%s)", f.name, a)
	if f.recv != nil {
		var p *vr
		for _, v := range g.visible(tPtr, false) {
			if v.st == f.recv {
				p = v
			}
		}
		if p == nil {
			return
		}
		call = p.name + "." + call
		g.markImpure(p)
		g.f("method-call")
	}
	g.noteCall(f)
	if len(f.rets) == 0 {
		g.w("%s", call)
		return
	}
	if len(f.rets) > 1 {
		g.f("multi-return")
	}
	if g.r.Intn(3) == 0 {
		// expression statement: every result is discarded
		g.f("call-discarding-results")
		g.w("%s", call)
		return
	}
	var lhs []string
	var nv []*vr
	for _, t := range f.rets {
		if g.r.Intn(5) == 0 {
			lhs = append(lhs, "_")
			continue
		}
		n := g.fresh("r")
		lhs = append(lhs, n)
		nv = append(nv, &vr{name: n, t: t, bound: f.retBound})
	}
	op2 := ":="
	if len(nv) == 0 {
		op2 = "="
	}
	g.w("%s %s %s", strings.Join(lhs, ", "), op2, call)
	for _, v := range nv {
		g.w("_ = %s", v.name)
		g.push(v)
	}
}

// methodCall calls a method of a visible struct pointer.
func (g *gen) methodCall() {
	on, op := g.noHeap, g.pureOnly
	g.noHeap, g.pureOnly = true, false
	defer func() { g.noHeap, g.pureOnly = on, op }()
	for _, p := range g.visible(tPtr, false) {
		fs := g.callable(func(f *fn) bool { return f.recv == p.st })
		if len(fs) == 0 {
			continue
		}
		f := fs[g.r.Intn(len(fs))]
		a, _ := g.args(f, 1)
		g.markImpure(p)
		g.noteCall(f)
		g.f("method-call")
		if len(f.rets) == 0 {
			g.w("%s.%s(%s)", p.name, f.name, a)
			return
		}
		n := g.fresh("r")
		g.w("%s := %s.%s(%s)", n, p.name, f.name, a)
		g.w("_ = %s", n)
		g.push(&vr{name: n, t: f.rets[0], bound: f.retBound})
		return
	}
}

func (g *gen) panicStmt() {
	if g.noPanic {
		return
	}
	restore := g.exprMode()
	e, _ := g.intExpr(1)
	c := fmt.Sprintf("%s%%%d == %d", e, 3+g.r.Intn(5), g.r.Intn(3))
	restore()
	g.cur.mayPanic = true
	g.f("explicit-panic")
	g.w("if %s {", c)
	g.w("\tpanic(%q)", []string{"boom", "p1", "bad state"}[g.r.Intn(3)])
	g.w("}")
}

func (g *gen) earlyReturn() {
	if g.cur == nil || len(g.cur.rets) == 0 && g.r.Bool() {
		return
	}
	restore := g.exprMode()
	c := g.cond(1)
	g.w("if %s {", c)
	g.ind++
	g.ret(true)
	g.ind--
	g.w("}")
	restore()
	g.f("early-return")
}

// ret emits a return statement of the current function.
func (g *gen) ret(early bool) {
	f := g.cur
	if len(f.rets) == 0 {
		// the only effect of a procedure: its accumulator goes into the log
		g.sink()
		g.w("return")
		return
	}
	var vals []string
	for _, t := range f.rets {
		switch t {
		case tInt:
			if g.hasDefer {
				// no failing expression in the return statement of a function with defer
				a := g.pick(tInt, false)
				for _, v := range g.visible(tInt, false) {
					if v.name == "acc" {
						a = v
					}
				}
				if a.bound > f.retBound || a.global {
					vals = append(vals, fmt.Sprintf("%s %% %d", a.name, f.retBound+1))
				} else {
					vals = append(vals, a.name)
				}
				continue
			}
			e, iv := g.intExpr(1)
			e, _ = fit(e, iv, capAdd)
			acc := "acc"
			e = fmt.Sprintf("(%s + %s)", acc, e)
			e, _ = fit(e, ivl{-capAdd * 2, capAdd * 2}, f.retBound)
			vals = append(vals, e)
		case tBool:
			if g.hasDefer || early {
				vals = append(vals, "acc%2 == 0")
			} else {
				vals = append(vals, fmt.Sprintf("(acc%%2 == 0) != (%s)", g.boolExpr(1)))
			}
		case tStr:
			if !early && len(f.rets) == 1 {
				g.w("if acc%%3 == 0 {")
				g.w("\treturn %q", strLits[1+g.r.Intn(len(strLits)-1)])
				g.w("}")
			}
			if v := g.pick(tStr, false); v != nil && (g.hasDefer || g.r.Bool()) {
				vals = append(vals, v.name)
			} else if g.hasDefer {
				vals = append(vals, `"d"`)
			} else {
				e, l := g.strExpr(1)
				vals = append(vals, clip(e, l))
			}
		case tBytes:
			if v := g.pick(tBytes, false); v != nil && !v.global && g.r.Bool() {
				vals = append(vals, v.name)
			} else {
				vals = append(vals, "[]byte{byte((acc%128 + 128) % 128), byte((acc/128%128 + 128) % 128), 7}")
			}
		case tInts:
			if v := g.pick(tInts, false); v != nil && !v.global && g.r.Bool() {
				vals = append(vals, v.name)
			} else if w := g.pick(tInt, false); w != nil && !w.global {
				vals = append(vals, fmt.Sprintf("[]int{acc, %s, %d}", w.name, g.r.Intn(100)))
			} else {
				vals = append(vals, "[]int{acc}")
			}
		}
	}
	if f.named && !early && g.r.Bool() {
		for i, v := range vals {
			g.w("q%d = %s", i, v)
		}
		g.w("return")
		return
	}
	g.w("return %s", strings.Join(vals, ", "))
}

// shadowSiblings declares, in the first branch of a compound statement, a
// variable named like an outer one, and reads / writes the outer variable in
// the later branches; a loop around it takes different branches on successive
// iterations.
func (g *gen) shadowSiblings(depth int) {
	var cand []*vr
	for _, v := range g.visible(tInt, false) {
		if !v.global && v.iv == nil {
			cand = append(cand, v)
		}
	}
	if len(cand) == 0 {
		return
	}
	v := cand[g.r.Intn(len(cand))]
	g.f("shadowing-in-sibling-branch")
	i := g.fresh("i")
	n := 3 + g.r.Intn(2)
	if g.r.Bool() {
		g.w("for %s := 0; %s < %d; %s++ {", i, i, n, i)
	} else {
		g.w("for %s := range %d {", i, n)
	}
	g.ind++
	g.w("_ = %s", i)
	shadow := func() {
		restore := g.exprMode()
		e, iv := g.intExpr(1)
		e, _ = fit(e, iv, v.bound)
		restore()
		g.w("%s := %s", v.name, e)
		g.w("acc = (acc*31 + %s%%%d) %% %d", v.name, modBig, modBig)
		if depth > 1 && g.r.Intn(3) == 0 {
			g.lvl++
			sv := len(g.scope)
			g.push(&vr{name: v.name, t: tInt, bound: v.bound})
			g.stmt(depth - 2)
			g.scope = g.scope[:sv]
			g.lvl--
		}
	}
	use := func() {
		g.w("acc = (acc*31 + %s%%%d) %% %d", v.name, modBig, modBig)
		if !v.ro && v.name != "acc" && g.r.Bool() {
			g.w("%s = (%s%%%d + %s + 1) %% %d", v.name, v.name, min(v.bound, 1<<40)+1, i, v.bound+1)
		}
		g.mark()
	}
	sel := fmt.Sprintf("(%s + %d) %% %d", i, g.r.Intn(3), 3)
	switch g.r.Intn(5) {
	case 0:
		g.w("switch %s {", sel)
		g.w("case 0:")
		g.ind++
		shadow()
		g.ind--
		g.w("case 1:")
		g.ind++
		use()
		g.ind--
		g.w("default:")
		g.ind++
		use()
		g.ind--
		g.w("}")
	case 1:
		g.w("switch {")
		g.w("case %s == 0:", sel)
		g.ind++
		shadow()
		g.ind--
		g.w("case %s == 1:", sel)
		g.ind++
		use()
		g.ind--
		g.w("default:")
		g.ind++
		use()
		g.ind--
		g.w("}")
	case 2:
		g.w("if %s == 0 {", sel)
		g.ind++
		shadow()
		g.ind--
		g.w("} else if %s == 1 {", sel)
		g.ind++
		use()
		g.ind--
		g.w("} else {")
		g.ind++
		use()
		g.ind--
		g.w("}")
	case 3:
		g.w("{")
		g.ind++
		shadow()
		g.ind--
		g.w("}")
		use()
	default:
		j := g.fresh("j")
		g.w("for %s := 0; %s < 2; %s++ {", j, j, j)
		g.ind++
		shadow()
		g.ind--
		g.w("}")
		use()
	}
	use()
	g.ind--
	g.w("}")
}

// mark makes reaching this point visible in the result.
func (g *gen) mark() {
	g.nmark++
	g.w("acc = (acc*31 + %d) %% %d", 100+g.nmark, modBig)
}

// afterNested follows a compound statement by a jump out of the enclosing
// construct (and a mark): the target of a break / continue must be the one in
// force before the nested statement.
func (g *gen) afterNested() {
	if (len(g.loops) > 0 || g.swDepth > 0) && g.r.Intn(2) == 0 {
		g.f("branch-after-nested-statement")
		g.branch()
	}
}

// nest emits loop { switch { case: inner loop; break / continue; mark }; mark }
// with every kind of inner loop.
func (g *gen) nest(depth int) {
	i := g.fresh("i")
	n := 2 + g.r.Intn(3)
	g.f("loop-switch-loop-branch")
	switch g.r.Intn(3) {
	case 0:
		g.w("for %s := 0; %s < %d; %s++ {", i, i, n, i)
	case 1:
		g.w("for %s := range %d {", i, n)
	default:
		g.w("for %s := range %s {", i, g.intsLit(n, 100))
	}
	// the loop is not registered as a labelled target: statements nested in the
	// cases use plain break / continue or labels of outer loops
	g.ind++
	g.w("_ = %s", i)
	tagless := g.r.Bool()
	if tagless {
		g.w("switch {")
	} else {
		g.w("switch (acc + %s) %% 3 {", i)
	}
	g.swDepth++
	nc := 2 + g.r.Intn(2)
	dflt := g.r.Bool()
	for ci := range nc {
		switch {
		case ci == nc-1 && dflt: // `default` last only, see "switch-with-early-default-reorders-clauses"
			g.w("default:")
		case tagless:
			g.w("case (acc+%s)%%3 == %d:", i, ci)
		default:
			g.w("case %d:", ci)
		}
		g.ind++
		j := g.fresh("j")
		switch g.r.Intn(5) {
		case 0:
			g.w("for %s := 0; %s < %d; %s++ {", j, j, 1+g.r.Intn(3), j)
		case 1:
			g.w("for _, %s := range %s {", j, g.intsLit(1, 100))
		case 2:
			g.w("for %s := range %d {", j, 1+g.r.Intn(3))
		case 3:
			g.w("for %s := range %q {", j, strLits[1+g.r.Intn(len(strLits)-1)])
		default:
			g.w("for %s := range map[int]int{1: 2, 3: 4} {", j)
		}
		g.w("\tacc = (acc + %s%%7 + 1) %% %d", j, modBig)
		g.w("}")
		kw := []string{"break", "continue"}[g.r.Intn(2)]
		g.w("if acc%%%d == %d {", 2+g.r.Intn(2), g.r.Intn(2))
		g.w("\t%s", kw)
		g.w("}")
		g.mark()
		if depth > 1 && g.r.Intn(3) == 0 {
			g.lvl++
			sv := len(g.scope)
			g.stmt(depth - 2)
			g.scope = g.scope[:sv]
			g.lvl--
		}
		g.ind--
	}
	g.swDepth--
	g.w("}")
	g.mark()
	g.ind--
	g.w("}")
}

func (g *gen) stmt(depth int) {
	g.budget--
	x := g.r.Intn(100)
	switch {
	case x < 14:
		g.declLocal(depth)
	case x < 38:
		g.assign(depth)
	case x < 40 && depth > 0:
		if g.r.Bool() {
			g.nest(depth)
		} else {
			g.shadowSiblings(depth)
		}
	case x < 52 && depth > 0:
		g.ifStmt(depth)
		g.afterNested()
	case x < 64 && depth > 0:
		g.loop(depth)
		g.afterNested()
	case x < 72 && depth > 0:
		g.switchStmt(depth)
		g.afterNested()
	case x < 80:
		g.branch()
	case x < 88:
		g.callStmt(depth)
	case x < 89:
		g.guardStmt()
	case x < 91:
		g.panicStmt()
	case x < 94:
		g.earlyReturn()
	case x < 95 && depth > 0:
		g.lambdaStmt(depth)
	case x < 96 && depth > 0:
		g.arrayStmt()
	case x < 97 && depth > 0:
		g.w("{")
		g.block(1+g.r.Intn(2), depth-1)
		g.w("}")
		g.f("block")
	case x < 98:
		g.litStmt()
	default:
		// fold something into the accumulator so that state shows in the result
		g.fold()
	}
}

// fold mixes one visible value into acc.
func (g *gen) fold() {
	var acc *vr
	for _, v := range g.visible(tInt, true) {
		if v.name == "acc" {
			acc = v
		}
	}
	if acc == nil {
		return
	}
	restore := g.exprMode()
	defer restore()
	g.noHeap = false
	g.pureOnly = true
	ts := []ty{tInt, tBool, tStr, tBytes, tInts, tMapII, tMapSI, tPtr}
	t := ts[g.r.Intn(len(ts))]
	v := g.pick(t, false)
	if v == nil {
		return
	}
	g.foldVar(acc, v)
}

func (g *gen) foldVar(acc, v *vr) {
	m := acc.bound + 1
	switch v.t {
	case tInt:
		if v == acc {
			return
		}
		g.w("acc = (acc*31 + %s%%%d) %% %d", v.name, modBig, m)
	case tBool:
		g.w("if %s {", v.name)
		g.w("\tacc = (acc*31 + 7) %% %d", m)
		g.w("}")
	case tStr:
		g.w("acc = (acc*31 + hs(%s)) %% %d", v.name, m)
	case tBytes:
		g.w("acc = (acc*31 + hb(%s)) %% %d", v.name, m)
	case tInts:
		g.w("acc = (acc*31 + hi(%s)) %% %d", v.name, m)
	case tMapII:
		g.w("acc = (acc*31 + hm(%s)) %% %d", v.name, m)
	case tMapSI:
		g.w("acc = (acc*31 + hn(%s)) %% %d", v.name, m)
	case tPtr:
		for _, f := range v.st.ints {
			g.w("acc = (acc*31 + %s.%s%%%d) %% %d", v.name, f, modBig, m)
		}
		g.w("if %s.F {", v.name)
		g.w("\tacc = (acc + 1) %% %d", m)
		g.w("}")
		g.w("acc = (acc*31 + hs(%s.T)) %% %d", v.name, m)
	}
}

// ---------------------------------------------------------------- functions

const prelude = `
func norm(s string) string {
	return s[0:]
}

func clip(s string) string {
	if len(s) > 24 {
		return s[:24]
	}
	return s
}

func bi(b bool) int {
	if b {
		return 1
	}
	return 0
}

func hs(s string) int {
	h := len(s)
	for i := 0; i < len(s); i++ {
		h = (h*33 + int(s[i])) % 1000003
	}
	return h
}

func hb(b []byte) int {
	h := len(b)
	for _, c := range b {
		h = (h*37 + int(c)) % 1000003
	}
	return h
}

func hi(a []int) int {
	h := len(a)
	for i := range a {
		h = (h*41 + a[i]%1000003) % 1000003
	}
	return h
}

func hm(m map[int]int) int {
	h := len(m)
	for k, v := range m {
		h += (k%1000)*7 + v%100000
	}
	return h % 1000003
}

func hn(m map[string]int) int {
	h := len(m)
	for k, v := range m {
		h += len(k)*7 + v%100000
	}
	return h % 1000003
}
`

func preludeFns() []*fn {
	mk := func(name string, pt ty, rt ty) *fn {
		return &fn{name: name, params: []*vr{{name: "x", t: pt, bound: 1 << 40}}, rets: []ty{rt}, retBound: modBig}
	}
	return []*fn{{name: "bi", params: []*vr{{name: "b", t: tBool}}, rets: []ty{tInt}, retBound: 1}, mk("hs", tStr, tInt), mk("hb", tBytes, tInt), mk("hi", tInts, tInt), mk("hm", tMapII, tInt), mk("hn", tMapSI, tInt)}
}

type fnPlan struct {
	f         *fn
	recursive bool
	peer      string // mutual recursion partner
	recovers  bool
	deferKind int
	stmts     int
	depth     int
	noUnc     bool   // the body must not raise uncatchable faults (lambda of a recovering function)
	hdr, ftr  string // function literals: first and last line instead of the declaration's
	onlyLog   bool   // of the package variables only glog is in scope
	callProcs bool   // call the small tail procedures first, on several arguments
	guard     bool   // recovering function: always with the panic guard on the first parameter
	watch     bool   // the deferred function reports a non-nil recover() through the log
}

// genFunc writes one function. Layout: parameters, `acc`, optional defer,
// statements, final folds of every visible local, return.
func (g *gen) genFunc(p fnPlan) {
	f := p.f
	g.cur = f
	g.nvar = 0
	g.scope = g.scope[:0]
	g.lvl = 0
	for _, v := range g.globals {
		if p.onlyLog && v.name != "glog" {
			continue
		}
		g.scope = append(g.scope, v)
	}
	g.lvl = 1
	g.hasDefer = p.deferKind > 0
	g.nilPtrs = nil
	g.onlyLog = p.onlyLog
	g.noUnc = p.recovers || p.noUnc
	// a defer without recover must not see a panic pass: see the directed case
	// "defer-without-recover-lets-panic-through"
	savedNoPanic := g.noPanic
	g.noPanic = g.noPanic || p.deferKind >= 3
	defer func() { g.noPanic = savedNoPanic }()
	f.recovers = p.recovers
	g.loops = nil
	g.budget = p.stmts
	if len(f.rets) == 0 {
		f.impure = true // procedures write the log
	}
	if p.hdr != "" {
		g.w("%s", p.hdr)
	} else {
		g.w("%s {", f.sig())
	}
	g.ind++
	if f.recv != nil {
		g.push(&vr{name: "s", t: tPtr, st: f.recv, ro: true})
	}
	for _, a := range f.params {
		if a.name == "_" {
			continue
		}
		c := *a
		c.lvl = 1
		if c.t == tBytes || c.t == tInts {
			c.noApp = true
		}
		if c.t == tBytes {
			// a contract receives byte-array arguments as immutable strings, and
			// helpers may be handed such a value
			c.ro = true
		}
		g.scope = append(g.scope, &c)
	}
	if f.named {
		for i, t := range f.rets {
			g.push(&vr{name: fmt.Sprintf("q%d", i), t: t, bound: f.retBound})
		}
		g.f("named-results")
	}
	accB := modBig - 1
	{
		restore := g.exprMode()
		e, iv := g.intExpr(1)
		e, _ = fit(e, iv, accB)
		g.w("acc := %s", e)
		g.w("_ = acc")
		restore()
	}
	g.push(&vr{name: "acc", t: tInt, bound: accB})
	if !g.noCalls && g.r.Bool() {
		for _, n := range clashNames[:2+g.r.Intn(3)] {
			restore := g.exprMode()
			e, iv := g.intExpr(1)
			e, _ = fit(e, iv, 1<<31)
			restore()
			g.w("%s := %s", n, e)
			g.w("_ = %s", n)
			g.push(&vr{name: n, t: tInt, bound: 1 << 31})
		}
	}
	if !g.noCalls {
		// a few composite locals up front so that later statements have something to work on
		for _, k := range []int{7, 9, 10, 12, 13} {
			if g.r.Intn(5) < 2 {
				g.forceDecl = k
				g.declLocal(0)
			}
		}
	}
	g.nilPtrDecls()
	switch p.deferKind {
	case 1:
		// lambda touching globals only (closures are outside the dialect)
		g.f("defer-recover")
		gv := g.pickGlobalInt()
		g.w("defer func() {")
		g.w("\tif r := recover(); r != nil {")
		if gv != nil && g.r.Bool() && !p.watch {
			g.w("\t\t%s = (%s + %d) %% %d", gv.name, gv.name, 1+g.r.Intn(9), gv.bound+1)
		} else {
			g.w("\t\tnote(%d)", 1+g.r.Intn(8))
		}
		f.impure = true
		if g.r.Bool() {
			// a second recover returns nil
			g.w("\t\tif r2 := recover(); r2 != nil {")
			g.w("\t\t\tnote(9)")
			g.w("\t\t}")
		}
		g.w("\t}")
		g.w("}()")
	case 2:
		g.f("defer-recover")
		g.w("defer func() {")
		g.w("\trecover()")
		g.w("}()")
	case 3:
		g.f("defer-call")
		g.w("defer note(%d)", 1+g.r.Intn(8))
		f.impure = true
	case 4:
		// several deferred calls, one of them conditional; no panic passes (see
		// the directed case "recovered-panic-in-function-with-two-defers")
		g.f("defer-call")
		g.f("defer-several")
		g.w("defer note(%d)", 1+g.r.Intn(8))
		restore := g.exprMode()
		c := g.cond(1)
		restore()
		g.w("if %s {", c)
		g.w("\tdefer note(%d)", 1+g.r.Intn(8))
		g.w("}")
		if g.r.Bool() {
			g.w("defer note(%d)", 1+g.r.Intn(8))
		}
		f.impure = true
	}
	if p.recovers && len(f.params) > 0 && f.params[0].t == tInt && !g.noPanic && (p.guard || g.r.Bool()) {
		// a panic at statement level, recovered in this very frame
		g.f("explicit-panic")
		f.mayPanic = true
		f.guardK, f.guardC = 3+g.r.Intn(4), g.r.Intn(3)
		g.w("if %s%%%d == %d {", f.params[0].name, f.guardK, f.guardC)
		g.w("\tpanic(\"guard\")")
		g.w("}")
	}
	if p.recursive {
		// bounded descent on the first parameter
		n := f.params[0].name
		g.w("if %s <= 0 {", n)
		g.ind++
		g.ret(true)
		g.ind--
		g.w("}")
	}
	if p.callProcs {
		g.callTailProcs()
		g.callRecoverPair()
		if g.r.Bool() {
			g.arrayStmt()
		}
		if g.r.Bool() {
			g.guardStmt()
		}
		if g.r.Intn(3) == 0 {
			g.litStmt()
		}
	}
	for g.budget > 0 {
		g.stmt(p.depth)
	}
	if p.recursive {
		callee := f.name
		if p.peer != "" {
			callee = p.peer
		}
		var as []string
		for i, a := range f.params {
			if i == 0 {
				as = append(as, fmt.Sprintf("%s-1", a.name))
				continue
			}
			on, op := g.noHeap, g.pureOnly
			g.noHeap = true
			e, iv := g.intExpr(1)
			g.noHeap, g.pureOnly = on, op
			e, _ = fit(e, iv, a.bound)
			as = append(as, e)
		}
		g.f("recursion")
		r := g.fresh("r")
		g.w("%s := %s(%s)", r, callee, strings.Join(as, ", "))
		g.w("acc = (acc*31 + %s) %% %d", r, accB+1)
	}
	// make the whole local state observable
	var acc *vr
	seen := map[string]bool{}
	for i := len(g.scope) - 1; i >= 0; i-- {
		v := g.scope[i]
		if v.name == "acc" {
			acc = v
		}
	}
	for i := len(g.scope) - 1; i >= 0; i-- {
		v := g.scope[i]
		if seen[v.name] || v.lvl != 1 && !v.global {
			continue
		}
		seen[v.name] = true
		if v.global && v.name != "glog" && g.r.Intn(3) > 0 {
			continue
		}
		g.foldVar(acc, v)
	}
	g.tail()
	g.ind--
	if p.hdr != "" {
		g.w("%s", p.ftr)
	} else {
		g.w("}")
		g.w("")
	}
	g.cur = nil
}

func (g *gen) pickGlobalInt() *vr {
	var c []*vr
	for _, v := range g.globals {
		if v.t == tInt && !v.ro {
			c = append(c, v)
		}
	}
	if len(c) == 0 {
		return nil
	}
	return c[g.r.Intn(len(c))]
}

// ---------------------------------------------------------------- program

type argSpec struct {
	T ty     `json:"t"`
	I int64  `json:"i,omitempty"`
	B bool   `json:"b,omitempty"`
	S string `json:"s,omitempty"` // string / bytes (raw)
}

type callSpec struct {
	Fn   string    `json:"fn"`
	Args []argSpec `json:"args"`
	// "deploy" / "update": _deploy(nil, false / true) runs first, in the same VM
	// (natively: RunDeploy before the call)
	Pre string `json:"pre,omitempty"`
}

type program struct {
	idx      int
	pkg      string
	src      string
	reset    string // native-only file with ResetGlobals
	funcs    []*fn  // all functions, methods included
	exported []*fn
	calls    []callSpec
	feat     []string
	cnt      map[string]int
	globals  []string // names of the package variables (nil: not recorded)
	hasInit  bool
	directed string // name of the directed case, "" for generated programs

	// see layout_test.go
	files      []srcFile // the package as files (nil: the single file src)
	aux        *auxPkg   // a package of its own that the program imports
	dirCompile bool      // compiled from a directory, not from a source text
	deploy     bool      // the program has a _deploy function
	layout     string
	reset2     string // second native-only file: ResetAll, RunDeploy
	resetFn    string // native function restoring the initial package state ("": ResetGlobals)
	regress    bool   // directed program inside the dialect: judged like a generated one
}

var intArgs = []int64{0, 1, -1, 2, 3, 7, -20, 64, 13, 1000, 999, -1000, 1<<31 - 1, -(1 << 31), 255, 256, 42}

func genArgs(r *rng.R, f *fn) []argSpec {
	var a []argSpec
	for _, p := range f.params {
		switch p.t {
		case tInt:
			v := intArgs[r.Intn(len(intArgs))]
			if r.Intn(4) == 0 {
				v = int64(r.Intn(1<<20)) - 1<<19
			}
			a = append(a, argSpec{T: tInt, I: v})
		case tBool:
			a = append(a, argSpec{T: tBool, B: r.Bool()})
		case tStr:
			s := strLits[r.Intn(len(strLits))]
			if r.Intn(3) == 0 {
				b := make([]byte, r.Intn(13))
				for i := range b {
					b[i] = byte(32 + r.Intn(95))
				}
				s = string(b)
			}
			a = append(a, argSpec{T: tStr, S: s})
		case tBytes:
			b := make([]byte, r.Intn(7))
			for i := range b {
				b[i] = byte(r.Intn(128))
			}
			a = append(a, argSpec{T: tBytes, S: string(b)})
		}
	}
	return a
}

// genProgram builds program number idx from its own PRNG stream.
func genProgram(idx int, tuples int) *program {
	r := rng.New(uint64(idx) + 14_000_000)
	g := &gen{r: r, feat: map[string]bool{}, cnt: map[string]int{}, useInl: map[string]bool{}, names: newNamer(idx)}
	nm := g.names
	pkg := fmt.Sprintf("p%d", idx)
	p := &program{idx: idx, pkg: pkg}

	// ---- declarations (types, globals) into the body buffer
	if r.Intn(4) > 0 {
		st := &structT{name: nm.name(poolType, "S", 40), ints: []string{"A", "B"}}
		if nm.r.Intn(100) < 40 {
			st.ints = poolFields[nm.r.Intn(len(poolFields))]
		}
		g.structs = append(g.structs, st)
		g.w("type %s struct {", st.name)
		g.w("\t%s int", st.ints[0])
		g.w("\t%s int", st.ints[1])
		g.w("\tF bool")
		g.w("\tT string")
		g.w("}")
		g.w("")
	}
	g.funcs = append(g.funcs, preludeFns()...)
	// a pure, non-failing helper usable in initialisers
	var resetLines []string
	resetFuncs := "" // native-only declarations used by ResetGlobals
	g.noPanic = true
	g.noCalls = true
	pure := &fn{name: "pure0", params: []*vr{{name: "a", t: tInt, bound: 1 << 31}, {name: "b", t: tInt, bound: 1 << 31}}, rets: []ty{tInt}, retBound: modBig - 1}
	// pure0 sees no package state: it runs inside initialisers
	pureBuf := func() string {
		saved := g.sb
		g.sb = strings.Builder{}
		g.genFunc(fnPlan{f: pure, stmts: 2 + r.Intn(3), depth: 1})
		out := g.sb.String()
		g.sb = saved
		return out
	}()
	pure.impure = false
	g.funcs = append(g.funcs, pure)
	g.noCalls = false
	ng := 2 + r.Intn(4)
	for i := range ng {
		name := nm.name(poolGlobal, fmt.Sprintf("g%d", i), 35)
		b := intBounds[1+r.Intn(len(intBounds)-1)]
		g.scope = g.scope[:0]
		g.scope = append(g.scope, g.globals...)
		g.pureOnly = true
		e, iv := g.intExpr(1)
		e, _ = fit(e, iv, b)
		if i > 0 && r.Intn(3) == 0 {
			x, ivx := g.intExpr(0)
			x, _ = fit(x, ivx, 1<<31)
			e = fmt.Sprintf("pure0(%s, %d)", x, r.Intn(100))
			g.f("global-init-call")
		}
		g.pureOnly = false
		g.w("var %s = %s", name, e)
		resetLines = append(resetLines, fmt.Sprintf("%s = %s", name, e))
		g.globals = append(g.globals, &vr{name: name, t: tInt, bound: b, global: true})
	}
	g.w("var glog = 0")
	resetLines = append(resetLines, "glog = 0")
	if r.Bool() {
		l := g.intsLit(2, 1000)
		g.w("var gs = %s", l)
		resetLines = append(resetLines, "gs = "+l)
		g.globals = append(g.globals, &vr{name: "gs", t: tInts, bound: modBig - 1, global: true, minLen: 2})
		g.f("global-slice")
	}
	if r.Bool() {
		l := "map[int]int{0: 3, 1: 4, 2: 5}"
		g.w("var gm = %s", l)
		resetLines = append(resetLines, "gm = "+l)
		g.globals = append(g.globals, &vr{name: "gm", t: tMapII, bound: modBig - 1, global: true, keys: []int64{0, 1, 2}})
		g.f("global-map")
	}
	if len(g.structs) > 0 && r.Bool() {
		l := g.structLit(g.structs[0])
		g.w("var gp = %s", l)
		resetLines = append(resetLines, "gp = "+l)
		g.globals = append(g.globals, &vr{name: "gp", t: tPtr, st: g.structs[0], global: true, ro: true})
		g.f("global-struct")
	}
	if r.Bool() {
		g.w("var gstr = %q", strLits[r.Intn(len(strLits))])
		resetLines = append(resetLines, fmt.Sprintf("gstr = %q", strLits[0]))
		resetLines[len(resetLines)-1] = strings.Replace(g.lastLine(), "var ", "", 1)
		g.globals = append(g.globals, &vr{name: "gstr", t: tStr, global: true})
	}
	g.w("")
	if r.Intn(4) > 0 {
		g.arrayDecls(&resetLines)
	}
	g.w("func note(d int) {")
	g.w("\tglog = (glog*10 + d) %% 1000003")
	g.w("}")
	g.w("")
	g.globals = append(g.globals, &vr{name: "glog", t: tInt, bound: modBig - 1, global: true, ro: true})
	g.sb.WriteString(pureBuf)
	if g.arr != nil {
		p.funcs = append(p.funcs, g.arrayFuncs()...)
	}
	noteFn := &fn{name: "note", params: []*vr{{name: "d", t: tInt, bound: 9}}, impure: true}

	// init functions
	// one init function at most: see the directed case "two-init-functions"
	for range r.Intn(2) {
		p.hasInit = true
		g.f("init-func")
		k := len(resetLines)
		name := fmt.Sprintf("init%d", k)
		if r.Bool() {
			// the body written into init itself (its return statements leave
			// _initialize); the native side re-runs a copy of it
			g.f("init-func-with-body")
			saved := g.sb
			g.sb = strings.Builder{}
			g.genFunc(fnPlan{f: &fn{name: "init"}, stmts: 2 + r.Intn(3), depth: 1, hdr: "func init() {", ftr: "}\n"})
			body := g.sb.String()
			g.sb = saved
			g.sb.WriteString(body)
			resetFuncs += strings.Replace(body, "func init() {", "func "+name+"() {", 1)
			resetLines = append(resetLines, name+"()")
			continue
		}
		g.cur = &fn{name: name}
		g.w("func init() {")
		g.w("\t%s()", name)
		g.w("}")
		g.w("")
		f := &fn{name: name}
		g.genFunc(fnPlan{f: f, stmts: 2 + r.Intn(3), depth: 1})
		resetLines = append(resetLines, name+"()")
	}
	g.noPanic = false
	g.funcs = append(g.funcs, noteFn)

	// ---- methods
	if len(g.structs) > 0 {
		for i := range 1 + r.Intn(2) {
			f := &fn{name: nm.name(poolMethod, fmt.Sprintf("m%d", i), 40), recv: g.structs[0], retBound: modBig - 1, rets: []ty{tInt},
				params: []*vr{{name: nm.params(1)[0], t: tInt, bound: 1 << 31}}}
			if r.Intn(3) == 0 {
				f.rets = nil
				g.f("procedure")
			}
			g.genFunc(fnPlan{f: f, stmts: 2 + r.Intn(4), depth: 1})
			f.impure = true
			g.funcs = append(g.funcs, f)
			p.funcs = append(p.funcs, f)
		}
	}
	// ---- helpers
	nh := 2 + r.Intn(4)
	for i := 0; i < nh; i++ {
		f := &fn{name: nm.name(poolHelper, fmt.Sprintf("h%d", i), 45), retBound: modBig - 1, grouped: r.Intn(3) == 0}
		plan := fnPlan{f: f, stmts: 3 + r.Intn(6), depth: 2}
		np := 1 + r.Intn(3)
		pn := nm.params(np)
		for j := range np {
			t := tInt
			if j > 0 {
				t = []ty{tInt, tInt, tBool, tStr, tBytes, tInts, tMapII, tPtr}[r.Intn(8)]
			}
			if t == tPtr && len(g.structs) == 0 {
				t = tInt
			}
			v := &vr{name: pn[j], t: t, bound: 1 << 31}
			if t == tInts {
				v.minLen = 1
				v.bound = modBig - 1
			}
			if t == tMapII {
				v.bound = modBig - 1
			}
			if t == tPtr {
				v.st = g.structs[0]
				v.ro = true
			}
			f.params = append(f.params, v)
		}
		if r.Intn(6) == 0 {
			// a blank parameter: passed, counted, never read
			f.params = append(f.params, &vr{name: "_", t: tInt, bound: 1 << 31})
			g.f("blank-parameter")
		}
		switch r.Intn(14) {
		case 8:
			f.rets = []ty{tInt, tInt}
		case 9:
			f.rets = []ty{tInt, tInt, tBool}
		case 10:
			f.rets = []ty{tBool, tBool}
		case 0:
			f.rets = []ty{tInt, tBool}
		case 1:
			f.rets = []ty{tInt, tInt, tStr}
		case 2:
			f.rets = []ty{tBool}
		case 3, 11, 12, 13:
			f.rets = nil
			g.f("procedure")
		case 4:
			f.rets = []ty{tStr}
		default:
			f.rets = []ty{tInt}
		}
		switch r.Intn(6) {
		case 0:
			if len(f.rets) == 1 && f.rets[0] == tInt {
				plan.recursive = true
				for _, a := range f.params {
					*a = vr{name: a.name, t: tInt, bound: 1 << 31}
				}
				f.params[0].bound = 6
				f.params[0].ro = true
			}
		case 1, 2:
			plan.recovers = true
			plan.deferKind = 1 + r.Intn(2)
		case 3:
			plan.deferKind = 3 + r.Intn(2)
		}
		// named results only where no panic is recovered (see the directed case
		// "named-result-after-recovered-panic")
		f.named = len(f.rets) > 0 && !plan.recovers && r.Intn(2) == 0
		g.genFunc(plan) // f is not callable from its own body except for the planned descent
		g.funcs = append(g.funcs, f)
		p.funcs = append(p.funcs, f)
	}
	// ---- small procedures whose body is mostly the last statement; they cannot
	// fail, so that every exported function may call them
	for i := range 2 + r.Intn(3) {
		f := &fn{name: nm.name(poolHelper, fmt.Sprintf("tp%d", i), 30), tailProc: true,
			params: []*vr{{name: nm.params(1)[0], t: tInt, bound: 1 << 31}}}
		g.f("procedure")
		g.noPanic = true
		g.genFunc(fnPlan{f: f, stmts: r.Intn(3), depth: 1, noUnc: true})
		g.noPanic = false
		g.funcs = append(g.funcs, f)
		p.funcs = append(p.funcs, f)
	}
	// ---- a function that panics and recovers, and one that never panics but
	// logs what its deferred recover() returns: called one after the other, the
	// second must see nil
	if r.Intn(4) > 0 {
		rp := &fn{name: nm.name(poolHelper, "rp0", 30), rcPanics: true, rets: []ty{tInt}, retBound: modBig - 1,
			params: []*vr{{name: nm.params(1)[0], t: tInt, bound: 1 << 31}}}
		g.genFunc(fnPlan{f: rp, stmts: r.Intn(3), depth: 1, recovers: true, deferKind: 1 + r.Intn(2), guard: true})
		rq := &fn{name: nm.name(poolHelper, "rq0", 30), rcWatch: true, rets: []ty{tInt}, retBound: modBig - 1,
			params: []*vr{{name: nm.params(1)[0], t: tInt, bound: 1 << 31}}}
		g.noPanic = true
		g.genFunc(fnPlan{f: rq, stmts: r.Intn(3), depth: 1, recovers: true, deferKind: 1, watch: true})
		g.noPanic = false
		g.funcs = append(g.funcs, rp, rq)
		p.funcs = append(p.funcs, rp, rq)
	}
	// ---- exported functions
	ne := 2 + r.Intn(2)
	for i := 0; i < ne; i++ {
		f := &fn{name: nm.name(poolExported, fmt.Sprintf("F%d", i), 55), exported: true, retBound: modBig - 1, grouped: r.Intn(3) == 0}
		if !isASCII(f.name) {
			g.f("exported-name-not-ascii")
		}
		np := 1 + r.Intn(3)
		pn := nm.params(np)
		for j := range np {
			t := tInt
			if j > 0 {
				t = []ty{tInt, tInt, tBool, tStr, tBytes}[r.Intn(5)]
			}
			f.params = append(f.params, &vr{name: pn[j], t: t, bound: 1 << 31})
		}
		f.rets = []ty{[]ty{tInt, tInt, tInt, tInt, tBool, tStr, tBytes, tInts}[r.Intn(8)]}
		if r.Intn(5) == 0 {
			// an exported procedure: Void in the manifest, nothing left on the stack
			f.rets = nil
			g.f("exported-procedure")
		}
		plan := fnPlan{f: f, stmts: 4 + r.Intn(8), depth: 3, callProcs: true}
		switch r.Intn(6) {
		case 0:
			plan.recovers = true
			plan.deferKind = 1 + r.Intn(2)
		case 1:
			plan.deferKind = 3 + r.Intn(2)
		}
		g.genFunc(plan)
		p.funcs = append(p.funcs, f)
		p.exported = append(p.exported, f)
	}
	p.funcs = append(p.funcs, pure)

	// ---- assemble the file
	body := g.sb.String() + prelude
	reset := "// ResetGlobals re-runs package initialisation (native side only).\nfunc ResetGlobals() {\n\t" + strings.Join(resetLines, "\n\t") + "\n}\n\n" + resetFuncs
	p.src = fmt.Sprintf("package %s\n\n", pkg) + importsFor(body) + body
	p.reset = fmt.Sprintf("package %s\n\n", pkg) + importsFor(reset) + reset
	p.locate()
	for k := range g.feat {
		p.feat = append(p.feat, k)
	}
	sort.Strings(p.feat)
	p.cnt = g.cnt
	for _, v := range g.globals {
		p.globals = append(p.globals, v.name)
	}

	// ---- calls: the first call sees the freshly initialised package
	ar := rng.New(uint64(idx) + 15_000_000)
	for t := 0; t < tuples; t++ {
		for _, f := range p.exported {
			p.calls = append(p.calls, callSpec{Fn: f.name, Args: genArgs(ar, f)})
		}
	}
	return p
}

const (
	inlPath     = "github.com/nspcc-dev/neo-go/pkg/compiler/testdata/inline"
	interopPath = "github.com/nspcc-dev/neo-go/pkg/interop"
)

func (g *gen) lastLine() string {
	s := strings.TrimRight(g.sb.String(), "\n")
	return strings.TrimSpace(s[strings.LastIndex(s, "\n")+1:])
}

// locate fills the source line range of every function.
func (p *program) locate() {
	for _, f := range p.funcs {
		f.lines, f.file = [2]int{}, ""
	}
	for _, sf := range p.fileList() {
		lines := strings.Split(sf.Text, "\n")
		for _, f := range p.funcs {
			h := f.sig() + " {"
			for i, l := range lines {
				if l != h {
					continue
				}
				f.lines[0] = i + 1
				f.file = sf.Name
				for j := i + 1; j < len(lines); j++ {
					if lines[j] == "}" {
						f.lines[1] = j + 1
						break
					}
				}
			}
		}
	}
}

var identRe = regexp.MustCompile(`[\p{L}_][\p{L}\p{N}_]*`)

// nonConstBool returns a boolean expression that is not a Go constant (two
// equal constant cases in one switch do not compile).
func (g *gen) nonConstBool() string {
	for range 8 {
		e := g.boolExpr(1)
		stripped := regexp.MustCompile(`"[^"]*"`).ReplaceAllString(e, "")
		for _, id := range identRe.FindAllString(stripped, -1) {
			switch id {
			case "true", "false", "len", "min", "max", "int", "byte":
			default:
				return e
			}
		}
	}
	return "acc%2 == 0"
}

// importsFor returns the import block for the inlined helper packages text uses.
func importsFor(text string) string {
	var l []string
	for _, k := range [][2]string{{"inl", inlPath}, {"inlc", inlPath + "/c"}, {"inld", inlPath + "/d"},
		{"imath", interopPath + "/math"}, {"iutil", interopPath + "/util"}} {
		if strings.Contains(text, k[0]+".") {
			l = append(l, fmt.Sprintf("\t%s %q\n", k[0], k[1]))
		}
	}
	if len(l) == 0 {
		return ""
	}
	return "import (\n" + strings.Join(l, "") + ")\n\n"
}

package c14

// Identifiers of generated programs. Go identifiers are Unicode: a letter is
// anything in the categories Lu, Ll, Lt, Lm, Lo or `_`, a name is exported when
// its first rune is an upper-case letter (Lu). The manifest and the debug
// information derive method names from the Go names (first rune lower-cased),
// so the alphabet of the names is part of the workload: one- to four-byte
// letters, upper / lower pairs whose UTF-8 lengths differ, letters without
// case, digits and underscores wherever the grammar allows them.

import (
	"fmt"

	"github.com/nspcc-dev/neo-go/verifharness/vlib/rng"
)

var (
	// first rune upper-case: exported
	poolExported = []string{
		"Ärger", "Ωmega", "Émile", "Жук", "Ünit_1", "Ǆem", "𐐀bc", "ẞ9", "Öl2", "Σ", "Ñu_", "X_1", "Z世", "İo", "Ée", "Ⱥb", "Ｆw", "F_", "Q9", "GetX", "ÖlÄ", "ΩΣ", "SetÄb",
	}
	// first rune lower-case, caseless or `_`: not exported. Several are the
	// lower-cased forms of exported names above: a helper and an exported
	// function may differ in the case of the first rune only.
	poolHelper = []string{
		"ärger", "ωx", "étape", "жук", "_h", "h_2", "世界", "ñ1", "ßx", "x9_", "ǆem", "𐐨bc", "µ", "ʃa", "σ", "ⱥb", "_Ä", "ǅx", "öl2", "hX", "äÖ", "getX",
	}
	poolParam  = []string{"ä", "n_1", "πi", "名", "_p", "ы2", "é", "ø_", "ζ9", "p世", "Ä1", "Ж", "_0", "𐐨"}
	poolGlobal = []string{"gÄ", "Ωg", "счёт", "g_1", "ĝ", "Gé", "_g2", "数", "Ǆg", "𐐀g"}
	poolType   = []string{"Ящик", "Σt", "T_1", "ŝ", "Ärt", "型"}
	poolFields = [][]string{{"Ä", "ß"}, {"X_1", "Ω"}, {"é", "Б"}, {"a_", "数"}, {"𐐀", "ǆ"}}
	// methods: exported ones must stay out of the manifest
	poolMethod = []string{"Get", "ñame", "Ärm", "ωp", "Ж1", "_m", "Σum", "加"}
)

type namer struct {
	r    *rng.R
	used map[string]bool
}

func newNamer(idx int) *namer {
	return &namer{r: rng.New(uint64(idx) + 16_000_000), used: map[string]bool{}}
}

// name returns the conventional ASCII name or, with probability pct/100, an
// unused member of the pool.
func (n *namer) name(pool []string, ascii string, pct int) string {
	if n.r.Intn(100) < pct {
		for range 4 {
			c := pool[n.r.Intn(len(pool))]
			if !n.used[c] {
				n.used[c] = true
				return c
			}
		}
	}
	n.used[ascii] = true
	return ascii
}

// params returns k distinct parameter names.
func (n *namer) params(k int) []string {
	var r []string
	seen := map[string]bool{}
	for i := range k {
		c := fmt.Sprintf("a%d", i)
		if n.r.Intn(100) < 40 {
			if x := poolParam[n.r.Intn(len(poolParam))]; !seen[x] {
				c = x
			}
		}
		seen[c] = true
		r = append(r, c)
	}
	return r
}

func isASCII(s string) bool {
	for i := 0; i < len(s); i++ {
		if s[i] >= 0x80 {
			return false
		}
	}
	return true
}

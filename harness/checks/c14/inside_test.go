package c14

// Directed programs inside the dialect: hand-written counterparts of what the
// generator produces at random, for the shapes where position matters (which
// file a declaration stands in, which element of a literal has a key). The
// unchanged compiler agrees with Go on all of them; they are judged under the
// same signatures as the generated programs.

var intFnPre = []directedFn{{name: "F", params: []ty{tInt}, ret: tInt, pre: "deploy"}}

var directedInside = []directedProg{
	{name: "fields-promoted-from-several-embedded-structs", regress: true, fns: intFn, src: `
type Inner1 struct {
	x int
	y int
}

type Inner2 struct {
	w int
	z int
}

type Deep struct {
	Inner2
	q int
}

type Rec struct {
	Inner1
	Inner2
	n int
}

type Rec2 struct {
	Inner1
	Deep
}

func F(a0 int) int {
	r := Rec{n: a0}
	r.x = 1
	r.y = 2
	r.w = a0 + 3
	r.z = r.w * 2
	p := &Rec{n: 3}
	p.w = r.w + 5
	p.y = 6
	s := Rec2{}
	s.x = 4
	s.w = a0 + 1
	s.z = 7
	s.q = s.w + s.z
	return r.x*100000 + r.y*10000 + r.w*1000 + r.z*100 + r.n*10 + s.x + s.w*3 + s.z*5 + s.q*11 + p.y
}
`},
	{name: "literal-elements-without-key-after-keyed-ones", regress: true, fns: []directedFn{
		{name: "F", params: []ty{tInt}, ret: tInt}, {name: "G", params: []ty{tInt}, ret: tInts}, {name: "H", params: []ty{tInt}, ret: tBytes}}, src: `
const third = 2

func F(a0 int) int {
	a := [5]int{2: 40, a0, 4: 1}
	c := [...]int{5, third: 6, 7, 0 + 1: a0 + 3}
	n := [][3]int{{1: a0, 9}, 2: {a0 + 2}, {2: 3}}
	m := [2][2]int{1: {1: a0}}
	r := len(a)*1000 + len(c)*100 + len(n)*10 + len(m)
	for i := range a {
		r = (r*7 + a[i]) % 1000003
	}
	for i := range c {
		r = (r*7 + c[i]) % 1000003
	}
	for i := range n {
		for j := range n[i] {
			r = (r*7 + n[i][j]) % 1000003
		}
	}
	for i := range m {
		for j := range m[i] {
			r = (r*7 + m[i][j]) % 1000003
		}
	}
	return r
}

func G(a0 int) []int {
	return []int{3: 7, a0, 1: 5, a0 + 1}
}

func H(a0 int) []byte {
	x := byte(a0 + 1)
	return []byte{1: 'a', x, third + 2: 'z', 9}
}
`},
	{name: "file-with-defer-before-file-with-deploy", regress: true, deploy: true, reset: "\tanswer = 1", fns: []directedFn{
		{name: "Answer", params: []ty{tInt}, ret: tInt, pre: "deploy"}, {name: "Guarded", params: []ty{tInt, tInt}, ret: tInt,
			args: [][]argSpec{{{T: tInt, I: 7}, {T: tInt, I: 2}}, {{T: tInt, I: 7}, {T: tInt, I: 0}}}}},
		files: []srcFile{{Name: "a_logic.go", Text: `
func Guarded(a0, a1 int) int {
	defer func() {
		recover()
	}()
	if a1 == 0 {
		panic("division by zero")
	}
	return a0 / a1
}
`}, {Name: "b_setup.go", Text: `
var answer = 1

func _deploy(data any, isUpdate bool) {
	answer = 42
	if isUpdate {
		answer++
	}
}

func Answer(a0 int) int {
	return answer*100 + Guarded(10, a0)
}
`}}},
	{name: "file-with-deploy-before-file-with-defer", regress: true, deploy: true, reset: "\towner = 7\n\tcalls = 0", fns: []directedFn{
		{name: "OwnerAfterFault", params: []ty{tInt}, ret: tInt, pre: "update"}},
		files: []srcFile{{Name: "a_setup.go", Text: `
var owner = 7

func _deploy(data any, isUpdate bool) {
	if isUpdate {
		owner = 8
	}
}
`}, {Name: "b_logic.go", Text: `
var calls = 0

func guarded(a, b int) int {
	defer func() {
		if r := recover(); r != nil {
			calls++
		}
	}()
	if b == 0 {
		panic("division by zero")
	}
	return a / b
}

func OwnerAfterFault(a0 int) int {
	x := guarded(9, a0)
	return owner*1000 + calls*100 + x
}
`}}},
	{name: "no-package-variable-but-deploy-before-file-with-defer", regress: true, deploy: true, fns: []directedFn{
		{name: "F", params: []ty{tInt}, ret: tInt, pre: "deploy"}},
		files: []srcFile{{Name: "Setup.go", Text: `
func _deploy(data any, isUpdate bool) {
}
`}, {Name: "logic.go", Text: `
func guarded(a, b int) int {
	defer func() {
		recover()
	}()
	if b == 0 {
		panic("division by zero")
	}
	return a / b
}

func F(a0 int) int {
	return guarded(9, a0) + 100
}
`}}},
	{name: "variables-functions-and-methods-of-one-type-in-different-files", regress: true, reset: "\tbase = 5\n\tscale = base * 2\n\tbox = &Box{N: 1}\n\tbase++", fns: intFn,
		others: []directedOther{{name: "add", recv: "Box", params: []string{"x"}}, {name: "twice", recv: "Box"}, {name: "helper", params: []string{"x"}}},
		files: []srcFile{{Name: "z_state.go", Text: `
var base = 5

var scale = base * 2

var box = &Box{N: 1}
`}, {Name: "a_code.go", Text: `
func F(a0 int) int {
	box.add(a0)
	return helper(a0)*1000 + box.twice()*10 + scale
}

func (s *Box) twice() int {
	return s.N * 2
}
`}, {Name: "m_type.go", Text: `
type Box struct {
	N int
}

func (s *Box) add(x int) int {
	s.N += x + base
	return s.N
}

func init() {
	base++
}
`}, {Name: "Zhelper.go", Text: `
func helper(x int) int {
	defer func() {
		recover()
	}()
	if x == 1 {
		panic("one")
	}
	return x + scale
}
`}}},
	{name: "init-functions-in-several-files", regress: true, reset: "\tg0 = 5\n\tg1 = 0\n\tg1 = g0 + 1\n\tg0 = g1 * 2", fns: intFn,
		files: []srcFile{{Name: "a.go", Text: `
var g0 = 5

func init() {
	g1 = g0 + 1
}

func F(a0 int) int {
	return g0*100 + g1*10 + a0
}
`}, {Name: "b.go", Text: `
var g1 = 0

func init() {
	g0 = g1 * 2
}
`}}},
	{name: "imported-package-with-defer-and-main-package-with-deploy", regress: true, deploy: true, reset: "\tmark = 1", fns: intFnPre,
		sub: "store", subRst: "\tCount = 3\n\thidden = 10\n\thidden += 5",
		subSrc: []srcFile{{Name: "store.go", Text: `package store

var Count = 3

var hidden = 10

func init() {
	hidden += 5
}

func Guard(x int) int {
	defer func() {
		if r := recover(); r != nil {
			Count++
		}
	}()
	if x%3 == 0 {
		panic("store guard")
	}
	return x + hidden
}
`}, {Name: "box.go", Text: `package store

type Box struct {
	N int
}

func (b *Box) Add(x int) int {
	b.N += x
	return b.N
}
`}},
		files: []srcFile{{Name: "contract.go", Text: `
import "{{SUB}}"

var mark = 1

func F(a0 int) int {
	x := store.Guard(a0)
	b := &store.Box{N: 2}
	y := b.Add(a0)
	return mark*100000 + store.Count*10000 + x*100 + y
}
`}, {Name: "deploy.go", Text: `
func _deploy(data any, isUpdate bool) {
	mark = 2
	if isUpdate {
		return
	}
	mark = 3
}
`}}},
}

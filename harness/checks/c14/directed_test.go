package c14

// Directed programs: small hand-written members of the documented dialect that
// exercise constructs the random generator keeps away from, because the
// unchanged compiler was found to deviate from Go on them. Each runs through
// exactly the same three executors and oracle as a generated program; a
// disagreement is reported under the signature "dialect-gap:<name>" (or under
// the stack-hygiene signatures when stale items at a catch block explain it).

import (
	"fmt"
	"strings"
)

type directedProg struct {
	name  string
	src   string // without the package clause
	reset string // statements restoring the package state
	fns   []directedFn
	// functions that are not exported, for the debug-information clause
	others []directedOther
	// the package as several files (text without the package clause; {{SUB}} is
	// the import path of the sub-package) instead of src, and a package of its own
	files  []srcFile
	sub    string    // directory of the sub-package
	subSrc []srcFile // its files, complete
	subRst string    // statements restoring its package state (native side)
	deploy bool      // the source has _deploy(data any, isUpdate bool)
	// a program inside the dialect the compiler is expected to get right: judged
	// under the signatures of the generated programs
	regress bool
}

type directedOther struct {
	name, recv string
	params     []string
}

type directedFn struct {
	name   string
	params []ty
	ret    ty
	args   [][]argSpec // nil: integers 0,1,2,5 for every parameter
	pre    string      // "deploy" / "update": every call is repeated after _deploy
}

func (d directedProg) program(idx int) *program {
	p := &program{idx: idx, pkg: fmt.Sprintf("d%d", idx), directed: d.name, feat: []string{"directed:" + d.name}}
	p.src = "package " + p.pkg + "\n\n" + strings.TrimLeft(d.src, "\n")
	p.reset = fmt.Sprintf("package %s\n\nfunc ResetGlobals() {\n%s\n}\n", p.pkg, d.reset)
	p.regress, p.deploy = d.regress, d.deploy
	if d.deploy {
		p.reset2 = fmt.Sprintf("package %s\n\nfunc RunDeploy(isUpdate bool) {\n\t_deploy(nil, isUpdate)\n}\n", p.pkg)
		p.feat = append(p.feat, "deploy-function")
	}
	if d.files != nil {
		subPath := modPath + "/" + p.pkg + "/" + d.sub
		for _, f := range d.files {
			p.files = append(p.files, srcFile{Name: f.Name, Text: "package " + p.pkg + "\n\n" + strings.ReplaceAll(strings.TrimLeft(f.Text, "\n"), "{{SUB}}", subPath)})
		}
		p.dirCompile = true
		p.layout = fmt.Sprintf("layout:%d-files", len(p.files))
		if d.sub != "" {
			p.layout += "+package"
			pkgName := strings.ToLower(d.sub)
			p.aux = &auxPkg{name: d.sub, files: d.subSrc, native: fmt.Sprintf("package %s\n\nfunc ResetGlobals() {\n%s\n}\n", pkgName, d.subRst)}
			p.reset = fmt.Sprintf("package %s\n\nimport %s %q\n\nfunc ResetGlobals() {\n\t%s.ResetGlobals()\n%s\n}\n", p.pkg, pkgName, subPath, pkgName, d.reset)
		}
		p.feat = append(p.feat, p.layout)
		p.joinSrc()
	}
	for _, df := range d.fns {
		f := &fn{name: df.name, exported: true, rets: []ty{df.ret}}
		if df.ret == tVoid {
			f.rets = nil
		}
		for i, t := range df.params {
			f.params = append(f.params, &vr{name: fmt.Sprintf("a%d", i), t: t})
		}
		p.exported = append(p.exported, f)
		p.funcs = append(p.funcs, f)
		args := df.args
		if args == nil {
			for _, v := range []int64{0, 1, 2, 5} {
				var a []argSpec
				for range df.params {
					a = append(a, argSpec{T: tInt, I: v})
				}
				args = append(args, a)
			}
		}
		for _, a := range args {
			p.calls = append(p.calls, callSpec{Fn: df.name, Args: a})
		}
		if df.pre != "" {
			for _, a := range args {
				p.calls = append(p.calls, callSpec{Fn: df.name, Args: a, Pre: df.pre})
			}
		}
	}
	for _, o := range d.others {
		f := &fn{name: o.name, rets: []ty{tInt}}
		if o.recv != "" {
			f.recv = &structT{name: o.recv}
		}
		for _, n := range o.params {
			f.params = append(f.params, &vr{name: n, t: tInt})
		}
		p.funcs = append(p.funcs, f)
	}
	p.locate()
	return p
}

var intFn = []directedFn{{name: "F", params: []ty{tInt}, ret: tInt}}

var directed = []directedProg{
	{name: "recovered-panic-inside-range-of-callee", fns: intFn, src: `
func thrower(a0 int) int {
	for _, x := range []int{1, 2, 3} {
		if x == a0 {
			panic("boom")
		}
	}
	return a0
}

func guard(a0 int) int {
	defer func() {
		recover()
	}()
	x := thrower(a0)
	return x
}

func F(a0 int) int {
	return guard(a0) + 100
}
`},
	{name: "recovered-panic-inside-switch-of-callee", fns: intFn, src: `
func thrower(a0 int) int {
	switch a0 {
	case 1, 2:
		panic("boom")
	}
	return a0
}

func guard(a0 int) int {
	defer func() {
		recover()
	}()
	x := thrower(a0)
	return x
}

func F(a0 int) int {
	return guard(a0) + 100
}
`},
	{name: "recovered-panic-with-pending-operand", fns: intFn, src: `
func thrower(a0 int) int {
	if a0 == 1 {
		panic("boom")
	}
	return a0
}

func mid(a0 int) int {
	return 1000 + thrower(a0)
}

func guard(a0 int) int {
	defer func() {
		recover()
	}()
	x := mid(a0)
	return x
}

func F(a0 int) int {
	return guard(a0) + 100
}
`},
	{name: "map-read-of-missing-key", fns: intFn, src: `
func F(a0 int) int {
	m := map[int]int{1: 10}
	return m[a0] + 1
}
`},
	{name: "recover-from-division-by-zero", fns: intFn, src: `
func div(a0 int) int {
	defer func() {
		recover()
	}()
	x := 10 / a0
	return x
}

func F(a0 int) int {
	return div(a0) + 100
}
`},
	{name: "deferred-call-arguments-evaluated-at-defer", fns: intFn, reset: "\tg = 0", src: `
var g = 0

func set(x int) {
	g = x
}

func work(a0 int) int {
	x := a0
	defer set(x)
	x = 100
	return x
}

func F(a0 int) int {
	work(a0)
	return g
}
`},
	{name: "package-variable-initialization-order", fns: intFn, reset: "\tb0 = 3\n\tc0 = b0 + 1", src: `
var c0 = b0 + 1
var b0 = 3

func F(a0 int) int {
	return c0*10 + b0 + a0
}
`},
	{name: "string-ordering-comparison", fns: []directedFn{{name: "F", params: []ty{tInt}, ret: tBool}}, src: `
func F(a0 int) bool {
	s := "b"
	t := "ab"
	if a0 > 1 {
		t = "c"
	}
	return s < t
}
`},
	{name: "string-concatenation-result-is-not-a-string-item", fns: []directedFn{
		{name: "F", params: []ty{tInt}, ret: tInt}, {name: "G", params: []ty{tInt}, ret: tInt}}, src: `
func F(a0 int) int {
	s := "x"
	s += "y"
	r := a0
	if s == "xy" {
		r += 10
	}
	t := "x"
	t = t + "y"
	if s == t {
		r += 100
	}
	switch s {
	case "xy":
		r += 1000
	}
	return r
}

func G(a0 int) int {
	m := map[string]int{}
	s := "x"
	s += "y"
	m[s] = a0
	return len(m)
}
`},
	{name: "defer-inside-loop", fns: intFn, reset: "\tlog = 0", src: `
var log = 0

func note(d int) {
	log = log*10 + d
}

func work(a0 int) int {
	defer note(1)
	for i := 0; i < 2; i++ {
		defer note(3)
	}
	return a0
}

func F(a0 int) int {
	work(a0)
	return log
}
`},
	{name: "recovered-panic-in-function-with-two-defers", fns: intFn, reset: "\tlog = 0", src: `
var log = 0

func note(d int) {
	log = log*10 + d
}

func work(a0 int) int {
	defer note(1)
	defer func() {
		recover()
	}()
	if a0 > 0 {
		panic("x")
	}
	return 9
}

func F(a0 int) int {
	x := work(a0)
	return log*100 + x
}
`},
	{name: "named-result-after-recovered-panic", fns: intFn, src: `
func thrower(a0 int) int {
	if a0 == 1 {
		panic("x")
	}
	return a0
}

func work(a0 int) (r int) {
	defer func() {
		recover()
	}()
	r = 7
	r = thrower(a0)
	return r
}

func F(a0 int) int {
	return work(a0) + 100
}
`},
	{name: "struct-value-assignment-copies", fns: intFn, src: `
type S struct {
	A int
}

func F(a0 int) int {
	s := S{A: a0}
	t := s
	t.A = 50
	return s.A
}
`},
	{name: "two-init-functions", fns: intFn, reset: "\tg0 = 5\n\tg2 = g0 + 1\n\tg2++", src: `
var g0 = 5
var g2 = g0 + 1

func init() {
	g2++
}

func init() {
}

func F(a0 int) int {
	return g0 + a0
}
`},
	{name: "defer-without-recover-lets-panic-through", fns: intFn, reset: "\tglog = 0", src: `
var glog = 0

func note(d int) {
	glog = glog*10 + d
}

func work(a0 int) int {
	defer note(6)
	if a0 == 1 {
		panic("x")
	}
	return a0
}

func F(a0 int) int {
	return work(a0) + 100
}
`},
	{name: "switch-with-early-default-reorders-clauses", fns: []directedFn{
		{name: "F", params: []ty{tInt}, ret: tInt}, {name: "G", params: []ty{tInt}, ret: tInt}}, src: `
func F(a0 int) int {
	r := 0
	switch {
	default:
		r = 1
	case a0 >= 1:
		r = 10
	case a0 >= 2:
		r = 100
	}
	return r
}

func G(a0 int) int {
	r := 0
	switch a0 {
	case 0:
		r += 1
		fallthrough
	default:
		r += 10
	case 1:
		r += 100
	}
	return r
}
`},
	{name: "nil-slice-operations", fns: []directedFn{
		{name: "F", params: []ty{tInt}, ret: tInt}, {name: "G", params: []ty{tInt}, ret: tInt},
		{name: "H", params: []ty{tInt}, ret: tInt}, {name: "I", params: []ty{tInt}, ret: tInt}}, src: `
func F(a0 int) int {
	var v []byte
	w := []byte{1, 2}
	if a0 > 1 {
		v = append(v, 7)
	}
	n := copy(w, v)
	return n*10 + int(w[0])
}

func G(a0 int) int {
	var v []byte
	var w []byte
	if a0 > 1 {
		w = append(w, 7)
	}
	v = append(v, w...)
	return len(v)
}

func H(a0 int) int {
	var v []byte
	if a0 > 1 {
		v = append(v, 65)
	}
	s := string(v)
	return len(s[0:])
}

func index(a0 int) int {
	defer func() {
		recover()
	}()
	var v []int
	if a0 > 1 {
		v = append(v, 7)
	}
	x := v[0]
	return x
}

func I(a0 int) int {
	return index(a0) + 100
}
`},
	{name: "append-of-several-elements-reading-the-slice", fns: intFn, src: `
func F(a0 int) int {
	v := []int{5, 6}
	v = append(v, a0, v[len(v)-1])
	return v[3]*10 + len(v)
}
`},
	{name: "shadowing-var-declaration-reads-outer-variable", fns: intFn, src: `
func F(a0 int) int {
	r := 0
	{
		var a0 int = a0 + 1
		r = a0
	}
	return r*10 + a0
}
`},
	{name: "function-and-method-of-the-same-name", fns: intFn,
		others: []directedOther{{name: "get", params: []string{"x"}}, {name: "get", recv: "S", params: []string{"y"}}}, src: `
type S struct {
	A int
}

func (s *S) get(y int) int {
	if y > 1 {
		return s.A
	}
	return s.A + y
}

func get(x int) int {
	return x * 2
}

func F(a0 int) int {
	s := &S{A: 3}
	return s.get(a0) + get(a0)
}
`},
	{name: "function-literal-with-two-parameters-receives-them-reversed", fns: intFn, src: `
func F(a0 int) int {
	sub := func(p int, q int) int {
		return p*10 - q
	}
	return sub(a0, 3)
}
`},
	{name: "function-literal-inside-init", fns: intFn, reset: "\tg = 3", src: `
var g = 1

func init() {
	inc := func(x int) int {
		return x + 1
	}
	g = inc(2)
}

func F(a0 int) int {
	return g*10 + a0
}
`},
	{name: "package-variable-used-only-in-function-literal-called-in-place", fns: intFn, reset: "\tg = 5\n\tglog = 0", src: `
var g = 5
var glog = 0

func F(a0 int) int {
	func() {
		glog = 18 - g
	}()
	return glog + a0
}
`},
	{name: "array-copy-shares-nested-byte-arrays", fns: intFn, src: `
func F(a0 int) int {
	var bs [2][3]byte
	cp := bs
	cp[0][0] = byte(5 + a0)
	return int(bs[0][0]) + int(cp[0][0])*10
}
`},
	{name: "slice-of-constant-string", fns: intFn, src: `
const prefix = "abc"

func F(a0 int) int {
	r := a0
	if prefix[1:] == "bc" {
		r += 10
	}
	if ("a" + "b")[0:] == "ab" {
		r += 100
	}
	return r
}
`},
	{name: "composite-literal-elements-evaluated-right-to-left", reset: "\tglog = 0", fns: []directedFn{
		{name: "F", params: []ty{tInt}, ret: tInt}, {name: "G", params: []ty{tInt}, ret: tInt},
		{name: "H", params: []ty{tInt}, ret: tInt}, {name: "I", params: []ty{tInt}, ret: tInt}}, src: `
var glog = 0

type S struct {
	A int
	B int
}

func note(d int) int {
	glog = glog*10 + d
	return d
}

func F(a0 int) int {
	s := []int{note(1), note(2), note(3)}
	return glog*10 + s[0] + a0
}

func G(a0 int) int {
	s := [2]int{note(1), note(2)}
	return glog*10 + s[0] + a0
}

func H(a0 int) int {
	s := &S{A: note(1), B: note(2)}
	return glog*10 + s.A + a0
}

func I(a0 int) int {
	m := map[int]int{note(1): note(2), note(3): note(4)}
	return glog*10 + len(m) + a0
}
`},
}

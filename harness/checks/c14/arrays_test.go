package c14

// Fixed-size arrays with compound elements, and boolean operators whose right
// operand is guarded by the left one.
//
// Arrays are values in Go: every element of a zero-valued [N][M]int, [N]S or
// [N][M]byte is an object of its own, an assignment or a call copies the whole
// array. The templates here obtain arrays from every implicit source of a zero
// value (var, named result, omitted struct field, zero struct, package variable,
// make), write single elements in place and then read all elements, siblings
// included; copies (assignment, element assignment, call, range value) are
// written to and both sides read afterwards.
//
// `x && y` / `x || y` must not evaluate y when x decides: the generated right
// operands fail when evaluated unguarded (division by a possibly-zero value,
// index possibly out of range, field of a possibly-nil pointer), with and
// without calls inside, nested and mixed, in conditions and as values.

import "fmt"

type arrInfo struct {
	n, m  int
	wType string // struct type with array fields G [n][m]int, K int, Q [n]S
	hasQ  bool
}

// arrayDecls emits the package-level declarations of the array templates.
func (g *gen) arrayDecls(reset *[]string) {
	a := &arrInfo{n: 2 + g.r.Intn(2), m: 2 + g.r.Intn(2), wType: g.names.name(poolType, "W", 30)}
	g.arr = a
	g.w("type %s struct {", a.wType)
	g.w("\tG [%d][%d]int", a.n, a.m)
	g.w("\tK int")
	if len(g.structs) > 0 {
		a.hasQ = true
		g.w("\tQ [%d]%s", a.n, g.structs[0].name)
	}
	g.w("}")
	g.w("")
	g.w("var ga [%d][%d]int", a.n, a.m)
	g.w("var gw %s", a.wType)
	*reset = append(*reset, fmt.Sprintf("ga = [%d][%d]int{}", a.n, a.m), fmt.Sprintf("gw = %s{}", a.wType))
	g.f("array-declarations")
}

// arrayFuncs emits a function whose named result is an array and one that
// takes an array by value and writes to it.
func (g *gen) arrayFuncs() []*fn {
	a := g.arr
	g.w("func zarr(x int) (r [%d][%d]int) {", a.n, a.m)
	g.w("\tr[(x%%%d+%d)%%%d][%d] = x %% 1000", a.n, a.n, a.n, g.r.Intn(a.m))
	g.w("\tif x%%2 == 0 {")
	g.w("\t\treturn")
	g.w("\t}")
	g.w("\tr[%d][(x%%%d+%d)%%%d] += 7", g.r.Intn(a.n), a.m, a.m, a.m)
	if g.r.Bool() {
		g.w("\treturn r")
	} else {
		g.w("\treturn")
	}
	g.w("}")
	g.w("")
	g.w("func arrMod(a [%d][%d]int, x int) int {", a.n, a.m)
	g.w("\ta[(x%%%d+%d)%%%d][%d] = x %% 1000", a.n, a.n, a.n, g.r.Intn(a.m))
	g.w("\ta[%d][%d] += 5", g.r.Intn(a.n), g.r.Intn(a.m))
	g.w("\tt := 0")
	g.w("\tfor i := range a {")
	g.w("\t\tfor _, v := range a[i] {")
	g.w("\t\t\tt = (t*7 + v%%1000003) %% 1000003")
	g.w("\t\t}")
	g.w("\t}")
	g.w("\treturn t")
	g.w("}")
	g.w("")
	return []*fn{
		{name: "zarr", params: []*vr{{name: "x", t: tInt}}, rets: []ty{tInts}},
		{name: "arrMod", params: []*vr{{name: "a", t: tInts}, {name: "x", t: tInt}}, rets: []ty{tInt}},
	}
}

// aidx is an index expression inside [0, n).
func (g *gen) aidx(n int) string {
	if g.r.Bool() {
		return fmt.Sprint(g.r.Intn(n))
	}
	var e string
	if v := g.pick(tInt, false); v != nil {
		e = v.name
	} else {
		e, _ = g.intLit()
	}
	return fmt.Sprintf("(%s%%%d+%d)%%%d", e, n, n, n)
}

// arrayStmt emits one array template into the current block.
func (g *gen) arrayStmt() {
	if g.noCalls || g.arr == nil {
		g.assign(0)
		return
	}
	a := g.arr
	on, op := g.noHeap, g.pureOnly
	g.noHeap, g.pureOnly = false, true
	defer func() { g.noHeap, g.pureOnly = on, op }()
	val := func() string {
		e, iv := g.intExpr(1)
		e, _ = fit(e, iv, 1<<20)
		return e
	}
	name := g.fresh("ar")
	kind := g.r.Intn(3) // 0: [n][m]int, 1: [n]S, 2: [n][m]byte
	if kind == 1 && !a.hasQ {
		kind = 0
	}
	var base, src string
	global := false
	switch kind {
	case 0:
		s := g.r.Intn(7)
		if g.onlyLog {
			s = 0
		}
		switch s {
		case 0:
			g.w("var %s [%d][%d]int", name, a.n, a.m)
			base, src = name, "var"
		case 1:
			g.w("%s := zarr(%s)", name, val())
			base, src = name, "named-result"
		case 2:
			g.w("%s := %s{K: %d}", name, a.wType, g.r.Intn(9))
			base, src = name+".G", "omitted-field"
		case 3:
			g.w("var %s %s", name, a.wType)
			base, src = name+".G", "zero-struct"
		case 4:
			base, src, global = "ga", "package-variable", true
		case 5:
			base, src, global = "gw.G", "package-variable", true
		default:
			g.w("%s := make([][%d]int, %d)", name, a.m, a.n)
			base, src = name, "make"
		}
	case 1:
		s := g.r.Intn(4)
		if g.onlyLog {
			s = 0
		}
		switch s {
		case 0:
			g.w("var %s [%d]%s", name, a.n, g.structs[0].name)
			base, src = name, "var"
		case 1:
			g.w("%s := %s{K: %d}", name, a.wType, g.r.Intn(9))
			base, src = name+".Q", "omitted-field"
		case 2:
			g.w("var %s %s", name, a.wType)
			base, src = name+".Q", "zero-struct"
		default:
			base, src, global = "gw.Q", "package-variable", true
		}
	default:
		g.w("var %s [%d][%d]byte", name, a.n, a.m)
		base, src = name, "var"
	}
	if global {
		g.cur.impure = true
	}
	g.f("array-template")
	g.f("array-zero-value-from:" + src)
	st := (*structT)(nil)
	if kind == 1 {
		st = g.structs[0]
	}
	write := func(b string) {
		switch kind {
		case 0:
			if g.r.Intn(3) == 0 {
				g.w("%s[%s][%s] += %s", b, g.aidx(a.n), g.aidx(a.m), val())
			} else {
				g.w("%s[%s][%s] = %s", b, g.aidx(a.n), g.aidx(a.m), val())
			}
		case 1:
			switch g.r.Intn(4) {
			case 0:
				g.w("%s[%s].F = %s", b, g.aidx(a.n), g.boolExpr(1))
			case 1:
				g.w("%s[%s].T = %q", b, g.aidx(a.n), strLits[1+g.r.Intn(len(strLits)-1)])
			default:
				g.w("%s[%s].%s = %s", b, g.aidx(a.n), st.ints[g.r.Intn(len(st.ints))], val())
			}
		default:
			g.w("%s[%s][%s] = byte((%s%%64 + 64) %% 128)", b, g.aidx(a.n), g.aidx(a.m), val())
		}
	}
	fold := func(b string) {
		i, j := g.fresh("i"), g.fresh("j")
		g.w("for %s := range %s {", i, b)
		switch kind {
		case 0:
			g.w("\tfor %s := range %s[%s] {", j, b, i)
			g.w("\t\tacc = (acc*31 + %s[%s][%s]%%%d) %% %d", b, i, j, modBig, modBig)
			g.w("\t}")
		case 1:
			for _, f := range st.ints {
				g.w("\tacc = (acc*31 + %s[%s].%s%%%d) %% %d", b, i, f, modBig, modBig)
			}
			g.w("\tif %s[%s].F {", b, i)
			g.w("\t\tacc = (acc + 1) %% %d", modBig)
			g.w("\t}")
			g.w("\tacc = (acc*31 + hs(%s[%s].T)) %% %d", b, i, modBig)
		default:
			g.w("\tfor %s := range %s[%s] {", j, b, i)
			g.w("\t\tacc = (acc*31 + int(%s[%s][%s])) %% %d", b, i, j, modBig)
			g.w("\t}")
		}
		g.w("}")
	}
	for range 1 + g.r.Intn(3) {
		write(base)
	}
	// copies are values of their own
	switch g.r.Intn(7) {
	case 0:
		// not for arrays of byte arrays: see the directed case
		// "array-copy-shares-nested-byte-arrays"
		if kind != 2 {
			cp := g.fresh("ac")
			g.w("%s := %s", cp, base)
			write(cp)
			write(base)
			fold(cp)
			g.f("array-copy-by-assignment")
		}
	case 1:
		if kind == 0 && src != "make" {
			// an element that is an array itself
			row := g.fresh("aw")
			g.w("%s := %s[%s]", row, base, g.aidx(a.n))
			g.w("%s[%s] = %s", row, g.aidx(a.m), val())
			g.w("acc = (acc*31 + %s[%s]%%%d) %% %d", row, g.aidx(a.m), modBig, modBig)
			g.f("array-element-copied")
		}
	case 2:
		// arrays as elements only: struct values alias on assignment, see the
		// directed case "struct-value-assignment-copies"
		if kind == 0 {
			i, k := g.r.Intn(a.n), g.r.Intn(a.n)
			g.w("%s[%d] = %s[%d]", base, i, base, k)
			write(base)
			g.f("array-element-assigned")
		}
	case 3:
		if kind == 0 && src != "make" && !g.onlyLog {
			t := g.fresh("at")
			g.w("%s := arrMod(%s, %s)", t, base, val())
			g.w("acc = (acc*31 + %s) %% %d", t, modBig)
			g.f("array-passed-by-value")
		}
	case 4:
		if kind == 0 {
			row := g.fresh("aw")
			g.w("for _, %s := range %s {", row, base)
			g.w("\t%s[%d] = %d", row, g.r.Intn(a.m), 50+g.r.Intn(40))
			g.w("\tacc = (acc*31 + %s[%d]%%%d + %s[%d]%%%d) %% %d", row, g.r.Intn(a.m), modBig, row, g.r.Intn(a.m), modBig, modBig)
			g.w("}")
			g.f("array-range-value-written")
		}
	}
	fold(base)
}

// ---------------------------------------------------------------- guarded operands

var cmpOps = []string{"<", "<=", "==", "!=", ">", ">="}

// guarded returns `guard && risky` / `!guard || risky` where risky fails when
// it is evaluated although the guard decided. ok=false: nothing suitable in scope.
func (g *gen) guarded() (string, bool) {
	cmp := cmpOps[g.r.Intn(len(cmpOps))]
	k := g.r.Intn(7) - 1
	switch g.r.Intn(5) {
	case 0, 1:
		dv := g.pick(tInt, false)
		if dv == nil {
			return "", false
		}
		den := dv.name
		if g.r.Intn(3) > 0 {
			den = fmt.Sprintf("(%s %% %d)", dv.name, 2+g.r.Intn(3))
		}
		num := fmt.Sprint(10 + g.r.Intn(990))
		if nv := g.pick(tInt, false); nv != nil && g.r.Bool() {
			num = nv.name
		}
		op := []string{"/", "%"}[g.r.Intn(2)]
		g.f("guarded-operand:division")
		if g.r.Bool() {
			return fmt.Sprintf("(%s != 0 && %s%s%s %s %d)", den, num, op, den, cmp, k), true
		}
		return fmt.Sprintf("(%s == 0 || %s%s%s %s %d)", den, num, op, den, cmp, k), true
	case 2, 3:
		if g.noHeap {
			return "", false
		}
		t := []ty{tInts, tBytes}[g.r.Intn(2)]
		s := g.pick(t, false)
		iv := g.pick(tInt, false)
		if s == nil || iv == nil || s.mayNil {
			return "", false
		}
		idx := iv.name
		if g.r.Intn(3) > 0 {
			idx = fmt.Sprintf("(%s %% %d)", iv.name, s.minLen+2)
		}
		l := fmt.Sprintf("len(%s)", s.name)
		if s.minLen > 0 && g.r.Intn(3) > 0 {
			// a constant bound: no call anywhere in the expression
			l = fmt.Sprint(1 + g.r.Intn(s.minLen))
		}
		if t == tBytes && k < 0 {
			k = 0
		}
		g.f("guarded-operand:index")
		if g.r.Bool() {
			return fmt.Sprintf("(%s >= 0 && %s < %s && %s[%s] %s %d)", idx, idx, l, s.name, idx, cmp, k), true
		}
		return fmt.Sprintf("(%s < 0 || %s >= %s || %s[%s] %s %d)", idx, idx, l, s.name, idx, cmp, k), true
	default:
		if g.noHeap || len(g.nilPtrs) == 0 {
			return "", false
		}
		p := g.nilPtrs[g.r.Intn(len(g.nilPtrs))]
		fld := p.st.ints[g.r.Intn(len(p.st.ints))]
		g.f("guarded-operand:nil-pointer-field")
		if g.r.Bool() {
			return fmt.Sprintf("(%s == nil || %s.%s %s %d)", p.name, p.name, fld, cmp, k), true
		}
		return fmt.Sprintf("(%s != nil && %s.%s %s %d)", p.name, p.name, fld, cmp, k), true
	}
}

// guardedMix nests and mixes guarded operands.
func (g *gen) guardedMix(d int) (string, bool) {
	a, ok := g.guarded()
	if !ok {
		return "", false
	}
	if d <= 0 || g.r.Intn(3) == 0 {
		return a, true
	}
	var parts []string
	parts = append(parts, a)
	for range 1 + g.r.Intn(2) {
		if b, ok := g.guarded(); ok && g.r.Bool() {
			parts = append(parts, b)
		} else if v := g.pick(tBool, false); v != nil {
			parts = append(parts, v.name)
		} else {
			parts = append(parts, "("+g.boolExpr(0)+")")
		}
	}
	g.r.Shuffle(len(parts), func(i, j int) { parts[i], parts[j] = parts[j], parts[i] })
	e := parts[0]
	for _, p := range parts[1:] {
		op := []string{"&&", "||"}[g.r.Intn(2)]
		if g.r.Intn(4) == 0 {
			p = "!" + p
		}
		e = fmt.Sprintf("(%s %s %s)", e, op, p)
	}
	g.f("guarded-operand:nested-or-mixed")
	return e, true
}

// guardStmt uses guarded operands as values: assigned, stored, passed.
func (g *gen) guardStmt() {
	restore := g.exprMode()
	defer restore()
	e, ok := g.guardedMix(1)
	if !ok {
		return
	}
	g.f("guarded-operand-as-value")
	form := g.r.Intn(4)
	if g.onlyLog {
		form = 1
	}
	switch form {
	case 0:
		if v := g.pick(tBool, true); v != nil {
			g.w("%s = %s", v.name, e)
			g.w("if %s {", v.name)
			g.mark()
			g.w("}")
			return
		}
		fallthrough
	case 1:
		n := g.fresh("gb")
		if g.r.Intn(3) == 0 {
			g.w("var %s bool = %s", n, e)
		} else {
			g.w("%s := %s", n, e)
		}
		g.w("if %s {", n)
		g.ind++
		g.mark()
		g.ind--
		g.w("}")
	case 2:
		// argument of a function
		g.w("acc = (acc*31 + bi(%s)) %% %d", e, modBig)
	default:
		n := g.fresh("gb")
		g.w("%s := !%s", n, e)
		g.w("acc = (acc*31 + bi(%s)*3) %% %d", n, modBig)
	}
}

// nilPtrDecls declares pointers that are nil on some paths; they are read
// behind nil guards only.
func (g *gen) nilPtrDecls() {
	g.nilPtrs = nil
	if g.noCalls || len(g.structs) == 0 || g.r.Intn(5) < 2 {
		return
	}
	st := g.structs[0]
	n := g.fresh("np")
	g.w("var %s *%s", n, st.name)
	restore := g.exprMode()
	c := g.cond(1)
	restore()
	g.w("if %s {", c)
	g.w("\t%s = %s", n, g.structLit(st))
	g.w("}")
	g.w("_ = %s", n)
	g.nilPtrs = append(g.nilPtrs, &vr{name: n, t: tPtr, st: st})
	g.f("nil-pointer")
}

// ---------------------------------------------------------------- keyed literals

// litElems builds the element list of an array / slice literal that mixes
// elements with and without a key. Go gives an element without a key the index
// of its predecessor plus one, so the list is planned on the indexes: a keyed
// element jumps (forwards, or backwards to a free index), the elements after it
// continue from there. It returns the rendered elements and the highest index.
// consts receives the local constants that some keys are spelled with.
func (g *gen) litElems(val func() string, consts *[]string) (string, int) {
	n := 2 + g.r.Intn(4)
	used := map[int]bool{}
	cur, hi := 0, -1
	var out []string
	afterKey := false
	for i := 0; i < n; i++ {
		keyed := g.r.Intn(3) == 0
		if i == 0 {
			keyed = g.r.Intn(3) > 0
		}
		if afterKey && g.r.Intn(4) > 0 {
			keyed = false
		}
		idx := cur
		if keyed || used[idx] {
			keyed = true
			idx = cur + 1 + g.r.Intn(3)
			if g.r.Intn(4) == 0 {
				// back to the lowest free index
				for idx = 0; used[idx]; idx++ {
				}
			}
			for used[idx] {
				idx++
			}
		}
		used[idx] = true
		hi = max(hi, idx)
		cur = idx + 1
		v := val()
		if !keyed {
			out = append(out, v)
			afterKey = false
			if idx != i {
				g.f("literal-element-without-key-after-key")
			}
			continue
		}
		afterKey = true
		var k string
		switch g.r.Intn(4) {
		case 0:
			k = g.fresh("kc")
			*consts = append(*consts, fmt.Sprintf("const %s = %d", k, idx))
		case 1:
			a := g.r.Intn(idx + 1)
			k = fmt.Sprintf("%d + %d", a, idx-a)
		default:
			k = fmt.Sprint(idx)
		}
		out = append(out, k+": "+v)
	}
	s := ""
	for i, e := range out {
		if i > 0 {
			s += ", "
		}
		s += e
	}
	return s, hi
}

// litStmt declares an array, a slice or a byte slice by a composite literal with
// keyed and positional elements (flat or nested), then reads the length and
// every element.
func (g *gen) litStmt() {
	if g.noCalls {
		g.assign(0)
		return
	}
	on, op := g.noHeap, g.pureOnly
	g.noHeap, g.pureOnly = false, true
	defer func() { g.noHeap, g.pureOnly = on, op }()
	ival := func() string {
		if g.r.Intn(3) == 0 {
			return fmt.Sprint(g.r.Intn(200) - 100)
		}
		e, iv := g.intExpr(1)
		e, _ = fit(e, iv, 1000)
		return e
	}
	bval := func() string {
		switch g.r.Intn(3) {
		case 0:
			return fmt.Sprint(g.r.Intn(128))
		case 1:
			return fmt.Sprintf("'%c'", 'a'+rune(g.r.Intn(26)))
		}
		e, iv := g.intExpr(1)
		e, _ = fit(e, iv, 1000)
		return fmt.Sprintf("byte((%s%%64 + 64) %% 128)", e)
	}
	var consts []string
	name := g.fresh("kl")
	i, j := g.fresh("i"), g.fresh("j")
	g.f("keyed-literal")
	kind := g.r.Intn(6)
	var decl string
	fold := func(elem string) {
		g.w("acc = (acc*31 + len(%s)) %% %d", name, modBig)
		g.w("for %s := range %s {", i, name)
		g.w("\tacc = (acc*31 + %s) %% %d", fmt.Sprintf(elem, name, i), modBig)
		g.w("}")
	}
	switch kind {
	case 0, 1: // [N]int / [...]int
		el, hi := g.litElems(ival, &consts)
		size := fmt.Sprint(hi + 1 + g.r.Intn(3))
		if kind == 1 {
			size = "..."
		}
		decl = fmt.Sprintf("%s := [%s]int{%s}", name, size, el)
		g.f("keyed-literal:array")
	case 2: // []int
		el, hi := g.litElems(ival, &consts)
		decl = fmt.Sprintf("%s := []int{%s}", name, el)
		g.f("keyed-literal:slice")
		defer func() { g.push(&vr{name: name, t: tInts, bound: 1000, minLen: hi + 1, noApp: true}) }()
	case 3: // []byte
		el, hi := g.litElems(bval, &consts)
		decl = fmt.Sprintf("%s := []byte{%s}", name, el)
		g.f("keyed-literal:byte-slice")
		defer func() { g.push(&vr{name: name, t: tBytes, minLen: hi + 1, ro: true}) }()
	case 4: // [N]byte
		el, hi := g.litElems(bval, &consts)
		decl = fmt.Sprintf("%s := [%d]byte{%s}", name, hi+1+g.r.Intn(2), el)
		g.f("keyed-literal:byte-array")
	default: // nested: the inner literals have their type elided
		m := 0
		inner := func() string {
			el, hi := g.litElems(ival, &consts)
			m = max(m, hi+1)
			return "{" + el + "}"
		}
		el, hi := g.litElems(inner, &consts)
		if g.r.Bool() {
			decl = fmt.Sprintf("%s := [][%d]int{%s}", name, m, el)
		} else {
			decl = fmt.Sprintf("%s := [%d][%d]int{%s}", name, hi+1+g.r.Intn(2), m, el)
		}
		g.f("keyed-literal:nested")
	}
	for _, c := range consts {
		g.w("%s", c)
	}
	g.w("%s", decl)
	switch kind {
	case 0, 1, 2:
		fold("%s[%s]")
	case 3, 4:
		fold("int(%s[%s])")
	default:
		g.w("acc = (acc*31 + len(%s)) %% %d", name, modBig)
		g.w("for %s := range %s {", i, name)
		g.w("\tfor %s := range %s[%s] {", j, name, i)
		g.w("\t\tacc = (acc*31 + %s[%s][%s]) %% %d", name, i, j, modBig)
		g.w("\t}")
		g.w("}")
	}
}

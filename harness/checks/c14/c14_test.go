// Package c14 checks property C14: contracts compiled by pkg/compiler behave
// like the same Go source built by the Go toolchain, and the manifest / debug
// information describe the bytecode.
package c14

import (
	"bytes"
	"encoding/json"
	"fmt"
	"go/token"
	"os"
	"path/filepath"
	"regexp"
	"runtime"
	"sort"
	"strings"
	"sync"
	"testing"
	"unicode/utf8"

	"github.com/nspcc-dev/neo-go/pkg/smartcontract"
	"github.com/nspcc-dev/neo-go/pkg/smartcontract/manifest"
	"github.com/nspcc-dev/neo-go/pkg/smartcontract/scparser"
	"github.com/nspcc-dev/neo-go/pkg/vm/opcode"
	"github.com/nspcc-dev/neo-go/verifharness/vlib/ev"
	"github.com/nspcc-dev/neo-go/verifharness/vlib/rng"
)

const skipNoDeploy = "skipped: _deploy is not in the manifest"

const (
	sigLeftover      = "stack-hygiene:temporaries-left-after-recovered-panic:return-count"
	sigLeftoverLater = "stack-hygiene:temporaries-left-after-recovered-panic:corrupts-later-execution"
)

var scType = map[ty]smartcontract.ParamType{
	tInt: smartcontract.IntegerType, tBool: smartcontract.BoolType, tStr: smartcontract.StringType,
	tBytes: smartcontract.ByteArrayType, tInts: smartcontract.ArrayType, tVoid: smartcontract.VoidType,
}

type finding struct {
	sig, detail string
	extra       map[string]any
}

// checkManifest evaluates the manifest / debug-info clause for one program.
func expNames(p *program) []string {
	var r []string
	for _, f := range p.exported {
		r = append(r, f.name)
	}
	return r
}

// It also counts the methods with a receiver and the functions with names
// outside ASCII that were found in the debug information.
func checkManifest(p *program, c compiled) (fs []finding, checked, methods, nonASCII, docs int) {
	add := func(sig, f string, a ...any) { fs = append(fs, finding{sig: sig, detail: fmt.Sprintf(f, a...)}) }
	script := c.nef.Script
	// instruction boundaries
	bound := map[int]opcode.Opcode{}
	params := map[int][]byte{}
	ctx := scparser.NewContext(script, 0)
	for ctx.NextIP() < len(script) {
		op, par, err := ctx.Next()
		if err != nil {
			add("bytecode:undecodable", "offset %d: %v", ctx.IP(), err)
			return
		}
		bound[ctx.IP()] = op
		params[ctx.IP()] = par
	}
	// debug methods are identified by the Go name; methods with a receiver are
	// told from functions by IsFunction
	dbg := map[string]int{}
	dkey := func(id string, method bool) string {
		if method {
			return "(method) " + id
		}
		return id
	}
	for i, m := range c.di.Methods {
		k := dkey(m.ID, !m.IsFunction)
		if _, dup := dbg[k]; dup {
			add("debug:two-methods-with-one-id", "%s", k)
		}
		dbg[k] = i
		if !utf8.ValidString(m.ID) || !utf8.ValidString(m.Name.Name) {
			add("debug:method-name-not-utf8", "id %q name %q", m.ID, m.Name.Name)
		}
	}
	want := map[string]bool{}
	for _, f := range p.exported {
		name := lowerFirst(f.name)
		want[name] = true
		checked++
		md := c.m.ABI.GetMethod(name, -1)
		if md == nil {
			add("manifest:exported-function-missing", "%s is not in the manifest", f.name)
			continue
		}
		if len(md.Parameters) != len(f.params) {
			add("manifest:parameter-count", "%s: manifest says %d parameters, source has %d", f.name, len(md.Parameters), len(f.params))
			continue
		}
		for i, a := range f.params {
			if md.Parameters[i].Type != scType[a.t] {
				add("manifest:parameter-type", "%s parameter %d: manifest %s, source %s", f.name, i, md.Parameters[i].Type, typeName(a.t, nil))
			}
			if md.Parameters[i].Name != a.name {
				add("manifest:parameter-name", "%s parameter %d: manifest %q, source %q", f.name, i, md.Parameters[i].Name, a.name)
			}
		}
		if md.ReturnType != scType[f.ret0()] {
			add("manifest:return-type", "%s: manifest %s, source %s", f.name, md.ReturnType, typeName(f.ret0(), nil))
		}
		op, ok := bound[md.Offset]
		if !ok {
			add("manifest:offset-not-an-instruction", "%s: offset %d", f.name, md.Offset)
			continue
		}
		if op != opcode.INITSLOT {
			add("manifest:offset-not-at-function-entry", "%s: offset %d holds %s, a function with parameters starts with INITSLOT", f.name, md.Offset, op)
		} else if int(params[md.Offset][1]) != len(f.params) {
			add("manifest:bytecode-takes-other-argument-count", "%s: INITSLOT at %d takes %d arguments, manifest and source say %d", f.name, md.Offset, params[md.Offset][1], len(f.params))
		}
		di, ok := dbg[f.name]
		if !ok {
			add("debug:exported-function-missing", "%s", f.name)
			continue
		}
		if int(c.di.Methods[di].Range.Start) != md.Offset {
			add("debug:range-start-differs-from-manifest-offset", "%s: debug %d, manifest %d", f.name, c.di.Methods[di].Range.Start, md.Offset)
		}
	}
	if p.deploy {
		// `_deploy(data any, isUpdate bool)` of the source: the Management contract
		// runs what the manifest names so
		checked++
		md := c.m.ABI.GetMethod(manifest.MethodDeploy, -1)
		di, inDbg := dbg[manifest.MethodDeploy]
		switch {
		case md == nil:
			add("manifest:deploy-function-missing", "the source declares _deploy(data any, isUpdate bool), the manifest does not name it (debug information: %v)", inDbg)
		case len(md.Parameters) != 2 || md.Parameters[0].Type != smartcontract.AnyType || md.Parameters[1].Type != smartcontract.BoolType || md.ReturnType != smartcontract.VoidType:
			add("manifest:deploy-function-signature", "_deploy is %v -> %s in the manifest", md.Parameters, md.ReturnType)
		case bound[md.Offset] != opcode.INITSLOT || int(params[md.Offset][1]) != 2:
			add("manifest:deploy-function-offset", "offset %d holds %s %x, expected INITSLOT taking 2 arguments", md.Offset, bound[md.Offset], params[md.Offset])
		case !inDbg:
			add("debug:deploy-function-missing", "_deploy is in the manifest at %d, not in the debug information", md.Offset)
		case int(c.di.Methods[di].Range.Start) != md.Offset:
			add("debug:range-start-differs-from-manifest-offset", "_deploy: debug %d, manifest %d", c.di.Methods[di].Range.Start, md.Offset)
		case bound[int(c.di.Methods[di].Range.End)] != opcode.RET:
			add("debug:range-does-not-end-with-RET", "_deploy: [%d,%d]", c.di.Methods[di].Range.Start, c.di.Methods[di].Range.End)
		}
		want[manifest.MethodDeploy] = true
	}
	for _, md := range c.m.ABI.Methods {
		if md.Name == manifest.MethodInit {
			if i, ok := dbg[manifest.MethodInit]; !ok || int(c.di.Methods[i].Range.Start) != md.Offset {
				add("debug:initialize-range", "manifest offset %d", md.Offset)
			}
			continue
		}
		if !want[md.Name] {
			add("manifest:unexpected-method", "%q/%d at %d (the exported functions of the source are %q)", md.Name, len(md.Parameters), md.Offset, expNames(p))
		}
	}
	// every function of the source in the debug information
	type rng struct {
		s, e int
		id   string
	}
	var rs []rng
	for _, f := range p.funcs {
		id := f.name
		np := len(f.params) // arguments taken by the bytecode
		if f.recv != nil {
			id = f.recv.name + "." + f.name
			np++
		}
		i, ok := dbg[dkey(f.name, f.recv != nil)]
		if !ok {
			// unused functions are not emitted
			continue
		}
		checked++
		m := c.di.Methods[i]
		if f.recv != nil {
			methods++
		}
		if !isASCII(f.name) {
			nonASCII++
		}
		// the receiver is not listed among the debug parameters
		if len(m.Parameters) != len(f.params) {
			add("debug:parameter-count", "%s: debug %d, source %d", id, len(m.Parameters), len(f.params))
		} else {
			for k, a := range f.params {
				if m.Parameters[k].Name != a.name {
					add("debug:parameter-name", "%s parameter %d: debug %q, source %q", id, k, m.Parameters[k].Name, a.name)
					break
				}
			}
		}
		if m.Name.Name != lowerFirst(f.name) {
			add("debug:method-name", "%s: debug name %q, expected %q", id, m.Name.Name, lowerFirst(f.name))
		}
		if m.IsExported != token.IsExported(f.name) {
			add("debug:exported-flag", "%s: debug says %v", id, m.IsExported)
		}
		if len(f.rets) == 0 && m.ReturnType != "Void" {
			add("debug:return-type", "%s: procedure with debug return type %s", id, m.ReturnType)
		}
		s, e := int(m.Range.Start), int(m.Range.End)
		if _, ok := bound[s]; !ok || s > e || e >= len(script) {
			add("debug:range-not-on-instructions", "%s: [%d,%d]", id, s, e)
			continue
		}
		if op, ok := bound[e]; !ok || op != opcode.RET {
			add("debug:range-does-not-end-with-RET", "%s: [%d,%d] ends with %s", id, s, e, op)
		}
		if op := bound[s]; op == opcode.INITSLOT && int(params[s][1]) != np {
			add("debug:bytecode-takes-other-argument-count", "%s: INITSLOT takes %d, source %d", id, params[s][1], np)
		}
		for _, sp := range m.SeqPoints {
			if _, ok := bound[sp.Opcode]; !ok || sp.Opcode < s || sp.Opcode > e {
				add("debug:sequence-point-outside-method-range", "%s: opcode %d, range [%d,%d]", id, sp.Opcode, s, e)
				break
			}
			if f.lines[0] > 0 && sp.Document == 0 && len(c.di.Documents) == 1 && (sp.StartLine < f.lines[0] || sp.EndLine > f.lines[1]) {
				add("debug:sequence-point-outside-function-source", "%s: lines %d-%d, function spans %d-%d", id, sp.StartLine, sp.EndLine, f.lines[0], f.lines[1])
				break
			}
			// a package of several files: a point inside one of the package's own
			// files lies in the file, and on the lines, of the function
			if p.dirCompile && f.lines[0] > 0 && sp.Document >= 0 && sp.Document < len(c.di.Documents) {
				doc := c.di.Documents[sp.Document]
				if filepath.Base(filepath.Dir(doc)) == p.pkg {
					docs++
					if filepath.Base(doc) != f.file || sp.StartLine < f.lines[0] || sp.EndLine > f.lines[1] {
						add("debug:sequence-point-outside-function-source", "%s: %s lines %d-%d, the function spans %s lines %d-%d", id, filepath.Base(doc), sp.StartLine, sp.EndLine, f.file, f.lines[0], f.lines[1])
						break
					}
				}
			}
		}
	}
	// all emitted functions, literals included
	for _, m := range c.di.Methods {
		rs = append(rs, rng{int(m.Range.Start), int(m.Range.End), m.ID})
	}
	sort.Slice(rs, func(i, j int) bool { return rs[i].s < rs[j].s })
	for i := 1; i < len(rs); i++ {
		if rs[i].s <= rs[i-1].e {
			add("debug:overlapping-method-ranges", "%s [%d,%d] and %s [%d,%d]", rs[i-1].id, rs[i-1].s, rs[i-1].e, rs[i].id, rs[i].s, rs[i].e)
		}
	}
	return
}

// classify compares one call on the three executors. "" means agreement.
func classify(nat nativeResult, bare, con vmOutcome, ret ty) (sig, detail string) {
	after := ""
	if bare.catches > 0 {
		after = ":after-recovered-panic"
	}
	// a procedure leaves nothing; System.Contract.Call hands Null to its caller
	wantN := 1
	if ret == tVoid {
		wantN = 0
	}
	okBare := bare.fault == "" && bare.n == wantN && bare.valOK && bare.val == nat.val
	okCon := con.fault == "" && con.n == 1 && con.valOK && con.val == nat.val
	if nat.panicked {
		if bare.fault != "" && con.fault != "" {
			return "", ""
		}
	} else if okBare && okCon {
		return "", ""
	}
	if bare.leftover > 0 {
		// compiled code entered a catch block with items of unwound code still
		// on the evaluation stack
		if !nat.panicked && bare.fault == "" && bare.n > 1 && bare.valOK && bare.val == nat.val &&
			strings.Contains(con.fault, "invalid return values count") {
			return sigLeftover, fmt.Sprintf("Go returns %s; bare VM halts with the same value on top of %d stale items; as a contract method: %s", nat.val, bare.n-1, con.fault)
		}
		return sigLeftoverLater, fmt.Sprintf("Go: %s; bare VM: %s; contract: %s (%d stale items at a catch block)", natStr(nat), outStr(bare), outStr(con), bare.leftover)
	}
	if nat.panicked {
		return "go-panics-vm-returns:" + faultClass(nat.msg) + after, fmt.Sprintf("Go panics (%s); bare VM: %s; contract: %s", nat.msg, outStr(bare), outStr(con))
	}
	switch {
	case strings.Contains(bare.fault, stepBoundMsg):
		return "go-terminates-vm-exceeds-step-bound" + after, fmt.Sprintf("Go returns %s; bare VM: %s; contract: %s", nat.val, bare.fault, outStr(con))
	case bare.fault != "" && con.fault != "":
		return "go-returns-vm-fails:" + faultClass(bare.fault) + after, fmt.Sprintf("Go returns %s; bare VM: %s; contract: %s", nat.val, bare.fault, con.fault)
	case bare.fault == "" && ret == tVoid && bare.n != 0:
		return "stack:bare-vm-leaves-items-after-procedure" + after, fmt.Sprintf("Go returns; bare VM leaves %d items %v; contract: %s", bare.n, bare.stack, outStr(con))
	case bare.fault == "" && bare.n != wantN:
		return "stack:bare-vm-leaves-other-than-one-item" + after, fmt.Sprintf("Go returns %s; bare VM leaves %d items %v; contract: %s", nat.val, bare.n, bare.stack, outStr(con))
	case (bare.fault != "") != (con.fault != ""):
		return "bare-vm-and-contract-call-differ:" + faultClass(bare.fault+con.fault) + after, fmt.Sprintf("Go returns %s; bare VM: %s; contract: %s", nat.val, outStr(bare), outStr(con))
	case !bare.valOK:
		return "result-type:" + typeName(ret, nil) + ":" + bare.val + after, fmt.Sprintf("Go returns %s; VM returns %v", nat.val, bare.stack)
	case bare.val != con.val:
		return "bare-vm-and-contract-call-differ:value" + after, fmt.Sprintf("Go returns %s; bare VM: %s; contract: %s", nat.val, outStr(bare), outStr(con))
	}
	return "value-differs:" + typeName(ret, nil) + after, fmt.Sprintf("Go returns %s; VM returns %s", nat.val, bare.val)
}

func natStr(n nativeResult) string {
	if n.panicked {
		return "panic(" + n.msg + ")"
	}
	return n.val
}

func outStr(o vmOutcome) string {
	if o.fault != "" {
		return "FAULT " + o.fault
	}
	return fmt.Sprintf("HALT %d item(s) top=%s", o.n, o.val)
}

var posRe = regexp.MustCompile(`[^ ]*\.go:\d+(:\d+)?:? ?`)

type stats struct {
	mu   sync.Mutex
	feat map[string]int
}

func TestCheck(t *testing.T) {
	run := ev.Start("C14", "one case = one call (program, exported function, argument tuple, optionally after _deploy) executed by the Go toolchain, on a bare VM through the manifest offset, and as a deployed contract through System.Contract.Call; programs come from a seeded grammar-based generator of the documented dialect, each laid out as a contract package of one to three files with seeded names (some with a sub-package of their own) and compiled from that directory, plus a fixed list of directed programs; a case is distinct by (construct set and layout of its program, function, outcome class) and non-trivial when all three executors ran it (two for the calls after _deploy)")
	defer run.Finish()
	run.Assume("the Go toolchain (go build, offline, scratch module without dependencies) is the reference semantics")
	run.Assume("overflow is excluded by construction: every integer expression carries an interval and is reduced with % m before it can leave 61 bits")
	run.Assume("Go leaves the order of a variable read relative to a call in the same expression unspecified: a statement either reads shared state and calls only pure functions, or calls anything and reads only locals")
	run.Assume("outside the documented dialect and not generated: closures (function literals are generated, they see their own parameters and package state only), goroutines, channels, new, two-value type assertions, struct values (pointers only), sub-slices of non-byte slices, panics in a return statement of a function with defer")
	run.Assume("the manifest name of an exported function is its Go name with the first rune lower-cased (unicode.ToLower); a procedure is Void in the manifest, leaves nothing on a bare VM and hands Null to the caller of System.Contract.Call")
	run.Assume("where a top-level declaration stands (file, position in the file) does not change a Go program, except for the initialisation order of independent package variables, which the layouts keep; _deploy(data any, isUpdate bool) is what the manifest must name _deploy with (Any, Boolean) -> Void, and its effect on package state is observed by running it in the same bare VM between _initialize and the called method (natively: a call of _deploy before the call)")
	run.Assume("constructs that were found to deviate are kept out of the random programs and exercised by directed programs with their own signatures (see directed_test.go)")

	nprog := ev.Pick(150, 12000)
	tuples := 8
	batchSz := ev.Pick(50, 100)
	if s := os.Getenv("C14_PROGRAMS"); s != "" {
		fmt.Sscan(s, &nprog)
	}
	base := int(ev.Seed()) * 1_000_000

	var wanted []*program
	for i := 0; i < nprog; i++ {
		id := fmt.Sprintf("p%d", base+i)
		if !run.Want(id) {
			continue
		}
		p := genProgram(base+i, tuples)
		if os.Getenv("C14_FLAT") != "" {
			// development aid: the programs as the generator wrote them, one file each
			wanted = append(wanted, p)
			continue
		}
		if err := p.layOut(rng.New(uint64(base+i)+17_000_000), true); err != nil {
			t.Fatalf("%s: generated source does not parse: %v", id, err)
		}
		p.addLayoutCalls(rng.New(uint64(base+i) + 18_000_000))
		wanted = append(wanted, p)
	}
	var directedW []*program
	for i, d := range append(directed[:len(directed):len(directed)], directedInside...) {
		if run.Want("directed:" + d.name) {
			directedW = append(directedW, d.program(900_000_000+i))
		}
	}
	var batches [][]*program
	if len(directedW) > 0 {
		batches = append(batches, directedW)
	}
	for len(wanted) > 0 {
		n := min(batchSz, len(wanted))
		batches = append(batches, wanted[:n])
		wanted = wanted[n:]
	}
	st := &stats{feat: map[string]int{}}
	tmp := t.TempDir()
	if err := newVMRoot(filepath.Join(tmp, "vm")); err != nil {
		t.Fatalf("module for directory compilation: %v", err)
	}
	vmRoot = filepath.Join(tmp, "vm")
	par := max(2, min(4, runtime.NumCPU()/4))
	sem := make(chan struct{}, par)
	var wg sync.WaitGroup
	for bi, b := range batches {
		wg.Add(1)
		sem <- struct{}{}
		go func() {
			defer wg.Done()
			defer func() { <-sem }()
			runBatch(t, run, st, filepath.Join(tmp, fmt.Sprintf("b%d", bi)), b)
		}()
	}
	wg.Wait()
	var fl []string
	for k, v := range st.feat {
		fl = append(fl, fmt.Sprintf("%s=%d", k, v))
	}
	sort.Strings(fl)
	run.Note("programs_using_construct", fl)
}

type progResult struct {
	c                  compiled
	nondet             string
	twice              bool
	hash               [20]byte
	bare               []vmOutcome
	con                []vmOutcome
	mf                 []finding
	mfN                int
	mfMeth, mfNonASCII int
	mfDocs             int
	depErr             error
	skipped            bool
}

func runBatch(t *testing.T, run *ev.Run, st *stats, dir string, progs []*program) {
	// native side in the background
	var nb *nativeBatch
	var nerr error
	done := make(chan struct{})
	go func() {
		defer close(done)
		nb, nerr = runNative(dir, progs)
	}()

	res := make([]*progResult, len(progs))
	// compile and run on the bare VM in parallel
	var wg sync.WaitGroup
	sem := make(chan struct{}, 4)
	for i, p := range progs {
		wg.Add(1)
		sem <- struct{}{}
		go func() {
			defer wg.Done()
			defer func() { <-sem }()
			r := &progResult{}
			res[i] = r
			r.c = compileProg(p)
			if r.c.err != nil {
				return
			}
			// the compiler is a function of its input: a second compilation of the
			// same files gives the same bytecode and the same manifest
			if c2 := compileProg(p); c2.err == nil {
				m1, _ := json.Marshal(r.c.m)
				m2, _ := json.Marshal(c2.m)
				switch {
				case !bytes.Equal(r.c.nef.Script, c2.nef.Script):
					r.nondet = fmt.Sprintf("scripts of two compilations differ (%d and %d bytes, checksums %08x and %08x)", len(r.c.nef.Script), len(c2.nef.Script), r.c.nef.Checksum, c2.nef.Checksum)
				case !bytes.Equal(m1, m2):
					r.nondet = "manifests of two compilations differ"
				}
				r.twice = true
			}
			r.mf, r.mfN, r.mfMeth, r.mfNonASCII, r.mfDocs = checkManifest(p, r.c)
			r.bare = make([]vmOutcome, len(p.calls))
			for ci, cs := range p.calls {
				f := p.fn(cs.Fn)
				md := r.c.m.ABI.GetMethod(lowerFirst(cs.Fn), len(cs.Args))
				if md == nil {
					r.bare[ci] = vmOutcome{fault: "harness: method not in manifest"}
					continue
				}
				if (f.ret0() == tVoid) != (md.ReturnType == smartcontract.VoidType) {
					// reported by the manifest clause; the executors cannot agree on a count
					r.bare[ci] = vmOutcome{fault: "harness: manifest return type differs in voidness"}
					continue
				}
				if cs.Pre != "" && r.c.m.ABI.GetMethod(manifest.MethodDeploy, 2) == nil {
					// reported by the manifest clause
					r.bare[ci] = vmOutcome{fault: skipNoDeploy}
					continue
				}
				r.bare[ci] = runBare(r.c, md, cs.Args, f.ret0(), cs.Pre)
			}
		}()
	}
	wg.Wait()
	// deploy on one chain per batch (blocks are sequential), then call
	ce := newChain(t)
	for i, p := range progs {
		r := res[i]
		if r.c.err != nil {
			continue
		}
		h, err := ce.deploy(t, r.c)
		if err != nil {
			r.depErr = err
			continue
		}
		r.hash = h
		_ = p
	}
	for i, p := range progs {
		wg.Add(1)
		sem <- struct{}{}
		go func() {
			defer wg.Done()
			defer func() { <-sem }()
			r := res[i]
			if r.c.err != nil || r.depErr != nil {
				return
			}
			r.con = make([]vmOutcome, len(p.calls))
			for ci, cs := range p.calls {
				if cs.Pre != "" {
					// package state does not outlive an invocation: what _deploy left
					// is visible on the bare VM only
					continue
				}
				r.con[ci] = ce.call(r.hash, lowerFirst(cs.Fn), cs.Args, p.fn(cs.Fn).ret0())
			}
		}()
	}
	wg.Wait()
	<-done
	if nerr != nil {
		run.Inconclusive("native side of a batch failed (%d programs lost): %v", len(progs), nerr)
		run.Obs("programs_lost_native_failure", int64(len(progs)))
		return
	}
	run.ObsMax("native_build_seconds_max", int64(nb.buildS+0.5))
	for i, p := range progs {
		judge(run, st, p, res[i], nb)
	}
}

func (p *program) fn(name string) *fn {
	for _, f := range p.exported {
		if f.name == name {
			return f
		}
	}
	return nil
}

func (p *program) caseID() string {
	if p.directed != "" {
		return "directed:" + p.directed
	}
	return p.pkg
}

func judge(run *ev.Run, st *stats, p *program, r *progResult, nb *nativeBatch) {
	id := p.caseID()
	wit := func(extra map[string]any) map[string]any {
		w := map[string]any{"program": p.pkg, "source": p.src, "constructs": p.feat}
		if p.dirCompile {
			w["files"] = p.files
			w["compiled_as"] = "directory (compiler.CompileWithOptions(dir, nil, opts)), files in the order of their names, imported packages first"
		}
		for k, v := range extra {
			w[k] = v
		}
		return w
	}
	run.Obs("programs", 1)
	if msg, bad := nb.buildErr[p.idx]; bad {
		// the generator produced something Go rejects: a harness defect, never a verdict
		run.Inconclusive("generator: %s does not build natively: %s", p.pkg, tail(msg, 300))
		run.Obs("programs_rejected_by_go", 1)
		return
	}
	if r.c.harnessErr != nil {
		run.Inconclusive("%s: the package directory could not be written: %v", p.pkg, r.c.harnessErr)
		return
	}
	if r.c.err != nil {
		cls := faultClass(posRe.ReplaceAllString(r.c.err.Error(), ""))
		run.Obs("programs_rejected_by_compiler", 1)
		sig := "compiler-rejects-program-go-accepts:" + cls
		if p.directed != "" && !p.regress {
			sig = "dialect-gap:" + p.directed + ":compiler-rejects"
		}
		run.Violation(sig, id, r.c.err.Error(), wit(nil))
		return
	}
	run.Obs("programs_compiled", 1)
	run.Obs("manifest_and_debug_methods_checked", int64(r.mfN))
	run.Obs("debug_methods_with_receiver_checked", int64(r.mfMeth))
	run.Obs("debug_methods_with_non_ascii_name_checked", int64(r.mfNonASCII))
	run.Obs("debug_sequence_points_checked_against_the_file_of_their_function", int64(r.mfDocs))
	if p.dirCompile {
		run.Obs("programs_compiled_from_a_directory", 1)
		run.Obs("program_files_compiled_from_directories", int64(len(p.files)))
	}
	if p.aux != nil {
		run.Obs("programs_importing_a_package_of_their_own", 1)
	}
	if p.deploy {
		run.Obs("programs_with_deploy_function", 1)
		for _, f := range p.feat {
			switch f {
			case "deploy-function:after-file-with-defer":
				run.Obs("programs_with_deploy_function_compiled_after_a_file_with_defer", 1)
			case "deploy-function:before-every-file-with-defer":
				run.Obs("programs_with_deploy_function_compiled_before_every_file_with_defer", 1)
			}
		}
	}
	for _, f := range p.exported {
		if !isASCII(f.name) {
			run.Obs("manifest_methods_with_non_ascii_name_checked", 1)
		}
		if len(f.rets) == 0 {
			run.Obs("exported_procedures", 1)
		}
	}
	for k, v := range p.cnt {
		if o := genObs(k); o != "" {
			run.Obs(o, int64(v))
		}
	}
	st.mu.Lock()
	for _, f := range p.feat {
		st.feat[f]++
	}
	st.mu.Unlock()
	if r.twice {
		run.Obs("programs_compiled_twice_and_compared", 1)
	}
	if r.nondet != "" {
		run.Violation("compile:output-differs-between-compilations", id, r.nondet, wit(nil))
	}
	for _, f := range r.mf {
		sig := f.sig
		if p.directed != "" && !p.regress {
			sig = "dialect-gap:" + p.directed
			f.detail = f.sig + ": " + f.detail
		}
		run.Violation(sig, id, f.detail, wit(nil))
	}
	if r.depErr != nil {
		run.Violation("deploy-rejected:"+faultClass(r.depErr.Error()), id, r.depErr.Error(), wit(nil))
		return
	}
	run.Obs("contracts_deployed", 1)
	nat := nb.results[p.idx]
	fsig := strings.Join(p.feat, ",")
	for ci, cs := range p.calls {
		if ci >= len(nat) || nat[ci].val == "missing" {
			run.Inconclusive("%s call %d: no native result", p.pkg, ci)
			continue
		}
		n, b, c := nat[ci], r.bare[ci], r.con[ci]
		if b.fault == skipNoDeploy {
			run.Obs("calls_after_deploy_skipped_deploy_not_in_manifest", 1)
			continue
		}
		if cs.Pre != "" {
			c = b
			if b.fault == "" && b.n != 1 {
				// what System.Contract.Call would say
				c = vmOutcome{fault: "invalid return values count"}
			}
			if b.fault == "" && b.n == 0 && p.fn(cs.Fn).ret0() == tVoid {
				c = vmOutcome{n: 1, val: "v:", valOK: true}
			}
			run.Obs("calls_after_deploy_function_in_the_same_vm", 1)
		}
		if strings.HasPrefix(b.fault, "harness:") || strings.HasPrefix(c.fault, "harness:") {
			run.Inconclusive("%s call %d: %s %s", p.pkg, ci, b.fault, c.fault)
			continue
		}
		ret := p.fn(cs.Fn).ret0()
		sig, detail := classify(n, b, c, ret)
		cls := "value"
		if n.panicked {
			cls = "fails"
			run.Obs("calls_failing_on_all_sides", 1)
		}
		if b.catches > 0 {
			cls += "+recovered"
			run.Obs("calls_with_recovered_panic", 1)
		}
		if b.leftover > 0 {
			run.Obs("calls_with_stale_items_at_catch", 1)
		}
		if strings.Contains(b.fault, stepBoundMsg) {
			run.Obs("vm_step_bound_hits", 1)
			if b.leftover > 0 {
				run.Obs("vm_step_bound_hits_with_stale_items_at_catch", 1)
			}
		}
		if ci == 0 {
			run.Obs("first_calls_on_fresh_package_state", 1)
		}
		run.Obs("calls", 1)
		run.Obs("vm_instructions", int64(b.steps))
		run.ObsMax("vm_instructions_max_per_call", int64(b.steps))
		if cs.Pre != "" {
			cls += "+after-" + cs.Pre
		}
		run.Case(fsig+"|"+cs.Fn+"|"+cls, true)
		if sig == "" {
			run.Obs("calls_agreeing", 1)
			if ci < 2 && p.idx%50 == 0 {
				run.Sample(map[string]any{"program": p.pkg, "fn": cs.Fn, "args": cs.Args, "result": natStr(n), "constructs": p.feat})
			}
			continue
		}
		if p.directed != "" && !p.regress && sig != sigLeftover && sig != sigLeftoverLater {
			sig = "dialect-gap:" + p.directed
		}
		if cs.Pre != "" {
			detail = "after _deploy(nil, " + fmt.Sprint(cs.Pre == "update") + ") in the same VM: " + detail
		}
		run.Violation(sig, id, fmt.Sprintf("%s.%s%s: %s", p.pkg, cs.Fn, argsStr(cs.Args), detail), wit(map[string]any{
			"function": cs.Fn, "args": cs.Args, "call_index": ci, "go": natStr(n), "after_deploy": cs.Pre,
			"bare_vm":       map[string]any{"fault": b.fault, "stack_bottom_to_top": b.stack, "stale_items_at_catch": b.leftover, "catches": b.catches},
			"contract_call": map[string]any{"fault": c.fault, "stack": c.stack},
		}))
	}
}

// genObs maps a construct of the generator to the counter it is reported under.
func genObs(k string) string {
	switch {
	case k == "procedure":
		return "procedures_generated"
	case k == "procedure-call":
		return "procedure_call_statements"
	case k == "procedure-call-in-loop":
		return "procedure_call_statements_inside_loops"
	case k == "tail-procedure-call":
		return "tail_procedure_call_statements"
	case k == "recover-after-recovered-panic":
		return "recover_after_recovered_panic_templates"
	case k == "array-template":
		return "array_templates"
	case k == "array-copy-by-assignment" || k == "array-element-copied" || k == "array-element-assigned" || k == "array-passed-by-value" || k == "array-range-value-written":
		return "array_copies_written_and_compared"
	case k == "guarded-operand-as-value":
		return "guarded_boolean_operands_used_as_values"
	case strings.HasPrefix(k, "guarded-operand:") && k != "guarded-operand:nested-or-mixed":
		return "guarded_boolean_operands"
	case k == "keyed-literal":
		return "keyed_literal_templates"
	case k == "literal-element-without-key-after-key":
		return "literal_elements_without_key_following_a_keyed_element"
	case k == "lambda":
		return "function_literals"
	case k == "lambda-procedure":
		return "function_literals_without_result"
	case k == "tail:procedure-falls-off-the-end" || k == "tail:procedure-bare-return":
		return ""
	case strings.HasSuffix(k, "-without-else:returns-in-all") && strings.HasPrefix(k, "tail:else-if-chain"):
		return "tails_else_if_chain_without_else_every_branch_returning"
	case strings.HasPrefix(k, "tail:"):
		return "function_bodies_ending_in_compound_statement"
	}
	return ""
}

func argsStr(a []argSpec) string {
	var s []string
	for _, x := range a {
		s = append(s, goLit(x))
	}
	return "(" + strings.Join(s, ", ") + ")"
}

package c14

// How generated functions end, and function literals.
//
// The compiler decides per function whether an epilogue (deferred calls + RET)
// has to follow the body, and per return statement what has to be dropped and
// which deferred calls run. The last statement of a generated function is
// therefore drawn from every shape Go accepts there:
//
//   - functions with results: any *terminating statement* of the Go
//     specification — return, a block ending in one, if / else-if / else whose
//     branches all terminate, a switch with a default whose clauses all
//     terminate (or fall through), a `for` without condition, a labelled
//     terminating statement, a call of panic;
//   - procedures (no results): the same, and every non-terminating variant of
//     them — no return at all, a chain without a final else, returns in some
//     branches only, a switch without default, a loop with a return inside.
//
// A procedure's only effect is what it writes to package state, so every path
// through its tail first folds a mark into `acc` and then `acc` into `glog`
// (which every function folds into its result).

import (
	"fmt"
	"strings"
)

// sink makes the accumulator of a procedure observable.
func (g *gen) sink() {
	g.w("glog = (glog*31 + acc%%%d + %d) %% %d", modBig, modBig, modBig)
}

// tail emits the end of the body of g.cur.
func (g *gen) tail() {
	f := g.cur
	proc := len(f.rets) == 0
	on, op := g.noHeap, g.pureOnly
	g.noHeap, g.pureOnly = false, true
	defer func() { g.noHeap, g.pureOnly = on, op }()
	if f.name == "pure0" {
		g.ret(false)
		return
	}
	if proc {
		g.sink()
		switch x := g.r.Intn(10); {
		case x < 2:
			g.f("tail:procedure-falls-off-the-end")
			return
		case x < 3:
			g.f("tail:procedure-bare-return")
			g.w("return")
			return
		}
		g.tailStmt(2, false)
		if g.r.Intn(5) == 0 {
			// something after the compound statement
			g.mark()
			g.sink()
			if g.r.Bool() {
				g.w("return")
			}
		}
		return
	}
	if g.r.Intn(5) < 2 {
		g.ret(false)
		return
	}
	g.tailStmt(2, true)
}

func (g *gen) tailCond() string {
	if g.r.Intn(5) == 0 {
		n := g.fresh("t")
		e, iv := g.intExpr(1)
		e, _ = fit(e, iv, 1<<31)
		return fmt.Sprintf("%s := %s; %s > %d", n, e, n, g.r.Intn(20)-10)
	}
	return g.cond(1)
}

// leaf ends one path: a return statement, or (procedures, term == false) a
// final write of the log without one.
func (g *gen) leaf(term bool) {
	if len(g.cur.rets) > 0 {
		g.ret(true)
		return
	}
	if term || g.r.Intn(3) > 0 {
		g.ret(true)
		return
	}
	g.sink()
}

// tailBody is the body of one branch of a tail statement.
func (g *gen) tailBody(d int, term bool) {
	g.lvl++
	sv := len(g.scope)
	g.ind++
	g.mark()
	if g.r.Intn(3) == 0 {
		g.assign(0)
	}
	if d > 0 && g.r.Intn(3) == 0 {
		g.tailStmt(d-1, term)
	} else {
		g.leaf(term)
	}
	g.ind--
	g.scope = g.scope[:sv]
	g.lvl--
}

// tailStmt emits a statement list ending the current block. With term the list
// ends in a terminating statement; without (procedures only) every compound
// shape also comes in its non-terminating variants.
func (g *gen) tailStmt(d int, term bool) {
	k := g.r.Intn(10)
	if !term {
		// procedures: mostly the shapes whose end is reachable
		k = []int{0, 1, 1, 2, 2, 3, 3, 3, 4, 4, 4, 5, 6, 7, 8, 9, 9, 9}[g.r.Intn(18)]
	}
	if d <= 0 {
		k = 0
	}
	// all: every branch of this statement ends in a return
	all := term || g.r.Intn(5) < 3
	kind := "some"
	if all {
		kind = "all"
	}
	switch k {
	case 0:
		g.leaf(term)
	case 1, 2, 3:
		n := 1 + g.r.Intn(3)
		hasElse := term || g.r.Intn(3) == 0
		for i := range n {
			if i == 0 {
				g.w("if %s {", g.tailCond())
			} else {
				g.w("} else if %s {", g.tailCond())
			}
			g.tailBody(d-1, all)
		}
		if hasElse {
			g.w("} else {")
			g.tailBody(d-1, all)
		}
		g.w("}")
		sh := "if"
		if n > 1 {
			sh = "else-if-chain"
		}
		if hasElse {
			g.f("tail:" + sh + "-with-else:returns-in-" + kind)
		} else {
			g.f("tail:" + sh + "-without-else:returns-in-" + kind)
		}
	case 4, 5:
		hasDefault := term || g.r.Bool()
		var cases []string
		if g.r.Bool() {
			g.w("switch {")
			for range 1 + g.r.Intn(2) {
				cases = append(cases, "case "+g.nonConstBool()+":")
			}
		} else {
			g.w("switch acc %% 4 {")
			cases = []string{"case 0:", "case 1, -1:", "case 2, -2, 3:"}[:1+g.r.Intn(3)]
		}
		// `default` last only, see "switch-with-early-default-reorders-clauses"
		if hasDefault {
			cases = append(cases, "default:")
		}
		g.swDepth++
		for i, c := range cases {
			g.w("%s", c)
			if i < len(cases)-1 && g.r.Intn(5) == 0 {
				g.ind++
				g.mark()
				g.w("fallthrough")
				g.ind--
				g.f("fallthrough")
				continue
			}
			g.tailBody(d-1, all)
		}
		g.swDepth--
		g.w("}")
		if hasDefault {
			g.f("tail:switch-with-default:returns-in-" + kind)
		} else {
			g.f("tail:switch-without-default:returns-in-" + kind)
		}
	case 6:
		// `for` without condition: left by return only
		kv := g.fresh("k")
		n := 1 + g.r.Intn(3)
		if g.r.Bool() {
			g.w("for %s := 0; ; %s++ {", kv, kv)
		} else {
			g.w("%s := 0", kv)
			g.w("for {")
			g.w("\t%s++", kv)
		}
		g.ind++
		g.w("if %s >= %d {", kv, n)
		g.tailBody(0, true)
		g.w("}")
		if g.r.Bool() {
			g.w("if %s {", g.cond(1))
			g.tailBody(d-1, true)
			g.w("}")
		}
		g.mark()
		g.ind--
		g.w("}")
		g.f("tail:for-without-condition")
	case 7:
		g.w("{")
		g.tailBody(d-1, term)
		g.w("}")
		g.f("tail:block")
	case 8:
		// labelled loop left by return, `continue L` from an inner loop
		l, kv, j := g.fresh("L"), g.fresh("k"), g.fresh("j")
		g.sb.WriteString(strings.Repeat("\t", g.ind) + l + ":\n")
		g.w("for %s := 0; ; %s++ {", kv, kv)
		g.ind++
		g.w("if %s >= %d {", kv, 1+g.r.Intn(3))
		g.tailBody(0, true)
		g.w("}")
		if g.r.Bool() {
			g.w("for %s := range 2 {", j)
		} else {
			g.w("for _, %s := range []int{0, 1} {", j)
		}
		g.w("\tif (acc+%s+%s)%%2 == 0 {", j, kv)
		g.w("\t\tcontinue %s", l)
		g.w("\t}")
		g.ind++
		g.mark()
		g.ind--
		g.w("}")
		g.mark()
		g.ind--
		g.w("}")
		g.f("tail:labelled-for-without-condition")
		g.f("label")
	default:
		if term {
			// every path before the end returns, the end itself panics
			if g.noPanic {
				g.leaf(true)
				return
			}
			g.w("if %s {", g.tailCond())
			g.tailBody(d-1, true)
			g.w("}")
			g.cur.mayPanic = true
			g.w("panic(\"end\")")
			g.f("tail:panic")
			g.f("explicit-panic")
			return
		}
		// a loop with a return inside as the last statement of a procedure
		switch g.r.Intn(3) {
		case 0:
			i := g.fresh("i")
			g.w("for %s := 0; %s < %d; %s++ {", i, i, 1+g.r.Intn(3), i)
			g.w("\tif (acc+%s)%%%d == 0 {", i, 2+g.r.Intn(2))
		case 1:
			x := g.fresh("x")
			g.w("for _, %s := range %s {", x, g.intsLit(1, 100))
			g.w("\tif (acc+%s)%%%d == 0 {", x, 2+g.r.Intn(2))
		default:
			i := g.fresh("i")
			g.w("for %s := range %d {", i, 1+g.r.Intn(3))
			g.w("\tif (acc+%s)%%%d == 0 {", i, 2+g.r.Intn(2))
		}
		g.ind++
		g.tailBody(d-1, all)
		g.w("}")
		g.mark()
		g.ind--
		g.w("}")
		g.f("tail:loop-with-return-inside:returns-in-" + kind)
	}
}

// lambdaStmt declares a function literal and calls it. Literals see their own
// parameters and package state only (closures are outside the dialect).
func (g *gen) lambdaStmt(depth int) {
	// not in init itself: see the directed case "function-literal-inside-init"
	if g.noCalls || g.inLambda || g.cur == nil || g.cur.name == "pure0" || g.cur.name == "init" {
		g.assign(depth)
		return
	}
	outer := g.cur
	lf := &fn{name: g.fresh("fl"), retBound: modBig - 1, lambda: true, grouped: g.r.Intn(3) == 0}
	if g.r.Intn(3) == 0 {
		lf.name = g.fresh("λ")
	}
	// one parameter at most: see the directed case
	// "function-literal-with-two-parameters-receives-them-reversed"
	np := g.r.Intn(2)
	for _, n := range g.names.params(np) {
		lf.params = append(lf.params, &vr{name: n, t: tInt, bound: 1 << 31})
	}
	if g.r.Intn(5) < 3 {
		lf.rets = []ty{tInt}
	}
	// arguments first: they are expressions of the enclosing function
	on, op := g.noHeap, g.pureOnly
	g.noHeap, g.pureOnly = true, false
	ncall := 1 + g.r.Intn(2)
	var argl []string
	for range ncall + 1 {
		a, _ := g.args(lf, 1)
		argl = append(argl, a)
	}
	g.noHeap, g.pureOnly = on, op

	immediate := len(lf.rets) == 0 && g.r.Intn(3) == 0
	plan := fnPlan{f: lf, stmts: 1 + g.r.Intn(4), depth: 1, noUnc: g.noUnc}
	head := strings.TrimPrefix(lf.sig(), "func "+lf.name)
	if immediate {
		plan.hdr = "func" + head + " {"
		plan.ftr = "}(" + argl[0] + ")"
		// see the directed case "package-variable-used-only-in-function-literal-called-in-place"
		plan.onlyLog = true
		g.f("lambda-called-in-place")
	} else {
		plan.hdr = lf.name + " := func" + head + " {"
		plan.ftr = "}"
	}
	// the body is a function of its own
	nps, ol := g.nilPtrs, g.onlyLog
	defer func() { g.nilPtrs, g.onlyLog = nps, ol }()
	sc, nv, lv, lp, sw, hd, nu, bu, fd := g.scope, g.nvar, g.lvl, g.loops, g.swDepth, g.hasDefer, g.noUnc, g.budget, g.forceDecl
	g.scope, g.swDepth, g.inLambda = nil, 0, true
	g.genFunc(plan)
	g.scope, g.nvar, g.lvl, g.loops, g.swDepth, g.hasDefer, g.noUnc, g.budget, g.forceDecl = sc, max(nv, g.nvar), lv, lp, sw, hd, nu, bu, fd
	g.inLambda = false
	g.cur = outer
	g.noteCall(lf)
	g.f("lambda")
	if len(lf.rets) == 0 {
		g.f("lambda-procedure")
	}
	if immediate {
		return
	}
	call := func(a string) {
		if len(lf.rets) == 0 {
			g.w("%s(%s)", lf.name, a)
			return
		}
		r := g.fresh("r")
		g.w("%s := %s(%s)", r, lf.name, a)
		g.w("acc = (acc*31 + %s) %% %d", r, modBig)
	}
	call(argl[0])
	if ncall > 1 {
		if g.r.Bool() {
			i := g.fresh("i")
			g.w("for %s := range %d {", i, 2+g.r.Intn(2))
			g.ind++
			g.w("_ = %s", i)
			call(argl[1])
			g.ind--
			g.w("}")
			g.f("lambda-called-in-loop")
		} else {
			call(argl[1])
		}
	}
}

// callTailProcs calls the small procedures of the program on a few arguments
// each, so that their last statements are reached with different branches
// taken, and with none.
func (g *gen) callTailProcs() {
	for _, t := range g.callable(func(f *fn) bool { return f.tailProc }) {
		if g.r.Intn(3) == 0 {
			continue
		}
		g.noteCall(t)
		g.f("tail-procedure-call")
		switch g.r.Intn(3) {
		case 0:
			g.w("%s(acc %% %d)", t.name, 2+g.r.Intn(9))
		case 1:
			i := g.fresh("i")
			g.w("for %s := range %d {", i, 2+g.r.Intn(3))
			g.w("\t%s(%s + acc%%3)", t.name, i)
			g.w("}")
		default:
			g.w("%s(%d)", t.name, g.r.Intn(7)-1)
			g.w("%s(acc)", t.name)
		}
	}
}

// callRecoverPair calls the function that panics and recovers and then the one
// whose deferred function reports what recover() returns without a panic: a
// recovered panic must not be visible to a later recover() of the invocation.
func (g *gen) callRecoverPair() {
	ps := g.callable(func(f *fn) bool { return f.rcPanics })
	qs := g.callable(func(f *fn) bool { return f.rcWatch })
	if len(ps) == 0 || len(qs) == 0 || g.r.Intn(5) == 0 {
		return
	}
	rp, rq := ps[0], qs[0]
	g.noteCall(rp)
	g.noteCall(rq)
	g.f("recover-after-recovered-panic")
	pair := func(pa, qa string) {
		a, b := g.fresh("r"), g.fresh("r")
		g.w("%s := %s(%s)", a, rp.name, pa)
		g.w("%s := %s(%s)", b, rq.name, qa)
		g.w("acc = (acc*31 + %s + %s%%1000) %% %d", a, b, modBig)
	}
	// an argument on which rp surely panics
	hit := fmt.Sprintf("%d + %d*((acc%%3+3)%%3)", rp.guardC, rp.guardK)
	switch g.r.Intn(3) {
	case 0:
		pair(hit, "acc % 9")
	case 1:
		i := g.fresh("i")
		g.w("for %s := range %d {", i, 2+g.r.Intn(3))
		g.ind++
		pair(i+" + acc%2", i)
		g.ind--
		g.w("}")
		pair(hit, "3")
	default:
		i := g.fresh("i")
		g.w("for %s := range 2 {", i)
		g.ind++
		pair(hit+" + "+fmt.Sprint(rp.guardK)+"*"+i, "acc%7 + "+i)
		g.ind--
		g.w("}")
	}
}

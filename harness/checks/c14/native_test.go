package c14

// Native side of the differential: one scratch Go module per batch, one
// package per program plus a generated main, built and run by the Go toolchain
// in a clean, offline environment.

import (
	"bytes"
	"context"
	"fmt"
	"os"
	"os/exec"
	"path/filepath"
	"regexp"
	"strconv"
	"strings"
	"time"
)

func repoDir() string {
	if d := os.Getenv("VERIF_REPO"); d != "" {
		return d
	}
	return "/repo"
}

func copyTree(src, dst string) error {
	return filepath.Walk(src, func(p string, info os.FileInfo, err error) error {
		if err != nil {
			return err
		}
		rel, _ := filepath.Rel(src, p)
		if info.IsDir() {
			return os.MkdirAll(filepath.Join(dst, rel), 0o755)
		}
		b, err := os.ReadFile(p)
		if err != nil {
			return err
		}
		return os.WriteFile(filepath.Join(dst, rel), b, 0o644)
	})
}

func goLit(a argSpec) string {
	switch a.T {
	case tInt:
		return strconv.FormatInt(a.I, 10)
	case tBool:
		return strconv.FormatBool(a.B)
	case tStr:
		return strconv.Quote(a.S)
	default:
		var b []string
		for _, c := range []byte(a.S) {
			b = append(b, strconv.Itoa(int(c)))
		}
		return "[]byte{" + strings.Join(b, ", ") + "}"
	}
}

const nativeMainHead = `package main

import (
	"bufio"
	"encoding/hex"
	"fmt"
	"os"
	"strings"
%s)

func enc(v any) string {
	switch x := v.(type) {
	case nil:
		return "v:"
	case int:
		return fmt.Sprintf("i:%%d", x)
	case bool:
		return fmt.Sprintf("b:%%v", x)
	case string:
		return "s:" + hex.EncodeToString([]byte(x))
	case []byte:
		return "s:" + hex.EncodeToString(x)
	case []int:
		var s []string
		for _, e := range x {
			s = append(s, fmt.Sprint(e))
		}
		return "a:" + strings.Join(s, ",")
	}
	return "?"
}

func run(w *bufio.Writer, p, c int, f func() any) {
	defer func() {
		if r := recover(); r != nil {
			fmt.Fprintf(w, "%%d %%d PANIC %%s\n", p, c, strings.ReplaceAll(fmt.Sprint(r), "\n", " "))
		}
	}()
	v := f()
	fmt.Fprintf(w, "%%d %%d %%s\n", p, c, enc(v))
}

func main() {
	w := bufio.NewWriter(os.Stdout)
	defer w.Flush()
%s}
`

// nativeResult is the outcome of one call: value encoding or panic.
type nativeResult struct {
	panicked bool
	val      string // "i:5", "b:true", "s:<hex>", "a:1,2"
	msg      string
}

type nativeBatch struct {
	results  map[int][]nativeResult // program index -> per call
	buildErr map[int]string         // programs the Go toolchain rejected
	buildS   float64
	runS     float64
}

var pkgErrRe = regexp.MustCompile(`(?m)^(?:\./)?([pd]\d+)/(?:\w+/)?\w+\.go:\d+`)

// runNative builds and runs the batch; programs that do not build are dropped
// (reported by the caller as generator errors) and the build is retried.
func runNative(dir string, progs []*program) (*nativeBatch, error) {
	nb := &nativeBatch{results: map[int][]nativeResult{}, buildErr: map[int]string{}}
	if err := os.MkdirAll(dir, 0o755); err != nil {
		return nil, err
	}
	mod := "module " + modPath + "\n\ngo 1.23\n\nrequire github.com/nspcc-dev/neo-go v0.0.0\n\nreplace github.com/nspcc-dev/neo-go => ./neogo\n"
	if err := os.WriteFile(filepath.Join(dir, "go.mod"), []byte(mod), 0o644); err != nil {
		return nil, err
	}
	// the inlined helper packages are plain Go: a stub module carries a copy
	stub := filepath.Join(dir, "neogo")
	if err := os.MkdirAll(stub, 0o755); err != nil {
		return nil, err
	}
	if err := os.WriteFile(filepath.Join(stub, "go.mod"), []byte("module github.com/nspcc-dev/neo-go\n\ngo 1.23\n"), 0o644); err != nil {
		return nil, err
	}
	if err := copyTree(filepath.Join(repoDir(), "pkg/compiler/testdata/inline"), filepath.Join(stub, "pkg/compiler/testdata/inline")); err != nil {
		return nil, err
	}
	// Go equivalents of the opcode wrappers of pkg/interop/math and util, on
	// the argument domains the generator keeps to
	for name, src := range map[string]string{"math/math.go": nativeMath, "util/util.go": nativeUtil} {
		f := filepath.Join(stub, "pkg/interop", name)
		if err := os.MkdirAll(filepath.Dir(f), 0o755); err != nil {
			return nil, err
		}
		if err := os.WriteFile(f, []byte(src), 0o644); err != nil {
			return nil, err
		}
	}
	for _, p := range progs {
		d := filepath.Join(dir, p.pkg)
		if err := os.MkdirAll(d, 0o755); err != nil {
			return nil, err
		}
		for _, f := range p.fileList() {
			if err := os.WriteFile(filepath.Join(d, f.Name), []byte(f.Text), 0o644); err != nil {
				return nil, err
			}
		}
		if err := os.WriteFile(filepath.Join(d, nativeResetFile), []byte(p.reset), 0o644); err != nil {
			return nil, err
		}
		if p.reset2 != "" {
			if err := os.WriteFile(filepath.Join(d, "zz_native_reset2.go"), []byte(p.reset2), 0o644); err != nil {
				return nil, err
			}
		}
		if p.aux != nil {
			ad := filepath.Join(d, p.aux.name)
			if err := os.MkdirAll(ad, 0o755); err != nil {
				return nil, err
			}
			for _, f := range append([]srcFile{{Name: nativeResetFile, Text: p.aux.native}}, p.aux.files...) {
				if err := os.WriteFile(filepath.Join(ad, f.Name), []byte(f.Text), 0o644); err != nil {
					return nil, err
				}
			}
		}
	}
	env := []string{"GOFLAGS=-mod=mod", "GOPROXY=off", "GOWORK=off", "GOTOOLCHAIN=local"}
	for _, e := range os.Environ() {
		k := e[:strings.IndexByte(e, '=')]
		switch k {
		case "GOFLAGS", "GOPROXY", "GOWORK", "GOTOOLCHAIN":
		default:
			env = append(env, e)
		}
	}
	live := append([]*program(nil), progs...)
	bin := filepath.Join(dir, "native.bin")
	t0 := time.Now()
	for attempt := 0; ; attempt++ {
		var imports, body strings.Builder
		for _, p := range live {
			fmt.Fprintf(&imports, "\t%s \"%s/%s\"\n", p.pkg, modPath, p.pkg)
			resetFn := "ResetGlobals"
			if p.resetFn != "" {
				resetFn = p.resetFn
			}
			for ci, c := range p.calls {
				if ci > 0 {
					fmt.Fprintf(&body, "\t%s.%s()\n", p.pkg, resetFn)
				}
				var as []string
				for _, a := range c.Args {
					as = append(as, goLit(a))
				}
				pre := ""
				if c.Pre != "" {
					pre = fmt.Sprintf("%s.RunDeploy(%v); ", p.pkg, c.Pre == "update")
				}
				if p.fn(c.Fn).ret0() == tVoid {
					fmt.Fprintf(&body, "\trun(w, %d, %d, func() any { %s%s.%s(%s); return nil })\n", p.idx, ci, pre, p.pkg, c.Fn, strings.Join(as, ", "))
					continue
				}
				fmt.Fprintf(&body, "\trun(w, %d, %d, func() any { %sreturn %s.%s(%s) })\n", p.idx, ci, pre, p.pkg, c.Fn, strings.Join(as, ", "))
			}
		}
		if err := os.WriteFile(filepath.Join(dir, "main.go"), []byte(fmt.Sprintf(nativeMainHead, imports.String(), body.String())), 0o644); err != nil {
			return nil, err
		}
		ctx, cancel := context.WithTimeout(context.Background(), 10*time.Minute)
		cmd := exec.CommandContext(ctx, "go", "build", "-o", bin, ".")
		cmd.Dir = dir
		cmd.Env = env
		var stderr bytes.Buffer
		cmd.Stderr = &stderr
		err := cmd.Run()
		cancel()
		if err == nil {
			break
		}
		bad := map[string]bool{}
		for _, m := range pkgErrRe.FindAllStringSubmatch(stderr.String(), -1) {
			bad[m[1]] = true
		}
		if len(bad) == 0 || attempt > 4 {
			return nil, fmt.Errorf("native build failed: %v\n%s", err, stderr.String())
		}
		var keep []*program
		for _, p := range live {
			if bad[p.pkg] {
				msg := ""
				for _, l := range strings.Split(stderr.String(), "\n") {
					if strings.Contains(l, p.pkg+"/") {
						msg += l + "\n"
					}
				}
				nb.buildErr[p.idx] = msg
			} else {
				keep = append(keep, p)
			}
		}
		live = keep
	}
	nb.buildS = time.Since(t0).Seconds()
	t1 := time.Now()
	ctx, cancel := context.WithTimeout(context.Background(), 10*time.Minute)
	defer cancel()
	cmd := exec.CommandContext(ctx, bin)
	cmd.Dir = dir
	cmd.Env = []string{"GOMAXPROCS=2", "GOTRACEBACK=single"}
	var stdout, stderr bytes.Buffer
	cmd.Stdout = &stdout
	cmd.Stderr = &stderr
	if err := cmd.Run(); err != nil {
		return nil, fmt.Errorf("native run failed: %v\n%s", err, tail(stderr.String(), 4000))
	}
	nb.runS = time.Since(t1).Seconds()
	for _, l := range strings.Split(stdout.String(), "\n") {
		if l == "" {
			continue
		}
		f := strings.SplitN(l, " ", 4)
		if len(f) < 3 {
			return nil, fmt.Errorf("native output: bad line %q", l)
		}
		pi, _ := strconv.Atoi(f[0])
		ci, _ := strconv.Atoi(f[1])
		r := nativeResult{val: f[2]}
		if f[2] == "PANIC" {
			r.panicked = true
			r.val = ""
			if len(f) > 3 {
				r.msg = f[3]
			}
		}
		for len(nb.results[pi]) <= ci {
			nb.results[pi] = append(nb.results[pi], nativeResult{val: "missing"})
		}
		nb.results[pi][ci] = r
	}
	return nb, nil
}

func tail(s string, n int) string {
	if len(s) > n {
		return s[len(s)-n:]
	}
	return s
}

const nativeMath = `package math

func Abs(a int) int {
	if a < 0 {
		return -a
	}
	return a
}

func Sign(a int) int {
	switch {
	case a < 0:
		return -1
	case a > 0:
		return 1
	}
	return 0
}

func Pow(a, b int) int {
	if b < 0 {
		panic("invalid exponent")
	}
	r := 1
	for ; b > 0; b-- {
		r *= a
	}
	return r
}

func Sqrt(x int) int {
	if x < 0 {
		panic("negative value")
	}
	r := 0
	for (r+1)*(r+1) <= x {
		r++
	}
	return r
}

func Within(x, a, b int) bool { return a <= x && x < b }

func ModMul(a, b, mod int) int { return a * b % mod }

func ModPow(a, b, mod int) int {
	if b < 0 || a < 0 || mod <= 0 {
		panic("outside the generated domain")
	}
	r := 1 % mod
	for ; b > 0; b-- {
		r = r * (a % mod) % mod
	}
	return r
}
`

const nativeUtil = `package util

func Equals(a, b any) bool { return a == b }
`

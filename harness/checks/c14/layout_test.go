package c14

// Layout of a program as a contract package. A contract is a Go package: any
// number of files, compiled in the order of their names, plus the packages it
// imports (compiled first). Where a top-level declaration stands must never
// change what the program does, so every generated program is spread over one
// to three files with seeded names (and, for some, a sub-package of its own),
// and both sides build that very directory: the Go toolchain as a package of a
// scratch module, pkg/compiler through CompileWithOptions(dir, nil, ...).
//
// Every program also gets a little deployment state: a package variable, a
// `_deploy(data any, isUpdate bool)` function writing it (for two programs out
// of three), an exported function reading it after a panic was recovered in a
// helper. `_deploy` is what the Management contract runs when the contract is
// deployed or updated: the manifest and the debug information have to name it,
// and a call made after it (in the same VM, as a native call after RunDeploy on
// the Go side) has to see its effects.

import (
	"fmt"
	"go/ast"
	"go/parser"
	"go/token"
	"sort"
	"strings"

	"github.com/nspcc-dev/neo-go/verifharness/vlib/rng"
)

// modPath is the module both sides place the programs in (the harness module
// itself on the VM side, a scratch module of the same path on the native side),
// so that a program imports its sub-package by the same path on both.
const modPath = "github.com/nspcc-dev/neo-go/verifharness"

type srcFile struct {
	Name string `json:"name"`
	Text string `json:"text"`
}

// auxPkg is a package of the program's own, imported by its main package.
type auxPkg struct {
	name   string
	files  []srcFile
	native string // native-only file with ResetGlobals
}

// nativeResetFile is never used as the name of a program file.
const nativeResetFile = "zz_native_reset.go"

// names sort in byte order: digits, upper case, lower case
var fileNames = []string{"a_logic", "b_setup", "contract", "deploy", "helpers", "m_types", "state", "util", "z_last", "0first", "Zupper", "main", "k", "x_1", "Types", "defs2"}

var auxNames = []string{"helper", "lib", "zstore", "Guard"}

type declKind uint8

const (
	dOther declKind = iota
	dVar
	dFunc
)

type topDecl struct {
	kind     declKind
	text     string
	hasDefer bool
	isDeploy bool
	isInit   bool
}

// splitDecls cuts a source file into its top-level declarations (import
// declarations dropped: every file gets the imports its text needs).
func splitDecls(src string) ([]topDecl, error) {
	fset := token.NewFileSet()
	f, err := parser.ParseFile(fset, "p.go", src, parser.ParseComments)
	if err != nil {
		return nil, err
	}
	off := func(p token.Pos) int { return fset.Position(p).Offset }
	var out []topDecl
	for _, d := range f.Decls {
		var td topDecl
		start := d.Pos()
		switch n := d.(type) {
		case *ast.GenDecl:
			if n.Tok == token.IMPORT {
				continue
			}
			if n.Tok == token.VAR {
				td.kind = dVar
			}
			if n.Doc != nil {
				start = n.Doc.Pos()
			}
		case *ast.FuncDecl:
			td.kind = dFunc
			if n.Doc != nil {
				start = n.Doc.Pos()
			}
			td.isDeploy = n.Name.Name == "_deploy" && n.Recv == nil
			td.isInit = n.Name.Name == "init" && n.Recv == nil
			ast.Inspect(n, func(x ast.Node) bool {
				if _, ok := x.(*ast.DeferStmt); ok {
					td.hasDefer = true
				}
				return true
			})
		}
		td.text = src[off(start):off(d.End())]
		out = append(out, td)
	}
	return out, nil
}

func fileText(pkg string, decls []topDecl) string {
	var b []string
	for _, d := range decls {
		b = append(b, d.text)
	}
	body := strings.Join(b, "\n\n") + "\n"
	return fmt.Sprintf("package %s\n\n", pkg) + importsFor(body) + body
}

const markGuardSrc = `func markGuard(x int) int {
	defer func() {
		if r := recover(); r != nil {
			stateMark = stateMark*10 + 7
		}
	}()
	if x%2 == 0 {
		panic("mark guard")
	}
	return x % 5
}`

// layOut spreads the program over files and adds the deployment state. The
// package variables keep their order over the files (the compiler initialises
// them in source order, see the directed case
// "package-variable-initialization-order"); everything else goes anywhere.
func (p *program) layOut(r *rng.R, generated bool) error {
	decls, err := splitDecls(p.src)
	if err != nil {
		return err
	}
	p.deploy = r.Intn(3) > 0
	nfiles := []int{1, 1, 2, 2, 2, 3, 3, 2}[r.Intn(8)]
	withAux := r.Intn(4) == 0
	ownFile := nfiles > 1 && r.Intn(4) == 0 // `_deploy` shares its file with no other function

	// ---- the deployment state
	resetAll := []string{"ResetGlobals()", "stateMark = 1"}
	stateBody := []string{"r := markGuard(a0)"}
	ret := "stateMark*1000 + r*100 + a0%7"
	if withAux {
		an := auxNames[r.Intn(len(auxNames))]
		ap := strings.ToLower(an)
		withDefer := r.Intn(3) > 0
		p.aux = newAux(p.pkg, an, ap, withDefer, r.Bool(), r.Bool())
		resetAll = append([]string{ap + ".ResetGlobals()"}, resetAll...)
		stateBody = append(stateBody,
			fmt.Sprintf("x := %s.Guard(a0)", ap),
			fmt.Sprintf("bx := &%s.Box{N: 2}", ap),
			"y := bx.Add(a0 % 50)",
			fmt.Sprintf("z := %s.Count", ap))
		ret = "stateMark*100000 + r*10000 + (x+y*3+z*5)%10000"
	}
	extra := []topDecl{
		{kind: dFunc, hasDefer: true, text: markGuardSrc},
		{kind: dFunc, text: "func StateMark(a0 int) int {\n\t" + strings.Join(stateBody, "\n\t") + "\n\treturn " + ret + "\n}"},
	}
	if p.deploy {
		var b []string
		b = append(b, "if isUpdate {", "\tstateMark = stateMark*10 + 3", "} else {", "\tstateMark = stateMark*10 + 2", "}")
		if generated {
			b = append(b, fmt.Sprintf("note(%d)", 1+r.Intn(8)))
		}
		if withAux && r.Bool() {
			b = append(b, fmt.Sprintf("stateMark += %s.Guard(stateMark)", strings.ToLower(p.aux.name)))
		}
		extra = append(extra, topDecl{kind: dFunc, isDeploy: true, text: "func _deploy(data any, isUpdate bool) {\n\t" + strings.Join(b, "\n\t") + "\n}"})
	}
	// variables in their order, the new one somewhere among them
	var vars, rest []topDecl
	for _, d := range decls {
		if d.kind == dVar {
			vars = append(vars, d)
		} else {
			rest = append(rest, d)
		}
	}
	at := r.Intn(len(vars) + 1)
	vars = append(vars[:at:at], append([]topDecl{{kind: dVar, text: "var stateMark = 1"}}, vars[at:]...)...)
	rest = append(rest, extra...)

	// ---- files
	names := map[string]bool{}
	var fnames []string
	for len(fnames) < nfiles {
		n := fileNames[r.Intn(len(fileNames))]
		if nfiles == 1 {
			n = p.pkg
		}
		if !names[n] {
			names[n] = true
			fnames = append(fnames, n+".go")
		}
	}
	sort.Strings(fnames) // the order the go command lists them in
	per := make([][]topDecl, nfiles)
	cuts := make([]int, len(vars))
	for i := range cuts {
		cuts[i] = r.Intn(nfiles)
	}
	sort.Ints(cuts)
	for i, d := range vars {
		per[cuts[i]] = append(per[cuts[i]], d)
	}
	deployFile := r.Intn(nfiles)
	for _, d := range rest {
		k := r.Intn(nfiles)
		switch {
		case d.isDeploy:
			k = deployFile
		case ownFile && p.deploy && d.kind == dFunc && k == deployFile:
			k = (k + 1 + r.Intn(nfiles-1)) % nfiles
		}
		per[k] = append(per[k], d)
	}
	p.files = nil
	firstDefer, deployAt := -1, -1
	for i, ds := range per {
		if len(ds) == 0 {
			continue
		}
		// declarations of a file in a seeded order as well
		if nfiles > 1 {
			var vs, os []topDecl
			for _, d := range ds {
				if d.kind == dVar {
					vs = append(vs, d)
				} else {
					os = append(os, d)
				}
			}
			r.Shuffle(len(os), func(a, b int) { os[a], os[b] = os[b], os[a] })
			// variables stay in order, the other declarations around them
			ds = ds[:0]
			for len(vs)+len(os) > 0 {
				if len(os) == 0 || (len(vs) > 0 && r.Bool()) {
					ds, vs = append(ds, vs[0]), vs[1:]
				} else {
					ds, os = append(ds, os[0]), os[1:]
				}
			}
		}
		for _, d := range ds {
			if d.hasDefer && firstDefer < 0 {
				firstDefer = len(p.files)
			}
			if d.isDeploy {
				deployAt = len(p.files)
			}
		}
		p.files = append(p.files, srcFile{Name: fnames[i], Text: fileText(p.pkg, ds)})
	}
	p.dirCompile = len(p.files) > 1 || p.aux != nil
	switch {
	case p.aux != nil:
		p.layout = fmt.Sprintf("layout:%d-files+package", len(p.files))
	default:
		p.layout = fmt.Sprintf("layout:%d-files", len(p.files))
	}
	p.feat = append(p.feat, p.layout)
	if p.deploy {
		p.feat = append(p.feat, "deploy-function")
		auxDefer := p.aux != nil && strings.Contains(p.aux.files[0].Text+p.aux.files[1].Text, "defer ")
		switch {
		case auxDefer || (firstDefer >= 0 && firstDefer < deployAt):
			p.feat = append(p.feat, "deploy-function:after-file-with-defer")
		case firstDefer > deployAt:
			p.feat = append(p.feat, "deploy-function:before-every-file-with-defer")
		}
	}
	sort.Strings(p.feat)

	// ---- bookkeeping for the oracles
	mg := &fn{name: "markGuard", params: []*vr{{name: "x", t: tInt}}, rets: []ty{tInt}}
	sm := &fn{name: "StateMark", exported: true, params: []*vr{{name: "a0", t: tInt}}, rets: []ty{tInt}}
	p.funcs = append(p.funcs, mg, sm)
	p.exported = append(p.exported, sm)
	p.resetFn = "ResetAll"
	imp := ""
	if p.aux != nil {
		imp = fmt.Sprintf("import %s %q\n\n", strings.ToLower(p.aux.name), modPath+"/"+p.pkg+"/"+p.aux.name)
	}
	p.reset2 = fmt.Sprintf("package %s\n\n%sfunc ResetAll() {\n\t%s\n}\n", p.pkg, imp, strings.Join(resetAll, "\n\t"))
	if p.deploy {
		p.reset2 += "\nfunc RunDeploy(isUpdate bool) {\n\t_deploy(nil, isUpdate)\n}\n"
	}
	p.importsAux()
	p.joinSrc()
	p.locate()
	return nil
}

// joinSrc renders the files as one text for witnesses; a single file is its own text.
func (p *program) joinSrc() {
	if len(p.files) == 1 && p.aux == nil {
		p.src = p.files[0].Text
		return
	}
	var b strings.Builder
	for _, f := range p.files {
		fmt.Fprintf(&b, "// ==== file %s\n%s\n", f.Name, f.Text)
	}
	if p.aux != nil {
		for _, f := range p.aux.files {
			fmt.Fprintf(&b, "// ==== file %s/%s\n%s\n", p.aux.name, f.Name, f.Text)
		}
	}
	p.src = b.String()
}

// fileList is the package as files; programs that were never laid out are the
// single file of their source text.
func (p *program) fileList() []srcFile {
	if p.files != nil {
		return p.files
	}
	return []srcFile{{Name: p.pkg + ".go", Text: p.src}}
}

// importsAux adds the import of the sub-package to the files that mention it.
func (p *program) importsAux() {
	if p.aux == nil {
		return
	}
	alias := strings.ToLower(p.aux.name)
	path := modPath + "/" + p.pkg + "/" + p.aux.name
	for i, f := range p.files {
		if !strings.Contains(f.Text, alias+".") {
			continue
		}
		line := fmt.Sprintf("\t%s %q\n", alias, path)
		if j := strings.Index(f.Text, "import (\n"); j >= 0 {
			f.Text = f.Text[:j+len("import (\n")] + line + f.Text[j+len("import (\n"):]
		} else {
			k := strings.Index(f.Text, "\n") + 1
			f.Text = f.Text[:k] + "\nimport (\n" + line + ")\n" + f.Text[k:]
		}
		p.files[i] = f
	}
}

// newAux writes the sub-package: package state (one variable exported and read
// by the importer), an init function, a function that recovers from its own
// panic, a type whose methods stand in two files. dir is the directory name,
// pkg the package name.
func newAux(prog, dir, pkg string, withDefer, withInit, methodsSplit bool) *auxPkg {
	var a, b strings.Builder
	fmt.Fprintf(&a, "package %s\n\nvar Count = 3\n\nvar hidden = 10\n\n", pkg)
	reset := []string{"Count = 3", "hidden = 10"}
	if withInit {
		a.WriteString("func init() {\n\thidden += 5\n}\n\n")
		reset = append(reset, "hidden += 5")
	}
	if withDefer {
		a.WriteString("func Guard(x int) int {\n\tdefer func() {\n\t\tif r := recover(); r != nil {\n\t\t\tCount = (Count + 1) % 1000\n\t\t}\n\t}()\n\tif x%3 == 0 {\n\t\tpanic(\"aux guard\")\n\t}\n\treturn x%11 + hidden\n}\n")
	} else {
		a.WriteString("func Guard(x int) int {\n\tif x%3 == 0 {\n\t\tCount = (Count + 1) % 1000\n\t\treturn 0\n\t}\n\treturn x%11 + hidden\n}\n")
	}
	fmt.Fprintf(&b, "package %s\n\n", pkg)
	box := "type Box struct {\n\tN int\n}\n\n"
	add := "func (b *Box) Add(x int) int {\n\tb.N = (b.N + x%100 + b.twice()) % 1000\n\treturn b.N\n}\n\n"
	twice := "func (b *Box) twice() int {\n\treturn b.N * 2 % 50\n}\n"
	if methodsSplit {
		a.WriteString("\n" + twice)
		b.WriteString(box + add)
	} else {
		b.WriteString(box + add + twice)
	}
	fa, fb := "store.go", "box.go"
	if methodsSplit {
		fa, fb = "z_store.go", "a_box.go"
	}
	return &auxPkg{name: dir,
		files:  []srcFile{{Name: fa, Text: a.String()}, {Name: fb, Text: b.String()}},
		native: fmt.Sprintf("package %s\n\nfunc ResetGlobals() {\n\t%s\n}\n", pkg, strings.Join(reset, "\n\t"))}
}

// addLayoutCalls appends the calls on the deployment state: StateMark on a few
// arguments and, when the program has `_deploy`, one call of every exported
// function plus two of StateMark after `_deploy` ran.
func (p *program) addLayoutCalls(r *rng.R) {
	arg := func() []argSpec { return []argSpec{{T: tInt, I: intArgs[r.Intn(len(intArgs))]}} }
	p.calls = append(p.calls, callSpec{Fn: "StateMark", Args: []argSpec{{T: tInt, I: 1}}}, callSpec{Fn: "StateMark", Args: []argSpec{{T: tInt, I: 2}}}, callSpec{Fn: "StateMark", Args: arg()})
	if !p.deploy {
		return
	}
	for _, f := range p.exported {
		pre := "deploy"
		if r.Intn(4) == 0 {
			pre = "update"
		}
		if f.name == "StateMark" {
			p.calls = append(p.calls, callSpec{Fn: f.name, Args: []argSpec{{T: tInt, I: 2 + int64(r.Intn(2))}}, Pre: "deploy"},
				callSpec{Fn: f.name, Args: arg(), Pre: "update"})
			continue
		}
		p.calls = append(p.calls, callSpec{Fn: f.name, Args: genArgs(r, f), Pre: pre})
	}
}

package c14

import (
	"fmt"
	"os"
	"strings"
	"testing"

	"github.com/nspcc-dev/neo-go/pkg/compiler"
	"github.com/nspcc-dev/neo-go/pkg/smartcontract/callflag"
	"github.com/nspcc-dev/neo-go/pkg/vm"
	"github.com/nspcc-dev/neo-go/pkg/vm/stackitem"
	"github.com/nspcc-dev/neo-go/verifharness/vlib/rng"
)

// TestProbe compiles VERIF_PROBE_FILE and runs F(args...) on a bare VM.
func TestProbe(t *testing.T) {
	f := os.Getenv("VERIF_PROBE_FILE")
	if f == "" {
		t.Skip()
	}
	b, _ := os.ReadFile(f)
	parts := strings.Split(string(b), "\n//----\n")
	for pi, src := range parts {
		nf, di, err := compiler.CompileWithOptions("prog.go", strings.NewReader(src), nil)
		if err != nil {
			fmt.Printf("#%d compile error: %v\n", pi, err)
			continue
		}
		initOff := -1
		for _, m := range di.Methods {
			if m.ID == "_initialize" {
				initOff = int(m.Range.Start)
			}
		}
		for _, m := range di.Methods {
			if !strings.HasPrefix(m.ID, "F") {
				continue
			}
			for _, a := range []int{0, 1, 2, 5} {
				v := vm.New()
				v.LoadScriptWithFlags(nf.Script, callflag.All)
				for range m.Parameters {
					v.Estack().PushVal(a)
				}
				v.Context().Jump(int(m.Range.Start))
				if initOff >= 0 {
					v.Call(initOff)
				}
				err := v.Run()
				if err != nil {
					fmt.Printf("#%d %s(%d): FAULT %v\n", pi, m.ID, a, err)
					continue
				}
				fmt.Printf("#%d %s(%d): stack=%d %s\n", pi, m.ID, a, v.Estack().Len(), dumpStack(v))
				if len(m.Parameters) == 0 {
					break
				}
			}
		}
	}
}

func dumpStack(v *vm.VM) string {
	var r []string
	for _, it := range v.Estack().ToArray() {
		b, err := stackitem.ToJSONWithTypes(it)
		if err != nil {
			r = append(r, "?"+err.Error())
		} else {
			r = append(r, string(b))
		}
	}
	return strings.Join(r, " ")
}

// TestGenDump prints generated program VERIF_DUMP (index).
func TestGenDump(t *testing.T) {
	s := os.Getenv("VERIF_DUMP")
	if s == "" {
		t.Skip()
	}
	var idx int
	fmt.Sscan(s, &idx)
	p := genProgram(idx, 2)
	if os.Getenv("VERIF_DUMP_FLAT") == "" {
		if err := p.layOut(rng.New(uint64(idx)+17_000_000), true); err != nil {
			t.Fatal(err)
		}
		p.addLayoutCalls(rng.New(uint64(idx) + 18_000_000))
	}
	fmt.Println(p.src)
	fmt.Println("---- reset")
	fmt.Println(p.reset)
	fmt.Println(p.reset2)
	fmt.Println("---- calls", p.calls)
	fmt.Println("---- feat", p.feat)
}

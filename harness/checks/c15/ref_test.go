package c15

// Reference evaluator of the witness scope rules, written from the protocol
// text (NEO N3: Signer / WitnessScope / WitnessRule / WitnessCondition and
// System.Runtime.CheckWitness). It never calls neo-go's matcher: it only reads
// the data fields of the signer / condition values and the frame list the
// harness built itself.

import (
	"bytes"

	"github.com/nspcc-dev/neo-go/pkg/core/transaction"
	"github.com/nspcc-dev/neo-go/pkg/crypto/keys"
	"github.com/nspcc-dev/neo-go/pkg/util"
)

// frame is one script on the invocation stack as the harness knows it.
type frame struct {
	hash   util.Uint160
	groups [][]byte // compressed public keys of the manifest groups (deployed contracts only)
	kind   string   // entry | probe | dyn | native
	name   string
}

// where is a position in a call chain: frames[0] is the entry script.
type where struct {
	frames []frame
	pos    int
}

func (w where) cur() frame { return w.frames[w.pos] }
func (w where) calling() *frame {
	if w.pos == 0 {
		return nil
	}
	return &w.frames[w.pos-1]
}

// entry script itself, or a script the entry script invoked directly.
func (w where) calledByEntry() bool { return w.pos <= 1 }

func inGroup(f *frame, k *keys.PublicKey) bool {
	if f == nil {
		return false
	}
	kb := k.Bytes()
	for _, g := range f.groups {
		if bytes.Equal(g, kb) {
			return true
		}
	}
	return false
}

func refCond(c transaction.WitnessCondition, w where) bool {
	switch v := c.(type) {
	case *transaction.ConditionBoolean:
		return bool(*v)
	case *transaction.ConditionNot:
		return !refCond(v.Condition, w)
	case *transaction.ConditionAnd:
		for _, x := range *v {
			if !refCond(x, w) {
				return false
			}
		}
		return true
	case *transaction.ConditionOr:
		for _, x := range *v {
			if refCond(x, w) {
				return true
			}
		}
		return false
	case *transaction.ConditionScriptHash:
		return util.Uint160(*v) == w.cur().hash
	case *transaction.ConditionGroup:
		f := w.cur()
		return inGroup(&f, (*keys.PublicKey)(v))
	case transaction.ConditionCalledByEntry, *transaction.ConditionCalledByEntry:
		return w.calledByEntry()
	case *transaction.ConditionCalledByContract:
		f := w.calling() // no calling contract at the entry script: never matches
		return f != nil && util.Uint160(*v) == f.hash
	case *transaction.ConditionCalledByGroup:
		return inGroup(w.calling(), (*keys.PublicKey)(v))
	}
	panic("c15: unknown condition kind")
}

// refWitness decides CheckWitness(acc) at position w and names the clause that
// decided.
func refWitness(signers []transaction.Signer, acc util.Uint160, w where) (bool, string) {
	if f := w.calling(); f != nil && f.hash == acc {
		return true, "self-call" // a contract always witnesses calls it makes itself
	}
	for i := range signers {
		s := &signers[i]
		if s.Account != acc {
			continue
		}
		if s.Scopes == transaction.Global {
			return true, "global"
		}
		if s.Scopes&transaction.CalledByEntry != 0 && w.calledByEntry() {
			return true, "called-by-entry"
		}
		if s.Scopes&transaction.CustomContracts != 0 {
			for _, h := range s.AllowedContracts {
				if h == w.cur().hash {
					return true, "custom-contracts"
				}
			}
		}
		if s.Scopes&transaction.CustomGroups != 0 {
			f := w.cur()
			for _, g := range s.AllowedGroups {
				if inGroup(&f, g) {
					return true, "custom-groups"
				}
			}
		}
		if s.Scopes&transaction.Rules != 0 {
			for _, r := range s.Rules {
				if refCond(r.Condition, w) { // the first matching rule decides
					if r.Action == transaction.WitnessAllow {
						return true, "rule-allow"
					}
					return false, "rule-deny"
				}
			}
		}
		return false, "no-match"
	}
	return false, "non-signer"
}

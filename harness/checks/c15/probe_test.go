package c15

import (
	"crypto/sha256"
	"encoding/json"
	"fmt"
	"strings"
	"testing"

	"github.com/nspcc-dev/neo-go/pkg/compiler"
	"github.com/nspcc-dev/neo-go/pkg/config"
	"github.com/nspcc-dev/neo-go/pkg/core"
	"github.com/nspcc-dev/neo-go/pkg/core/interop/interopnames"
	"github.com/nspcc-dev/neo-go/pkg/core/native"
	"github.com/nspcc-dev/neo-go/pkg/core/native/nativehashes"
	"github.com/nspcc-dev/neo-go/pkg/core/native/noderoles"
	"github.com/nspcc-dev/neo-go/pkg/crypto/hash"
	"github.com/nspcc-dev/neo-go/pkg/crypto/keys"
	"github.com/nspcc-dev/neo-go/pkg/io"
	"github.com/nspcc-dev/neo-go/pkg/neotest"
	"github.com/nspcc-dev/neo-go/pkg/neotest/chain"
	"github.com/nspcc-dev/neo-go/pkg/smartcontract"
	"github.com/nspcc-dev/neo-go/pkg/smartcontract/callflag"
	"github.com/nspcc-dev/neo-go/pkg/smartcontract/manifest"
	"github.com/nspcc-dev/neo-go/pkg/util"
	"github.com/nspcc-dev/neo-go/pkg/vm/emit"
	"github.com/nspcc-dev/neo-go/pkg/vm/opcode"
	"github.com/nspcc-dev/neo-go/pkg/vm/stackitem"
	"github.com/nspcc-dev/neo-go/pkg/wallet"
)

// The probe contract. check(accs, next, mut) records CheckWitness of every
// element of accs, then (mut) changes its own group membership, then invokes
// the next frame as told by next, then records the checks again and returns
// [pre, sub, post].
//
//	mut  = []                         nothing
//	mut  = [0, manifest]              ContractManagement.update(nil, manifest): same contract, other groups
//	mut  = [1]                        ContractManagement.destroy()
//	next = []                               stop
//	next = [0, contractHash, next', mut']   contract.Call(contractHash, "check", All, accs, next', mut')
//	next = [1, script]                      System.Runtime.LoadScript(script) (the script embeds its own continuation)
//	next = [2, receiverHash, next', mut']   GAS.transfer(a, stranger, 0, nil) for every 20-byte a of accs (the native
//	                                        frame's own witness check), then GAS.transfer(self, receiver, 0, [accs, next', mut']):
//	                                        the native contract calls receiver.onNEP17Payment, which runs the same
//	                                        recording and publishes its result in a "w" notification.
//	next = [3, next', mut', gas]            Oracle.request(url, nil, "oracleCb", key, gas): the payload [accs, next', mut'] is
//	                                        stored under key = sha256(payload) (user data is limited to 512 bytes); a LATER
//	                                        transaction (the oracle response) makes the native Oracle contract call oracleCb,
//	                                        which runs the same recording and publishes its result in a "w" notification.
const probeSrc = `package wit

import (
	"github.com/nspcc-dev/neo-go/pkg/interop"
	"github.com/nspcc-dev/neo-go/pkg/interop/contract"
	"github.com/nspcc-dev/neo-go/pkg/interop/native/crypto"
	"github.com/nspcc-dev/neo-go/pkg/interop/native/gas"
	"github.com/nspcc-dev/neo-go/pkg/interop/native/management"
	"github.com/nspcc-dev/neo-go/pkg/interop/native/oracle"
	"github.com/nspcc-dev/neo-go/pkg/interop/native/std"
	"github.com/nspcc-dev/neo-go/pkg/interop/runtime"
	"github.com/nspcc-dev/neo-go/pkg/interop/storage"
)

func wit(accs []any) []any {
	res := []any{}
	for i := 0; i < len(accs); i++ {
		res = append(res, runtime.CheckWitness(accs[i].([]byte)))
	}
	return res
}

func run(accs []any, next []any, mut []any) []any {
	pre := wit(accs)
	if len(mut) > 0 {
		if mut[0].(int) == 0 {
			management.Update(nil, mut[1].([]byte))
		} else {
			management.Destroy()
		}
	}
	var sub any
	if len(next) > 0 {
		kind := next[0].(int)
		if kind == 0 {
			sub = contract.Call(next[1].(interop.Hash160), "check", contract.All, accs, next[2], next[3])
		} else if kind == 1 {
			sub = runtime.LoadScript(next[1].([]byte), contract.All)
		} else if kind == 3 {
			payload := std.Serialize([]any{accs, next[1], next[2]})
			key := crypto.Sha256(payload)
			storage.Put(storage.GetContext(), key, payload)
			oracle.Request("https://c15.example/w", nil, "oracleCb", key, next[3].(int))
		} else {
			nat := []any{}
			for i := 0; i < len(accs); i++ {
				a := accs[i].([]byte)
				if len(a) == 20 {
					nat = append(nat, gas.Transfer(a, interop.Hash160("\xcc\xcc\xcc\xcc\xcc\xcc\xcc\xcc\xcc\xcc\xcc\xcc\xcc\xcc\xcc\xcc\xcc\xcc\xcc\xcc"), 0, nil))
				} else {
					nat = append(nat, nil)
				}
			}
			ok := gas.Transfer(runtime.GetExecutingScriptHash(), next[1].(interop.Hash160), 0, []any{accs, next[2], next[3]})
			sub = []any{nat, ok}
		}
	}
	post := wit(accs)
	return []any{pre, sub, post}
}

func Check(accs []any, next []any, mut []any) []any {
	return run(accs, next, mut)
}

// Verify is the entry of a Verification-trigger context when the contract is a
// transaction witness: there is no calling script at all.
func Verify(acc []byte) bool {
	return runtime.CheckWitness(acc)
}

func OnNEP17Payment(from interop.Hash160, amount int, data any) {
	d := data.([]any)
	runtime.Notify("w", run(d[0].([]any), d[1].([]any), d[2].([]any)))
}

// OracleCb is the callback of the request filed by kind 3: entered by the
// native Oracle contract while it executes the response transaction.
func OracleCb(url string, data any, code int, res []byte) {
	raw := storage.Get(storage.GetReadOnlyContext(), data.([]byte)).([]byte)
	d := std.Deserialize(raw).([]any)
	runtime.Notify("w", run(d[0].([]any), d[1].([]any), d[2].([]any)))
}
`

// sym is one element of a call chain description.
//
//	'A','B','C'  a deployed probe contract (A: group g; B: no group; C: groups g and g2)
//	'D'          a dynamic script loaded by the previous frame with System.Runtime.LoadScript
//	'N'          the native GAS contract, entered by transfer; the following symbol is the receiver
//	'O'          the previous probe files an oracle request; what follows runs in ANOTHER transaction (the oracle
//	             response): its entry script calls the native Oracle contract, which calls the requester's callback
type sym = byte

type world struct {
	bc       *core.Blockchain
	probes   [3]*neotest.Contract
	pframes  [3]frame
	mans     [3][4][]byte // manifest JSON of probe i with group set k (same contract, other groups)
	gsets    [4][][]byte  // group sets: {}, {g}, {g2}, {g, g2}
	gasFrame frame
	// oracle flows (oracle_test.go): blocks are added through e; the designated
	// oracle node's key is held by the harness.
	e           *neotest.Executor
	oracleFrame frame              // the native Oracle contract
	respScript  []byte             // the fixed script of every oracle response transaction
	respFrame   frame              // ... as the entry frame of the callback's invocation
	oracleNodes neotest.Signer     // 1-of-1 multisignature account of the designated node
	g           [3]*keys.PublicKey // g, g2 (used by contracts), g3 (used by nobody)
	accKey      *keys.PublicKey
	acc         util.Uint160 // key-derived account of the signer under test
	decoyG      util.Uint160 // a second signer, Global scope
	decoyN      util.Uint160 // a third signer, scope None
	stranger    util.Uint160 // never a signer, never a contract
	noSuch      util.Uint160 // listed in AllowedContracts, never a contract
}

func detKey(tag string) *keys.PrivateKey {
	h := sha256.Sum256([]byte("c15:" + tag))
	k, err := keys.NewPrivateKeyFromBytes(h[:])
	if err != nil {
		panic(err)
	}
	return k
}

func fill(b byte) (u util.Uint160) {
	for i := range u {
		u[i] = b
	}
	return
}

func newWorld(t *testing.T) *world {
	// VerifyTransactions is off as in the shipped main net / test net
	// configurations: a block is taken as agreed upon by consensus, so the oracle
	// flows can put request transactions signed by arbitrary accounts (contracts,
	// plain hashes) into blocks. Test invocations do not depend on the setting.
	bc, val, com := chain.NewMultiWithCustomConfig(t, func(c *config.Blockchain) { c.Hardforks = nil; c.VerifyTransactions = false })
	e := neotest.NewExecutor(t, bc, val, com)
	w := &world{bc: bc, e: e}
	gk := []*keys.PrivateKey{detKey("g1"), detKey("g2"), detKey("g3")}
	for i, k := range gk {
		w.g[i] = k.PublicKey()
	}
	grp := [][]*keys.PrivateKey{{gk[0]}, {}, {gk[0], gk[1]}}
	for i := range 3 {
		c := neotest.CompileSource(t, val.ScriptHash(), strings.NewReader(probeSrc), &compiler.Options{
			Name:               fmt.Sprintf("c15probe%c", 'A'+i),
			NoPermissionsCheck: true,
			NoEventsCheck:      true,
			Permissions:        []manifest.Permission{*manifest.NewPermission(manifest.PermissionWildcard)},
			ContractEvents: []compiler.HybridEvent{{Name: "w", Parameters: []compiler.HybridParameter{
				{Parameter: manifest.Parameter{Name: "r", Type: smartcontract.ArrayType}}}}},
		})
		f := frame{hash: c.Hash, kind: "probe", name: string(rune('A' + i))}
		for _, k := range grp[i] {
			c.Manifest.Groups = append(c.Manifest.Groups, manifest.Group{PublicKey: k.PublicKey(), Signature: k.Sign(c.Hash.BytesBE())})
			f.groups = append(f.groups, k.PublicKey().Bytes())
		}
		e.DeployContract(t, c, nil)
		w.probes[i] = c
		w.pframes[i] = f
		for k, set := range [][]*keys.PrivateKey{{}, {gk[0]}, {gk[1]}, {gk[0], gk[1]}} {
			m := *c.Manifest
			m.Groups = []manifest.Group{}
			w.gsets[k] = [][]byte{}
			for _, key := range set {
				m.Groups = append(m.Groups, manifest.Group{PublicKey: key.PublicKey(), Signature: key.Sign(c.Hash.BytesBE())})
				w.gsets[k] = append(w.gsets[k], key.PublicKey().Bytes())
			}
			b, err := json.Marshal(&m)
			if err != nil {
				t.Fatal(err)
			}
			w.mans[i][k] = b
		}
	}
	w.gasFrame = frame{hash: nativehashes.GasToken, kind: "native", name: "GAS"}
	w.oracleFrame = frame{hash: nativehashes.OracleContract, kind: "native", name: "Oracle"}
	w.respScript = native.CreateOracleResponseScript(nativehashes.OracleContract)
	w.respFrame = frame{hash: hash.Hash160(w.respScript), kind: "entry", name: "oracle-response-script"}
	nodeKey := detKey("oracle-node")
	nodeAcc := wallet.NewAccountFromPrivateKey(nodeKey)
	if err := nodeAcc.ConvertMultisig(1, keys.PublicKeys{nodeKey.PublicKey()}); err != nil {
		t.Fatal(err)
	}
	w.oracleNodes = neotest.NewMultiSigner(nodeAcc)
	e.NewInvoker(nativehashes.RoleManagement, e.Validator, e.Committee).Invoke(t, stackitem.Null{}, "designateAsRole", int64(noderoles.Oracle), []any{nodeKey.PublicKey().Bytes()})
	w.accKey = detKey("acc").PublicKey()
	w.acc = w.accKey.GetScriptHash()
	w.decoyG, w.decoyN, w.stranger, w.noSuch = fill(0xD1), fill(0xD2), fill(0xCC), fill(0xEE)
	return w
}

func (w *world) probeIdx(s sym) int { return int(s - 'A') }

func anyTargets(targets [][]byte) []any {
	r := make([]any, len(targets))
	for i, t := range targets {
		r[i] = t
	}
	return r
}

// mutation of a probe frame: mutNone, 0..3 = update to group set k, mutDestroy.
const (
	mutNone    int8 = -1
	mutDestroy int8 = 4
)

// chainSpec is a call chain plus, per symbol, what the frame does to its own
// group membership between its first checks and the nested call.
type chainSpec struct {
	syms []sym
	muts []int8
	id   string
	// mode: 0 = Application trigger, the generated script is the transaction's entry script;
	// 1 = Verification trigger, the generated script is a witness verification script
	//     (Blockchain.InitVerificationContext, read-only flags);
	// 2 = Verification trigger, the entry context is the verify method of the probe syms[0]
	//     (a deployed contract used as a witness), one VM run per target;
	// 3 = as 0, but the entry script calls the first probe WITHOUT ReadStates (all
	//     frames below lack it): used only with configurations that never need a
	//     contract's groups, whose answers do not depend on that flag.
	mode int
}

func (c chainSpec) withMode(m int) chainSpec {
	c.mode = m
	c.id = []string{"", "V:", "verify:", "noread:"}[m] + c.id
	return c
}

func mkChain(syms []sym, muts []int8) chainSpec {
	if muts == nil {
		muts = make([]int8, len(syms))
		for i := range muts {
			muts[i] = mutNone
		}
	}
	id := ""
	for i, s := range syms {
		id += string(rune(s))
		switch {
		case muts[i] == mutDestroy:
			id += "x"
		case muts[i] >= 0:
			id += string(rune('0' + muts[i]))
		}
	}
	if id == "" {
		id = "-"
	}
	return chainSpec{syms: syms, muts: muts, id: id}
}

func (c chainSpec) mutated() bool {
	for _, m := range c.muts {
		if m != mutNone {
			return true
		}
	}
	return false
}

func (w *world) mutArg(p int, m int8) []any {
	switch {
	case m == mutNone:
		return []any{}
	case m == mutDestroy:
		return []any{1}
	}
	return []any{0, w.mans[p][m]}
}

// nextArg builds the descriptor a probe frame receives to invoke rest[0] and
// returns the frames that invocation adds.
func (w *world) nextArg(targets [][]byte, rest []sym, muts []int8) ([]any, []frame) {
	if len(rest) == 0 {
		return []any{}, nil
	}
	switch s := rest[0]; s {
	case 'A', 'B', 'C':
		sub, fr := w.nextArg(targets, rest[1:], muts[1:])
		return []any{0, w.probes[w.probeIdx(s)].Hash, sub, w.mutArg(w.probeIdx(s), muts[0])}, append([]frame{w.pframes[w.probeIdx(s)]}, fr...)
	case 'D':
		script, fr := w.script(targets, rest[1:], muts[1:])
		return []any{1, script}, append([]frame{{hash: hash.Hash160(script), kind: "dyn", name: "D"}}, fr...)
	case 'N':
		r := w.probeIdx(rest[1])
		sub, fr := w.nextArg(targets, rest[2:], muts[2:])
		return []any{2, w.probes[r].Hash, sub, w.mutArg(r, muts[1])}, append([]frame{w.gasFrame, w.pframes[r]}, fr...)
	case 'O':
		// The frames after the Oracle marker belong to the response transaction
		// (splitOracle rearranges them); the callback never changes its groups.
		sub, fr := w.nextArg(targets, rest[1:], muts[1:])
		return []any{3, sub, []any{}, oracleGasForResponse}, append([]frame{w.oracleFrame}, fr...)
	}
	panic("bad chain symbol")
}

func emitChecks(bw *io.BinWriter, targets [][]byte) {
	for _, t := range targets {
		emit.Bytes(bw, t)
		emit.Syscall(bw, interopnames.SystemRuntimeCheckWitness)
	}
	pack(bw, len(targets))
}

// pack turns the top n items into an array whose element 0 is the item pushed first.
func pack(bw *io.BinWriter, n int) {
	if n == 0 {
		emit.Opcodes(bw, opcode.NEWARRAY0)
		return
	}
	emit.Int(bw, int64(n))
	emit.Opcodes(bw, opcode.REVERSEN)
	emit.Int(bw, int64(n))
	emit.Opcodes(bw, opcode.PACK)
}

// script builds a script frame (the entry script or a dynamic script) that
// records the checks, invokes rest, records again and leaves [pre, sub, post].
func (w *world) script(targets [][]byte, rest []sym, muts []int8, firstCall ...callflag.CallFlag) ([]byte, []frame) {
	flags := callflag.All
	if len(firstCall) > 0 {
		flags = firstCall[0]
	}
	buf := io.NewBufBinWriter()
	bw := buf.BinWriter
	var frames []frame
	emitChecks(bw, targets)
	switch {
	case len(rest) == 0:
		emit.Opcodes(bw, opcode.PUSHNULL)
	case rest[0] == 'D':
		inner, fr := w.script(targets, rest[1:], muts[1:])
		frames = append([]frame{{hash: hash.Hash160(inner), kind: "dyn", name: "D"}}, fr...)
		emit.Opcodes(bw, opcode.NEWARRAY0)
		emit.Int(bw, int64(callflag.All))
		emit.Bytes(bw, inner)
		emit.Syscall(bw, interopnames.SystemRuntimeLoadScript)
	case rest[0] == 'N':
		// Only the entry script does this (a dynamic script has read-only flags).
		r := w.probeIdx(rest[1])
		sub, fr := w.nextArg(targets, rest[2:], muts[2:])
		frames = append([]frame{w.gasFrame, w.pframes[r]}, fr...)
		for _, t := range targets {
			if len(t) == 20 {
				emit.AppCall(bw, nativehashes.GasToken, "transfer", callflag.All, t, w.stranger, 0, nil)
			} else {
				emit.Opcodes(bw, opcode.PUSHNULL)
			}
		}
		pack(bw, len(targets))
		emit.AppCall(bw, nativehashes.GasToken, "transfer", callflag.All, w.decoyG, w.probes[r].Hash, 0, []any{anyTargets(targets), sub, w.mutArg(r, muts[1])})
		pack(bw, 2)
	default:
		i := w.probeIdx(rest[0])
		sub, fr := w.nextArg(targets, rest[1:], muts[1:])
		frames = append([]frame{w.pframes[i]}, fr...)
		emit.AppCall(bw, w.probes[i].Hash, "check", flags, anyTargets(targets), sub, w.mutArg(i, muts[0]))
	}
	emitChecks(bw, targets)
	pack(bw, 3)
	if buf.Err != nil {
		panic(buf.Err)
	}
	return buf.Bytes(), frames
}

// validChain tells whether the symbols describe a chain the probes can run:
// N needs a receiver probe after it and cannot run at or below a dynamic
// script (read-only call flags). O (at most one) needs a probe right before
// it (only a deployed contract may file an oracle request) with write flags;
// the callback starts a fresh invocation with all flags.
func validChain(c []sym) bool {
	dyn, seenO := false, false
	for i := 0; i < len(c); i++ {
		switch c[i] {
		case 'D':
			dyn = true
		case 'O':
			if dyn || seenO || i == 0 || c[i-1] < 'A' || c[i-1] > 'C' {
				return false
			}
			seenO = true
		case 'N':
			if dyn || i+1 >= len(c) || c[i+1] < 'A' || c[i+1] > 'C' {
				return false
			}
			i++
		}
	}
	return true
}

// chains enumerates every valid chain of 1..maxLen symbols over the alphabet.
func chains(alphabet string, maxLen int) [][]sym {
	var out [][]sym
	var rec func(cur []sym)
	rec = func(cur []sym) {
		if len(cur) > 0 && validChain(cur) {
			out = append(out, append([]sym(nil), cur...))
		}
		if len(cur) == maxLen {
			return
		}
		for i := 0; i < len(alphabet); i++ {
			rec(append(cur, alphabet[i]))
		}
	}
	rec(nil)
	return out
}

// mutations enumerates, for a chain, every way to let exactly one probe frame
// change its own groups: update to each of the four group sets that differs
// from the deployed one, or destroy. The frame must hold write flags (not at
// or below a dynamic script) and a destroyed contract must not be invoked
// again later in the chain.
func (w *world) mutations(c []sym) []chainSpec {
	deployed := [3]int8{1, 0, 3} // A: {g}, B: {}, C: {g, g2}
	var out []chainSpec
	for i, s := range c {
		if s == 'D' {
			break
		}
		if s == 'N' {
			continue
		}
		for m := int8(0); m <= mutDestroy; m++ {
			if m == deployed[w.probeIdx(s)] {
				continue
			}
			if m == mutDestroy && strings.ContainsRune(string(c[i+1:]), rune(s)) {
				continue
			}
			muts := make([]int8, len(c))
			for k := range muts {
				muts[k] = mutNone
			}
			muts[i] = m
			out = append(out, mkChain(c, muts))
		}
	}
	return out
}

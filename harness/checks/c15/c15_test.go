// Package c15 enumerates signer configurations x call chains x positions and
// compares System.Runtime.CheckWitness executed inside deployed probe
// contracts, dynamic scripts, the entry script, the native GAS contract and
// oracle callbacks (two-transaction flows in blocks, oracle_test.go) with an
// independent reference evaluator of the witness scope rules (property C15).
package c15

import (
	"crypto/elliptic"
	"encoding/hex"
	"encoding/json"
	"fmt"
	"os"
	"regexp"
	"runtime"
	"sort"
	"strings"
	"sync"
	"sync/atomic"
	"testing"

	"github.com/nspcc-dev/neo-go/pkg/core/state"
	"github.com/nspcc-dev/neo-go/pkg/core/transaction"
	"github.com/nspcc-dev/neo-go/pkg/crypto/hash"
	"github.com/nspcc-dev/neo-go/pkg/crypto/keys"
	"github.com/nspcc-dev/neo-go/pkg/io"
	"github.com/nspcc-dev/neo-go/pkg/smartcontract/callflag"
	"github.com/nspcc-dev/neo-go/pkg/smartcontract/trigger"
	"github.com/nspcc-dev/neo-go/pkg/util"
	"github.com/nspcc-dev/neo-go/pkg/vm/emit"
	"github.com/nspcc-dev/neo-go/pkg/vm/opcode"
	"github.com/nspcc-dev/neo-go/pkg/vm/stackitem"
	"github.com/nspcc-dev/neo-go/verifharness/vlib/ev"
)

// cell is one compared CheckWitness execution.
type cell struct {
	pos    int
	phase  string // pre | post | native-transfer | payment-from
	target int    // index into sconfig.targets, -1 for the payment's from account
	hash   util.Uint160
	got    bool
	state  int // index of the group state in force when the check ran (0 = as deployed)
}

// covKey is the coverage signature of a cell: configuration shape x evaluation
// context (current frame, calling frame, entry relation) x target class x
// deciding clause x verdict. Cells of accounts that did not sign share shape -1.
type covKey struct {
	mut     int8 // 0 no group change before the check, 1 current contract changed, 2 calling contract changed, 3 another one
	shape   int32
	cur     int8
	calling int8
	cbe     bool
	tclass  int8
	clause  int8
	want    bool
	ctx     int8 // index into ctxNames
}

// ctxNames: how the invocation the cell belongs to was run. 0 = a test
// invocation (everything but the oracle flows); 1 = the oracle callback's
// invocation inside a block (entry = the response script, signers in force =
// those of the request transaction); 2 = the request transaction inside a block.
var ctxNames = []string{"", "in-oracle-callback", "in-block-transaction"}

var frameNames = []string{"-", "entry", "A", "B", "C", "D", "GAS", "vscript", "Oracle", "oracle-response-script"}
var frameKinds = []string{"entry", "probe", "dyn", "native"}
var mutRel = []string{"", "current-contract-changed-its-groups", "calling-contract-changed-its-groups", "other-contract-changed-its-groups"}

var phases = []string{"pre", "post", "native-transfer", "payment-from", "verify"}
var clauses = []string{"self-call", "global", "called-by-entry", "custom-contracts", "custom-groups", "rule-allow", "rule-deny", "no-match", "non-signer"}
var tclasses = []string{"signer", "signer-pubkey", "contract", "stranger", "decoy-global", "decoy-none", "unsigned-account", "payment-from", "zero-account", "ones-account", "oracle-nodes-account", "oracle-contract"}

func idxOf(list []string, s string) int8 {
	for i, x := range list {
		if x == s {
			return int8(i)
		}
	}
	panic("c15: unknown label " + s)
}

// worker-local aggregation, merged at the end.
type local struct {
	byKind   [4]int64
	byClause [9]int64
	byPhase  [5]int64
	byWant   [2]int64
	byMut    [4]int64
	cov      map[covKey]int64
	obs      map[string]int64
	shapes   map[string]int32
	shapeLst []string
}

func newLocal() *local {
	return &local{cov: map[covKey]int64{}, obs: map[string]int64{}, shapes: map[string]int32{}}
}

func (l *local) shapeID(s string) int32 {
	if id, ok := l.shapes[s]; ok {
		return id
	}
	id := int32(len(l.shapeLst))
	l.shapes[s] = id
	l.shapeLst = append(l.shapeLst, s)
	return id
}

type harness struct {
	w             *world
	run           *ev.Run
	chains        []chainSpec
	oracleSampled bool
}

// gstate is the group membership in force after some frames changed theirs:
// contract hash -> groups (an empty set for a destroyed contract).
type gstate map[util.Uint160][][]byte

func targetHash(t []byte) util.Uint160 {
	if len(t) == 20 {
		h, _ := util.Uint160DecodeBytesBE(t)
		return h
	}
	k, err := keys.NewPublicKeyFromBytes(t, elliptic.P256())
	if err != nil {
		panic(err)
	}
	return k.GetScriptHash()
}

// exec runs the chain under the signers and returns every recorded cell.
// A non-empty fault string means the VM did not halt or the result did not
// have the shape the probes produce.
func (h *harness) exec(signers []transaction.Signer, targets [][]byte, chain chainSpec) (cells []cell, states []gstate, frames []frame, script []byte, fault string) {
	w := h.w
	if chain.mode == 2 {
		return h.execVerify(signers, targets, chain)
	}
	var rest []frame
	if chain.mode == 3 {
		script, rest = w.script(targets, chain.syms, chain.muts, callflag.All&^callflag.ReadStates)
	} else {
		script, rest = w.script(targets, chain.syms, chain.muts)
	}
	frames = append([]frame{{hash: hashOf(script), kind: "entry", name: []string{"entry", "vscript", "", "entry"}[chain.mode]}}, rest...)
	tx := transaction.New(script, 0)
	tx.Signers = signers
	trig := trigger.Application
	if chain.mode == 1 {
		trig = trigger.Verification
	}
	ic, err := w.bc.GetTestVM(trig, tx, nil)
	if err != nil {
		return nil, nil, frames, script, "GetTestVM: " + err.Error()
	}
	defer ic.Finalize()
	if chain.mode == 1 {
		// The script is the verification script of a witness whose account is its hash.
		if err = w.bc.InitVerificationContext(ic, hashOf(script), &transaction.Witness{VerificationScript: script}); err != nil {
			return nil, nil, frames, script, "InitVerificationContext: " + err.Error()
		}
	} else {
		ic.VM.LoadWithFlags(script, callflag.All)
	}
	func() {
		defer func() {
			if r := recover(); r != nil {
				err = fmt.Errorf("panic: %v", r)
			}
		}()
		err = ic.VM.Run()
	}()
	if err != nil {
		return nil, nil, frames, script, "vm: " + err.Error()
	}
	if ic.VM.Estack().Len() != 1 {
		return nil, nil, frames, script, fmt.Sprintf("entry script left %d items", ic.VM.Estack().Len())
	}
	var notes []state.NotificationEvent
	for _, n := range ic.Notifications {
		if n.Name == "w" {
			notes = append(notes, n)
		}
	}
	d := &decoder{h: h, targets: targets, notes: notes, thash: targetHashes(targets), states: []gstate{nil}}
	d.frame(ic.VM.Estack().Pop().Item(), 0, -1, mutNone, chain.syms, chain.muts)
	if d.err == "" && len(d.notes) != 0 {
		d.err = "unclaimed payment notification"
	}
	return d.cells, d.states, frames, script, d.err
}

// execVerify runs the verify method of the probe chain.syms[0] as the entry
// context of a witness verification, once per target (the method returns one
// bool). A run that faults yields no cell for that target; all of them
// faulting is reported as a fault.
func (h *harness) execVerify(signers []transaction.Signer, targets [][]byte, chain chainSpec) (cells []cell, states []gstate, frames []frame, script []byte, fault string) {
	w := h.w
	p := w.probeIdx(chain.syms[0])
	frames = []frame{w.pframes[p]}
	states = []gstate{nil}
	th := targetHashes(targets)
	for i, t := range targets {
		inv := io.NewBufBinWriter()
		emit.Bytes(inv.BinWriter, t)
		tx := transaction.New([]byte{byte(opcode.RET)}, 0)
		tx.Signers = signers
		ic, err := w.bc.GetTestVM(trigger.Verification, tx, nil)
		if err != nil {
			return nil, states, frames, nil, "GetTestVM: " + err.Error()
		}
		if err = w.bc.InitVerificationContext(ic, w.pframes[p].hash, &transaction.Witness{InvocationScript: inv.Bytes()}); err == nil {
			func() {
				defer func() {
					if r := recover(); r != nil {
						err = fmt.Errorf("panic: %v", r)
					}
				}()
				err = ic.VM.Run()
			}()
		}
		if err == nil && ic.VM.Estack().Len() != 1 {
			err = fmt.Errorf("verify left %d items", ic.VM.Estack().Len())
		}
		if err == nil {
			b, ok := ic.VM.Estack().Pop().Item().(stackitem.Bool)
			if !ok {
				err = fmt.Errorf("verify returned a non-bool")
			} else {
				cells = append(cells, cell{pos: 0, phase: "verify", target: i, hash: th[i], got: bool(b)})
			}
		}
		ic.Finalize()
		if err != nil && fault == "" {
			fault = "verify: " + err.Error()
		}
	}
	if len(cells) > 0 {
		fault = "" // partial faults are judged by the caller through the missing cells
	}
	return cells, states, frames, nil, fault
}

// targetHashes maps every target to the account it stands for; public keys are
// resolved once per distinct byte string (decompression is expensive).
var pubHashes sync.Map

func targetHashes(targets [][]byte) []util.Uint160 {
	out := make([]util.Uint160, len(targets))
	for i, t := range targets {
		if len(t) == 20 {
			out[i] = targetHash(t)
			continue
		}
		if v, ok := pubHashes.Load(string(t)); ok {
			out[i] = v.(util.Uint160)
			continue
		}
		out[i] = targetHash(t)
		pubHashes.Store(string(t), out[i])
	}
	return out
}

type decoder struct {
	h       *harness
	targets [][]byte
	thash   []util.Uint160
	notes   []state.NotificationEvent
	cells   []cell
	states  []gstate // states[i] = group membership after the i-th change; the decoder walks in execution order
	err     string
}

// mutate records that probe p changed its own groups.
func (d *decoder) mutate(p int, m int8) {
	n := gstate{}
	for k, v := range d.states[len(d.states)-1] {
		n[k] = v
	}
	if m == mutDestroy {
		n[d.h.w.pframes[p].hash] = [][]byte{}
	} else {
		n[d.h.w.pframes[p].hash] = d.h.w.gsets[m]
	}
	d.states = append(d.states, n)
}

func (d *decoder) fail(f string, a ...any) {
	if d.err == "" {
		d.err = "result shape: " + fmt.Sprintf(f, a...)
	}
}

func (d *decoder) bools(it stackitem.Item, pos int, phase string, nullOK bool) {
	arr, ok := it.Value().([]stackitem.Item)
	if !ok || len(arr) != len(d.targets) {
		d.fail("%s list at pos %d", phase, pos)
		return
	}
	for i, x := range arr {
		if _, isNull := x.(stackitem.Null); isNull {
			if !nullOK || len(d.targets[i]) == 20 {
				d.fail("null in %s list at pos %d", phase, pos)
			}
			continue
		}
		b, ok := x.(stackitem.Bool)
		if !ok {
			d.fail("non-bool in %s list at pos %d", phase, pos)
			return
		}
		d.cells = append(d.cells, cell{pos: pos, phase: phase, target: i, hash: d.thash[i], got: bool(b), state: len(d.states) - 1})
	}
}

// frame walks one frame's result in execution order: first checks, the frame's
// own group change (probe p, mutation own), the nested call, last checks.
func (d *decoder) frame(it stackitem.Item, pos int, p int, own int8, rest []sym, muts []int8) {
	arr, ok := it.Value().([]stackitem.Item)
	if !ok || len(arr) != 3 {
		d.fail("frame at pos %d", pos)
		return
	}
	d.bools(arr[0], pos, "pre", false)
	if own != mutNone {
		d.mutate(p, own)
	}
	defer d.bools(arr[2], pos, "post", false)
	switch {
	case len(rest) == 0:
		if _, isNull := arr[1].(stackitem.Null); !isNull {
			d.fail("leaf frame at pos %d has a sub-result", pos)
		}
	case rest[0] == 'N':
		sub, ok := arr[1].Value().([]stackitem.Item)
		if !ok || len(sub) != 2 {
			d.fail("native step at pos %d", pos)
			return
		}
		d.bools(sub[0], pos+1, "native-transfer", true)
		okb, isB := sub[1].(stackitem.Bool)
		if !isB {
			d.fail("payment transfer result at pos %d", pos)
			return
		}
		d.cells = append(d.cells, cell{pos: pos + 1, phase: "payment-from", target: -1, got: bool(okb), state: len(d.states) - 1})
		if !bool(okb) {
			return // no callback happened; the reference decides whether that was right
		}
		if len(d.notes) == 0 {
			d.fail("payment accepted at pos %d but no notification from the receiver", pos)
			return
		}
		// Notifications are emitted when a receiver finishes: the innermost first.
		n := d.notes[0]
		d.notes = d.notes[1:]
		if n.ScriptHash != d.h.w.pframes[d.h.w.probeIdx(rest[1])].hash {
			d.fail("notification from an unexpected contract at pos %d", pos+2)
			return
		}
		na, ok := n.Item.Value().([]stackitem.Item)
		if !ok || len(na) != 1 {
			d.fail("notification payload at pos %d", pos+2)
			return
		}
		d.frame(na[0], pos+2, d.h.w.probeIdx(rest[1]), muts[1], rest[2:], muts[2:])
	case rest[0] == 'O':
		// The request was filed; what follows runs in the response transaction.
		if _, isNull := arr[1].(stackitem.Null); !isNull {
			d.fail("requesting frame at pos %d has a sub-result", pos)
		}
	case rest[0] == 'D':
		d.frame(arr[1], pos+1, -1, mutNone, rest[1:], muts[1:])
	default:
		d.frame(arr[1], pos+1, d.h.w.probeIdx(rest[0]), muts[0], rest[1:], muts[1:])
	}
}

func chainName(c chainSpec) string {
	n := []string{"e", "verification-script", "verify-method-of", "e(first call without ReadStates)"}[c.mode]
	for i, s := range c.syms {
		if s == 'O' {
			n += ">Oracle.request || response-script>Oracle.finish>callback-of-the-requester"
			continue
		}
		n += ">" + string(rune(s))
		switch {
		case c.muts[i] == mutDestroy:
			n += "(destroys itself)"
		case c.muts[i] >= 0:
			n += "(updates its groups to " + []string{"{}", "{g}", "{g2}", "{g,g2}"}[c.muts[i]] + ")"
		}
	}
	return n
}

// framesAt returns the frames with the group membership of the given state.
func framesAt(frames []frame, st gstate) []frame {
	if len(st) == 0 {
		return frames
	}
	out := make([]frame, len(frames))
	copy(out, frames)
	for i := range out {
		if g, ok := st[out[i].hash]; ok && out[i].kind == "probe" {
			out[i].groups = g
		}
	}
	return out
}

// mutRelation classifies a cell with respect to the group changes made before it.
func mutRelation(frames []frame, st gstate, pos int) int8 {
	if len(st) == 0 {
		return 0
	}
	if _, ok := st[frames[pos].hash]; ok {
		return 1
	}
	if pos > 0 {
		if _, ok := st[frames[pos-1].hash]; ok {
			return 2
		}
	}
	return 3
}

var hexRe = regexp.MustCompile(`[0-9a-fA-F]{8,}`)

// want computes the reference verdict of a cell.
func (h *harness) want(signers []transaction.Signer, frames []frame, states []gstate, c *cell) (bool, string) {
	if c.target == -1 {
		// from of the payment transfer = the frame that called GAS (a probe: its own hash) or decoyG (entry script).
		if c.pos-1 == 0 {
			c.hash = h.w.decoyG
		} else {
			c.hash = frames[c.pos-1].hash
		}
	}
	return refWitness(signers, c.hash, where{frames: framesAt(frames, states[c.state]), pos: c.pos})
}

// runCase executes one (configuration, chain) pair and compares every cell.
func (h *harness) runCase(l *local, cfg *sconfig, chain chainSpec, faultNotPassing bool) {
	caseID := fmt.Sprintf("%s/%d/%s", cfg.part, cfg.idx, chain.id)
	if !h.run.Want(caseID) {
		return
	}
	cells, states, frames, script, fault := h.exec(cfg.signers, cfg.targets, chain)
	l.obs["vm_runs"]++
	if fault != "" && faultNotPassing {
		// No signers at all: the implementation refuses to evaluate witnesses (the
		// invocation faults). Nothing passed, which is all the property asks here.
		l.obs["runs_without_signers_faulted_nothing_passed"]++
		return
	}
	if fault != "" {
		l.obs["faults"]++
		h.run.Violation("unexpected-fault:"+hexRe.ReplaceAllString(firstLine(fault), "#"), caseID,
			"the probe chain did not halt with a well-formed result: "+fault, h.witness(cfg, chain, frames, script, nil, false, ""))
		return
	}
	h.judge(l, cfg, chain, caseID, frames, states, script, cells, 0)
}

// judge compares every cell of one invocation with the reference and counts it.
func (h *harness) judge(l *local, cfg *sconfig, chain chainSpec, caseID string, frames []frame, states []gstate, script []byte, cells []cell, ctx int8) {
	sid := l.shapeID(cfg.part + "|" + cfg.shape)
	for i := range cells {
		c := &cells[i]
		want, clause := h.want(cfg.signers, frames, states, c)
		tc := "payment-from"
		if c.target >= 0 {
			tc = cfg.tclass[c.target]
		}
		cl := idxOf(clauses, clause)
		mr := mutRelation(frames, states[c.state], c.pos)
		l.byMut[mr]++
		k := covKey{mut: mr, shape: sid, cur: idxOf(frameNames, frames[c.pos].name), cbe: c.pos <= 1, tclass: idxOf(tclasses, tc), clause: cl, want: want, ctx: ctx}
		if c.pos > 0 {
			k.calling = idxOf(frameNames, frames[c.pos-1].name)
		}
		if clause == "non-signer" {
			k.shape = -1
		}
		l.cov[k]++
		l.byKind[idxOf(frameKinds, frames[c.pos].kind)]++
		l.byClause[cl]++
		l.byPhase[idxOf(phases, c.phase)]++
		if ctx != 0 {
			l.obs["cells_"+ctxNames[ctx]]++
			if want {
				l.obs["cells_"+ctxNames[ctx]+"_want_true"]++
			}
		}
		if ctx == 1 {
			l.obs["oracle_callback_clause_"+clause]++
			if c.pos == 2 {
				l.obs["oracle_callback_cells_at_the_callback_frame"]++
			} else {
				l.obs["oracle_callback_cells_at_relayed_frames"]++
			}
		}
		if want {
			l.byWant[1]++
		} else {
			l.byWant[0]++
		}
		if c.got != want {
			// A public-key argument gets its own signature only when the same check
			// with the hash argument (the cell just before) agrees with the reference.
			keyedOnly := c.target > 0 && len(cfg.targets[c.target]) != 20 && i > 0 && cells[i-1].hash == c.hash &&
				cells[i-1].pos == c.pos && cells[i-1].phase == c.phase && cells[i-1].got == want
			h.report(cfg, chain, caseID, frames, states, script, c, want, clause, keyedOnly, ctx)
		}
	}
}

// runNoSigners: a transaction without any signer. Each target is probed alone
// (a refused evaluation faults the whole invocation): in the entry script, in
// a verification script, in a verify method, and below them. The reference
// says false everywhere except for the calling contract's own hash; a fault
// means nothing passed.
func (h *harness) runNoSigners(l *local) {
	w := h.w
	targets := [][]byte{util.Uint160{}.BytesBE(), fill(0xFF).BytesBE(), w.acc.BytesBE(), w.probes[0].Hash.BytesBE(), w.stranger.BytesBE()}
	classes := []string{"zero-account", "ones-account", "unsigned-account", "contract", "stranger"}
	var cs []chainSpec
	for _, c := range [][]sym{nil, {'A'}, {'D'}, {'A', 'B'}, {'C', 'D'}} {
		cs = append(cs, mkChain(c, nil), mkChain(c, nil).withMode(1))
	}
	for _, p := range "ABC" {
		cs = append(cs, mkChain([]sym{sym(p)}, nil).withMode(2))
	}
	for ti, t := range targets {
		cfg := sconfig{part: "nosigners", idx: ti, targets: [][]byte{t}, tclass: []string{classes[ti]}, shape: "no-signers"}
		l.obs["configs_nosigners"]++
		for _, c := range cs {
			h.runCase(l, &cfg, c, true)
		}
	}
}

func firstLine(s string) string {
	if i := strings.IndexByte(s, '\n'); i >= 0 {
		s = s[:i]
	}
	if len(s) > 160 {
		s = s[:160]
	}
	return s
}

func condKind(c cond) string {
	k := c.Type().String()
	switch v := c.(type) {
	case *transaction.ConditionScriptHash:
		if util.Uint160(*v) == (util.Uint160{}) {
			k += "(zero-hash)"
		}
	case *transaction.ConditionCalledByContract:
		if util.Uint160(*v) == (util.Uint160{}) {
			k += "(zero-hash)"
		}
	}
	return k
}

func subtrees(c cond, out *[]cond) {
	switch v := c.(type) {
	case *transaction.ConditionNot:
		subtrees(v.Condition, out)
	case *transaction.ConditionAnd:
		for _, x := range *v {
			subtrees(x, out)
		}
	case *transaction.ConditionOr:
		for _, x := range *v {
			subtrees(x, out)
		}
	}
	*out = append(*out, c) // post-order: children before parents
}

// minimalCond looks for the smallest sub-condition that, as the only Allow
// rule of the same account, is already evaluated differently from the
// reference in the same cell; it names the kind of its root.
func (h *harness) minimalCond(cfg *sconfig, chain chainSpec, c *cell, clause string) (string, cond) {
	if clause != "rule-allow" && clause != "rule-deny" && clause != "no-match" {
		return "", nil // the reference never reached the rules
	}
	var s *transaction.Signer
	for i := range cfg.signers {
		if cfg.signers[i].Account == c.hash {
			s = &cfg.signers[i]
			break
		}
	}
	if s == nil || s.Scopes&transaction.Rules == 0 {
		return "", nil
	}
	var subs []cond
	for _, r := range s.Rules {
		subtrees(r.Condition, &subs)
	}
	// Control: constant conditions must be evaluated right in this very cell,
	// otherwise the cause is outside the condition matcher.
	subs = append([]cond{cBool(true), cBool(false)}, subs...)
	for si, sc := range subs {
		one := []transaction.Signer{{Account: c.hash, Scopes: transaction.Rules, Rules: []transaction.WitnessRule{{Action: transaction.WitnessAllow, Condition: sc}}},
			{Account: h.w.decoyG, Scopes: transaction.Global}}
		cells, states, frames, _, fault := h.exec(one, cfg.targets, chain)
		if fault != "" {
			continue
		}
		for i := range cells {
			x := &cells[i]
			if x.pos == c.pos && x.phase == c.phase && x.target == c.target {
				if want, _ := h.want(one, frames, states, x); want != x.got {
					if si < 2 {
						return "", nil
					}
					return condKind(sc), sc
				}
			}
		}
	}
	return "", nil
}

// sigCache remembers, per (mismatch class, configuration shape), the violation
// signature the expensive path (minimisation, witness) worked out, so that a
// break which flips millions of cells costs one minimisation per shape.
var sigCache sync.Map

func (h *harness) report(cfg *sconfig, chain chainSpec, caseID string, frames []frame, states []gstate, script []byte, c *cell, want bool, clause string, keyedOnly bool, ctx int8) {
	sig := fmt.Sprintf("cell:%s:want=%v", clause, want)
	if c.phase == "native-transfer" || c.phase == "payment-from" {
		sig += ":in-native-transfer"
	}
	if keyedOnly {
		sig += ":public-key-argument"
	}
	if clause == "non-signer" && c.hash == (util.Uint160{}) {
		sig += ":zero-account-argument"
	}
	if ctx != 0 {
		sig += ":" + ctxNames[ctx]
	}
	mr := mutRelation(frames, states[c.state], c.pos)
	key := sig + "|" + cfg.part + "|" + cfg.shape + "|" + mutRel[mr]
	if v, ok := sigCache.Load(key); ok {
		h.run.Violation(v.(string), caseID, "", nil) // counted under the signature already witnessed
		return
	}
	var minKind string
	var minCond cond
	if ctx == 0 { // the minimisation re-runs test invocations; a block flow is reported as it is
		minKind, minCond = h.minimalCond(cfg, chain, c, clause)
	}
	if minKind != "" {
		sig = "cell:condition=" + minKind // one mis-evaluated condition kind = one signature, whatever the verdict
	}
	if mr == 1 || mr == 2 {
		sig += ":after-" + mutRel[mr]
	}
	tc := "payment-from"
	if c.target >= 0 {
		tc = cfg.tclass[c.target]
	}
	detail := fmt.Sprintf("CheckWitness(%s [%s]) at position %d (%s, %s) of chain %s returned %v; the scope rules give %v (%s)",
		c.hash.StringLE(), tc, c.pos, frames[c.pos].name, c.phase, chainName(chain), c.got, want, clause)
	if minCond != nil {
		b, _ := json.Marshal(minCond)
		detail += "; smallest sub-condition already evaluated differently: " + string(b)
	}
	wit := h.witness(cfg, chain, framesAt(frames, states[c.state]), script, c, want, clause)
	switch ctx {
	case 1:
		detail += "; the check ran inside the oracle callback (response transaction in a block): the signers in force are those of the request transaction, frame 0 is the response script, frame 1 the native Oracle contract, frame 2 the callback"
		wit["context"] = "oracle callback; signers = signers of the request transaction; frames = invocation of the response transaction; entry_script = script of the request transaction"
	case 2:
		detail += "; the check ran in the request transaction executed in a block"
		wit["context"] = "request transaction executed in a block"
	}
	h.run.Violation(sig, caseID, detail, wit)
	sigCache.Store(key, sig) // only after the witnessed report exists
}

func (h *harness) witness(cfg *sconfig, chain chainSpec, frames []frame, script []byte, c *cell, want bool, clause string) map[string]any {
	sj, _ := json.Marshal(cfg.signers)
	var sb []string
	for i := range cfg.signers {
		bw := io.NewBufBinWriter()
		cfg.signers[i].EncodeBinary(bw.BinWriter)
		sb = append(sb, hex.EncodeToString(bw.Bytes()))
	}
	var fr []map[string]any
	for i, f := range frames {
		var gs []string
		for _, g := range f.groups {
			gs = append(gs, hex.EncodeToString(g))
		}
		fr = append(fr, map[string]any{"pos": i, "kind": f.kind, "name": f.name, "hash": f.hash.StringLE(), "groups": gs})
	}
	var ts []string
	for _, t := range cfg.targets {
		ts = append(ts, hex.EncodeToString(t))
	}
	wit := map[string]any{
		"part": cfg.part, "config_index": cfg.idx, "config_shape": cfg.shape, "chain": chainName(chain),
		"signers": json.RawMessage(sj), "signers_binary": sb, "frames": fr, "targets": ts,
		"entry_script": hex.EncodeToString(script),
	}
	if c != nil {
		wit["cell"] = map[string]any{"pos": c.pos, "phase": c.phase, "target": c.hash.StringLE(), "got": c.got, "want": want, "deciding_clause": clause}
	}
	return wit
}

func hashOf(script []byte) util.Uint160 { return hash.Hash160(script) }

// decodable round-trips the signers through the wire format: what is installed
// in the transaction is what a node would have decoded.
func decodable(signers []transaction.Signer) ([]transaction.Signer, error) {
	out := make([]transaction.Signer, len(signers))
	for i := range signers {
		bw := io.NewBufBinWriter()
		signers[i].EncodeBinary(bw.BinWriter)
		if bw.Err != nil {
			return nil, bw.Err
		}
		br := io.NewBinReaderFromBuf(bw.Bytes())
		out[i].DecodeBinary(br)
		if br.Err != nil {
			return nil, br.Err
		}
	}
	return out, nil
}

func TestCheck(t *testing.T) {
	run := ev.Start("C15", "one case = one (signer configuration, call chain) pair executed on a neotest chain; every CheckWitness "+
		"the frames execute (before and after the nested call, in the entry script, in probe contracts with and without manifest "+
		"groups, in dynamic scripts, and the native GAS contract's own check inside transfer) is one cell compared with the "+
		"reference evaluator; in part mutate one frame of the chain changes its own manifest groups (update) or destroys itself mid-invocation. Distinct = (part, kinds-only shape of the configuration: scope byte, list choice, rule actions "+
		"and condition tree shape [root kind and depth only for the sampled deep part], position of the signer in the list) x "+
		"evaluation context (current frame, calling frame, entry relation) x target class x deciding clause x verdict x relation to an earlier group change; "+
		"non-trivial = the target is a signer whose scopes were evaluated or the calling contract itself (cells of accounts "+
		"that did not sign are counted as evaluations only). Part matcher: one case = one (condition tree, stub context) "+
		"evaluation of WitnessCondition.Match; distinct = root kind x depth x context x verdict. Part oracle: one case = one two-transaction flow in blocks "+
		"(request transaction with the configuration whose chain ends in a probe filing Oracle.request; oracle response transaction whose Oracle.finish calls the probe's callback, which relays on); "+
		"every CheckWitness of the callback and the frames below it is one cell compared with the reference over the request transaction's signers (signature suffix in-oracle-callback)")
	defer run.Finish()
	run.Assume("the reference evaluator (ref_test.go, written from the protocol text) is right; it reads only data fields of neo-go's Signer/condition types")
	run.Assume("frames are known by construction: the harness builds every script, Hash160 and the contract hash/manifest group deployment are trusted")
	run.Assume("probe contracts are compiled by neo-go's compiler and report CheckWitness results faithfully through return values / one notification")
	run.Assume("signers are installed after a round trip through Signer.EncodeBinary/DecodeBinary; test invocations (GetTestVM) evaluate witnesses as block execution does")
	run.Assume("oracle flows: the chain accepts blocks without verifying their transactions (VerifyTransactions off, as the shipped main-net configuration), so request transactions carry dummy witnesses; the response transaction is signed by the designated node's key and accepted by Blockchain.VerifyTx")

	w := newWorld(t)
	h := &harness{w: w, run: run}
	thorough := ev.Tier() == "thorough"

	// Scope bytes the wire decoder accepts out of the 32 subsets of the five bits.
	var validScopes []transaction.WitnessScope
	for m := 0; m < 32; m++ {
		var sc transaction.WitnessScope
		for i, b := range []transaction.WitnessScope{transaction.CalledByEntry, transaction.CustomContracts, transaction.CustomGroups, transaction.Rules, transaction.Global} {
			if m&(1<<i) != 0 {
				sc |= b
			}
		}
		if _, err := decodable([]transaction.Signer{{Account: w.acc, Scopes: sc}}); err == nil {
			validScopes = append(validScopes, sc)
		} else {
			run.Obs("scope_subsets_rejected_by_decoder", 1)
		}
	}
	run.Obs("scope_subsets_accepted_by_decoder", int64(len(validScopes)))

	basic := chains("ABC", 3)
	var ext [][]sym
	for _, c := range chains("ABCDN", 3) {
		if strings.ContainsAny(string(c), "DN") {
			ext = append(ext, c)
		}
	}
	for _, c := range append(append([][]sym{}, basic...), ext...) {
		h.chains = append(h.chains, mkChain(c, nil))
	}
	basicIdx := make([]int, len(basic))
	for i := range basic {
		basicIdx[i] = i
	}
	allIdx := make([]int, len(h.chains))
	for i := range h.chains {
		allIdx[i] = i
	}
	// The same chains with the generated script as a witness verification script
	// (Verification trigger; no native payment: read-only flags), the script
	// alone in both triggers, and each probe's verify method as the entry context.
	smallIdx := append([]int{}, allIdx...)
	for _, c := range append(append([][]sym{nil}, basic...), ext...) {
		if strings.ContainsRune(string(c), 'N') {
			continue
		}
		smallIdx = append(smallIdx, len(h.chains))
		h.chains = append(h.chains, mkChain(c, nil).withMode(1))
	}
	smallIdx = append(smallIdx, len(h.chains))
	h.chains = append(h.chains, mkChain(nil, nil))
	for _, p := range "ABC" {
		smallIdx = append(smallIdx, len(h.chains))
		h.chains = append(h.chains, mkChain([]sym{sym(p)}, nil).withMode(2))
	}
	// Chains in which exactly one probe frame changes its own group membership
	// (ContractManagement.update / destroy) between its checks.
	var mutIdx []int
	for _, c := range append(append([][]sym{}, basic...), ext...) {
		for _, mc := range w.mutations(c) {
			mutIdx = append(mutIdx, len(h.chains))
			h.chains = append(h.chains, mc)
		}
	}

	atoms := w.atoms()
	d1 := depth1n(atoms)
	d2 := depth2(atoms)

	type job struct {
		cfgs   []sconfig
		gen    func(i int) sconfig // sampled parts generate on the fly
		n      int
		chains []int
		name   string
		full   bool // a finite product enumerated completely
	}
	var jobs []job
	add := func(name string, cfgs []sconfig, chains []int, full bool) {
		jobs = append(jobs, job{cfgs: cfgs, n: len(cfgs), chains: chains, name: name, full: full})
	}
	add("scopes", w.scopeConfigs(validScopes), smallIdx, true)
	add("sentinel", w.sentinelConfigs(validScopes), smallIdx, true)
	add("rule1", w.rule1Configs("rule1", d2), smallIdx, true)
	add("mixed", w.mixedConfigs(d1), smallIdx, true)
	add("zero-hash", w.zeroConfigs(), smallIdx, true)
	add("rule2", w.rule2Configs("rule2", d1, d1), allIdx, true)
	if thorough {
		add("rule2x", w.rule2Configs("rule2x", d2, d1), basicIdx, true)
	}
	if thorough {
		add("mutate", w.mutateConfigs(validScopes, d2, true), mutIdx, true)
	} else {
		add("mutate", w.mutateConfigs(validScopes, d1, false), mutIdx, true)
	}
	nDeep, nMulti := ev.Pick(4000, 160000), ev.Pick(1000, 24000)
	jobs = append(jobs, job{gen: func(i int) sconfig { return w.deepConfig(i, atoms) }, n: nDeep, chains: allIdx, name: "deep"})
	jobs = append(jobs, job{gen: func(i int) sconfig { return w.multiConfig(i, validScopes, d1, d2) }, n: nMulti, chains: allIdx, name: "multi"})

	part := os.Getenv("VERIF_PART")
	if part == "" || part == "all" || part == "matcher" {
		h.runMatcher(d2)
	}
	// The oracle flows add blocks to the chain: they run before any test invocation starts.
	var oracleLocal *local
	if part == "" || part == "all" || part == "oracle" {
		oracleLocal = newLocal()
		h.runOracle(t, oracleLocal, validScopes)
	}
	if p := part; p != "" && p != "all" {
		var keep []job
		for _, j := range jobs {
			if j.name == p {
				keep = append(keep, j)
			}
		}
		jobs = keep
	}

	type unit struct {
		j *job
		i int
	}
	var units []unit
	for ji := range jobs {
		for i := 0; i < jobs[ji].n; i++ {
			units = append(units, unit{&jobs[ji], i})
		}
	}
	nw := runtime.GOMAXPROCS(0)
	locals := make([]*local, nw)
	var next atomic.Int64
	var badCfg atomic.Int64
	var wg sync.WaitGroup
	for wi := 0; wi < nw; wi++ {
		l := newLocal()
		locals[wi] = l
		wg.Add(1)
		go func() {
			defer wg.Done()
			for {
				k := int(next.Add(1)) - 1
				if k >= len(units) {
					return
				}
				u := units[k]
				var cfg sconfig
				if u.j.gen != nil {
					cfg = u.j.gen(u.i)
				} else {
					cfg = u.j.cfgs[u.i]
				}
				dec, err := decodable(cfg.signers)
				if err != nil {
					badCfg.Add(1)
					run.Inconclusive("configuration %s/%d is not decodable from the wire format: %v", cfg.part, cfg.idx, err)
					continue
				}
				cfg.signers = dec
				l.obs["configs_"+cfg.part]++
				for _, ci := range u.j.chains {
					h.runCase(l, &cfg, h.chains[ci], false)
				}
				if !needsGroups(cfg.signers) {
					// frames without ReadStates: nothing here needs a contract's groups,
					// so the answers are those of the ordinary run and nothing faults
					for _, c := range noReadChains {
						h.runCase(l, &cfg, c, false)
						l.obs["runs_with_frames_lacking_ReadStates"]++
					}
				}
			}
		}()
	}
	wg.Wait()
	if oracleLocal != nil {
		locals = append(locals, oracleLocal)
	}
	if part == "" || part == "all" || part == "nosigners" {
		l := newLocal()
		locals = append(locals, l)
		h.runNoSigners(l)
	}

	// Merge the worker-local counters.
	tot := map[string]int64{}
	type ck struct {
		shape string
		k     covKey
	}
	cov := map[ck]int64{}
	for _, l := range locals {
		for k, v := range l.obs {
			tot[k] += v
		}
		for k, v := range l.cov {
			kk := k
			kk.shape = 0
			sh := "(any configuration)"
			if k.shape >= 0 {
				sh = l.shapeLst[k.shape]
			}
			cov[ck{sh, kk}] += v
		}
		for i, v := range l.byKind {
			tot["cells_at_"+frameKinds[i]] += v
			tot["cells"] += v
		}
		for i, v := range l.byClause {
			tot["clause_"+clauses[i]] += v
		}
		for i, v := range l.byPhase {
			tot["cells_phase_"+phases[i]] += v
		}
		for i := 1; i < 4; i++ {
			tot["cells_after_"+mutRel[i]] += l.byMut[i]
		}
		tot["want_false"] += l.byWant[0]
		tot["want_true"] += l.byWant[1]
	}
	for k, v := range tot {
		run.Obs(k, v)
	}
	for k, v := range cov {
		tc := tclasses[k.k.tclass]
		cl := clauses[k.k.clause]
		nontrivial := cl != "non-signer"
		sig := fmt.Sprintf("%s|cur=%s|calling=%s|byentry=%v|%s|%s|%v|%s", k.shape, frameNames[k.k.cur], frameNames[k.k.calling], k.k.cbe, tc, cl, k.k.want, mutRel[k.k.mut])
		if k.k.ctx != 0 {
			sig += "|" + ctxNames[k.k.ctx]
		}
		run.CaseN(sig, nontrivial, v)
	}
	run.Obs("chains_basic", int64(len(basic)))
	run.Obs("chains_with_dynamic_or_native", int64(len(ext)))
	run.Obs("chains_with_group_change", int64(len(mutIdx)))
	run.Obs("conditions_depth_le2", int64(len(d2)))
	run.Obs("condition_atoms", int64(len(atoms)))

	// Written-out samples: one cell of a few parts.
	sampleOrder := append([]job{}, jobs...)
	sort.SliceStable(sampleOrder, func(a, b int) bool { return sampleOrder[a].name == "mutate" && sampleOrder[b].name != "mutate" })
	for _, j := range sampleOrder {
		if j.n == 0 {
			continue
		}
		var cfg sconfig
		i := j.n / 2
		if j.gen != nil {
			cfg = j.gen(i)
		} else {
			cfg = j.cfgs[i]
		}
		chain := h.chains[j.chains[len(j.chains)-1]]
		cells, states, frames, _, fault := h.exec(cfg.signers, cfg.targets, chain)
		if fault != "" || len(cells) == 0 {
			continue
		}
		sj, _ := json.Marshal(cfg.signers)
		var rows []string
		for i := range cells {
			c := &cells[i]
			if c.target == 0 && (c.phase != "post" || j.name == "mutate") {
				want, clause := h.want(cfg.signers, frames, states, c)
				rows = append(rows, fmt.Sprintf("pos%d(%s,%s): got=%v ref=%v (%s)", c.pos, frames[c.pos].name, c.phase, c.got, want, clause))
			}
		}
		run.Sample(map[string]any{"part": j.name, "config_index": i, "signers": json.RawMessage(sj), "chain": chainName(chain), "checkwitness_of_signer_account": rows})
	}

	var fullParts, sampled []string
	complete := os.Getenv("VERIF_ONLY_CASE") == "" && run.Replaying() == nil && badCfg.Load() == 0
	for _, j := range jobs {
		if j.full {
			fullParts = append(fullParts, fmt.Sprintf("%s(%d configs x %d chains)", j.name, j.n, len(j.chains)))
		} else {
			sampled = append(sampled, fmt.Sprintf("%s(%d configs x %d chains)", j.name, j.n, len(j.chains)))
		}
	}
	if oracleLocal != nil {
		sampled = append(sampled, fmt.Sprintf("oracle(%d two-transaction flows in blocks)", oracleLocal.obs["oracle_flows"]))
	}
	sort.Strings(fullParts)
	run.Note("enumerated_completely", fullParts)
	run.Note("sampled", sampled)
	run.Note("product_definition", "scopes: {key account, account=contract A} x every decodable scope byte without Rules x 5 contract lists x 5 group lists; "+
		"rule1: {Allow,Deny} x every condition tree of depth<=2 (16 atoms; a | Not a | And/Or of 1 or 2 distinct atoms); "+
		"mixed: Rules + every non-empty subset of {CalledByEntry,CustomContracts[B],CustomGroups[g2]} x {Allow,Deny} x {a, Not a}; "+
		"rule2: {Allow,Deny}^2 x {a, Not a}^2; rule2x (thorough): {Allow,Deny}^2 x depth<=2 x {a, Not a}; zero-hash: 5 conditions over the zero hash x {Allow,Deny}; "+
		"each x every listed chain (basic = all 39 sequences of 1..3 probes incl. re-entrancy; extended = all valid sequences of 1..3 symbols containing a dynamic script or the native GAS payment) "+
		"x every position x {pre,post} x every target. Signer list layout alternates with the configuration index ([s,decoyG] / [decoyN,s,decoyG]) and is not a product dimension. "+
		"mutate: every scopes configuration with the CustomGroups bit (quick: key account only) + {Allow,Deny} x every condition (quick: a | Not a; thorough: depth<=2) that mentions a Group or CalledByGroup atom, "+
		"x every chain of the list above in which exactly one probe frame (not at or below a dynamic script) calls ContractManagement.update with a manifest carrying another of the group sets {},{g},{g2},{g,g2} "+
		"or ContractManagement.destroy between its first checks and the nested call (a destroyed contract is not invoked again); the reference uses the group set in force at the moment of each check. "+
		"sentinel: signer account in {all-zero hash, all-ones hash} x every decodable scope byte without Rules x {[],[A]} x {[],[g]} + 4 one-rule lists, both accounts being targets of every configuration; "+
		"the all-zero account is also a target of every configuration of every other part. Parts scopes, sentinel, rule1, mixed and zero-hash additionally run every chain without the native payment with the generated script as a "+
		"witness verification script (Verification trigger, Blockchain.InitVerificationContext), the script alone (no nested call) in both triggers, and the verify method of each probe contract as the entry context of a witness verification. "+
		"nosigners: a transaction with no signer at all x 5 single targets x 13 entry contexts (a faulting invocation counts as nothing passed). "+
		"Composite arity > 2, depth 3 and lists of 3 rules are sampled only (parts deep, multi). "+
		"matcher: WitnessCondition.Match with a stub context for every tree of depth<=3 with composite arity<=2 over the 16 atoms x every context "+
		"(6 current frames x {no caller, 6 callers directly from the entry script, 6 callers deeper})")
	if complete && (part == "" || part == "all") {
		run.Exhaustive()
	}
	if tot["cells"] == 0 {
		run.Inconclusive("no cell was compared")
	}
}

// noReadChains are run in mode 3 (see chainSpec).
// Single hops only: System.Contract.Call itself needs ReadStates, a frame without it
// cannot relay.
var noReadChains = []chainSpec{mkChain([]sym{'A'}, nil).withMode(3), mkChain([]sym{'B'}, nil).withMode(3), mkChain([]sym{'C'}, nil).withMode(3)}

// needsGroups tells whether evaluating some signer may require the groups of a
// contract (which needs ReadStates in the checking frame).
func needsGroups(signers []transaction.Signer) bool {
	var uses func(c cond) bool
	uses = func(c cond) bool {
		switch v := c.(type) {
		case *transaction.ConditionGroup, *transaction.ConditionCalledByGroup:
			return true
		case *transaction.ConditionNot:
			return uses(v.Condition)
		case *transaction.ConditionAnd:
			for _, x := range *v {
				if uses(x) {
					return true
				}
			}
		case *transaction.ConditionOr:
			for _, x := range *v {
				if uses(x) {
					return true
				}
			}
		}
		return false
	}
	for _, s := range signers {
		if s.Scopes&transaction.CustomGroups != 0 {
			return true
		}
		for _, r := range s.Rules {
			if uses(r.Condition) {
				return true
			}
		}
	}
	return false
}

package c15

// Witness checks inside an oracle callback.
//
// A flow is two transactions in two blocks of the harness chain:
//
//  1. the request transaction carries the signer configuration under test; its
//     entry script runs a call chain whose last frame (a probe contract) files
//     Oracle.request(url, nil, "oracleCb", key, gas) and stores the callback's
//     payload [targets, continuation] under key;
//  2. the oracle response transaction, built the way pkg/services/oracle builds
//     it (script = Oracle.finish, OracleResponse attribute, signers = the Oracle
//     contract and the designated node's multisignature account, both scope
//     None, signed with the node's key, accepted by Blockchain.VerifyTx), is
//     put into the next block. Oracle.finish calls the requester's oracleCb,
//     which records CheckWitness of every target before and after relaying to
//     further frames and publishes the answers in a notification.
//
// While the callback runs the signers in force are those of the REQUEST
// transaction; the frames are those of the response transaction's invocation:
// frame 0 = the response script (entry), frame 1 = the native Oracle contract
// (calling script of the callback), frame 2 = the callback, then the relays.
// The reference evaluator is applied to exactly that.
//
// After the callback returns nothing else checks a witness: the response
// script is fixed (a transaction with another script is not an oracle response
// for any verifying node) and Oracle.finish refuses to run below another
// frame, so the restored signer list has no observer inside valid flows.

import (
	"encoding/json"
	"fmt"
	"sort"
	"testing"

	"github.com/nspcc-dev/neo-go/pkg/core/native/nativehashes"
	"github.com/nspcc-dev/neo-go/pkg/core/state"
	"github.com/nspcc-dev/neo-go/pkg/core/transaction"
	"github.com/nspcc-dev/neo-go/pkg/crypto/keys"
	"github.com/nspcc-dev/neo-go/pkg/smartcontract/trigger"
	"github.com/nspcc-dev/neo-go/pkg/util"
	"github.com/nspcc-dev/neo-go/pkg/vm/stackitem"
	"github.com/nspcc-dev/neo-go/pkg/vm/vmstate"
	"github.com/nspcc-dev/neo-go/verifharness/vlib/ev"
	"github.com/nspcc-dev/neo-go/verifharness/vlib/rng"
)

const (
	oracleGasForResponse = int64(5_0000_0000) // minted to the Oracle contract by the request, spent by the response
	oracleReqSysFee      = int64(12_0000_0000)
	oracleReqNetFee      = int64(1000_0000)
	oracleBatch          = 192 // flows per pair of blocks
)

type oflow struct {
	idx       int
	cfg       sconfig
	chain     chainSpec
	caseID    string
	split     int // index of 'O' in chain.syms
	script    []byte
	reqFrames []frame
	cbFrames  []frame
	reqTx     *transaction.Transaction
	respTx    *transaction.Transaction
	id        uint64
}

// oracleChains: prefix (the frames of the request transaction, the last one
// files the request) x suffix (what the callback relays to).
func oracleChains(maxSuffix int) (byRequester [3][]chainSpec) {
	suffixes := append([][]sym{nil}, chains("ABCDN", maxSuffix)...)
	for r := 0; r < 3; r++ {
		x := sym('A' + r)
		y := sym('A' + (r+1)%3)
		prefixes := [][]sym{{x}, {x}, {x}, {y, x}, {'N', x}, {x, x}} // mostly the direct one
		for si, s := range suffixes {
			p := prefixes[si%len(prefixes)]
			c := append(append(append([]sym{}, p...), 'O'), s...)
			if !validChain(c) {
				panic("c15: invalid oracle chain " + string(c))
			}
			byRequester[r] = append(byRequester[r], mkChain(c, nil))
		}
	}
	return
}

// oracleAtoms: the leaf conditions of the other parts plus the two that name
// the native Oracle contract (the calling script of every callback).
func (w *world) oracleAtoms() []lcond {
	return append(w.atoms(), lcond{cCBC(w.oracleFrame.hash), "CBC", 1}, lcond{cSH(w.oracleFrame.hash), "SH", 1})
}

// oracleDirected: scope configurations that name the native Oracle contract
// and the accounts of the response transaction.
func (w *world) oracleDirected() []sconfig {
	A, B, O := w.probes[0].Hash, w.probes[1].Hash, w.oracleFrame.hash
	var out []sconfig
	add := func(acc util.Uint160, sc transaction.WitnessScope, ac []util.Uint160, ag []*keys.PublicKey, lists string) {
		out = append(out, w.mk("odirected", len(out), acc, sc, ac, ag, nil, lists))
	}
	for _, acc := range []util.Uint160{w.acc, A, B} {
		add(acc, transaction.CustomContracts, []util.Uint160{O}, nil, "c[Oracle]")
		add(acc, transaction.CustomContracts, []util.Uint160{O, A}, nil, "c[Oracle,A]")
		add(acc, transaction.CustomContracts|transaction.CalledByEntry, []util.Uint160{w.respFrame.hash}, nil, "c[response-script]")
		add(acc, transaction.CustomGroups|transaction.CalledByEntry, nil, []*keys.PublicKey{w.g[1]}, "g[g2]")
	}
	// The response transaction's own signers sign the request with wide scopes:
	// inside the callback these, not the response's None scopes, are in force.
	add(w.oracleNodes.ScriptHash(), transaction.Global, nil, nil, "|account=oracle-nodes")
	add(w.oracleNodes.ScriptHash(), transaction.CustomContracts, []util.Uint160{B}, nil, "c[B]|account=oracle-nodes")
	// (The Oracle contract cannot be funded by a transfer, so it is never the
	// first signer: the odd index selects the layout [decoyN, s, decoyG].)
	for _, sc := range []transaction.WitnessScope{transaction.CalledByEntry, transaction.None, transaction.Global} {
		out = append(out, w.mk("odirected", 2*len(out)+1, O, sc, nil, nil, nil, "|account=oracle-contract"))
	}
	return out
}

// oracleFlows lists the flows of this run: count-determined per tier, chains
// and sampled configurations drawn from per-flow PRNG streams.
func (h *harness) oracleFlows(validScopes []transaction.WitnessScope) []oflow {
	w := h.w
	thorough := ev.Tier() == "thorough"
	byReq := oracleChains(ev.Pick(2, 3))
	atoms := w.oracleAtoms()
	d1, d2 := depth1n(atoms), depth2(atoms)
	var flows []oflow
	add := func(cfg sconfig, chain chainSpec) {
		f := oflow{idx: len(flows), chain: chain}
		f.cfg = cfg
		f.cfg.shape = cfg.part + ":" + cfg.shape
		f.cfg.part = "oracle"
		f.cfg.idx = f.idx
		// The accounts of the response transaction are targets of every flow.
		f.cfg.targets = append(append([][]byte{}, cfg.targets...), w.oracleNodes.ScriptHash().BytesBE(), w.oracleFrame.hash.BytesBE())
		f.cfg.tclass = append(append([]string{}, cfg.tclass...), "oracle-nodes-account", "oracle-contract")
		f.caseID = fmt.Sprintf("oracle/%d/%s", f.idx, chain.id)
		flows = append(flows, f)
	}
	r := func() *rng.R { return rng.New(0xC15_2000_0000 + uint64(len(flows))) }
	// Core: every configuration once per requesting contract (A: group g, B: no
	// group, C: groups g and g2); the relay below the callback is drawn.
	core := w.scopeConfigs(validScopes)
	core = append(core, w.oracleDirected()...)
	core = append(core, w.rule1Configs("orule1", d1)...)
	core = append(core, w.zeroConfigs()...)
	perReq := ev.Pick(3, 18)
	for _, cfg := range core {
		for q := 0; q < 3; q++ {
			for k := 0; k < perReq; k++ {
				cs := byReq[q]
				add(cfg, cs[r().Intn(len(cs))])
			}
		}
	}
	anyChain := func(x *rng.R) chainSpec {
		cs := byReq[x.Intn(3)]
		return cs[x.Intn(len(cs))]
	}
	// Composite conditions: complete in the thorough tier, sampled in the quick one.
	comp := w.rule1Configs("orule2", d2[len(d1):])
	if thorough {
		for _, cfg := range comp {
			for q := 0; q < 3; q++ {
				cs := byReq[q]
				add(cfg, cs[r().Intn(len(cs))])
			}
		}
	} else {
		for i := 0; i < 300; i++ {
			x := r()
			add(comp[x.Intn(len(comp))], anyChain(x))
		}
	}
	mixed := w.mixedConfigs(d1)
	sent := w.sentinelConfigs(validScopes)
	for i, n := 0, ev.Pick(150, len(mixed)*2); i < n; i++ {
		x := r()
		cfg := mixed[i%len(mixed)]
		if !thorough {
			cfg = mixed[x.Intn(len(mixed))]
		}
		add(cfg, anyChain(x))
	}
	for i, n := 0, ev.Pick(46, len(sent)*3); i < n; i++ {
		x := r()
		cfg := sent[i%len(sent)]
		if !thorough {
			cfg = sent[x.Intn(len(sent))]
		}
		add(cfg, anyChain(x))
	}
	od1, od2 := depth1n(w.atoms()), depth2(w.atoms())
	for i, n := 0, ev.Pick(300, 4000); i < n; i++ {
		x := r()
		add(w.multiConfig(1_000_000+x.Intn(1<<20), validScopes, od1, od2), anyChain(x))
	}
	for i, n := 0, ev.Pick(200, 4000); i < n; i++ {
		x := r()
		add(w.deepConfig(1_000_000+x.Intn(1<<20), atoms), anyChain(x))
	}
	return flows
}

// splitOracle turns the frame list of a chain with an 'O' into the frames of
// the request transaction and those of the callback's invocation.
func (w *world) splitOracle(entry frame, rest []frame) (req, cb []frame) {
	k := -1
	for i, f := range rest {
		if f.kind == "native" && f.hash == w.oracleFrame.hash {
			k = i
			break
		}
	}
	if k < 1 {
		panic("c15: chain without a requesting probe")
	}
	req = append([]frame{entry}, rest[:k]...)
	cb = append([]frame{w.respFrame, w.oracleFrame, rest[k-1]}, rest[k+1:]...)
	return
}

func dummyWitnesses(n int) []transaction.Witness {
	ws := make([]transaction.Witness, n)
	for i := range ws {
		ws[i] = transaction.Witness{InvocationScript: []byte{}, VerificationScript: []byte{}}
	}
	return ws
}

func wNotes(evs []state.NotificationEvent) (out []state.NotificationEvent) {
	for _, n := range evs {
		if n.Name == "w" {
			out = append(out, n)
		}
	}
	return
}

// runOracle executes every flow. It adds blocks to the shared chain and must
// run while no test invocation is in flight.
func (h *harness) runOracle(t *testing.T, l *local, validScopes []transaction.WitnessScope) {
	w := h.w
	all := h.oracleFlows(validScopes)
	l.obs["oracle_flows_listed"] = int64(len(all))
	var flows []*oflow
	for i := range all {
		if h.run.Want(all[i].caseID) {
			flows = append(flows, &all[i])
		}
	}
	if len(flows) == 0 {
		return
	}
	// Build the request transactions; whoever is the first signer pays.
	need := map[util.Uint160]int64{}
	for _, f := range flows {
		dec, err := decodable(f.cfg.signers)
		if err != nil {
			h.run.Inconclusive("configuration %s is not decodable from the wire format: %v", f.caseID, err)
			f.reqTx = nil
			continue
		}
		f.cfg.signers = dec
		for i, s := range f.chain.syms {
			if s == 'O' {
				f.split = i
			}
		}
		script, rest := w.script(f.cfg.targets, f.chain.syms, f.chain.muts)
		f.script = script
		f.reqFrames, f.cbFrames = w.splitOracle(frame{hash: hashOf(script), kind: "entry", name: "entry"}, rest)
		tx := transaction.New(script, oracleReqSysFee)
		tx.Nonce = uint32(f.idx)
		tx.NetworkFee = oracleReqNetFee
		tx.Signers = f.cfg.signers
		tx.Scripts = dummyWitnesses(len(tx.Signers))
		f.reqTx = tx
		need[tx.Sender()] += oracleReqSysFee + oracleReqNetFee
	}
	// One funding block.
	var senders []util.Uint160
	for a := range need {
		senders = append(senders, a)
	}
	sort.Slice(senders, func(i, j int) bool { return senders[i].Less(senders[j]) })
	gasInv := w.e.ValidatorInvoker(nativehashes.GasToken)
	var fund []*transaction.Transaction
	for _, a := range senders {
		// The data is what a probe contract's onNEP17Payment expects: nothing to check, nothing to call.
		fund = append(fund, gasInv.PrepareInvoke(t, "transfer", w.e.Validator.ScriptHash(), a, need[a], []any{[]any{}, []any{}, []any{}}))
	}
	w.e.AddNewBlock(t, fund...)
	for _, tx := range fund {
		w.e.CheckHalt(t, tx.Hash(), stackitem.Make(true))
	}
	l.obs["oracle_blocks"]++

	for lo := 0; lo < len(flows); lo += oracleBatch {
		hi := min(lo+oracleBatch, len(flows))
		h.oracleBatch(t, l, flows[lo:hi])
	}
}

func (h *harness) oracleBatch(t *testing.T, l *local, flows []*oflow) {
	w := h.w
	bc := w.bc
	// Block 1: the requests.
	var txs []*transaction.Transaction
	for _, f := range flows {
		if f.reqTx != nil {
			f.reqTx.ValidUntilBlock = bc.BlockHeight() + 1
			txs = append(txs, f.reqTx)
		}
	}
	w.e.AddNewBlock(t, txs...)
	l.obs["oracle_blocks"]++
	var answered []*oflow
	txs = txs[:0]
	for _, f := range flows {
		if f.reqTx == nil {
			continue
		}
		l.obs["oracle_flows"]++
		l.obs["configs_oracle"]++
		aers, err := bc.GetAppExecResults(f.reqTx.Hash(), trigger.Application)
		if err != nil || len(aers) != 1 {
			t.Fatalf("no execution result of the request transaction of %s: %v", f.caseID, err)
		}
		aer := &aers[0]
		if aer.VMState != vmstate.Halt || len(aer.Stack) != 1 {
			l.obs["faults"]++
			fault := fmt.Sprintf("vm: %s (%d items)", aer.FaultException, len(aer.Stack))
			h.run.Violation("unexpected-fault:"+hexRe.ReplaceAllString(firstLine(fault), "#")+":oracle-request-transaction", f.caseID,
				"the request transaction did not halt with a well-formed result: "+fault, h.witness(&f.cfg, f.chain, f.reqFrames, f.script, nil, false, ""))
			continue
		}
		// The request part: ordinary cells, executed in a block.
		d := &decoder{h: h, targets: f.cfg.targets, notes: wNotes(aer.Events), thash: targetHashes(f.cfg.targets), states: []gstate{nil}}
		d.frame(aer.Stack[0], 0, -1, mutNone, f.chain.syms, f.chain.muts)
		if d.err == "" && len(d.notes) != 0 {
			d.err = "unclaimed payment notification"
		}
		if d.err != "" {
			l.obs["faults"]++
			h.run.Violation("unexpected-fault:"+firstLine(d.err)+":oracle-request-transaction", f.caseID,
				"the request transaction's result is malformed: "+d.err, h.witness(&f.cfg, f.chain, f.reqFrames, f.script, nil, false, ""))
			continue
		}
		h.judge(l, &f.cfg, f.chain, f.caseID, f.reqFrames, d.states, f.script, d.cells, 2)
		// The request id.
		found := false
		for _, e := range aer.Events {
			if e.Name != "OracleRequest" || e.ScriptHash != w.oracleFrame.hash {
				continue
			}
			arr, ok := e.Item.Value().([]stackitem.Item)
			if !ok || len(arr) != 4 {
				continue
			}
			id, err1 := arr[0].TryInteger()
			from, err2 := arr[1].TryBytes()
			if err1 != nil || err2 != nil || string(from) != string(f.cbFrames[2].hash.BytesBE()) {
				continue
			}
			f.id, found = id.Uint64(), true
		}
		if !found && refusedPayment(d.cells) {
			// A chain that reaches the requester through a GAS payment the native
			// contract refused (compared above): no request, nothing to answer.
			l.obs["oracle_flows_without_request_payment_refused"]++
			continue
		}
		if !found {
			h.run.Inconclusive("flow %s: the request transaction halted without an OracleRequest event of the requesting probe", f.caseID)
			continue
		}
		// Block 2: the response.
		resp := &transaction.OracleResponse{ID: f.id, Code: transaction.Success, Result: []byte(`{"c15":1}`)}
		tx := transaction.New(w.respScript, 0)
		tx.Nonce = uint32(f.id)
		tx.ValidUntilBlock = bc.BlockHeight() + 1
		tx.Attributes = []transaction.Attribute{{Type: transaction.OracleResponseT, Value: resp}}
		tx.Signers = []transaction.Signer{{Account: w.oracleFrame.hash, Scopes: transaction.None}, {Account: w.oracleNodes.ScriptHash(), Scopes: transaction.None}}
		tx.NetworkFee = 600*bc.FeePerByte() + 800_0000
		tx.SystemFee = oracleGasForResponse - tx.NetworkFee
		tx.Scripts = []transaction.Witness{{InvocationScript: []byte{}, VerificationScript: []byte{}}}
		if err := w.oracleNodes.SignTx(bc.GetConfig().Magic, tx); err != nil {
			t.Fatalf("signing the response of %s: %v", f.caseID, err)
		}
		// The response must be a transaction every verifying node accepts.
		if err := bc.VerifyTx(tx); err != nil {
			h.run.Inconclusive("flow %s: the oracle response transaction built by the harness does not verify: %v", f.caseID, err)
			continue
		}
		l.obs["oracle_responses_verified"]++
		f.respTx = tx
		txs = append(txs, tx)
		answered = append(answered, f)
	}
	if len(txs) == 0 {
		return
	}
	w.e.AddNewBlock(t, txs...)
	l.obs["oracle_blocks"]++
	for _, f := range answered {
		aers, err := bc.GetAppExecResults(f.respTx.Hash(), trigger.Application)
		if err != nil || len(aers) != 1 {
			t.Fatalf("no execution result of the response transaction of %s: %v", f.caseID, err)
		}
		aer := &aers[0]
		if aer.VMState != vmstate.Halt {
			l.obs["faults"]++
			fault := "vm: " + aer.FaultException
			h.run.Violation("unexpected-fault:"+hexRe.ReplaceAllString(firstLine(fault), "#")+":oracle-response-transaction", f.caseID,
				"the response transaction (Oracle.finish and the callback chain) did not halt: "+fault, h.witness(&f.cfg, f.chain, f.cbFrames, f.script, nil, false, ""))
			continue
		}
		notes := wNotes(aer.Events)
		// A frame's notification is emitted when it finishes: the callback's is the last one.
		if len(notes) == 0 || notes[len(notes)-1].ScriptHash != f.cbFrames[2].hash {
			l.obs["faults"]++
			h.run.Violation("unexpected-fault:oracle-callback-not-executed", f.caseID,
				"the response transaction halted but the requesting contract's callback left no result", h.witness(&f.cfg, f.chain, f.cbFrames, f.script, nil, false, ""))
			continue
		}
		last := notes[len(notes)-1]
		na, ok := last.Item.Value().([]stackitem.Item)
		d := &decoder{h: h, targets: f.cfg.targets, notes: notes[:len(notes)-1], thash: targetHashes(f.cfg.targets), states: []gstate{nil}}
		if !ok || len(na) != 1 {
			d.fail("callback notification payload")
		} else {
			d.frame(na[0], 2, w.probeIdx(f.chain.syms[f.split-1]), mutNone, f.chain.syms[f.split+1:], f.chain.muts[f.split+1:])
		}
		if d.err == "" && len(d.notes) != 0 {
			d.err = "unclaimed payment notification"
		}
		if d.err != "" {
			l.obs["faults"]++
			h.run.Violation("unexpected-fault:"+firstLine(d.err)+":oracle-response-transaction", f.caseID,
				"the callback's result is malformed: "+d.err, h.witness(&f.cfg, f.chain, f.cbFrames, f.script, nil, false, ""))
			continue
		}
		l.obs["oracle_callbacks_observed"]++
		if len(f.cbFrames) > 3 {
			l.obs["oracle_callbacks_with_relay"]++
		}
		h.judge(l, &f.cfg, f.chain, f.caseID, f.cbFrames, d.states, f.script, d.cells, 1)
		if !h.oracleSampled && len(f.cbFrames) > 3 {
			h.oracleSampled = true
			sj, _ := json.Marshal(f.cfg.signers)
			var rows []string
			for i := range d.cells {
				c := &d.cells[i]
				if c.target == 0 && c.phase != "post" {
					want, clause := h.want(f.cfg.signers, f.cbFrames, d.states, c)
					rows = append(rows, fmt.Sprintf("pos%d(%s,%s): got=%v ref=%v (%s)", c.pos, f.cbFrames[c.pos].name, c.phase, c.got, want, clause))
				}
			}
			h.run.Sample(map[string]any{"part": "oracle", "flow": f.caseID, "signers_of_the_request_transaction": json.RawMessage(sj), "chain": chainName(f.chain),
				"frames_of_the_callback_invocation": frameList(f.cbFrames), "checkwitness_of_signer_account_in_the_callback": rows})
		}
	}
}

func refusedPayment(cells []cell) bool {
	for i := range cells {
		if cells[i].phase == "payment-from" && !cells[i].got {
			return true
		}
	}
	return false
}

func frameList(fr []frame) []string {
	out := make([]string, len(fr))
	for i, f := range fr {
		out[i] = fmt.Sprintf("%d:%s", i, f.name)
	}
	return out
}

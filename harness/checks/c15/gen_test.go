package c15

import (
	"fmt"
	"strings"

	"github.com/nspcc-dev/neo-go/pkg/core/transaction"
	"github.com/nspcc-dev/neo-go/pkg/crypto/keys"
	"github.com/nspcc-dev/neo-go/pkg/util"
	"github.com/nspcc-dev/neo-go/verifharness/vlib/rng"
)

type cond = transaction.WitnessCondition

// lcond is a condition with the shape label used in coverage signatures
// (kinds only) and its depth.
type lcond struct {
	c     cond
	shape string
	depth int
}

func cBool(b bool) cond { v := transaction.ConditionBoolean(b); return &v }
func cSH(h util.Uint160) cond {
	v := transaction.ConditionScriptHash(h)
	return &v
}
func cCBC(h util.Uint160) cond {
	v := transaction.ConditionCalledByContract(h)
	return &v
}
func cGroup(k *keys.PublicKey) cond { return (*transaction.ConditionGroup)(k) }
func cCBG(k *keys.PublicKey) cond   { return (*transaction.ConditionCalledByGroup)(k) }

// atoms: the leaf conditions, all nine kinds minus the three composites, over
// every probe contract, the native GAS contract, the two groups in use and one
// group nobody has.
func (w *world) atoms() []lcond {
	a := []lcond{
		{cBool(true), "T", 1}, {cBool(false), "F", 1},
		{cSH(w.probes[0].Hash), "SH", 1}, {cSH(w.probes[1].Hash), "SH", 1}, {cSH(w.probes[2].Hash), "SH", 1},
		{cGroup(w.g[0]), "G", 1}, {cGroup(w.g[1]), "G", 1}, {cGroup(w.g[2]), "G", 1},
		{transaction.ConditionCalledByEntry{}, "CBE", 1},
		{cCBC(w.probes[0].Hash), "CBC", 1}, {cCBC(w.probes[1].Hash), "CBC", 1}, {cCBC(w.probes[2].Hash), "CBC", 1},
		{cCBC(w.gasFrame.hash), "CBC", 1},
		{cCBG(w.g[0]), "CBG", 1}, {cCBG(w.g[1]), "CBG", 1}, {cCBG(w.g[2]), "CBG", 1},
	}
	return a
}

func mkNot(x lcond) lcond {
	return lcond{&transaction.ConditionNot{Condition: x.c}, "Not(" + x.shape + ")", x.depth + 1}
}

func mkNary(and bool, xs ...lcond) lcond {
	cs := make([]cond, len(xs))
	sh := make([]string, len(xs))
	d := 0
	for i, x := range xs {
		cs[i], sh[i] = x.c, x.shape
		d = max(d, x.depth)
	}
	if and {
		v := transaction.ConditionAnd(cs)
		return lcond{&v, "And(" + strings.Join(sh, ",") + ")", d + 1}
	}
	v := transaction.ConditionOr(cs)
	return lcond{&v, "Or(" + strings.Join(sh, ",") + ")", d + 1}
}

// depth1n: atoms and their negations.
func depth1n(atoms []lcond) []lcond {
	out := append([]lcond(nil), atoms...)
	for _, a := range atoms {
		out = append(out, mkNot(a))
	}
	return out
}

// depth2: every tree of depth <= 2 over the atoms with composite arity <= 2:
// a | Not(a) | And(a) | Or(a) | And(a,b) | Or(a,b) for a<b.
func depth2(atoms []lcond) []lcond {
	out := depth1n(atoms)
	for i, a := range atoms {
		out = append(out, mkNary(true, a), mkNary(false, a))
		for j := i + 1; j < len(atoms); j++ {
			out = append(out, mkNary(true, a, atoms[j]), mkNary(false, a, atoms[j]))
		}
	}
	return out
}

// randTree draws a tree of exactly the given depth (<= 3), composite arity 1..3.
func randTree(r *rng.R, atoms []lcond, depth int) lcond {
	if depth <= 1 {
		return atoms[r.Intn(len(atoms))]
	}
	switch r.Intn(3) {
	case 0:
		return mkNot(randTree(r, atoms, depth-1))
	default:
		n := 1 + r.Intn(3)
		xs := make([]lcond, n)
		deep := r.Intn(n)
		for i := range xs {
			d := depth - 1
			if i != deep {
				d = 1 + r.Intn(depth-1)
			}
			xs[i] = randTree(r, atoms, d)
		}
		return mkNary(r.Bool(), xs...)
	}
}

// sconfig is one signer configuration under test.
type sconfig struct {
	part    string
	idx     int
	signers []transaction.Signer
	targets [][]byte // what every frame passes to CheckWitness
	tclass  []string // class of each target for the coverage signature
	shape   string   // kinds-only description of the configuration
}

func scopeStr(s transaction.WitnessScope) string {
	if s == transaction.None {
		return "None"
	}
	return strings.ReplaceAll(s.String(), " ", "")
}

func actStr(a transaction.WitnessAction) string {
	if a == transaction.WitnessAllow {
		return "Allow"
	}
	return "Deny"
}

type ruleSpec struct {
	act transaction.WitnessAction
	c   lcond
}

// mk builds the configuration for one signer under test. The signer list is
// [s, decoyG] for even idx and [decoyN, s, decoyG] for odd idx; the targets are
// the signer's account (as hash and, for the key account, as public key), the
// three probe contracts, a stranger and the two decoys.
func (w *world) mk(part string, idx int, acc util.Uint160, scopes transaction.WitnessScope, ac []util.Uint160, ag []*keys.PublicKey, rules []ruleSpec, lists string) sconfig {
	s := transaction.Signer{Account: acc, Scopes: scopes}
	if scopes&transaction.CustomContracts != 0 {
		s.AllowedContracts = ac
	}
	if scopes&transaction.CustomGroups != 0 {
		s.AllowedGroups = ag
	}
	shape := scopeStr(scopes) + lists
	if scopes&transaction.Rules != 0 {
		for _, r := range rules {
			s.Rules = append(s.Rules, transaction.WitnessRule{Action: r.act, Condition: r.c.c})
			shape += "|" + actStr(r.act) + ":" + r.c.shape
		}
	}
	dg := transaction.Signer{Account: w.decoyG, Scopes: transaction.Global}
	dn := transaction.Signer{Account: w.decoyN, Scopes: transaction.None}
	c := sconfig{part: part, idx: idx, shape: shape}
	if idx%2 == 0 {
		c.signers = []transaction.Signer{s, dg}
		c.shape += "|first"
	} else {
		c.signers = []transaction.Signer{dn, s, dg}
		c.shape += "|middle"
	}
	c.targets = [][]byte{acc.BytesBE()}
	c.tclass = []string{"signer"}
	if acc == w.acc {
		c.targets = append(c.targets, w.accKey.Bytes())
		c.tclass = append(c.tclass, "signer-pubkey")
	} else {
		c.shape += "|contract-account"
	}
	for i := range w.probes {
		c.targets = append(c.targets, w.probes[i].Hash.BytesBE())
		c.tclass = append(c.tclass, "contract")
	}
	c.targets = append(c.targets, w.stranger.BytesBE(), w.decoyG.BytesBE(), w.decoyN.BytesBE(), util.Uint160{}.BytesBE())
	c.tclass = append(c.tclass, "stranger", "decoy-global", "decoy-none", "zero-account")
	return c
}

// sentinelConfigs: the signer under test is an account that coincides with a
// "no value" sentinel of the implementation: the all-zero hash (what the VM
// reports as calling script hash when there is no caller) and the all-ones
// hash. Every decodable scope byte without Rules x {[], [A]} x {[], [g]}, plus
// four one-rule lists; both accounts are targets of every configuration, so
// each is probed as a signer and as an account that did not sign.
func (w *world) sentinelConfigs(validScopes []transaction.WitnessScope) []sconfig {
	var out []sconfig
	A := w.probes[0].Hash
	add := func(c sconfig) {
		c.targets = append(c.targets, fill(0xFF).BytesBE())
		c.tclass = append(c.tclass, "ones-account")
		out = append(out, c)
	}
	for _, acc := range []util.Uint160{{}, fill(0xFF)} {
		for _, sc := range validScopes {
			if sc&transaction.Rules != 0 {
				continue
			}
			for ci, cl := range [][]util.Uint160{{}, {A}} {
				if sc&transaction.CustomContracts == 0 && ci > 0 {
					continue
				}
				for gi, gl := range [][]*keys.PublicKey{{}, {w.g[0]}} {
					if sc&transaction.CustomGroups == 0 && gi > 0 {
						continue
					}
					add(w.mk("sentinel", len(out), acc, sc, cl, gl, nil, fmt.Sprintf("c%dg%d", ci, gi)))
				}
			}
		}
		for _, r := range []ruleSpec{{transaction.WitnessAllow, lcond{cBool(true), "T", 1}}, {transaction.WitnessDeny, lcond{cBool(true), "T", 1}},
			{transaction.WitnessAllow, lcond{transaction.ConditionCalledByEntry{}, "CBE", 1}}, {transaction.WitnessAllow, lcond{cCBC(util.Uint160{}), "CBC0", 1}}} {
			add(w.mk("sentinel", len(out), acc, transaction.Rules, nil, nil, []ruleSpec{r}, ""))
		}
	}
	return out
}

// scopeConfigs: every scope byte the decoder accepts without the Rules bit
// (None, Global, the 7 non-empty subsets of {CalledByEntry, CustomContracts,
// CustomGroups}) x 5 contract lists x 5 group lists (where the bit is set) x
// {key account, account = contract A}.
func (w *world) scopeConfigs(validScopes []transaction.WitnessScope) []sconfig {
	A, B, C := w.probes[0].Hash, w.probes[1].Hash, w.probes[2].Hash
	cl := [][]util.Uint160{{}, {A}, {B}, {A, C}, {w.gasFrame.hash, w.noSuch}}
	cln := []string{"[]", "[A]", "[B]", "[A,C]", "[GAS,x]"}
	gl := [][]*keys.PublicKey{{}, {w.g[0]}, {w.g[1]}, {w.g[2]}, {w.g[2], w.g[1]}}
	gln := []string{"[]", "[g]", "[g2]", "[g3]", "[g3,g2]"}
	var out []sconfig
	for _, acc := range []util.Uint160{w.acc, A} {
		for _, sc := range validScopes {
			if sc&transaction.Rules != 0 {
				continue
			}
			for ci := range cl {
				if sc&transaction.CustomContracts == 0 && ci > 0 {
					continue
				}
				for gi := range gl {
					if sc&transaction.CustomGroups == 0 && gi > 0 {
						continue
					}
					lists := ""
					if sc&transaction.CustomContracts != 0 {
						lists += "c" + cln[ci]
					}
					if sc&transaction.CustomGroups != 0 {
						lists += "g" + gln[gi]
					}
					out = append(out, w.mk("scopes", len(out), acc, sc, cl[ci], gl[gi], nil, lists))
				}
			}
		}
	}
	return out
}

var acts = []transaction.WitnessAction{transaction.WitnessAllow, transaction.WitnessDeny}

// rule1Configs: scope Rules, one rule, {Allow, Deny} x every condition of cs.
func (w *world) rule1Configs(part string, cs []lcond) []sconfig {
	var out []sconfig
	for _, c := range cs {
		for _, a := range acts {
			out = append(out, w.mk(part, len(out), w.acc, transaction.Rules, nil, nil, []ruleSpec{{a, c}}, ""))
		}
	}
	return out
}

// rule2Configs: scope Rules, two rules, actions^2 x c1s x c2s.
func (w *world) rule2Configs(part string, c1s, c2s []lcond) []sconfig {
	var out []sconfig
	for _, c1 := range c1s {
		for _, c2 := range c2s {
			for _, a1 := range acts {
				for _, a2 := range acts {
					out = append(out, w.mk(part, len(out), w.acc, transaction.Rules, nil, nil, []ruleSpec{{a1, c1}, {a2, c2}}, ""))
				}
			}
		}
	}
	return out
}

// mixedConfigs: Rules combined with every non-empty subset of the other three
// bits (CustomContracts=[B], CustomGroups=[g2]) x {Allow, Deny} x cs: a Deny
// rule must not override what another scope bit already allows.
func (w *world) mixedConfigs(cs []lcond) []sconfig {
	var out []sconfig
	for m := 1; m < 8; m++ {
		sc := transaction.Rules
		if m&1 != 0 {
			sc |= transaction.CalledByEntry
		}
		if m&2 != 0 {
			sc |= transaction.CustomContracts
		}
		if m&4 != 0 {
			sc |= transaction.CustomGroups
		}
		for _, c := range cs {
			for _, a := range acts {
				out = append(out, w.mk("mixed", len(out), w.acc, sc, []util.Uint160{w.probes[1].Hash}, []*keys.PublicKey{w.g[1]}, []ruleSpec{{a, c}}, "c[B]g[g2]"))
			}
		}
	}
	return out
}

// zeroConfigs: hash conditions carrying the all-zero hash (the value the VM
// uses for "no calling script").
func (w *world) zeroConfigs() []sconfig {
	z := []lcond{{cCBC(util.Uint160{}), "CBC0", 1}, {cSH(util.Uint160{}), "SH0", 1}}
	z = append(z, mkNot(z[0]), mkNot(z[1]), mkNary(false, z[0], z[1]))
	var out []sconfig
	for _, c := range z {
		for _, a := range acts {
			out = append(out, w.mk("zero-hash", len(out), w.acc, transaction.Rules, nil, nil, []ruleSpec{{a, c}}, ""))
		}
	}
	return out
}

// deepConfig: sampled; 1..3 rules, at least one condition of depth 3, random
// extra scope bits and lists.
func (w *world) deepConfig(idx int, atoms []lcond) sconfig {
	r := rng.New(0xC15_0000_0000 + uint64(idx))
	n := 1 + r.Intn(3)
	rules := make([]ruleSpec, n)
	deep := r.Intn(n)
	for i := range rules {
		d := 3
		if i != deep {
			d = 1 + r.Intn(3)
		}
		t := randTree(r, atoms, d)
		t.shape = fmt.Sprintf("%s/d%d", t.c.Type(), t.depth) // coarse shape: the part is sampled
		rules[i] = ruleSpec{acts[r.Intn(2)], t}
	}
	sc := transaction.Rules
	var ac []util.Uint160
	var ag []*keys.PublicKey
	lists := ""
	if r.Chance(1, 4) {
		sc |= transaction.CalledByEntry
	}
	if r.Chance(1, 4) {
		sc |= transaction.CustomContracts
		i := r.Intn(3)
		ac = []util.Uint160{w.probes[i].Hash}
		lists += fmt.Sprintf("c[%c]", 'A'+i)
	}
	if r.Chance(1, 4) {
		sc |= transaction.CustomGroups
		i := r.Intn(3)
		ag = []*keys.PublicKey{w.g[i]}
		lists += fmt.Sprintf("g[g%d]", i+1)
	}
	acc := w.acc
	if r.Chance(1, 8) {
		acc = w.probes[r.Intn(3)].Hash
	}
	return w.mk("deep", idx, acc, sc, ac, ag, rules, lists)
}

// multiConfig: sampled; 2..16 signers with distinct accounts (keys, contracts,
// plain hashes), each with a random configuration of depth <= 2; every account
// is a target.
func (w *world) multiConfig(idx int, validScopes []transaction.WitnessScope, d1, d2 []lcond) sconfig {
	r := rng.New(0xC15_1000_0000 + uint64(idx))
	n := 2 + r.Intn(15)
	c := sconfig{part: "multi", idx: idx, shape: fmt.Sprintf("multi%d", n)}
	pool := []util.Uint160{w.acc, w.probes[0].Hash, w.probes[1].Hash, w.probes[2].Hash, w.decoyG, w.decoyN}
	for i := 0; len(pool) < 17; i++ {
		pool = append(pool, fill(byte(0x30+i)))
	}
	r.Shuffle(len(pool), func(i, j int) { pool[i], pool[j] = pool[j], pool[i] })
	for i := 0; i < n; i++ {
		s := transaction.Signer{Account: pool[i], Scopes: validScopes[r.Intn(len(validScopes))]}
		if s.Scopes&transaction.CustomContracts != 0 {
			for k := r.Intn(3); k >= 0; k-- {
				s.AllowedContracts = append(s.AllowedContracts, w.probes[r.Intn(3)].Hash)
			}
		}
		if s.Scopes&transaction.CustomGroups != 0 {
			for k := r.Intn(2); k >= 0; k-- {
				s.AllowedGroups = append(s.AllowedGroups, w.g[r.Intn(3)])
			}
		}
		if s.Scopes&transaction.Rules != 0 {
			for k := r.Intn(3); k >= 0; k-- {
				src := d1
				if r.Bool() {
					src = d2
				}
				lc := src[r.Intn(len(src))]
				s.Rules = append(s.Rules, transaction.WitnessRule{Action: acts[r.Intn(2)], Condition: lc.c})
			}
		}
		c.signers = append(c.signers, s)
		c.targets = append(c.targets, s.Account.BytesBE())
		c.tclass = append(c.tclass, "signer")
		if i < 3 {
			c.shape += "," + scopeStr(s.Scopes)
		}
	}
	c.targets = append(c.targets, pool[n%len(pool)].BytesBE(), w.stranger.BytesBE())
	c.tclass = append(c.tclass, "unsigned-account", "stranger")
	return c
}

// mutateConfigs: the configurations whose verdict depends on group membership:
// every scopes configuration with the CustomGroups bit (quick: key account
// only), and one rule
// {Allow, Deny} x every condition of cs that mentions a Group or CalledByGroup atom.
func (w *world) mutateConfigs(validScopes []transaction.WitnessScope, cs []lcond, contractAccount bool) []sconfig {
	var out []sconfig
	for _, c := range w.scopeConfigs(validScopes) {
		if !contractAccount && strings.Contains(c.shape, "contract-account") {
			continue
		}
		for i := range c.signers {
			if c.signers[i].Scopes&transaction.CustomGroups != 0 {
				c.part, c.idx = "mutate", len(out)
				out = append(out, c)
				break
			}
		}
	}
	var gs []lcond
	for _, c := range cs {
		if strings.Contains(c.shape, "G") { // G or CBG; no other kind label has a G
			gs = append(gs, c)
		}
	}
	for _, c := range w.rule1Configs("mutate", gs) {
		c.idx = len(out)
		out = append(out, c)
	}
	return out
}

package c15

// Second observation point of the property: WitnessCondition.Match driven
// directly with a stub MatchContext, over every condition tree up to the
// permitted nesting (3) with composite arity <= 2 and every evaluation context
// (current frame, calling frame or none, entry relation).

import (
	"encoding/json"
	"fmt"
	"runtime"
	"sync"
	"sync/atomic"

	"github.com/nspcc-dev/neo-go/pkg/core/transaction"
	"github.com/nspcc-dev/neo-go/pkg/crypto/keys"
	"github.com/nspcc-dev/neo-go/pkg/util"
)

type stubCtx struct{ w where }

func (s stubCtx) GetCallingScriptHash() util.Uint160 {
	if f := s.w.calling(); f != nil {
		return f.hash
	}
	return util.Uint160{} // what the VM reports for the entry script
}
func (s stubCtx) GetCurrentScriptHash() util.Uint160 { return s.w.cur().hash }
func (s stubCtx) CallingScriptHasGroup(k *keys.PublicKey) (bool, error) {
	return inGroup(s.w.calling(), k), nil
}
func (s stubCtx) CurrentScriptHasGroup(k *keys.PublicKey) (bool, error) {
	f := s.w.cur()
	return inGroup(&f, k), nil
}
func (s stubCtx) IsCalledByEntry() bool { return s.w.calledByEntry() }

// Further methods of the VM a matching context may be asked for (the stub
// answers them from the same frame list, so that the check keeps building and
// judging if the interface the conditions use is widened or re-cut).
func (s stubCtx) GetEntryScriptHash() util.Uint160 { return s.w.frames[0].hash }

type mkey struct {
	kind  byte
	depth int8
	ctx   int16
	want  bool
}

type mctx struct {
	w    where
	name string
}

func (h *harness) matcherContexts() []mctx {
	w := h.w
	fs := []frame{{hash: fill(0xE1), kind: "entry", name: "script"}, w.pframes[0], w.pframes[1], w.pframes[2],
		{hash: fill(0xE2), kind: "dyn", name: "D"}, w.gasFrame}
	var out []mctx
	for _, cur := range fs {
		out = append(out, mctx{where{frames: []frame{cur}, pos: 0}, cur.name + "<-none"})
		for _, cal := range fs {
			out = append(out, mctx{where{frames: []frame{cal, cur}, pos: 1}, cur.name + "<-" + cal.name + "(entry)"})
			out = append(out, mctx{where{frames: []frame{fs[0], cal, cur}, pos: 2}, cur.name + "<-" + cal.name + "<-.."})
		}
	}
	return out
}

func matchSafe(c cond, s stubCtx) (res bool, err error) {
	defer func() {
		if r := recover(); r != nil {
			err = fmt.Errorf("panic: %v", r)
		}
	}()
	return c.Match(s)
}

// runMatcher enumerates the trees; d2 = every tree of depth <= 2.
func (h *harness) runMatcher(d2 []lcond) {
	run := h.run
	ctxs := h.matcherContexts()
	var trees atomic.Int64
	evalTree := func(t lcond, cov map[mkey]int64) {
		trees.Add(1)
		for ci := range ctxs {
			m := &ctxs[ci]
			want := refCond(t.c, m.w)
			got, err := matchSafe(t.c, stubCtx{m.w})
			cov[mkey{byte(t.c.Type()), int8(t.depth), int16(ci), want}]++
			if err == nil && got == want {
				continue
			}
			// smallest sub-condition that is already evaluated differently
			var subs []cond
			subtrees(t.c, &subs)
			kind, min := condKind(t.c), t.c
			for _, sc := range subs {
				g, e := matchSafe(sc, stubCtx{m.w})
				if e != nil || g != refCond(sc, m.w) {
					kind, min = condKind(sc), sc
					break
				}
			}
			tj, _ := json.Marshal(t.c)
			mj, _ := json.Marshal(min)
			run.Violation("matcher:condition="+kind, "matcher",
				fmt.Sprintf("WitnessCondition.Match in context %s returned %v (err %v); the rules give %v; smallest sub-condition already evaluated differently: %s", m.name, got, err, want, mj),
				map[string]any{"condition": json.RawMessage(tj), "minimal_subcondition": json.RawMessage(mj), "context": m.name,
					"current": m.w.cur().hash.StringLE(), "got": got, "want": want})
		}
	}
	if !run.Want("matcher") { // a replay of a matcher violation re-runs the whole (2 s) enumeration
		return
	}
	nw := runtime.GOMAXPROCS(0)
	var next atomic.Int64
	var wg sync.WaitGroup
	covs := make([]map[mkey]int64, nw)
	for wi := range nw {
		covs[wi] = map[mkey]int64{}
		wg.Add(1)
		go func() {
			defer wg.Done()
			cov := covs[wi]
			for {
				i := int(next.Add(1)) - 1
				if i >= len(d2) {
					return
				}
				a := d2[i]
				evalTree(a, cov) // depth <= 2
				if a.depth == 2 {
					evalTree(mkNot(a), cov)
				}
				if a.depth == 2 {
					evalTree(mkNary(true, a), cov)
					evalTree(mkNary(false, a), cov)
				}
				for j := i + 1; j < len(d2); j++ {
					if a.depth == 2 || d2[j].depth == 2 { // pairs of atoms are already in d2
						evalTree(mkNary(true, a, d2[j]), cov)
						evalTree(mkNary(false, a, d2[j]), cov)
					}
				}
			}
		}()
	}
	wg.Wait()
	tot := map[mkey]int64{}
	for _, c := range covs {
		for k, v := range c {
			tot[k] += v
		}
	}
	var n int64
	for k, v := range tot {
		run.CaseN(fmt.Sprintf("matcher|%s/d%d|%s|%v", transaction.WitnessConditionType(k.kind), k.depth, ctxs[k.ctx].name, k.want), true, v)
		n += v
	}
	run.Obs("matcher_trees_depth_le3", trees.Load())
	run.Obs("matcher_contexts", int64(len(ctxs)))
	run.Obs("matcher_evaluations", n)
}

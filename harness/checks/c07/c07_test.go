// Package c07 decides property C07 (transaction admission is sound, fee-exact
// and yields proposable blocks).
package c07

import (
	"bytes"
	"errors"
	"fmt"
	"os"
	"sort"
	"strings"
	"testing"

	"github.com/nspcc-dev/neo-go/pkg/config"
	"github.com/nspcc-dev/neo-go/pkg/core/mempool"
	"github.com/nspcc-dev/neo-go/pkg/core/transaction"
	"github.com/nspcc-dev/neo-go/pkg/crypto/keys"
	"github.com/nspcc-dev/neo-go/pkg/io"
	"github.com/nspcc-dev/neo-go/pkg/neorpc"
	"github.com/nspcc-dev/neo-go/pkg/neotest"
	"github.com/nspcc-dev/neo-go/pkg/util"
	"github.com/nspcc-dev/neo-go/pkg/vm/opcode"
	"github.com/nspcc-dev/neo-go/pkg/wallet"
	"github.com/nspcc-dev/neo-go/verifharness/vlib/ev"
	"github.com/nspcc-dev/neo-go/verifharness/vlib/rng"
	"github.com/nspcc-dev/neo-go/verifharness/vlib/vchain"
	"github.com/nspcc-dev/neo-go/verifharness/vlib/vrpc"
)

type env struct {
	t       *testing.T
	run     *ev.Run
	p       *vchain.Producer
	rep     *vchain.Replica
	r       *rng.R
	singles []neotest.Signer
	multis  []neotest.Signer
	blocked neotest.Signer
	poor    neotest.Signer
	nonce   uint32
	name    string
	broken  bool
	// attribute prices set by the check itself in the current round
	conflictsFee, nvbFee int64
	// the replica's real JSON-RPC server (nil if no loopback port could be opened)
	rpc *vrpc.Node
}

func multi(m, n, salt int) neotest.Signer {
	var accs []*wallet.Account
	var pubs keys.PublicKeys
	for i := 0; i < n; i++ {
		a := wallet.NewAccountFromPrivateKey(vchain.DetKey(fmt.Sprintf("c07-multi-%d-%d-%d", m, n, salt), i))
		accs = append(accs, a)
		pubs = append(pubs, a.PublicKey())
	}
	for _, a := range accs {
		if err := a.ConvertMultisig(m, pubs.Copy()); err != nil {
			panic(err)
		}
	}
	return neotest.NewMultiSigner(accs...)
}

func script(n int) []byte {
	s := bytes.Repeat([]byte{byte(opcode.NOP)}, n)
	s[len(s)-1] = byte(opcode.RET)
	return s
}

// build makes a transaction valid against the current state of the producer
// chain: exact calculated network fee, generous system fee, signed.
func (e *env) build(signers []neotest.Signer, scr []byte, attrs []transaction.Attribute, mod func(tx *transaction.Transaction)) *transaction.Transaction {
	tx := transaction.New(scr, 1000_0000)
	e.nonce++
	tx.Nonce = e.nonce
	tx.ValidUntilBlock = e.p.BC.BlockHeight() + 2
	tx.Attributes = attrs
	for _, s := range signers {
		tx.Signers = append(tx.Signers, transaction.Signer{Account: s.ScriptHash(), Scopes: transaction.CalledByEntry})
	}
	if mod != nil {
		mod(tx)
	}
	neotest.AddNetworkFee(e.t, e.p.BC, tx, signers...)
	for _, s := range signers {
		if err := s.SignTx(e.p.BC.GetConfig().Magic, tx); err != nil {
			e.t.Fatal(err)
		}
	}
	return tx
}

// resign re-signs after a content change that keeps the fee.
func (e *env) resign(tx *transaction.Transaction, signers []neotest.Signer) *transaction.Transaction {
	fresh := transaction.New(tx.Script, tx.SystemFee)
	fresh.Nonce, fresh.NetworkFee, fresh.ValidUntilBlock, fresh.Signers, fresh.Attributes, fresh.Version = tx.Nonce, tx.NetworkFee, tx.ValidUntilBlock, tx.Signers, tx.Attributes, tx.Version
	for _, s := range signers {
		if err := s.SignTx(e.p.BC.GetConfig().Magic, fresh); err != nil {
			e.t.Fatal(err)
		}
	}
	return fresh
}

// wire passes a transaction through its serialized form, as RPC and P2P do.
func wire(tx *transaction.Transaction) (*transaction.Transaction, error) {
	return transaction.NewTransactionFromBytes(tx.Bytes())
}

func (e *env) admit(tx *transaction.Transaction) error {
	pool := mempool.New(10, false, nil)
	var err error
	func() {
		defer func() {
			if x := recover(); x != nil {
				err = fmt.Errorf("panic: %v", x)
			}
		}()
		err = e.p.BC.PoolTx(tx, pool)
	}()
	return err
}

func newEnv(t *testing.T, run *ev.Run, idx int, name string, cfg func(*config.Blockchain)) *env {
	e := &env{t: t, run: run, r: rng.New(uint64(idx) + 11000), name: name}
	e.p = vchain.NewProducer(t, vchain.ProducerConfig{Proto: cfg, Users: 6, Stream: uint64(idx) + 11001, TolerateReject: true})
	p := e.p
	for _, u := range p.Users[:4] {
		e.singles = append(e.singles, u.S)
	}
	e.multis = []neotest.Signer{multi(1, 1, idx), multi(2, 3, idx), multi(3, 5, idx), multi(5, 7, idx),
		// verification scripts above 252 bytes (3-byte length prefix on the wire) start at 8 keys
		multi(2, 8, idx), multi(6, 9, idx), multi(3, 12, idx), multi(11, 16, idx), multi(4, 7, idx), multi(15, 29, idx)}
	e.blocked = p.Users[4].S
	e.poor = neotest.NewSingleSigner(wallet.NewAccountFromPrivateKey(vchain.DetKey("c07-poor", idx)))
	var txs []*transaction.Transaction
	for _, m := range e.multis {
		txs = append(txs, p.Call("fund", []neotest.Signer{p.Val}, p.GasH, "transfer", p.Val.ScriptHash(), m.ScriptHash(), int64(10000_0000_0000), nil))
	}
	txs = append(txs, p.Call("fund", []neotest.Signer{p.Val}, p.GasH, "transfer", p.Val.ScriptHash(), e.poor.ScriptHash(), int64(1200_0000), nil))
	txs = append(txs, p.Call("block", []neotest.Signer{p.Val, p.CommitteeSigner()}, p.PolH, "blockAccount", e.blocked.ScriptHash()))
	p.AddBlock(txs...)
	var err error
	e.rep, err = vchain.OpenReplica(t, vchain.ReplicaCfg{Name: "c07", Cfg: cfg})
	if err != nil {
		t.Fatal(err)
	}
	e.sync()
	if n, err := vrpc.Start(t, e.rep.BC, nil); err != nil {
		run.Inconclusive("%s: cannot start the RPC server on a loopback port: %v", name, err)
	} else {
		e.rpc = n
	}
	return e
}

func (e *env) sync() {
	for i := int(e.rep.BC.BlockHeight()); i < len(e.p.Raw); i++ {
		if err := e.rep.AddRaw(e.p.Raw[i]); err != nil {
			e.t.Fatalf("replica sync: %v", err)
		}
	}
}

func (e *env) close() {
	if e.rpc != nil {
		e.rpc.Stop()
	}
	e.rep.Close()
	e.p.Close()
}

// poolStateRefusal tells whether an RPC refusal is about what the serving
// node's pool already holds (not about the transaction itself).
func poolStateRefusal(err error) bool {
	for _, c := range []*neorpc.Error{neorpc.ErrAlreadyInPool, neorpc.ErrMempoolCapReached, neorpc.ErrInsufficientFunds} {
		if errors.Is(err, c) {
			return true
		}
	}
	m := err.Error()
	return strings.Contains(m, "already in pool") || strings.Contains(m, "conflict") || strings.Contains(m, "insufficient funds") || strings.Contains(m, "Insufficient funds")
}

type kase struct {
	name   string
	tx     *transaction.Transaction
	valid  bool
	viaRaw []byte // when set, the case is offered as these bytes through the wire decoder
}

// catalogue builds valid transactions and single-rule mutants for the current state.
func (e *env) catalogue() []kase {
	p := e.p
	r := e.r
	h := p.BC.BlockHeight()
	var ks []kase
	pick := func() []neotest.Signer {
		var s []neotest.Signer
		n := 1 + r.Intn(3)
		used := map[util.Uint160]bool{}
		for len(s) < n {
			var c neotest.Signer
			if r.Intn(2) == 0 {
				c = e.singles[r.Intn(len(e.singles))]
			} else {
				c = e.multis[r.Intn(len(e.multis))]
			}
			if !used[c.ScriptHash()] {
				used[c.ScriptHash()] = true
				s = append(s, c)
			}
		}
		return s
	}
	sizes := []int{1, 2, 100, 1000, 60000}
	scr := func() []byte { return script(sizes[r.Intn(len(sizes))]) }
	// valid ones
	for i := 0; i < 6; i++ {
		sg := pick()
		var attrs []transaction.Attribute
		switch r.Intn(4) {
		case 1:
			attrs = append(attrs, transaction.Attribute{Type: transaction.NotValidBeforeT, Value: &transaction.NotValidBefore{Height: h - uint32(r.Intn(2))}})
		case 2:
			attrs = append(attrs, transaction.Attribute{Type: transaction.ConflictsT, Value: &transaction.Conflicts{Hash: util.Uint256{byte(i), 7, 7}}})
		}
		ks = append(ks, kase{name: fmt.Sprintf("valid:%d-signers", len(sg)), tx: e.build(sg, scr(), attrs, nil), valid: true})
	}
	ks = append(ks, kase{name: "valid:high-priority-by-committee", tx: e.build([]neotest.Signer{p.Val, p.CommitteeSigner()}, scr(), []transaction.Attribute{{Type: transaction.HighPriority}}, nil), valid: true})
	ks = append(ks, kase{name: "valid:valid-until-at-limit", tx: e.build(pick(), scr(), nil, func(tx *transaction.Transaction) { tx.ValidUntilBlock = h + p.BC.GetMaxValidUntilBlockIncrement() }), valid: true})
	// invalid in exactly one respect
	sg := pick()
	ks = append(ks, kase{name: "invalid:expired", tx: e.build(sg, scr(), nil, func(tx *transaction.Transaction) { tx.ValidUntilBlock = h })})
	ks = append(ks, kase{name: "invalid:valid-until-too-far", tx: e.build(sg, scr(), nil, func(tx *transaction.Transaction) { tx.ValidUntilBlock = h + p.BC.GetMaxValidUntilBlockIncrement() + 1 })})
	ks = append(ks, kase{name: "invalid:not-valid-before-in-future", tx: e.build(sg, scr(), []transaction.Attribute{{Type: transaction.NotValidBeforeT, Value: &transaction.NotValidBefore{Height: h + 1 + uint32(r.Intn(2))}}}, nil)})
	ks = append(ks, kase{name: "invalid:high-priority-without-committee", tx: e.build(sg, scr(), []transaction.Attribute{{Type: transaction.HighPriority}}, nil)})
	ks = append(ks, kase{name: "invalid:blocked-signer", tx: e.build([]neotest.Signer{e.singles[0], e.blocked}, scr(), nil, nil)})
	ks = append(ks, kase{name: "invalid:bad-opcode-in-script", tx: e.build(sg, []byte{0xff, byte(opcode.RET)}, nil, nil)})
	ks = append(ks, kase{name: "invalid:jump-outside-script", tx: e.build(sg, []byte{byte(opcode.JMP), 100, byte(opcode.RET)}, nil, nil)})
	// every instruction with a target operand: a target in the middle of another
	// instruction (inside the data of a PUSHDATA1) and a target outside the script
	for _, jo := range []struct {
		op   opcode.Opcode
		long bool
		two  bool
	}{{opcode.JMP, false, false}, {opcode.JMPL, true, false}, {opcode.JMPIF, false, false}, {opcode.JMPIFL, true, false}, {opcode.JMPIFNOT, false, false}, {opcode.JMPIFNOTL, true, false},
		{opcode.JMPEQ, false, false}, {opcode.JMPEQL, true, false}, {opcode.JMPNE, false, false}, {opcode.JMPNEL, true, false}, {opcode.JMPGT, false, false}, {opcode.JMPGTL, true, false},
		{opcode.JMPGE, false, false}, {opcode.JMPGEL, true, false}, {opcode.JMPLT, false, false}, {opcode.JMPLTL, true, false}, {opcode.JMPLE, false, false}, {opcode.JMPLEL, true, false},
		{opcode.CALL, false, false}, {opcode.CALLL, true, false}, {opcode.PUSHA, true, false}, {opcode.ENDTRY, false, false}, {opcode.ENDTRYL, true, false},
		{opcode.TRY, false, true}, {opcode.TRYL, true, true}} {
		for _, where := range []string{"into-instruction", "outside-script"} {
			// layout: RET; <op> <operand(s)>; PUSHDATA1 4 aa bb cc dd; RET  (never executed: starts with RET)
			ins := []byte{byte(jo.op)}
			olen := 1
			if jo.long {
				olen = 4
			}
			n := 1
			if jo.two {
				n = 2
			}
			insLen := 1 + olen*n
			off := insLen + 3 // lands on the data bytes of the PUSHDATA1 following the instruction
			if where == "outside-script" {
				off = 100
			}
			for k := 0; k < n; k++ {
				ob := make([]byte, olen)
				ob[0] = byte(off)
				ins = append(ins, ob...)
			}
			scrpt := append([]byte{byte(opcode.RET)}, ins...)
			scrpt = append(scrpt, byte(opcode.PUSHDATA1), 4, 0x21, 0x21, 0x21, 0x21, byte(opcode.RET))
			ks = append(ks, kase{name: "invalid:script-target-" + where + ":" + jo.op.String(), tx: e.build(sg, scrpt, nil, nil)})
		}
	}
	ks = append(ks, kase{name: "invalid:system-fee-above-block-limit", tx: e.build(sg, scr(), nil, func(tx *transaction.Transaction) { tx.SystemFee = p.BC.GetConfig().MaxBlockSystemFee + 1 })})
	ks = append(ks, kase{name: "invalid:sender-cannot-pay", tx: e.build([]neotest.Signer{e.poor}, scr(), nil, func(tx *transaction.Transaction) { tx.SystemFee = 1_0000_0000 })})
	{
		tx := e.build(sg, scr(), nil, nil)
		tx2 := e.resign(tx, sg)
		tx2.NetworkFee--
		ks = append(ks, kase{name: "invalid:network-fee-one-unit-short", tx: e.resign(tx2, sg)})
	}
	{
		tx := e.build(sg, scr(), nil, nil)
		w := tx.Scripts[len(tx.Scripts)-1].InvocationScript
		w[len(w)-3] ^= 0x10
		ks = append(ks, kase{name: "invalid:signature-bit-flipped", tx: tx})
	}
	{
		tx := e.build(sg, scr(), nil, nil)
		other := e.build(sg, script(3), nil, nil)
		tx.Scripts = other.Scripts
		ks = append(ks, kase{name: "invalid:witness-of-another-transaction", tx: tx})
	}
	// the limit shared by signers and attributes (16 in total): at it and one above
	conflicts := func(n int) []transaction.Attribute {
		var as []transaction.Attribute
		for k := 0; k < n; k++ {
			as = append(as, transaction.Attribute{Type: transaction.ConflictsT, Value: &transaction.Conflicts{Hash: util.Uint256{0x5a, byte(h), byte(k), byte(n)}}})
		}
		return as
	}
	one := []neotest.Signer{e.singles[0]}
	two := []neotest.Signer{e.singles[1], e.singles[2]}
	ks = append(ks,
		kase{name: "valid:signers-plus-attributes-at-the-limit:1+15", tx: e.build(one, script(3), conflicts(transaction.MaxAttributes-1), nil), valid: true},
		kase{name: "invalid:signers-plus-attributes-above-the-limit:1+16", tx: e.build(one, script(3), conflicts(transaction.MaxAttributes), nil)},
		kase{name: "valid:signers-plus-attributes-at-the-limit:2+14", tx: e.build(two, script(3), conflicts(transaction.MaxAttributes-2), nil), valid: true},
		kase{name: "invalid:signers-plus-attributes-above-the-limit:2+15", tx: e.build(two, script(3), conflicts(transaction.MaxAttributes-1), nil)},
	)
	// the same hash named twice by Conflicts attributes, the repeat at various positions
	cf := func(b ...byte) []transaction.Attribute {
		var as []transaction.Attribute
		for _, x := range b {
			as = append(as, transaction.Attribute{Type: transaction.ConflictsT, Value: &transaction.Conflicts{Hash: util.Uint256{0x5b, byte(h), x}}})
		}
		return as
	}
	ks = append(ks,
		kase{name: "invalid:duplicate-conflicts:first-two", tx: e.build(one, script(3), cf(1, 1), nil)},
		kase{name: "invalid:duplicate-conflicts:second-and-third", tx: e.build(one, script(3), cf(1, 2, 2), nil)},
		kase{name: "invalid:duplicate-conflicts:first-and-last", tx: e.build(one, script(3), cf(1, 2, 3, 1), nil)},
		kase{name: "invalid:duplicate-conflicts:second-and-last", tx: e.build(one, script(3), cf(1, 2, 3, 4, 2), nil)},
		kase{name: "valid:distinct-conflicts", tx: e.build(one, script(3), cf(1, 2, 3), nil), valid: true},
	)
	if len(sg) > 1 {
		tx := e.build(sg, scr(), nil, nil)
		tx.Scripts[0], tx.Scripts[1] = tx.Scripts[1], tx.Scripts[0]
		ks = append(ks, kase{name: "invalid:witnesses-in-wrong-order", tx: tx})
	}
	// format-level: only the wire decoder can tell
	{
		tx := e.build(sg, scr(), nil, nil)
		tx.Signers = append(tx.Signers, tx.Signers[0])
		tx.Scripts = append(tx.Scripts, tx.Scripts[0])
		ks = append(ks, kase{name: "invalid:duplicate-signer", tx: tx, viaRaw: tx.Bytes()})
	}
	// the same account twice among the signers, every witness present and paid for, the repeat at various positions
	for _, d := range []struct {
		name string
		idx  []int
	}{{"adjacent", []int{0, 0}}, {"first-and-last-of-three", []int{0, 1, 0}}, {"last-two-of-three", []int{0, 1, 1}}, {"second-and-last-of-four", []int{1, 0, 2, 0}}} {
		var dsg []neotest.Signer
		for _, i := range d.idx {
			dsg = append(dsg, e.singles[i])
		}
		tx := e.build(dsg, scr(), nil, nil)
		// the wallet signs the first position of an account only: one witness per signer, by hand
		tx.Scripts = tx.Scripts[:0]
		for _, s := range dsg {
			tx.Scripts = append(tx.Scripts, transaction.Witness{InvocationScript: s.SignHashable(uint32(p.BC.GetConfig().Magic), tx), VerificationScript: s.Script()})
		}
		ks = append(ks, kase{name: "invalid:duplicate-signer:" + d.name, tx: tx, viaRaw: tx.Bytes()})
	}
	{
		tx := e.build(sg, scr(), nil, nil)
		tx.Version = 1
		ks = append(ks, kase{name: "invalid:version", tx: tx, viaRaw: tx.Bytes()})
	}
	{
		tx := e.build(sg, scr(), []transaction.Attribute{{Type: transaction.HighPriority}, {Type: transaction.HighPriority}}, nil)
		ks = append(ks, kase{name: "invalid:duplicate-high-priority", tx: tx, viaRaw: tx.Bytes()})
	}
	{
		tx := e.build(sg, scr(), nil, nil)
		tx.Scripts = tx.Scripts[:len(tx.Scripts)-1]
		ks = append(ks, kase{name: "invalid:witness-missing", tx: tx, viaRaw: tx.Bytes()})
	}
	return ks
}

func (e *env) viol(sig, id, detail string, tx *transaction.Transaction) {
	w := map[string]any{"env": e.name, "height": e.p.BC.BlockHeight()}
	if tx != nil {
		w["tx_hex"] = fmt.Sprintf("%x", tx.Bytes())
	}
	e.run.Violation(sig, id, detail, w)
}

// admission offers the catalogue through the wire and checks the verdicts.
func (e *env) admission(round int) {
	for i, k := range e.catalogue() {
		id := fmt.Sprintf("%s/round%d/case%d/%s", e.name, round, i, k.name)
		if !e.run.Want(id) {
			continue
		}
		e.run.Case(id, true)
		raw := k.viaRaw
		if raw == nil {
			raw = k.tx.Bytes()
		}
		tx, derr := transaction.NewTransactionFromBytes(raw)
		var err error
		if derr != nil {
			err = derr
			e.run.Obs("rejected_by_decoder", 1)
		} else {
			err = e.admit(tx)
		}
		// the same transaction submitted to the replica's JSON-RPC server
		// (sendrawtransaction), as wallets do
		if e.rpc != nil && derr == nil && k.viaRaw == nil && e.rep.BC.BlockHeight() == e.p.BC.BlockHeight() {
			cp, _ := transaction.NewTransactionFromBytes(raw)
			_, rerr := e.rpc.Client.SendRawTransaction(cp)
			e.run.Obs("rpc_sendrawtransaction_calls", 1)
			switch {
			case !k.valid && rerr == nil:
				e.viol("invalid-transaction-admitted-through-rpc:"+k.name, id, "sendrawtransaction accepted it", k.tx)
			case k.valid && rerr != nil && !poolStateRefusal(rerr):
				e.viol("valid-transaction-rejected-through-rpc:"+k.name, id, rerr.Error(), k.tx)
			case k.valid && rerr != nil:
				e.run.Obs("rpc_refusals_about_pool_state", 1)
			}
		}
		switch {
		case k.valid && err != nil:
			e.viol("valid-transaction-rejected:"+k.name, id, err.Error(), k.tx)
		case !k.valid && err == nil:
			e.viol("invalid-transaction-admitted:"+k.name, id, "pooled", k.tx)
		case k.valid:
			e.run.Obs("valid_admitted", 1)
		default:
			e.run.Obs("invalid_rejected", 1)
		}
	}
}

// onchain checks the rules that need history: already on chain, named as a
// conflict by an on-chain transaction of one of its signers (or of nobody's).
func (e *env) onchain(round int) {
	p := e.p
	u, w := e.singles[1], e.singles[2]
	victim := e.build([]neotest.Signer{u}, script(5), nil, func(tx *transaction.Transaction) { tx.ValidUntilBlock = p.BC.BlockHeight() + 4 })
	bystander := e.build([]neotest.Signer{u}, script(6), nil, func(tx *transaction.Transaction) { tx.ValidUntilBlock = p.BC.BlockHeight() + 4 })
	mined := e.build([]neotest.Signer{w}, script(7), nil, nil)
	victim2 := e.build([]neotest.Signer{u}, script(10), nil, func(tx *transaction.Transaction) { tx.ValidUntilBlock = p.BC.BlockHeight() + 4 })
	victim3 := e.build([]neotest.Signer{u}, script(11), nil, func(tx *transaction.Transaction) { tx.ValidUntilBlock = p.BC.BlockHeight() + 4 })
	a := e.build([]neotest.Signer{u}, script(8), []transaction.Attribute{
		{Type: transaction.ConflictsT, Value: &transaction.Conflicts{Hash: victim.Hash()}},
		{Type: transaction.ConflictsT, Value: &transaction.Conflicts{Hash: victim2.Hash()}},
		{Type: transaction.ConflictsT, Value: &transaction.Conflicts{Hash: victim3.Hash()}}}, nil)
	b := e.build([]neotest.Signer{w}, script(9), []transaction.Attribute{{Type: transaction.ConflictsT, Value: &transaction.Conflicts{Hash: bystander.Hash()}}}, nil)
	if p.AddBlock(mined, a, b) == nil {
		e.viol("producer-rejected-own-block", fmt.Sprintf("%s/round%d/onchain", e.name, round), p.Rejected.Error(), nil)
		return
	}
	e.sync()
	cases := []kase{
		{name: "invalid:already-on-chain", tx: mined},
		{name: "invalid:named-as-conflict-by-on-chain-tx-of-its-signer", tx: victim},
		{name: "invalid:named-by-second-conflicts-attribute-of-on-chain-tx-of-its-signer", tx: victim2},
		{name: "invalid:named-by-third-conflicts-attribute-of-on-chain-tx-of-its-signer", tx: victim3},
		{name: "valid:named-as-conflict-by-on-chain-tx-of-a-stranger", tx: bystander, valid: true},
		{name: "invalid:conflicts-attribute-names-on-chain-tx", tx: e.build([]neotest.Signer{u}, script(4), []transaction.Attribute{{Type: transaction.ConflictsT, Value: &transaction.Conflicts{Hash: mined.Hash()}}}, nil)},
	}
	for i, k := range cases {
		id := fmt.Sprintf("%s/round%d/onchain%d/%s", e.name, round, i, k.name)
		if !e.run.Want(id) {
			continue
		}
		e.run.Case(id, true)
		tx, _ := wire(k.tx)
		err := e.admit(tx)
		// the same transaction submitted to the replica's JSON-RPC server
		// (sendrawtransaction), as wallets do
		if e.rpc != nil && e.rep.BC.BlockHeight() == e.p.BC.BlockHeight() {
			cp, _ := transaction.NewTransactionFromBytes(k.tx.Bytes())
			_, rerr := e.rpc.Client.SendRawTransaction(cp)
			e.run.Obs("rpc_sendrawtransaction_calls", 1)
			switch {
			case !k.valid && rerr == nil:
				e.viol("invalid-transaction-admitted-through-rpc:"+k.name, id, "sendrawtransaction accepted it", k.tx)
			case k.valid && rerr != nil && !poolStateRefusal(rerr):
				e.viol("valid-transaction-rejected-through-rpc:"+k.name, id, rerr.Error(), k.tx)
			case k.valid && rerr != nil:
				e.run.Obs("rpc_refusals_about_pool_state", 1)
			}
		}
		switch {
		case k.valid && err != nil:
			e.viol("valid-transaction-rejected:"+k.name, id, err.Error(), k.tx)
		case !k.valid && err == nil:
			e.viol("invalid-transaction-admitted:"+k.name, id, "pooled", k.tx)
		default:
			e.run.Obs("history_dependent_verdicts", 1)
		}
	}
}

// boundary checks that the calculator's fee is exactly the acceptance threshold.
func (e *env) boundary(round int) {
	combos := [][]neotest.Signer{{e.singles[0]}, {e.multis[0]}, {e.multis[1]}, {e.multis[2]}, {e.multis[3]}, {e.singles[1], e.multis[1]}, {e.multis[2], e.singles[0], e.multis[1]}, {e.singles[0], e.singles[1], e.singles[2], e.singles[3]},
		{e.multis[4]}, {e.multis[5]}, {e.multis[6]}, {e.multis[7]}, {e.multis[8]}, {e.multis[9]}, {e.multis[4+round%6], e.singles[2]}}
	for ci, cb := range combos {
		for _, n := range []int{1, 100, 1000, 30000} {
			var attrs []transaction.Attribute
			nConflicts := (ci + n + round) % 4
			for k := 0; k < nConflicts; k++ {
				attrs = append(attrs, transaction.Attribute{Type: transaction.ConflictsT, Value: &transaction.Conflicts{Hash: util.Uint256{3, byte(ci), byte(k)}}})
			}
			wantAttrFee := int64(nConflicts) * e.conflictsFee * int64(len(cb))
			if nConflicts == 3 {
				attrs = append(attrs, transaction.Attribute{Type: transaction.NotValidBeforeT, Value: &transaction.NotValidBefore{Height: e.p.BC.BlockHeight()}})
				wantAttrFee += e.nvbFee
			}
			exact := e.build(cb, script(n), attrs, nil)
			if len(attrs) > 0 {
				// The attribute part of the calculated fee, isolated by the difference
				// to the same transaction without attributes (same signers, so the
				// same verification cost), against the prices this check has set:
				// each Conflicts attribute costs its price once per signer, other
				// attributes their price once.
				plain := e.build(cb, script(n), nil, nil)
				got := exact.NetworkFee - plain.NetworkFee - e.p.BC.FeePerByte()*int64(exact.Size()-plain.Size())
				e.run.Obs("attribute_fee_parts_compared", 1)
				if got != wantAttrFee {
					e.viol("calculated-fee-attribute-part-differs-from-policy-prices", fmt.Sprintf("%s/round%d/boundary/combo%d/script%d", e.name, round, ci, n),
						fmt.Sprintf("%d Conflicts attributes (price %d) x %d signers, NotValidBefore %v (price %d): attribute part of the calculated fee is %d, prices give %d", nConflicts, e.conflictsFee, len(cb), nConflicts == 3, e.nvbFee, got, wantAttrFee), exact)
				}
			}
			// the fee calculator as wallets see it: calculatenetworkfee of the
			// serving node must name exactly the acceptance threshold
			if e.rpc != nil && e.rep.BC.BlockHeight() == e.p.BC.BlockHeight() {
				got, rerr := e.rpc.Client.CalculateNetworkFee(exact)
				e.run.Obs("rpc_calculatenetworkfee_calls", 1)
				if rerr != nil {
					e.viol("rpc:calculatenetworkfee-fails", fmt.Sprintf("%s/round%d/boundary/combo%d/script%d", e.name, round, ci, n), rerr.Error(), exact)
				} else if got != exact.NetworkFee {
					e.viol("rpc:calculatenetworkfee-differs-from-acceptance-threshold", fmt.Sprintf("%s/round%d/boundary/combo%d/script%d", e.name, round, ci, n),
						fmt.Sprintf("calculatenetworkfee says %d, the acceptance threshold is %d (%d signers, script %d bytes, fee-per-byte %d, exec-fee %d)", got, exact.NetworkFee, len(cb), n, e.p.BC.FeePerByte(), e.p.BC.GetBaseExecFee()), exact)
				}
			}
			less := e.resign(exact, cb)
			less.NetworkFee--
			less = e.resign(less, cb)
			more := e.resign(exact, cb)
			more.NetworkFee++
			more = e.resign(more, cb)
			id := fmt.Sprintf("%s/round%d/boundary/combo%d/script%d", e.name, round, ci, n)
			if !e.run.Want(id) {
				continue
			}
			e.run.Case(id, true)
			t0, _ := wire(exact)
			t1, _ := wire(less)
			t2, _ := wire(more)
			e0, e1, e2 := e.admit(t0), e.admit(t1), e.admit(t2)
			e.run.Obs("fee_boundaries_probed", 1)
			desc := fmt.Sprintf("fee-per-byte=%d exec-fee=%d signers=%d script=%d fee=%d", e.p.BC.FeePerByte(), e.p.BC.GetBaseExecFee(), len(cb), n, exact.NetworkFee)
			if e0 != nil {
				e.viol("rejected-at-calculated-fee", id, desc+": "+e0.Error(), exact)
			}
			if e1 == nil {
				e.viol("accepted-one-unit-below-calculated-fee", id, desc, less)
			}
			if e2 != nil {
				e.viol("rejected-above-calculated-fee", id, desc+": "+e2.Error(), more)
			}
		}
	}
}

// nonMinimal re-encodes tx with a non-minimal var-int for the script length.
func nonMinimal(tx *transaction.Transaction) []byte {
	w := io.NewBufBinWriter()
	tx.EncodeBinary(w.BinWriter)
	b := w.Bytes()
	// locate the script length prefix: the script is followed by the witnesses;
	// rebuild the unsigned part by hand to know the offset.
	u := io.NewBufBinWriter()
	u.WriteB(tx.Version)
	u.WriteU32LE(tx.Nonce)
	u.WriteU64LE(uint64(tx.SystemFee))
	u.WriteU64LE(uint64(tx.NetworkFee))
	u.WriteU32LE(tx.ValidUntilBlock)
	u.WriteVarUint(uint64(len(tx.Signers)))
	for i := range tx.Signers {
		tx.Signers[i].EncodeBinary(u.BinWriter)
	}
	u.WriteVarUint(uint64(len(tx.Attributes)))
	for i := range tx.Attributes {
		tx.Attributes[i].EncodeBinary(u.BinWriter)
	}
	off := u.Len()
	if len(tx.Script) >= 0xfd || b[off] != byte(len(tx.Script)) {
		return nil
	}
	out := append([]byte{}, b[:off]...)
	out = append(out, 0xfd, b[off], 0x00)
	out = append(out, b[off+1:]...)
	return out
}

// proposals fills the node's own mempool, packs blocks from it like the
// consensus does and sends them over the wire to a replica.
func (e *env) proposals(round int) {
	p := e.p
	mp := p.BC.GetMemPool()
	pooled := 0
	var offered []*transaction.Transaction
	for _, k := range e.catalogue() {
		if !k.valid {
			continue
		}
		offered = append(offered, k.tx)
	}
	for i := 0; i < 10; i++ {
		sg := []neotest.Signer{e.singles[e.r.Intn(len(e.singles))]}
		offered = append(offered, e.build(sg, script([]int{1, 50, 500, 2000}[e.r.Intn(4)]), nil, func(tx *transaction.Transaction) { tx.SystemFee = int64(1+e.r.Intn(4)) * 1_0000_0000 }))
	}
	for i, tx := range offered {
		// accepted encodings of the same content: the canonical one, and the one
		// with a non-minimal length prefix, signed over whatever hash the decoder reports
		raw := tx.Bytes()
		if i%3 == 2 {
			// room for the two extra bytes of the longer encoding
			bump := transaction.New(tx.Script, tx.SystemFee)
			bump.Nonce, bump.ValidUntilBlock, bump.Signers, bump.Attributes, bump.Scripts = tx.Nonce, tx.ValidUntilBlock, tx.Signers, tx.Attributes, tx.Scripts
			bump.NetworkFee = tx.NetworkFee + 8*p.BC.FeePerByte()
			if alt := nonMinimal(bump); alt != nil {
				if t2, err := transaction.NewTransactionFromBytes(alt); err == nil {
					e.run.Obs("alternative_encodings_accepted_by_decoder", 1)
					if len(t2.Signers) == 1 {
						for _, s := range e.singles {
							if s.ScriptHash() == t2.Signers[0].Account {
								t2.Scripts = nil
								_ = s.SignTx(p.BC.GetConfig().Magic, t2)
							}
						}
					}
					if err := p.BC.PoolTx(t2); err == nil {
						pooled++
						e.run.Obs("alternative_encodings_pooled", 1)
					} else {
						e.run.Note("alternative_encoding_pool_error", err.Error())
					}
					continue
				}
				e.run.Obs("alternative_encodings_rejected_by_decoder", 1)
			}
		}
		t2, err := transaction.NewTransactionFromBytes(raw)
		if err == nil && p.BC.PoolTx(t2) == nil {
			pooled++
		}
	}
	for n := 0; n < 6 && mp.Count() > 0; n++ {
		id := fmt.Sprintf("%s/round%d/proposal%d", e.name, round, n)
		if !e.run.Want(id) {
			break
		}
		txs := p.BC.ApplyPolicyToTxSet(mp.GetVerifiedTransactions())
		if len(txs) == 0 {
			break
		}
		e.run.Case(id, true)
		e.run.Obs("proposals", 1)
		e.run.Obs("proposed_transactions", int64(len(txs)))
		var sysFee int64
		for _, tx := range txs {
			sysFee += tx.SystemFee
		}
		cfg := p.BC.GetConfig()
		blk := p.NewBlock(txs...)
		raw := vchain.EncodeBlock(blk)
		desc := fmt.Sprintf("%d txs, %d bytes, sysfee %d (limits %d txs, %d bytes, %d)", len(txs), len(raw), sysFee, cfg.MaxTransactionsPerBlock, cfg.MaxBlockSize, cfg.MaxBlockSystemFee)
		if len(txs) > int(cfg.MaxTransactionsPerBlock) || len(raw) > int(cfg.MaxBlockSize) || sysFee > cfg.MaxBlockSystemFee {
			e.viol("packed-block-exceeds-limits", id, desc, nil)
		}
		if err := e.rep.AddRaw(raw); err != nil {
			var hs []string
			for _, tx := range txs {
				hs = append(hs, tx.Hash().StringLE()[:8])
			}
			sort.Strings(hs)
			sig := "packed-block-rejected-after-wire-round-trip"
			if strings.Contains(err.Error(), "MerkleRoot") {
				sig += ":merkle-root"
			}
			e.run.Violation(sig, id, desc+": "+err.Error(), map[string]any{"env": e.name, "block_hex": fmt.Sprintf("%x", raw)})
			// the replica may have recorded the (valid) header of the rejected
			// block: this environment cannot continue
			e.broken = true
			return
		}
		if err := p.BC.AddBlock(blk); err != nil {
			e.viol("packed-block-rejected-by-its-own-node", id, desc+": "+err.Error(), nil)
			return
		}
		p.Raw = append(p.Raw, raw)
		p.Blocks = append(p.Blocks, blk)
	}
	_ = pooled
}

// policyRaise: transactions pooled at exactly the calculated fee, then a block
// raises one price (fee per byte, execution fee factor, Conflicts attribute
// price) and blocks are proposed from the pool: whatever the refreshed pool
// still offers must make a block peers accept.
func (e *env) policyRaise(round int, fpb, eff int64) {
	p := e.p
	id := fmt.Sprintf("%s/round%d/proposal-after-fee-policy-raise", e.name, round)
	if !e.run.Want(id) {
		return
	}
	mp := p.BC.GetMemPool()
	vub := func(tx *transaction.Transaction) { tx.ValidUntilBlock = p.BC.BlockHeight() + 4 }
	conflict := []transaction.Attribute{{Type: transaction.ConflictsT, Value: &transaction.Conflicts{Hash: util.Uint256{7, byte(round)}}}}
	txs := []*transaction.Transaction{
		e.build([]neotest.Signer{e.singles[0]}, script(1), nil, vub),
		e.build([]neotest.Signer{e.multis[1+round%3]}, script(100), nil, vub),
		e.build([]neotest.Signer{e.singles[1]}, script(10), conflict, vub),
		e.build([]neotest.Signer{e.singles[2], e.multis[4]}, script(1000), nil, vub),
	}
	pooled := 0
	for _, tx := range txs {
		if t2, err := wire(tx); err == nil && p.BC.PoolTx(t2) == nil {
			pooled++
		}
	}
	if pooled == 0 {
		return
	}
	e.run.Case(id, true)
	var raise *transaction.Transaction
	knob := []string{"fee-per-byte", "exec-fee-factor", "conflicts-attribute-price"}[round%3]
	switch round % 3 {
	case 0:
		raise = p.Call("set-fee-per-byte", []neotest.Signer{p.Val, p.CommitteeSigner()}, p.PolH, "setFeePerByte", fpb+1+int64(e.r.Intn(200)))
	case 1:
		raise = p.Call("set-exec-fee-factor", []neotest.Signer{p.Val, p.CommitteeSigner()}, p.PolH, "setExecFeeFactor", eff+1+int64(e.r.Intn(3)))
	default:
		raise = p.Call("set-attribute-fee", []neotest.Signer{p.Val, p.CommitteeSigner()}, p.PolH, "setAttributeFee", int64(transaction.ConflictsT), e.conflictsFee+1+int64(e.r.Intn(5000)))
	}
	if p.AddBlock(raise) == nil {
		e.run.Violation("producer-rejected-own-block", id, p.Rejected.Error(), nil)
		e.broken = true
		return
	}
	e.sync()
	e.run.Obs("fee_policy_raises_with_exact_fee_transactions_pooled", 1)
	e.run.Obs("pooled_transactions_left_after_fee_policy_raise", int64(mp.Count()))
	for n := 0; n < 3 && mp.Count() > 0; n++ {
		sel := p.BC.ApplyPolicyToTxSet(mp.GetVerifiedTransactions())
		if len(sel) == 0 {
			break
		}
		blk := p.NewBlock(sel...)
		raw := vchain.EncodeBlock(blk)
		e.run.Obs("proposals_after_fee_policy_raise", 1)
		if err := e.rep.AddRaw(raw); err != nil {
			e.run.Violation("packed-block-rejected-after-wire-round-trip:pooled-before-raise-of-"+knob, id, fmt.Sprintf("%d txs: %v", len(sel), err), map[string]any{"env": e.name, "block_hex": fmt.Sprintf("%x", raw)})
			e.broken = true
			return
		}
		if err := p.BC.AddBlock(blk); err != nil {
			e.viol("packed-block-rejected-by-its-own-node", id, err.Error(), nil)
			e.broken = true
			return
		}
		p.Raw = append(p.Raw, raw)
		p.Blocks = append(p.Blocks, blk)
	}
}

// balanceDrain: a transaction its payer can just afford is pooled, then a block
// (with a transaction of the same payer this pool never saw) takes the payer's
// balance below its pooled fees; blocks proposed from the pool afterwards must
// still be accepted by peers.
func (e *env) balanceDrain(round int) {
	p := e.p
	id := fmt.Sprintf("%s/round%d/proposal-after-payer-balance-drop", e.name, round)
	if !e.run.Want(id) {
		return
	}
	mp := p.BC.GetMemPool()
	sg := e.singles[3-round%2]
	bal := p.BC.GetUtilityTokenBalance(sg.ScriptHash(), util.Uint160{}).Int64()
	var have int64
	for _, tx := range mp.GetVerifiedTransactions() {
		if tx.Sender() == sg.ScriptHash() {
			have += tx.SystemFee + tx.NetworkFee
		}
	}
	room := bal - have - 5000_0000
	if room < 1_0000_0000 {
		return
	}
	tx := e.build([]neotest.Signer{sg}, script(1), nil, func(tx *transaction.Transaction) { tx.ValidUntilBlock = p.BC.BlockHeight() + 4 })
	// the network fee is not capped: overpay it up to the payer's room
	fat := e.resign(tx, []neotest.Signer{sg})
	fat.NetworkFee = room - fat.SystemFee
	fat = e.resign(fat, []neotest.Signer{sg})
	t2, err := wire(fat)
	if err != nil || p.BC.PoolTx(t2) != nil {
		return
	}
	e.run.Case(id, true)
	drain := p.Call("drain", []neotest.Signer{sg}, p.GasH, "transfer", sg.ScriptHash(), p.Val.ScriptHash(), have+int64(2_0000_0000), nil) // more than the overpaying transaction leaves, whatever else the payer has pooled
	if p.AddBlock(drain) == nil {
		e.run.Violation("producer-rejected-own-block", id, p.Rejected.Error(), nil)
		e.broken = true
		return
	}
	e.sync()
	e.run.Obs("payer_balance_drops_below_pooled_fees", 1)
	for n := 0; n < 2 && mp.Count() > 0; n++ {
		sel := p.BC.ApplyPolicyToTxSet(mp.GetVerifiedTransactions())
		if len(sel) == 0 {
			break
		}
		blk := p.NewBlock(sel...)
		raw := vchain.EncodeBlock(blk)
		e.run.Obs("proposals_after_payer_balance_drop", 1)
		if err := e.rep.AddRaw(raw); err != nil {
			e.run.Violation("packed-block-rejected-after-wire-round-trip:payer-balance-dropped-below-pooled-fees", id, fmt.Sprintf("%d txs: %v", len(sel), err), map[string]any{"env": e.name, "block_hex": fmt.Sprintf("%x", raw)})
			e.broken = true
			return
		}
		if err := p.BC.AddBlock(blk); err != nil {
			e.viol("packed-block-rejected-by-its-own-node", id, err.Error(), nil)
			e.broken = true
			return
		}
		p.Raw = append(p.Raw, raw)
		p.Blocks = append(p.Blocks, blk)
	}
}

// pooledThenConflicted: transactions with two signers are pooled; a block then
// carries transactions that name them in Conflicts attributes, signed by the
// pooled transaction's sender, by its second signer only, or by a stranger. A
// pooled transaction named by an on-chain transaction of any of its signers is
// invalid from then on: it must have left the pool, and whatever the pool still
// holds must pack into blocks the replica accepts.
func (e *env) pooledThenConflicted(round int) {
	p := e.p
	id := fmt.Sprintf("%s/round%d/pooled-then-named-by-on-chain-conflict", e.name, round)
	if !e.run.Want(id) {
		return
	}
	mp := p.BC.GetMemPool()
	s1, s2, s3 := e.singles[round%3], e.singles[(round+1)%3], e.singles[3]
	later := func(tx *transaction.Transaction) { tx.ValidUntilBlock = p.BC.BlockHeight() + 4 }
	type pc struct {
		name    string
		victim  *transaction.Transaction
		by      []neotest.Signer
		invalid bool
	}
	cases := []pc{
		{"by-sender", e.build([]neotest.Signer{s1, s2}, script(20), nil, later), []neotest.Signer{s1}, true},
		{"by-second-signer", e.build([]neotest.Signer{s1, s2}, script(21), nil, later), []neotest.Signer{s2}, true},
		{"by-second-signer-cosigned-by-stranger", e.build([]neotest.Signer{s2, s1}, script(22), nil, later), []neotest.Signer{s3, s1}, true},
		{"by-stranger", e.build([]neotest.Signer{s1, s2}, script(23), nil, later), []neotest.Signer{s3}, false},
	}
	var blockTxs []*transaction.Transaction
	pooled := 0
	for i := range cases {
		c := &cases[i]
		t2, err := wire(c.victim)
		if err != nil || p.BC.PoolTx(t2) != nil {
			c.victim = nil
			continue
		}
		pooled++
		blockTxs = append(blockTxs, e.build(c.by, script(30+i), []transaction.Attribute{{Type: transaction.ConflictsT, Value: &transaction.Conflicts{Hash: c.victim.Hash()}}}, nil))
	}
	if pooled == 0 {
		return
	}
	e.run.Case(id, true)
	if p.AddBlock(blockTxs...) == nil {
		e.run.Violation("producer-rejected-own-block", id, p.Rejected.Error(), nil)
		e.broken = true
		return
	}
	e.sync()
	for _, c := range cases {
		if c.victim == nil {
			continue
		}
		e.run.Obs("pooled_transactions_named_by_a_later_block", 1)
		if c.invalid && mp.ContainsKey(c.victim.Hash()) {
			e.viol("pool-keeps-transaction-named-by-on-chain-conflict-of-its-signer:"+c.name, id, "still pooled after the block with the conflicting transaction", c.victim)
		}
		if c.invalid {
			cp, _ := wire(c.victim)
			if err := e.admit(cp); err == nil {
				e.viol("invalid-transaction-admitted:invalid:named-by-on-chain-conflict:"+c.name, id, "pooled again", c.victim)
			}
		}
	}
	for n := 0; n < 2 && mp.Count() > 0; n++ {
		sel := p.BC.ApplyPolicyToTxSet(mp.GetVerifiedTransactions())
		if len(sel) == 0 {
			break
		}
		blk := p.NewBlock(sel...)
		raw := vchain.EncodeBlock(blk)
		e.run.Obs("proposals_after_pooled_transactions_were_named_by_a_block", 1)
		if err := e.rep.AddRaw(raw); err != nil {
			e.run.Violation("packed-block-rejected-after-wire-round-trip:pooled-transaction-named-by-on-chain-conflict", id, fmt.Sprintf("%d txs: %v", len(sel), err), map[string]any{"env": e.name, "block_hex": fmt.Sprintf("%x", raw)})
			e.broken = true
			return
		}
		if err := p.BC.AddBlock(blk); err != nil {
			e.viol("packed-block-rejected-by-its-own-node", id, err.Error(), nil)
			e.broken = true
			return
		}
		p.Raw = append(p.Raw, raw)
		p.Blocks = append(p.Blocks, blk)
	}
}

func TestCheck(t *testing.T) {
	run := ev.Start("C07", "cases: (1) admission verdicts — transactions built valid against the current chain state (1-3 signers, single-sig and m-of-n up to 15-of-29 (the invocation script limit of 1024 bytes caps m at 15), attributes, script sizes up to the limits) and mutants invalid in exactly one named respect, offered through the wire decoder to PoolTx; (2) history-dependent rules (on chain, named as a conflict by an on-chain transaction of its signer / of a stranger); (3) fee boundary: calculator fee accepted, one unit less rejected, one more accepted, over signer combinations x script sizes x fee-per-byte x exec-fee-factor; (4) proposals: the node's own pool (incl. alternative accepted encodings) packed by ApplyPolicyToTxSet under tight block limits, sealed, serialized, parsed and added on a replica; distinct by (environment, round, case)")
	defer run.Finish()
	run.Assume("expected verdicts are known by construction: every mutant breaks exactly one named rule")
	run.Assume("fee exactness is claimed only for standard signature / multisignature witnesses, as the property states")
	part := os.Getenv("VERIF_PART")
	_ = part
	type envCfg struct {
		name string
		cfg  func(*config.Blockchain)
		fpb  int64
		eff  int64
	}
	tight := func(c *config.Blockchain) {
		vchain.AllForks(c)
		c.MaxTransactionsPerBlock = 6
		c.MaxBlockSize = 4000
		c.MaxBlockSystemFee = 6_0000_0000
	}
	roomy := func(c *config.Blockchain) {
		vchain.AllForks(c)
		c.MaxTransactionsPerBlock = 40
		c.MaxBlockSize = 80000
		c.MaxBlockSystemFee = 900_0000_0000
	}
	envs := []envCfg{{"tight-limits", tight, 1000, 30}, {"roomy-limits", roomy, 1, 1}, {"tight-limits-2", tight, 777, 100}}
	if ev.Tier() == "thorough" {
		envs = append(envs, envCfg{"roomy-2", roomy, 20000, 17}, envCfg{"tight-3", tight, 123, 45}, envCfg{"roomy-3", roomy, 5000, 60})
	}
	agedConflicts(t, run)
	rounds := ev.Pick(6, 100)
	for ei, ec := range envs {
		e := newEnv(t, run, ei, ec.name, ec.cfg)
		if e.p.Rejected != nil {
			run.Violation("producer-rejected-own-block", ec.name, e.p.Rejected.Error(), nil)
			e.close()
			continue
		}
		p := e.p
		for round := 0; round < rounds; round++ {
			// policy of this round
			fpb := ec.fpb + int64(round*37)
			eff := ec.eff + int64(round%3)
			e.conflictsFee = []int64{0, 5_0000, 123_4567}[(round+ei)%3]
			e.nvbFee = []int64{777, 0}[(round/3+ei)%2]
			if p.AddBlock(p.Call("set-fee-per-byte", []neotest.Signer{p.Val, p.CommitteeSigner()}, p.PolH, "setFeePerByte", fpb),
				p.Call("set-exec-fee-factor", []neotest.Signer{p.Val, p.CommitteeSigner()}, p.PolH, "setExecFeeFactor", eff),
				p.Call("set-attribute-fee", []neotest.Signer{p.Val, p.CommitteeSigner()}, p.PolH, "setAttributeFee", int64(transaction.ConflictsT), e.conflictsFee),
				p.Call("set-attribute-fee", []neotest.Signer{p.Val, p.CommitteeSigner()}, p.PolH, "setAttributeFee", int64(transaction.NotValidBeforeT), e.nvbFee)) == nil {
				run.Violation("producer-rejected-own-block", ec.name, p.Rejected.Error(), nil)
				break
			}
			e.sync()
			e.admission(round)
			e.onchain(round)
			e.boundary(round)
			e.proposals(round)
			if e.broken {
				break
			}
			e.policyRaise(round, fpb, eff)
			if e.broken {
				break
			}
			e.balanceDrain(round)
			if e.broken {
				break
			}
			e.pooledThenConflicted(round)
			if e.broken {
				break
			}
			e.sync()
			if run.HasViolations() && round > 1 {
				break
			}
		}
		if ei == 0 {
			var names []string
			for _, k := range e.catalogue() {
				names = append(names, k.name)
			}
			run.Sample(map[string]any{"environment": ec.name, "catalogue": names})
		}
		e.close()
	}
}

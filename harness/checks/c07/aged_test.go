package c07

import (
	"fmt"
	"testing"

	"github.com/nspcc-dev/neo-go/pkg/config"
	"github.com/nspcc-dev/neo-go/pkg/core/mempool"
	"github.com/nspcc-dev/neo-go/pkg/core/transaction"
	"github.com/nspcc-dev/neo-go/pkg/vm/opcode"
	"github.com/nspcc-dev/neo-go/verifharness/vlib/ev"
	"github.com/nspcc-dev/neo-go/verifharness/vlib/vchain"
)

// agedConflicts offers to the pool a transaction named as a conflict by
// several on-chain transactions of its own signer, the oldest of which have
// left the traceable window while the newest have not, at every height of its
// validity window; an unnamed twin of it must be admitted at the same heights.
func agedConflicts(t *testing.T, run *ev.Run) {
	type variant struct {
		mtb          uint32
		prior, fresh int
	}
	vs := []variant{{8, 1, 1}, {10, 2, 2}}
	if ev.Tier() == "thorough" {
		vs = nil
		for _, mtb := range []uint32{6, 8, 12, 20} {
			for prior := 1; prior <= 3; prior++ {
				for fresh := 1; fresh <= 2; fresh++ {
					vs = append(vs, variant{mtb, prior, fresh})
				}
			}
		}
	}
	admit := func(p *vchain.Producer, tx *transaction.Transaction) (err error) {
		defer func() {
			if x := recover(); x != nil {
				err = fmt.Errorf("panic: %v", x)
			}
		}()
		w, err := wire(tx)
		if err != nil {
			return err
		}
		return p.BC.PoolTx(w, mempool.New(10, false, nil))
	}
	for vi, v := range vs {
		base := fmt.Sprintf("aged-conflict/mtb%d/prior%d/fresh%d", v.mtb, v.prior, v.fresh)
		wanted := false
		for k := 0; k < 3; k++ {
			wanted = wanted || run.Want(fmt.Sprintf("%s/offer%d", base, k))
		}
		if !wanted {
			continue
		}
		s := vchain.BuildAgedConflict(t, vchain.AgedConflictCfg{Stream: 77000 + uint64(vi), MTB: v.mtb, Prior: v.prior, Fresh: v.fresh})
		p := s.P
		if p.Rejected != nil {
			run.Violation("producer-rejected-own-block", base, p.Rejected.Error(), nil)
			p.Close()
			continue
		}
		for k := 0; k < s.Offers; k++ {
			id := fmt.Sprintf("%s/offer%d", base, k)
			run.Case(id, true)
			wit := map[string]any{"max_traceable_blocks": v.mtb, "aged_conflicts_at": s.PriorAt, "fresh_conflicts_at": s.FreshAt, "height": p.Height(), "valid_until": s.Victim.ValidUntilBlock, "tx": fmt.Sprintf("%x", s.Victim.Bytes())}
			if err := admit(p, s.Victim); err == nil {
				run.Violation("invalid-transaction-admitted:invalid:named-by-fresh-on-chain-conflict-of-its-signer-after-an-aged-one", id, fmt.Sprintf("height %d: pooled although named by the transaction(s) of its signer in block(s) %v (older ones in %v, MaxTraceableBlocks %d)", p.Height(), s.FreshAt, s.PriorAt, v.mtb), wit)
			} else {
				run.Obs("history_dependent_verdicts", 1)
			}
			if err := admit(p, s.Twin); err != nil {
				run.Violation("valid-transaction-rejected:valid:unnamed-twin-of-conflicted-transaction", id, err.Error(), wit)
			} else {
				run.Obs("history_dependent_verdicts", 1)
			}
			if p.AddBlock() == nil {
				run.Violation("producer-rejected-own-block", id, p.Rejected.Error(), nil)
				break
			}
		}
		p.Close()
	}
	// the edge of the window: a conflict record in block i counts up to and
	// including chain height i+MaxTraceableBlocks-1; the named transaction is
	// offered at every height from i to that edge and must never get in (a twin
	// nobody names gets in as soon as its validity window opens)
	mtbs := []uint32{6, 9}
	if ev.Tier() == "thorough" {
		mtbs = []uint32{4, 6, 7, 9, 12, 16, 25}
	}
	for mi, mtb := range mtbs {
		base := fmt.Sprintf("conflict-window-edge/mtb%d", mtb)
		if !run.Want(base) {
			continue
		}
		cfg := func(b *config.Blockchain) {
			vchain.AllForks(b)
			b.MaxTraceableBlocks = mtb
			b.MaxValidUntilBlockIncrement = max(mtb/2, 2)
		}
		p := vchain.NewProducer(t, vchain.ProducerConfig{Proto: cfg, Users: 3, Stream: 78000 + uint64(mi), TolerateReject: true})
		u := p.Users[0]
		mk := func(vub uint32, attrs ...transaction.Attribute) *transaction.Transaction {
			tx := transaction.New([]byte{byte(opcode.PUSH1)}, 100_0000)
			tx.Nonce = uint32(p.R.Uint32())
			tx.ValidUntilBlock = vub
			tx.NetworkFee = 2_0000_0000
			tx.Attributes = attrs
			tx.Signers = []transaction.Signer{{Account: u.Hash(), Scopes: transaction.CalledByEntry}}
			if err := u.S.SignTx(p.BC.GetConfig().Magic, tx); err != nil {
				t.Fatal(err)
			}
			return tx
		}
		for range 2 + mi {
			p.AddBlock()
		}
		i := p.Height() + 1
		victim, twin := mk(i+mtb+1), mk(i+mtb+1)
		k := mk(i, transaction.Attribute{Type: transaction.ConflictsT, Value: &transaction.Conflicts{Hash: victim.Hash()}})
		if p.AddBlock(k) == nil {
			run.Violation("producer-rejected-own-block", base, p.Rejected.Error(), nil)
			p.Close()
			continue
		}
		run.Case(base, true)
		for p.Height() <= i+mtb-1 {
			h := p.Height()
			wit := map[string]any{"max_traceable_blocks": mtb, "conflict_at": i, "height": h, "valid_until": victim.ValidUntilBlock, "tx": fmt.Sprintf("%x", victim.Bytes())}
			if err := admit(p, victim); err == nil {
				run.Violation("invalid-transaction-admitted:invalid:named-by-on-chain-conflict-of-its-signer-at-the-edge-of-the-traceable-window", fmt.Sprintf("%s/height%d", base, h),
					fmt.Sprintf("height %d: pooled although named by the transaction of its signer in block %d, which is traceable up to height %d (MaxTraceableBlocks %d)", h, i, i+mtb-1, mtb), wit)
				break
			}
			run.Obs("history_dependent_verdicts", 1)
			if h == i+mtb-1 {
				run.Obs("conflict_window_edges_probed", 1)
			}
			if err := admit(p, twin); err == nil {
				run.Obs("history_dependent_verdicts", 1)
			} else if h+p.BC.GetMaxValidUntilBlockIncrement() >= twin.ValidUntilBlock {
				run.Violation("valid-transaction-rejected:valid:unnamed-twin-of-conflicted-transaction", fmt.Sprintf("%s/height%d", base, h), err.Error(), wit)
				break
			}
			if p.AddBlock() == nil {
				run.Violation("producer-rejected-own-block", base, p.Rejected.Error(), nil)
				break
			}
		}
		p.Close()
	}
}

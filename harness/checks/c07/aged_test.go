package c07

import (
	"fmt"
	"testing"

	"github.com/nspcc-dev/neo-go/pkg/core/mempool"
	"github.com/nspcc-dev/neo-go/pkg/core/transaction"
	"github.com/nspcc-dev/neo-go/verifharness/vlib/ev"
	"github.com/nspcc-dev/neo-go/verifharness/vlib/vchain"
)

// agedConflicts offers to the pool a transaction named as a conflict by
// several on-chain transactions of its own signer, the oldest of which have
// left the traceable window while the newest have not, at every height of its
// validity window; an unnamed twin of it must be admitted at the same heights.
func agedConflicts(t *testing.T, run *ev.Run) {
	type variant struct {
		mtb          uint32
		prior, fresh int
	}
	vs := []variant{{8, 1, 1}, {10, 2, 2}}
	if ev.Tier() == "thorough" {
		vs = nil
		for _, mtb := range []uint32{6, 8, 12, 20} {
			for prior := 1; prior <= 3; prior++ {
				for fresh := 1; fresh <= 2; fresh++ {
					vs = append(vs, variant{mtb, prior, fresh})
				}
			}
		}
	}
	admit := func(p *vchain.Producer, tx *transaction.Transaction) (err error) {
		defer func() {
			if x := recover(); x != nil {
				err = fmt.Errorf("panic: %v", x)
			}
		}()
		w, err := wire(tx)
		if err != nil {
			return err
		}
		return p.BC.PoolTx(w, mempool.New(10, false, nil))
	}
	for vi, v := range vs {
		base := fmt.Sprintf("aged-conflict/mtb%d/prior%d/fresh%d", v.mtb, v.prior, v.fresh)
		wanted := false
		for k := 0; k < 3; k++ {
			wanted = wanted || run.Want(fmt.Sprintf("%s/offer%d", base, k))
		}
		if !wanted {
			continue
		}
		s := vchain.BuildAgedConflict(t, vchain.AgedConflictCfg{Stream: 77000 + uint64(vi), MTB: v.mtb, Prior: v.prior, Fresh: v.fresh})
		p := s.P
		if p.Rejected != nil {
			run.Violation("producer-rejected-own-block", base, p.Rejected.Error(), nil)
			p.Close()
			continue
		}
		for k := 0; k < s.Offers; k++ {
			id := fmt.Sprintf("%s/offer%d", base, k)
			run.Case(id, true)
			wit := map[string]any{"max_traceable_blocks": v.mtb, "aged_conflicts_at": s.PriorAt, "fresh_conflicts_at": s.FreshAt, "height": p.Height(), "valid_until": s.Victim.ValidUntilBlock, "tx": fmt.Sprintf("%x", s.Victim.Bytes())}
			if err := admit(p, s.Victim); err == nil {
				run.Violation("invalid-transaction-admitted:invalid:named-by-fresh-on-chain-conflict-of-its-signer-after-an-aged-one", id, fmt.Sprintf("height %d: pooled although named by the transaction(s) of its signer in block(s) %v (older ones in %v, MaxTraceableBlocks %d)", p.Height(), s.FreshAt, s.PriorAt, v.mtb), wit)
			} else {
				run.Obs("history_dependent_verdicts", 1)
			}
			if err := admit(p, s.Twin); err != nil {
				run.Violation("valid-transaction-rejected:valid:unnamed-twin-of-conflicted-transaction", id, err.Error(), wit)
			} else {
				run.Obs("history_dependent_verdicts", 1)
			}
			if p.AddBlock() == nil {
				run.Violation("producer-rejected-own-block", id, p.Rejected.Error(), nil)
				break
			}
		}
		p.Close()
	}
}

package c18

import (
	"bytes"
	"encoding/hex"
	"encoding/json"
	"fmt"
	"math"
	"math/big"
	"strings"

	"github.com/nspcc-dev/neo-go/pkg/crypto/hash"
	"github.com/nspcc-dev/neo-go/pkg/encoding/address"
	"github.com/nspcc-dev/neo-go/pkg/encoding/base58"
	"github.com/nspcc-dev/neo-go/pkg/encoding/bigint"
	"github.com/nspcc-dev/neo-go/pkg/encoding/fixedn"
	"github.com/nspcc-dev/neo-go/pkg/io"
	"github.com/nspcc-dev/neo-go/pkg/util"
	"github.com/nspcc-dev/neo-go/pkg/vm/stackitem"
	"github.com/nspcc-dev/neo-go/verifharness/vlib/ev"
	"github.com/nspcc-dev/neo-go/verifharness/vlib/rng"
)

func reversed(b []byte) []byte {
	o := make([]byte, len(b))
	for i := range b {
		o[len(b)-1-i] = b[i]
	}
	return o
}

// genB58Payload returns a byte string biased to leading zero bytes and to the
// carry boundaries of the base conversion.
func genB58Payload(r *rng.R) ([]byte, string) {
	zs := []int{0, 0, 0, 1, 1, 2, 3, 5, 10, 33}
	z := zs[r.Intn(len(zs))]
	var body []byte
	var cls string
	switch r.Intn(7) {
	case 0:
		body, cls = nil, "zeros-only"
	case 1: // 58^k - 1, 58^k, 58^k + 1
		k := 1 + r.Intn(60)
		v := new(big.Int).Exp(big58, big.NewInt(int64(k)), nil)
		v.Add(v, big.NewInt(int64(r.Intn(3)-1)))
		body, cls = v.Bytes(), "power-of-58"
	case 2: // 256^k - 1, 256^k
		k := 1 + r.Intn(40)
		v := new(big.Int).Lsh(big.NewInt(1), uint(8*k))
		v.Sub(v, big.NewInt(int64(r.Intn(2))))
		body, cls = v.Bytes(), "power-of-256"
	case 3:
		body, cls = bytes.Repeat([]byte{0xff}, 1+r.Intn(40)), "all-ff"
	case 4:
		body, cls = []byte{byte(1 + r.Intn(255))}, "single-byte"
	default:
		body = r.Bytes(1 + r.Intn(80))
		if body[0] == 0 {
			body[0] = 1
		}
		cls = "random"
	}
	return append(make([]byte, z), body...), fmt.Sprintf("%s:zeros=%d", cls, z)
}

func b58Family(run *ev.Run, n int) {
	family(run, "base58check", n, func(c *tc, i int) (string, bool) {
		r := rng.New(sB58 + uint64(i))
		b, cls := genB58Payload(r)
		c.in["payload"] = hx(b)
		if len(b) == 0 {
			// Base58Check carries at least a version byte; the empty payload is
			// outside the codec's domain (CheckDecode refuses 4-byte strings).
			// Recorded, not judged.
			if _, err := base58.CheckDecode(base58.CheckEncode(b)); err != nil {
				run.Obs("outside_statement_empty_base58check_payload_refused", 1)
			}
			return "empty", false
		}
		// the hash helpers the codecs are built from
		if d := refSha256d(b); !bytes.Equal(hash.Checksum(b), d[:4]) || hash.DoubleSha256(b) != util.Uint256(d) {
			c.fail("hash:double-sha256-or-checksum-differs-from-reference", "")
		}
		if hash.Hash160(b) != refHash160(b) {
			c.fail("hash:hash160-differs-from-reference", "")
		}
		orig := append([]byte{}, b...)
		enc := base58.CheckEncode(b)
		if !bytes.Equal(b, orig) {
			c.fail("base58check:encode-modified-input", "")
		}
		want := refCheckEnc(b)
		if enc != want {
			shape := "no-leading-zero"
			if len(b) > 0 && b[0] == 0 {
				shape = "leading-zero-bytes"
			}
			c.fail("base58check:encoding-differs-from-reference:"+shape, enc+" vs "+want)
		}
		dec, err := base58.CheckDecode(enc)
		if err != nil || !bytes.Equal(dec, b) {
			shape := "no-leading-zero"
			if len(b) > 0 && b[0] == 0 {
				shape = "leading-zero-bytes"
			}
			c.fail("base58check:roundtrip:"+shape, fmt.Sprintf("decoded %x err=%v", dec, err))
		}
		run.Obs("base58check_inversions", 1)
		if len(b) > 0 && b[0] == 0 {
			run.Obs("base58check_leading_zero_payloads", 1)
		}
		// a reference-encoded string decodes to the payload too
		if dec, err := base58.CheckDecode(want); err != nil || !bytes.Equal(dec, b) {
			c.fail("base58check:reference-string-not-decoded", fmt.Sprintf("decoded %x err=%v", dec, err))
		}
		// one altered character: checksum (or alphabet) must refuse it
		if len(want) > 0 {
			s := []byte(want)
			p := r.Intn(len(s))
			var repl byte
			if r.Intn(4) == 0 {
				repl = "0OIl+/"[r.Intn(6)]
			} else {
				for {
					repl = b58Alphabet[r.Intn(58)]
					if repl != s[p] {
						break
					}
				}
			}
			s[p] = repl
			if d2, err := base58.CheckDecode(string(s)); err == nil {
				c.in["altered"] = string(s)
				c.fail("base58check:altered-string-accepted", fmt.Sprintf("decoded %x", d2))
			}
			run.Obs("base58check_altered_refused", 1)
		}
		return cls, true
	})
}

func genHashBytes(r *rng.R, n int) ([]byte, string) {
	switch r.Intn(8) {
	case 0:
		return make([]byte, n), "zero"
	case 1:
		return bytes.Repeat([]byte{0xff}, n), "ff"
	case 2:
		b := r.Bytes(n)
		clear(b[:1+r.Intn(n-1)])
		return b, "leading-zeros"
	case 3:
		b := r.Bytes(n)
		clear(b[n-1-r.Intn(n-1):])
		return b, "trailing-zeros"
	case 4:
		b := make([]byte, n)
		b[r.Intn(n)] = byte(1 << uint(r.Intn(8)))
		return b, "one-bit"
	default:
		return r.Bytes(n), "random"
	}
}

func addrFamily(run *ev.Run, n int) {
	family(run, "address", n, func(c *tc, i int) (string, bool) {
		r := rng.New(sAddr + uint64(i))
		b, cls := genHashBytes(r, 20)
		c.in["scripthash_be"] = hx(b)
		u, err := util.Uint160DecodeBytesBE(b)
		if err != nil {
			c.fail("uint160:bytes-be-roundtrip", err.Error())
			return cls, true
		}
		s := address.Uint160ToString(u)
		if want := refCheckEnc(append([]byte{0x35}, b...)); s != want {
			c.fail("address:encoding-differs-from-reference", s+" vs "+want)
		}
		back, err := address.StringToUint160(s)
		if err != nil || back != u {
			c.fail("address:roundtrip", fmt.Sprintf("%s -> %s err=%v", s, back.StringBE(), err))
		}
		run.Obs("address_inversions", 1)
		// Not part of the statement (decoding of strings that no encoder
		// produces), recorded as an observation only: a checksum-valid string
		// whose payload is not 21 bytes long.
		if i%16 == 0 {
			l := []int{1, 2, 5, 17, 20, 22, 30}[r.Intn(7)]
			p := append([]byte{0x35}, r.Bytes(l-1)...)
			func() {
				defer func() {
					if recover() != nil {
						run.Obs("outside_statement_malformed_length_address_panics", 1)
					}
				}()
				if _, err := address.StringToUint160(refCheckEnc(p)); err == nil {
					run.Obs("outside_statement_malformed_length_address_accepted", 1)
				} else {
					run.Obs("outside_statement_malformed_length_address_refused", 1)
				}
			}()
		}
		return cls, true
	})
}

// addrPrefixFamily: the address version byte is configurable (address.Prefix;
// the legacy wallet converter sets the Neo Legacy one). Encoding then decoding
// is the identity under every prefix, and the encoding is the reference one.
// The prefixes are visited one after another: the variable is package state.
func addrPrefixFamily(run *ev.Run, n int) {
	defer func() { address.Prefix = address.NEO3Prefix }()
	for pi, pfx := range []byte{address.NEO2Prefix, 0x00, 0x6f, 0xff, 0x34, 0x36} {
		address.Prefix = pfx
		family(run, fmt.Sprintf("address-prefix-%02x", pfx), n, func(c *tc, i int) (string, bool) {
			r := rng.New(sAddr + 7777*uint64(pi+1) + uint64(i))
			b, cls := genHashBytes(r, 20)
			c.in["scripthash_be"] = hx(b)
			c.in["prefix"] = pfx
			u, _ := util.Uint160DecodeBytesBE(b)
			s := address.Uint160ToString(u)
			if want := refCheckEnc(append([]byte{pfx}, b...)); s != want {
				c.fail("address:encoding-differs-from-reference:non-default-prefix", s+" vs "+want)
			}
			back, err := address.StringToUint160(s)
			if err != nil || back != u {
				c.fail("address:roundtrip:non-default-prefix", fmt.Sprintf("prefix %#x: %s -> %s err=%v", pfx, s, back.StringBE(), err))
			}
			// an address of another version byte is not one of this configuration
			if _, err := address.StringToUint160(refCheckEnc(append([]byte{pfx ^ 1}, b...))); err == nil {
				c.fail("address:other-version-byte-accepted", fmt.Sprintf("prefix %#x", pfx))
			}
			run.Obs("address_inversions_under_non_default_prefix", 1)
			return cls, true
		})
	}
}

func uintFamily(run *ev.Run, n int) {
	family(run, "uint", n, func(c *tc, i int) (string, bool) {
		r := rng.New(sUint + uint64(i))
		if i%2 == 0 {
			b, cls := genHashBytes(r, 20)
			c.in["bytes"] = hx(b)
			rb := reversed(b)
			u, err := util.Uint160DecodeBytesBE(b)
			bad := func(what string, ok bool) {
				if !ok {
					c.fail("uint160:"+what, "")
				}
			}
			bad("bytes-be-roundtrip", err == nil && bytes.Equal(u.BytesBE(), b) && bytes.Equal(u[:], b))
			ul, err := util.Uint160DecodeBytesLE(rb)
			bad("bytes-le-roundtrip", err == nil && ul == u && bytes.Equal(u.BytesLE(), rb))
			bad("bytes-le-modified-value", bytes.Equal(u[:], b))
			bad("string-be-differs-from-hex", u.StringBE() == hex.EncodeToString(b) && u.String() == u.StringBE())
			bad("string-le-differs-from-reversed-hex", u.StringLE() == hex.EncodeToString(rb))
			u2, err := util.Uint160DecodeStringBE(u.StringBE())
			bad("string-be-roundtrip", err == nil && u2 == u)
			u2, err = util.Uint160DecodeStringLE(u.StringLE())
			bad("string-le-roundtrip", err == nil && u2 == u)
			bad("reverse-involution", u.Reverse().Reverse() == u && bytes.Equal(u.Reverse().BytesBE(), rb))
			js, err := json.Marshal(u)
			bad("json-differs-from-0x-le-hex", err == nil && string(js) == `"0x`+hex.EncodeToString(rb)+`"`)
			var u3 util.Uint160
			bad("json-roundtrip", json.Unmarshal(js, &u3) == nil && u3 == u)
			bw := io.NewBufBinWriter()
			u.EncodeBinary(bw.BinWriter)
			var u4 util.Uint160
			wire := bw.Bytes()
			br := io.NewBinReaderFromBuf(wire)
			u4.DecodeBinary(br)
			bad("binary-roundtrip", br.Err == nil && u4 == u && bytes.Equal(wire, b))
			bad("compare-with-itself", u.Equals(u2) && u.Compare(u2) == 0 && !u.Less(u2))
			run.Obs("uint160_inversions", 7)
			return "160:" + cls, true
		}
		b, cls := genHashBytes(r, 32)
		c.in["bytes"] = hx(b)
		rb := reversed(b)
		u, err := util.Uint256DecodeBytesBE(b)
		bad := func(what string, ok bool) {
			if !ok {
				c.fail("uint256:"+what, "")
			}
		}
		bad("bytes-be-roundtrip", err == nil && bytes.Equal(u.BytesBE(), b) && bytes.Equal(u[:], b))
		ul, err := util.Uint256DecodeBytesLE(rb)
		bad("bytes-le-roundtrip", err == nil && ul == u && bytes.Equal(u.BytesLE(), rb))
		bad("bytes-le-modified-value", bytes.Equal(u[:], b))
		bad("string-be-differs-from-hex", u.StringBE() == hex.EncodeToString(b) && u.String() == u.StringBE())
		bad("string-le-differs-from-reversed-hex", u.StringLE() == hex.EncodeToString(rb))
		u2, err := util.Uint256DecodeStringBE(u.StringBE())
		bad("string-be-roundtrip", err == nil && u2 == u)
		u2, err = util.Uint256DecodeStringLE(u.StringLE())
		bad("string-le-roundtrip", err == nil && u2 == u)
		bad("reverse-involution", u.Reverse().Reverse() == u && bytes.Equal(u.Reverse().BytesBE(), rb))
		js, err := json.Marshal(u)
		bad("json-differs-from-0x-le-hex", err == nil && string(js) == `"0x`+hex.EncodeToString(rb)+`"`)
		var u3 util.Uint256
		bad("json-roundtrip", json.Unmarshal(js, &u3) == nil && u3 == u)
		bw := io.NewBufBinWriter()
		u.EncodeBinary(bw.BinWriter)
		var u4 util.Uint256
		wire := bw.Bytes()
		br := io.NewBinReaderFromBuf(wire)
		u4.DecodeBinary(br)
		bad("binary-roundtrip", br.Err == nil && u4 == u && bytes.Equal(wire, b))
		bad("compare-with-itself", u.Equals(u2) && u.Compare(u2) == 0)
		run.Obs("uint256_inversions", 7)
		return "256:" + cls, true
	})
}

// refDecimal writes v / 10^p in the usual way: optional '-', integral digits,
// and, if the fraction is non-zero, '.' and the fraction without trailing zeros.
func refDecimal(v *big.Int, p int) string {
	a := new(big.Int).Abs(v)
	s := a.String()
	for len(s) <= p {
		s = "0" + s
	}
	ip, fp := s[:len(s)-p], strings.TrimRight(s[len(s)-p:], "0")
	out := ip
	if fp != "" {
		out += "." + fp
	}
	if v.Sign() < 0 {
		out = "-" + out
	}
	return out
}

func decimalShape(v *big.Int, p int) string {
	lim := new(big.Int).Exp(big.NewInt(10), big.NewInt(int64(p)), nil)
	switch {
	case v.Sign() < 0 && new(big.Int).Abs(v).Cmp(lim) < 0:
		return "negative-above-minus-one"
	case v.Sign() < 0:
		return "negative"
	case v.Sign() == 0:
		return "zero"
	}
	return "positive"
}

func genFixed8(r *rng.R) (int64, string) {
	const d = 100000000
	switch r.Intn(10) {
	case 0:
		return []int64{0, 1, -1, d, -d, d - 1, -(d - 1), d + 1, -(d + 1)}[r.Intn(9)], "unit-boundary"
	case 1:
		return []int64{math.MaxInt64, math.MinInt64, math.MaxInt64 - 1, math.MinInt64 + 1, math.MaxInt64 / d * d, math.MinInt64 / d * d}[r.Intn(6)], "int64-boundary"
	case 2:
		return -int64(1 + r.Intn(d-1)), "negative-fraction-only"
	case 3:
		return int64(1 + r.Intn(d-1)), "positive-fraction-only"
	case 4: // trailing zeros in the fraction
		p := int64(math.Pow10(1 + r.Intn(8)))
		v := int64(r.Intn(1000000)) * p
		if r.Bool() {
			v = -v
		}
		return v, "trailing-zeros"
	case 5: // leading zeros in the fraction
		v := int64(r.Intn(1000))*d + int64(1+r.Intn(999))
		if r.Bool() {
			v = -v
		}
		return v, "fraction-leading-zeros"
	default:
		v := r.Int64() >> uint(r.Intn(60))
		if r.Bool() {
			v = -v
		}
		return v, "random"
	}
}

func fixedFamily(run *ev.Run, n int) {
	family(run, "fixed", n, func(c *tc, i int) (string, bool) {
		r := rng.New(sFixed + uint64(i))
		if i%2 == 0 {
			v, cls := genFixed8(r)
			c.in["fixed8"] = v
			f := fixedn.Fixed8(v)
			shape := decimalShape(big.NewInt(v), 8)
			if v == math.MinInt64 {
				shape = "min-int64"
			}
			s := f.String()
			c.in["string"] = s
			back, err := fixedn.Fixed8FromString(s)
			if err != nil || back != f {
				c.fail("fixed8:string-roundtrip:"+shape, fmt.Sprintf("%d -> %q -> %d err=%v", v, s, int64(back), err))
			}
			rtBad := err != nil || back != f
			js, err := json.Marshal(f)
			var g fixedn.Fixed8
			if err != nil || json.Unmarshal(js, &g) != nil || g != f {
				if !rtBad { // otherwise the same root cause as the string round trip: one signature
					c.fail("fixed8:json-roundtrip:"+shape, fmt.Sprintf("%d -> %s -> %d", v, js, int64(g)))
				}
			}
			bw := io.NewBufBinWriter()
			f.EncodeBinary(bw.BinWriter)
			var h fixedn.Fixed8
			br := io.NewBinReaderFromBuf(bw.Bytes())
			h.DecodeBinary(br)
			if br.Err != nil || h != f {
				c.fail("fixed8:binary-roundtrip", fmt.Sprint(v))
			}
			if f.IntegralValue()*100000000+int64(f.FractionalValue()) != v {
				c.fail("fixed8:integral-plus-fraction", fmt.Sprint(v))
			}
			// parsing of the usual decimal notation
			ref := refDecimal(big.NewInt(v), 8)
			p, err := fixedn.Fixed8FromString(ref)
			if (err != nil || int64(p) != v) && !(rtBad && ref == s) {
				c.fail("fixed8:parse-decimal-notation:"+shape, fmt.Sprintf("%q -> %d err=%v, want %d", ref, int64(p), err, v))
			}
			run.Obs("fixed8_inversions", 3)
			return "fixed8:" + cls + ":" + shape, true
		}
		prec := r.Intn(19)
		var v *big.Int
		switch r.Intn(4) {
		case 0:
			iv, _ := genFixed8(r)
			v = big.NewInt(iv)
		case 1: // around +-10^prec
			v = new(big.Int).Exp(big.NewInt(10), big.NewInt(int64(prec)), nil)
			v.Add(v, big.NewInt(int64(r.Intn(3)-1)))
			if r.Bool() {
				v.Neg(v)
			}
		case 2: // fraction only
			lim := new(big.Int).Exp(big.NewInt(10), big.NewInt(int64(prec)), nil)
			v = new(big.Int).SetBytes(r.Bytes(12))
			v.Mod(v, lim)
			if r.Bool() {
				v.Neg(v)
			}
		default:
			v = r.BigBoundary()
		}
		c.in["value"] = v.String()
		c.in["precision"] = prec
		shape := decimalShape(v, prec)
		keep := new(big.Int).Set(v)
		s := fixedn.ToString(v, prec)
		c.in["string"] = s
		if v.Cmp(keep) != 0 {
			c.fail("decimal:tostring-modified-argument", "")
		}
		back, err := fixedn.FromString(s, prec)
		rtBad := err != nil || back.Cmp(v) != 0
		if rtBad {
			c.fail("decimal:string-roundtrip:"+shape, fmt.Sprintf("%s (precision %d) -> %q -> %v err=%v", v, prec, s, back, err))
		}
		ref := refDecimal(v, prec)
		p, err := fixedn.FromString(ref, prec)
		if err != nil || p.Cmp(v) != 0 {
			c.fail("decimal:parse-decimal-notation:"+shape, fmt.Sprintf("%q (precision %d) -> %v err=%v, want %s", ref, prec, p, err, v))
		}
		run.Obs("decimal_inversions", 2)
		return fmt.Sprintf("decimal:p%d:%s", prec, shape), true
	})
}

// genVMInt returns integers at the sign-bit and carry boundaries of the
// little-endian two's-complement codec.
func genVMInt(r *rng.R) (*big.Int, string) {
	one := big.NewInt(1)
	switch r.Intn(8) {
	case 0, 1: // +-2^(8k-1) + {-2..2}: the sign bit of byte k
		k := 1 + r.Intn(40)
		v := new(big.Int).Lsh(one, uint(8*k-1))
		v.Add(v, big.NewInt(int64(r.Intn(5)-2)))
		if r.Bool() {
			v.Neg(v)
		}
		return v, fmt.Sprintf("sign-bit:k=%d", k)
	case 2: // +-2^(8k) + {-2..2}: carry into a new byte
		k := 1 + r.Intn(40)
		v := new(big.Int).Lsh(one, uint(8*k))
		v.Add(v, big.NewInt(int64(r.Intn(5)-2)))
		if r.Bool() {
			v.Neg(v)
		}
		return v, fmt.Sprintf("byte-carry:k=%d", k)
	case 3: // machine word boundaries
		k := 64 * (1 + r.Intn(5))
		v := new(big.Int).Lsh(one, uint(k))
		v.Add(v, big.NewInt(int64(r.Intn(5)-2)))
		if r.Bool() {
			v.Neg(v)
		}
		return v, fmt.Sprintf("word-carry:k=%d", k)
	case 4: // low words zero / all ones
		k := 8 * (1 + r.Intn(32))
		v := new(big.Int).SetBytes(r.Bytes(1 + r.Intn(8)))
		v.Lsh(v, uint(k))
		if r.Bool() {
			v.Sub(v, one)
		}
		if r.Bool() {
			v.Neg(v)
		}
		return v, "low-part-zero-or-ones"
	default:
		v := r.BigBoundary()
		return v, "vlib-boundary"
	}
}

var (
	vmMax = new(big.Int).Sub(new(big.Int).Lsh(big.NewInt(1), 255), big.NewInt(1))
	vmMin = new(big.Int).Neg(new(big.Int).Lsh(big.NewInt(1), 255))
)

func bigintFamily(run *ev.Run, n int) {
	family(run, "vmint", n, func(c *tc, i int) (string, bool) {
		r := rng.New(sBigint + uint64(i))
		if i%4 == 3 { // decoding direction: arbitrary (possibly non-minimal) bytes
			l := 1 + r.Intn(40)
			b := r.Bytes(l)
			switch r.Intn(4) {
			case 0: // sign-extension padding
				pad := byte(0)
				if r.Bool() {
					pad = 0xff
				}
				for j := l - 1 - r.Intn(l); j < l; j++ {
					b[j] = pad
				}
			case 1:
				b[l-1] = []byte{0x00, 0x7f, 0x80, 0xff}[r.Intn(4)]
			}
			c.in["bytes"] = hx(b)
			keep := append([]byte{}, b...)
			v := bigint.FromBytes(b)
			if !bytes.Equal(keep, b) {
				c.fail("vmint:decode-modified-input", "")
			}
			want := refIntFromBytes(b)
			if v.Cmp(want) != 0 {
				c.fail("vmint:decode-differs-from-reference", fmt.Sprintf("%s vs %s", v, want))
			}
			enc := bigint.ToBytes(v)
			if !refIsMinimal(enc) {
				c.fail("vmint:encoding-not-minimal", hx(enc))
			}
			if len(enc) > 0 && bigint.FromBytes(enc).Cmp(v) != 0 {
				c.fail("vmint:roundtrip", fmt.Sprintf("%s -> %x", v, enc))
			}
			run.Obs("vmint_decodings", 1)
			return fmt.Sprintf("decode:len=%d:minimal=%v:neg=%v", l, refIsMinimal(b), v.Sign() < 0), true
		}
		v, cls := genVMInt(r)
		c.in["value"] = v.String()
		keep := new(big.Int).Set(v)
		enc := bigint.ToBytes(v)
		c.in["encoding"] = hx(enc)
		if v.Cmp(keep) != 0 || v.String() != keep.String() {
			c.fail("vmint:encode-modified-argument", fmt.Sprintf("%s became %s", keep, v))
		}
		want := refIntToBytes(keep)
		if !bytes.Equal(enc, want) {
			c.fail("vmint:encoding-differs-from-reference", fmt.Sprintf("%x vs %x", enc, want))
		}
		if !refIsMinimal(enc) {
			c.fail("vmint:encoding-not-minimal", hx(enc))
		}
		if len(enc) > 0 {
			if back := bigint.FromBytes(enc); back.Cmp(keep) != 0 {
				c.fail("vmint:roundtrip", fmt.Sprintf("%s -> %x -> %s", keep, enc, back))
			}
		} else if keep.Sign() != 0 {
			c.fail("vmint:roundtrip", "non-zero encoded as empty")
		} else if bigint.FromBytes([]byte{}).Sign() != 0 {
			c.fail("vmint:roundtrip", "empty does not decode to zero")
		}
		// sign-extended forms decode to the same value
		pad := byte(0)
		if keep.Sign() < 0 {
			pad = 0xff
		}
		ext := append(append([]byte{}, want...), bytes.Repeat([]byte{pad}, 1+r.Intn(9))...)
		if back := bigint.FromBytes(ext); back.Cmp(keep) != 0 {
			c.fail("vmint:sign-extended-form-decodes-differently", fmt.Sprintf("%x -> %s want %s", ext, back, keep))
		}
		// preallocated buffers of every relation to the needed size
		for _, cp := range []int{0, len(want) - 1, len(want), len(want) + 1, 32, 64} {
			if cp < 0 {
				continue
			}
			buf := bytes.Repeat([]byte{0xa5}, cp)[:0]
			if got := bigint.ToPreallocatedBytes(v, buf); !bytes.Equal(got, want) {
				c.fail("vmint:preallocated-encoding-differs", fmt.Sprintf("cap=%d %x vs %x", cp, got, want))
			}
		}
		if v.Cmp(keep) != 0 {
			c.fail("vmint:encode-modified-argument", fmt.Sprintf("%s became %s", keep, v))
		}
		run.Obs("vmint_inversions", 1)
		// the VM's integer item
		inRange := keep.Cmp(vmMax) <= 0 && keep.Cmp(vmMin) >= 0 // the range check itself belongs to C13
		if inRange && stackitem.CheckIntegerSize(keep) == nil {
			it := stackitem.NewBigInteger(new(big.Int).Set(keep))
			if b := it.Bytes(); !bytes.Equal(b, want) {
				c.fail("vmint:stackitem-bytes-differ", fmt.Sprintf("%x vs %x", b, want))
			}
			ser, err := stackitem.Serialize(it)
			if err != nil || !bytes.Equal(ser, append([]byte{byte(stackitem.IntegerT), byte(len(want))}, want...)) {
				c.fail("vmint:serialized-item-not-minimal", fmt.Sprintf("%x err=%v", ser, err))
			} else if d, err := stackitem.Deserialize(ser); err != nil || d.Type() != stackitem.IntegerT || d.Value().(*big.Int).Cmp(keep) != 0 {
				c.fail("vmint:serialized-item-roundtrip", fmt.Sprint(err))
			}
			run.Obs("vmint_stackitems", 1)
		}
		return fmt.Sprintf("%s:neg=%v:len=%d", cls, keep.Sign() < 0, len(want)), true
	})
}

func merkleSizes() []int {
	var s []int
	for n := 0; n <= 33; n++ {
		s = append(s, n)
	}
	s = append(s, 34, 47, 48, 49, 63, 64, 65, 100, 127, 128, 129, 255, 256, 257)
	if ev.Tier() == "thorough" {
		s = append(s, 511, 512, 513, 1000, 1023, 1024, 1025, 4097)
	}
	return s
}

func merkleFamily(run *ev.Run, reps int) {
	sizes := merkleSizes()
	family(run, "merkle", len(sizes)*reps, func(c *tc, i int) (string, bool) {
		r := rng.New(sMerkle + uint64(i))
		n := sizes[i%len(sizes)]
		variant := []string{"random", "all-equal", "duplicates", "structured"}[(i/len(sizes))%4]
		leaves := make([][32]byte, n)
		for j := range leaves {
			switch variant {
			case "random":
				copy(leaves[j][:], r.Bytes(32))
			case "all-equal":
				leaves[j] = [32]byte{1, 2, 3}
			case "duplicates":
				leaves[j] = [32]byte{byte(r.Intn(3))}
			default:
				b, _ := genHashBytes(r, 32)
				copy(leaves[j][:], b)
			}
		}
		c.in["leaves"] = n
		c.in["variant"] = variant
		c.in["stream"] = i
		hs := make([]util.Uint256, n)
		for j := range hs {
			hs[j] = util.Uint256(leaves[j])
		}
		if n == 0 {
			// the recursive definition says nothing about the empty list: both
			// entry points are only required not to panic
			if hash.CalcMerkleRoot(hs) == (util.Uint256{}) {
				run.Obs("merkle_empty_list_root_is_zero", 1)
			}
			if _, err := hash.NewMerkleTree(hs); err != nil {
				run.Obs("merkle_empty_list_tree_refused", 1)
			}
			return "n=0", false
		}
		want := util.Uint256(refMerkle(leaves))
		tree, err := hash.NewMerkleTree(hs)
		if err != nil {
			c.fail("merkle:tree-error", err.Error())
		} else if tree.Root() != want {
			c.fail(fmt.Sprintf("merkle:tree-root-differs-from-recursive-definition:odd-level=%v", hasOddLevel(n)), fmt.Sprintf("n=%d %s vs %s", n, tree.Root().StringBE(), want.StringBE()))
		}
		for j := range hs {
			if hs[j] != util.Uint256(leaves[j]) {
				c.fail("merkle:tree-modified-input", "")
				break
			}
		}
		if got := hash.CalcMerkleRoot(append([]util.Uint256{}, hs...)); got != want {
			c.fail(fmt.Sprintf("merkle:scratch-root-differs-from-recursive-definition:odd-level=%v", hasOddLevel(n)), fmt.Sprintf("n=%d %s vs %s", n, got.StringBE(), want.StringBE()))
		}
		run.Obs("merkle_roots_compared", 2)
		if hasOddLevel(n) {
			run.Obs("merkle_lists_with_odd_level", 1)
		}
		return fmt.Sprintf("n=%d:%s", n, variant), n > 1
	})
}

// hasOddLevel says whether some level above the root has an odd number of
// nodes (so that a node is paired with itself).
func hasOddLevel(n int) bool {
	for n > 1 {
		if n%2 == 1 {
			return true
		}
		n = (n + 1) / 2
	}
	return false
}

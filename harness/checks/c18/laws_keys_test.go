package c18

import (
	"bytes"
	"crypto/aes"
	"crypto/ecdh"
	"crypto/ecdsa"
	"crypto/elliptic"
	"crypto/sha256"
	"crypto/x509"
	"encoding/asn1"
	"encoding/binary"
	"encoding/json"
	"fmt"
	"math/big"
	"strings"

	"github.com/decred/dcrd/dcrec/secp256k1/v4"
	"github.com/nspcc-dev/neo-go/pkg/crypto/keys"
	"github.com/nspcc-dev/neo-go/pkg/encoding/address"
	"github.com/nspcc-dev/neo-go/pkg/io"
	"github.com/nspcc-dev/neo-go/pkg/smartcontract/scparser"
	"github.com/nspcc-dev/neo-go/pkg/util"
	"github.com/nspcc-dev/neo-go/verifharness/vlib/ev"
	"github.com/nspcc-dev/neo-go/verifharness/vlib/rng"
	"golang.org/x/crypto/ripemd160"
	"golang.org/x/crypto/scrypt"
	"golang.org/x/text/unicode/norm"
)

// genD returns a boundary-biased private scalar in [1, n-1] and its class.
func genD(r *rng.R, n *big.Int) (*big.Int, string) {
	one := big.NewInt(1)
	nm1 := new(big.Int).Sub(n, one)
	fix := func(v *big.Int) *big.Int {
		v.Mod(v, nm1)
		return v.Add(v, one)
	}
	switch r.Intn(10) {
	case 0:
		return big.NewInt(int64(1 + r.Intn(16))), "small"
	case 1:
		return new(big.Int).Sub(nm1, big.NewInt(int64(r.Intn(16)))), "order-minus-small"
	case 2:
		v := new(big.Int).Lsh(one, uint(1+r.Intn(255)))
		v.Add(v, big.NewInt(int64(r.Intn(3)-1)))
		return fix(v), "power-of-two"
	case 3:
		z := 1 + r.Intn(31)
		return fix(new(big.Int).SetBytes(r.Bytes(32 - z))), "leading-zero-bytes"
	case 4:
		v := new(big.Int).Lsh(one, uint(8*(1+r.Intn(31))))
		v.Sub(v, one)
		return fix(v), "all-ones"
	default:
		return fix(new(big.Int).SetBytes(r.Bytes(40))), "random"
	}
}

func genMsg(r *rng.R) ([]byte, string) {
	switch r.Intn(6) {
	case 0:
		return []byte{}, "empty"
	case 1:
		return make([]byte, 1+r.Intn(70)), "zeros"
	case 2:
		return r.Bytes(55 + r.Intn(12)), "sha-block-edge"
	default:
		return r.Bytes(1 + r.Intn(200)), "random"
	}
}

func syscallID(name string) uint32 {
	h := sha256.Sum256([]byte(name))
	return binary.LittleEndian.Uint32(h[:4])
}

// refSigScript is the N3 single-signature verification script written by hand:
// PUSHDATA1 33 <key> SYSCALL System.Crypto.CheckSig.
func refSigScript(key33 []byte) []byte {
	s := []byte{0x0c, 33}
	s = append(s, key33...)
	s = append(s, 0x41)
	return binary.LittleEndian.AppendUint32(s, syscallID("System.Crypto.CheckSig"))
}

// refHash160 is RIPEMD-160 of SHA-256, from x/crypto and the standard library.
func refHash160(b []byte) (u util.Uint160) {
	h := sha256.Sum256(b)
	rm := ripemd160.New()
	rm.Write(h[:])
	copy(u[:], rm.Sum(nil))
	return u
}

func derSig(r, s *big.Int) []byte {
	b, err := asn1.Marshal(struct{ R, S *big.Int }{r, s})
	if err != nil {
		panic(err)
	}
	return b
}

type alteration struct {
	kind string
	sig  []byte
}

// alterations returns signatures derived from a valid one that must not verify.
func alterations(r *rng.R, sig []byte, order *big.Int) []alteration {
	cp := func() []byte { return append([]byte{}, sig...) }
	var out []alteration
	a := cp()
	a[r.Intn(32)] ^= 1 << uint(r.Intn(8))
	out = append(out, alteration{"bit-flip-in-r", a})
	a = cp()
	a[32+r.Intn(32)] ^= 1 << uint(r.Intn(8))
	out = append(out, alteration{"bit-flip-in-s", a})
	a = cp()
	copy(a[:32], sig[32:])
	copy(a[32:], sig[:32])
	out = append(out, alteration{"r-s-swapped", a})
	a = cp()
	clear(a[:32])
	out = append(out, alteration{"r-zero", a})
	a = cp()
	clear(a[32:])
	out = append(out, alteration{"s-zero", a})
	a = cp()
	order.FillBytes(a[:32])
	out = append(out, alteration{"r-equals-order", a})
	a = cp()
	order.FillBytes(a[32:])
	out = append(out, alteration{"s-equals-order", a})
	out = append(out, alteration{"truncated-63", cp()[:63]})
	out = append(out, alteration{"extended-65", append(cp(), 0)})
	out = append(out, alteration{"leading-zero-prepended-65", append([]byte{0}, cp()...)})
	out = append(out, alteration{"empty", []byte{}})
	return out
}

// signLaws evaluates the sign/verify clauses for one key and message on either
// curve. stdPub is the key as crypto/ecdsa sees it, decoded by the standard
// library from the compressed encoding; ref is the textbook curve (deep only).
func signLaws(c *tc, r *rng.R, priv, other *keys.PrivateKey, stdPub *ecdsa.PublicKey, ref *wcurve, deep bool) {
	run := c.run
	pub := priv.PublicKey()
	msg, _ := genMsg(r)
	c.in["msg"] = hx(msg)
	h := sha256.Sum256(msg)
	sig := priv.Sign(msg)
	c.in["sig"] = hx(sig)
	if len(sig) != keys.SignatureLen {
		c.fail("sign:signature-length", fmt.Sprintf("len=%d", len(sig)))
		return
	}
	if !bytes.Equal(priv.SignHash(h), sig) {
		c.fail("sign:Sign-differs-from-SignHash-of-sha256", "Sign(msg) != SignHash(sha256(msg))")
	}
	for range 2 {
		if !bytes.Equal(priv.Sign(msg), sig) {
			c.fail("sign:not-reproducible", "two signatures of the same message by the same key differ")
		}
	}
	run.Obs("signatures_reproduced", 1)
	if !pub.Verify(sig, h[:]) {
		c.fail("verify:rejects-own-signature", "Verify(Sign(m), sha256(m)) is false")
	}
	rr, ss := new(big.Int).SetBytes(sig[:32]), new(big.Int).SetBytes(sig[32:])
	if !ecdsa.VerifyASN1(stdPub, h[:], derSig(rr, ss)) {
		c.fail("sign:stdlib-verifier-rejects", "crypto/ecdsa.VerifyASN1 rejects the signature")
	}
	run.Obs("verified_by_stdlib_ecdsa", 1)
	if deep {
		q := pt{x: stdPub.X, y: stdPub.Y}
		if !ref.verify(q, h[:], rr, ss) {
			c.fail("sign:textbook-verifier-rejects", "math/big ECDSA verification rejects the signature")
		}
		run.Obs("verified_by_textbook_ecdsa", 1)
		r2, s2 := ref.rfc6979Sign(priv.D, h[:])
		if r2.Cmp(rr) == 0 && s2.Cmp(ss) == 0 {
			run.Obs("equal_to_independent_rfc6979", 1)
		} else {
			run.Obs("differs_from_independent_rfc6979", 1) // observation only: the property demands reproducibility
		}
	}
	// negative cases
	for _, a := range alterations(r, sig, ref.n) {
		got := pub.Verify(a.sig, h[:])
		if got {
			c.in["altered"] = hx(a.sig)
			c.fail("verify:accepts-altered-signature:"+a.kind, "altered signature accepted")
		}
		if len(a.sig) == 64 {
			std := ecdsa.VerifyASN1(stdPub, h[:], derSig(new(big.Int).SetBytes(a.sig[:32]), new(big.Int).SetBytes(a.sig[32:])))
			if std != got {
				c.in["altered"] = hx(a.sig)
				c.fail("verify:disagrees-with-stdlib:"+a.kind, fmt.Sprintf("neo-go=%v crypto/ecdsa=%v", got, std))
			}
		}
		run.Obs("altered_signatures_rejected", 1)
	}
	h2 := h
	h2[r.Intn(32)] ^= 1 << uint(r.Intn(8))
	if pub.Verify(sig, h2[:]) {
		c.fail("verify:accepts-other-message", "signature accepted for a different hash")
	}
	if len(msg) > 0 {
		m2 := append([]byte{}, msg...)
		m2[r.Intn(len(m2))] ^= 1 << uint(r.Intn(8))
		hh := sha256.Sum256(m2)
		if pub.Verify(sig, hh[:]) {
			c.fail("verify:accepts-other-message", "signature accepted for a different message")
		}
	}
	if other.PublicKey().Verify(sig, h[:]) {
		c.fail("verify:accepts-other-key", "signature accepted under a different key")
	}
	if pub.Verify(other.Sign(msg), h[:]) {
		c.fail("verify:accepts-other-key", "another key's signature accepted")
	}
	run.Obs("other_key_or_message_rejected", 3)
	// network-bound signing of a hashable item: the signed data are the magic
	// (4 bytes LE) followed by the item hash
	var hh hashable
	copy(hh[:], r.Bytes(32))
	net := r.Uint32()
	nd := sha256.Sum256(append(binary.LittleEndian.AppendUint32(nil, net), hh[:]...))
	hs := priv.SignHashable(net, hh)
	if !bytes.Equal(hs, priv.SignHash(nd)) {
		c.fail("sign:SignHashable-differs-from-SignHash-of-network-digest", "")
	}
	if !pub.VerifyHashable(hs, net, hh) || !pub.Verify(hs, nd[:]) {
		c.fail("verify:rejects-own-signature", "VerifyHashable(SignHashable) is false")
	}
	if pub.VerifyHashable(hs, net+1, hh) {
		c.fail("verify:accepts-other-message", "signature accepted for another network magic")
	}
}

type hashable util.Uint256

func (h hashable) Hash() util.Uint256 { return util.Uint256(h) }

func keyFamily(run *ev.Run, n int) {
	curve := elliptic.P256()
	family(run, "key", n, func(c *tc, i int) (string, bool) {
		r := rng.New(sKey + uint64(i))
		d, dclass := genD(r, refP256.n)
		deep := i%ev.Pick(8, 32) == 0 // textbook-curve references are costly
		hunt := r.Intn(12) == 0
		var priv *keys.PrivateKey
		var db []byte
		for {
			db = d.FillBytes(make([]byte, 32))
			var err error
			priv, err = keys.NewPrivateKeyFromBytes(db)
			if err != nil {
				c.fail("privkey:valid-scalar-rejected", err.Error())
				return dclass, true
			}
			if !hunt || priv.X.BitLen() <= 248 || priv.Y.BitLen() <= 248 || d.Cmp(new(big.Int).Sub(refP256.n, big.NewInt(2))) >= 0 {
				break
			}
			d.Add(d, big.NewInt(1)) // look for a coordinate with a leading zero byte
		}
		c.in["d"] = hx(db)
		pub := priv.PublicKey()
		lead := pub.X.BitLen() <= 248 || pub.Y.BitLen() <= 248
		if lead {
			run.Obs("keys_with_leading_zero_coordinate", 1)
			dclass += "+coord-leading-zero"
		}
		// private key codecs
		if !bytes.Equal(priv.Bytes(), db) {
			c.fail("privkey:bytes-roundtrip", "Bytes() != input")
		}
		if p2, err := keys.NewPrivateKeyFromHex(priv.String()); err != nil || p2.D.Cmp(d) != 0 {
			c.fail("privkey:hex-roundtrip", fmt.Sprint(err))
		}
		// public key derivation against crypto/ecdh and (deep) the textbook curve
		ek, err := ecdh.P256().NewPrivateKey(db)
		if err != nil {
			c.fail("harness:ecdh", err.Error())
			return dclass, true
		}
		unc := ek.PublicKey().Bytes()
		if !bytes.Equal(pub.UncompressedBytes(), unc) {
			c.fail("pubkey:differs-from-crypto-ecdh", fmt.Sprintf("neo-go %x ecdh %x", pub.UncompressedBytes(), unc))
		}
		if deep {
			q := refP256.mul(d, refP256.base())
			if q.inf || q.x.Cmp(pub.X) != 0 || q.y.Cmp(pub.Y) != 0 {
				c.fail("pubkey:differs-from-textbook-scalar-multiplication", "d*G differs")
			}
			run.Obs("pubkeys_checked_by_textbook_curve", 1)
		}
		// encodings against crypto/elliptic
		comp := pub.Bytes()
		if want := elliptic.MarshalCompressed(curve, pub.X, pub.Y); !bytes.Equal(comp, want) {
			c.fail("pubkey:compressed-encoding-differs-from-stdlib", fmt.Sprintf("%x vs %x", comp, want))
		}
		for _, enc := range [][]byte{comp, pub.UncompressedBytes()} {
			kind := "compressed"
			if len(enc) == 65 {
				kind = "uncompressed"
			}
			p2, err := keys.NewPublicKeyFromBytes(enc, curve)
			if err != nil || !p2.Equal(pub) || p2.X.Cmp(pub.X) != 0 || p2.Y.Cmp(pub.Y) != 0 {
				c.fail("pubkey:decode-"+kind+"-roundtrip", fmt.Sprint(err))
			}
			p3 := new(keys.PublicKey)
			if err := p3.DecodeBytes(enc); err != nil || !p3.Equal(pub) {
				c.fail("pubkey:decode-"+kind+"-roundtrip", fmt.Sprint("DecodeBytes: ", err))
			}
		}
		sx, sy := elliptic.UnmarshalCompressed(curve, comp)
		if sx == nil || sx.Cmp(pub.X) != 0 || sy.Cmp(pub.Y) != 0 {
			c.fail("pubkey:stdlib-cannot-decode-compressed", "elliptic.UnmarshalCompressed disagrees")
			return dclass, true
		}
		stdPub := &ecdsa.PublicKey{Curve: curve, X: sx, Y: sy}
		if p2, err := keys.NewPublicKeyFromString(pub.StringCompressed()); err != nil || !p2.Equal(pub) {
			c.fail("pubkey:string-roundtrip", fmt.Sprint(err))
		}
		if js, err := json.Marshal(pub); err != nil {
			c.fail("pubkey:json-roundtrip", err.Error())
		} else {
			p2 := new(keys.PublicKey)
			if err := json.Unmarshal(js, p2); err != nil || !p2.Equal(pub) {
				c.fail("pubkey:json-roundtrip", fmt.Sprint(string(js), err))
			}
		}
		bw := io.NewBufBinWriter()
		pub.EncodeBinary(bw.BinWriter)
		p4 := new(keys.PublicKey)
		br := io.NewBinReaderFromBuf(bw.Bytes())
		p4.DecodeBinary(br)
		if br.Err != nil || !p4.Equal(pub) || br.Len() != 0 {
			c.fail("pubkey:binary-roundtrip", fmt.Sprint(br.Err))
		}
		if der, err := x509.MarshalPKIXPublicKey(stdPub); err == nil {
			if p2, err := keys.NewPublicKeyFromASN1(der); err != nil || !p2.Equal(pub) {
				c.fail("pubkey:asn1-roundtrip", fmt.Sprint(err))
			}
		}
		run.Obs("pubkey_codec_inversions", 8)
		// WIF
		wif := priv.WIF()
		if want := refCheckEnc(append(append([]byte{0x80}, db...), 0x01)); wif != want {
			c.fail("wif:encoding-differs-from-reference", wif+" vs "+want)
		}
		if p2, err := keys.NewPrivateKeyFromWIF(wif); err != nil || p2.D.Cmp(d) != 0 {
			c.fail("wif:roundtrip", fmt.Sprint(err))
		}
		ver := byte(r.Intn(256))
		compressed := r.Bool()
		ws, err := keys.WIFEncode(db, ver, compressed)
		if err != nil {
			c.fail("wif:roundtrip", err.Error())
		} else {
			c.in["wif"] = ws
			w, err := keys.WIFDecode(ws, ver)
			if err != nil || w.PrivateKey.D.Cmp(d) != 0 || w.Compressed != compressed || w.S != ws {
				c.fail("wif:roundtrip", fmt.Sprintf("version=%d compressed=%v err=%v", ver, compressed, err))
			}
			effVer := ver
			if effVer == 0 {
				effVer = keys.WIFVersion
			}
			payload := append([]byte{effVer}, db...)
			if compressed {
				payload = append(payload, 1)
			}
			if want := refCheckEnc(payload); ws != want {
				c.fail("wif:encoding-differs-from-reference", ws+" vs "+want)
			}
		}
		run.Obs("wif_inversions", 2)
		// verification script, script hash, address
		vs := pub.GetVerificationScript()
		if want := refSigScript(comp); !bytes.Equal(vs, want) {
			c.fail("verification-script:differs-from-reference", fmt.Sprintf("%x vs %x", vs, want))
		}
		if k, ok := scparser.ParseSignatureContract(vs); !ok || !bytes.Equal(k, comp) {
			c.fail("verification-script:parser-does-not-recover-key", fmt.Sprintf("ok=%v key=%x", ok, k))
		}
		if !scparser.IsSignatureContract(vs) || scparser.IsMultiSigContract(vs) || !scparser.IsStandardContract(vs) {
			c.fail("verification-script:classification", "Is*Contract wrong for a signature contract")
		}
		sh := pub.GetScriptHash()
		if want := refHash160(vs); sh != want || priv.GetScriptHash() != want {
			c.fail("scripthash:differs-from-hash160-of-script", sh.StringLE())
		}
		addr := pub.Address()
		if want := refCheckEnc(append([]byte{0x35}, sh.BytesBE()...)); addr != want || priv.Address() != want {
			c.fail("address:encoding-differs-from-reference", addr+" vs "+want)
		}
		if u, err := address.StringToUint160(addr); err != nil || u != sh {
			c.fail("address:roundtrip", fmt.Sprint(err))
		}
		run.Obs("address_inversions", 1)
		// signatures
		d2, _ := genD(r, refP256.n)
		if d2.Cmp(d) == 0 {
			d2.Add(d2, big.NewInt(1))
			d2.Mod(d2, refP256.n)
		}
		if r.Intn(3) == 0 { // a neighbouring key
			d2 = new(big.Int).Add(d, big.NewInt(1))
			if d2.Cmp(refP256.n) >= 0 {
				d2 = new(big.Int).Sub(d, big.NewInt(1))
			}
		}
		other, err := keys.NewPrivateKeyFromBytes(d2.FillBytes(make([]byte, 32)))
		if err != nil {
			c.fail("privkey:valid-scalar-rejected", err.Error())
			return dclass, true
		}
		signLaws(c, r, priv, other, stdPub, refP256, deep)
		// the same key rebuilt from its WIF signs identically
		if p2, err := keys.NewPrivateKeyFromWIF(wif); err == nil {
			m := []byte("reproducible")
			if !bytes.Equal(p2.Sign(m), priv.Sign(m)) {
				c.fail("sign:not-reproducible", "key rebuilt from WIF signs differently")
			}
		}
		return fmt.Sprintf("%s:deep=%v", dclass, deep), true
	})
}

// k1Family: the same laws for keys on secp256k1 (Koblitz branch of the point
// decompression), with the textbook curve as the only independent reference
// for derivation.
func k1Family(run *ev.Run, n int) {
	curve := secp256k1.S256()
	family(run, "k1", n, func(c *tc, i int) (string, bool) {
		r := rng.New(sK1 + uint64(i))
		d, dclass := genD(r, refK256.n)
		c.in["d"] = hx(d.Bytes())
		q := refK256.mul(d, refK256.base())
		mk := func(d *big.Int, q pt) *keys.PrivateKey {
			return &keys.PrivateKey{PrivateKey: ecdsa.PrivateKey{PublicKey: ecdsa.PublicKey{Curve: curve, X: q.x, Y: q.y}, D: d}}
		}
		priv := mk(d, q)
		pub := priv.PublicKey()
		if !curve.IsOnCurve(q.x, q.y) {
			c.fail("harness:k1-point", "textbook point not on the library curve")
			return dclass, true
		}
		comp := pub.Bytes()
		want := append([]byte{2 + byte(q.y.Bit(0))}, q.x.FillBytes(make([]byte, 32))...)
		if !bytes.Equal(comp, want) {
			c.fail("pubkey:k1-compressed-encoding", fmt.Sprintf("%x vs %x", comp, want))
		}
		for _, enc := range [][]byte{comp, pub.UncompressedBytes()} {
			p2, err := keys.NewPublicKeyFromBytes(enc, curve)
			if err != nil || p2.X.Cmp(q.x) != 0 || p2.Y.Cmp(q.y) != 0 {
				c.fail(fmt.Sprintf("pubkey:k1-decode-roundtrip:len%d", len(enc)), fmt.Sprint(err))
			}
		}
		run.Obs("pubkey_codec_inversions", 2)
		d2 := new(big.Int).Add(d, big.NewInt(1))
		if d2.Cmp(refK256.n) >= 0 {
			d2 = new(big.Int).Sub(d, big.NewInt(1))
		}
		other := mk(d2, refK256.mul(d2, refK256.base()))
		stdPub := &ecdsa.PublicKey{Curve: curve, X: q.x, Y: q.y}
		signLaws(c, r, priv, other, stdPub, refK256, true)
		return dclass, true
	})
}

// refNEP2 is NEP-2 written from the standard: scrypt(NFC(pass), addresshash),
// AES-256-ECB of key XOR derivedhalf1 under derivedhalf2, Base58Check.
func refNEP2(priv32 []byte, addr string, pass string, N, R, P int) (string, error) {
	ah := refSha256d([]byte(addr))
	dk, err := scrypt.Key(norm.NFC.Bytes([]byte(pass)), ah[:4], N, R, P, 64)
	if err != nil {
		return "", err
	}
	x := make([]byte, 32)
	for i := range x {
		x[i] = priv32[i] ^ dk[i]
	}
	blk, err := aes.NewCipher(dk[32:])
	if err != nil {
		return "", err
	}
	enc := make([]byte, 32)
	blk.Encrypt(enc[:16], x[:16])
	blk.Encrypt(enc[16:], x[16:])
	out := append([]byte{0x01, 0x42, 0xe0}, ah[:4]...)
	return refCheckEnc(append(out, enc...)), nil
}

var passphrases = []string{"", "a", "Satoshi", "\u043f\u0430\u0440\u043e\u043b\u044c", "\u5bc6\u7801", "pass word", "\x00", "\u00e9", "e\u0301", "\u03a9", "\u2126", "\ufb01", "\U0001F600", "TestingOneTwoThree", "\u1e9b\u0323"}

func nep2Family(run *ev.Run, nLight, nStd int) {
	family(run, "nep2", nLight+nStd, func(c *tc, i int) (string, bool) {
		r := rng.New(sNEP2 + uint64(i))
		d, dclass := genD(r, refP256.n)
		db := d.FillBytes(make([]byte, 32))
		c.in["d"] = hx(db)
		params := keys.ScryptParams{N: 2 << uint(r.Intn(4)), R: 1 + r.Intn(2), P: 1 + r.Intn(2)}
		cls := "light"
		if i >= nLight {
			params = keys.NEP2ScryptParams()
			cls = "standard"
		}
		var pass string
		if r.Bool() {
			pass = passphrases[r.Intn(len(passphrases))]
		} else {
			pass = string(r.Bytes(r.Intn(20))) // arbitrary bytes, not necessarily UTF-8
			if !norm.NFC.IsNormalString(pass) || r.Bool() {
				pass = fmt.Sprintf("%x", pass)
			}
		}
		c.in["pass"] = hx([]byte(pass))
		c.in["scrypt"] = fmt.Sprint(params)
		priv, err := keys.NewPrivateKeyFromBytes(db)
		if err != nil {
			c.fail("privkey:valid-scalar-rejected", err.Error())
			return cls, true
		}
		enc, err := keys.NEP2Encrypt(priv, pass, params)
		if err != nil {
			c.fail("nep2:encrypt-error", err.Error())
			return cls, true
		}
		c.in["nep2"] = enc
		if want, err := refNEP2(db, priv.Address(), pass, params.N, params.R, params.P); err != nil {
			run.Inconclusive("reference NEP-2 failed: %v", err)
		} else if want != enc {
			c.fail("nep2:encoding-differs-from-reference", enc+" vs "+want)
		}
		back, err := keys.NEP2Decrypt(enc, pass, params)
		if err != nil || back.D.Cmp(d) != 0 {
			c.fail("nep2:roundtrip", fmt.Sprint(err))
		}
		run.Obs("nep2_inversions", 1)
		// a different passphrase must be refused (an undetected wrong key has
		// probability 2^-32 per attempt)
		wrongs := []string{pass + "x", "x" + pass, pass + " "}
		if len(pass) > 0 {
			b := []byte(pass)
			if b[0] < 0x7f && b[0] >= 0x20 {
				b[0] ^= 1
				if norm.NFC.String(string(b)) != norm.NFC.String(pass) {
					wrongs = append(wrongs, string(b))
				}
			}
			wrongs = append(wrongs, "")
		}
		// HMAC (inside scrypt's PBKDF2) pads its key with zero bytes, so
		// passphrases that differ only in trailing NULs are the same key
		sameKey := func(a, b string) bool {
			return strings.TrimRight(norm.NFC.String(a), "\x00") == strings.TrimRight(norm.NFC.String(b), "\x00")
		}
		for _, w := range wrongs[:1+r.Intn(len(wrongs))] {
			if sameKey(w, pass) {
				continue
			}
			if k, err := keys.NEP2Decrypt(enc, w, params); err == nil {
				c.in["wrong_pass"] = hx([]byte(w))
				c.fail("nep2:wrong-passphrase-accepted", fmt.Sprintf("decrypted to %x", k.Bytes()))
			}
			run.Obs("nep2_wrong_passphrase_refused", 1)
		}
		// NFC-equivalent spellings are the same passphrase
		if alt := norm.NFD.String(pass); alt != pass && norm.NFC.String(alt) == norm.NFC.String(pass) {
			if k, err := keys.NEP2Decrypt(enc, alt, params); err != nil || k.D.Cmp(d) != 0 {
				c.fail("nep2:nfc-equivalent-passphrase-refused", fmt.Sprint(err))
			}
			run.Obs("nep2_nfc_equivalent_accepted", 1)
		}
		return cls + ":" + dclass, true
	})
}

package c18

import (
	"crypto/elliptic"
	"crypto/sha256"
	"fmt"
	"runtime"
	"sort"
	"strings"

	"github.com/nspcc-dev/neo-go/internal/fakechain"
	"github.com/nspcc-dev/neo-go/pkg/config"
	"github.com/nspcc-dev/neo-go/pkg/core/dao"
	"github.com/nspcc-dev/neo-go/pkg/core/interop"
	icrypto "github.com/nspcc-dev/neo-go/pkg/core/interop/crypto"
	"github.com/nspcc-dev/neo-go/pkg/core/native"
	"github.com/nspcc-dev/neo-go/pkg/core/storage"
	"github.com/nspcc-dev/neo-go/pkg/core/transaction"
	"github.com/nspcc-dev/neo-go/pkg/crypto/hash"
	"github.com/nspcc-dev/neo-go/pkg/crypto/keys"
	"github.com/nspcc-dev/neo-go/pkg/io"
	"github.com/nspcc-dev/neo-go/pkg/smartcontract"
	"github.com/nspcc-dev/neo-go/pkg/smartcontract/callflag"
	"github.com/nspcc-dev/neo-go/pkg/smartcontract/trigger"
	"github.com/nspcc-dev/neo-go/pkg/util"
	"github.com/nspcc-dev/neo-go/pkg/vm"
	"github.com/nspcc-dev/neo-go/pkg/vm/emit"
	"github.com/nspcc-dev/neo-go/pkg/vm/vmstate"
	"github.com/nspcc-dev/neo-go/verifharness/vlib/ev"
	"github.com/nspcc-dev/neo-go/verifharness/vlib/rng"
)

// seqMatch is the sequential in-order rule: signature i must be valid for some
// key, and the keys used must be strictly increasing in position. Greedy
// earliest matching decides it exactly.
func seqMatch(m, n int, valid func(i, j int) bool) bool {
	if m < 1 || m > n {
		return false
	}
	i := 0
	for j := 0; j < n && i < m; j++ {
		if valid(i, j) {
			i++
		}
	}
	return i == m
}

// bruteMatch decides the same predicate by trying every increasing assignment
// (used to validate the greedy rule itself on small cases).
func bruteMatch(m, n int, valid func(i, j int) bool) bool {
	var rec func(i, from int) bool
	rec = func(i, from int) bool {
		if i == m {
			return true
		}
		for j := from; j < n; j++ {
			if valid(i, j) && rec(i+1, j+1) {
				return true
			}
		}
		return false
	}
	return m >= 1 && m <= n && rec(0, 0)
}

const (
	msPool = 8 // keys in the pool; index msPool.. denote kinds of invalid signature
)

var badKinds = []string{"zero", "short-63", "long-65", "other-message", "bit-flip", "foreign-key"}

// msCase is one m-of-n configuration. sigOwner[i] is the pool index of the key
// that made signature i, or -1-k for invalid kind k.
type msCase struct {
	id       string
	keyIdx   []int
	sigOwner []int
	msg      int
	shape    string
	want     bool
	got      []bool
}

type msFixture struct {
	pool    []*keys.PrivateKey
	pubs    [][]byte
	hashes  [][]byte
	sigOf   [][][]byte // [msg][key]
	foreign [][]byte   // [msg] signature of a key outside the pool
}

func newMSFixture() *msFixture {
	f := &msFixture{pool: keyPool(sMultisig-1, msPool+1)}
	for _, k := range f.pool[:msPool] {
		f.pubs = append(f.pubs, k.PublicKey().Bytes())
	}
	for m := 0; m < 4; m++ {
		h := sha256.Sum256([]byte(fmt.Sprint("multisig message ", m)))
		f.hashes = append(f.hashes, h[:])
		var row [][]byte
		for _, k := range f.pool[:msPool] {
			row = append(row, k.SignHash(h))
		}
		f.sigOf = append(f.sigOf, row)
		f.foreign = append(f.foreign, f.pool[msPool].SignHash(h))
	}
	return f
}

func (f *msFixture) sigBytes(c *msCase, i int) []byte {
	o := c.sigOwner[i]
	if o >= 0 {
		return f.sigOf[c.msg][o]
	}
	base := f.sigOf[c.msg][(i+c.msg)%msPool]
	switch badKinds[-1-o] {
	case "zero":
		return make([]byte, 64)
	case "short-63":
		return base[:63]
	case "long-65":
		return append(append([]byte{}, base...), 0)
	case "other-message":
		return f.sigOf[(c.msg+1)%len(f.sigOf)][(i+c.msg)%msPool]
	case "bit-flip":
		b := append([]byte{}, base...)
		b[(i*7+c.msg)%64] ^= 0x10
		return b
	default:
		return f.foreign[c.msg]
	}
}

func (c *msCase) valid(i, j int) bool { return c.sigOwner[i] >= 0 && c.sigOwner[i] == c.keyIdx[j] }

func (c *msCase) describe() map[string]any {
	sigs := make([]string, len(c.sigOwner))
	for i, o := range c.sigOwner {
		if o >= 0 {
			sigs[i] = fmt.Sprint("key", o)
		} else {
			sigs[i] = badKinds[-1-o]
		}
	}
	return map[string]any{"keys": fmt.Sprint(c.keyIdx), "signatures": strings.Join(sigs, ","), "message": c.msg, "expected": c.want}
}

// coverage class of a case: sizes, repetition of keys, kinds of signatures.
func (c *msCase) class() string {
	rep := false
	seen := map[int]bool{}
	for _, k := range c.keyIdx {
		if seen[k] {
			rep = true
		}
		seen[k] = true
	}
	bad := map[string]bool{}
	for _, o := range c.sigOwner {
		if o < 0 {
			bad[badKinds[-1-o]] = true
		}
	}
	var bk []string
	for k := range bad {
		bk = append(bk, k)
	}
	sort.Strings(bk)
	return fmt.Sprintf("%s:n=%d:m=%d:repeated-keys=%v:bad=%s:accept=%v", c.shape, len(c.keyIdx), len(c.sigOwner), rep, strings.Join(bk, "+"), c.want)
}

// exhaustiveCases enumerates, for n keys, every pattern of key repetition
// (restricted growth strings) and every sequence of 1..n signatures over the
// distinct keys plus one invalid signature.
func exhaustiveCases(n int) []*msCase {
	var out []*msCase
	var pat func(pos, maxv int, cur []int)
	pat = func(pos, maxv int, cur []int) {
		if pos == n {
			d := maxv + 1
			for m := 1; m <= n; m++ {
				total := 1
				for range m {
					total *= d + 1
				}
				for code := 0; code < total; code++ {
					c := &msCase{keyIdx: append([]int{}, cur...), shape: "exhaustive"}
					x := code
					for i := 0; i < m; i++ {
						s := x % (d + 1)
						x /= d + 1
						if s == d {
							c.sigOwner = append(c.sigOwner, -1-(len(out)+i)%len(badKinds))
						} else {
							c.sigOwner = append(c.sigOwner, s)
						}
					}
					c.msg = len(out) % 4
					out = append(out, c)
				}
			}
			return
		}
		for v := 0; v <= maxv+1; v++ {
			pat(pos+1, max(maxv, v), append(cur, v))
		}
	}
	pat(0, -1, nil)
	return out
}

func randomCase(r *rng.R) *msCase {
	n := 1 + r.Intn(8)
	if r.Intn(8) == 0 {
		n = 9 + r.Intn(13)
	}
	m := 1 + r.Intn(n)
	c := &msCase{msg: r.Intn(4)}
	distinct := 1 + r.Intn(msPool)
	for j := 0; j < n; j++ {
		c.keyIdx = append(c.keyIdx, r.Intn(distinct))
	}
	if r.Intn(3) == 0 { // sorted distinct keys as a real verification script has
		c.keyIdx = c.keyIdx[:0]
		n = 1 + r.Intn(msPool)
		m = 1 + r.Intn(n)
		for _, k := range r.Perm(msPool)[:n] {
			c.keyIdx = append(c.keyIdx, k)
		}
		sort.Ints(c.keyIdx)
	}
	pos := r.Perm(n)[:m]
	bad := func() int { return -1 - r.Intn(len(badKinds)) }
	switch r.Intn(8) {
	case 0, 1: // valid, in order
		c.shape = "in-order-subset"
		sort.Ints(pos)
		for _, p := range pos {
			c.sigOwner = append(c.sigOwner, c.keyIdx[p])
		}
	case 2: // one signature of a valid set replaced by an invalid one
		c.shape = "one-invalid"
		sort.Ints(pos)
		for _, p := range pos {
			c.sigOwner = append(c.sigOwner, c.keyIdx[p])
		}
		c.sigOwner[r.Intn(m)] = bad()
	case 3: // two neighbours swapped
		c.shape = "two-swapped"
		sort.Ints(pos)
		for _, p := range pos {
			c.sigOwner = append(c.sigOwner, c.keyIdx[p])
		}
		if m > 1 {
			k := r.Intn(m - 1)
			c.sigOwner[k], c.sigOwner[k+1] = c.sigOwner[k+1], c.sigOwner[k]
		}
	case 4: // arbitrary order
		c.shape = "shuffled"
		for _, p := range pos {
			c.sigOwner = append(c.sigOwner, c.keyIdx[p])
		}
	case 5: // the same signature several times
		c.shape = "repeated-signature"
		for i := 0; i < m; i++ {
			c.sigOwner = append(c.sigOwner, c.keyIdx[pos[i/2]])
		}
	case 6: // arbitrary signatures of pool keys, some invalid
		c.shape = "arbitrary"
		for i := 0; i < m; i++ {
			if r.Intn(5) == 0 {
				c.sigOwner = append(c.sigOwner, bad())
			} else {
				c.sigOwner = append(c.sigOwner, r.Intn(msPool))
			}
		}
	default: // all invalid, or valid only at the very ends
		c.shape = "ends"
		for i := 0; i < m; i++ {
			c.sigOwner = append(c.sigOwner, bad())
		}
		if r.Bool() {
			c.sigOwner[0] = c.keyIdx[0]
		}
		if r.Bool() {
			c.sigOwner[m-1] = c.keyIdx[n-1]
		}
	}
	return c
}

func multisigRule() string {
	return "multisig: m-of-n configurations over a pool of 8 keys — every key-repetition pattern and every signature sequence (valid, invalid) for n<=4 (thorough n<=5), plus seeded random configurations (n<=21; in-order subsets, one invalid, swapped, shuffled, repeated signature, arbitrary, valid only at the ends; invalid = zero / 63 / 65 bytes / other message / bit flip / foreign key) — each answered by vm.CheckMultisigPar once per round, rounds run on all workers with GOMAXPROCS varied, and compared with a sequential in-order matcher over ground-truth validity; plus witness-level cases (CreateMultiSigRedeemScript + invocation script executed through System.Crypto.CheckMultisig). A case is distinct by (generator, n, m, repeated keys, invalid kinds, expected answer) and non-trivial if it reached the parallel matcher (m>=2) or the VM syscall"
}

func runMultisig(run *ev.Run) {
	run.Assume("multisig: which signature is valid for which key is known from how the case was built (and cross-checked once with PublicKey.Verify); the reference is the greedy in-order matcher, itself validated against brute-force assignment on every case with n<=6")
	run.Assume("multisig: scheduling is varied only through GOMAXPROCS, contention between parallel cases and the different cost of valid / malformed signatures; races are decided by the Go race detector on this build")
	f := newMSFixture()
	var cases []*msCase
	for n := 1; n <= ev.Pick(4, 5); n++ {
		cases = append(cases, exhaustiveCases(n)...)
	}
	nEx := len(cases)
	for i := 0; i < ev.Pick(4000, 40000); i++ {
		cases = append(cases, randomCase(rng.New(sMultisig+uint64(i))))
	}
	for i, c := range cases {
		if i < nEx {
			c.id = fmt.Sprintf("msex/%d", i)
		} else {
			c.id = fmt.Sprintf("msrand/%d", i-nEx)
		}
		m, n := len(c.sigOwner), len(c.keyIdx)
		c.want = seqMatch(m, n, c.valid)
		if n <= 6 && bruteMatch(m, n, c.valid) != c.want {
			run.Inconclusive("harness: greedy reference disagrees with brute force on %v", c.describe())
			return
		}
	}
	run.Obs("multisig_exhaustive_cases", int64(nEx))
	procs := []int{runtime.NumCPU(), 1, 2, 3, 4, 7}
	if ev.Tier() == "thorough" {
		procs = append(procs, 16, 2)
	}
	old := runtime.GOMAXPROCS(0)
	defer runtime.GOMAXPROCS(old)
	curve := elliptic.P256()
	for round, p := range procs {
		runtime.GOMAXPROCS(p)
		parallel(len(cases), func(i int) {
			c := cases[i]
			if !run.Want(c.id) {
				return
			}
			m, n := len(c.sigOwner), len(c.keyIdx)
			if c.shape == "exhaustive" && n >= 5 && p < 4 && i%3 != p-1 {
				return // the large enumeration takes one of the three slow rounds, and every fast one
			}
			pk := make([][]byte, n)
			for j := range pk {
				pk[j] = f.pubs[c.keyIdx[j]]
			}
			sg := make([][]byte, m)
			for j := range sg {
				sg[j] = f.sigBytes(c, j)
			}
			if round == 0 { // ground truth against the verifier
				for a := 0; a < m; a++ {
					for b := 0; b < n; b++ {
						if f.pool[c.keyIdx[b]].PublicKey().Verify(sg[a], f.hashes[c.msg]) != c.valid(a, b) {
							run.Violation("multisig:verify-disagrees-with-construction", c.id, fmt.Sprintf("signature %d key %d", a, b), c.describe())
						}
					}
				}
			}
			var got bool
			var pan any
			func() {
				defer func() { pan = recover() }()
				got = vm.CheckMultisigPar(curve, f.hashes[c.msg], pk, sg)
			}()
			if pan != nil {
				run.Violation("multisig:panic-in-parallel-matcher", c.id, fmt.Sprint(pan), c.describe())
			}
			c.got = append(c.got, got) // one writer per case and round; rounds are separated by the pool's barrier
			run.Obs("multisig_evaluations", 1)
		})
	}
	runtime.GOMAXPROCS(old)
	run.Obs("multisig_rounds", int64(len(procs)))
	run.Note("multisig_gomaxprocs_per_round", fmt.Sprint(procs))
	samples := 0
	for _, c := range cases {
		if !run.Want(c.id) {
			continue
		}
		nt := len(c.sigOwner) >= 2
		run.Case("multisig:"+c.class(), nt)
		if c.want {
			run.Obs("multisig_cases_expected_accept", 1)
		} else {
			run.Obs("multisig_cases_expected_reject", 1)
		}
		if nt && samples < 2 && c.shape != "exhaustive" {
			samples++
			d := c.describe()
			d["case"] = c.id
			d["answers"] = fmt.Sprint(c.got)
			run.Sample(d)
		}
		stable := true
		for _, g := range c.got {
			if g != c.got[0] {
				stable = false
			}
		}
		w := c.describe()
		w["answers_per_round"] = fmt.Sprint(c.got)
		w["gomaxprocs_per_round"] = fmt.Sprint(procs)
		if !stable {
			run.Violation("multisig:answer-differs-between-repetitions", c.id, fmt.Sprint(c.got), w)
			continue
		}
		if len(c.got) > 0 && c.got[0] != c.want {
			kind := "accepts-unmatchable-signatures"
			if c.want {
				kind = "rejects-matchable-signatures"
			}
			run.Violation("multisig:parallel-matcher-"+kind, c.id, fmt.Sprintf("expected %v got %v", c.want, c.got[0]), w)
		}
	}
	runMultisigVM(run, f)
}

// runMultisigVM executes real witnesses: verification script from the builder,
// invocation script pushing the signatures, System.Crypto.CheckMultisig.
func runMultisigVM(run *ev.Run, f *msFixture) {
	tx := transaction.New([]byte{0x11}, 0)
	tx.Signers = []transaction.Signer{{Account: util.Uint160{1, 2, 3}}}
	tx.Scripts = []transaction.Witness{{}}
	chain := fakechain.NewFakeChain()
	net := uint32(chain.GetConfig().Magic)
	h := hash.NetSha256(net, tx)
	other := sha256.Sum256([]byte("another container"))
	sigOf := make([][]byte, msPool+1)
	sigOther := make([][]byte, msPool+1)
	for k, p := range f.pool {
		sigOf[k] = p.SignHash(h)
		sigOther[k] = p.SignHash(other)
	}
	// pool positions in the order the builder sorts the keys
	order := make([]int, msPool)
	for i := range order {
		order[i] = i
	}
	sort.Slice(order, func(a, b int) bool { return f.pool[order[a]].PublicKey().Cmp(f.pool[order[b]].PublicKey()) < 0 })
	rank := make([]int, msPool)
	for pos, k := range order {
		rank[k] = pos
	}
	n := ev.Pick(1200, 12000)
	family(run, "witness", n, func(c *tc, i int) (string, bool) {
		r := rng.New(sMSVM + uint64(i))
		mc := randomCase(r)
		gorgon := r.Bool()
		// the builder sorts the keys: the verification script holds them in
		// ascending order, repeated keys adjacent
		sortedKeys := append([]int{}, mc.keyIdx...)
		sort.Slice(sortedKeys, func(a, b int) bool { return rank[sortedKeys[a]] < rank[sortedKeys[b]] })
		mc.keyIdx = sortedKeys
		m, nk := len(mc.sigOwner), len(mc.keyIdx)
		pubs := make(keys.PublicKeys, nk)
		for j, k := range r.Perm(nk) { // handed to the builder in arbitrary order
			pubs[j] = f.pool[sortedKeys[k]].PublicKey()
		}
		c.in = mc.describe()
		c.in["gorgon"] = gorgon
		verif, err := smartcontract.CreateMultiSigRedeemScript(m, pubs)
		if err != nil {
			c.fail("multisig-script:builder-error", err.Error())
			return "", true
		}
		malformed := false
		w := io.NewBufBinWriter()
		for a := 0; a < m; a++ {
			var s []byte
			if o := mc.sigOwner[a]; o >= 0 {
				s = sigOf[o]
			} else {
				base := sigOf[(a+i)%msPool]
				switch badKinds[-1-o] {
				case "zero":
					s = make([]byte, 64)
				case "short-63":
					s, malformed = base[:63], true
				case "long-65":
					s, malformed = append(append([]byte{}, base...), 0), true
				case "other-message":
					s = sigOther[(a+i)%msPool]
				case "bit-flip":
					s = append([]byte{}, base...)
					s[(a*7+i)%64] ^= 0x10
				default:
					s = sigOf[msPool]
				}
			}
			emit.Bytes(w.BinWriter, s)
		}
		inv := w.Bytes()
		c.in["verification"] = hx(verif)
		c.in["invocation"] = hx(inv)
		want := seqMatch(m, nk, mc.valid)
		mc.want = want
		var answers []string
		for rep := 0; rep < 3; rep++ {
			ic := interop.NewContext(trigger.Verification, chain, dao.NewSimple(storage.NewMemoryStore(), false),
				interop.DefaultBaseExecFee*vm.ExecFeeFactorMultiplier, native.DefaultStoragePrice*vm.ExecFeeFactorMultiplier, nil, nil, nil, nil, tx, nil)
			ic.Container = tx
			ic.Functions = icrypto.Interops
			if gorgon {
				ic.Hardforks = map[string]uint32{config.HFGorgon.String(): 0}
			}
			v := ic.SpawnVM()
			v.LoadScriptWithFlags(verif, callflag.ReadOnly)
			v.LoadScript(inv)
			err := v.Run()
			ans := "fault"
			if err == nil && v.State() == vmstate.Halt && v.Estack().Len() == 1 {
				if v.Estack().Pop().Bool() {
					ans = "true"
				} else {
					ans = "false"
				}
			}
			answers = append(answers, ans)
			c.run.Obs("witness_executions", 1)
		}
		c.in["answers"] = fmt.Sprint(answers)
		for _, a := range answers[1:] {
			if a != answers[0] {
				c.fail("witness:answer-differs-between-repetitions", fmt.Sprint(answers))
				return mc.class(), true
			}
		}
		accepted := answers[0] == "true"
		if accepted != want {
			kind := "accepts-unmatchable-signatures"
			if want {
				kind = "rejects-matchable-signatures"
			}
			c.fail("witness:"+kind, fmt.Sprintf("expected accept=%v, VM answered %s", want, answers[0]))
		}
		if answers[0] == "fault" {
			c.run.Obs("witness_faults", 1)
			if gorgon && malformed {
				c.run.Obs("witness_faults_on_malformed_signature_length", 1)
			}
		}
		return fmt.Sprintf("%s:gorgon=%v:%s", mc.class(), gorgon, answers[0]), true
	})
}

package c18

import (
	"bytes"
	"encoding/binary"
	"fmt"
	"math/big"
	"sort"

	"github.com/nspcc-dev/neo-go/pkg/crypto/keys"
	"github.com/nspcc-dev/neo-go/pkg/io"
	"github.com/nspcc-dev/neo-go/pkg/smartcontract"
	"github.com/nspcc-dev/neo-go/pkg/smartcontract/callflag"
	"github.com/nspcc-dev/neo-go/pkg/smartcontract/scparser"
	"github.com/nspcc-dev/neo-go/pkg/util"
	"github.com/nspcc-dev/neo-go/pkg/vm"
	"github.com/nspcc-dev/neo-go/pkg/vm/emit"
	"github.com/nspcc-dev/neo-go/pkg/vm/opcode"
	"github.com/nspcc-dev/neo-go/pkg/vm/stackitem"
	"github.com/nspcc-dev/neo-go/verifharness/vlib/ev"
	"github.com/nspcc-dev/neo-go/verifharness/vlib/rng"
)

// val is a value handed to the script builder.
type val struct {
	kind byte // i(nt) b(ytes) t(bool) n(ull) a(rray) s(truct) m(ap)
	i    *big.Int
	b    []byte
	t    bool
	arr  []*val // elements; for a map: k0 v0 k1 v1 ...
}

func (v *val) String() string {
	switch v.kind {
	case 'i':
		return v.i.String()
	case 'b':
		return "0x" + hx(v.b)
	case 't':
		return fmt.Sprint(v.t)
	case 'n':
		return "null"
	}
	s := string(v.kind) + "["
	for j, e := range v.arr {
		if j > 0 {
			s += ","
		}
		s += e.String()
	}
	return s + "]"
}

func (v *val) shape() string {
	switch v.kind {
	case 'i':
		return fmt.Sprintf("i%d", len(refIntToBytes(v.i)))
	case 'b':
		switch l := len(v.b); {
		case l < 0x100:
			return "b1"
		case l < 0x10000:
			return "b2"
		default:
			return "b4"
		}
	case 'a', 's', 'm':
		s := string(v.kind) + "("
		seen := map[string]bool{}
		for _, e := range v.arr {
			if sh := e.shape(); !seen[sh] {
				seen[sh] = true
				s += sh
			}
		}
		return s + ")"
	}
	return string(v.kind)
}

func genInt(r *rng.R) *val {
	var n *big.Int
	switch r.Intn(5) {
	case 0:
		n = big.NewInt(int64(r.Intn(20) - 2)) // PUSHM1..PUSH16 and just beyond
	case 1:
		n, _ = genVMInt(r)
	default:
		n = r.BigBoundary()
	}
	if n.Cmp(vmMax) > 0 || n.Cmp(vmMin) < 0 { // keep to the VM range; the range check is exercised separately
		n = new(big.Int).Rsh(n, uint(n.BitLen()-250+r.Intn(3)))
	}
	return &val{kind: 'i', i: n}
}

func genBytes(r *rng.R, big bool) *val {
	var l int
	switch r.Intn(12) {
	case 0:
		l = 0
	case 1:
		l = []int{20, 32, 33, 64}[r.Intn(4)]
	case 2:
		l = []int{0xfe, 0xff, 0x100, 0x101}[r.Intn(4)]
	case 3:
		if big {
			l = []int{0xffff, 0x10000, 0x10001}[r.Intn(3)]
		} else {
			l = 1 + r.Intn(40)
		}
	default:
		l = 1 + r.Intn(40)
	}
	return &val{kind: 'b', b: r.Bytes(l)}
}

func genPrimitive(r *rng.R, big bool) *val {
	switch r.Intn(8) {
	case 0:
		return &val{kind: 't', t: r.Bool()}
	case 1:
		return &val{kind: 'n'}
	case 2, 3, 4:
		return genBytes(r, big)
	default:
		return genInt(r)
	}
}

// genVal generates a value tree of at most *budget nodes.
func genVal(r *rng.R, depth int, allowItems bool, budget *int) *val {
	*budget--
	if depth <= 0 || *budget <= 0 || r.Intn(3) > 0 {
		return genPrimitive(r, depth >= 2)
	}
	kind := byte('a')
	if allowItems {
		kind = "aasm"[r.Intn(4)]
	}
	n := []int{0, 1, 2, 3, 5, 16, 17}[r.Intn(7)]
	if r.Intn(40) == 0 {
		n = 255 + r.Intn(3)
	}
	v := &val{kind: kind}
	if kind == 'm' {
		seen := map[string]bool{}
		for j := 0; j < n && *budget > 0; j++ {
			var k *val
			switch r.Intn(3) {
			case 0:
				k = genInt(r)
			case 1:
				k = &val{kind: 'b', b: r.Bytes(r.Intn(34))}
			default:
				k = &val{kind: 't', t: r.Bool()}
			}
			key := mapKeyString(k) // keep keys distinct by content
			if seen[key] {
				continue
			}
			seen[key] = true
			*budget--
			v.arr = append(v.arr, k, genVal(r, depth-1, true, budget))
		}
		return v
	}
	for j := 0; j < n && *budget > 0; j++ {
		// below a struct/map everything is emitted through stack items
		v.arr = append(v.arr, genVal(r, depth-1, allowItems, budget))
	}
	return v
}

func mapKeyString(k *val) string {
	switch k.kind {
	case 'i':
		return "b" + hx(refIntToBytes(k.i)) // integer and byte string keys collide by content in the VM
	case 'b':
		return "b" + hx(k.b)
	default:
		if k.t {
			return "b01"
		}
		return "b00"
	}
}

// itemOf is the stack item the value denotes.
func itemOf(v *val) stackitem.Item {
	switch v.kind {
	case 'i':
		return stackitem.NewBigInteger(new(big.Int).Set(v.i))
	case 'b':
		return stackitem.NewByteArray(v.b)
	case 't':
		return stackitem.NewBool(v.t)
	case 'n':
		return stackitem.Null{}
	case 'a', 's':
		its := make([]stackitem.Item, len(v.arr))
		for j, e := range v.arr {
			its[j] = itemOf(e)
		}
		if v.kind == 'a' {
			return stackitem.NewArray(its)
		}
		return stackitem.NewStruct(its)
	}
	var me []stackitem.MapElement
	for j := 0; j < len(v.arr); j += 2 {
		me = append(me, stackitem.MapElement{Key: itemOf(v.arr[j]), Value: itemOf(v.arr[j+1])})
	}
	return stackitem.NewMapWithValue(me)
}

// anyOf chooses a Go representation accepted by emit.Any for the value.
func anyOf(r *rng.R, v *val) any {
	switch v.kind {
	case 'i':
		n := v.i
		var opts []any
		opts = append(opts, new(big.Int).Set(n), itemOf(v))
		if n.IsInt64() {
			x := n.Int64()
			opts = append(opts, x, x)
			if int64(int(x)) == x {
				opts = append(opts, int(x))
			}
			if int64(int32(x)) == x {
				opts = append(opts, int32(x))
			}
			if int64(int16(x)) == x {
				opts = append(opts, int16(x))
			}
			if int64(int8(x)) == x {
				opts = append(opts, int8(x))
			}
			if x >= 0 && x <= 0xffffffff {
				opts = append(opts, uint32(x))
			}
			if x >= 0 && x <= 0xffff {
				opts = append(opts, uint16(x))
			}
			if x >= 0 && x <= 0xff {
				opts = append(opts, uint8(x))
			}
		}
		if n.IsUint64() {
			opts = append(opts, n.Uint64(), uint(n.Uint64()))
		}
		return opts[r.Intn(len(opts))]
	case 'b':
		opts := []any{v.b, string(v.b), itemOf(v), stackitem.NewBuffer(v.b)}
		if len(v.b) == 20 {
			u := util.Uint160(v.b)
			opts = append(opts, u, &u)
		}
		if len(v.b) == 32 {
			u := util.Uint256(v.b)
			opts = append(opts, u, &u)
		}
		return opts[r.Intn(len(opts))]
	case 't':
		if r.Bool() {
			return v.t
		}
		return itemOf(v)
	case 'n':
		switch r.Intn(4) {
		case 0:
			return nil
		case 1:
			return (*util.Uint160)(nil)
		case 2:
			return (*util.Uint256)(nil)
		}
		return itemOf(v)
	case 'a':
		if r.Intn(4) == 0 {
			return itemOf(v)
		}
		out := make([]any, len(v.arr))
		for j, e := range v.arr {
			out[j] = anyOf(r, e)
		}
		return out
	}
	return itemOf(v)
}

// matchInstr compares a parsed primitive instruction with the value it should
// push; it returns a description of the first difference.
func matchInstr(in scparser.Instruction, v *val) string {
	switch v.kind {
	case 'i':
		n, err := scparser.GetBigIntFromInstr(in)
		if err != nil {
			return "GetBigIntFromInstr: " + err.Error()
		}
		if n.Cmp(v.i) != 0 {
			return fmt.Sprintf("integer %s recovered as %s", v.i, n)
		}
		x, err := scparser.GetInt64FromInstr(in)
		if v.i.IsInt64() {
			if err != nil || x != v.i.Int64() {
				return fmt.Sprintf("GetInt64FromInstr(%s) = %d, %v", v.i, x, err)
			}
		} else if err == nil {
			return fmt.Sprintf("GetInt64FromInstr(%s) = %d without error", v.i, x)
		}
	case 'b':
		b, err := scparser.GetBytesFromInstr(in)
		if err != nil {
			return "GetBytesFromInstr: " + err.Error()
		}
		if !bytes.Equal(b, v.b) {
			return fmt.Sprintf("bytes %x recovered as %x", v.b, b)
		}
		if s, err := scparser.GetStringFromInstr(in); err != nil || s != string(v.b) {
			return "GetStringFromInstr differs"
		}
		if len(v.b) == 20 {
			if u, err := scparser.GetUint160FromInstr(in); err != nil || !bytes.Equal(u.BytesBE(), v.b) {
				return fmt.Sprint("GetUint160FromInstr: ", err)
			}
		}
		if len(v.b) == 32 {
			if u, err := scparser.GetUint256FromInstr(in); err != nil || !bytes.Equal(u.BytesBE(), v.b) {
				return fmt.Sprint("GetUint256FromInstr: ", err)
			}
		}
		if len(v.b) == 64 {
			if s, err := scparser.GetSignatureFromInstr(in); err != nil || !bytes.Equal(s, v.b) {
				return fmt.Sprint("GetSignatureFromInstr: ", err)
			}
		}
	case 't':
		t, err := scparser.GetBoolFromInstr(in)
		if err != nil || t != v.t {
			return fmt.Sprintf("bool %v recovered as %v, %v", v.t, t, err)
		}
		if in.Op != opcode.PUSHT && in.Op != opcode.PUSHF {
			return "bool not pushed by PUSHT/PUSHF"
		}
	case 'n':
		if in.Op != opcode.PUSHNULL {
			return "null not pushed by PUSHNULL"
		}
	default:
		return "primitive expected"
	}
	return ""
}

func matchPushed(p scparser.PushedItem, v *val) string {
	switch v.kind {
	case 'a', 's':
		if !p.IsList() || p.IsMap() {
			return fmt.Sprintf("%c not recovered as a list (op %s)", v.kind, p.Op)
		}
		wantOps := []opcode.Opcode{opcode.PACK, opcode.NEWARRAY0}
		if v.kind == 's' {
			wantOps = []opcode.Opcode{opcode.PACKSTRUCT, opcode.NEWSTRUCT0}
		}
		if p.Op != wantOps[0] && !(len(v.arr) == 0 && p.Op == wantOps[1]) {
			return fmt.Sprintf("%c built by %s", v.kind, p.Op)
		}
		if len(p.List) != len(v.arr) {
			return fmt.Sprintf("list of %d recovered with %d elements", len(v.arr), len(p.List))
		}
		for j := range v.arr {
			if d := matchPushed(p.List[j], v.arr[j]); d != "" {
				return fmt.Sprintf("[%d]: %s", j, d)
			}
		}
		return ""
	case 'm':
		if !p.IsMap() || p.Op != opcode.PACKMAP {
			return fmt.Sprintf("map not recovered as a map (op %s)", p.Op)
		}
		if len(p.Map) != len(v.arr)/2 {
			return fmt.Sprintf("map of %d recovered with %d pairs", len(v.arr)/2, len(p.Map))
		}
		for j := range p.Map {
			if d := matchInstr(p.Map[j].Key, v.arr[2*j]); d != "" {
				return fmt.Sprintf("key %d: %s", j, d)
			}
			if d := matchPushed(p.Map[j].Value, v.arr[2*j+1]); d != "" {
				return fmt.Sprintf("value %d: %s", j, d)
			}
		}
		return ""
	}
	if p.IsNested() {
		return "primitive recovered as nested"
	}
	if v.kind == 'n' && !p.IsNull() {
		return "IsNull false for PUSHNULL"
	}
	return matchInstr(p.Instruction, v)
}

// matchItem compares the item the VM computed with the value.
func matchItem(it stackitem.Item, v *val) string {
	switch v.kind {
	case 'i':
		if it.Type() != stackitem.IntegerT || it.Value().(*big.Int).Cmp(v.i) != 0 {
			return fmt.Sprintf("integer %s executed as %s %v", v.i, it.Type(), it.Value())
		}
	case 'b':
		if it.Type() != stackitem.ByteArrayT || !bytes.Equal(it.Value().([]byte), v.b) {
			return fmt.Sprintf("bytes %x executed as %s", v.b, it.Type())
		}
	case 't':
		if it.Type() != stackitem.BooleanT || it.Value().(bool) != v.t {
			return "bool executed differently"
		}
	case 'n':
		if it.Type() != stackitem.AnyT {
			return "null executed as " + it.Type().String()
		}
	case 'a', 's':
		want := stackitem.ArrayT
		if v.kind == 's' {
			want = stackitem.StructT
		}
		if it.Type() != want {
			return fmt.Sprintf("%c executed as %s", v.kind, it.Type())
		}
		arr := it.Value().([]stackitem.Item)
		if len(arr) != len(v.arr) {
			return fmt.Sprintf("list of %d executed with %d elements", len(v.arr), len(arr))
		}
		for j := range arr {
			if d := matchItem(arr[j], v.arr[j]); d != "" {
				return fmt.Sprintf("[%d]: %s", j, d)
			}
		}
	case 'm':
		if it.Type() != stackitem.MapT {
			return "map executed as " + it.Type().String()
		}
		me := it.Value().([]stackitem.MapElement)
		if len(me) != len(v.arr)/2 {
			return fmt.Sprintf("map of %d executed with %d pairs", len(v.arr)/2, len(me))
		}
		for j := range me {
			if d := matchItem(me[j].Key, v.arr[2*j]); d != "" {
				return fmt.Sprintf("key %d: %s", j, d)
			}
			if d := matchItem(me[j].Value, v.arr[2*j+1]); d != "" {
				return fmt.Sprintf("value %d: %s", j, d)
			}
		}
	}
	return ""
}

func runScript(script []byte) (stackitem.Item, error) {
	v := vm.New()
	v.LoadScript(script)
	if err := v.Run(); err != nil {
		return nil, err
	}
	if v.Estack().Len() != 1 {
		return nil, fmt.Errorf("%d items on the stack", v.Estack().Len())
	}
	return v.Estack().Pop().Item(), nil
}

func genMethod(r *rng.R) string {
	switch r.Intn(4) {
	case 0:
		return "transfer"
	case 1:
		return string([]rune{rune('a' + r.Intn(26)), 0x43f, 0x5bc6})
	default:
		b := make([]byte, 1+r.Intn(32))
		for j := range b {
			b[j] = byte('a' + r.Intn(26))
		}
		return string(b)
	}
}

func scriptFamily(run *ev.Run, n int) {
	family(run, "script", n, func(c *tc, i int) (string, bool) {
		r := rng.New(sScript + uint64(i))
		switch i % 4 {
		case 0, 1: // one value through emit.Any, recovered by the parser and by the VM
			budget := 600
			v := genVal(r, 3, i%4 == 1, &budget)
			c.in["value"] = v.String()
			w := io.NewBufBinWriter()
			emit.Any(w.BinWriter, anyOf(r, v))
			if w.Err != nil {
				c.fail("script:builder-error", w.Err.Error())
				return "any", true
			}
			script := w.Bytes()
			c.in["script"] = hx(script)
			items, err := scparser.ParseSomething(script, true)
			if err != nil || len(items) != 1 {
				c.fail("script:parser-rejects-built-script:"+string(v.kind), fmt.Sprintf("items=%d err=%v", len(items), err))
			} else if d := matchPushed(items[0], v); d != "" {
				c.fail("script:parser-recovers-different-value:"+string(v.kind), d)
			}
			if it, err := runScript(script); err != nil {
				c.fail("script:vm-rejects-built-script:"+string(v.kind), err.Error())
			} else if d := matchItem(it, v); d != "" {
				c.fail("script:vm-computes-different-value:"+string(v.kind), d)
			}
			run.Obs("script_values_recovered", 1)
			return "any:" + v.shape(), true
		case 2: // a contract call with arguments
			var args []*val
			for j := r.Intn(6); j > 0; j-- {
				budget := 300
				args = append(args, genVal(r, 2, false, &budget))
			}
			av := &val{kind: 'a', arr: args}
			var h util.Uint160
			copy(h[:], r.Bytes(20))
			method := genMethod(r)
			flags := callflag.CallFlag(r.Intn(int(callflag.All) + 1))
			c.in["call"] = fmt.Sprintf("%s.%s(%s) flags=%d", h.StringLE(), method, av, flags)
			anyArgs := make([]any, len(args))
			for j, a := range args {
				anyArgs[j] = anyOf(r, a)
			}
			w := io.NewBufBinWriter()
			emit.AppCall(w.BinWriter, h, method, flags, anyArgs...)
			withAssert := r.Bool()
			if withAssert {
				emit.Opcodes(w.BinWriter, opcode.ASSERT)
			}
			if w.Err != nil {
				c.fail("script:builder-error", w.Err.Error())
				return "call", true
			}
			script := w.Bytes()
			c.in["script"] = hx(script)
			var (
				h2    util.Uint160
				m2    string
				f2    callflag.CallFlag
				list  []scparser.PushedItem
				perr  error
				which = "ParseAppCall"
			)
			if withAssert {
				which = "ParseAppCallWithASSERT"
				h2, m2, f2, list, perr = scparser.ParseAppCallWithASSERT(script, r.Bool())
			} else {
				h2, m2, f2, list, perr = scparser.ParseAppCall(script)
			}
			if perr != nil {
				c.fail("script:parser-rejects-built-call", which+": "+perr.Error())
			} else {
				if h2 != h || m2 != method || f2 != flags {
					c.fail("script:parser-recovers-different-call-target", fmt.Sprintf("%s.%s flags=%d", h2.StringLE(), m2, f2))
				}
				if d := matchPushed(scparser.PushedItem{Instruction: scparser.Instruction{Op: opOfList(len(args))}, List: nonNil(list)}, av); d != "" {
					c.fail("script:parser-recovers-different-call-arguments", d)
				}
			}
			run.Obs("script_calls_recovered", 1)
			return fmt.Sprintf("call:%s:assert=%v", av.shape(), withAssert), true
		default: // NEP-17 transfer
			var token, from, to util.Uint160
			copy(token[:], r.Bytes(20))
			copy(from[:], r.Bytes(20))
			copy(to[:], r.Bytes(20))
			amount := genInt(r)
			budget := 300
			data := genVal(r, 2, false, &budget)
			c.in["transfer"] = fmt.Sprintf("%s: %s -> %s amount=%s data=%s", token.StringLE(), from.StringLE(), to.StringLE(), amount, data)
			w := io.NewBufBinWriter()
			emit.AppCall(w.BinWriter, token, "transfer", callflag.All, from, to, anyOf(r, amount), anyOf(r, data))
			withAssert := r.Bool()
			if withAssert {
				emit.Opcodes(w.BinWriter, opcode.ASSERT)
			}
			script := w.Bytes()
			c.in["script"] = hx(script)
			t2, f2, to2, a2, d2, err := scparser.ParseNEP17Transfer(script)
			if err != nil {
				c.fail("script:parser-rejects-built-nep17-transfer", err.Error())
			} else {
				if t2 != token || f2 != from || to2 != to || a2.Cmp(amount.i) != 0 {
					c.fail("script:parser-recovers-different-nep17-transfer", fmt.Sprintf("%s: %s -> %s amount=%s", t2.StringLE(), f2.StringLE(), to2.StringLE(), a2))
				}
				if d := matchPushed(d2, data); d != "" {
					c.fail("script:parser-recovers-different-nep17-data", d)
				}
			}
			run.Obs("script_transfers_recovered", 1)
			return fmt.Sprintf("nep17:%s:%s:assert=%v", amount.shape(), data.shape(), withAssert), true
		}
	})
}

func opOfList(n int) opcode.Opcode {
	if n == 0 {
		return opcode.NEWARRAY0
	}
	return opcode.PACK
}

func nonNil(l []scparser.PushedItem) []scparser.PushedItem {
	if l == nil {
		return []scparser.PushedItem{}
	}
	return l
}

// refMultisigScript writes the m-of-n verification script by hand.
func refMultisigScript(m int, sorted [][]byte) []byte {
	pushInt := func(s []byte, v int) []byte {
		switch {
		case v < 16: // neo-go's builder keeps PUSH16 unused and writes 16 as PUSHINT8
			return append(s, byte(0x10+v))
		case v < 0x80:
			return append(s, 0x00, byte(v))
		default:
			return append(s, 0x01, byte(v), byte(v>>8))
		}
	}
	s := pushInt(nil, m)
	for _, k := range sorted {
		s = append(s, 0x0c, byte(len(k)))
		s = append(s, k...)
	}
	s = pushInt(s, len(sorted))
	s = append(s, 0x41)
	return binary.LittleEndian.AppendUint32(s, syscallID("System.Crypto.CheckMultisig"))
}

// keyPool is a deterministic set of keys shared by the multisig families.
func keyPool(stream uint64, n int) []*keys.PrivateKey {
	r := rng.New(stream)
	out := make([]*keys.PrivateKey, 0, n)
	seen := map[string]bool{}
	for len(out) < n {
		d, _ := genD(r, refP256.n)
		if seen[d.String()] { // the multisig oracles identify a key by its pool index
			continue
		}
		seen[d.String()] = true
		p, err := keys.NewPrivateKeyFromBytes(d.FillBytes(make([]byte, 32)))
		if err != nil {
			panic(err)
		}
		out = append(out, p)
	}
	return out
}

func msScriptFamily(run *ev.Run, n int) {
	pool := keyPool(sMSScript-1, 64)
	family(run, "msscript", n, func(c *tc, i int) (string, bool) {
		r := rng.New(sMSScript + uint64(i))
		nk := 1 + r.Intn(8)
		switch r.Intn(10) {
		case 0:
			nk = 16 + r.Intn(6)
		case 1:
			nk = []int{127, 128, 129}[r.Intn(3)] // count no longer fits PUSHINT8
			if ev.Tier() != "thorough" && r.Intn(4) > 0 {
				nk = 17 + r.Intn(20)
			}
		}
		m := 1 + r.Intn(nk)
		if r.Intn(4) == 0 {
			m = []int{1, nk, nk - (nk-1)/3, nk - (nk-1)/2}[r.Intn(4)]
		}
		pubs := make(keys.PublicKeys, nk)
		raw := make([][]byte, nk)
		repeat := r.Intn(5) == 0
		for j := range pubs {
			k := pool[r.Intn(len(pool))]
			if repeat && j > 0 && r.Intn(3) == 0 {
				pubs[j] = pubs[r.Intn(j)]
			} else {
				pubs[j] = k.PublicKey()
			}
			raw[j] = pubs[j].Bytes()
		}
		c.in["m"] = m
		c.in["keys"] = fmt.Sprintf("%x", raw)
		script, err := smartcontract.CreateMultiSigRedeemScript(m, pubs.Copy())
		if err != nil {
			c.fail("multisig-script:builder-error", err.Error())
			return "", true
		}
		c.in["script"] = hx(script)
		// expected key order: ascending by X then Y
		sorted := append([][]byte{}, raw...)
		sort.SliceStable(sorted, func(a, b int) bool {
			if x := bytes.Compare(sorted[a][1:], sorted[b][1:]); x != 0 {
				return x < 0
			}
			pa, _ := keys.NewPublicKeyFromBytes(sorted[a], pubs[0].Curve)
			pb, _ := keys.NewPublicKeyFromBytes(sorted[b], pubs[0].Curve)
			return pa.Y.Cmp(pb.Y) < 0
		})
		if want := refMultisigScript(m, sorted); !bytes.Equal(script, want) {
			c.fail("multisig-script:differs-from-reference", fmt.Sprintf("%x vs %x", script, want))
		}
		m2, ks, ok := scparser.ParseMultiSigContract(script)
		if !ok {
			c.fail("multisig-script:parser-rejects-built-script", fmt.Sprintf("m=%d n=%d", m, nk))
		} else {
			if m2 != m || len(ks) != nk {
				c.fail("multisig-script:parser-recovers-different-counts", fmt.Sprintf("m=%d n=%d recovered m=%d n=%d", m, nk, m2, len(ks)))
			} else {
				for j := range ks {
					if !bytes.Equal(ks[j], sorted[j]) {
						c.fail("multisig-script:parser-recovers-different-keys", fmt.Sprintf("position %d", j))
						break
					}
				}
			}
		}
		if !scparser.IsMultiSigContract(script) || scparser.IsSignatureContract(script) || !scparser.IsStandardContract(script) {
			c.fail("multisig-script:classification", "")
		}
		// the default and majority builders: the parser recovers the keys and a threshold within 1..n
		for _, build := range []func(keys.PublicKeys) ([]byte, error){smartcontract.CreateDefaultMultiSigRedeemScript, smartcontract.CreateMajorityMultiSigRedeemScript} {
			if s2, err := build(pubs.Copy()); err == nil {
				if mm, k2, ok := scparser.ParseMultiSigContract(s2); !ok || mm < 1 || mm > nk || len(k2) != nk {
					c.fail("multisig-script:parser-rejects-built-script", fmt.Sprintf("default/majority builder: n=%d recovered m=%d n=%d ok=%v", nk, mm, len(k2), ok))
				}
			}
		}
		// the key-list codec
		var back keys.PublicKeys
		if err := back.DecodeBytes(pubs.Bytes()); err != nil || len(back) != nk {
			c.fail("pubkey-list:binary-roundtrip", fmt.Sprint(err))
		} else {
			for j := range back {
				if !back[j].Equal(pubs[j]) {
					c.fail("pubkey-list:binary-roundtrip", fmt.Sprintf("position %d", j))
					break
				}
			}
		}
		// the single-signature builder of emit
		w := io.NewBufBinWriter()
		emit.CheckSig(w.BinWriter, raw[0])
		cs := w.Bytes()
		if k, ok := scparser.ParseSignatureContract(cs); !ok || !bytes.Equal(k, raw[0]) || !bytes.Equal(cs, refSigScript(raw[0])) {
			c.fail("verification-script:emit-checksig-not-recovered", "")
		}
		run.Obs("multisig_scripts_recovered", 1)
		enc := "pushN"
		if nk > 16 {
			enc = "int8"
		}
		if nk > 127 {
			enc = "int16"
		}
		return fmt.Sprintf("n=%s:m=%s:repeat=%v", enc, map[bool]string{true: "n", false: "lt-n"}[m == nk], repeat), true
	})
}

package c18

// History-dependent laws of public-key decoding. keys.NewPublicKeyFromBytes
// keeps a process-wide LRU keyed by the encoded bytes only, while the same 33
// bytes denote different keys on secp256r1 and secp256k1. A case is therefore
// a *history*: the same encodings decoded on both curves in both orders,
// repeatedly, interleaved with other keys (cache warm, or evicted by more than
// its 1024 entries), and after every single decode the result must be the key
// of the requested curve — curve, X, Y (computed here with math/big from the
// curve equation), re-encoding — and must verify a signature made by the
// matching private key.

import (
	"bytes"
	"crypto/ecdsa"
	"crypto/elliptic"
	"crypto/sha256"
	"fmt"
	"math/big"
	"sync"

	"github.com/decred/dcrd/dcrec/secp256k1/v4"
	"github.com/nspcc-dev/neo-go/pkg/crypto/keys"
	"github.com/nspcc-dev/neo-go/pkg/smartcontract/scparser"
	"github.com/nspcc-dev/neo-go/pkg/vm/opcode"
	"github.com/nspcc-dev/neo-go/verifharness/vlib/ev"
	"github.com/nspcc-dev/neo-go/verifharness/vlib/rng"
)

const sKeyCache = 14 << 32

// liftX returns the y of the given parity with (x, y) on the reference curve,
// or nil when x is not the abscissa of a point.
func (c *wcurve) liftX(x *big.Int, odd uint) *big.Int {
	if x.Cmp(c.p) >= 0 {
		return nil
	}
	r := new(big.Int).Mul(x, x)
	r.Mul(r, x)
	r.Add(r, new(big.Int).Mul(c.a, x))
	r.Add(r, c.b)
	r.Mod(r, c.p)
	y := new(big.Int).ModSqrt(r, c.p)
	if y == nil {
		return nil
	}
	if y.Bit(0) != odd {
		y.Sub(c.p, y)
	}
	return y
}

// dualKey is a private key on one curve whose compressed public encoding is
// also a valid point encoding on the other curve.
type dualKey struct {
	ownerK1 bool
	priv    *keys.PrivateKey
	enc     []byte
	x       *big.Int
	y       [2]*big.Int // expected Y on [0] secp256r1, [1] secp256k1
	msg     []byte
	sig     []byte
}

func genDualKey(r *rng.R) *dualKey {
	k1 := secp256k1.S256()
	ownerK1 := r.Bool()
	ord := refP256.n
	if ownerK1 {
		ord = refK256.n
	}
	d, _ := genD(r, ord)
	for {
		if d.Cmp(ord) >= 0 {
			d = big.NewInt(1)
		}
		db := d.FillBytes(make([]byte, 32))
		var priv *keys.PrivateKey
		if ownerK1 {
			x, y := k1.ScalarBaseMult(db)
			priv = &keys.PrivateKey{PrivateKey: ecdsa.PrivateKey{PublicKey: ecdsa.PublicKey{Curve: k1, X: x, Y: y}, D: new(big.Int).Set(d)}}
		} else {
			var err error
			priv, err = keys.NewPrivateKeyFromBytes(db)
			if err != nil {
				panic(err)
			}
		}
		odd := priv.Y.Bit(0)
		yr, yk := refP256.liftX(priv.X, odd), refK256.liftX(priv.X, odd)
		if yr != nil && yk != nil {
			k := &dualKey{ownerK1: ownerK1, priv: priv, x: priv.X, y: [2]*big.Int{yr, yk}}
			k.enc = append([]byte{2 + byte(odd)}, priv.X.FillBytes(make([]byte, 32))...)
			k.msg = r.Bytes(1 + r.Intn(40))
			k.sig = priv.Sign(k.msg)
			return k
		}
		d = new(big.Int).Add(d, big.NewInt(1)) // about every second x lies on the other curve too
	}
}

var (
	fillerOnce sync.Once
	fillerEncs [][]byte
)

// fillers are more distinct valid P-256 encodings than the cache holds.
func fillers() [][]byte {
	fillerOnce.Do(func() {
		r := rng.New(sKeyCache - 1)
		for len(fillerEncs) < 1100 {
			p, err := keys.NewPrivateKeyFromBytes(new(big.Int).SetBytes(append([]byte{1}, r.Bytes(30)...)).FillBytes(make([]byte, 32)))
			if err != nil {
				panic(err)
			}
			fillerEncs = append(fillerEncs, p.PublicKey().Bytes())
		}
	})
	return fillerEncs
}

func keyCacheFamily(run *ev.Run, n int) {
	curves := [2]elliptic.Curve{elliptic.P256(), secp256k1.S256()}
	refs := [2]*wcurve{refP256, refK256}
	names := [2]string{"secp256r1", "secp256k1"}
	family(run, "keycache", n, func(c *tc, i int) (string, bool) {
		r := rng.New(sKeyCache + uint64(i))
		nk := 1 + r.Intn(4)
		ks := make([]*dualKey, nk)
		for j := range ks {
			ks[j] = genDualKey(r)
		}
		var log []string
		c.in["keys"] = func() (o []string) {
			for _, k := range ks {
				o = append(o, fmt.Sprintf("%x owner=%s", k.enc, names[b2i(k.ownerK1)]))
			}
			return
		}()
		evict := r.Intn(ev.Pick(8, 16)) == 0
		lastCurve := make([]int, nk) // 0 = never decoded, else 1+curve of the previous decode
		orders := map[string]bool{}
		var decodes, switches int64
		// check evaluates one decode of key k on curve ci
		check := func(k *dualKey, ki, ci int, via string) bool {
			var got *keys.PublicKey
			var err error
			switch via {
			case "bytes":
				got, err = keys.NewPublicKeyFromBytes(k.enc, curves[ci])
			case "string": // P-256 only entry points
				got, err = keys.NewPublicKeyFromString(fmt.Sprintf("%x", k.enc))
			default:
				got, err = scparser.GetPublicKeyFromInstr(scparser.Instruction{Op: opcode.PUSHDATA1, Param: k.enc})
			}
			prev := "first"
			if lc := lastCurve[ki]; lc != 0 {
				prev = "after-" + names[lc-1]
				if lc-1 != ci {
					switches++
				}
			}
			orders[prev+"->"+names[ci]] = true
			lastCurve[ki] = 1 + ci
			decodes++
			log = append(log, fmt.Sprintf("decode key%d as %s via %s", ki, names[ci], via))
			c.in["history"] = log
			if err != nil {
				c.fail("pubkey:decode-depends-on-history:valid-encoding-refused", fmt.Sprintf("%s: %v", log[len(log)-1], err))
				return false
			}
			okCurve := got.Curve != nil && got.Curve.Params().P.Cmp(refs[ci].p) == 0 && got.Curve.Params().B.Cmp(refs[ci].b) == 0
			if !okCurve || got.X.Cmp(k.x) != 0 || got.Y.Cmp(k.y[ci]) != 0 {
				oc := 1 - ci
				if got.Curve != nil && got.Curve.Params().P.Cmp(refs[oc].p) == 0 && got.Y.Cmp(k.y[oc]) == 0 {
					c.fail("pubkey:decode-depends-on-history:key-of-the-other-curve-returned", fmt.Sprintf("%s (%s) returned the %s key: Y=%x want %x", log[len(log)-1], prev, names[oc], got.Y, k.y[ci]))
				} else {
					c.fail("pubkey:decode-depends-on-history:wrong-key", fmt.Sprintf("%s (%s): curve ok=%v X=%x Y=%x want Y=%x", log[len(log)-1], prev, okCurve, got.X, got.Y, k.y[ci]))
				}
				return false
			}
			if !refs[ci].onCurve(pt{x: got.X, y: got.Y}) {
				c.fail("pubkey:decoded-point-not-on-curve", log[len(log)-1])
				return false
			}
			if !bytes.Equal(got.Bytes(), k.enc) {
				c.fail("pubkey:decode-compressed-roundtrip", fmt.Sprintf("%s: re-encoded %x", log[len(log)-1], got.Bytes()))
				return false
			}
			h := sha256.Sum256(k.msg)
			if b2i(k.ownerK1) == ci {
				if !got.Verify(k.sig, h[:]) {
					c.fail("verify:redecoded-key-rejects-own-signature", log[len(log)-1])
					return false
				}
				run.Obs("keycache_redecoded_key_verifies", 1)
			} else if got.Verify(k.sig, h[:]) {
				c.fail("verify:accepts-other-key", "the same bytes read on the other curve verify the signature")
				return false
			}
			return true
		}
		ops := 10 + r.Intn(40)
		for op := 0; op < ops && !c.failed; op++ {
			ki := r.Intn(nk)
			k := ks[ki]
			switch x := r.Intn(12); {
			case x < 4:
				check(k, ki, r.Intn(2), "bytes")
			case x < 6: // both curves back to back, in either order
				ci := r.Intn(2)
				if check(k, ki, ci, "bytes") {
					check(k, ki, 1-ci, "bytes")
				}
			case x < 7: // the same curve again (cache hit)
				ci := r.Intn(2)
				if check(k, ki, ci, "bytes") {
					check(k, ki, ci, "bytes")
				}
			case x < 8:
				check(k, ki, 0, []string{"string", "instruction"}[r.Intn(2)])
			case x < 11: // a few other keys in between
				fs := fillers()
				for j := r.Intn(6); j >= 0; j-- {
					f := fs[r.Intn(len(fs))]
					if p, err := keys.NewPublicKeyFromBytes(f, curves[0]); err != nil || !bytes.Equal(p.Bytes(), f) {
						c.fail("pubkey:decode-compressed-roundtrip", fmt.Sprintf("filler %x: %v", f, err))
					}
				}
				log = append(log, "decode a few other keys")
			default:
				if evict { // more distinct keys than the cache holds
					for _, f := range fillers() {
						if p, err := keys.NewPublicKeyFromBytes(f, curves[0]); err != nil || !bytes.Equal(p.Bytes(), f) {
							c.fail("pubkey:decode-compressed-roundtrip", fmt.Sprintf("filler %x: %v", f, err))
							break
						}
					}
					log = append(log, "decode 1100 other keys (eviction)")
					run.Obs("keycache_evictions_forced", 1)
				}
			}
		}
		// every key ends with both orders exercised explicitly
		for ki, k := range ks {
			if c.failed {
				break
			}
			_ = check(k, ki, 0, "bytes") && check(k, ki, 1, "bytes") && check(k, ki, 0, "bytes") && check(k, ki, 1, "bytes")
		}
		run.Obs("keycache_decodes", decodes)
		run.Obs("keycache_curve_switches_on_same_bytes", switches)
		ord := ""
		for _, o := range []string{"first->secp256r1", "first->secp256k1", "after-secp256r1->secp256k1", "after-secp256k1->secp256r1", "after-secp256r1->secp256r1", "after-secp256k1->secp256k1"} {
			if orders[o] {
				ord += "1"
			} else {
				ord += "0"
			}
		}
		owners := ""
		for _, k := range ks {
			owners += names[b2i(k.ownerK1)][7:]
		}
		return fmt.Sprintf("keys=%s:orders=%s:evict=%v", owners, ord, evict), switches > 0
	})
}

func b2i(b bool) int {
	if b {
		return 1
	}
	return 0
}

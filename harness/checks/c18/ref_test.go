package c18

// Independent reference implementations used as oracles. Nothing in this file
// calls into neo-go: only the Go standard library (math/big, crypto/sha256,
// crypto/hmac) is used.

import (
	"bytes"
	"crypto/hmac"
	"crypto/sha256"
	"math/big"
)

// ---------------------------------------------------------------- Base58 ---

const b58Alphabet = "123456789ABCDEFGHJKLMNPQRSTUVWXYZabcdefghijkmnopqrstuvwxyz"

var big58 = big.NewInt(58)

// refB58Enc is the textbook Base58 encoding: the byte string read as a
// big-endian number written in base 58, each leading zero byte as a '1'.
func refB58Enc(b []byte) string {
	z := 0
	for z < len(b) && b[z] == 0 {
		z++
	}
	x := new(big.Int).SetBytes(b)
	var out []byte
	m := new(big.Int)
	for x.Sign() > 0 {
		x.DivMod(x, big58, m)
		out = append(out, b58Alphabet[m.Int64()])
	}
	for i := 0; i < z; i++ {
		out = append(out, '1')
	}
	for i, j := 0, len(out)-1; i < j; i, j = i+1, j-1 {
		out[i], out[j] = out[j], out[i]
	}
	return string(out)
}

// refB58Dec is the inverse of refB58Enc; ok is false for a character outside
// the alphabet.
func refB58Dec(s string) ([]byte, bool) {
	z := 0
	for z < len(s) && s[z] == '1' {
		z++
	}
	x := new(big.Int)
	for i := 0; i < len(s); i++ {
		k := bytes.IndexByte([]byte(b58Alphabet), s[i])
		if k < 0 {
			return nil, false
		}
		x.Mul(x, big58)
		x.Add(x, big.NewInt(int64(k)))
	}
	return append(make([]byte, z), x.Bytes()...), true
}

func refSha256d(b []byte) [32]byte {
	h := sha256.Sum256(b)
	return sha256.Sum256(h[:])
}

// refCheckEnc is Base58Check: payload followed by the first four bytes of its
// double SHA-256.
func refCheckEnc(b []byte) string {
	h := refSha256d(b)
	return refB58Enc(append(append([]byte{}, b...), h[:4]...))
}

// ------------------------------------------------- VM integer encoding ---

// refIntToBytes returns the minimal two's-complement little-endian encoding of
// n (the empty string for zero), computed arithmetically.
func refIntToBytes(n *big.Int) []byte {
	if n.Sign() == 0 {
		return []byte{}
	}
	k := 1
	for {
		lim := new(big.Int).Lsh(big.NewInt(1), uint(8*k-1))
		if n.Cmp(lim) < 0 && n.Cmp(new(big.Int).Neg(lim)) >= 0 {
			break
		}
		k++
	}
	v := new(big.Int).Set(n)
	if n.Sign() < 0 {
		v.Add(v, new(big.Int).Lsh(big.NewInt(1), uint(8*k)))
	}
	be := v.FillBytes(make([]byte, k))
	for i, j := 0, len(be)-1; i < j; i, j = i+1, j-1 {
		be[i], be[j] = be[j], be[i]
	}
	return be
}

// refIntFromBytes decodes a two's-complement little-endian integer of any
// length (sign-extended or not).
func refIntFromBytes(b []byte) *big.Int {
	if len(b) == 0 {
		return new(big.Int)
	}
	be := make([]byte, len(b))
	for i := range b {
		be[len(b)-1-i] = b[i]
	}
	v := new(big.Int).SetBytes(be)
	if b[len(b)-1]&0x80 != 0 {
		v.Sub(v, new(big.Int).Lsh(big.NewInt(1), uint(8*len(b))))
	}
	return v
}

// refIsMinimal says whether b has no redundant sign-extension byte.
func refIsMinimal(b []byte) bool {
	switch len(b) {
	case 0:
		return true
	case 1:
		return b[0] != 0
	}
	last, prev := b[len(b)-1], b[len(b)-2]
	if last == 0x00 && prev&0x80 == 0 {
		return false
	}
	if last == 0xff && prev&0x80 != 0 {
		return false
	}
	return true
}

// ---------------------------------------------------------------- Merkle ---

// refMerkle is the recursive definition: the root of one hash is that hash;
// otherwise hash adjacent pairs with double SHA-256 (an odd last element is
// paired with itself) and take the root of the resulting list.
func refMerkle(hs [][32]byte) [32]byte {
	if len(hs) == 1 {
		return hs[0]
	}
	var next [][32]byte
	for i := 0; i < len(hs); i += 2 {
		l := hs[i]
		r := l
		if i+1 < len(hs) {
			r = hs[i+1]
		}
		next = append(next, refSha256d(append(append([]byte{}, l[:]...), r[:]...)))
	}
	return refMerkle(next)
}

// ------------------------------------------------ textbook curve / ECDSA ---

// wcurve is a short Weierstrass curve y^2 = x^3 + a x + b over F_p with base
// point (gx, gy) of prime order n.
type wcurve struct{ p, a, b, gx, gy, n *big.Int }

func hexInt(s string) *big.Int {
	v, ok := new(big.Int).SetString(s, 16)
	if !ok {
		panic("bad constant")
	}
	return v
}

// Constants from SEC 2 (typed in, not taken from any library).
var refP256 = &wcurve{
	p:  hexInt("ffffffff00000001000000000000000000000000ffffffffffffffffffffffff"),
	a:  hexInt("ffffffff00000001000000000000000000000000fffffffffffffffffffffffc"),
	b:  hexInt("5ac635d8aa3a93e7b3ebbd55769886bc651d06b0cc53b0f63bce3c3e27d2604b"),
	gx: hexInt("6b17d1f2e12c4247f8bce6e563a440f277037d812deb33a0f4a13945d898c296"),
	gy: hexInt("4fe342e2fe1a7f9b8ee7eb4a7c0f9e162bce33576b315ececbb6406837bf51f5"),
	n:  hexInt("ffffffff00000000ffffffffffffffffbce6faada7179e84f3b9cac2fc632551"),
}

var refK256 = &wcurve{
	p:  hexInt("fffffffffffffffffffffffffffffffffffffffffffffffffffffffefffffc2f"),
	a:  big.NewInt(0),
	b:  big.NewInt(7),
	gx: hexInt("79be667ef9dcbbac55a06295ce870b07029bfcdb2dce28d959f2815b16f81798"),
	gy: hexInt("483ada7726a3c4655da4fbfc0e1108a8fd17b448a68554199c47d08ffb10d4b8"),
	n:  hexInt("fffffffffffffffffffffffffffffffebaaedce6af48a03bbfd25e8cd0364141"),
}

// pt is an affine point; inf marks the point at infinity.
type pt struct {
	x, y *big.Int
	inf  bool
}

func (c *wcurve) onCurve(q pt) bool {
	if q.inf {
		return false
	}
	l := new(big.Int).Mul(q.y, q.y)
	r := new(big.Int).Mul(q.x, q.x)
	r.Mul(r, q.x)
	r.Add(r, new(big.Int).Mul(c.a, q.x))
	r.Add(r, c.b)
	l.Sub(l, r)
	l.Mod(l, c.p)
	return l.Sign() == 0
}

func (c *wcurve) add(p1, p2 pt) pt {
	if p1.inf {
		return p2
	}
	if p2.inf {
		return p1
	}
	var lam *big.Int
	if p1.x.Cmp(p2.x) == 0 {
		s := new(big.Int).Add(p1.y, p2.y)
		s.Mod(s, c.p)
		if s.Sign() == 0 {
			return pt{inf: true}
		}
		// doubling: (3x^2 + a) / 2y
		num := new(big.Int).Mul(p1.x, p1.x)
		num.Mul(num, big.NewInt(3))
		num.Add(num, c.a)
		den := new(big.Int).Lsh(p1.y, 1)
		den.ModInverse(den.Mod(den, c.p), c.p)
		lam = num.Mul(num, den)
	} else {
		num := new(big.Int).Sub(p2.y, p1.y)
		den := new(big.Int).Sub(p2.x, p1.x)
		den.ModInverse(den.Mod(den, c.p), c.p)
		lam = num.Mul(num, den)
	}
	lam.Mod(lam, c.p)
	x3 := new(big.Int).Mul(lam, lam)
	x3.Sub(x3, p1.x)
	x3.Sub(x3, p2.x)
	x3.Mod(x3, c.p)
	y3 := new(big.Int).Sub(p1.x, x3)
	y3.Mul(y3, lam)
	y3.Sub(y3, p1.y)
	y3.Mod(y3, c.p)
	return pt{x: x3, y: y3}
}

func (c *wcurve) mul(k *big.Int, q pt) pt {
	r := pt{inf: true}
	for i := k.BitLen() - 1; i >= 0; i-- {
		r = c.add(r, r)
		if k.Bit(i) == 1 {
			r = c.add(r, q)
		}
	}
	return r
}

func (c *wcurve) base() pt { return pt{x: c.gx, y: c.gy} }

// bits2int of RFC 6979 section 2.3.2 for a 256-bit order and a 256-bit hash.
func (c *wcurve) hashToInt(h []byte) *big.Int {
	z := new(big.Int).SetBytes(h)
	if ex := len(h)*8 - c.n.BitLen(); ex > 0 {
		z.Rsh(z, uint(ex))
	}
	return z
}

// verify is ECDSA verification as written in SEC 1 section 4.1.4.
func (c *wcurve) verify(q pt, h []byte, r, s *big.Int) bool {
	if r.Sign() <= 0 || s.Sign() <= 0 || r.Cmp(c.n) >= 0 || s.Cmp(c.n) >= 0 {
		return false
	}
	if !c.onCurve(q) {
		return false
	}
	z := c.hashToInt(h)
	w := new(big.Int).ModInverse(s, c.n)
	u1 := new(big.Int).Mul(z, w)
	u1.Mod(u1, c.n)
	u2 := new(big.Int).Mul(r, w)
	u2.Mod(u2, c.n)
	x := c.add(c.mul(u1, c.base()), c.mul(u2, q))
	if x.inf {
		return false
	}
	v := new(big.Int).Mod(x.x, c.n)
	return v.Cmp(r) == 0
}

// rfc6979Sign is deterministic ECDSA (RFC 6979 section 3.2, HMAC-SHA256) for a
// 256-bit curve order and a 32-byte hash; it returns (r, s).
func (c *wcurve) rfc6979Sign(d *big.Int, h []byte) (*big.Int, *big.Int) {
	qlen := c.n.BitLen()
	rolen := (qlen + 7) / 8
	int2octets := func(v *big.Int) []byte { return v.FillBytes(make([]byte, rolen)) }
	bits2octets := func(b []byte) []byte {
		z1 := c.hashToInt(b)
		z2 := new(big.Int).Sub(z1, c.n)
		if z2.Sign() < 0 {
			return int2octets(z1)
		}
		return int2octets(z2)
	}
	mac := func(k []byte, parts ...[]byte) []byte {
		m := hmac.New(sha256.New, k)
		for _, p := range parts {
			m.Write(p)
		}
		return m.Sum(nil)
	}
	V := bytes.Repeat([]byte{0x01}, 32)
	K := make([]byte, 32)
	x := int2octets(d)
	h1 := bits2octets(h)
	K = mac(K, V, []byte{0x00}, x, h1)
	V = mac(K, V)
	K = mac(K, V, []byte{0x01}, x, h1)
	V = mac(K, V)
	z := c.hashToInt(h)
	for {
		var T []byte
		for len(T) < rolen {
			V = mac(K, V)
			T = append(T, V...)
		}
		k := c.hashToInt(T[:rolen])
		if k.Sign() > 0 && k.Cmp(c.n) < 0 {
			R := c.mul(k, c.base())
			r := new(big.Int).Mod(R.x, c.n)
			if r.Sign() != 0 {
				s := new(big.Int).Mul(r, d)
				s.Add(s, z)
				s.Mul(s, new(big.Int).ModInverse(k, c.n))
				s.Mod(s, c.n)
				if s.Sign() != 0 {
					return r, s
				}
			}
		}
		K = mac(K, V, []byte{0x00})
		V = mac(K, V)
	}
}

// Package c18 monitors the algebraic laws of keys, signatures, addresses and
// number encodings (property C18).
//
// Part "laws" (plain build) evaluates, on boundary-biased seeded inputs, the
// sign/verify laws (with crypto/ecdsa and a textbook math/big ECDSA as
// independent verifiers), signature determinism, the inversion of every codec
// named by the property against independent references, the Merkle root against
// its recursive definition and the script builders against the script parser
// and the VM. Part "multisig" (built with -race) runs the VM's parallel
// multi-signature matcher against a sequential in-order matcher, repeatedly and
// with GOMAXPROCS varied.
package c18

import (
	"encoding/hex"
	"fmt"
	"os"
	"regexp"
	"runtime"
	"strings"
	"sync"
	"testing"
	"time"

	"github.com/nspcc-dev/neo-go/verifharness/vlib/ev"
)

// Stream-id bases of the families (per-case streams are base+index).
const (
	sKey      = 1 << 32
	sK1       = 2 << 32
	sNEP2     = 3 << 32
	sB58      = 4 << 32
	sUint     = 5 << 32
	sFixed    = 6 << 32
	sBigint   = 7 << 32
	sMerkle   = 8 << 32
	sScript   = 9 << 32
	sMSScript = 10 << 32
	sMultisig = 11 << 32
	sMSVM     = 12 << 32
	sAddr     = 13 << 32
)

func hx(b []byte) string { return hex.EncodeToString(b) }

var reDigits = regexp.MustCompile(`\d+`)

// parallel runs fn(0..n-1) on all cores.
func parallel(n int, fn func(i int)) {
	var wg sync.WaitGroup
	ch := make(chan int, 256)
	for w := 0; w < runtime.NumCPU(); w++ {
		wg.Add(1)
		go func() {
			defer wg.Done()
			for i := range ch {
				fn(i)
			}
		}()
	}
	for i := 0; i < n; i++ {
		ch <- i
	}
	close(ch)
	wg.Wait()
}

// tc is one case under evaluation: violations are reported through it so that
// every report carries the case id and the inputs.
type tc struct {
	run    *ev.Run
	family string
	id     string
	in     map[string]any
	failed bool
}

func (c *tc) fail(sig, detail string) {
	c.failed = true
	w := map[string]any{"family": c.family, "detail": detail}
	for k, v := range c.in {
		w[k] = v
	}
	c.run.Violation(sig, c.id, detail, w)
}

// family runs n cases of one family; body returns the coverage signature and
// whether the case was non-trivial. A panic escaping from neo-go is a violation.
func family(run *ev.Run, name string, n int, body func(c *tc, i int) (string, bool)) {
	parallel(n, func(i int) {
		id := fmt.Sprintf("%s/%d", name, i)
		if !run.Want(id) {
			return
		}
		c := &tc{run: run, family: name, id: id, in: map[string]any{}}
		var sig string
		var nt bool
		func() {
			defer func() {
				if r := recover(); r != nil {
					msg := reDigits.ReplaceAllString(fmt.Sprint(r), "N")
					if len(msg) > 100 {
						msg = msg[:100]
					}
					buf := make([]byte, 4096)
					buf = buf[:runtime.Stack(buf, false)]
					c.in["stack"] = string(buf)
					c.fail("panic:"+name+":"+msg, fmt.Sprint(r))
					sig, nt = name+":panic", true
				}
			}()
			sig, nt = body(c, i)
		}()
		run.Case(name+":"+sig, nt)
		run.Obs("cases_"+name, 1)
		if i < 1 {
			run.Sample(map[string]any{"case": id, "class": sig, "input": c.in})
		}
	})
}

func TestCheck(t *testing.T) {
	part := os.Getenv("VERIF_PART")
	if part == "" {
		part = "all"
	}
	var rules []string
	if part == "laws" || part == "all" {
		rules = append(rules, lawsRule())
	}
	if part == "multisig" || part == "all" {
		rules = append(rules, multisigRule())
	}
	run := ev.Start("C18", strings.Join(rules, " | "))
	defer run.Finish()
	if part == "laws" || part == "all" {
		runLaws(run)
	}
	if part == "multisig" || part == "all" {
		runMultisig(run)
	}
}

func lawsRule() string {
	return "laws: seeded, boundary-biased inputs per family — keys (scalars 1..16, order-1.., powers of two, leading zero bytes, coordinates with a leading zero byte; P-256 and secp256k1), decoding histories (1-4 keys whose 33-byte encoding is a point on both curves, decoded through the caching entry points on both curves in both orders, repeatedly, interleaved with other keys and with forced eviction of the 1024-entry cache; every decode checked for curve, X, Y, re-encoding and signature verification), messages, NEP-2 passphrases (incl. non-NFC spellings), Base58Check payloads (leading zero bytes, powers of 58 and 256), script hashes, Uint160/256 (zero, ff, leading/trailing zeros), Fixed8 / decimals (unit and int64 boundaries, fraction-only, precisions 0-18), VM integers (sign-bit, byte-carry and word-carry boundaries up to 40 bytes; arbitrary and sign-extended byte strings), hash lists of 0-33 (and up to 257; thorough 4097) leaves, value trees for the script builder (ints of every operand width, byte strings at the PUSHDATA1/2/4 limits, bools, null, nested arrays / structs / maps, contract calls, NEP-17 transfers) and m-of-n key lists (n up to 129, repeated keys). A case is one input evaluated against all clauses of its family; distinct by (family, input class: boundary kind, sign, lengths, shapes), non-trivial when the codec / verifier / parser was reached"
}

func runLaws(run *ev.Run) {
	run.Assume("laws: references share no code with neo-go: math/big Base58, arithmetic two's complement, recursive Merkle, hand-written scripts, crypto/ecdsa + crypto/ecdh + crypto/elliptic for P-256, a textbook affine-coordinate ECDSA/RFC 6979 over math/big for both curves, x/crypto scrypt + crypto/aes for NEP-2")
	run.Assume("laws: altered signatures exclude the (r, n-s) twin, which ECDSA accepts by construction; an altered signature or wrong passphrase passing by chance has probability about 2^-32 or less")
	run.Assume("laws: equality with the independent RFC 6979 signer is recorded as an observation, the verdict demands only reproducibility")
	timed := func(name string, f func()) {
		t0 := time.Now()
		f()
		run.Note("seconds_"+name, time.Since(t0).Round(100*time.Millisecond).Seconds()) // information only
	}
	timed("key", func() { keyFamily(run, ev.Pick(6000, 100000)) })
	timed("k1", func() { k1Family(run, ev.Pick(300, 2000)) })
	timed("keycache", func() { keyCacheFamily(run, ev.Pick(600, 8000)) })
	timed("nep2", func() { nep2Family(run, ev.Pick(600, 20000), ev.Pick(6, 48)) })
	timed("base58check", func() { b58Family(run, ev.Pick(8000, 300000)) })
	timed("address", func() { addrFamily(run, ev.Pick(3000, 100000)) })
	timed("address-prefix", func() { addrPrefixFamily(run, ev.Pick(300, 10000)) })
	timed("uint", func() { uintFamily(run, ev.Pick(4000, 100000)) })
	timed("fixed", func() { fixedFamily(run, ev.Pick(8000, 300000)) })
	timed("vmint", func() { bigintFamily(run, ev.Pick(12000, 400000)) })
	timed("merkle", func() { merkleFamily(run, ev.Pick(8, 80)) })
	timed("script", func() { scriptFamily(run, ev.Pick(4000, 80000)) })
	timed("msscript", func() { msScriptFamily(run, ev.Pick(1500, 20000)) })
}

package c06

import (
	"fmt"
	"testing"

	"github.com/nspcc-dev/neo-go/pkg/config"
	"github.com/nspcc-dev/neo-go/pkg/core/block"
	"github.com/nspcc-dev/neo-go/pkg/crypto/keys"
	"github.com/nspcc-dev/neo-go/pkg/io"
	"github.com/nspcc-dev/neo-go/pkg/neotest"
	"github.com/nspcc-dev/neo-go/pkg/wallet"
	"github.com/nspcc-dev/neo-go/verifharness/vlib/ev"
	"github.com/nspcc-dev/neo-go/verifharness/vlib/vchain"
)

// consensusChange: the consensus address changes along the chain (block A
// designates another multi-signature address for its successor B, B designates
// the standby one again for C). Every block and header must be signed by the
// address its predecessor designated - not by the one an earlier header
// designated, not by the standby validators, not by its own NextConsensus. The
// genuine chain is offered as single blocks, single headers and header
// batches spanning the change; forged variants (B and C signed by the address
// designated one step earlier) must be refused without being recorded, and
// the genuine ones accepted afterwards.
func consensusChange(t *testing.T, run *ev.Run, idx int, srih bool) {
	base := fmt.Sprintf("consensus-change/%d", idx)
	if !run.Want(base) {
		return
	}
	proto := func(c *config.Blockchain) { vchain.AllForks(c); c.StateRootInHeader = srih }
	p := vchain.NewProducer(t, vchain.ProducerConfig{Proto: proto, Users: 4, Stream: 86_000 + uint64(idx), TolerateReject: true})
	defer p.Close()
	magic := uint32(p.BC.GetConfig().Magic)
	// the other consensus address: m-of-n of keys the harness holds
	n := 3 + idx%3
	m := n - (n-1)/3
	var accs []*wallet.Account
	var pubs keys.PublicKeys
	for i := 0; i < n; i++ {
		a := wallet.NewAccountFromPrivateKey(vchain.DetKey(fmt.Sprintf("c06-consensus-%d", idx), i))
		accs = append(accs, a)
		pubs = append(pubs, a.PublicKey())
	}
	for _, a := range accs {
		if err := a.ConvertMultisig(m, pubs.Copy()); err != nil {
			t.Fatal(err)
		}
	}
	other := neotest.NewMultiSigner(accs...)
	fresh := func(b *block.Block) *block.Header {
		w := io.NewBufBinWriter()
		b.Header.EncodeBinary(w.BinWriter)
		h := &block.Header{StateRootEnabled: srih}
		r := io.NewBinReaderFromBuf(w.Bytes())
		h.DecodeBinary(r)
		if r.Err != nil {
			panic(r.Err)
		}
		return h
	}
	sign := func(b *block.Block, s neotest.Signer) *block.Block {
		b.Script.VerificationScript = s.Script()
		b.Script.InvocationScript = s.SignHashable(magic, fresh(b))
		c, err := vchain.DecodeBlock(vchain.EncodeBlock(b), srih)
		if err != nil {
			t.Fatal(err)
		}
		return c
	}
	for range 2 + idx%2 {
		p.AddBlock(p.GenTxs()...)
	}
	if p.Rejected != nil {
		run.Inconclusive("%s: producer rejected its own block: %v", base, p.Rejected)
		return
	}
	start := len(p.Raw)
	// A: signed by the standby validators, designates `other`
	a := p.NewBlock(p.GenTxs()...)
	a.NextConsensus = other.ScriptHash()
	a = sign(a, p.Val)
	if err := p.BC.AddBlock(a); err != nil {
		run.Violation("consensus-change:producer-refuses-block-designating-another-address", base, err.Error(), nil)
		return
	}
	// B: signed by `other`, designates the standby validators again
	b := p.NewBlock()
	b = sign(b, other)
	bForged := sign(clone(b, srih), p.Val) // signed by the address designated one step earlier
	if err := p.BC.AddBlock(b); err != nil {
		run.Violation("correct-block-rejected:signed-by-the-newly-designated-consensus-address", base, err.Error(), nil)
		return
	}
	// C: signed by the standby validators again
	c := p.NewBlock()
	c = sign(c, p.Val)
	cForged := sign(clone(c, srih), other)
	if err := p.BC.AddBlock(c); err != nil {
		run.Violation("correct-block-rejected:signed-by-the-standby-address-designated-again", base, err.Error(), nil)
		return
	}
	d := sign(p.NewBlock(), p.Val)
	if err := p.BC.AddBlock(d); err != nil {
		t.Fatal(err)
	}
	run.Case(base, true)
	node := func(upTo int, more ...*block.Block) *vchain.Replica {
		rep, err := vchain.OpenReplica(t, vchain.ReplicaCfg{Name: "c06cons", Cfg: proto})
		if err != nil {
			t.Fatal(err)
		}
		for i := 0; i < upTo; i++ {
			if err := rep.AddRaw(p.Raw[i]); err != nil {
				t.Fatalf("replay: %v", err)
			}
		}
		for _, blk := range more {
			if err := rep.BC.AddBlock(blk); err != nil {
				t.Fatalf("replay of genuine block %d: %v", blk.Index, err)
			}
		}
		return rep
	}
	type offer struct {
		name    string
		have    []*block.Block // genuine blocks the node already has beyond `start`
		headers []*block.Header
		blk     *block.Block
		// how many of the offered headers are genuine from the front (may be recorded)
		genuine int
	}
	offers := []offer{
		{name: "block-signed-by-previously-designated-address", have: []*block.Block{a}, blk: bForged},
		{name: "block-signed-by-address-designated-two-blocks-earlier", have: []*block.Block{a, b}, blk: cForged},
		{name: "header-signed-by-previously-designated-address", have: []*block.Block{a}, headers: []*block.Header{&bForged.Header}},
		{name: "header-batch-spanning-the-change:successors-signed-by-the-address-designated-before-the-batch", headers: []*block.Header{&a.Header, &bForged.Header}, genuine: 1},
		{name: "header-batch-spanning-the-change:third-header-signed-by-the-second-one's-signer", headers: []*block.Header{&a.Header, &b.Header, &cForged.Header}, genuine: 2},
		{name: "header-batch-after-the-change:signed-by-the-standby-address", have: []*block.Block{a}, headers: []*block.Header{&bForged.Header, &c.Header}},
	}
	for _, o := range offers {
		id := base + "/" + o.name
		rep := node(start, o.have...)
		hh0, bh0 := rep.BC.HeaderHeight(), rep.BC.BlockHeight()
		var err error
		if o.blk != nil {
			err = rep.BC.AddBlock(o.blk)
		} else {
			err = rep.BC.AddHeaders(o.headers...)
		}
		run.Obs("consensus_change_forged_offers", 1)
		wit := map[string]any{"offer": o.name, "state_root_in_header": srih, "other_address": fmt.Sprintf("%d-of-%d", m, n)}
		if err == nil {
			run.Violation("corrupted-block-accepted:"+o.name, id, "accepted although not signed by the consensus address its predecessor designates", wit)
		} else if rep.BC.BlockHeight() != bh0 || rep.BC.HeaderHeight() > hh0+uint32(o.genuine) {
			run.Violation("rejected-block-changed-header-chain:"+o.name, id, fmt.Sprintf("heights %d/%d -> %d/%d (at most %d genuine header(s) may be recorded)", bh0, hh0, rep.BC.BlockHeight(), rep.BC.HeaderHeight(), o.genuine), wit)
		} else {
			// the genuine continuation is still accepted
			var gerr error
			for _, g := range []*block.Block{a, b, c, d} {
				if g.Index <= rep.BC.BlockHeight() {
					continue
				}
				if gerr = rep.BC.AddBlock(g); gerr != nil {
					run.Violation("correct-block-rejected-after-corrupted-ones:consensus-change", id, fmt.Sprintf("block %d: %v", g.Index, gerr), wit)
					break
				}
			}
			if gerr == nil {
				run.Obs("consensus_change_genuine_continuations_accepted", 1)
			}
		}
		rep.Close()
	}
	// the genuine chain through every entry point
	for _, how := range []string{"blocks", "headers-one-by-one", "headers-in-one-batch", "headers-in-two-batches-split-at-the-change"} {
		id := base + "/genuine/" + how
		rep := node(start)
		var err error
		hs := []*block.Header{&a.Header, &b.Header, &c.Header, &d.Header}
		switch how {
		case "headers-one-by-one":
			for _, h := range hs {
				if err = rep.BC.AddHeaders(h); err != nil {
					break
				}
			}
		case "headers-in-one-batch":
			err = rep.BC.AddHeaders(hs...)
		case "headers-in-two-batches-split-at-the-change":
			if err = rep.BC.AddHeaders(hs[:1]...); err == nil {
				err = rep.BC.AddHeaders(hs[1:]...)
			}
		}
		if err != nil {
			run.Violation("correct-headers-rejected:consensus-change:"+how, id, err.Error(), nil)
			rep.Close()
			continue
		}
		for _, g := range []*block.Block{a, b, c, d} {
			if err := rep.BC.AddBlock(g); err != nil {
				run.Violation("correct-block-rejected:consensus-change:"+how, id, fmt.Sprintf("block %d: %v", g.Index, err), nil)
				break
			}
		}
		if rep.BC.BlockHeight() == d.Index {
			if sr, err := rep.BC.GetStateRoot(d.Index); err == nil {
				if want, _ := p.BC.GetStateRoot(d.Index); want != nil && want.Root != sr.Root {
					run.Violation("state-differs-after-correct-block:consensus-change", id, "state roots differ", nil)
				}
			}
			run.Obs("consensus_change_genuine_chains_accepted", 1)
		}
		rep.Close()
	}
}

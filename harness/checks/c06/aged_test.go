package c06

import (
	"fmt"
	"strings"
	"testing"

	"github.com/nspcc-dev/neo-go/pkg/config"
	"github.com/nspcc-dev/neo-go/pkg/core/storage"
	"github.com/nspcc-dev/neo-go/verifharness/vlib/ev"
	"github.com/nspcc-dev/neo-go/verifharness/vlib/vchain"
)

// agedConflicts offers blocks containing a transaction that is named as a
// conflict by several on-chain transactions of its own signer, the oldest of
// which have already left the traceable window while the newest have not. The
// block must be rejected without a trace at every height of the transaction's
// validity window, on archive nodes and on nodes that remove untraceable
// blocks, and the block with an unnamed twin of the transaction is accepted.
func agedConflicts(t *testing.T, run *ev.Run) {
	type variant struct {
		mtb          uint32
		prior, fresh int
		srih, rub    bool
	}
	vs := []variant{{8, 1, 1, false, false}, {8, 2, 1, true, true}, {12, 1, 2, false, true}}
	if ev.Tier() == "thorough" {
		vs = nil
		for _, mtb := range []uint32{6, 8, 12, 20} {
			for prior := 1; prior <= 3; prior++ {
				for fresh := 1; fresh <= 2; fresh++ {
					for _, rub := range []bool{false, true} {
						vs = append(vs, variant{mtb, prior, fresh, (prior+fresh)%2 == 0, rub})
					}
				}
			}
		}
	}
	for vi, v := range vs {
		base := fmt.Sprintf("aged-conflict/mtb%d/prior%d/fresh%d/srih=%v/rub=%v", v.mtb, v.prior, v.fresh, v.srih, v.rub)
		wanted := false
		for k := 0; k < 3; k++ {
			wanted = wanted || run.Want(fmt.Sprintf("%s/offer%d", base, k))
		}
		if !wanted {
			continue
		}
		s := vchain.BuildAgedConflict(t, vchain.AgedConflictCfg{Stream: 66000 + uint64(vi), MTB: v.mtb, Prior: v.prior, Fresh: v.fresh, SRIH: v.srih})
		p := s.P
		if p.Rejected != nil {
			run.Violation("producer-rejected-own-block", base, p.Rejected.Error(), nil)
			p.Close()
			continue
		}
		rcfg := s.Cfg
		if v.rub {
			rcfg = func(c *config.Blockchain) {
				s.Cfg(c)
				c.RemoveUntraceableBlocks = true
				c.GarbageCollectionPeriod = 2
			}
		}
		opts := p.ObsOpts()
		open := func() *vchain.Replica {
			rep, err := vchain.OpenReplica(t, vchain.ReplicaCfg{Name: "c06aged", Cfg: rcfg})
			if err != nil {
				t.Fatal(err)
			}
			for i := range p.Raw {
				if err := rep.AddRaw(p.Raw[i]); err != nil {
					t.Fatalf("replay of block %d: %v", i+1, err)
				}
				_ = rep.Flush()
			}
			return rep
		}
		for k := 0; k < s.Offers; k++ {
			id := fmt.Sprintf("%s/offer%d", base, k)
			run.Case(id, true)
			rep := open()
			wit := map[string]any{"max_traceable_blocks": v.mtb, "aged_conflicts_at": s.PriorAt, "fresh_conflicts_at": s.FreshAt, "offered_at_height": p.Height(), "victim_valid_until": s.Victim.ValidUntilBlock, "remove_untraceable_blocks": v.rub, "state_root_in_header": v.srih}
			bad := p.NewBlock(s.Victim)
			before := snap(rep, opts)
			var aerr error
			func() {
				defer func() {
					if x := recover(); x != nil {
						aerr = fmt.Errorf("panic: %v", x)
						run.Violation("panic-in-AddBlock:tx-named-by-fresh-conflict-after-aged-one", id, fmt.Sprint(x), wit)
					}
				}()
				aerr = rep.AddRaw(vchain.EncodeBlock(bad))
			}()
			if aerr == nil {
				run.Violation("corrupted-block-accepted:tx-named-by-fresh-conflict-after-aged-one", id, fmt.Sprintf("height %d: block with a transaction named as a conflict by the on-chain transaction(s) of its signer in block(s) %v was added (older conflict(s) in %v, MaxTraceableBlocks %d)", p.Height(), s.FreshAt, s.PriorAt, v.mtb), wit)
				rep.Close()
				break
			}
			run.Obs("rejections", 1)
			run.Obs("aged_conflict_rejections", 1)
			after := snap(rep, opts)
			// the header is validly signed and linked: it alone may be recorded
			headerRecorded := after.hh != before.hh || after.hhash != before.hhash
			skip := func(k string) bool {
				if !headerRecorded {
					return false
				}
				hk := append([]byte{byte(storage.DataExecutable)}, bad.Hash().BytesBE()...)
				return k == string(hk) || k[0] == byte(storage.SYSCurrentHeader) || k[0] == byte(storage.IXHeaderHashList)
			}
			switch {
			case after.height != before.height || (headerRecorded && after.hh != before.hh+1):
				run.Violation("rejected-block-changed-height:tx-named-by-fresh-conflict-after-aged-one", id, fmt.Sprintf("%d/%d -> %d/%d", before.height, before.hh, after.height, after.hh), wit)
			case after.pool != before.pool:
				run.Violation("rejected-block-changed-mempool:tx-named-by-fresh-conflict-after-aged-one", id, before.pool+" -> "+after.pool, wit)
			default:
				if d := vchain.DiffDumps(before.dump, after.dump, skip); d != "" {
					run.Violation("rejected-block-changed-database:tx-named-by-fresh-conflict-after-aged-one", id, d, wit)
				} else if d := before.obs.Diff(after.obs); d != "" && !(headerRecorded && strings.HasPrefix(d, "header_height")) {
					run.Violation("rejected-block-changed-observable-state:tx-named-by-fresh-conflict-after-aged-one", id, d, wit)
				}
			}
			rep.Close()
			// the chain goes on: the unnamed twin in the last round, nothing before
			var ok bool
			if k == s.Offers-1 {
				ok = p.AddBlock(s.Twin) != nil
			} else {
				ok = p.AddBlock() != nil
			}
			if !ok {
				run.Violation("producer-rejected-own-block", id, p.Rejected.Error(), nil)
				break
			}
			if k == s.Offers-1 {
				// a node in the same state accepts the block with the twin
				rep = open()
				run.Obs("correct_blocks_accepted_afterwards", 1)
				rep.Close()
			}
		}
		p.Close()
	}
}

// Package c06 decides property C06 (only valid chain extensions are accepted;
// a rejected block changes nothing): single corruptions of a valid next block
// are offered to a node in sampled chain states, and the node's complete
// state (raw database, observation, mempool, header chain) is compared before
// and after.
package c06

import (
	"bytes"
	"encoding/binary"
	"fmt"
	"sort"
	"strings"
	"sync"
	"testing"

	"github.com/nspcc-dev/neo-go/pkg/config"
	"github.com/nspcc-dev/neo-go/pkg/core/block"
	"github.com/nspcc-dev/neo-go/pkg/core/storage"
	"github.com/nspcc-dev/neo-go/pkg/core/transaction"
	"github.com/nspcc-dev/neo-go/pkg/crypto/hash"
	"github.com/nspcc-dev/neo-go/pkg/io"
	"github.com/nspcc-dev/neo-go/pkg/neotest"
	"github.com/nspcc-dev/neo-go/pkg/util"
	"github.com/nspcc-dev/neo-go/pkg/vm/opcode"
	"github.com/nspcc-dev/neo-go/verifharness/vlib/ev"
	"github.com/nspcc-dev/neo-go/verifharness/vlib/rng"
	"github.com/nspcc-dev/neo-go/verifharness/vlib/vchain"
)

// mutant is one corrupted form of the valid next block.
type mutant struct {
	name        string
	raw         []byte       // serialized form offered to the node (nil: blk is used as is)
	blk         *block.Block // for mutants that cannot be serialized differently
	headerValid bool         // header is validly signed and linked: it may be recorded
	valid       bool         // a correct block in another accepted form: must be accepted
}

type snapshot struct {
	trie   string // first disagreement between GetState(current root) and contract storage ("" = none)
	dump   map[string][]byte
	obs    *vchain.Observation
	pool   string
	hh     uint32
	hhash  util.Uint256
	height uint32
}

func poolString(r *vchain.Replica) string {
	var hs []string
	for _, tx := range r.BC.GetMemPool().GetVerifiedTransactions() {
		hs = append(hs, tx.Hash().StringLE()[:10])
	}
	sort.Strings(hs)
	return strings.Join(hs, ",")
}

func snap(r *vchain.Replica, opts vchain.ObsOpts) *snapshot {
	_ = r.Flush()
	s := &snapshot{dump: vchain.Dump(r.Store.Inner), obs: vchain.Observe(r.BC, opts), pool: poolString(r), hh: r.BC.HeaderHeight(), hhash: r.BC.CurrentHeaderHash(), height: r.BC.BlockHeight()}
	s.trie = trieReads(r, opts, 48)
	return s
}

// trieReads reads contract storage items through the state root of the current
// height (the state service's view of the ledger state) and reports the first
// one that differs from contract storage itself. At most limit keys per
// contract are read (0 = all), spread evenly.
func trieReads(r *vchain.Replica, opts vchain.ObsOpts, limit int) string {
	sm := r.BC.GetStateModule()
	root := sm.CurrentLocalStateRoot()
	var ids []int32
	for _, n := range r.BC.GetNatives() {
		ids = append(ids, n.ID)
	}
	for i := int32(1); i <= opts.MaxContractID; i++ {
		ids = append(ids, i)
	}
	for _, id := range ids {
		kvs := vchain.StorageOf(r.BC, id)
		step := 1
		if limit > 0 && len(kvs) > limit {
			step = len(kvs)/limit + 1
		}
		for i := 0; i < len(kvs); i += step {
			k := make([]byte, 4, 4+len(kvs[i].K))
			binary.LittleEndian.PutUint32(k, uint32(id))
			k = append(k, kvs[i].K...)
			v, err := sm.GetState(root, k)
			if err != nil || !bytes.Equal(v, kvs[i].V) {
				return fmt.Sprintf("contract %d key %x: storage %x, GetState(current root) %x (err %v)", id, kvs[i].K, kvs[i].V, v, err)
			}
		}
	}
	return ""
}

func clone(b *block.Block, srih bool) *block.Block {
	c, err := vchain.DecodeBlock(vchain.EncodeBlock(b), srih)
	if err != nil {
		panic(err)
	}
	return c
}

type ctx struct {
	t     *testing.T
	h     *vchain.History
	p     *vchain.Producer
	srih  bool
	magic uint32
	r     *rng.R
}

// resign signs b by the real validators. The header caches its hash, so the
// signature is made over a freshly parsed copy of the modified block.
// altWitness signs the block header with the validators 1..m (skipping the
// first one the standard signer uses): another, equally valid witness.
func (c *ctx) altWitness(b *block.Block) []byte {
	ms, ok := c.p.Val.(neotest.MultiSigner)
	if !ok {
		return nil
	}
	var n int
	func() {
		defer func() { _ = recover() }()
		for ; ; n++ {
			ms.Single(n)
		}
	}()
	m := n - (n-1)/3
	if m >= n {
		return nil
	}
	hdr := c.freshHeader(b)
	var inv []byte
	for i := n - m; i < n; i++ {
		inv = append(inv, ms.Single(i).SignHashable(c.magic, hdr)...)
	}
	return inv
}

func (c *ctx) resign(b *block.Block) {
	b.Script.InvocationScript = c.p.Val.SignHashable(c.magic, c.freshHeader(b))
}

func (c *ctx) freshHeader(b *block.Block) *block.Header {
	w := io.NewBufBinWriter()
	b.Header.EncodeBinary(w.BinWriter)
	h := &block.Header{StateRootEnabled: c.srih}
	r := io.NewBinReaderFromBuf(w.Bytes())
	h.DecodeBinary(r)
	if r.Err != nil {
		panic(r.Err)
	}
	return h
}

// userTx builds a transaction of user u as of the node state at height h
// (the producer is further ahead, so fees and validity are set by hand).
func (c *ctx) userTx(u *vchain.User, vub uint32, netFee, sysFee int64, script []byte, attrs ...transaction.Attribute) *transaction.Transaction {
	tx := transaction.New(script, sysFee)
	tx.Nonce = uint32(c.r.Uint32())
	tx.ValidUntilBlock = vub
	tx.NetworkFee = netFee
	tx.Attributes = attrs
	tx.Signers = []transaction.Signer{{Account: u.Hash(), Scopes: transaction.CalledByEntry}}
	if err := u.S.SignTx(c.p.BC.GetConfig().Magic, tx); err != nil {
		c.t.Fatal(err)
	}
	return tx
}

// catalogue derives the single corruptions of valid next block b (index n).
func (c *ctx) catalogue(n int, prevTs uint64) []mutant {
	b := c.h.P.Blocks[n-1]
	var ms []mutant
	add := func(name string, headerValid bool, f func(m *block.Block) bool) {
		m := clone(b, c.srih)
		if !f(m) {
			return
		}
		ms = append(ms, mutant{name: name, raw: vchain.EncodeBlock(m), headerValid: headerValid})
	}
	flip := func(u util.Uint256) util.Uint256 { u[3] ^= 0x40; return u }
	// header fields, unsigned (the signature no longer matches) and re-signed
	for _, signed := range []bool{false, true} {
		sfx := ":unsigned"
		if signed {
			sfx = ":resigned"
		}
		fin := func(m *block.Block) bool {
			if signed {
				c.resign(m)
			}
			return true
		}
		add("header-prev-hash"+sfx, false, func(m *block.Block) bool { m.PrevHash = flip(m.PrevHash); return fin(m) })
		add("header-merkle-root"+sfx, signed, func(m *block.Block) bool { m.MerkleRoot = flip(m.MerkleRoot); return fin(m) })
		add("header-timestamp-equal-to-previous"+sfx, false, func(m *block.Block) bool { m.Timestamp = prevTs; return fin(m) })
		add("header-timestamp-before-previous"+sfx, false, func(m *block.Block) bool { m.Timestamp = prevTs - 1; return fin(m) })
		add("header-index-plus-one"+sfx, false, func(m *block.Block) bool { m.Index++; return fin(m) })
		add("header-index-minus-one"+sfx, false, func(m *block.Block) bool { m.Index--; return fin(m) })
		if c.srih {
			add("header-prev-state-root"+sfx, false, func(m *block.Block) bool { m.PrevStateRoot = flip(m.PrevStateRoot); return fin(m) })
		}
		if !signed {
			// with a fresh valid signature these would be other valid blocks
			add("header-nonce"+sfx, false, func(m *block.Block) bool { m.Nonce ^= 0x55; return true })
			add("header-primary-index"+sfx, false, func(m *block.Block) bool { m.PrimaryIndex ^= 1; return true })
			add("header-next-consensus"+sfx, false, func(m *block.Block) bool { m.NextConsensus[2] ^= 1; return true })
			add("header-version"+sfx, false, func(m *block.Block) bool { m.Version = 1; return true })
		}
	}
	// witness
	add("witness-one-signature-missing", false, func(m *block.Block) bool {
		inv := m.Script.InvocationScript
		if len(inv) < 66*2 {
			return false
		}
		m.Script.InvocationScript = inv[:len(inv)-66]
		return true
	})
	add("witness-signed-for-another-network", false, func(m *block.Block) bool {
		m.Script.InvocationScript = c.p.Val.SignHashable(c.magic+1, c.freshHeader(m))
		return true
	})
	add("witness-extra-push", false, func(m *block.Block) bool {
		m.Script.InvocationScript = append(bytes.Clone(m.Script.InvocationScript), byte(opcode.PUSH1))
		return true
	})
	add("witness-other-verification-script", false, func(m *block.Block) bool {
		m.Script.VerificationScript = c.p.Users[0].Acc.Contract.Script
		m.Script.InvocationScript = append([]byte{byte(opcode.PUSHDATA1), 64}, c.p.Users[0].Acc.SignHashable(c.p.BC.GetConfig().Magic, m)...)
		return true
	})
	add("witness-garbage-invocation", false, func(m *block.Block) bool {
		m.Script.InvocationScript = []byte{byte(opcode.PUSH1), byte(opcode.PUSH2), byte(opcode.PUSH3)}
		return true
	})
	add("witness-empty", false, func(m *block.Block) bool {
		m.Script.InvocationScript = nil
		return true
	})
	// transaction list; unsigned = Merkle root left as is, resigned = header rebuilt and signed
	rebuild := func(m *block.Block) {
		m.RebuildMerkleRoot()
		c.resign(m)
	}
	if len(b.Transactions) >= 2 {
		add("txs-reordered:merkle-not-updated", true, func(m *block.Block) bool {
			m.Transactions[0], m.Transactions[1] = m.Transactions[1], m.Transactions[0]
			return true
		})
	}
	if len(b.Transactions) >= 1 {
		add("txs-dropped:merkle-not-updated", true, func(m *block.Block) bool { m.Transactions = m.Transactions[1:]; return true })
		add("txs-duplicated:merkle-not-updated", true, func(m *block.Block) bool {
			m.Transactions = append(m.Transactions, m.Transactions[0])
			return true
		})
		add("txs-duplicated:resigned", true, func(m *block.Block) bool {
			m.Transactions = append(m.Transactions, m.Transactions[len(m.Transactions)-1])
			rebuild(m)
			return true
		})
		add("tx-script-byte-altered:resigned", true, func(m *block.Block) bool {
			tx := m.Transactions[c.r.Intn(len(m.Transactions))]
			cp := *tx
			cp.Script = bytes.Clone(tx.Script)
			cp.Script[len(cp.Script)/2] ^= 0x01
			fresh := transaction.New(cp.Script, tx.SystemFee)
			fresh.Nonce, fresh.NetworkFee, fresh.ValidUntilBlock, fresh.Signers, fresh.Attributes, fresh.Scripts = tx.Nonce, tx.NetworkFee, tx.ValidUntilBlock, tx.Signers, tx.Attributes, tx.Scripts
			for i := range m.Transactions {
				if m.Transactions[i] == tx {
					m.Transactions[i] = fresh
				}
			}
			rebuild(m)
			return true
		})
		// Witnesses are not covered by the transaction hash: the block hash and
		// the Merkle root stay the same, only the bodies differ (the node may
		// know the transaction from its pool with the right witness).
		reWitness := func(m *block.Block, f func(w *transaction.Witness) bool) bool {
			i := c.r.Intn(len(m.Transactions))
			tx := m.Transactions[i]
			fresh := transaction.New(tx.Script, tx.SystemFee)
			fresh.Nonce, fresh.NetworkFee, fresh.ValidUntilBlock, fresh.Signers, fresh.Attributes = tx.Nonce, tx.NetworkFee, tx.ValidUntilBlock, tx.Signers, tx.Attributes
			fresh.Scripts = make([]transaction.Witness, len(tx.Scripts))
			for j := range fresh.Scripts {
				fresh.Scripts[j] = transaction.Witness{VerificationScript: bytes.Clone(tx.Scripts[j].VerificationScript), InvocationScript: bytes.Clone(tx.Scripts[j].InvocationScript)}
			}
			if len(fresh.Scripts) == 0 || !f(&fresh.Scripts[c.r.Intn(len(fresh.Scripts))]) {
				return false
			}
			m.Transactions[i] = fresh
			return true
		}
		add("tx-verification-script-altered:same-signature", true, func(m *block.Block) bool {
			return reWitness(m, func(w *transaction.Witness) bool {
				if len(w.VerificationScript) == 0 {
					return false
				}
				w.VerificationScript = append(w.VerificationScript, byte(opcode.NOP))
				return true
			})
		})
		add("tx-verification-script-of-another-key:same-signature", true, func(m *block.Block) bool {
			return reWitness(m, func(w *transaction.Witness) bool {
				if len(w.VerificationScript) < 35 {
					return false
				}
				w.VerificationScript[10] ^= 0x40
				return true
			})
		})
		add("tx-signature-bit-flipped", true, func(m *block.Block) bool {
			return reWitness(m, func(w *transaction.Witness) bool {
				if len(w.InvocationScript) < 10 {
					return false
				}
				w.InvocationScript[len(w.InvocationScript)/2] ^= 0x04
				return true
			})
		})
		add("tx-invocation-script-with-extra-push", true, func(m *block.Block) bool {
			return reWitness(m, func(w *transaction.Witness) bool {
				if len(w.InvocationScript) == 0 {
					return false
				}
				w.InvocationScript = append(w.InvocationScript, byte(opcode.PUSH1))
				return true
			})
		})
		add("tx-witness-dropped:resigned", true, func(m *block.Block) bool {
			tx := m.Transactions[0]
			fresh := transaction.New(tx.Script, tx.SystemFee)
			fresh.Nonce, fresh.NetworkFee, fresh.ValidUntilBlock, fresh.Signers, fresh.Attributes = tx.Nonce, tx.NetworkFee, tx.ValidUntilBlock, tx.Signers, tx.Attributes
			fresh.Scripts = make([]transaction.Witness, len(tx.Scripts))
			for i := range fresh.Scripts {
				fresh.Scripts[i] = transaction.Witness{VerificationScript: tx.Scripts[i].VerificationScript, InvocationScript: []byte{byte(opcode.PUSHDATA1), 64, 1, 2, 3}}
			}
			m.Transactions[0] = fresh
			rebuild(m)
			return true
		})
	}
	u := c.p.Users[c.r.Intn(4)]
	abort := []byte{byte(opcode.RET)}
	withTx := func(name string, mk func() []*transaction.Transaction) {
		add(name+":resigned", true, func(m *block.Block) bool {
			txs := mk()
			if txs == nil {
				return false
			}
			m.Transactions = append(m.Transactions, txs...)
			rebuild(m)
			return true
		})
	}
	withTx("tx-expired", func() []*transaction.Transaction {
		return []*transaction.Transaction{c.userTx(u, uint32(n-1), 1_0000_0000, 1000_0000, abort)}
	})
	withTx("tx-valid-until-too-far", func() []*transaction.Transaction {
		return []*transaction.Transaction{c.userTx(u, uint32(n+100000), 1_0000_0000, 1000_0000, abort)}
	})
	withTx("tx-network-fee-too-small", func() []*transaction.Transaction {
		return []*transaction.Transaction{c.userTx(u, uint32(n), 1, 1000_0000, abort)}
	})
	withTx("tx-underfunded-sender", func() []*transaction.Transaction {
		return []*transaction.Transaction{c.userTx(u, uint32(n), 1_0000_0000, 900000_0000_0000, abort)}
	})
	withTx("tx-oversized", func() []*transaction.Transaction {
		big := bytes.Repeat([]byte{byte(opcode.NOP)}, transaction.MaxTransactionSize)
		return []*transaction.Transaction{c.userTx(u, uint32(n), 50_0000_0000, 1000_0000, big)}
	})
	withTx("tx-conflicting-pair", func() []*transaction.Transaction {
		t1 := c.userTx(u, uint32(n), 1_0000_0000, 1000_0000, abort)
		t2 := c.userTx(u, uint32(n), 2_0000_0000, 1000_0000, abort, transaction.Attribute{Type: transaction.ConflictsT, Value: &transaction.Conflicts{Hash: t1.Hash()}})
		return []*transaction.Transaction{t1, t2}
	})
	// the same with the conflict named by the second / third of several
	// Conflicts attributes (the others name unknown hashes), attributes of
	// another type in between, and in both orders of the pair within the block
	withTx("tx-conflicting-pair-named-by-later-attribute", func() []*transaction.Transaction {
		t1 := c.userTx(u, uint32(n), 1_0000_0000, 1000_0000, abort)
		cf := func(h util.Uint256) transaction.Attribute {
			return transaction.Attribute{Type: transaction.ConflictsT, Value: &transaction.Conflicts{Hash: h}}
		}
		attrs := []transaction.Attribute{cf(util.Uint256{0xc6, byte(n), 1})}
		if c.r.Intn(2) == 0 {
			attrs = append(attrs, transaction.Attribute{Type: transaction.NotValidBeforeT, Value: &transaction.NotValidBefore{Height: uint32(n - 1)}})
		}
		if c.r.Intn(2) == 0 {
			attrs = append(attrs, cf(util.Uint256{0xc6, byte(n), 2}))
		}
		attrs = append(attrs, cf(t1.Hash()))
		t2 := c.userTx(u, uint32(n), 3_0000_0000, 1000_0000, abort, attrs...)
		if c.r.Intn(2) == 0 {
			return []*transaction.Transaction{t2, t1}
		}
		return []*transaction.Transaction{t1, t2}
	})
	withTx("tx-already-on-chain", func() []*transaction.Transaction {
		for i := n - 2; i >= 0 && i > n-5; i-- {
			if txs := c.h.P.Blocks[i].Transactions; len(txs) > 0 {
				return []*transaction.Transaction{txs[0]}
			}
		}
		return nil
	})
	withTx("tx-unknown-signer-witness", func() []*transaction.Transaction {
		tx := c.userTx(u, uint32(n), 1_0000_0000, 1000_0000, abort)
		tx.Scripts[0].InvocationScript[5] ^= 0x20
		return []*transaction.Transaction{tx}
	})
	// encoding
	raw := vchain.EncodeBlock(b)
	ms = append(ms, mutant{name: "encoding-truncated", raw: raw[:len(raw)-1-c.r.Intn(20)]})
	ms = append(ms, mutant{name: "encoding-header-only", raw: raw[:len(raw)-len(raw)/3]})
	return ms
}

var _ = hash.Sha256

// staleAndConcurrent: see the call site.
// pooledThenConflictedByCosigner: a transaction with two signers is pooled; a
// (correct) block then carries a transaction signed by its SECOND signer only
// that names it in a Conflicts attribute; the next block offered contains the
// pooled transaction. It is invalid from the first block on (an on-chain
// conflict of one of its signers) whether the pool has noticed or not.
func (c *ctx) pooledThenConflictedByCosigner(run *ev.Run, hi, st int) {
	p, h := c.p, c.h
	id := fmt.Sprintf("h%d/state%d/pooled-then-conflicted-by-cosigner", hi, st)
	if !run.Want(id) {
		return
	}
	rep, err := vchain.OpenReplica(c.t, vchain.ReplicaCfg{Name: "c06cosig", Cfg: h.Proto})
	if err != nil {
		c.t.Fatal(err)
	}
	defer func() { rep.Close() }()
	for i := 0; i < st; i++ {
		if err := rep.AddRaw(p.Raw[i]); err != nil {
			c.t.Fatalf("replay: %v", err)
		}
	}
	busy := map[util.Uint160]bool{}
	for _, tx := range p.Blocks[st].Transactions {
		for _, sg := range tx.Signers {
			busy[sg.Account] = true
		}
	}
	var us []*vchain.User
	for _, cand := range p.Users {
		if !busy[cand.Hash()] && !cand.Blocked && rep.BC.GetUtilityTokenBalance(cand.Hash(), util.Uint160{}).Int64() > 100_0000_0000 {
			us = append(us, cand)
		}
	}
	if len(us) < 2 {
		run.Obs("pooled_then_conflicted_skipped", 1)
		return
	}
	u, v := us[0], us[1]
	magic := p.BC.GetConfig().Magic
	victim := transaction.New([]byte{byte(opcode.RET)}, 1000_0000)
	victim.Nonce = uint32(c.r.Uint32())
	victim.ValidUntilBlock = uint32(st + 3)
	victim.NetworkFee = 4000_0000
	victim.Signers = []transaction.Signer{{Account: u.Hash(), Scopes: transaction.CalledByEntry}, {Account: v.Hash(), Scopes: transaction.CalledByEntry}}
	if u.S.SignTx(magic, victim) != nil || v.S.SignTx(magic, victim) != nil {
		c.t.Fatal("sign")
	}
	if err := rep.BC.PoolTx(victim); err != nil {
		run.Obs("pooled_then_conflicted_skipped", 1)
		return
	}
	k := c.userTx(v, uint32(st+2), 4000_0000, 1000_0000, []byte{byte(opcode.RET)}, transaction.Attribute{Type: transaction.ConflictsT, Value: &transaction.Conflicts{Hash: victim.Hash()}})
	a := clone(p.Blocks[st], c.srih)
	a.Transactions = append(a.Transactions, k)
	a.RebuildMerkleRoot()
	c.resign(a)
	ablk, derr := vchain.DecodeBlock(vchain.EncodeBlock(a), c.srih)
	if derr != nil {
		c.t.Fatal(derr)
	}
	if err := rep.BC.AddBlock(ablk); err != nil {
		// the conflicting transaction itself was not acceptable here (fee policy of
		// this height, a blocked account): nothing to observe
		run.Obs("pooled_then_conflicted_skipped", 1)
		return
	}
	run.Case(id, true)
	run.Obs("pooled_then_conflicted_by_cosigner_cases", 1)
	e := neotest.NewExecutor(c.t, rep.BC, p.Val, p.Com)
	b := e.NewUnsignedBlock(c.t, victim)
	e.SignBlock(b)
	bblk, derr := vchain.DecodeBlock(vchain.EncodeBlock(b), c.srih)
	if derr != nil {
		c.t.Fatal(derr)
	}
	opts := p.ObsOpts()
	before := snap(rep, opts)
	wit := map[string]any{"history": 1000 + hi, "state": st, "still_pooled": rep.BC.GetMemPool().ContainsKey(victim.Hash())}
	if err := rep.BC.AddBlock(bblk); err == nil {
		run.Violation("corrupted-block-accepted:pooled-transaction-named-by-on-chain-conflict-of-its-second-signer", id, fmt.Sprintf("transaction pooled at height %d, named by a Conflicts attribute of a transaction of its second signer in block %d, accepted in block %d", st, st+1, st+2), wit)
		return
	}
	after := snap(rep, opts)
	if after.height != before.height {
		run.Violation("rejected-block-changed-height:pooled-then-conflicted-by-cosigner", id, fmt.Sprintf("%d -> %d", before.height, after.height), wit)
	}
}

func (c *ctx) staleAndConcurrent(run *ev.Run, hi, st int) {
	p, h := c.p, c.h
	id := fmt.Sprintf("h%d/state%d/pooled-then-stale", hi, st)
	if !run.Want(id) {
		return
	}
	rep, err := vchain.OpenReplica(c.t, vchain.ReplicaCfg{Name: "c06stale", Cfg: h.Proto})
	if err != nil {
		c.t.Fatal(err)
	}
	defer func() { rep.Close() }()
	for i := 0; i < st; i++ {
		if err := rep.AddRaw(p.Raw[i]); err != nil {
			c.t.Fatalf("replay: %v", err)
		}
	}
	// a user that signs nothing in the next two blocks, so only the validity window moves
	busy := map[util.Uint160]bool{}
	for _, b := range p.Blocks[st : st+3] {
		for _, tx := range b.Transactions {
			for _, sg := range tx.Signers {
				busy[sg.Account] = true
			}
		}
	}
	var u *vchain.User
	for _, cand := range p.Users {
		if !busy[cand.Hash()] && rep.BC.GetUtilityTokenBalance(cand.Hash(), util.Uint160{}).Int64() > 100_0000_0000 {
			u = cand
			break
		}
	}
	if u == nil {
		run.Obs("pooled_then_stale_skipped", 1)
		return
	}
	fee := 20_0000_0000 / 100
	tx := c.userTx(u, uint32(st+2), int64(fee), 1000_0000, []byte{byte(opcode.RET)})
	if err := rep.BC.PoolTx(tx); err != nil {
		run.Obs("pooled_then_stale_skipped", 1)
		return
	}
	empties := 0
	for i := st; i < st+2; i++ {
		if len(p.Blocks[i].Transactions) == 0 {
			empties++
		}
		if err := rep.AddRaw(p.Raw[i]); err != nil {
			c.t.Fatalf("replay: %v", err)
		}
	}
	run.Case(id, true)
	run.Obs("pooled_then_stale_cases", 1)
	run.Obs("pooled_then_stale_empty_blocks_passed", int64(empties))
	opts := p.ObsOpts()
	before := snap(rep, opts)
	m := clone(p.Blocks[st+2], c.srih)
	m.Transactions = append(m.Transactions, tx)
	m.RebuildMerkleRoot()
	c.resign(m)
	blk, derr := vchain.DecodeBlock(vchain.EncodeBlock(m), c.srih)
	if derr != nil {
		c.t.Fatal(derr)
	}
	wit := map[string]any{"history": 1000 + hi, "state": st, "empty_blocks_passed": empties}
	if err := rep.BC.AddBlock(blk); err == nil {
		run.Violation("corrupted-block-accepted:pooled-transaction-expired-meanwhile", id, fmt.Sprintf("transaction pooled at height %d with ValidUntilBlock %d accepted in block %d", st, st+2, st+3), wit)
		return
	}
	after := snap(rep, opts)
	if after.height != before.height || after.pool != before.pool {
		run.Violation("rejected-block-changed-mempool:pooled-then-stale", id, before.pool+" -> "+after.pool, wit)
	}
	// the same (correct) block offered by several goroutines at once is added exactly once
	id2 := fmt.Sprintf("h%d/state%d/concurrent-duplicate-add", hi, st)
	if !run.Want(id2) {
		return
	}
	run.Case(id2, true)
	if rep.BC.HeaderHeight() != rep.BC.BlockHeight() {
		// the rejected block's (valid) header was recorded: take a fresh node
		rep.Close()
		rep, err = vchain.OpenReplica(c.t, vchain.ReplicaCfg{Name: "c06conc", Cfg: h.Proto})
		if err != nil {
			c.t.Fatal(err)
		}
		for i := 0; i < st+2; i++ {
			if err := rep.AddRaw(p.Raw[i]); err != nil {
				c.t.Fatalf("replay: %v", err)
			}
		}
	}
	const par = 4
	errs := make([]error, par)
	var wg sync.WaitGroup
	start := make(chan struct{})
	for g := 0; g < par; g++ {
		b, _ := vchain.DecodeBlock(p.Raw[st+2], c.srih)
		wg.Add(1)
		go func() {
			defer wg.Done()
			<-start
			errs[g] = rep.BC.AddBlock(b)
		}()
	}
	close(start)
	wg.Wait()
	ok := 0
	for _, e := range errs {
		if e == nil {
			ok++
		}
	}
	run.Obs("concurrent_duplicate_adds", 1)
	if ok != 1 {
		run.Violation("same-block-added-more-than-once-concurrently", id2, fmt.Sprintf("%d of %d concurrent AddBlock calls for block %d succeeded", ok, par, st+3), wit)
		return
	}
	if d := p.Obs[st+3].Diff(vchain.Observe(rep.BC, opts)); d != "" {
		run.Violation("state-differs-after-concurrent-duplicate-add", id2, d, wit)
	}
}

func TestCheck(t *testing.T) {
	run := ev.Start("C06", "a case is one (chain state, corrupted block) pair: the valid next block is corrupted in exactly one respect (a header field, the witness, the transaction list with and without a rebuilt and re-signed header, the encoding), serialized, parsed and offered through AddBlock to a node in that state (optionally with the correct next headers already recorded, with pooled transactions); the node's raw database after a flush, full observation, mempool and header chain are compared before/after and the correct block must then be accepted with the reference state root; distinct by (history, state, mutant); every case is non-trivial")
	defer run.Finish()
	run.Assume("single corruptions only; re-signing uses the real validators' keys so that only the semantic check can reject")
	run.Assume("mutations that yield another valid block (fresh nonce / primary / next consensus with a valid signature, reordering or dropping transactions with a rebuilt signed header) are not corruptions and are not offered")
	agedConflicts(t, run)
	for i := 0; i < ev.Pick(4, 60); i++ {
		consensusChange(t, run, i, i%2 == 1)
	}
	for i := 0; i < ev.Pick(3, 30); i++ {
		conflictWindowEdge(t, run, i, i%2 == 1)
	}
	nh := ev.Pick(2, 14)
	nstates := ev.Pick(6, 14)
	nb := ev.Pick(40, 70)
	for hi := 0; hi < nh; hi++ {
		srih := hi%2 == 1
		proto := func(c *config.Blockchain) { vchain.AllForks(c); c.MaxTraceableBlocks = 1000 }
		h := vchain.BuildHistory(t, vchain.HistoryCfg{Idx: 1000 + hi, Blocks: nb, SRIH: srih, Proto: proto, PName: "all-forks"})
		if h.P.Rejected != nil {
			run.Violation("producer-rejected-own-block", fmt.Sprint("h", hi), h.P.Rejected.Error(), nil)
			h.P.Close()
			continue
		}
		p := h.P
		opts := p.ObsOpts()
		r := rng.New(uint64(hi) + 9000)
		c := &ctx{t: t, h: h, p: p, srih: srih, magic: uint32(p.BC.GetConfig().Magic), r: r}
		// states: early, epoch boundaries, random
		states := map[int]bool{1: true, vchain.Epoch - 1: true, vchain.Epoch: true, 2 * vchain.Epoch: true}
		for len(states) < nstates {
			states[2+r.Intn(nb-3)] = true
		}
		var ss []int
		for s := range states {
			ss = append(ss, s)
		}
		sort.Ints(ss)
		run.Sample(map[string]any{"history": 1000 + hi, "state_root_in_header": srih, "states": ss, "tx_kinds": p.KindsSummary()})
		for _, st := range ss {
			n := st + 1 // index of the next block
			for _, ahead := range []bool{false, true} {
				var rep *vchain.Replica
				fresh := func() bool {
					if rep != nil {
						rep.Close()
					}
					var err error
					rep, err = vchain.OpenReplica(t, vchain.ReplicaCfg{Name: "c06", Cfg: h.Proto})
					if err != nil {
						t.Fatal(err)
					}
					for i := 0; i < st; i++ {
						if err := rep.AddRaw(p.Raw[i]); err != nil {
							t.Fatalf("replay: %v", err)
						}
					}
					if st%3 == 1 {
						// the mutants of this state meet a node that has just been restarted:
						// every rule holds from the first block on
						if err := rep.Restart(); err != nil {
							t.Fatalf("restart: %v", err)
						}
						run.Obs("replicas_restarted_before_the_offers", 1)
					}
					// pooled transactions: some of the next block's and some never mined
					for _, tx := range h.Txs[st] {
						if r.Intn(2) == 0 {
							tc := *tx
							_ = rep.BC.PoolTx(&tc)
						}
					}
					if st < len(h.Extras) {
						for _, tx := range h.Extras[st] {
							tc := *tx
							_ = rep.BC.PoolTx(&tc)
						}
					}
					if ahead {
						// header-first sync: the correct next header(s) are already recorded
						if err := rep.AddHeaderRaw(p.Raw[st]); err != nil {
							t.Fatalf("add header: %v", err)
						}
						if st+1 < len(p.Raw) && (st%2 == 0 || r.Intn(2) == 0) {
							_ = rep.AddHeaderRaw(p.Raw[st+1])
						}
						if st%2 == 0 && st+2 < len(p.Raw) {
							_ = rep.AddHeaderRaw(p.Raw[st+2])
						}
					}
					return true
				}
				fresh()
				prevTs := uint64(0)
				if st >= 1 {
					prevTs = p.Blocks[st-1].Timestamp
				}
				ms := c.catalogue(n, prevTs)
				if inv := c.altWitness(p.Blocks[st]); inv != nil && st%2 == 1 {
					// the genuine block under another valid witness (other validators of the
					// same set signed): with the header recorded ahead under the first
					// witness, and without
					m := clone(p.Blocks[st], srih)
					m.Script.InvocationScript = inv
					ms = append([]mutant{{name: "valid:witness-of-another-validator-subset", raw: vchain.EncodeBlock(m), valid: true}}, ms...)
				}
				if ahead {
					// with the header recorded only the body can differ: same hash, other witness
					b := p.Blocks[st]
					var am []mutant
					for _, w := range []struct {
						name string
						inv  []byte
					}{{"witness-garbage-invocation", []byte{byte(opcode.PUSH1)}}, {"witness-empty", nil}, {"witness-one-signature-missing", b.Script.InvocationScript[:len(b.Script.InvocationScript)-66]}} {
						m := clone(b, srih)
						m.Script.InvocationScript = w.inv
						am = append(am, mutant{name: "headers-ahead:" + w.name, raw: vchain.EncodeBlock(m)})
					}
					// the genuine successors, whose headers are recorded too, offered
					// before their predecessor: not the next index, whatever is known ahead
					if st%2 == 0 && st+1 < len(p.Raw) {
						am = append(am, mutant{name: "headers-ahead:genuine-successor-before-its-predecessor", raw: p.Raw[st+1]})
						if st+2 < len(p.Raw) {
							am = append(am, mutant{name: "headers-ahead:genuine-second-successor-before-its-predecessors", raw: p.Raw[st+2]})
						}
					}
					ms = append(am, ms...)
				}
				before := snap(rep, opts)
				for _, m := range ms {
					id := fmt.Sprintf("h%d/state%d/ahead=%v/%s", hi, st, ahead, m.name)
					if !run.Want(id) {
						continue
					}
					wit := map[string]any{"history": 1000 + hi, "state": st, "headers_ahead": ahead, "mutant": m.name, "state_root_in_header": srih, "block_hex": fmt.Sprintf("%x", m.raw)}
					run.Case(id, true)
					blk, derr := vchain.DecodeBlock(m.raw, srih)
					var aerr error
					if derr != nil {
						aerr = derr
						run.Obs("rejected_at_decoding", 1)
					} else {
						func() {
							defer func() {
								if x := recover(); x != nil {
									aerr = fmt.Errorf("panic: %v", x)
									run.Violation("panic-in-AddBlock:"+m.name, id, fmt.Sprint(x), wit)
								}
							}()
							aerr = rep.BC.AddBlock(blk)
						}()
					}
					name := m.name
					if ahead && !strings.HasPrefix(name, "headers-ahead:") {
						name = "headers-ahead:" + name
					}
					if m.valid {
						if aerr != nil {
							run.Violation("correct-block-rejected:"+name, id, fmt.Sprintf("state %d: %v", st, aerr), wit)
						} else {
							run.Obs("correct_blocks_in_another_form_accepted", 1)
						}
						fresh()
						before = snap(rep, opts)
						continue
					}
					if aerr == nil {
						run.Violation("corrupted-block-accepted:"+name, id, fmt.Sprintf("state %d: block with %s was added", st, m.name), wit)
						fresh()
						before = snap(rep, opts)
						continue
					}
					run.Obs("rejections", 1)
					after := snap(rep, opts)
					headerRecorded := after.hh != before.hh || after.hhash != before.hhash
					dirty := false
					if headerRecorded {
						run.Obs("mutant_headers_recorded", 1)
						if !m.headerValid || ahead || after.hh != before.hh+1 {
							run.Violation("rejected-block-changed-header-chain:"+name, id, fmt.Sprintf("header height %d -> %d", before.hh, after.hh), wit)
						}
						dirty = true
					}
					if after.height != before.height {
						run.Violation("rejected-block-changed-height:"+name, id, fmt.Sprintf("%d -> %d", before.height, after.height), wit)
						dirty = true
					}
					if after.trie != "" && before.trie == "" {
						run.Violation("rejected-block-changed-state-read-through-current-root:"+name, id, after.trie, wit)
						dirty = true
					}
					if after.pool != before.pool {
						run.Violation("rejected-block-changed-mempool:"+name, id, fmt.Sprintf("%s -> %s", before.pool, after.pool), wit)
						dirty = true
					}
					skip := func(k string) bool {
						if !headerRecorded || derr != nil {
							return false
						}
						// the only records a valid recorded header may add or change
						hk := append([]byte{byte(storage.DataExecutable)}, blk.Hash().BytesBE()...)
						return k == string(hk) || k[0] == byte(storage.SYSCurrentHeader) || k[0] == byte(storage.IXHeaderHashList)
					}
					if d := vchain.DiffDumps(before.dump, after.dump, skip); d != "" {
						run.Violation("rejected-block-changed-database:"+name, id, d, wit)
						dirty = true
					}
					if d := before.obs.Diff(after.obs); d != "" && !(headerRecorded && strings.HasPrefix(d, "header_height")) {
						run.Violation("rejected-block-changed-observable-state:"+name, id, d, wit)
						dirty = true
					}
					if dirty {
						fresh()
						before = snap(rep, opts)
					}
				}
				// pooled, then stale: a transaction valid and pooled at this state that
				// is no longer valid two blocks later (expired, paid away, conflicted on
				// chain, signer blocked) and then comes in a block; and the same block
				// offered by several goroutines at once
				if !ahead && st+3 < len(p.Blocks) {
					c.staleAndConcurrent(run, hi, st)
					c.pooledThenConflictedByCosigner(run, hi, st)
					c.witnessTurnsInvalid(run, hi, st)
				}
				// late rejection: with state roots in headers, a block whose successor
				// header (already recorded, validly signed) names another previous
				// state root is rejected only after it was fully executed; nothing of
				// that execution may stay behind
				if srih && !ahead && st+1 < len(p.Blocks) {
					id := fmt.Sprintf("h%d/state%d/late-rejection", hi, st)
					if run.Want(id) {
						run.Case(id, true)
						lcfg := h.Proto
						if st%2 == 1 {
							lcfg = func(c *config.Blockchain) { h.Proto(c); c.KeepOnlyLatestState = true }
						}
						lr, err := vchain.OpenReplica(t, vchain.ReplicaCfg{Name: "c06late", Cfg: lcfg})
						if err != nil {
							t.Fatal(err)
						}
						for i := 0; i < st; i++ {
							if err := lr.AddRaw(p.Raw[i]); err != nil {
								t.Fatalf("replay: %v", err)
							}
						}
						for _, tx := range h.Txs[st] {
							if r.Intn(2) == 0 {
								tc := *tx
								_ = lr.BC.PoolTx(&tc)
							}
						}
						next := clone(p.Blocks[st+1], srih)
						next.PrevStateRoot[5] ^= 0x21
						c.resign(next)
						nh, _ := vchain.DecodeBlock(vchain.EncodeBlock(next), srih)
						if err := lr.BC.AddHeaders(&p.Blocks[st].Header, &nh.Header); err != nil {
							run.Obs("late_rejection_headers_refused", 1)
						} else {
							bsnap := snap(lr, opts)
							var aerr error
							func() {
								defer func() {
									if x := recover(); x != nil {
										aerr = nil
										run.Violation("panic-in-AddBlock:late-rejection", id, fmt.Sprint(x), nil)
									}
								}()
								aerr = lr.AddRaw(p.Raw[st])
							}()
							wit := map[string]any{"history": 1000 + hi, "state": st, "tx_kinds": p.KindLog[st]}
							if aerr == nil {
								run.Violation("corrupted-block-accepted:successor-header-names-other-state-root", id, "block accepted although the recorded next header carries another PrevStateRoot", wit)
							} else {
								run.Obs("late_rejections", 1)
								asnap := snap(lr, opts)
								run.Obs("late_rejection_state_reads_at_current_root", 1)
								if tr := trieReads(lr, opts, 0); tr != "" && bsnap.trie == "" {
									run.Violation("rejected-block-changed-state-read-through-current-root:late-rejection", id, tr, wit)
								} else if asnap.height != bsnap.height {
									run.Violation("rejected-block-changed-height:late-rejection", id, fmt.Sprintf("%d -> %d", bsnap.height, asnap.height), wit)
								} else if d := vchain.DiffDumps(bsnap.dump, asnap.dump, nil); d != "" {
									run.Violation("rejected-block-changed-database:late-rejection", id, d, wit)
								} else if d := bsnap.obs.Diff(asnap.obs); d != "" {
									run.Violation("rejected-block-changed-observable-state:late-rejection", id, d, wit)
								} else if asnap.pool != bsnap.pool {
									run.Violation("rejected-block-changed-mempool:late-rejection", id, bsnap.pool+" -> "+asnap.pool, wit)
								}
							}
						}
						lr.Close()
					}
				}
				// the correct block is still accepted and leads to the reference state
				id := fmt.Sprintf("h%d/state%d/ahead=%v/correct-block", hi, st, ahead)
				if run.Want(id) {
					run.Case(id, true)
					if err := rep.AddRaw(p.Raw[st]); err != nil {
						run.Violation("correct-block-rejected-after-corrupted-ones", id, err.Error(), map[string]any{"history": 1000 + hi, "state": st, "headers_ahead": ahead})
					} else if d := p.Obs[n].Diff(vchain.Observe(rep.BC, opts)); d != "" && !(ahead && strings.HasPrefix(d, "header_height")) {
						run.Violation("state-differs-after-correct-block", id, d, map[string]any{"history": 1000 + hi, "state": st})
					} else {
						run.Obs("correct_blocks_accepted_afterwards", 1)
					}
				}
				rep.Close()
			}
		}
		p.Close()
	}
	_ = neotest.Nonce
}

package c06

import (
	"fmt"

	"github.com/nspcc-dev/neo-go/pkg/core/native/nativehashes"
	"github.com/nspcc-dev/neo-go/pkg/core/transaction"
	"github.com/nspcc-dev/neo-go/pkg/crypto/hash"
	"github.com/nspcc-dev/neo-go/pkg/io"
	"github.com/nspcc-dev/neo-go/pkg/smartcontract/callflag"
	"github.com/nspcc-dev/neo-go/pkg/util"
	"github.com/nspcc-dev/neo-go/pkg/vm/emit"
	"github.com/nspcc-dev/neo-go/pkg/vm/opcode"
	"github.com/nspcc-dev/neo-go/verifharness/vlib/ev"
	"github.com/nspcc-dev/neo-go/verifharness/vlib/vchain"
)

// witnessTurnsInvalid: a transaction with a second signer whose verification
// script is not a standard one and depends on ledger state ("the chain is
// still below height H") is pooled while the script holds; the chain then grows
// past H, so the witness no longer verifies; the transaction arrives in a
// validly signed block. Individually invalid => the block must be rejected and
// change nothing, whatever the node's pool remembers.
func (c *ctx) witnessTurnsInvalid(run *ev.Run, hi, st int) {
	p, h := c.p, c.h
	id := fmt.Sprintf("h%d/state%d/pooled-then-witness-invalid", hi, st)
	if !run.Want(id) || st+3 > len(p.Blocks) {
		return
	}
	rep, err := vchain.OpenReplica(c.t, vchain.ReplicaCfg{Name: "c06wit", Cfg: h.Proto})
	if err != nil {
		c.t.Fatal(err)
	}
	defer func() { rep.Close() }()
	for i := 0; i < st; i++ {
		if err := rep.AddRaw(p.Raw[i]); err != nil {
			c.t.Fatalf("replay: %v", err)
		}
	}
	busy := map[util.Uint160]bool{}
	for _, b := range p.Blocks[st : st+3] {
		for _, tx := range b.Transactions {
			for _, sg := range tx.Signers {
				busy[sg.Account] = true
			}
		}
	}
	var u *vchain.User
	for _, cand := range p.Users {
		if !busy[cand.Hash()] && !cand.Blocked && rep.BC.GetUtilityTokenBalance(cand.Hash(), util.Uint160{}).Int64() > 100_0000_0000 {
			u = cand
			break
		}
	}
	if u == nil {
		run.Obs("pooled_then_witness_invalid_skipped", 1)
		return
	}
	// verification script: Ledger.currentIndex() < st+2
	w := io.NewBufBinWriter()
	emit.AppCall(w.BinWriter, nativehashes.LedgerContract, "currentIndex", callflag.ReadStates)
	emit.Int(w.BinWriter, int64(st+2))
	emit.Opcodes(w.BinWriter, opcode.LT)
	vs := w.Bytes()
	tx := transaction.New([]byte{byte(opcode.RET)}, 1000_0000)
	tx.Nonce = uint32(c.r.Uint32())
	tx.ValidUntilBlock = uint32(st + 4)
	tx.NetworkFee = 1_0000_0000
	tx.Signers = []transaction.Signer{{Account: u.Hash(), Scopes: transaction.CalledByEntry}, {Account: hash.Hash160(vs), Scopes: transaction.None}}
	if err := u.S.SignTx(p.BC.GetConfig().Magic, tx); err != nil {
		c.t.Fatal(err)
	}
	tx.Scripts = append(tx.Scripts, transaction.Witness{InvocationScript: []byte{}, VerificationScript: vs})
	if err := rep.BC.PoolTx(tx); err != nil {
		run.Obs("pooled_then_witness_invalid_skipped", 1)
		run.Note("pooled_then_witness_invalid_pool_error", err.Error())
		return
	}
	for i := st; i < st+2; i++ {
		if err := rep.AddRaw(p.Raw[i]); err != nil {
			c.t.Fatalf("replay: %v", err)
		}
	}
	run.Case(id, true)
	run.Obs("pooled_then_witness_invalid_cases", 1)
	opts := p.ObsOpts()
	before := snap(rep, opts)
	m := clone(p.Blocks[st+2], c.srih)
	m.Transactions = append(m.Transactions, tx)
	m.RebuildMerkleRoot()
	c.resign(m)
	blk, derr := vchain.DecodeBlock(vchain.EncodeBlock(m), c.srih)
	if derr != nil {
		c.t.Fatal(derr)
	}
	wit := map[string]any{"history": 1000 + hi, "state": st, "verification_script": fmt.Sprintf("%x", vs)}
	if err := rep.BC.AddBlock(blk); err == nil {
		run.Violation("corrupted-block-accepted:pooled-transaction-witness-invalid-meanwhile", id, fmt.Sprintf("transaction pooled at height %d with a witness script that holds below height %d accepted in block %d", st, st+2, st+3), wit)
		return
	}
	after := snap(rep, opts)
	if after.height != before.height || after.pool != before.pool {
		run.Violation("rejected-block-changed-mempool:pooled-then-witness-invalid", id, before.pool+" -> "+after.pool, wit)
	}
}

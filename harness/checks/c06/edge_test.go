package c06

import (
	"fmt"
	"testing"

	"github.com/nspcc-dev/neo-go/pkg/config"
	"github.com/nspcc-dev/neo-go/pkg/core/transaction"
	"github.com/nspcc-dev/neo-go/pkg/vm/opcode"
	"github.com/nspcc-dev/neo-go/verifharness/vlib/ev"
	"github.com/nspcc-dev/neo-go/verifharness/vlib/vchain"
)

// conflictWindowEdge: transaction K in block i names V (same signer) as a
// conflict; the record counts up to and including chain height
// i+MaxTraceableBlocks-1. A validly signed block carrying V is offered to a
// fresh node at every tip height from i to that edge: it must be rejected and
// change nothing; the same block with an unnamed twin instead of V is
// accepted (when the twin's validity window has opened).
func conflictWindowEdge(t *testing.T, run *ev.Run, idx int, srih bool) {
	mtb := []uint32{5, 8, 11}[idx%3]
	base := fmt.Sprintf("conflict-window-edge/mtb%d/srih=%v", mtb, srih)
	if !run.Want(base) {
		return
	}
	cfg := func(b *config.Blockchain) {
		vchain.AllForks(b)
		b.MaxTraceableBlocks = mtb
		b.MaxValidUntilBlockIncrement = max(mtb/2, 2)
		b.StateRootInHeader = srih
	}
	p := vchain.NewProducer(t, vchain.ProducerConfig{Proto: cfg, Users: 3, Stream: 87_000 + uint64(idx), TolerateReject: true})
	defer p.Close()
	u := p.Users[0]
	mk := func(vub uint32, attrs ...transaction.Attribute) *transaction.Transaction {
		tx := transaction.New([]byte{byte(opcode.PUSH1)}, 100_0000)
		tx.Nonce = uint32(p.R.Uint32())
		tx.ValidUntilBlock = vub
		tx.NetworkFee = 2_0000_0000
		tx.Attributes = attrs
		tx.Signers = []transaction.Signer{{Account: u.Hash(), Scopes: transaction.CalledByEntry}}
		if err := u.S.SignTx(p.BC.GetConfig().Magic, tx); err != nil {
			t.Fatal(err)
		}
		return tx
	}
	for range 1 + idx%2 {
		p.AddBlock()
	}
	i := p.Height() + 1
	victim, twin := mk(i+mtb+1), mk(i+mtb+1)
	k := mk(i, transaction.Attribute{Type: transaction.ConflictsT, Value: &transaction.Conflicts{Hash: victim.Hash()}})
	if p.AddBlock(k) == nil {
		run.Violation("producer-rejected-own-block", base, p.Rejected.Error(), nil)
		return
	}
	run.Case(base, true)
	opts := p.ObsOpts()
	for p.Height() <= i+mtb-1 {
		tip := p.Height()
		id := fmt.Sprintf("%s/tip%d", base, tip)
		rep, err := vchain.OpenReplica(t, vchain.ReplicaCfg{Name: "c06edge", Cfg: cfg})
		if err != nil {
			t.Fatal(err)
		}
		for _, raw := range p.Raw {
			if err := rep.AddRaw(raw); err != nil {
				t.Fatalf("replay: %v", err)
			}
		}
		wit := map[string]any{"max_traceable_blocks": mtb, "conflict_at": i, "tip": tip, "state_root_in_header": srih}
		before := snap(rep, opts)
		bad, derr := vchain.DecodeBlock(vchain.EncodeBlock(p.NewBlock(victim)), srih)
		if derr != nil {
			t.Fatal(derr)
		}
		if err := rep.BC.AddBlock(bad); err == nil {
			run.Violation("corrupted-block-accepted:tx-named-by-on-chain-conflict-at-the-edge-of-the-traceable-window", id,
				fmt.Sprintf("tip %d: block with the transaction named by the transaction of its signer in block %d (traceable up to tip %d, MaxTraceableBlocks %d) was added", tip, i, i+mtb-1, mtb), wit)
			rep.Close()
			return
		}
		run.Obs("conflict_window_edge_rejections", 1)
		if tip == i+mtb-1 {
			run.Obs("conflict_window_edges_probed", 1)
		}
		after := snap(rep, opts)
		if after.height != before.height || after.pool != before.pool || vchain.DiffDumps(before.dump, after.dump, nil) != "" && after.hh == before.hh {
			run.Violation("rejected-block-changed-state:conflict-window-edge", id, fmt.Sprintf("height %d -> %d", before.height, after.height), wit)
		}
		rep.Close()
		// the unnamed twin gets in as soon as its validity window is open
		if tip+p.BC.GetMaxValidUntilBlockIncrement() >= twin.ValidUntilBlock {
			rep2, err := vchain.OpenReplica(t, vchain.ReplicaCfg{Name: "c06edge2", Cfg: cfg})
			if err != nil {
				t.Fatal(err)
			}
			for _, raw := range p.Raw {
				if err := rep2.AddRaw(raw); err != nil {
					t.Fatalf("replay: %v", err)
				}
			}
			good, _ := vchain.DecodeBlock(vchain.EncodeBlock(p.NewBlock(twin)), srih)
			if err := rep2.BC.AddBlock(good); err != nil {
				run.Violation("correct-block-rejected:unnamed-twin-of-conflicted-transaction", id, err.Error(), wit)
			} else {
				run.Obs("conflict_window_edge_twin_blocks_accepted", 1)
			}
			rep2.Close()
		}
		if p.AddBlock() == nil {
			run.Violation("producer-rejected-own-block", base, p.Rejected.Error(), nil)
			return
		}
	}
}

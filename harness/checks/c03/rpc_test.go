package c03

import (
	"bytes"
	"fmt"
	"sort"
	"strings"

	"github.com/nspcc-dev/neo-go/pkg/core"
	"github.com/nspcc-dev/neo-go/pkg/core/transaction"
	"github.com/nspcc-dev/neo-go/pkg/neorpc/result"
	"github.com/nspcc-dev/neo-go/pkg/util"
	"github.com/nspcc-dev/neo-go/verifharness/vlib/ev"
	"github.com/nspcc-dev/neo-go/verifharness/vlib/rng"
	"github.com/nspcc-dev/neo-go/verifharness/vlib/vchain"
	"github.com/nspcc-dev/neo-go/verifharness/vlib/vrpc"
)

// contractAt is a deployed contract as it existed at some height.
type contractAt struct {
	id   int32
	hash util.Uint160
}

// rpcHeight asks the node's JSON-RPC server (the way wallets, explorers and
// other nodes' state services read old states) for the state of height hh and
// compares every answer with what was recorded live at hh: state root,
// historic storage reads by contract hash and by id (contracts destroyed later
// included), paged historic searches, raw state reads, proofs issued and
// verified by the server, and historic invocations.
func rpcHeight(run *ev.Run, n *vrpc.Node, bc *core.Blockchain, hh uint32, obs *vchain.Observation, rec *heightRec, r *rng.R) *viol {
	c := n.Client
	root, err := util.Uint256DecodeStringLE(obs.Vals[3])
	if err != nil {
		return nil
	}
	sr, err := c.GetStateRootByHeight(hh)
	if err != nil {
		return &viol{"rpc:getstateroot-fails", fmt.Sprintf("height %d: %v", hh, err)}
	}
	if sr.Root != root {
		return &viol{"rpc:state-root-differs-from-live", fmt.Sprintf("height %d: %s vs %s", hh, sr.Root.StringLE(), root.StringLE())}
	}
	var cs []contractAt
	for _, nat := range bc.GetNatives() {
		cs = append(cs, contractAt{nat.ID, nat.Hash})
	}
	if rec != nil {
		cs = append(cs, rec.contracts...)
	}
	sort.Slice(cs, func(i, j int) bool { return cs[i].id < cs[j].id })
	for _, ct := range cs {
		kvs := obs.Storage[ct.id]
		if len(kvs) == 0 {
			continue
		}
		run.Obs("rpc_contracts_read_at_old_roots", 1)
		// point reads
		for k := 0; k < 4; k++ {
			kv := kvs[r.Intn(len(kvs))]
			where := fmt.Sprintf("height %d contract %d (%s) key %x", hh, ct.id, ct.hash.StringLE(), kv.K)
			run.Obs("rpc_point_reads", 4)
			if v, err := c.GetStorageByHashHistoric(root, ct.hash, kv.K); err != nil || !bytes.Equal(v, kv.V) {
				return &viol{"rpc:getstoragehistoric-by-hash-differs-from-live", fmt.Sprintf("%s: got %x (err %v), live %x", where, v, err, kv.V)}
			}
			if v, err := c.GetStorageByIDHistoric(root, ct.id, kv.K); err != nil || !bytes.Equal(v, kv.V) {
				return &viol{"rpc:getstoragehistoric-by-id-differs-from-live", fmt.Sprintf("%s: got %x (err %v), live %x", where, v, err, kv.V)}
			}
			if v, err := c.GetState(root, ct.hash, kv.K); err != nil || !bytes.Equal(v, kv.V) {
				return &viol{"rpc:getstate-differs-from-live", fmt.Sprintf("%s: got %x (err %v), live %x", where, v, err, kv.V)}
			}
			proof, err := c.GetProof(root, ct.hash, kv.K)
			if err != nil {
				return &viol{"rpc:getproof-fails-for-present-key", fmt.Sprintf("%s: %v", where, err)}
			}
			if v, err := c.VerifyProof(root, proof); err != nil || !bytes.Equal(v, kv.V) {
				return &viol{"rpc:verifyproof-of-present-key-fails", fmt.Sprintf("%s: got %x (err %v), live %x", where, v, err, kv.V)}
			}
			// the same proof offered for an absent key must not verify
			absent := append(bytes.Clone(kv.K), 0x7e)
			present := false
			for _, o := range kvs {
				if bytes.Equal(o.K, absent) {
					present = true
				}
			}
			if !present && len(absent) <= 64 {
				forged := &result.ProofWithKey{Key: append(bytes.Clone(proof.Key), 0x7e), Proof: proof.Proof}
				if v, err := c.VerifyProof(root, forged); err == nil {
					return &viol{"rpc:verifyproof-accepts-absent-key", fmt.Sprintf("%s: key %x verified to %x", where, absent, v)}
				}
				if v, err := c.GetStorageByHashHistoric(root, ct.hash, absent); err == nil && len(v) > 0 {
					return &viol{"rpc:getstoragehistoric-returns-value-for-absent-key", fmt.Sprintf("%s: key %x -> %x", where, absent, v)}
				}
				run.Obs("rpc_absent_keys_probed", 1)
			}
		}
		if len(kvs) > 300 {
			continue
		}
		// paged searches: findstoragehistoric (by hash and by id) and findstates
		for _, byID := range []bool{false, true} {
			var got []vchain.KV
			start := 0
			for guard := 0; guard < 100; guard++ {
				var fs result.FindStorage
				var err error
				if byID {
					fs, err = c.FindStorageByIDHistoric(root, ct.id, nil, &start)
				} else {
					fs, err = c.FindStorageByHashHistoric(root, ct.hash, nil, &start)
				}
				if err != nil {
					return &viol{"rpc:findstoragehistoric-fails", fmt.Sprintf("height %d contract %d by-id=%v start %d: %v", hh, ct.id, byID, start, err)}
				}
				for _, kv := range fs.Results {
					got = append(got, vchain.KV{K: kv.Key, V: kv.Value})
				}
				if !fs.Truncated {
					break
				}
				start = fs.Next
			}
			run.Obs("rpc_paged_historic_searches", 1)
			if d := diffKVs(got, kvs); d != "" {
				return &viol{"rpc:findstoragehistoric-differs-from-live", fmt.Sprintf("height %d contract %d (%s) by-id=%v: %s", hh, ct.id, ct.hash.StringLE(), byID, d)}
			}
		}
		// the same with prefixes cut from the stored keys (1 and 2 bytes, a whole
		// shorter key): the answer is the matching part of the live content
		{
			seen := map[string]bool{}
			var pfxs [][]byte
			for _, kv := range kvs {
				for _, n := range []int{1, 2, len(kv.K) - 1, len(kv.K) - 2} {
					if n >= 1 && n <= len(kv.K) && !seen[string(kv.K[:n])] && len(pfxs) < 6 {
						seen[string(kv.K[:n])] = true
						pfxs = append(pfxs, kv.K[:n])
					}
				}
			}
			for _, pfx := range pfxs {
				var want, got []vchain.KV
				for _, kv := range kvs {
					if bytes.HasPrefix(kv.K, pfx) {
						want = append(want, kv)
					}
				}
				start := 0
				for guard := 0; guard < 100; guard++ {
					fs, err := c.FindStorageByHashHistoric(root, ct.hash, pfx, &start)
					if err != nil {
						return &viol{"rpc:findstoragehistoric-fails", fmt.Sprintf("height %d contract %d prefix %x start %d: %v", hh, ct.id, pfx, start, err)}
					}
					for _, kv := range fs.Results {
						got = append(got, vchain.KV{K: kv.Key, V: kv.Value})
					}
					if !fs.Truncated {
						break
					}
					start = fs.Next
				}
				run.Obs("rpc_prefixed_historic_searches", 1)
				if d := diffKVs(got, want); d != "" {
					return &viol{"rpc:findstoragehistoric-with-prefix-differs-from-live", fmt.Sprintf("height %d contract %d (%s) prefix %x: %s", hh, ct.id, ct.hash.StringLE(), pfx, d)}
				}
			}
		}
		{
			var got []vchain.KV
			var start []byte
			page := 1 + r.Intn(9)
			for guard := 0; guard < 400; guard++ {
				fs, err := c.FindStates(root, ct.hash, nil, start, &page)
				if err != nil {
					return &viol{"rpc:findstates-fails", fmt.Sprintf("height %d contract %d start %x: %v", hh, ct.id, start, err)}
				}
				for _, kv := range fs.Results {
					got = append(got, vchain.KV{K: kv.Key, V: kv.Value})
				}
				if !fs.Truncated || len(fs.Results) == 0 {
					break
				}
				start = fs.Results[len(fs.Results)-1].Key
			}
			run.Obs("rpc_paged_findstates", 1)
			if d := diffKVs(got, kvs); d != "" {
				return &viol{"rpc:findstates-differs-from-live", fmt.Sprintf("height %d contract %d (%s) page %d: %s", hh, ct.id, ct.hash.StringLE(), page, d)}
			}
		}
	}
	// historic invocations through the server
	if rec != nil {
		signers := []transaction.Signer{{Account: util.Uint160{1}}}
		for i, s := range rec.scripts {
			if r.Intn(3) != 0 {
				continue
			}
			res, err := c.InvokeScriptWithState(root, s.script, signers)
			if err != nil {
				return &viol{"rpc:historic-invocation-fails", fmt.Sprintf("height %d %s: %v", hh, s.name, err)}
			}
			got := fmt.Sprintf("%s gas=%d fault=%v stack=%s", res.State, res.GasConsumed, res.FaultException != "", stackString(res.Stack))
			run.Obs("rpc_historic_invocations", 1)
			if got != rec.live[i] && !strings.Contains(rec.live[i], "InteropInterface") {
				return &viol{"rpc:historic-result-differs:" + s.name, fmt.Sprintf("height %d %s\n live %s\n rpc  %s", hh, s.name, rec.live[i], got)}
			}
		}
	}
	return nil
}

func diffKVs(got, want []vchain.KV) string {
	if len(got) != len(want) {
		return fmt.Sprintf("%d items, live storage had %d", len(got), len(want))
	}
	for i := range want {
		if !bytes.Equal(got[i].K, want[i].K) {
			return fmt.Sprintf("position %d: key %x, live %x", i, got[i].K, want[i].K)
		}
		if !bytes.Equal(got[i].V, want[i].V) {
			return fmt.Sprintf("key %x: value %x, live %x", want[i].K, got[i].V, want[i].V)
		}
	}
	return ""
}

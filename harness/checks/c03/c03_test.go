// Package c03 decides property C03 (the state root of every height commits
// exactly to contract storage): the storage recorded live right after each
// block is compared, later and after a restart, with everything that can be
// read through that height's state root.
package c03

import (
	"bytes"
	"encoding/binary"
	"fmt"
	"sort"
	"strings"
	"sync"
	"testing"

	"github.com/nspcc-dev/neo-go/pkg/config"
	"github.com/nspcc-dev/neo-go/pkg/core"
	"github.com/nspcc-dev/neo-go/pkg/core/block"
	"github.com/nspcc-dev/neo-go/pkg/core/mpt"
	"github.com/nspcc-dev/neo-go/pkg/core/transaction"
	"github.com/nspcc-dev/neo-go/pkg/io"
	"github.com/nspcc-dev/neo-go/pkg/smartcontract/callflag"
	"github.com/nspcc-dev/neo-go/pkg/smartcontract/trigger"
	"github.com/nspcc-dev/neo-go/pkg/util"
	"github.com/nspcc-dev/neo-go/pkg/vm/emit"
	"github.com/nspcc-dev/neo-go/pkg/vm/stackitem"
	"github.com/nspcc-dev/neo-go/verifharness/vlib/ev"
	"github.com/nspcc-dev/neo-go/verifharness/vlib/rng"
	"github.com/nspcc-dev/neo-go/verifharness/vlib/vchain"
	"github.com/nspcc-dev/neo-go/verifharness/vlib/vrpc"
)

type roScript struct {
	name   string
	script []byte
}

func call(h util.Uint160, m string, args ...any) []byte {
	w := io.NewBufBinWriter()
	emit.AppCall(w.BinWriter, h, m, callflag.ReadOnly, args...)
	return w.Bytes()
}

// runRO executes a read-only script live (historicNext == 0) or in the
// historic context whose next block is historicNext.
func runRO(bc *core.Blockchain, script []byte, historicNext uint32) (res string) {
	defer func() {
		if x := recover(); x != nil {
			res = fmt.Sprintf("PANIC %v", x)
		}
	}()
	tx := transaction.New(script, 0)
	tx.Signers = []transaction.Signer{{Account: util.Uint160{1}}}
	var (
		ic  interface{ Finalize() }
		err error
	)
	if historicNext == 0 {
		c, e := bc.GetTestVM(trigger.Application, tx, nil)
		if e != nil {
			return "ERR " + e.Error()
		}
		ic = c
		c.VM.LoadWithFlags(script, callflag.ReadOnly)
		err = c.VM.Run()
		res = fmt.Sprintf("%s gas=%d fault=%v stack=%s", c.VM.State(), c.VM.GasConsumed(), err != nil, stackString(c.VM.Estack().ToArray()))
	} else {
		c, e := bc.GetTestHistoricVM(trigger.Application, tx, historicNext)
		if e != nil {
			return "ERR " + e.Error()
		}
		ic = c
		c.VM.LoadWithFlags(script, callflag.ReadOnly)
		err = c.VM.Run()
		res = fmt.Sprintf("%s gas=%d fault=%v stack=%s", c.VM.State(), c.VM.GasConsumed(), err != nil, stackString(c.VM.Estack().ToArray()))
	}
	ic.Finalize()
	return res
}

func stackString(items []stackitem.Item) string {
	var b strings.Builder
	for _, it := range items {
		b.WriteString(vchain.ItemString(it))
		b.WriteByte(',')
	}
	return b.String()
}

type heightRec struct {
	scripts   []roScript
	live      []string
	contracts []contractAt // deployed contracts alive at this height
}

func catalogue(p *vchain.Producer, r *rng.R) []roScript {
	u := p.Users[r.Intn(len(p.Users))]
	c := p.Users[2+r.Intn(len(p.Users)-2)]
	s := []roScript{
		{"neo.getCandidates", call(p.NeoH, "getCandidates")},
		{"neo.getCommittee", call(p.NeoH, "getCommittee")},
		{"neo.getNextBlockValidators", call(p.NeoH, "getNextBlockValidators")},
		{"neo.getAccountState", call(p.NeoH, "getAccountState", u.Hash())},
		{"neo.balanceOf", call(p.NeoH, "balanceOf", u.Hash())},
		{"neo.unclaimedGas", call(p.NeoH, "unclaimedGas", u.Hash(), int64(p.Height()+1))},
		{"neo.getCandidateVote", call(p.NeoH, "getCandidateVote", c.Acc.PublicKey().Bytes())},
		{"neo.getGasPerBlock", call(p.NeoH, "getGasPerBlock")},
		{"neo.getRegisterPrice", call(p.NeoH, "getRegisterPrice")},
		{"gas.balanceOf", call(p.GasH, "balanceOf", u.Hash())},
		{"gas.totalSupply", call(p.GasH, "totalSupply")},
		{"policy.getFeePerByte", call(p.PolH, "getFeePerByte")},
		{"policy.getExecFeeFactor", call(p.PolH, "getExecFeeFactor")},
		{"policy.getStoragePrice", call(p.PolH, "getStoragePrice")},
		{"policy.isBlocked", call(p.PolH, "isBlocked", c.Hash())},
		{"policy.getAttributeFee", call(p.PolH, "getAttributeFee", int64(transaction.ConflictsT))},
		{"notary.balanceOf", call(p.NotaryH, "balanceOf", u.Hash())},
		{"notary.expirationOf", call(p.NotaryH, "expirationOf", u.Hash())},
		{"role.getDesignatedByRole(oracle)", call(p.RoleH, "getDesignatedByRole", int64(8), int64(p.Height()+1))},
		{"role.getDesignatedByRole(statevalidator)", call(p.RoleH, "getDesignatedByRole", int64(4), int64(p.Height()+1))},
		{"role.getDesignatedByRole(neofs)", call(p.RoleH, "getDesignatedByRole", int64(16), int64(p.Height()+1))},
		{"role.getDesignatedByRole(notary)", call(p.RoleH, "getDesignatedByRole", int64(32), int64(p.Height()+1))},
		{"role.getDesignatedByRole(earlier)", call(p.RoleH, "getDesignatedByRole", int64([]int{4, 8, 16, 32}[r.Intn(4)]), int64(r.Intn(int(p.Height())+1)))},
		{"management.getContract(neo)", call(p.MgmtH, "getContract", p.NeoH)},
	}
	for _, d := range p.Live {
		pfx := []string{"a", "ab", "k", ""}[r.Intn(4)]
		s = append(s,
			roScript{"management.getContract(helper)", call(p.MgmtH, "getContract", d.Hash)},
			roScript{"helper.count", call(d.Hash, "count", []byte(pfx), r.Intn(2) == 0)},
			roScript{"helper.fold", call(d.Hash, "fold", []byte(pfx), r.Intn(2) == 0)},
			roScript{"helper.get", call(d.Hash, "get", []byte("ab"))},
			roScript{"helper.get(any-key)", call(d.Hash, "get", vchain.KeyUniverse()[r.Intn(len(vchain.KeyUniverse()))])},
			roScript{"helper.get(longest-key)", call(d.Hash, "get", vchain.KeyUniverse()[len(vchain.KeyUniverse())-1-r.Intn(2)])},
		)
	}
	return s
}

func fullKey(id int32, k []byte) []byte {
	b := make([]byte, 4, 4+len(k))
	binary.LittleEndian.PutUint32(b, uint32(id))
	return append(b, k...)
}

type viol struct{ sig, detail string }

// checkHeight compares everything readable through root_h with the storage
// recorded live at h.
func checkHeight(run *ev.Run, bc *core.Blockchain, h uint32, obs *vchain.Observation, rec *heightRec, everDeleted map[string]bool, r *rng.R, tier string) (res *viol) {
	defer func() {
		if x := recover(); x != nil {
			msg := fmt.Sprint(x)
			if i := strings.Index(msg, ":"); i > 0 {
				msg = msg[:i]
			}
			res = &viol{"reading-retained-root-panicked:" + msg, fmt.Sprintf("height %d: %v", h, x)}
		}
	}()
	sm := bc.GetStateModule()
	sr, err := bc.GetStateRoot(h)
	if err != nil {
		return &viol{"state-root-unavailable", fmt.Sprintf("height %d: %v", h, err)}
	}
	if sr.Root.StringLE() != obs.Vals[3] {
		return &viol{"state-root-differs-from-live", fmt.Sprintf("height %d", h)}
	}
	want := map[string][]byte{}
	var ids []int32
	for id := range obs.Storage {
		ids = append(ids, id)
	}
	sort.Slice(ids, func(i, j int) bool { return ids[i] < ids[j] })
	for _, id := range ids {
		for _, kv := range obs.Storage[id] {
			want[string(fullKey(id, kv.K))] = kv.V
		}
	}
	// (1) whole-trie enumeration
	got := map[string][]byte{}
	var order []string
	sm.SeekStates(sr.Root, nil, func(k, v []byte) bool {
		got[string(k)] = bytes.Clone(v)
		order = append(order, string(k))
		return true
	})
	run.Obs("trie_items_enumerated", int64(len(order)))
	if !sort.StringsAreSorted(order) {
		return &viol{"seekstates-not-sorted", fmt.Sprintf("height %d", h)}
	}
	if len(order) != len(got) {
		return &viol{"seekstates-duplicate-key", fmt.Sprintf("height %d", h)}
	}
	for k, v := range want {
		g, ok := got[k]
		if !ok {
			return &viol{"storage-item-missing-from-trie", fmt.Sprintf("height %d key %x", h, k)}
		}
		if !bytes.Equal(g, v) {
			return &viol{"trie-value-differs-from-storage", fmt.Sprintf("height %d key %x trie=%x storage=%x", h, k, g, v)}
		}
	}
	for k := range got {
		if _, ok := want[k]; !ok {
			return &viol{"trie-item-absent-from-storage", fmt.Sprintf("height %d key %x", h, k)}
		}
	}
	// per-contract seek and paged find
	for _, id := range ids {
		kvs := obs.Storage[id]
		if len(kvs) == 0 && r.Intn(4) != 0 {
			continue
		}
		pfx := fullKey(id, nil)
		var seen []string
		sm.SeekStates(sr.Root, pfx, func(k, v []byte) bool { seen = append(seen, string(k)); return true })
		if len(seen) != len(kvs) {
			return &viol{"seekstates-contract-count", fmt.Sprintf("height %d id %d: %d vs %d", h, id, len(seen), len(kvs))}
		}
		for i := range kvs {
			if seen[i] != string(kvs[i].K) {
				return &viol{"seekstates-contract-order-or-key", fmt.Sprintf("height %d id %d pos %d: %x vs %x", h, id, i, seen[i], kvs[i].K)}
			}
		}
		if len(kvs) > 400 {
			continue
		}
		page := []int{1, 2, 7}[r.Intn(3)]
		var gotk []string
		var start []byte
		first := true
		for guard := 0; guard < 2000; guard++ {
			var st []byte
			if !first {
				st = start
			}
			res, err := sm.FindStates(sr.Root, pfx, st, page)
			if err != nil || len(res) == 0 {
				break
			}
			for _, kv := range res {
				gotk = append(gotk, string(kv.Key[len(pfx):]))
				if w, ok := want[string(kv.Key)]; !ok || !bytes.Equal(w, kv.Value) {
					return &viol{"findstates-value", fmt.Sprintf("height %d key %x", h, kv.Key)}
				}
			}
			start = res[len(res)-1].Key[len(pfx):]
			first = false
			if len(res) < page {
				break
			}
		}
		run.Obs("findstates_pagings", 1)
		// arbitrary start positions (absent keys included): the answer is the
		// first keys strictly above start
		for n := 0; n < 3 && len(kvs) > 0; n++ {
			var st []byte
			switch r.Intn(5) {
			case 0:
				st = []byte{0}
			case 1:
				st = []byte{0xff, 0xff}
			case 2:
				st = r.Bytes(1 + r.Intn(3))
			case 3:
				st = append(bytes.Clone(kvs[r.Intn(len(kvs))].K), byte(r.Intn(256)))
			default:
				k := kvs[r.Intn(len(kvs))].K
				st = bytes.Clone(k[:r.Intn(len(k)+1)])
				if len(st) > 0 {
					st[len(st)-1] ^= byte(1 << uint(r.Intn(8)))
				}
			}
			if len(st) == 0 || len(st) > 64 {
				continue // a start longer than the maximum key length is refused by design
			}
			max := 1 + r.Intn(4)
			var exp []string
			for _, kv := range kvs {
				if bytes.Compare(kv.K, st) > 0 && len(exp) < max {
					exp = append(exp, string(kv.K))
				}
			}
			res, err := sm.FindStates(sr.Root, pfx, st, max)
			var gotS []string
			if err == nil {
				for _, kv := range res {
					gotS = append(gotS, string(kv.Key[len(pfx):]))
				}
			}
			run.Obs("findstates_arbitrary_starts", 1)
			if fmt.Sprintf("%x", gotS) != fmt.Sprintf("%x", exp) {
				return &viol{"findstates-arbitrary-start", fmt.Sprintf("height %d id %d start %x max %d: got %x want %x (err %v)", h, id, st, max, gotS, exp, err)}
			}
		}
		// structured prefixes and starts: the prefix ends anywhere inside a key
		// (so inside or at the end of an extension node of the trie) and the
		// start is derived from the part all keys below it share - exactly it,
		// one byte less or more, or one of the keys itself
		for n := 0; n < 4 && len(kvs) > 0; n++ {
			k := kvs[r.Intn(len(kvs))].K
			j := r.Intn(len(k) + 1)
			sub := k[:j]
			var sfx [][]byte
			for _, kv := range kvs {
				if bytes.HasPrefix(kv.K, sub) {
					sfx = append(sfx, kv.K[j:])
				}
			}
			lc := bytes.Clone(sfx[0])
			for _, x := range sfx[1:] {
				m := 0
				for m < len(lc) && m < len(x) && lc[m] == x[m] {
					m++
				}
				lc = lc[:m]
			}
			var st []byte
			switch r.Intn(5) {
			case 0, 1:
				st = lc
			case 2:
				if len(lc) > 0 {
					st = lc[:len(lc)-1]
				}
			case 3:
				st = append(bytes.Clone(lc), byte(r.Intn(256)))
			default:
				st = sfx[r.Intn(len(sfx))]
			}
			if len(st) == 0 || len(sub)+len(st) > 64 {
				continue
			}
			max := 1 + r.Intn(5)
			var exp []string
			for _, x := range sfx {
				if bytes.Compare(x, st) > 0 && len(exp) < max {
					exp = append(exp, string(x))
				}
			}
			spfx := append(bytes.Clone(pfx), sub...)
			res, err := sm.FindStates(sr.Root, spfx, st, max)
			var gotS []string
			if err == nil {
				for _, kv := range res {
					gotS = append(gotS, string(kv.Key[len(spfx):]))
				}
			}
			run.Obs("findstates_structured_starts", 1)
			if bytes.Equal(st, lc) {
				run.Obs("findstates_start_equal_to_shared_part_below_prefix", 1)
			}
			if fmt.Sprintf("%x", gotS) != fmt.Sprintf("%x", exp) {
				return &viol{"findstates-structured-start", fmt.Sprintf("height %d id %d prefix %x start %x (shared part %x) max %d: got %x want %x (err %v)", h, id, sub, st, lc, max, gotS, exp, err)}
			}
		}
		if len(gotk) != len(kvs) {
			return &viol{"findstates-paging-count", fmt.Sprintf("height %d id %d page %d: %d vs %d", h, id, page, len(gotk), len(kvs))}
		}
		for i := range kvs {
			if gotk[i] != string(kvs[i].K) {
				return &viol{"findstates-paging-order", fmt.Sprintf("height %d id %d page %d pos %d", h, id, page, i)}
			}
		}
	}
	// (2)+(3) point reads and proofs
	keys := make([]string, 0, len(want))
	for k := range want {
		keys = append(keys, k)
	}
	sort.Strings(keys)
	nprobe := 40
	if tier == "thorough" {
		nprobe = 120
	}
	for n := 0; n < nprobe && len(keys) > 0; n++ {
		k := keys[r.Intn(len(keys))]
		v := want[k]
		g, err := sm.GetState(sr.Root, []byte(k))
		if err != nil || !bytes.Equal(g, v) {
			return &viol{"getstate-present-key", fmt.Sprintf("height %d key %x: %x %v", h, k, g, err)}
		}
		proof, err := sm.GetStateProof(sr.Root, []byte(k))
		if err != nil {
			return &viol{"proof-unavailable-for-present-key", fmt.Sprintf("height %d key %x: %v", h, k, err)}
		}
		pv, ok := mpt.VerifyProof(sr.Root, []byte(k), proof)
		run.Obs("proofs_verified", 1)
		if !ok || !bytes.Equal(pv, v) {
			return &viol{"proof-of-present-key-fails", fmt.Sprintf("height %d key %x", h, k)}
		}
		// absent keys: neighbours, proper prefixes, extensions, keys deleted earlier
		var absent [][]byte
		absent = append(absent, append([]byte(k), 0x7e), append([]byte(k), 0x00))
		if len(k) > 5 {
			absent = append(absent, []byte(k[:len(k)-1]))
		}
		fl := []byte(k)
		fl[len(fl)-1] ^= 0x01
		absent = append(absent, fl)
		for dk := range everDeleted {
			if r.Intn(8) == 0 {
				absent = append(absent, []byte(dk))
			}
		}
		for _, ak := range absent {
			if _, present := want[string(ak)]; present {
				continue
			}
			run.Obs("absent_keys_probed", 1)
			if g, err := sm.GetState(sr.Root, ak); err == nil {
				return &viol{"getstate-absent-key-succeeded", fmt.Sprintf("height %d key %x returned %x", h, ak, g)}
			}
			if pv, ok := mpt.VerifyProof(sr.Root, ak, proof); ok {
				return &viol{"proof-verifies-for-absent-key", fmt.Sprintf("height %d key %x value %x", h, ak, pv)}
			}
			if p2, err := sm.GetStateProof(sr.Root, ak); err == nil {
				if pv, ok := mpt.VerifyProof(sr.Root, ak, p2); ok {
					return &viol{"node-issued-proof-for-absent-key", fmt.Sprintf("height %d key %x value %x", h, ak, pv)}
				}
			}
		}
		// tampered proofs may fail, but never prove another value
		for m := 0; m < 6; m++ {
			tp := tamper(proof, r)
			run.Obs("tampered_proofs", 1)
			var pv []byte
			var ok bool
			func() {
				defer func() {
					if x := recover(); x != nil {
						pv, ok = []byte(fmt.Sprint("panic ", x)), true
					}
				}()
				pv, ok = mpt.VerifyProof(sr.Root, []byte(k), tp)
			}()
			if ok && !bytes.Equal(pv, v) {
				return &viol{"tampered-proof-accepted-with-other-value", fmt.Sprintf("height %d key %x got %x want %x", h, k, pv, v)}
			}
			if ok {
				run.Obs("tampered_proofs_still_valid", 1)
			}
		}
	}
	// (4) historic invocations
	if rec != nil {
		for i, s := range rec.scripts {
			got := runRO(bc, s.script, h+1)
			run.Obs("historic_invocations", 1)
			if got != rec.live[i] {
				sig := "historic-result-differs:" + s.name
				if strings.HasPrefix(got, "PANIC") {
					sig = "historic-context-panics"
				} else if strings.HasPrefix(got, "ERR") {
					sig = "historic-context-error"
				}
				return &viol{sig, fmt.Sprintf("height %d %s\n live %s\n hist %s", h, s.name, rec.live[i], got)}
			}
		}
	}
	return nil
}

func tamper(p [][]byte, r *rng.R) [][]byte {
	q := make([][]byte, len(p))
	for i := range p {
		q[i] = bytes.Clone(p[i])
	}
	if len(q) == 0 {
		return q
	}
	switch r.Intn(7) {
	case 0:
		i := r.Intn(len(q))
		q = append(q[:i], q[i+1:]...)
	case 1:
		i := r.Intn(len(q))
		q = append(q, q[i])
	case 2:
		r.Shuffle(len(q), func(i, j int) { q[i], q[j] = q[j], q[i] })
	case 3:
		i := r.Intn(len(q))
		if len(q[i]) > 1 {
			q[i] = q[i][:r.Intn(len(q[i]))]
		}
	case 4, 5:
		i := r.Intn(len(q))
		if len(q[i]) > 0 {
			q[i][r.Intn(len(q[i]))] ^= byte(1 << uint(r.Intn(8)))
		}
	default:
		q = append(q, r.Bytes(1+r.Intn(40)))
	}
	return q
}

func TestCheck(t *testing.T) {
	run := ev.Start("C03", "a case is one (history, height): the full per-contract storage and the results of a catalogue of read-only scripts are recorded live right after block h; after the whole history is applied and the node restarted, root_h is enumerated (SeekStates whole trie and per contract, paged FindStates), probed (GetState of present and absent keys), proven (GetStateProof + VerifyProof; absent keys, tampered proofs) and executed against (GetTestHistoricVM) and compared; distinct by (history, height); non-trivial if storage changed at that height")
	defer run.Finish()
	run.Assume("archive node (every height retained); storage recorded live through Blockchain.SeekStorage is the reference")
	run.Assume("read-only scripts are a fixed catalogue of native getters and helper-contract readers, not all scripts")
	nh := ev.Pick(5, 24)
	nb := ev.Pick(70, 120)
	tier := ev.Tier()
	w := vchain.DefaultWeights
	w.Run, w.Deploy, w.Destroy, w.Update, w.Payment, w.Role = 30, 5, 3, 3, 8, 5
	for hi := 0; hi < nh; hi++ {
		recs := map[uint32]*heightRec{}
		rr := rng.New(uint64(hi) + 3000)
		staged := hi%3 == 2
		var proto func(*config.Blockchain)
		pname := "all-forks"
		if staged {
			pname = "staged-forks"
			proto = func(c *config.Blockchain) { vchain.StagedForks(c); c.MaxTraceableBlocks = 12 }
		} else if hi%5 == 3 {
			stage := []string{"Echidna", "none", "Cockatrice", "Aspidochelone"}[(hi/5)%4]
			pname = "forks-up-to-" + stage
			proto = func(c *config.Blockchain) { vchain.PartialForks(c, stage); c.MaxTraceableBlocks = 12 }
		} else {
			proto = func(c *config.Blockchain) { vchain.AllForks(c); c.MaxTraceableBlocks = 12 }
		}
		h := vchain.BuildHistory(t, vchain.HistoryCfg{Idx: 600 + hi, Blocks: nb, Keep: true, Weights: &w, Proto: proto, PName: pname, Echidna: hi%2 == 1,
			OnBlock: func(p *vchain.Producer, b *block.Block) {
				rec := &heightRec{scripts: catalogue(p, rr)}
				for _, d := range p.Live {
					rec.contracts = append(rec.contracts, contractAt{d.ID, d.Hash})
				}
				for _, s := range rec.scripts {
					rec.live = append(rec.live, runRO(p.BC, s.script, 0))
				}
				recs[b.Index] = rec
			}})
		if h.P.Rejected != nil {
			run.Violation("producer-rejected-own-block", fmt.Sprint("h", hi), h.P.Rejected.Error(), nil)
			h.P.Close()
			continue
		}
		run.Sample(map[string]any{"history": 600 + hi, "protocol": pname, "blocks": len(h.P.Raw), "tx_kinds": h.P.KindsSummary()})
		// node under test: fed the serialized blocks, flushed and restarted midway
		backend := []string{"mem", "bolt", "level"}[hi%3]
		rep, err := vchain.OpenReplica(t, vchain.ReplicaCfg{Name: "c03", Cfg: h.Proto, Backend: backend})
		if err != nil {
			t.Fatal(err)
		}
		bad := false
		for i := range h.P.Raw {
			if err := rep.AddRaw(h.P.Raw[i]); err != nil {
				run.Violation("replica-rejected-block", fmt.Sprintf("h%d", hi), err.Error(), nil)
				bad = true
				break
			}
			if i%7 == 3 {
				_ = rep.Flush()
			}
			if i == len(h.P.Raw)/2 {
				if err := rep.Restart(); err != nil {
					run.Violation("restart-failed", fmt.Sprintf("h%d", hi), err.Error(), nil)
					bad = true
					break
				}
			}
		}
		if !bad {
			if err := rep.Restart(); err != nil {
				run.Violation("restart-failed", fmt.Sprintf("h%d", hi), err.Error(), nil)
				bad = true
			}
		}
		if bad {
			rep.Close()
			h.P.Close()
			continue
		}
		// keys that existed at some height and were deleted later
		everDeleted := map[string]bool{}
		prev := map[string]bool{}
		changed := map[uint32]bool{}
		for hh := 0; hh < len(h.P.Obs); hh++ {
			cur := map[string]bool{}
			for id, kvs := range h.P.Obs[hh].Storage {
				if id < 0 {
					continue
				}
				for _, kv := range kvs {
					cur[string(fullKey(id, kv.K))] = true
				}
			}
			for k := range prev {
				if !cur[k] {
					everDeleted[k] = true
					changed[uint32(hh)] = true
				}
			}
			if len(cur) != len(prev) {
				changed[uint32(hh)] = true
			}
			prev = cur
		}
		var wg sync.WaitGroup
		var mu sync.Mutex
		sem := make(chan struct{}, 16)
		for hh := 1; hh < len(h.P.Obs); hh++ {
			id := fmt.Sprintf("h%d/height%d", hi, hh)
			if !run.Want(id) {
				continue
			}
			wg.Add(1)
			sem <- struct{}{}
			go func() {
				defer func() { <-sem; wg.Done() }()
				r := rng.New(uint64(hi)*100000 + uint64(hh) + 7000)
				v := checkHeight(run, rep.BC, uint32(hh), h.P.Obs[hh], recs[uint32(hh)], everDeleted, r, tier)
				mu.Lock()
				defer mu.Unlock()
				run.Case(id, changed[uint32(hh)] || hh < 6)
				if v != nil {
					run.Violation(v.sig, id, v.detail, map[string]any{"history": 600 + hi, "protocol": pname, "height": hh, "backend": backend, "tx_kinds_of_block": h.P.KindLog[hh-1]})
				}
			}()
		}
		wg.Wait()
		// the same old states read through the node's JSON-RPC server
		if run.Want(fmt.Sprintf("h%d/rpc", hi)) {
			// small server-side page limits, so that paged searches really page
			if n, err := vrpc.Start(t, rep.BC, func(c *config.RPC) { c.MaxFindStorageResultItems = 3 + hi%5; c.MaxFindResultItems = 4 + hi%7 }); err != nil {
				run.Inconclusive("h%d: cannot start the RPC server on a loopback port: %v", hi, err)
			} else {
				rr2 := rng.New(uint64(hi) + 9000)
				for hh := 1; hh < len(h.P.Obs); hh++ {
					if !(changed[uint32(hh)] && rr2.Intn(2) == 0) && hh%9 != 0 && hh != len(h.P.Obs)-1 {
						continue
					}
					id := fmt.Sprintf("h%d/rpc/height%d", hi, hh)
					v := rpcHeight(run, n, rep.BC, uint32(hh), h.P.Obs[hh], recs[uint32(hh)], rr2)
					run.Case(id, true)
					run.Obs("rpc_heights_checked", 1)
					if v != nil {
						run.Violation(v.sig, id, v.detail, map[string]any{"history": 600 + hi, "protocol": pname, "height": hh, "backend": backend})
						break
					}
				}
				n.Stop()
			}
		}
		rep.Close()
		// second node: a pruning one (RemoveUntraceableBlocks, GC really running);
		// the same reads are made through the roots it still retains, while it
		// keeps syncing (retained = the last MaxTraceableBlocks heights)
		if run.Want(fmt.Sprintf("h%d/pruning", hi)) {
			gcfg := func(c *config.Blockchain) {
				h.Proto(c)
				c.RemoveUntraceableBlocks = true
				c.GarbageCollectionPeriod = uint32(2 + (hi+int(ev.Seed()))%4)
			}
			grep, err := vchain.OpenReplica(t, vchain.ReplicaCfg{Name: "c03gc", Cfg: gcfg, Backend: backend})
			if err != nil {
				t.Fatal(err)
			}
			gr := rng.New(uint64(hi) + 8000)
			for i := range h.P.Raw {
				if err := grep.AddRaw(h.P.Raw[i]); err != nil {
					run.Violation("pruning-replica-rejected-block", fmt.Sprintf("h%d/pruning", hi), err.Error(), nil)
					break
				}
				if gr.Intn(2) == 0 {
					_ = grep.Flush()
				}
				tip := i + 1
				if tip%6 != 0 && tip != len(h.P.Raw) {
					continue
				}
				_ = grep.Flush()
				mtb := int(grep.BC.GetMaxTraceableBlocks())
				// the traceable window is (tip-MaxTraceableBlocks, tip]: its oldest
				// height is always read, the others by a seeded stride
				oldest := max(tip-mtb+1, 1)
				var hs []int
				for hh := tip; hh > oldest+1; hh -= 1 + gr.Intn(3) {
					hs = append(hs, hh)
				}
				if oldest+1 <= tip {
					hs = append(hs, oldest+1)
				}
				hs = append(hs, oldest)
				for _, hh := range hs {
					id := fmt.Sprintf("h%d/pruning/tip%d/height%d", hi, tip, hh)
					v := checkHeight(run, grep.BC, uint32(hh), h.P.Obs[hh], recs[uint32(hh)], everDeleted, gr, "quick")
					run.Case(id, true)
					run.Obs("pruning_node_heights_checked", 1)
					if v != nil {
						run.Violation("pruning-node:"+v.sig, id, v.detail, map[string]any{"history": 600 + hi, "tip": tip, "height": hh, "backend": backend})
						break
					}
				}
			}
			grep.Close()
		}
		h.P.Close()
	}
}

package c12

// Workload (i): raw byte strings, instruction-shaped random streams and mutated
// valid scripts; plus the directed idioms that approach every limit of the
// property from below and from above.

import (
	"encoding/binary"
	"math/big"

	"github.com/nspcc-dev/neo-go/pkg/crypto/hash"
	"github.com/nspcc-dev/neo-go/pkg/encoding/bigint"
	"github.com/nspcc-dev/neo-go/pkg/smartcontract/scparser"
	"github.com/nspcc-dev/neo-go/pkg/vm/opcode"
	"github.com/nspcc-dev/neo-go/verifharness/vlib/rng"
)

var validOps = func() []opcode.Opcode {
	var l []opcode.Opcode
	for i := 0; i < 256; i++ {
		if opcode.IsValid(opcode.Opcode(i)) {
			l = append(l, opcode.Opcode(i))
		}
	}
	return l
}()

var controlOps = []opcode.Opcode{opcode.JMP, opcode.JMPL, opcode.JMPIF, opcode.JMPIFNOT, opcode.JMPEQ, opcode.JMPLE, opcode.CALL, opcode.CALLL,
	opcode.CALLA, opcode.PUSHA, opcode.TRY, opcode.TRYL, opcode.ENDTRY, opcode.ENDTRYL, opcode.ENDFINALLY, opcode.THROW, opcode.RET,
	opcode.INITSLOT, opcode.INITSSLOT, opcode.PUSHINT256, opcode.PUSHDATA1, opcode.PUSHDATA2, opcode.PUSHDATA4, opcode.NEWBUFFER, opcode.CAT,
	opcode.POW, opcode.SHL, opcode.MUL, opcode.NEWARRAY, opcode.PACK, opcode.UNPACK, opcode.APPEND, opcode.SETITEM, opcode.DUP, opcode.SYSCALL, opcode.CALLT}

// genRaw: plain random byte strings of several shapes.
func genRaw(r *rng.R) []byte {
	n := 1 + r.Intn(48)
	if r.Chance(1, 10) {
		n = 1 + r.Intn(400)
	}
	b := make([]byte, n)
	mode := r.Intn(3)
	for i := range b {
		switch {
		case mode == 0 || r.Chance(1, 4):
			b[i] = byte(r.Intn(256))
		case r.Chance(1, 6):
			b[i] = byte(controlOps[r.Intn(len(controlOps))])
		default:
			b[i] = byte(validOps[r.Intn(len(validOps))])
		}
	}
	return b
}

// genTail: a harmless prefix followed by one instruction whose operand is cut
// short at every possible length (decoder bounds inside Step).
func genTail(r *rng.R) []byte {
	var b []byte
	for range r.Intn(4) {
		b = append(b, []byte{byte(opcode.NOP), byte(opcode.PUSH1), byte(opcode.PUSHNULL), byte(opcode.PUSHT)}[r.Intn(4)])
	}
	var op opcode.Opcode
	for {
		op = validOps[r.Intn(len(validOps))]
		if operandLen(op) != 0 {
			break
		}
	}
	b = append(b, byte(op))
	ol := operandLen(op)
	var full []byte
	switch op {
	case opcode.PUSHDATA1:
		l := r.Intn(5)
		full = append([]byte{byte(l)}, r.Bytes(l)...)
	case opcode.PUSHDATA2:
		l := r.Intn(5)
		full = append([]byte{byte(l), 0}, r.Bytes(l)...)
	case opcode.PUSHDATA4:
		l := r.Intn(5)
		full = append([]byte{byte(l), 0, 0, 0}, r.Bytes(l)...)
	default:
		full = make([]byte, ol)
		for i := range full {
			full[i] = byte(r.Intn(4))
		}
	}
	return append(b, full[:r.Intn(len(full)+1)]...)
}

// genStream: a well-formed instruction stream with random operands (jump
// offsets are small, so a good share passes the static check and has real
// control flow).
func genStream(r *rng.R) []byte {
	n := 2 + r.Intn(40)
	var b []byte
	for i := 0; i < n; i++ {
		var op opcode.Opcode
		if r.Chance(1, 4) {
			op = controlOps[r.Intn(len(controlOps))]
		} else {
			op = validOps[r.Intn(len(validOps))]
		}
		if (op == opcode.ABORT || op == opcode.ABORTMSG || op == opcode.SYSCALL || op == opcode.CALLT) && !r.Chance(1, 20) {
			op = opcode.PUSH1
		}
		b = append(b, byte(op))
		ol := operandLen(op)
		switch {
		case ol == -1:
			l := r.Intn(6)
			switch op {
			case opcode.PUSHDATA1:
				b = append(b, byte(l))
			case opcode.PUSHDATA2:
				b = append(b, byte(l), 0)
			default:
				b = append(b, byte(l), 0, 0, 0)
			}
			b = append(b, r.Bytes(l)...)
		case ol == 0:
		case op <= opcode.PUSHINT256:
			if r.Bool() {
				x := bigint.ToBytes(r.BigBoundary())
				o := make([]byte, ol)
				if len(x) <= ol {
					copy(o, x)
					if len(x) > 0 && x[len(x)-1]&0x80 != 0 {
						for j := len(x); j < ol; j++ {
							o[j] = 0xff
						}
					}
				}
				b = append(b, o...)
			} else {
				b = append(b, r.Bytes(ol)...)
			}
		case op == opcode.INITSLOT:
			b = append(b, byte(r.Intn(4)), byte(r.Intn(3)))
		case op == opcode.INITSSLOT || (op >= opcode.LDSFLD && op <= opcode.STARG && ol == 1):
			b = append(b, byte(r.Intn(5)))
		case op == opcode.CONVERT || op == opcode.ISTYPE || op == opcode.NEWARRAYT:
			b = append(b, []byte{0x00, 0x10, 0x20, 0x21, 0x28, 0x30, 0x40, 0x41, 0x48, 0x60}[r.Intn(10)])
		case ol == 1 || ol == 2: // short jumps, TRY
			for j := 0; j < ol; j++ {
				b = append(b, byte(int8(r.Intn(25)-8)))
			}
		case ol == 4 || ol == 8:
			for j := 0; j < ol; j += 4 {
				b = append(b, le32(r.Intn(40)-12)...)
			}
		}
	}
	return b
}

// mutate applies a few byte-level and instruction-level mutations.
func mutate(r *rng.R, s []byte, other []byte) []byte {
	b := append([]byte(nil), s...)
	for range 1 + r.Intn(4) {
		if len(b) == 0 {
			b = append(b, byte(r.Intn(256)))
			continue
		}
		p := r.Intn(len(b))
		switch r.Intn(10) {
		case 0:
			b[p] ^= 1 << uint(r.Intn(8))
		case 1:
			b[p] = byte(r.Intn(256))
		case 2:
			b = append(b[:p], append([]byte{byte(validOps[r.Intn(len(validOps))])}, b[p:]...)...)
		case 3:
			b = append(b[:p], b[p+1:]...)
		case 4:
			b[p] = []byte{0, 1, 2, 0x7f, 0x80, 0xfe, 0xff, byte(opcode.RET), byte(opcode.NOP)}[r.Intn(9)]
		case 5:
			q := p + r.Intn(len(b)-p+1)
			b = append(b[:q], append(append([]byte(nil), b[p:q]...), b[q:]...)...)
		case 6:
			if r.Chance(1, 3) {
				b = b[:p]
			}
		case 7:
			if len(other) > 0 {
				q := r.Intn(len(other))
				e := q + r.Intn(len(other)-q+1)
				b = append(b[:p], append(append([]byte(nil), other[q:e]...), b[p:]...)...)
			}
		default:
			// instruction-aware: rewrite the operand (or the opcode) of one decoded instruction
			var at []int
			func() {
				defer func() { _ = recover() }()
				ctx := scparser.NewContext(b, 0)
				for ctx.NextIP() < len(b) {
					at = append(at, ctx.NextIP())
					if _, _, err := ctx.Next(); err != nil {
						break
					}
				}
			}()
			if len(at) == 0 {
				break
			}
			a := at[r.Intn(len(at))]
			op := opcode.Opcode(b[a])
			ol := operandLen(op)
			if ol > 0 && a+1+ol <= len(b) && r.Chance(3, 4) {
				if ol <= 8 && op > opcode.PUSHINT256 {
					// small signed delta keeps jumps near
					b[a+1] = byte(int8(b[a+1]) + int8(r.Intn(9)-4))
				} else {
					copy(b[a+1:a+1+ol], r.Bytes(ol))
				}
			} else {
				for range 8 {
					o := validOps[r.Intn(len(validOps))]
					if operandLen(o) == ol {
						b[a] = byte(o)
						break
					}
				}
			}
		}
		if len(b) > 6000 {
			b = b[:6000]
		}
	}
	return b
}

// ---------------------------------------------------------------- assembler

type fixup struct {
	at, from, size int
	label          string
}

type asm struct {
	b      []byte
	labels map[string]int
	fix    []fixup
}

func newAsm() *asm { return &asm{labels: map[string]int{}} }

func (a *asm) op(o opcode.Opcode, operand ...byte) *asm {
	a.b = append(a.b, byte(o))
	a.b = append(a.b, operand...)
	return a
}

func (a *asm) label(l string) *asm { a.labels[l] = len(a.b); return a }

// jmp emits a control instruction with one label operand (1 or 4 bytes by opcode).
func (a *asm) jmp(o opcode.Opcode, l string) *asm {
	sz := operandLen(o)
	from := len(a.b)
	a.b = append(a.b, byte(o))
	a.fix = append(a.fix, fixup{at: len(a.b), from: from, size: sz, label: l})
	a.b = append(a.b, make([]byte, sz)...)
	return a
}

// try emits TRY / TRYL with catch and finally labels ("" = none).
func (a *asm) try(long bool, c, f string) *asm {
	from := len(a.b)
	o, sz := opcode.TRY, 1
	if long {
		o, sz = opcode.TRYL, 4
	}
	a.b = append(a.b, byte(o))
	for _, l := range []string{c, f} {
		if l != "" {
			a.fix = append(a.fix, fixup{at: len(a.b), from: from, size: sz, label: l})
		}
		a.b = append(a.b, make([]byte, sz)...)
	}
	return a
}

func (a *asm) push(n int) *asm {
	switch {
	case n >= -1 && n <= 16:
		return a.op(opcode.Opcode(int(opcode.PUSH0) + n))
	case n >= -32768 && n <= 32767:
		var b [2]byte
		binary.LittleEndian.PutUint16(b[:], uint16(int16(n)))
		return a.op(opcode.PUSHINT16, b[:]...)
	}
	return a.op(opcode.PUSHINT32, le32(n)...)
}

func (a *asm) big(x *big.Int) *asm {
	o := make([]byte, 32)
	b := bigint.ToBytes(x)
	copy(o, b)
	if x.Sign() < 0 {
		for i := len(b); i < 32; i++ {
			o[i] = 0xff
		}
	}
	return a.op(opcode.PUSHINT256, o...)
}

func (a *asm) ops(os ...opcode.Opcode) *asm {
	for _, o := range os {
		a.op(o)
	}
	return a
}

func (a *asm) bytes() []byte {
	for _, f := range a.fix {
		rel := a.labels[f.label] - f.from
		if f.size == 1 {
			a.b[f.at] = byte(int8(rel))
		} else {
			binary.LittleEndian.PutUint32(a.b[f.at:], uint32(int32(rel)))
		}
	}
	return a.b
}

// ---------------------------------------------------------------- idioms

type idiom struct {
	name   string
	script []byte
	subs   []subScript
}

func mkSub(a *asm, nargs int) subScript {
	b := a.bytes()
	return subScript{Script: b, NArgs: nargs, Hash: hash.Hash160(b)}
}

func (a *asm) load(k, mode, nargs int) *asm {
	return a.op(opcode.SYSCALL, le32(int(int32(loaderID(k, mode, nargs))))...)
}

func pow2(k uint) *big.Int { return new(big.Int).Lsh(big.NewInt(1), k) }

func buildIdioms() []idiom {
	var l []idiom
	add := func(name string, a *asm) { l = append(l, idiom{name: name, script: a.bytes()}) }
	max := new(big.Int).Sub(pow2(255), big.NewInt(1))
	minv := new(big.Int).Neg(pow2(255))

	// --- item count around 2048
	for _, n := range []int{2045, 2046, 2047, 2048, 2049} {
		add("items-newarray", newAsm().push(n).op(opcode.NEWARRAY).ops(opcode.PUSH0, opcode.PUSH0, opcode.DROP, opcode.DROP, opcode.DROP))
		add("items-newstruct-dup", newAsm().push(n-1).op(opcode.NEWSTRUCT).ops(opcode.DUP, opcode.DUP, opcode.DROP))
	}
	for _, n := range []int{1021, 1022, 1023, 1024, 2046, 2047} {
		add("items-unpack", newAsm().push(n).op(opcode.NEWARRAY).ops(opcode.UNPACK, opcode.PACK, opcode.DUP, opcode.UNPACK))
		add("items-values", newAsm().push(n).op(opcode.NEWARRAY).ops(opcode.DUP, opcode.VALUES, opcode.DUP, opcode.VALUES))
		add("items-struct-clone", newAsm().push(n).op(opcode.NEWSTRUCT).ops(opcode.NEWARRAY0, opcode.DUP, opcode.ROT, opcode.APPEND, opcode.DUP, opcode.PUSH0, opcode.PICKITEM, opcode.APPEND))
		add("items-keys", newAsm().op(opcode.INITSSLOT, 2).op(opcode.NEWMAP).op(opcode.STSFLD0).push(n/2).op(opcode.STSFLD1).
			label("L").ops(opcode.LDSFLD0, opcode.LDSFLD1, opcode.DUP, opcode.SETITEM, opcode.LDSFLD1, opcode.DEC, opcode.DUP, opcode.STSFLD1, opcode.PUSH0).jmp(opcode.JMPGT, "L").
			ops(opcode.LDSFLD0, opcode.KEYS, opcode.LDSFLD0, opcode.VALUES, opcode.LDSFLD0, opcode.UNPACK))
	}
	add("items-append-loop", newAsm().op(opcode.INITSSLOT, 1).ops(opcode.NEWARRAY0, opcode.STSFLD0).label("L").ops(opcode.LDSFLD0, opcode.PUSH0, opcode.APPEND).jmp(opcode.JMP, "L"))
	add("items-append-self-loop", newAsm().op(opcode.INITSSLOT, 1).ops(opcode.NEWARRAY0, opcode.STSFLD0).label("L").ops(opcode.LDSFLD0, opcode.NEWARRAY0, opcode.DUP, opcode.LDSFLD0, opcode.APPEND, opcode.APPEND).jmp(opcode.JMP, "L"))
	add("items-struct-append-loop", newAsm().op(opcode.INITSSLOT, 1).ops(opcode.NEWSTRUCT0, opcode.STSFLD0).label("L").ops(opcode.LDSFLD0, opcode.DUP, opcode.APPEND).jmp(opcode.JMP, "L"))
	add("items-map-loop", newAsm().op(opcode.INITSSLOT, 2).ops(opcode.NEWMAP, opcode.STSFLD0, opcode.PUSH0, opcode.STSFLD1).label("L").
		ops(opcode.LDSFLD0, opcode.LDSFLD1, opcode.DUP, opcode.SETITEM, opcode.LDSFLD1, opcode.INC, opcode.STSFLD1).jmp(opcode.JMP, "L"))
	add("items-dup-loop", newAsm().op(opcode.PUSH1).label("L").op(opcode.DUP).jmp(opcode.JMP, "L"))
	add("items-nest-loop", newAsm().op(opcode.NEWARRAY0).label("L").ops(opcode.PUSH1, opcode.PACK).jmp(opcode.JMP, "L"))
	add("items-popitem-loop", newAsm().push(1000).ops(opcode.NEWARRAY, opcode.DUP).label("L").ops(opcode.DUP, opcode.POPITEM, opcode.DROP, opcode.DUP, opcode.SIZE, opcode.PUSH0).jmp(opcode.JMPGT, "L").ops(opcode.SIZE))
	add("items-remove-loop", newAsm().push(600).ops(opcode.NEWSTRUCT, opcode.DUP, opcode.DUP).label("L").ops(opcode.DUP, opcode.PUSH0, opcode.REMOVE, opcode.DUP, opcode.SIZE, opcode.PUSH0).jmp(opcode.JMPGT, "L").ops(opcode.CLEARITEMS))
	add("items-packmap", newAsm().ops(opcode.NEWARRAY0, opcode.PUSH1, opcode.NEWARRAY0, opcode.PUSH1, opcode.PUSHT, opcode.PUSH2, opcode.PUSH2, opcode.PUSHT, opcode.PUSH4, opcode.PACKMAP, opcode.DUP, opcode.UNPACK))

	// --- compounds with a single reference consumed in place
	mk := func() *asm {
		return newAsm().ops(opcode.NEWSTRUCT0, opcode.PUSH1, opcode.NEWARRAY0, opcode.PUSH2, opcode.PUSH5, opcode.PUSH3, opcode.PUSH3, opcode.PACKMAP)
	}
	for _, o := range []opcode.Opcode{opcode.VALUES, opcode.KEYS, opcode.UNPACK, opcode.CLEARITEMS, opcode.SIZE} {
		add("single-ref-map", mk().op(o).ops(opcode.DEPTH, opcode.PACK, opcode.DROP))
		add("single-ref-array", newAsm().ops(opcode.NEWSTRUCT0, opcode.DUP, opcode.NEWARRAY0, opcode.PUSH7, opcode.PUSH4, opcode.PACK).op(o).ops(opcode.DEPTH, opcode.PACK, opcode.DROP))
		add("single-ref-struct", newAsm().ops(opcode.NEWSTRUCT0, opcode.DUP, opcode.NEWARRAY0, opcode.PUSH7, opcode.PUSH4, opcode.PACKSTRUCT).op(o).ops(opcode.DEPTH, opcode.PACKSTRUCT, opcode.DUP, opcode.VALUES))
	}
	add("single-ref-popitem", newAsm().ops(opcode.NEWARRAY0, opcode.NEWSTRUCT0, opcode.PUSH2, opcode.PACK, opcode.POPITEM, opcode.DROP))
	add("single-ref-setitem-struct", newAsm().ops(opcode.PUSH1, opcode.PUSH1, opcode.PACKSTRUCT, opcode.PUSH0, opcode.PUSH1, opcode.PUSH1, opcode.PACKSTRUCT, opcode.SETITEM))
	add("packmap-duplicate-keys", newAsm().ops(opcode.NEWARRAY0, opcode.PUSH1, opcode.NEWSTRUCT0, opcode.PUSH1, opcode.NEWMAP, opcode.PUSH1, opcode.PUSH3, opcode.PACKMAP, opcode.DUP, opcode.VALUES))

	// --- integer width
	for _, v := range []*big.Int{max, minv, new(big.Int).Sub(max, big.NewInt(1)), new(big.Int).Add(minv, big.NewInt(1)), pow2(254), pow2(128), pow2(127)} {
		for _, o := range []opcode.Opcode{opcode.INC, opcode.DEC, opcode.NEGATE, opcode.ABS, opcode.INVERT, opcode.SQRT, opcode.SIGN} {
			add("int-unary", newAsm().big(v).op(o))
		}
		for _, o := range []opcode.Opcode{opcode.ADD, opcode.SUB, opcode.MUL, opcode.DIV, opcode.MOD, opcode.AND, opcode.OR, opcode.XOR, opcode.MIN, opcode.MAX} {
			add("int-binary-self", newAsm().big(v).op(opcode.DUP).op(o))
			add("int-binary-m1", newAsm().big(v).op(opcode.PUSHM1).op(o))
			add("int-binary-2", newAsm().big(v).op(opcode.PUSH2).op(o))
		}
		add("int-modmul", newAsm().big(v).big(v).big(max).op(opcode.MODMUL))
		add("int-modpow", newAsm().big(v).push(3).big(max).op(opcode.MODPOW))
		add("int-modpow-inv", newAsm().big(v).op(opcode.PUSHM1).big(max).op(opcode.MODPOW))
	}
	for _, k := range []int{253, 254, 255, 256, 257} {
		add("int-shl", newAsm().op(opcode.PUSH1).push(k).op(opcode.SHL))
		add("int-shl-neg", newAsm().op(opcode.PUSHM1).push(k).op(opcode.SHL).op(opcode.DEC))
		add("int-pow", newAsm().op(opcode.PUSH2).push(k).op(opcode.POW))
		add("int-pow-neg", newAsm().push(-2).push(k).op(opcode.POW))
		add("int-shr", newAsm().big(minv).push(k).op(opcode.SHR))
	}
	add("int-bytes-33", newAsm().op(opcode.PUSHDATA1, append([]byte{33}, make([]byte, 33)...)...).op(opcode.INC))
	add("int-bytes-32", newAsm().op(opcode.PUSHDATA1, append([]byte{32}, append(make([]byte, 31), 0x80)...)...).op(opcode.DEC))
	add("int-convert-buffer", newAsm().push(32).op(opcode.NEWBUFFER).op(opcode.DUP).push(31).push(128).op(opcode.SETITEM).op(opcode.CONVERT, 0x21).op(opcode.DEC))

	// --- item size
	for _, n := range []int{limItemSize - 1, limItemSize, limItemSize + 1, 1 << 20, 0x7fffffff} {
		add("size-newbuffer", newAsm().push(n).op(opcode.NEWBUFFER).op(opcode.SIZE))
	}
	for _, n := range []int{0, 1, 2} {
		add("size-cat", newAsm().push(65535).ops(opcode.NEWBUFFER, opcode.DUP, opcode.CAT).push(n).ops(opcode.NEWBUFFER, opcode.CAT, opcode.SIZE))
		add("size-cat-bytestring", newAsm().push(limItemSize-n).op(opcode.NEWBUFFER).op(opcode.CONVERT, 0x28).push(1).op(opcode.NEWBUFFER).ops(opcode.CAT, opcode.SIZE))
	}
	add("size-cat-double-loop", newAsm().op(opcode.PUSHDATA1, 1, 'x').label("L").ops(opcode.DUP, opcode.CAT).jmp(opcode.JMP, "L"))
	add("size-many-big", newAsm().push(limItemSize).op(opcode.NEWBUFFER).label("L").op(opcode.DUP).jmp(opcode.JMP, "L"))
	add("size-substr", newAsm().push(limItemSize).op(opcode.NEWBUFFER).op(opcode.DUP).push(0).push(limItemSize).op(opcode.SUBSTR).op(opcode.SWAP).push(limItemSize).op(opcode.LEFT).op(opcode.CAT))
	add("size-memcpy", newAsm().push(100).op(opcode.NEWBUFFER).op(opcode.DUP).push(50).push(100).op(opcode.NEWBUFFER).push(0).push(51).op(opcode.MEMCPY))
	add("size-pushdata4-overlimit", newAsm().op(opcode.PUSHDATA4, le32(limItemSize+1)...))
	add("size-pushdata2", newAsm().op(opcode.PUSHDATA2, append([]byte{0xff, 0xff}, make([]byte, 65535)...)...).ops(opcode.DUP, opcode.CAT, opcode.DUP, opcode.CAT))

	// --- counts far above any limit: every instruction taking a count / index / size must
	// fault without allocating for it first
	for _, n := range []int{0x7fffffff, 0x40000000, 0x10000000} {
		str := func() *asm { return newAsm().op(opcode.PUSHDATA1, 3, 'a', 'b', 'c') }
		add("huge-count-right", str().push(n).op(opcode.RIGHT))
		add("huge-count-left", str().push(n).op(opcode.LEFT))
		add("huge-count-substr", str().push(0).push(n).op(opcode.SUBSTR))
		add("huge-count-substr-offset", str().push(n).push(1).op(opcode.SUBSTR))
		add("huge-count-newbuffer", newAsm().push(n).op(opcode.NEWBUFFER))
		add("huge-count-newarray", newAsm().push(n).op(opcode.NEWARRAY))
		add("huge-count-newstruct", newAsm().push(n).op(opcode.NEWSTRUCT))
		add("huge-count-newarrayt", newAsm().push(n).op(opcode.NEWARRAYT, 0x21))
		add("huge-count-pack", str().push(n).op(opcode.PACK))
		add("huge-count-packmap", str().push(n).op(opcode.PACKMAP))
		add("huge-count-packstruct", str().push(n).op(opcode.PACKSTRUCT))
		add("huge-count-memcpy", newAsm().push(8).op(opcode.NEWBUFFER).push(0).op(opcode.PUSHDATA1, 3, 'a', 'b', 'c').push(0).push(n).op(opcode.MEMCPY))
		add("huge-count-pick", str().push(n).op(opcode.PICK))
		add("huge-count-roll", str().push(n).op(opcode.ROLL))
		add("huge-count-xdrop", str().push(n).op(opcode.XDROP))
		add("huge-count-reversen", str().push(n).op(opcode.REVERSEN))
		add("huge-count-pickitem", str().push(n).op(opcode.PICKITEM))
		add("huge-count-haskey", str().push(n).op(opcode.HASKEY))
		add("huge-count-shl", newAsm().push(1).push(n).op(opcode.SHL))
		add("huge-count-pow", newAsm().push(2).push(n).op(opcode.POW))
	}

	// --- invocation depth
	add("depth-call-self", newAsm().label("S").jmp(opcode.CALL, "S"))
	add("depth-calll-self", newAsm().label("S").op(opcode.NOP).jmp(opcode.CALLL, "S"))
	add("depth-call-locals", newAsm().label("S").op(opcode.INITSLOT, 1, 0).jmp(opcode.CALL, "S"))
	add("depth-calla-self", newAsm().label("S").jmp(opcode.PUSHA, "S").op(opcode.CALLA))
	for _, n := range []int{1022, 1023, 1024, 1025} {
		// counted recursion that returns: depth n, then unwinds
		add("depth-counted", newAsm().op(opcode.INITSSLOT, 1).push(n).op(opcode.STSFLD0).jmp(opcode.CALL, "F").op(opcode.RET).
			label("F").ops(opcode.LDSFLD0, opcode.DEC, opcode.DUP, opcode.STSFLD0, opcode.PUSH0).jmp(opcode.JMPLE, "E").jmp(opcode.CALL, "F").label("E").op(opcode.RET))
	}
	add("depth-throw-from-deep", newAsm().op(opcode.INITSSLOT, 1).push(500).op(opcode.STSFLD0).try(false, "C", "").jmp(opcode.CALL, "F").jmp(opcode.ENDTRY, "X").
		label("C").op(opcode.DROP).jmp(opcode.ENDTRY, "X").label("X").op(opcode.RET).
		label("F").op(opcode.INITSLOT, 2, 0).ops(opcode.NEWARRAY0, opcode.STLOC0, opcode.LDSFLD0, opcode.DEC, opcode.DUP, opcode.STSFLD0, opcode.PUSH0).jmp(opcode.JMPLE, "T").jmp(opcode.CALL, "F").op(opcode.RET).
		label("T").ops(opcode.LDLOC0, opcode.THROW))

	// --- try nesting
	add("try-loop", newAsm().label("S").try(false, "C", "").label("C").jmp(opcode.JMP, "S"))
	add("tryl-finally-loop", newAsm().label("S").try(true, "", "F").jmp(opcode.JMP, "S").label("F").op(opcode.ENDFINALLY))
	for _, n := range []int{15, 16, 17} {
		a := newAsm()
		for i := 0; i < n; i++ {
			a.try(true, "C", "F")
		}
		a.ops(opcode.NEWARRAY0, opcode.THROW).label("C").op(opcode.DROP).jmp(opcode.ENDTRY, "E").label("F").op(opcode.ENDFINALLY).label("E").op(opcode.PUSH1)
		add("try-nested", a)
	}
	add("try-per-frame", newAsm().label("S").try(false, "C", "").jmp(opcode.CALL, "S").label("C").op(opcode.RET))
	add("try-finally-rethrow", newAsm().try(false, "C1", "").try(false, "", "F2").ops(opcode.PUSH1, opcode.THROW).label("F2").ops(opcode.NEWMAP, opcode.DROP, opcode.ENDFINALLY).
		label("C1").op(opcode.PUSH2).jmp(opcode.ENDTRY, "E").label("E").ops(opcode.ADD))

	// --- cycles and sharing
	add("cycle-array-self", newAsm().ops(opcode.NEWARRAY0, opcode.DUP, opcode.DUP, opcode.APPEND, opcode.DUP, opcode.PUSH0, opcode.PICKITEM, opcode.DROP, opcode.DROP, opcode.PUSH1))
	add("cycle-map-unreachable", newAsm().ops(opcode.NEWMAP, opcode.DEPTH, opcode.OVER, opcode.SETITEM, opcode.PUSH1, opcode.PUSH2, opcode.ADD))
	add("cycle-two-arrays", newAsm().ops(opcode.NEWARRAY0, opcode.NEWARRAY0, opcode.OVER, opcode.OVER, opcode.APPEND, opcode.DUP, opcode.ROT, opcode.SWAP, opcode.APPEND, opcode.DROP, opcode.PUSH1))
	add("cycle-struct-via-array", newAsm().ops(opcode.NEWSTRUCT0, opcode.NEWARRAY0, opcode.OVER, opcode.OVER, opcode.APPEND, opcode.APPEND))
	add("nocycle-struct-self", newAsm().ops(opcode.NEWSTRUCT0, opcode.DUP, opcode.DUP, opcode.APPEND, opcode.DUP, opcode.DUP, opcode.APPEND, opcode.DUP, opcode.PUSH0, opcode.OVER, opcode.SETITEM))
	add("share-slot-stack-compound", newAsm().op(opcode.INITSSLOT, 1).op(opcode.INITSLOT, 2, 0).ops(opcode.NEWARRAY0, opcode.DUP, opcode.STSFLD0, opcode.DUP, opcode.STLOC0, opcode.NEWSTRUCT0, opcode.DUP, opcode.STLOC1,
		opcode.OVER, opcode.APPEND, opcode.LDLOC1, opcode.LDSFLD0, opcode.OVER, opcode.APPEND, opcode.POPITEM, opcode.DROP, opcode.LDLOC0, opcode.CLEARITEMS, opcode.PUSHNULL, opcode.STSFLD0, opcode.DROP, opcode.PUSHNULL, opcode.STLOC0))
	add("share-call-args", newAsm().op(opcode.INITSSLOT, 1).ops(opcode.NEWARRAY0, opcode.DUP, opcode.DUP, opcode.STSFLD0).jmp(opcode.CALL, "F").ops(opcode.SIZE, opcode.RET).
		label("F").op(opcode.INITSLOT, 1, 2).ops(opcode.LDARG0, opcode.LDARG1, opcode.APPEND, opcode.LDARG0, opcode.STLOC0, opcode.LDSFLD0, opcode.RET))
	// --- nested script contexts (loaded through the harness loader syscall)
	addN := func(name string, a *asm, subs ...subScript) { l = append(l, idiom{name, a.bytes(), subs}) }
	retOne := mkSub(newAsm().op(opcode.INITSSLOT, 1).ops(opcode.NEWARRAY0, opcode.DUP, opcode.STSFLD0, opcode.PUSH1, opcode.PUSH2, opcode.DEPTH, opcode.PACK), 0)
	retArgs := mkSub(newAsm().op(opcode.INITSLOT, 1, 2).ops(opcode.LDARG0, opcode.LDARG1, opcode.APPEND, opcode.LDARG0, opcode.STLOC0, opcode.LDARG0), 2)
	throws := mkSub(newAsm().ops(opcode.PUSH1, opcode.PUSH2, opcode.PUSH3, opcode.PUSH4, opcode.THROW), 0)
	throwsClean := mkSub(newAsm().op(opcode.INITSSLOT, 1).op(opcode.INITSLOT, 1, 0).ops(opcode.NEWARRAY0, opcode.STLOC0, opcode.NEWMAP, opcode.STSFLD0, opcode.PUSH4, opcode.THROW), 0)
	for mode := 0; mode < nLoadModes; mode++ {
		addN("nested-return", newAsm().load(0, mode, 0).ops(opcode.DEPTH, opcode.PACK, opcode.DUP, opcode.SIZE), retOne)
		addN("nested-args-shared", newAsm().ops(opcode.NEWARRAY0, opcode.DUP, opcode.NEWSTRUCT0).load(0, mode, 2).ops(opcode.DEPTH, opcode.PACK), retArgs)
		addN("nested-throw-clean-stack", newAsm().try(false, "C", "").load(0, mode, 0).jmp(opcode.ENDTRY, "E").label("C").op(opcode.DROP).jmp(opcode.ENDTRY, "E").label("E").ops(opcode.DEPTH), throwsClean)
		addN("nested-throw-items-on-stack", newAsm().try(false, "C", "").load(0, mode, 0).jmp(opcode.ENDTRY, "E").label("C").op(opcode.DROP).jmp(opcode.ENDTRY, "E").label("E").ops(opcode.DEPTH), throws)
	}
	addN("nested-throw-items-on-stack-loop", newAsm().label("L").try(false, "C", "").load(0, ldHash, 0).jmp(opcode.ENDTRY, "E").label("C").op(opcode.DROP).jmp(opcode.ENDTRY, "E").label("E").jmp(opcode.JMP, "L"), throws)
	ptrSub := mkSub(newAsm().ops(opcode.NOP, opcode.NOP).op(opcode.PUSHINT64, hostileData...).op(opcode.DROP).jmp(opcode.PUSHA, "T").op(opcode.RET).label("T").op(opcode.PUSH1), 0)
	for _, pad := range []int{0, 1, 2} {
		a := newAsm().load(0, ldHash, 0)
		for range pad {
			a.op(opcode.NOP)
		}
		addN("nested-foreign-pointer-calla", a.op(opcode.CALLA).op(opcode.PUSHINT64, hostileData...).op(opcode.PUSHINT128, append(hostileData, hostileData...)...), ptrSub)
	}
	// --- the last reference to a cyclic container disappears inside a collection instruction
	selfMap := func() *asm {
		return newAsm().ops(opcode.NEWMAP, opcode.DUP, opcode.PUSHF, opcode.PUSH2, opcode.PICK, opcode.SETITEM)
	} // M = {false: M}, one copy on the stack
	viaArr := func() *asm {
		return newAsm().ops(opcode.NEWMAP, opcode.DUP, opcode.PUSH1, opcode.PUSH2, opcode.PICK, opcode.PUSH1, opcode.PACK, opcode.SETITEM)
	} // M = {1: [M]}
	add("cycle-last-ref-map-remove", selfMap().ops(opcode.PUSHF, opcode.REMOVE, opcode.DEPTH))
	add("cycle-last-ref-map-remove-indirect", viaArr().ops(opcode.PUSH1, opcode.REMOVE, opcode.DEPTH))
	add("cycle-last-ref-map-remove-other-key", selfMap().ops(opcode.DUP, opcode.PUSH5, opcode.PUSH6, opcode.SETITEM, opcode.PUSH5, opcode.REMOVE, opcode.DEPTH))
	add("cycle-last-ref-map-setitem", selfMap().ops(opcode.PUSHF, opcode.PUSH7, opcode.SETITEM, opcode.DEPTH))
	add("cycle-last-ref-map-setitem-indirect", viaArr().ops(opcode.PUSH1, opcode.NEWARRAY0, opcode.SETITEM, opcode.DEPTH))
	add("cycle-last-ref-map-clearitems", selfMap().ops(opcode.CLEARITEMS, opcode.DEPTH))
	add("cycle-last-ref-map-values", selfMap().ops(opcode.VALUES, opcode.DROP, opcode.DEPTH))
	add("cycle-last-ref-map-unpack", selfMap().ops(opcode.UNPACK, opcode.CLEAR, opcode.DEPTH))
	add("cycle-last-ref-map-keys", selfMap().ops(opcode.KEYS, opcode.DROP, opcode.DEPTH))
	selfArr := func(o opcode.Opcode) *asm {
		return newAsm().op(o).ops(opcode.DUP, opcode.PUSH3, opcode.APPEND, opcode.DUP, opcode.DUP, opcode.APPEND)
	} // A = [3, A]
	for _, o := range []opcode.Opcode{opcode.NEWARRAY0, opcode.NEWSTRUCT0} {
		add("cycle-last-ref-array-remove", selfArr(o).ops(opcode.PUSH1, opcode.REMOVE, opcode.DEPTH))
		add("cycle-last-ref-array-remove-other", selfArr(o).ops(opcode.PUSH0, opcode.REMOVE, opcode.DEPTH))
		add("cycle-last-ref-array-setitem", selfArr(o).ops(opcode.PUSH1, opcode.PUSH7, opcode.SETITEM, opcode.DEPTH))
		add("cycle-last-ref-array-popitem", selfArr(o).ops(opcode.POPITEM, opcode.DROP, opcode.DEPTH))
		add("cycle-last-ref-array-clearitems", selfArr(o).ops(opcode.CLEARITEMS, opcode.DEPTH))
		add("cycle-last-ref-array-unpack", selfArr(o).ops(opcode.UNPACK, opcode.CLEAR, opcode.DEPTH))
		add("cycle-last-ref-array-values", selfArr(o).ops(opcode.VALUES, opcode.DROP, opcode.DEPTH))
		add("cycle-last-ref-array-reverse", selfArr(o).ops(opcode.REVERSEITEMS, opcode.DEPTH))
	}
	// cycles through two containers: A = [X] where X (array / struct / map) holds A;
	// the element goes away inside a collection instruction whose argument is the
	// last outside reference to A
	twoStep := map[string][]opcode.Opcode{
		"array":  {opcode.NEWARRAY0, opcode.DUP, opcode.DUP, opcode.PUSH1, opcode.PACK, opcode.APPEND},
		"struct": {opcode.NEWARRAY0, opcode.DUP, opcode.DUP, opcode.PUSH1, opcode.PACKSTRUCT, opcode.APPEND},
		"map":    {opcode.NEWARRAY0, opcode.NEWMAP, opcode.DUP, opcode.PUSH0, opcode.PUSH3, opcode.PICK, opcode.SETITEM, opcode.OVER, opcode.SWAP, opcode.APPEND},
	}
	for _, kind := range []string{"array", "struct", "map"} {
		seq := twoStep[kind]
		mk := func() *asm { return newAsm().ops(seq...) }
		add("cycle2-"+kind+"-remove", mk().ops(opcode.PUSH0, opcode.REMOVE, opcode.DEPTH))
		add("cycle2-"+kind+"-remove-kept-copy", mk().ops(opcode.DUP, opcode.PUSH0, opcode.REMOVE, opcode.DEPTH))
		add("cycle2-"+kind+"-setitem", mk().ops(opcode.PUSH0, opcode.PUSH7, opcode.SETITEM, opcode.DEPTH))
		add("cycle2-"+kind+"-setitem-kept-copy", mk().ops(opcode.DUP, opcode.PUSH0, opcode.PUSH7, opcode.SETITEM, opcode.DEPTH))
		add("cycle2-"+kind+"-popitem", mk().ops(opcode.POPITEM, opcode.DROP, opcode.DEPTH))
		add("cycle2-"+kind+"-clearitems", mk().ops(opcode.CLEARITEMS, opcode.DEPTH))
		add("cycle2-"+kind+"-unpack", mk().ops(opcode.UNPACK, opcode.CLEAR, opcode.DEPTH))
		add("cycle2-"+kind+"-inner-then-outer", mk().ops(opcode.DUP, opcode.PUSH0, opcode.PICKITEM, opcode.SWAP, opcode.PUSH0, opcode.REMOVE, opcode.DROP, opcode.DEPTH))
		// several rounds, then the item limit: an under-counting counter lets more
		// than 2048 items live
		a := newAsm()
		for range 8 {
			a.ops(seq...).ops(opcode.PUSH0, opcode.REMOVE)
		}
		add("cycle2-"+kind+"-remove-x8-then-fill", a.push(2047).op(opcode.NEWARRAY).ops(opcode.UNPACK))
	}
	// driving the counter down and then exceeding the item limit
	add("cycle-last-ref-map-remove-loop-then-fill", newAsm().op(opcode.INITSSLOT, 1).push(3000).op(opcode.STSFLD0).label("L").
		ops(opcode.NEWMAP, opcode.DUP, opcode.PUSHF, opcode.PUSH2, opcode.PICK, opcode.SETITEM, opcode.PUSHF, opcode.REMOVE).
		ops(opcode.LDSFLD0, opcode.DEC, opcode.DUP, opcode.STSFLD0, opcode.PUSH0).jmp(opcode.JMPGT, "L").
		push(2040).op(opcode.NEWARRAY).push(2040).op(opcode.NEWARRAY).ops(opcode.UNPACK))

	addN("nested-recursive-load", newAsm().load(0, ldFlags, 0), mkSub(newAsm().load(0, ldFlags, 0), 0))
	return l
}

var idioms = buildIdioms()

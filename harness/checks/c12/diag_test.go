package c12

import (
	"fmt"
	"os"
	"regexp"
	"sort"
	"testing"
)

func TestDiag(t *testing.T) {
	if os.Getenv("C12_DIAG") == "" {
		t.Skip()
	}
	mon := newMonitor()
	hist := map[string]int{}
	states := map[string]int{}
	steps, lens := 0, 0
	num := regexp.MustCompile(`[0-9]+`)
	fl := map[string][3]int{}
	for i := len(idioms); i < len(idioms)+3000; i++ {
		c, m := makeCase(wlTyped, i)
		o := mon.run(&c)
		steps += o.Steps
		lens += len(c.Script)
		states[o.State]++
		f := fl[m.Name]
		f[0]++
		f[1] += o.Steps
		if o.State == "HALT" {
			f[2]++
		}
		fl[m.Name] = f
		if o.Leak != nil {
			fmt.Println("LEAK", i, o.Leak.Detail)
		}
		if o.Viol != nil {
			fmt.Println("VIOL", o.Viol.Sig, o.Viol.Detail)
		}
		if o.State == "FAULT" {
			msg := num.ReplaceAllString(o.FaultMsg, "N")
			if len(msg) > 90 {
				msg = msg[:90]
			}
			hist[msg]++
		}
	}
	fmt.Println("states", states, "avg steps", steps/3000, "avg len", lens/3000)
	fmt.Println("flavors (n, steps, halts)", fl)
	type kv struct {
		k string
		v int
	}
	var l []kv
	for k, v := range hist {
		l = append(l, kv{k, v})
	}
	sort.Slice(l, func(i, j int) bool { return l[i].v > l[j].v })
	for i, e := range l {
		if i > 45 {
			break
		}
		fmt.Println(e.v, e.k)
	}
}

package c12

// Typed generator (workload ii of DESIGN.md C12).
//
// The script is written in *execution order* into a fixed buffer that is
// already loaded into a scratch VM; after every emitted instruction the scratch
// VM is stepped, so the generator always sees the exact concrete state (types,
// sizes, sharing, slots, frames, item counter) and can pick instructions whose
// preconditions hold — that is what makes sequences go deep. Forward targets
// that are not known yet (return point after a callee body, catch / finally /
// end of a TRY) go through JMPL trampolines which are patched when execution
// reaches them. The scratch VM only guides generation; verdicts come from the
// monitored run of the finished script on a fresh VM.

import (
	"encoding/binary"
	"math/big"

	"github.com/nspcc-dev/neo-go/pkg/crypto/hash"
	"github.com/nspcc-dev/neo-go/pkg/encoding/bigint"
	"github.com/nspcc-dev/neo-go/pkg/vm"
	"github.com/nspcc-dev/neo-go/pkg/vm/opcode"
	"github.com/nspcc-dev/neo-go/pkg/vm/stackitem"
	"github.com/nspcc-dev/neo-go/verifharness/vlib/rng"
)

const genBufSize = 3072

type kind uint8

const (
	kInt kind = iota
	kBool
	kBytes
	kBuf
	kNull
	kArr
	kStruct
	kMap
	kPtr
	kOther
)

func classify(it stackitem.Item) kind {
	switch it.(type) {
	case *stackitem.BigInteger:
		return kInt
	case stackitem.Bool:
		return kBool
	case *stackitem.ByteArray:
		return kBytes
	case *stackitem.Buffer:
		return kBuf
	case stackitem.Null:
		return kNull
	case *stackitem.Array:
		return kArr
	case *stackitem.Struct:
		return kStruct
	case *stackitem.Map:
		return kMap
	case *stackitem.Pointer:
		return kPtr
	}
	return kOther
}

func isCompound(k kind) bool { return k == kArr || k == kStruct || k == kMap }

const (
	trRet = iota
	trCatch
	trFinally
	trEnd
	trMisc
)

type tryRec struct {
	tC, tF, tE int
	state      int // 0 try, 1 catch, 2 finally
	hasC, hasF bool
}

type trampInfo struct {
	kind int
	rec  *tryRec
	d    int // invocation depth the record belongs to
}

type loopRec struct {
	start, slot, left, depth, tries int
}

type gen struct {
	r       *rng.R
	buf     []byte
	n       int
	v       *vm.VM
	tramp   map[int]trampInfo
	tries   map[int][]*tryRec
	funcs   []int // starts of function bodies written so far
	starts  []int // instruction starts written so far (for PUSHA / backward jumps)
	replay  int
	stopped bool
	hostile bool // one deliberately off-boundary target may be emitted
	loop    *loopRec
	flavor  int
	prevD   int
	body    int  // first offset after the prologue
	didHost bool // a hostile target was really emitted
	open    map[int]bool
	fnAt    map[int]int // invocation depth -> body start of the function running there
	subs    []subScript
}

// flavors bias the action mix.
const (
	flMixed = iota
	flCollections
	flControl
	flNumeric
	flBytes
	flLimits
	nFlavors
)

func newGen(r *rng.R, subs []subScript, preArgs int) *gen {
	g := &gen{r: r, subs: subs, buf: make([]byte, genBufSize), tramp: map[int]trampInfo{}, tries: map[int][]*tryRec{}, open: map[int]bool{}, fnAt: map[int]int{}}
	for i := range g.buf {
		g.buf[i] = byte(opcode.RET)
	}
	g.v = vm.New()
	installLoader(g.v, subs)
	g.v.Load(g.buf)
	for range preArgs {
		// stand-ins for the arguments a caller will pass
		switch r.Intn(5) {
		case 0:
			g.v.Estack().PushItem(stackitem.NewArray([]stackitem.Item{stackitem.Null{}}))
		case 1:
			g.v.Estack().PushItem(stackitem.NewMap())
		case 2:
			g.v.Estack().PushItem(stackitem.NewStruct(nil))
		default:
			g.v.Estack().PushItem(stackitem.NewBigInteger(big.NewInt(int64(r.Intn(5)))))
		}
	}
	g.replay = 1500
	g.prevD = 1
	return g
}

// ---------------------------------------------------------------- low level

func (g *gen) room() bool { return g.n < genBufSize-160 }

func (g *gen) put(op opcode.Opcode, operand ...byte) int {
	a := g.n
	g.buf[g.n] = byte(op)
	g.n++
	copy(g.buf[g.n:], operand)
	g.n += len(operand)
	g.starts = append(g.starts, a)
	return a
}

func le32(x int) []byte {
	var b [4]byte
	binary.LittleEndian.PutUint32(b[:], uint32(int32(x)))
	return b[:]
}

// step executes one instruction of the scratch VM.
func (g *gen) step() {
	if g.stopped {
		return
	}
	if !g.v.Ready() || g.v.HasStopped() {
		g.stopped = true
		return
	}
	func() {
		defer func() {
			if recover() != nil {
				g.stopped = true
			}
		}()
		if err := g.v.Step(); err != nil {
			g.stopped = true
		}
	}()
	if g.v.HasStopped() || !g.v.Ready() {
		g.stopped = true
		return
	}
	d := len(g.v.Istack())
	if d < g.prevD {
		for k := range g.tries {
			if k > d {
				delete(g.tries, k)
			}
		}
		for k, f := range g.fnAt {
			if k > d {
				delete(g.open, f)
				delete(g.fnAt, k)
			}
		}
		if g.loop != nil && g.loop.depth > d {
			g.loop = nil
		}
	} else if d > g.prevD {
		delete(g.tries, d)
	}
	g.prevD = d
	// forget records the VM has already dropped
	if td := g.v.Context().VerifTryDepth(); len(g.tries[d]) > td {
		g.tries[d] = g.tries[d][:td]
	}
}

// sync runs the scratch VM until it is about to execute the frontier.
func (g *gen) sync() bool {
	for !g.stopped {
		if p := g.v.Context().Program(); len(p) != len(g.buf) || &p[0] != &g.buf[0] {
			// inside a loaded sub-script: just run it
			g.replay--
			if g.replay < 0 {
				g.stopped = true
				return false
			}
			g.step()
			continue
		}
		ip := g.v.Context().NextIP()
		if ip == g.n {
			return true
		}
		if ti, ok := g.tramp[ip]; ok {
			binary.LittleEndian.PutUint32(g.buf[ip+1:], uint32(int32(g.n-ip)))
			delete(g.tramp, ip)
			d := len(g.v.Istack())
			switch ti.kind {
			case trCatch:
				ti.rec.state = 1
			case trFinally:
				ti.rec.state = 2
			case trEnd:
				if l := g.tries[d]; len(l) > 0 && l[len(l)-1] == ti.rec {
					g.tries[d] = l[:len(l)-1]
				}
			}
			g.step()
			continue
		}
		g.replay--
		if g.replay < 0 {
			g.stopped = true
			return false
		}
		g.step()
	}
	return false
}

// ins writes one instruction at the frontier and executes it.
func (g *gen) ins(op opcode.Opcode, operand ...byte) bool {
	if g.stopped || !g.room() {
		g.stopped = true
		return false
	}
	g.put(op, operand...)
	g.step()
	return g.sync()
}

func (g *gen) es() *vm.Stack { return g.v.Estack() }
func (g *gen) depth() int    { return g.v.Estack().Len() }
func (g *gen) top(i int) stackitem.Item {
	return g.v.Estack().Peek(i).Item()
}
func (g *gen) kindAt(i int) kind {
	if i >= g.depth() {
		return kOther
	}
	return classify(g.top(i))
}

// ---------------------------------------------------------------- pushes

func (g *gen) pushSmall(k int) bool {
	switch {
	case k >= -1 && k <= 16:
		return g.ins(opcode.Opcode(int(opcode.PUSH0) + k))
	case k >= -128 && k <= 127:
		return g.ins(opcode.PUSHINT8, byte(int8(k)))
	case k >= -32768 && k <= 32767:
		var b [2]byte
		binary.LittleEndian.PutUint16(b[:], uint16(int16(k)))
		return g.ins(opcode.PUSHINT16, b[:]...)
	default:
		return g.ins(opcode.PUSHINT32, le32(k)...)
	}
}

func (g *gen) pushBig(x *big.Int) bool {
	b := bigint.ToBytes(x)
	if len(b) > 32 {
		return g.ins(opcode.PUSHINT256, g.r.Bytes(32)...)
	}
	w, op := 1, opcode.PUSHINT8
	for w < len(b) {
		w *= 2
		op++
	}
	if g.r.Chance(1, 6) && w < 32 { // non-minimal width
		w *= 2
		op++
	}
	out := make([]byte, w)
	copy(out, b)
	if x.Sign() < 0 {
		for i := len(b); i < w; i++ {
			out[i] = 0xff
		}
	}
	return g.ins(op, out...)
}

func (g *gen) pushIntAny() bool {
	if g.r.Chance(1, 2) {
		return g.pushSmall(g.r.Intn(20) - 2)
	}
	return g.pushBig(g.r.BigBoundary())
}

var keyBytes = [][]byte{{}, {'a'}, {'b'}, {0}, {1}, make([]byte, 64), {'a', 'b', 'c'}, {'a'}, {'b'}, {0}, {1}, {}, {2}, make([]byte, 65)}

func (g *gen) pushData(b []byte) bool {
	switch {
	case len(b) < 256 && !g.r.Chance(1, 12):
		return g.ins(opcode.PUSHDATA1, append([]byte{byte(len(b))}, b...)...)
	case len(b) < 65536 && !g.r.Chance(1, 8):
		return g.ins(opcode.PUSHDATA2, append([]byte{byte(len(b)), byte(len(b) >> 8)}, b...)...)
	default:
		return g.ins(opcode.PUSHDATA4, append(le32(len(b)), b...)...)
	}
}

func (g *gen) pushBytesAny() bool {
	if g.r.Chance(1, 2) {
		return g.pushData(keyBytes[g.r.Intn(len(keyBytes))])
	}
	l := []int{0, 1, 2, 8, 31, 32, 33, 63, 64, 65, 100}[g.r.Intn(11)]
	return g.pushData(g.r.Bytes(l))
}

// pushKey pushes a valid map key out of a small universe so that keys collide.
func (g *gen) pushKey() bool {
	switch g.r.Intn(8) {
	case 0, 1, 2:
		return g.pushSmall(g.r.Intn(4))
	case 3:
		return g.ins(opcode.PUSHT)
	case 4:
		return g.ins(opcode.PUSHF)
	case 5:
		return g.pushBig(g.r.BigBoundary())
	default:
		return g.pushData(keyBytes[g.r.Intn(len(keyBytes))])
	}
}

func (g *gen) pushPrim() bool {
	switch g.r.Intn(9) {
	case 0, 1, 2:
		return g.pushIntAny()
	case 3:
		return g.pushBytesAny()
	case 4:
		return g.ins(opcode.PUSHT + opcode.Opcode(g.r.Intn(2)))
	case 5:
		return g.ins(opcode.PUSHNULL)
	case 6:
		return g.pushBuffer(g.r.Intn(6))
	case 7:
		return g.pushPointer()
	default:
		return g.pushSmall(g.r.Intn(5))
	}
}

func (g *gen) pushPointer() bool {
	t := 0
	if len(g.funcs) > 0 && g.r.Chance(3, 4) {
		t = g.funcs[g.r.Intn(len(g.funcs))]
	} else if len(g.starts) > 0 {
		t = g.starts[g.r.Intn(len(g.starts))]
	}
	return g.ins(opcode.PUSHA, le32(t-g.n)...)
}

func (g *gen) pushBuffer(n int) bool {
	return g.pushSmall(n) && g.ins(opcode.NEWBUFFER)
}

func (g *gen) free() int { return limItems - g.v.VerifRefs() }

func (g *gen) pushNewCompound() bool {
	switch g.r.Intn(10) {
	case 0:
		return g.ins(opcode.NEWARRAY0)
	case 1:
		return g.ins(opcode.NEWSTRUCT0)
	case 2, 3:
		return g.ins(opcode.NEWMAP)
	case 4, 5:
		return g.pushSmall(g.r.Intn(4)) && g.ins(opcode.NEWARRAY)
	case 6, 7:
		return g.pushSmall(g.r.Intn(4)) && g.ins(opcode.NEWSTRUCT)
	case 8:
		t := []stackitem.Type{stackitem.AnyT, stackitem.BooleanT, stackitem.IntegerT, stackitem.ByteArrayT, stackitem.ArrayT, stackitem.MapT, stackitem.BufferT}[g.r.Intn(7)]
		return g.pushSmall(g.r.Intn(4)) && g.ins(opcode.NEWARRAYT, byte(t))
	default:
		return g.pushSmall(1+g.r.Intn(3)) && g.ins(opcode.NEWARRAY)
	}
}

// source of an existing item
type source struct {
	where int // 0 stack, 1 local, 2 arg, 3 static
	idx   int
	k     kind
}

func (g *gen) sources(want func(kind) bool) []source {
	var out []source
	n := g.depth()
	if n > 10 {
		n = 10
	}
	for i := 0; i < n; i++ {
		if k := classify(g.top(i)); want(k) {
			out = append(out, source{0, i, k})
		}
	}
	ctx := g.v.Context()
	for w, s := range []*vm.Slot{ctx.LocalsSlot(), ctx.ArgumentsSlot(), ctx.StaticsSlot()} {
		for i, it := range *s {
			if it == nil {
				continue
			}
			if k := classify(it); want(k) {
				out = append(out, source{w + 1, i, k})
			}
		}
	}
	return out
}

func (g *gen) load(s source) bool {
	switch s.where {
	case 0:
		switch {
		case s.idx == 0:
			return g.ins(opcode.DUP)
		case s.idx == 1 && g.r.Chance(3, 4):
			return g.ins(opcode.OVER)
		default:
			return g.pushSmall(s.idx) && g.ins(opcode.PICK)
		}
	case 1:
		return g.slotOp(opcode.LDLOC0, opcode.LDLOC, s.idx)
	case 2:
		return g.slotOp(opcode.LDARG0, opcode.LDARG, s.idx)
	default:
		return g.slotOp(opcode.LDSFLD0, opcode.LDSFLD, s.idx)
	}
}

// slotCount: mostly small, sometimes large enough for every short-form slot opcode.
func (g *gen) slotCount() int {
	if g.r.Chance(1, 5) {
		return 5 + g.r.Intn(5)
	}
	return 1 + g.r.Intn(4)
}

func (g *gen) slotOp(short, long opcode.Opcode, i int) bool {
	if i <= 6 && !g.r.Chance(1, 6) {
		return g.ins(short + opcode.Opcode(i))
	}
	return g.ins(long, byte(i))
}

// pushExisting pushes a copy of something that already lives in the state
// (preferring compounds: that is what creates sharing).
func (g *gen) pushExisting(want func(kind) bool) bool {
	src := g.sources(want)
	if len(src) == 0 {
		return false
	}
	return g.load(src[g.r.Intn(len(src))])
}

func anyKind(kind) bool { return true }

// pushValue pushes "some value": existing compound, new compound, primitive.
func (g *gen) pushValue() bool {
	switch g.r.Intn(10) {
	case 0, 1, 2, 3:
		if g.pushExisting(isCompound) {
			return !g.stopped
		}
		return g.pushNewCompound()
	case 4:
		if g.pushExisting(anyKind) {
			return !g.stopped
		}
		return g.pushPrim()
	case 5, 6:
		return g.pushNewCompound()
	default:
		return g.pushPrim()
	}
}

func (g *gen) pushContainer(want func(kind) bool) bool {
	if !g.r.Chance(1, 6) && g.pushExisting(want) {
		return !g.stopped
	}
	if g.stopped {
		return false
	}
	for range 4 {
		if !g.pushNewCompound() {
			return false
		}
		if want(g.kindAt(0)) {
			return true
		}
		if !g.ins(opcode.DROP) {
			return false
		}
	}
	return g.ins(opcode.NEWARRAY0) && want(kArr)
}

func arrOrStruct(k kind) bool { return k == kArr || k == kStruct }
func isMapK(k kind) bool      { return k == kMap }
func indexable(k kind) bool {
	return k == kArr || k == kStruct || k == kMap || k == kBuf || k == kBytes
}
func settable(k kind) bool { return k == kArr || k == kStruct || k == kMap || k == kBuf }

func containerLen(it stackitem.Item) int {
	switch t := it.(type) {
	case *stackitem.Array:
		return t.Len()
	case *stackitem.Struct:
		return t.Len()
	case *stackitem.Map:
		return t.Len()
	case *stackitem.Buffer:
		return t.Len()
	case *stackitem.ByteArray:
		return len(t.Value().([]byte))
	}
	return 0
}

// pushKeyFor pushes a key / index fitting the container on top of the stack.
func (g *gen) pushKeyFor() bool {
	it := g.top(0)
	if m, ok := it.(*stackitem.Map); ok {
		if el := m.Value().([]stackitem.MapElement); len(el) > 0 && g.r.Chance(2, 3) {
			switch k := el[g.r.Intn(len(el))].Key.(type) {
			case *stackitem.BigInteger:
				return g.pushBig(k.Big())
			case stackitem.Bool:
				if k {
					return g.ins(opcode.PUSHT)
				}
				return g.ins(opcode.PUSHF)
			case *stackitem.ByteArray:
				return g.pushData(k.Value().([]byte))
			}
		}
		return g.pushKey()
	}
	n := containerLen(it)
	bad := g.r.Chance(1, 40)
	if g.catchable() {
		bad = g.r.Chance(1, 6)
	}
	switch {
	case n > 0 && !bad:
		return g.pushSmall(g.r.Intn(n))
	case g.r.Chance(2, 3):
		return g.pushSmall(n) // out of range: catchable exception for PICKITEM / SETITEM
	default:
		return g.pushSmall(-1)
	}
}

// catchable reports whether a VM exception thrown now would be handled.
func (g *gen) catchable() bool {
	for _, l := range g.tries {
		for _, r := range l {
			if (r.state == 0 && (r.hasC || r.hasF)) || (r.state == 1 && r.hasF) {
				return true
			}
		}
	}
	return false
}

// nonEmptyOrFill makes sure the container on top has an element (indexing an
// empty one only produces an exception).
func (g *gen) emptyTop() bool {
	if _, ok := g.top(0).(*stackitem.Map); ok {
		return false
	}
	return containerLen(g.top(0)) == 0
}

// ---------------------------------------------------------------- actions

// inPlace reports whether the action should consume the container that is
// already on top of the stack (possibly its last reference) instead of a copy.
func (g *gen) inPlace(want func(kind) bool) bool {
	return g.depth() > 0 && want(g.kindAt(0)) && g.r.Chance(1, 4)
}

// pushValueOrSelf is pushValue, but sometimes the value is the container on top
// itself or something that contains it (direct and indirect cycles).
func (g *gen) pushValueOrSelf() bool {
	if g.depth() > 0 && isCompound(g.kindAt(0)) {
		switch g.r.Intn(14) {
		case 0:
			return g.ins(opcode.DUP)
		case 1:
			return g.ins(opcode.DUP) && g.ins(opcode.PUSH1) && g.ins(opcode.PACK)
		}
	}
	return g.pushValue()
}

func (g *gen) actAppend() bool {
	if !g.inPlace(arrOrStruct) && !g.pushContainer(arrOrStruct) {
		return false
	}
	return g.pushValueOrSelf() && g.ins(opcode.APPEND)
}

func (g *gen) actSetItem() bool {
	if !g.inPlace(settable) && !g.pushContainer(settable) {
		return false
	}
	if g.emptyTop() && !(g.catchable() && g.r.Chance(1, 4)) {
		if arrOrStruct(g.kindAt(0)) {
			return g.pushValue() && g.ins(opcode.APPEND)
		}
		return g.ins(opcode.SIZE)
	}
	return g.pushKeyFor() && g.setValue() && g.ins(opcode.SETITEM)
}

func (g *gen) setValue() bool {
	if g.kindAt(1) != kOther && classify(g.top(1)) == kBuf {
		return g.pushSmall(g.r.Intn(300) - 20)
	}
	if isCompound(g.kindAt(1)) {
		switch g.r.Intn(14) {
		case 0: // the container itself
			return g.ins(opcode.OVER)
		case 1: // something containing the container
			return g.ins(opcode.OVER) && g.ins(opcode.PUSH1) && g.ins(opcode.PACK)
		}
	}
	return g.pushValue()
}

func (g *gen) actPickItem() bool {
	if !g.inPlace(indexable) && !g.pushContainer(indexable) {
		return false
	}
	if (g.emptyTop() || containerLen(g.top(0)) == 0) && !(g.catchable() && g.r.Chance(1, 3)) {
		return g.ins(opcode.SIZE)
	}
	return g.pushKeyFor() && g.ins(opcode.PICKITEM)
}

func (g *gen) actRemove() bool {
	if !g.inPlace(isCompound) && !g.pushContainer(isCompound) {
		return false
	}
	if g.emptyTop() && !g.r.Chance(1, 30) {
		return g.ins(opcode.CLEARITEMS)
	}
	if _, ok := g.top(0).(*stackitem.Map); !ok && containerLen(g.top(0)) > 0 && !g.r.Chance(1, 30) {
		return g.pushSmall(g.r.Intn(containerLen(g.top(0)))) && g.ins(opcode.REMOVE)
	}
	return g.pushKeyFor() && g.ins(opcode.REMOVE)
}

func (g *gen) actOnContainer() bool {
	type oc struct {
		op   opcode.Opcode
		want func(kind) bool
	}
	c := []oc{
		{opcode.CLEARITEMS, isCompound}, {opcode.POPITEM, arrOrStruct}, {opcode.POPITEM, arrOrStruct},
		{opcode.UNPACK, isCompound}, {opcode.UNPACK, isCompound}, {opcode.VALUES, isCompound}, {opcode.VALUES, isCompound},
		{opcode.KEYS, isMapK}, {opcode.REVERSEITEMS, func(k kind) bool { return arrOrStruct(k) || k == kBuf }},
		{opcode.SIZE, indexable}, {opcode.CLEARITEMS, isCompound},
	}[g.r.Intn(11)]
	// sometimes consume the container that is already on top (possibly its only reference)
	inPlace := g.depth() > 0 && c.want(g.kindAt(0)) && g.r.Chance(1, 3)
	if c.op == opcode.UNPACK || c.op == opcode.VALUES {
		// keep the result within the item limit most of the time
		if !inPlace && !g.pushContainer(c.want) {
			return false
		}
		if containerLen(g.top(0))*2+4 > g.free() && !g.r.Chance(1, 5) {
			return g.ins(opcode.SIZE)
		}
		return g.ins(c.op)
	}
	if !inPlace && !g.pushContainer(c.want) {
		return false
	}
	if c.op == opcode.POPITEM && containerLen(g.top(0)) == 0 && !g.r.Chance(1, 30) {
		return g.pushValue() && g.ins(opcode.APPEND)
	}
	return g.ins(c.op)
}

func (g *gen) actHasKey() bool {
	if !g.pushContainer(indexable) {
		return false
	}
	if _, ok := g.top(0).(*stackitem.Map); ok {
		return g.pushKeyFor() && g.ins(opcode.HASKEY)
	}
	return g.pushSmall(g.r.Intn(containerLen(g.top(0))+2)) && g.ins(opcode.HASKEY)
}

func (g *gen) actPack() bool {
	d := g.depth()
	switch g.r.Intn(4) {
	case 0, 1:
		k := g.r.Intn(5)
		if k > d {
			k = d
		}
		if g.r.Chance(1, 12) {
			k = d
		}
		op := opcode.PACK
		if g.r.Bool() {
			op = opcode.PACKSTRUCT
		}
		return g.pushSmall(k) && g.ins(op)
	default:
		k := g.r.Intn(4)
		for range k {
			if !(g.pushValue() && g.pushKey()) {
				return false
			}
		}
		return g.pushSmall(k) && g.ins(opcode.PACKMAP)
	}
}

func (g *gen) actStackShuffle() bool {
	d := g.depth()
	switch g.r.Intn(16) {
	case 0:
		if d >= 1 {
			return g.ins(opcode.DUP)
		}
	case 1:
		if d >= 2 {
			return g.ins(opcode.OVER)
		}
	case 2:
		if d >= 1 {
			return g.pushSmall(g.r.Intn(d)) && g.ins(opcode.PICK)
		}
	case 3:
		if d >= 2 {
			return g.ins(opcode.TUCK)
		}
	case 4:
		if d >= 2 {
			return g.ins(opcode.SWAP)
		}
	case 5:
		if d >= 3 {
			return g.ins(opcode.ROT)
		}
	case 6:
		if d >= 1 {
			return g.pushSmall(g.r.Intn(d)) && g.ins(opcode.ROLL)
		}
	case 7:
		if d >= 3 {
			return g.ins(opcode.REVERSE3)
		}
	case 8:
		if d >= 4 {
			return g.ins(opcode.REVERSE4)
		}
	case 9:
		if d >= 1 {
			return g.pushSmall(g.r.Intn(d+1)) && g.ins(opcode.REVERSEN)
		}
	case 10:
		if d >= 1 {
			return g.ins(opcode.DROP)
		}
	case 11:
		if d >= 2 {
			return g.ins(opcode.NIP)
		}
	case 12:
		if d >= 1 {
			return g.pushSmall(g.r.Intn(d)) && g.ins(opcode.XDROP)
		}
	case 13:
		if g.r.Chance(1, 6) {
			return g.ins(opcode.CLEAR)
		}
	case 14:
		return g.ins(opcode.DEPTH)
	case 15:
		return g.ins(opcode.NOP)
	}
	return g.pushPrim()
}

func (g *gen) actSlots() bool {
	ctx := g.v.Context()
	loc, arg, st := ctx.LocalsSlot(), ctx.ArgumentsSlot(), ctx.StaticsSlot()
	type fam struct {
		s         *vm.Slot
		ld0, ld   opcode.Opcode
		st0, stop opcode.Opcode
	}
	fs := []fam{{loc, opcode.LDLOC0, opcode.LDLOC, opcode.STLOC0, opcode.STLOC},
		{arg, opcode.LDARG0, opcode.LDARG, opcode.STARG0, opcode.STARG},
		{st, opcode.LDSFLD0, opcode.LDSFLD, opcode.STSFLD0, opcode.STSFLD}}
	if *st == nil && g.loop == nil && g.r.Chance(1, 2) {
		return g.ins(opcode.INITSSLOT, byte(g.slotCount()))
	}
	if *loc == nil && *arg == nil && g.loop == nil && g.r.Chance(1, 2) {
		a := g.slotCount() - 1
		if a > g.depth() {
			a = g.depth()
		}
		l := g.slotCount() - 1
		if a == 0 && l == 0 {
			l = 1
		}
		return g.ins(opcode.INITSLOT, byte(l), byte(a))
	}
	f := fs[g.r.Intn(3)]
	if *f.s == nil || len(*f.s) == 0 {
		f = fs[2]
		if *f.s == nil {
			return g.pushPrim()
		}
	}
	i := g.r.Intn(len(*f.s))
	if g.loop != nil && f.s == st && i == g.loop.slot {
		return g.slotOp(f.ld0, f.ld, i)
	}
	if g.r.Chance(1, 25) {
		i = len(*f.s) // out of range
	}
	if g.r.Bool() || g.depth() == 0 {
		return g.slotOp(f.ld0, f.ld, i)
	}
	if g.r.Chance(1, 2) { // store a fresh value rather than whatever is on top
		if !g.pushValue() {
			return false
		}
	}
	return g.slotOp(f.st0, f.stop, i)
}

func intLike(k kind) bool { return k == kInt || k == kBool }

// ensureInts makes the top n items integers (pushing what is missing).
func (g *gen) ensureInts(n int) bool {
	ok := g.depth() >= n
	for i := 0; ok && i < n; i++ {
		ok = intLike(g.kindAt(i))
	}
	if ok && g.r.Chance(2, 3) {
		return true
	}
	for range n {
		if !g.pushIntAny() {
			return false
		}
	}
	return true
}

func (g *gen) actNumeric() bool {
	un := []opcode.Opcode{opcode.INC, opcode.DEC, opcode.NEGATE, opcode.ABS, opcode.SIGN, opcode.INVERT, opcode.NOT, opcode.NZ, opcode.SQRT}
	bin := []opcode.Opcode{opcode.ADD, opcode.SUB, opcode.MUL, opcode.DIV, opcode.MOD, opcode.AND, opcode.OR, opcode.XOR,
		opcode.MIN, opcode.MAX, opcode.NUMEQUAL, opcode.NUMNOTEQUAL, opcode.LT, opcode.LE, opcode.GT, opcode.GE,
		opcode.BOOLAND, opcode.BOOLOR, opcode.ADD, opcode.MUL, opcode.SUB}
	switch g.r.Intn(10) {
	case 0, 1, 2:
		return g.ensureInts(1) && g.ins(un[g.r.Intn(len(un))])
	case 3, 4, 5, 6:
		return g.ensureInts(2) && g.ins(bin[g.r.Intn(len(bin))])
	case 7:
		// shifts and powers with an exponent around the width limit
		e := []int{0, 1, 2, 7, 8, 63, 64, 127, 128, 254, 255, 256, 257}[g.r.Intn(13)]
		op := []opcode.Opcode{opcode.SHL, opcode.SHR, opcode.POW, opcode.SHL}[g.r.Intn(4)]
		if op == opcode.POW && !g.r.Chance(1, 4) {
			e = g.r.Intn(20)
		}
		return g.ensureInts(1) && g.pushSmall(e) && g.ins(op)
	case 8:
		return g.ensureInts(3) && g.ins([]opcode.Opcode{opcode.MODMUL, opcode.MODPOW, opcode.WITHIN}[g.r.Intn(3)])
	default:
		if g.depth() >= 2 {
			return g.ins(opcode.EQUAL + opcode.Opcode(g.r.Intn(2)))
		}
		return g.pushPrim()
	}
}

func bytesLike(k kind) bool { return k == kBytes || k == kBuf || k == kInt || k == kBool }

func (g *gen) pushBytesLike() bool {
	if g.r.Chance(1, 2) && g.pushExisting(func(k kind) bool { return k == kBytes || k == kBuf }) {
		return !g.stopped
	}
	if g.stopped {
		return false
	}
	if g.r.Bool() {
		return g.pushBytesAny()
	}
	return g.pushBuffer([]int{0, 1, 2, 8, 32, 64, 65, 255, 256, 1024}[g.r.Intn(10)])
}

func (g *gen) actBytes() bool {
	switch g.r.Intn(9) {
	case 0, 1:
		return g.pushBytesLike() && g.pushBytesLike() && g.ins(opcode.CAT)
	case 2:
		if !g.pushBytesLike() {
			return false
		}
		n := containerLen(g.top(0))
		o := g.r.Intn(n + 1)
		l := g.r.Intn(n - o + 1)
		if g.r.Chance(1, 8) {
			l++
		}
		return g.pushSmall(o) && g.pushSmall(l) && g.ins(opcode.SUBSTR)
	case 3, 4:
		if !g.pushBytesLike() {
			return false
		}
		n := containerLen(g.top(0))
		l := g.r.Intn(n + 1)
		if g.r.Chance(1, 25) {
			l = n + 1
		}
		return g.pushSmall(l) && g.ins(opcode.LEFT+opcode.Opcode(g.r.Intn(2)))
	case 5:
		// MEMCPY dst di src si n
		if !g.pushContainer(func(k kind) bool { return k == kBuf }) {
			if g.stopped || !g.pushBuffer(8) {
				return false
			}
		}
		dn := containerLen(g.top(0))
		di := g.r.Intn(dn + 1)
		if !(g.pushSmall(di) && g.pushBytesLike()) {
			return false
		}
		sn := containerLen(g.top(0))
		si := g.r.Intn(sn + 1)
		n := min(dn-di, sn-si)
		if n > 0 {
			n = g.r.Intn(n + 1)
		}
		if g.r.Chance(1, 8) {
			n++
		}
		return g.pushSmall(si) && g.pushSmall(n) && g.ins(opcode.MEMCPY)
	case 6:
		if g.depth() == 0 && !g.pushPrim() {
			return false
		}
		ts := []stackitem.Type{stackitem.BooleanT, stackitem.IntegerT, stackitem.ByteArrayT, stackitem.BufferT, stackitem.ArrayT, stackitem.StructT, stackitem.MapT, stackitem.PointerT}
		op := opcode.CONVERT
		if g.r.Chance(1, 4) {
			op = opcode.ISTYPE
		}
		return g.ins(op, byte(ts[g.r.Intn(len(ts))]))
	case 7:
		if g.depth() == 0 {
			return g.pushPrim()
		}
		return g.ins(opcode.ISNULL)
	default:
		return g.pushBuffer([]int{0, 1, 16, 64, 300, 1024, 4096}[g.r.Intn(7)])
	}
}

// actLimits goes for the limits of the property statement on purpose.
func (g *gen) actLimits() bool {
	free := g.free()
	switch g.r.Intn(12) {
	case 0, 1:
		// compound sized around what is left of the item limit
		n := free - 3 + g.r.Intn(5)
		if n < 0 {
			n = 0
		}
		op := []opcode.Opcode{opcode.NEWARRAY, opcode.NEWSTRUCT, opcode.NEWARRAY}[g.r.Intn(3)]
		return g.pushSmall(n) && g.ins(op)
	case 2:
		// half of what is left, to be cloned / unpacked / copied later
		n := free/2 - 2 + g.r.Intn(4)
		if n < 0 {
			n = 0
		}
		return g.pushSmall(n) && g.ins([]opcode.Opcode{opcode.NEWARRAY, opcode.NEWSTRUCT}[g.r.Intn(2)])
	case 3:
		// big buffers around the item size limit
		n := []int{65535, 65536, limItemSize - 1, limItemSize, limItemSize + 1, limItemSize / 2}[g.r.Intn(6)]
		return g.pushSmall(n) && g.ins(opcode.NEWBUFFER)
	case 4:
		// concatenation around the size limit
		src := g.sources(func(k kind) bool { return k == kBuf || k == kBytes })
		var big []source
		for _, s := range src {
			if s.where == 0 && containerLen(g.top(s.idx)) >= 1024 {
				big = append(big, s)
			}
		}
		if len(big) == 0 {
			return g.pushSmall(65535) && g.ins(opcode.NEWBUFFER)
		}
		s := big[g.r.Intn(len(big))]
		l := containerLen(g.top(s.idx))
		if !g.load(s) {
			return false
		}
		rest := limItemSize - l - 1 + g.r.Intn(3)
		if rest < 0 {
			return g.ins(opcode.DUP) && g.ins(opcode.CAT)
		}
		return g.pushSmall(rest) && g.ins(opcode.NEWBUFFER) && g.ins(opcode.CAT)
	case 5, 6:
		// integers at the width limit
		one := big.NewInt(1)
		v := new(big.Int).Lsh(one, uint([]int{254, 255, 255, 127, 128}[g.r.Intn(5)]))
		switch g.r.Intn(4) {
		case 0:
			v.Sub(v, one)
		case 1:
			v.Neg(v)
		case 2:
			v.Neg(v).Add(v, one)
		}
		if v.BitLen() > 255 && !(v.Sign() < 0 && v.TrailingZeroBits() == 255) {
			v.Rsh(v, 1)
		}
		if !g.pushBig(v) {
			return false
		}
		ops := []opcode.Opcode{opcode.INC, opcode.DEC, opcode.NEGATE, opcode.ABS, opcode.DUP, opcode.INVERT, opcode.SQRT}
		op := ops[g.r.Intn(len(ops))]
		if op == opcode.DUP {
			return g.ins(opcode.DUP) && g.ins([]opcode.Opcode{opcode.ADD, opcode.MUL, opcode.SUB, opcode.DIV, opcode.MOD, opcode.AND, opcode.OR, opcode.XOR}[g.r.Intn(8)])
		}
		return g.ins(op)
	case 7:
		// deep nesting: wrap the top item repeatedly
		if g.depth() == 0 && !g.pushNewCompound() {
			return false
		}
		k := 1 + g.r.Intn(12)
		for range k {
			if !(g.ins(opcode.PUSH1) && g.ins([]opcode.Opcode{opcode.PACK, opcode.PACK, opcode.PACKSTRUCT}[g.r.Intn(3)])) {
				return false
			}
		}
		return true
	case 8:
		// struct with nested structs: cloning cost / limits
		if !(g.pushSmall(1+g.r.Intn(6)) && g.ins(opcode.NEWSTRUCT)) {
			return false
		}
		for range 1 + g.r.Intn(5) {
			if !(g.ins(opcode.DUP) && g.ins(opcode.DUP) && g.ins(opcode.APPEND)) {
				return false
			}
		}
		return true
	case 9:
		// many copies of one compound on the stack
		if !g.pushContainer(isCompound) {
			return false
		}
		for range 2 + g.r.Intn(6) {
			if !g.ins(opcode.DUP) {
				return false
			}
		}
		return true
	case 10:
		return g.actRecursion()
	default:
		// fill the stack up to the limit with cheap pushes through UNPACK
		n := free - 4 + g.r.Intn(4)
		if n < 1 {
			n = 1
		}
		return g.pushSmall(n) && g.ins(opcode.NEWARRAY) && g.ins(opcode.UNPACK)
	}
}

// ---------------------------------------------------------------- control flow

func (g *gen) curTries() []*tryRec { return g.tries[len(g.v.Istack())] }

func (g *gen) actCall() bool {
	if len(g.v.Istack()) > 6 && !g.r.Chance(1, 5) {
		return g.pushPrim()
	}
	var a int
	switch g.r.Intn(4) {
	case 0:
		// CALLA through a fresh pointer
		a = g.n
		g.put(opcode.PUSHA, le32(11)...)
		g.put(opcode.CALLA)
		t := g.put(opcode.JMPL, le32(5)...)
		g.tramp[t] = trampInfo{kind: trRet}
		g.funcs = append(g.funcs, g.n)
		g.step()
		g.step()
	case 1:
		a = g.n
		g.put(opcode.CALLL, le32(10)...)
		t := g.put(opcode.JMPL, le32(5)...)
		g.tramp[t] = trampInfo{kind: trRet}
		g.funcs = append(g.funcs, g.n)
		g.step()
	default:
		a = g.n
		g.put(opcode.CALL, 7)
		t := g.put(opcode.JMPL, le32(5)...)
		g.tramp[t] = trampInfo{kind: trRet}
		g.funcs = append(g.funcs, g.n)
		g.step()
	}
	_ = a
	if !g.sync() {
		return false
	}
	if f := g.funcs[len(g.funcs)-1]; g.v.Context().NextIP() == f {
		g.open[f] = true
		g.fnAt[len(g.v.Istack())] = f
	}
	// callee prologue
	if g.r.Chance(3, 4) {
		na := g.slotCount() - 1
		if na > g.depth() {
			na = g.depth()
		}
		nl := g.slotCount() - 1
		if na == 0 && nl == 0 {
			nl = 1
		}
		return g.ins(opcode.INITSLOT, byte(nl), byte(na))
	}
	return true
}

func (g *gen) actCallExisting() bool {
	if g.r.Chance(1, 5) && len(g.v.Istack()) <= 8 {
		// call through a pointer that already lives in the state (possibly one that came
		// out of another script context: that must fault, not jump)
		if g.pushExisting(func(k kind) bool { return k == kPtr }) {
			return g.ins(opcode.CALLA)
		}
		if g.stopped {
			return false
		}
	}
	if len(g.funcs) == 0 || len(g.v.Istack()) > 8 {
		return g.actCall()
	}
	f := g.funcs[g.r.Intn(len(g.funcs))]
	if g.open[f] && !g.r.Chance(1, 6) {
		return g.actCall() // calling a function that is still open is recursion: keep it rare
	}
	if g.r.Chance(1, 3) {
		return g.ins(opcode.PUSHA, le32(f-g.n)...) && g.ins(opcode.CALLA)
	}
	rel := f - g.n
	if rel >= -128 && g.r.Bool() {
		return g.ins(opcode.CALL, byte(int8(rel)))
	}
	return g.ins(opcode.CALLL, le32(rel)...)
}

// actCallScript loads a sub-script as a new script context (own evaluation
// stack, own static slots), passing shared items as arguments.
func (g *gen) actCallScript() bool {
	if len(g.subs) == 0 || len(g.v.Istack()) > 12 {
		return g.actCall()
	}
	k := g.r.Intn(len(g.subs))
	nargs := g.subs[k].NArgs
	if g.r.Chance(1, 10) {
		nargs = g.r.Intn(4)
	}
	for range nargs {
		if !g.pushValue() {
			return false
		}
	}
	mode := []int{ldHash, ldHash, ldRet, ldRet, ldDynamic, ldDynamic, ldFlags, ldFlags, ldVoid}[g.r.Intn(9)]
	return g.ins(opcode.SYSCALL, le32(int(int32(loaderID(k, mode, nargs))))...)
}

// actRecursion calls the innermost open function again: depth grows until a
// limit (invocation depth or item count) faults the script.
func (g *gen) actRecursion() bool {
	if len(g.funcs) == 0 {
		// whole-script recursion (after the slot prologue)
		return g.ins(opcode.CALLL, le32(g.body-g.n)...)
	}
	f := g.funcs[len(g.funcs)-1]
	return g.ins(opcode.CALLL, le32(f-g.n)...)
}

func (g *gen) actRet() bool {
	if len(g.v.Istack()) <= 1 {
		return g.pushPrim()
	}
	if len(g.curTries()) > 0 && !g.r.Chance(1, 8) {
		return g.actEndTry()
	}
	return g.ins(opcode.RET)
}

func (g *gen) actTry() bool {
	d := len(g.v.Istack())
	if g.v.Context().VerifTryDepth() >= limTryDepth && !g.r.Chance(1, 3) {
		return g.pushPrim()
	}
	hasC, hasF := true, false
	switch g.r.Intn(4) {
	case 0:
		hasC, hasF = false, true
	case 1:
		hasF = true
	}
	rec := &tryRec{hasC: hasC, hasF: hasF}
	g.put(opcode.JMPL, le32(20)...)
	rec.tC = g.put(opcode.JMPL, le32(5)...)
	rec.tF = g.put(opcode.JMPL, le32(5)...)
	rec.tE = g.put(opcode.JMPL, le32(5)...)
	start := g.n
	relC, relF := 0, 0
	if hasC {
		relC = rec.tC - start
		g.tramp[rec.tC] = trampInfo{kind: trCatch, rec: rec, d: d}
	}
	if hasF {
		relF = rec.tF - start
		g.tramp[rec.tF] = trampInfo{kind: trFinally, rec: rec, d: d}
	}
	g.tramp[rec.tE] = trampInfo{kind: trEnd, rec: rec, d: d}
	if g.r.Bool() {
		g.put(opcode.TRY, byte(int8(relC)), byte(int8(relF)))
	} else {
		g.put(opcode.TRYL, append(le32(relC), le32(relF)...)...)
	}
	g.step() // JMPL
	g.step() // TRY
	if g.stopped {
		return false
	}
	if len(g.v.Istack()) == d {
		g.tries[d] = append(g.tries[d], rec)
	}
	return g.sync()
}

func (g *gen) actEndTry() bool {
	l := g.curTries()
	if len(l) == 0 {
		return g.pushPrim()
	}
	rec := l[len(l)-1]
	if rec.state == 2 {
		return g.ins(opcode.ENDFINALLY)
	}
	rel := rec.tE - g.n
	if rel >= -128 && g.r.Bool() {
		return g.ins(opcode.ENDTRY, byte(int8(rel)))
	}
	return g.ins(opcode.ENDTRYL, le32(rel)...)
}

func (g *gen) actThrow() bool {
	// mostly throw only where something can catch it
	if !g.catchable() && !g.r.Chance(1, 12) {
		return g.actTry()
	}
	switch g.r.Intn(4) {
	case 0:
		// catchable VM exception: index out of range
		return g.pushContainer(arrOrStruct) && g.pushSmall(containerLen(g.top(0))) && g.ins(opcode.PICKITEM)
	case 1:
		return g.pushContainer(isMapK) && g.pushData([]byte("nokey")) && g.ins(opcode.PICKITEM)
	default:
		return g.pushValue() && g.ins(opcode.THROW)
	}
}

// actJump emits a taken-or-not conditional / unconditional jump through a
// trampoline placed before it.
func (g *gen) actJump() bool {
	g.put(opcode.JMP, 7)
	t := g.put(opcode.JMPL, le32(5)...)
	g.tramp[t] = trampInfo{kind: trMisc}
	g.step()
	if !g.sync() {
		return false
	}
	ops := []opcode.Opcode{opcode.JMP, opcode.JMPIF, opcode.JMPIFNOT, opcode.JMPEQ, opcode.JMPNE, opcode.JMPGT, opcode.JMPGE, opcode.JMPLT, opcode.JMPLE}
	op := ops[g.r.Intn(len(ops))]
	switch {
	case op == opcode.JMP:
	case op == opcode.JMPIF || op == opcode.JMPIFNOT:
		if g.depth() == 0 || g.r.Bool() {
			if !g.ins(opcode.PUSHT + opcode.Opcode(g.r.Intn(2))) {
				return false
			}
		}
	default:
		if !g.ensureInts(2) {
			return false
		}
	}
	rel := t - g.n
	if g.r.Bool() && rel >= -128 {
		return g.ins(op, byte(int8(rel)))
	}
	return g.ins(op+1, le32(rel)...) // long form follows the short one
}

func (g *gen) actLoopStart() bool {
	st := g.v.Context().StaticsSlot()
	if g.loop != nil || *st == nil {
		return g.actSlots()
	}
	slot := len(*st) - 1
	if slot > 6 {
		return g.pushPrim()
	}
	cnt := 2 + g.r.Intn(6)
	if g.r.Chance(1, 8) {
		cnt = 20 + g.r.Intn(60)
	}
	if !(g.pushSmall(cnt) && g.ins(opcode.STSFLD0+opcode.Opcode(slot))) {
		return false
	}
	d := len(g.v.Istack())
	g.loop = &loopRec{start: g.n, slot: slot, left: 1 + g.r.Intn(5), depth: d, tries: len(g.tries[d])}
	return true
}

func (g *gen) loopTail() bool {
	l := g.loop
	g.loop = nil
	d := len(g.v.Istack())
	if d != l.depth || len(g.tries[d]) != l.tries || g.v.Context().VerifTryDepth() != l.tries {
		return true
	}
	s := opcode.Opcode(l.slot)
	if !(g.ins(opcode.LDSFLD0+s) && g.ins(opcode.DEC) && g.ins(opcode.DUP) && g.ins(opcode.STSFLD0+s) && g.ins(opcode.PUSH0)) {
		return false
	}
	return g.ins(opcode.JMPGTL, le32(l.start-g.n)...)
}

var hostileData = []byte{byte(opcode.NOP), byte(opcode.NOP), byte(opcode.PUSH1), byte(opcode.DROP), byte(opcode.NOP), byte(opcode.PUSH2), byte(opcode.DROP), byte(opcode.NOP)}

// actHostile emits one control transfer whose target is inside the operand of
// a PUSHINT64 (all operand bytes decode as harmless instructions). The static
// script check must reject such a script; if it accepts it, execution visits
// an offset that is not an instruction boundary.
func (g *gen) actHostile() bool {
	g.hostile = false
	off := 1 + g.r.Intn(5) // index inside the 8 data bytes
	data := hostileData
	k := g.r.Intn(8)
	if k == 2 && !g.ins(opcode.PUSHT) {
		return false
	}
	g.didHost = true
	switch k {
	case 0:
		g.put(opcode.JMP, byte(2+1+off))
	case 1:
		g.put(opcode.JMPL, le32(5+1+off)...)
	case 2:
		g.put(opcode.JMPIF, byte(2+1+off))
	case 3:
		g.put(opcode.CALL, byte(2+1+off))
	case 4:
		g.put(opcode.CALLL, le32(5+1+off)...)
	case 5:
		g.put(opcode.PUSHA, le32(5+1+1+off)...)
		g.put(opcode.CALLA)
		g.put(opcode.PUSHINT64, data...)
		g.step()
		g.step()
		return g.sync()
	case 6:
		// ENDTRY with a hostile target inside a try without finally
		g.put(opcode.TRY, 3+2+9, 0) // catch: after ENDTRY and the data instruction
		g.put(opcode.ENDTRY, byte(2+1+off))
		g.put(opcode.PUSHINT64, data...)
		g.step()
		g.step()
		return g.sync()
	default:
		// TRY whose catch offset is hostile, then a throw
		g.put(opcode.TRY, byte(3+1+off), 0)
		g.put(opcode.PUSHINT64, data...)
		g.step()
		g.step()
		if !g.sync() {
			return false
		}
		return g.ins(opcode.THROW)
	}
	g.put(opcode.PUSHINT64, data...)
	g.step()
	return g.sync()
}

// ---------------------------------------------------------------- driver

var flavorWeights = [nFlavors][]int{
	//            push cmpd app set pick rem cont has pack shuf slot num byt lim call callx ret try endt thr jmp loop script
	flMixed:       {6, 6, 8, 8, 4, 4, 8, 2, 5, 8, 8, 5, 4, 2, 4, 2, 3, 4, 4, 3, 2, 2, 6},
	flCollections: {4, 8, 14, 14, 5, 7, 14, 2, 8, 8, 10, 1, 1, 2, 3, 1, 2, 2, 2, 2, 1, 2, 6},
	flControl:     {5, 4, 5, 5, 3, 2, 4, 1, 2, 5, 8, 2, 1, 1, 10, 5, 8, 10, 9, 8, 5, 4, 12},
	flNumeric:     {6, 1, 1, 1, 1, 0, 1, 1, 1, 6, 4, 30, 6, 3, 2, 1, 1, 1, 1, 1, 3, 2, 2},
	flBytes:       {6, 1, 1, 3, 3, 0, 2, 2, 1, 6, 4, 5, 30, 3, 2, 1, 1, 1, 1, 1, 2, 2, 2},
	flLimits:      {3, 4, 8, 6, 2, 3, 10, 1, 4, 4, 5, 3, 3, 20, 3, 1, 2, 3, 3, 2, 1, 3, 4},
}

func (g *gen) action() bool {
	if g.loop != nil {
		g.loop.left--
		if g.loop.left <= 0 {
			return g.loopTail()
		}
	}
	if g.hostile && g.r.Chance(1, 10) {
		return g.actHostile()
	}
	if g.r.Chance(1, 60) {
		// unguided instruction: probes fault paths
		op := opcode.Opcode(g.r.Intn(256))
		if opcode.IsValid(op) && operandLen(op) == 0 && op != opcode.ABORT && op != opcode.RET {
			return g.ins(op)
		}
	}
	switch g.r.Weighted(flavorWeights[g.flavor]) {
	case 0:
		return g.pushPrim()
	case 1:
		return g.pushNewCompound()
	case 2:
		return g.actAppend()
	case 3:
		return g.actSetItem()
	case 4:
		return g.actPickItem()
	case 5:
		return g.actRemove()
	case 6:
		return g.actOnContainer()
	case 7:
		return g.actHasKey()
	case 8:
		return g.actPack()
	case 9:
		return g.actStackShuffle()
	case 10:
		return g.actSlots()
	case 11:
		return g.actNumeric()
	case 12:
		return g.actBytes()
	case 13:
		return g.actLimits()
	case 14:
		return g.actCall()
	case 15:
		return g.actCallExisting()
	case 16:
		return g.actRet()
	case 17:
		return g.actTry()
	case 18:
		return g.actEndTry()
	case 19:
		return g.actThrow()
	case 20:
		return g.actJump()
	case 21:
		return g.actLoopStart()
	default:
		return g.actCallScript()
	}
}

// operandLen returns the fixed operand size of op (-1 for PUSHDATA*).
func operandLen(op opcode.Opcode) int {
	switch op {
	case opcode.PUSHDATA1, opcode.PUSHDATA2, opcode.PUSHDATA4:
		return -1
	case opcode.JMP, opcode.JMPIF, opcode.JMPIFNOT, opcode.JMPEQ, opcode.JMPNE,
		opcode.JMPGT, opcode.JMPGE, opcode.JMPLT, opcode.JMPLE,
		opcode.CALL, opcode.ISTYPE, opcode.CONVERT, opcode.NEWARRAYT, opcode.ENDTRY,
		opcode.INITSSLOT, opcode.LDSFLD, opcode.STSFLD, opcode.LDARG, opcode.STARG, opcode.LDLOC, opcode.STLOC:
		return 1
	case opcode.INITSLOT, opcode.TRY, opcode.CALLT:
		return 2
	case opcode.JMPL, opcode.JMPIFL, opcode.JMPIFNOTL, opcode.JMPEQL, opcode.JMPNEL,
		opcode.JMPGTL, opcode.JMPGEL, opcode.JMPLTL, opcode.JMPLEL,
		opcode.ENDTRYL, opcode.CALLL, opcode.SYSCALL, opcode.PUSHA:
		return 4
	case opcode.TRYL:
		return 8
	}
	if op <= opcode.PUSHINT256 {
		return 1 << op
	}
	return 0
}

// genOne produces one script; asSub > 0 makes it a sub-script expecting asSub-1 arguments.
func genOne(r *rng.R, subs []subScript, asSub int) (script []byte, flavor int, hostile bool) {
	pre := 0
	if asSub > 0 {
		pre = asSub - 1
	}
	g := newGen(r, subs, pre)
	g.flavor = r.Weighted([]int{4, 5, 3, 2, 2, 3})
	g.hostile = r.Chance(1, 12)
	actions := 8 + r.Intn(40)
	if r.Chance(1, 10) {
		actions = 60 + r.Intn(120)
	}
	if asSub > 0 {
		actions = 3 + r.Intn(16)
	}
	// prologue
	if r.Chance(5, 6) {
		g.ins(opcode.INITSSLOT, byte(g.slotCount()))
	}
	if asSub > 0 && pre > 0 && r.Chance(3, 4) {
		g.ins(opcode.INITSLOT, byte(g.slotCount()-1), byte(pre))
	} else if r.Chance(2, 3) {
		g.ins(opcode.INITSLOT, byte(g.slotCount()), 0)
	}
	g.body = g.n
	for i := 0; i < actions && !g.stopped && g.room(); i++ {
		g.action()
	}
	// epilogue: unwind open constructs so that many scripts HALT
	if !g.stopped && (asSub > 0 || r.Chance(3, 4)) {
		for i := 0; i < 40 && !g.stopped && g.room(); i++ {
			if g.loop != nil {
				g.loop.left = 0
				g.loopTail()
				continue
			}
			if len(g.curTries()) > 0 {
				g.actEndTry()
				continue
			}
			if len(g.v.Istack()) > 1 {
				g.ins(opcode.RET)
				continue
			}
			break
		}
	}
	if asSub > 0 && !g.stopped && g.room() && r.Chance(1, 3) {
		g.pushPointer()
	}
	if asSub > 0 && !g.stopped && g.room() {
		// shape the return values: one value holding everything, nothing, or as is
		switch r.Intn(6) {
		case 0, 1, 2:
			_ = g.ins(opcode.DEPTH) && g.ins(opcode.PACK)
		case 3:
			g.ins(opcode.CLEAR)
		case 4:
			_ = g.ins(opcode.DEPTH) && g.ins(opcode.PACKSTRUCT) && g.ins(opcode.DUP)
		}
	}
	// trampolines may point at the frontier: keep it inside the script; the ones that
	// were never reached lead to the final RET.
	for ip := range g.tramp {
		binary.LittleEndian.PutUint32(g.buf[ip+1:], uint32(int32(g.n-ip)))
	}
	g.buf[g.n] = byte(opcode.RET)
	g.n++
	return append([]byte(nil), g.buf[:g.n]...), g.flavor, g.didHost
}

// genTyped produces one single-script case.
func genTyped(r *rng.R) (script []byte, flavor int, hostile bool) {
	return genOne(r, nil, 0)
}

// genNested produces a main script plus the sub-scripts it (and later
// sub-scripts) can load as separate script contexts.
func genNested(r *rng.R) (script []byte, subs []subScript, flavor int, hostile bool) {
	n := 1 + r.Intn(3)
	for i := 0; i < n; i++ {
		na := r.Intn(4)
		sc, _, _ := genOne(r, subs, 1+na)
		subs = append(subs, subScript{Script: sc, NArgs: na, Hash: hash.Hash160(sc)})
	}
	script, flavor, hostile = genOne(r, subs, 0) // the flag describes the main script only
	return script, subs, flavor, hostile
}

package c12

// The per-step monitor of property C12: after every non-faulting instruction
// the whole VM state is walked structurally and compared with the limits the
// property states and with the VM's own item counter.

import (
	"errors"
	"fmt"
	"math/big"
	"runtime/debug"
	"strings"
	"unsafe"

	"github.com/nspcc-dev/neo-go/pkg/core/fee"
	"github.com/nspcc-dev/neo-go/pkg/crypto/hash"
	"github.com/nspcc-dev/neo-go/pkg/smartcontract/callflag"
	"github.com/nspcc-dev/neo-go/pkg/smartcontract/nef"
	"github.com/nspcc-dev/neo-go/pkg/smartcontract/scparser"
	"github.com/nspcc-dev/neo-go/pkg/util"
	"github.com/nspcc-dev/neo-go/pkg/vm"
	"github.com/nspcc-dev/neo-go/pkg/vm/opcode"
	"github.com/nspcc-dev/neo-go/pkg/vm/stackitem"
)

// The limits are the numbers of the property statement, deliberately not the
// constants of the packages under test.
const (
	limItems    = 2048
	limItemSize = 65535 * 2
	limInvDepth = 1024
	limTryDepth = 16
	limIntBits  = 256
)

// walker counts what is really reachable from stacks and slots. Compounds are
// marked per walk with an epoch (no clearing between steps); a walker lives for
// one script.
type walker struct {
	marks   map[unsafe.Pointer]uint32 // epoch = on the DFS path, epoch+1 = done
	epoch   uint32
	stacks  []*vm.Stack
	statics []*vm.Slot
	count   int
	cyclic  bool
	// worst offenders seen during this walk
	maxBits  int
	maxBytes int
	badInt   *big.Int
	badBytes string // "Buffer" / "ByteString" when over the size limit
	depth    int
	maxDepth int
}

func newWalker() *walker {
	return &walker{marks: map[unsafe.Pointer]uint32{}}
}

func (w *walker) reset() {
	w.epoch += 2
	w.stacks = w.stacks[:0]
	w.statics = w.statics[:0]
	w.count, w.cyclic, w.maxBits, w.maxBytes, w.badInt, w.badBytes, w.depth, w.maxDepth = 0, false, 0, 0, nil, "", 0, 0
}

func (w *walker) visit(it stackitem.Item) {
	switch t := it.(type) {
	case *stackitem.BigInteger:
		// two's complement width: BitLen(x)+1 for x >= 0, BitLen(-x-1)+1 for x < 0.
		b := t.Big()
		bl := b.BitLen() + 1
		if bl >= limIntBits && b.Sign() < 0 {
			bl = new(big.Int).Not(b).BitLen() + 1
		}
		if bl > w.maxBits {
			w.maxBits = bl
		}
		if bl > limIntBits && w.badInt == nil {
			w.badInt = b
		}
	case *stackitem.ByteArray:
		n := len(t.Value().([]byte))
		if n > w.maxBytes {
			w.maxBytes = n
		}
		if n > limItemSize && w.badBytes == "" {
			w.badBytes = "ByteString"
		}
	case *stackitem.Buffer:
		n := t.Len()
		if n > w.maxBytes {
			w.maxBytes = n
		}
		if n > limItemSize && w.badBytes == "" {
			w.badBytes = "Buffer"
		}
	case *stackitem.Array:
		w.compound(unsafe.Pointer(t), t.Value().([]stackitem.Item), nil)
	case *stackitem.Struct:
		w.compound(unsafe.Pointer(t), t.Value().([]stackitem.Item), nil)
	case *stackitem.Map:
		w.compound(unsafe.Pointer(t), nil, t.Value().([]stackitem.MapElement))
	}
}

func (w *walker) compound(p unsafe.Pointer, arr []stackitem.Item, m []stackitem.MapElement) {
	switch w.marks[p] {
	case w.epoch:
		w.cyclic = true
		return
	case w.epoch + 1:
		return
	}
	w.marks[p] = w.epoch
	w.depth++
	if w.depth > w.maxDepth {
		w.maxDepth = w.depth
	}
	if m != nil {
		w.count += 2 * len(m)
		for i := range m {
			w.visit(m[i].Key)
			w.visit(m[i].Value)
		}
	} else {
		w.count += len(arr)
		for _, c := range arr {
			w.visit(c)
		}
	}
	w.depth--
	w.marks[p] = w.epoch + 1
}

func (w *walker) stack(s *vm.Stack) {
	if s == nil {
		return
	}
	for _, x := range w.stacks {
		if x == s {
			return
		}
	}
	w.stacks = append(w.stacks, s)
	s.IterBack(func(e vm.Element) {
		w.count++
		if it := e.Item(); it != nil {
			w.visit(it)
		}
	})
}

func (w *walker) slot(s *vm.Slot) {
	for _, it := range *s {
		w.count++ // an empty position counts as one (virtual Null)
		if it != nil {
			w.visit(it)
		}
	}
}

// walkVM walks every evaluation stack, every slot and everything reachable.
func (w *walker) walkVM(v *vm.VM) {
	w.reset()
	w.stack(v.Estack())
	for _, c := range v.Istack() {
		w.stack(c.Estack())
		w.slot(c.LocalsSlot())
		w.slot(c.ArgumentsSlot())
		st := c.StaticsSlot()
		dup := false
		for _, x := range w.statics {
			if x == st {
				dup = true
				break
			}
		}
		if !dup {
			w.statics = append(w.statics, st)
			w.slot(st)
		}
	}
}

// reaches reports whether target is from or reachable from it.
func reaches(from, target stackitem.Item, seen map[stackitem.Item]struct{}) bool {
	switch t := from.(type) {
	case *stackitem.Array, *stackitem.Struct:
		if from == target {
			return true
		}
		if _, ok := seen[from]; ok {
			return false
		}
		seen[from] = struct{}{}
		for _, c := range t.Value().([]stackitem.Item) {
			if reaches(c, target, seen) {
				return true
			}
		}
	case *stackitem.Map:
		if from == target {
			return true
		}
		if _, ok := seen[from]; ok {
			return false
		}
		seen[from] = struct{}{}
		for _, c := range t.Value().([]stackitem.MapElement) {
			if reaches(c.Value, target, seen) {
				return true
			}
		}
	}
	return false
}

// reachesAfterStore decides whether storing val into container (APPEND /
// SETITEM semantics: a Struct value is stored as a clone in which nested
// Structs are cloned too, everything else is shared) makes container reachable
// from itself.
func reachesAfterStore(val, container stackitem.Item, seen map[stackitem.Item]struct{}, budget *int) bool {
	if s, ok := val.(*stackitem.Struct); ok {
		// the clone is a fresh object: only what hangs below it matters.
		for _, c := range s.Value().([]stackitem.Item) {
			*budget--
			if *budget < 0 {
				return true // clone would fail or is huge: be conservative
			}
			if reachesAfterStore(c, container, seen, budget) {
				return true
			}
		}
		return false
	}
	return reaches(val, container, seen)
}

// subScript is a script that the main script (or a later sub-script) can load
// as a new script context through the harness loader syscall, the way
// System.Contract.Call / System.Runtime.LoadScript create contexts on a node.
type subScript struct {
	Script []byte
	NArgs  int // arguments the script was generated for
	Hash   util.Uint160
}

const loaderTag = 0xC1

// loaderID encodes a loader syscall: sub-script k, mode, number of arguments
// moved from the caller's stack to the new context's stack.
func loaderID(k, mode, nargs int) uint32 {
	return uint32(k&0xff) | uint32(mode&0xff)<<8 | uint32(nargs&0xff)<<16 | loaderTag<<24
}

const (
	ldHash    = iota // LoadScriptWithHash: exactly one return value
	ldVoid           // LoadNEFMethod(hasReturn=false): no return value
	ldRet            // LoadNEFMethod(hasReturn=true)
	ldDynamic        // LoadDynamicScript: zero or one value (Null is added), shares the stack when it is empty
	ldFlags          // LoadScriptWithFlags: any number of return values
	nLoadModes
)

// installLoader gives the VM one syscall that loads sub-scripts with the
// exported context-loading API of pkg/vm (no chain, no contracts).
func installLoader(v *vm.VM, subs []subScript) {
	if len(subs) == 0 {
		return
	}
	v.SyscallHandler = func(v *vm.VM, id uint32) error {
		k, mode, nargs := int(id&0xff), int(id>>8&0xff), int(id>>16&0xff)
		if id>>24 != loaderTag || k >= len(subs) || mode >= nLoadModes {
			return errors.New("unknown syscall")
		}
		es := v.Estack()
		if es.Len() < nargs {
			return errors.New("not enough arguments")
		}
		args := make([]stackitem.Item, nargs)
		for i := range args {
			args[i] = es.Pop().Item()
		}
		sub := &subs[k]
		switch mode {
		case ldHash:
			v.LoadScriptWithHash(sub.Script, sub.Hash, callflag.All)
		case ldVoid, ldRet:
			v.LoadNEFMethod(&nef.File{Script: sub.Script}, nil, v.GetCurrentScriptHash(), sub.Hash, callflag.All, mode == ldRet, 0, -1, nil, nil, false)
		case ldDynamic:
			v.LoadDynamicScript(sub.Script, callflag.All)
		default:
			v.LoadScriptWithFlags(sub.Script, callflag.All)
		}
		for i := len(args) - 1; i >= 0; i-- {
			v.Estack().PushItem(args[i])
		}
		return nil
	}
}

// caseCfg is everything that defines one execution.
type caseCfg struct {
	Script   []byte
	Subs     []subScript
	Priced   bool
	BaseFee  int64 // picoGAS per fee unit (the ExecFeeFactor*multiplier of a node)
	GasLimit int64 // datoshi, -1 unlimited
	StepCap  int
}

// outcome of a monitored execution.
type outcome struct {
	State       string // HALT, FAULT, CAPPED, PANIC
	Steps       int    // non-faulting monitored steps
	Gas         int64
	FaultMsg    string
	EverCyclic  bool
	MaxItems    int
	MaxDepth    int // invocation stack
	MaxTry      int
	MaxBits     int
	MaxBytes    int
	MaxNest     int
	OverCount   int // steps with refs > walked (only legal with a cycle)
	Correct     bool
	StaticPanic bool
	Loads       int // loader syscalls attempted
	OffChecked  int
	OpCount     [256]uint32
	Viol        *violation
	Leak        *violation // the abandoned-evaluation-stack shape (execution goes on with the abandoned elements as extra roots)
	Leaks       int
}

type violation struct {
	Sig    string
	Detail string
	Step   int
	IP     int
	Op     string
}

var feeBase = func() [256]int64 {
	var t [256]int64
	for i := range t {
		t[i] = fee.Opcode(1, opcode.Opcode(i))
	}
	return t
}()

func topFrame(stack string) string {
	// first neo-go (non-harness) function in a debug.Stack() dump
	for _, l := range strings.Split(stack, "\n") {
		if strings.HasPrefix(l, "github.com/nspcc-dev/neo-go/") && !strings.Contains(l, "/verifharness/") {
			if i := strings.LastIndex(l, "("); i > 0 {
				l = l[:i]
			}
			return strings.TrimPrefix(l, "github.com/nspcc-dev/neo-go/")
		}
	}
	return "?"
}

func normMsg(x any) string {
	s := fmt.Sprint(x)
	if len(s) > 400 {
		s = s[:400]
	}
	out := make([]byte, 0, len(s))
	for i := 0; i < len(s); i++ {
		c := s[i]
		if c >= '0' && c <= '9' {
			if len(out) == 0 || out[len(out)-1] != 'N' {
				out = append(out, 'N')
			}
			continue
		}
		if c == '\n' {
			break
		}
		out = append(out, c)
	}
	if len(out) > 90 {
		out = out[:90]
	}
	return string(out)
}

// safeCorrect runs the static script check; a panic inside it is not a verdict
// of this property (it is recorded and the script counts as not accepted).
func safeCorrect(script []byte) (ok bool, panicked bool) {
	defer func() {
		if recover() != nil {
			ok, panicked = false, true
		}
	}()
	return scparser.IsScriptCorrect(script, nil) == nil, false
}

// traceStep, when set (autopsy re-run of a case that killed its process), is
// called before every instruction with the phase, step, offset and opcode.
var traceStep func(phase string, step, ip int, op opcode.Opcode)

type monitor struct {
	preStacks []*vm.Stack
	preSnap   [][]stackitem.Item
	ghosts    []stackitem.Item
	w         *walker
	seen      map[stackitem.Item]struct{}
	bounds    []bool
}

func newMonitor() *monitor {
	return &monitor{w: newWalker(), seen: map[stackitem.Item]struct{}{}}
}

// boundaries returns the instruction starts of a linear decode (nil when the
// script does not decode).
func boundaries(script []byte, into []bool) []bool {
	if cap(into) < len(script)+1 {
		into = make([]bool, len(script)+1)
	}
	into = into[:len(script)+1]
	clear(into)
	ctx := scparser.NewContext(script, 0)
	for ctx.NextIP() < len(script) {
		into[ctx.NextIP()] = true
		if _, _, err := ctx.Next(); err != nil {
			return nil
		}
	}
	into[len(script)] = true // the implicit RET past the end
	return into
}

// run executes one script step by step under the monitor.
func (m *monitor) run(c *caseCfg) (o outcome) {
	script := c.Script
	m.w = newWalker()
	m.ghosts = nil
	o.Correct, o.StaticPanic = safeCorrect(script)
	var bounds []bool
	if o.Correct {
		func() {
			defer func() {
				if recover() != nil {
					m.bounds = nil
				}
			}()
			m.bounds = boundaries(script, m.bounds)
		}()
		bounds = m.bounds
		if bounds == nil {
			// accepted by the static check although a linear decode fails
			o.Viol = &violation{Sig: "static-check-accepts-undecodable-script", Detail: "IsScriptCorrect returned nil but a linear decode of the script fails"}
			o.State = "FAULT"
			return
		}
	}
	// sub-scripts have their own boundaries (only those the static check accepts)
	var subBounds map[util.Uint160][]bool
	var mainHash util.Uint160
	if len(c.Subs) > 0 {
		subBounds = map[util.Uint160][]bool{}
		mainHash = hash.Hash160(script)
		for i := range c.Subs {
			if ok, _ := safeCorrect(c.Subs[i].Script); ok {
				func() {
					defer func() { _ = recover() }()
					if b := boundaries(c.Subs[i].Script, nil); b != nil {
						subBounds[c.Subs[i].Hash] = b
					}
				}()
			}
		}
	}
	v := vm.New()
	if c.Priced {
		base := c.BaseFee
		v.SetPriceGetter(func(op opcode.Opcode, _ []byte) int64 { return feeBase[op] * base })
	}
	v.SetGasLimit(c.GasLimit)
	installLoader(v, c.Subs)
	badOff, lastOp, curOp := -1, opcode.NOP, opcode.NOP
	v.SetOnExecHook(func(h util.Uint160, off int, op opcode.Opcode) {
		lastOp, curOp = curOp, op
		b := bounds
		if subBounds != nil && h != mainHash {
			b = subBounds[h]
		}
		if b != nil {
			o.OffChecked++
			if (off < 0 || off >= len(b) || !b[off]) && badOff < 0 {
				badOff = off
			}
		}
	})
	v.Load(script)
	v.SetGasLimit(c.GasLimit)

	fail := func(sig, detail string, ip int, op opcode.Opcode) {
		o.Viol = &violation{Sig: sig, Detail: detail, Step: o.Steps, IP: ip, Op: op.String()}
	}

	for {
		if v.HasStopped() || !v.Ready() {
			break
		}
		if o.Steps >= c.StepCap {
			o.State = "CAPPED"
			o.Gas = v.GasConsumed()
			return
		}
		ctx := v.Context()
		ip := ctx.NextIP()
		op := opcode.RET
		if prog := ctx.Program(); ip >= 0 && ip < len(prog) {
			op = opcode.Opcode(prog[ip])
		}
		if op == opcode.SYSCALL {
			o.Loads++
		}
		// "a cyclic structure was built" is decided from the operands, before the step.
		if !o.EverCyclic {
			es := v.Estack()
			var val, cont stackitem.Item
			if op == opcode.APPEND && es.Len() >= 2 {
				val, cont = es.Peek(0).Item(), es.Peek(1).Item()
			} else if op == opcode.SETITEM && es.Len() >= 3 {
				val, cont = es.Peek(0).Item(), es.Peek(2).Item()
			}
			if cont != nil {
				switch cont.(type) {
				case *stackitem.Array, *stackitem.Struct, *stackitem.Map:
					clear(m.seen)
					budget := limItems * 2
					if reachesAfterStore(val, cont, m.seen, &budget) {
						o.EverCyclic = true
					}
				}
			}
		}
		if traceStep != nil {
			traceStep("monitored-step", o.Steps, ip, op)
		}
		preDepth := len(v.Istack())
		if len(c.Subs) > 0 && !o.EverCyclic {
			// evaluation stacks of the script contexts and (a sub-stack shares its backing
			// array with its parent, so the copy has to be taken now) their content.
			m.preStacks, m.preSnap = m.preStacks[:0], m.preSnap[:0]
			for _, cx := range v.Istack() {
				if s := cx.Estack(); len(m.preStacks) == 0 || m.preStacks[len(m.preStacks)-1] != s {
					m.preStacks = append(m.preStacks, s)
					var snap []stackitem.Item
					if len(m.preStacks) > 1 {
						snap = s.ToArray()
					}
					m.preSnap = append(m.preSnap, snap)
				}
			}
		}
		var err error
		var pan any
		var panStack string
		func() {
			defer func() {
				if x := recover(); x != nil {
					pan = x
					panStack = string(debug.Stack())
				}
			}()
			err = v.Step()
		}()
		if pan != nil {
			o.State = "PANIC"
			fail("panic-escapes-step:"+topFrame(panStack)+":"+normMsg(pan), fmt.Sprintf("Go panic escaped VM.Step at ip=%d op=%s: %v\n%s", ip, op, pan, trimStack(panStack)), ip, op)
			return
		}
		if badOff >= 0 {
			fail("executed-offset-not-instruction-boundary:reached-by-"+lastOp.String(), fmt.Sprintf("script accepted by IsScriptCorrect executed offset %d (previous instruction %s), which is not an instruction boundary of the linear decode", badOff, lastOp), badOff, op)
			return
		}
		if err != nil || v.HasFailed() {
			if err != nil && !v.HasFailed() {
				fail("step-error-without-fault-state", fmt.Sprintf("Step returned %v but the state is %s", err, v.State()), ip, op)
				return
			}
			if err != nil {
				o.FaultMsg = err.Error()
			}
			break
		}
		o.Steps++
		o.OpCount[op]++
		// ---- structural walk of the post-state
		w := m.w
		w.walkVM(v)
		refs := v.VerifRefs()
		// elements abandoned by earlier cross-context unwinding are extra roots of the
		// VM's accounting (not of what is reachable)
		ghostCount := 0
		if len(m.ghosts) > 0 {
			live := w.count
			for _, it := range m.ghosts {
				w.count++
				w.visit(it)
			}
			ghostCount, w.count = w.count-live, live
		}
		if w.cyclic {
			o.EverCyclic = true
		}
		if w.count > o.MaxItems {
			o.MaxItems = w.count
		}
		if w.maxBits > o.MaxBits {
			o.MaxBits = w.maxBits
		}
		if w.maxBytes > o.MaxBytes {
			o.MaxBytes = w.maxBytes
		}
		if w.maxDepth > o.MaxNest {
			o.MaxNest = w.maxDepth
		}
		ist := v.Istack()
		if len(ist) > o.MaxDepth {
			o.MaxDepth = len(ist)
		}
		for _, cx := range ist {
			if d := cx.VerifTryDepth(); d > o.MaxTry {
				o.MaxTry = d
			}
		}
		switch {
		case w.count > limItems:
			fail("item-limit-exceeded:after-"+op.String(), fmt.Sprintf("%d items reachable from stacks and slots after a non-faulting %s (limit %d, VM counter %d)", w.count, op, limItems, refs), ip, op)
		case w.badInt != nil:
			fail("integer-wider-than-256-bits:after-"+op.String(), fmt.Sprintf("integer of %d bits present after a non-faulting %s: %s", w.maxBits, op, w.badInt.Text(16)), ip, op)
		case w.badBytes != "":
			fail("item-size-exceeded:"+w.badBytes+":after-"+op.String(), fmt.Sprintf("%s of %d bytes present after a non-faulting %s (limit %d)", w.badBytes, w.maxBytes, op, limItemSize), ip, op)
		case len(ist) > limInvDepth:
			fail("invocation-depth-exceeded:after-"+op.String(), fmt.Sprintf("%d invocation frames after a non-faulting %s (limit %d)", len(ist), op, limInvDepth), ip, op)
		case o.MaxTry > limTryDepth:
			fail("try-nesting-exceeded:after-"+op.String(), fmt.Sprintf("%d nested try blocks after a non-faulting %s (limit %d)", o.MaxTry, op, limTryDepth), ip, op)
		case refs < w.count:
			fail("item-counter-undercounts:after-"+op.String(), fmt.Sprintf("VM item counter %d < %d items actually reachable after %s (cycle built so far: %v)", refs, w.count, op, o.EverCyclic), ip, op)
		case refs != w.count+ghostCount && !o.EverCyclic:
			// One specific shape has its own signature: an exception unwound through a script
			// context with its own, non-empty evaluation stack. It is accepted only if the
			// abandoned elements explain the whole difference; they then stay in the model
			// as extra roots, so exactness keeps being checked for the rest of the run.
			var left []stackitem.Item
			if len(c.Subs) > 0 && op != opcode.RET && len(ist) < preDepth {
				for i, ps := range m.preStacks {
					alive := ps == v.Estack()
					for _, cx := range ist {
						alive = alive || cx.Estack() == ps
					}
					if !alive {
						// the throwing instruction only popped from the top before the
						// exception; the object's length is still valid, its backing array
						// may already be overwritten by the handler's stack.
						left = append(left, m.preSnap[i][:min(ps.Len(), len(m.preSnap[i]))]...)
					}
				}
			}
			explained := false
			if len(left) > 0 {
				before := w.count
				for _, it := range left {
					w.count++
					w.visit(it)
				}
				explained = refs == w.count+ghostCount
				if explained {
					ghostCount, w.count = 0, before // recomputed from m.ghosts at the next step
				} else {
					w.count = before
				}
			}
			if explained {
				m.ghosts = append(m.ghosts, left...)
				if o.Leak == nil {
					o.Leak = &violation{Sig: "item-counter-overcounts-without-cycle:exception-unwinds-script-context-with-nonempty-evaluation-stack",
						Detail: fmt.Sprintf("after %s unwound %d frame(s) to a handler in an outer script context, the VM item counter is %d but only %d items are reachable from stacks and slots: the %d element(s) left on the unloaded context's own evaluation stack (and what only they reference) stay counted; no cyclic structure was ever built", op, preDepth-len(ist), refs, w.count, len(left)),
						Step:   o.Steps, IP: ip, Op: op.String()}
				}
				o.Leaks++
			} else {
				fail("item-counter-overcounts-without-cycle:after-"+op.String(), fmt.Sprintf("VM item counter %d != %d items actually reachable after %s although no cyclic structure was ever built (%d of the expected count are elements abandoned by earlier cross-context unwinding)", refs, w.count+ghostCount, op, ghostCount), ip, op)
			}
		}
		if o.Viol != nil {
			return
		}
		if refs > w.count+ghostCount {
			o.OverCount++
		}
	}
	o.Gas = v.GasConsumed()
	switch {
	case v.HasHalted():
		o.State = "HALT"
		if lim := v.GasLimit(); lim >= 0 && o.Gas > lim {
			fail("halt-with-gas-above-limit", fmt.Sprintf("HALT with GasConsumed=%d > GasLimit=%d", o.Gas, lim), -1, opcode.RET)
		}
	case v.HasFailed():
		o.State = "FAULT"
	default:
		o.State = "FAULT"
		fail("stopped-in-neither-halt-nor-fault", fmt.Sprintf("execution stopped with state %s", v.State()), -1, opcode.RET)
	}
	return
}

func trimStack(s string) string {
	if len(s) > 2500 {
		s = s[:2500]
	}
	return s
}

// runPlain executes with VM.Run (no stepping): totality, gas clause, result limits.
func runPlain(c *caseCfg) (state string, gas int64, viol *violation) {
	v := vm.New()
	if c.Priced {
		base := c.BaseFee
		v.SetPriceGetter(func(op opcode.Opcode, _ []byte) int64 { return feeBase[op] * base })
	}
	v.SetGasLimit(c.GasLimit)
	installLoader(v, c.Subs)
	if traceStep != nil {
		n := 0
		v.SetOnExecHook(func(_ util.Uint160, off int, op opcode.Opcode) {
			traceStep("plain-run", n, off, op)
			n++
		})
	}
	v.Load(c.Script)
	v.SetGasLimit(c.GasLimit)
	var pan any
	var panStack string
	var err error
	func() {
		defer func() {
			if x := recover(); x != nil {
				pan = x
				panStack = string(debug.Stack())
			}
		}()
		err = v.Run()
	}()
	if pan != nil {
		return "PANIC", 0, &violation{Sig: "panic-escapes-run:" + topFrame(panStack) + ":" + normMsg(pan), Detail: fmt.Sprintf("Go panic escaped VM.Run: %v\n%s", pan, trimStack(panStack))}
	}
	gas = v.GasConsumed()
	switch {
	case v.HasHalted():
		if lim := v.GasLimit(); lim >= 0 && gas > lim {
			return "HALT", gas, &violation{Sig: "halt-with-gas-above-limit", Detail: fmt.Sprintf("Run: HALT with GasConsumed=%d > GasLimit=%d", gas, lim)}
		}
		return "HALT", gas, nil
	case v.HasFailed():
		return "FAULT", gas, nil
	}
	return "OTHER", gas, &violation{Sig: "stopped-in-neither-halt-nor-fault", Detail: fmt.Sprintf("Run returned (%v) with state %s", err, v.State())}
}

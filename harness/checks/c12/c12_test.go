// Package c12 checks property C12: the VM is total, bounded and memory-safe on
// every script. Scripts (raw / mutated byte strings and deep typed sequences)
// are executed step by step in child processes; after every non-faulting
// instruction the monitor of monitor_test.go walks the whole state.
package c12

import (
	"encoding/hex"
	"encoding/json"
	"fmt"
	"hash/fnv"
	"os"
	"os/exec"
	"path/filepath"
	"regexp"
	"runtime"
	"runtime/debug"
	"runtime/metrics"
	"sort"
	"strconv"
	"strings"
	"sync"
	"sync/atomic"
	"syscall"
	"testing"
	"time"

	"github.com/nspcc-dev/neo-go/pkg/smartcontract/scparser"
	"github.com/nspcc-dev/neo-go/pkg/vm/opcode"
	"github.com/nspcc-dev/neo-go/verifharness/vlib/ev"
	"github.com/nspcc-dev/neo-go/verifharness/vlib/rng"
)

const (
	wlTyped = "typed"
	wlMut   = "mutated"
	wlRaw   = "raw"
)

var streamBase = map[string]uint64{wlTyped: 1 << 40, wlMut: 2 << 40, wlRaw: 3 << 40}

type caseMeta struct {
	Name    string
	Hostile bool
}

var baseFees = []int64{1, 30, 10000, 123457, 300000}
var gasLimits = []int64{0, 1, 2, 10, 100, 1000, 10000, 100000, 1000000, 20000000}

func pickGas(r *rng.R, c *caseCfg, finite bool) {
	c.GasLimit = -1
	if !finite && r.Chance(1, 4) {
		return
	}
	c.Priced = true
	c.BaseFee = baseFees[r.Intn(len(baseFees))]
	if finite || r.Chance(1, 2) {
		c.GasLimit = gasLimits[r.Intn(len(gasLimits))]
		if r.Chance(1, 4) {
			c.GasLimit += int64(r.Intn(7)) - 3
			if c.GasLimit < 0 {
				c.GasLimit = 0
			}
		}
	}
}

// makeCase derives one case from (seed, workload, index) only.
func makeCase(workload string, idx int) (c caseCfg, m caseMeta) {
	r := rng.New(streamBase[workload] + uint64(idx))
	c.StepCap = 6000
	switch workload {
	case wlTyped:
		if idx < len(idioms) {
			c.Script, c.Subs, m.Name = idioms[idx].script, idioms[idx].subs, "idiom:"+idioms[idx].name
			c.StepCap = 60000
			// idioms need their gas: unpriced or unlimited
			if r.Bool() {
				c.Priced, c.BaseFee = true, baseFees[r.Intn(len(baseFees))]
			}
			c.GasLimit = -1
			return
		}
		var fl int
		if r.Chance(1, 4) {
			c.Script, c.Subs, fl, m.Hostile = genNested(r)
			m.Name = "nested:" + strconv.Itoa(len(c.Subs)) + ":flavor:" + strconv.Itoa(fl)
		} else {
			c.Script, fl, m.Hostile = genTyped(r)
			m.Name = "flavor:" + strconv.Itoa(fl)
		}
		// deep sequences need their gas: mostly priced but unlimited (the gas clause is then
		// checked by the rerun with consumed-1), sometimes a boundary-biased finite limit.
		c.GasLimit = -1
		if !r.Chance(1, 5) {
			c.Priced, c.BaseFee = true, baseFees[r.Intn(len(baseFees))]
			if r.Chance(1, 5) {
				c.GasLimit = gasLimits[3+r.Intn(len(gasLimits)-3)] * int64(1+r.Intn(3))
			}
		}
	case wlMut:
		var base, other []byte
		if r.Chance(1, 4) {
			i := r.Intn(len(idioms))
			base, m.Name = idioms[i].script, "mut-idiom:"+idioms[i].name
			if len(base) > 2000 {
				base, m.Name = genStream(r), "mut-stream"
			}
		} else if r.Chance(1, 3) {
			base, m.Name = genStream(r), "mut-stream"
		} else {
			base, _, _ = genTyped(r)
			m.Name = "mut-typed"
		}
		if r.Chance(1, 3) {
			other = genStream(r)
		}
		c.Script = mutate(r, base, other)
		pickGas(r, &c, r.Chance(2, 3))
	default:
		if r.Chance(1, 3) {
			c.Script, m.Name = genStream(r), "stream"
		} else if r.Chance(1, 4) {
			c.Script, m.Name = genTail(r), "truncated-tail"
		} else {
			c.Script, m.Name = genRaw(r), "raw"
		}
		pickGas(r, &c, r.Chance(2, 3))
	}
	return
}

// ------------------------------------------------------------------ child side

type childSpec struct {
	Workload string
	Lo, Hi   int
	Skip     []int
	Only     int // -1: all
	Out      string
	Last     string
	Seed     int64
	Trace    bool // autopsy: record the instruction being executed before every step
}

type childViol struct {
	Sig, CaseID, Detail string
	Witness             map[string]any
}

type childResult struct {
	Done       bool
	Next       int
	Cases      int64
	Trivial    int64
	Obs        map[string]int64
	Max        map[string]int64
	Sigs       map[string]int64
	Ops        [256]int64
	Violations []childViol
	Samples    []any
	Watchdog   int // index of a case the in-process watchdog gave up on (-1 none)
}

func disasm(script []byte, maxIns int) (out []string) {
	defer func() {
		if x := recover(); x != nil {
			out = append(out, fmt.Sprintf("<decoder panic: %v>", x))
		}
	}()
	ctx := scparser.NewContext(script, 0)
	for ctx.NextIP() < len(script) && len(out) < maxIns {
		ip := ctx.NextIP()
		op, par, err := ctx.Next()
		if err != nil {
			out = append(out, fmt.Sprintf("%d: %s <%v>", ip, op, err))
			break
		}
		if len(par) > 40 {
			out = append(out, fmt.Sprintf("%d: %s %x.. (%d bytes)", ip, op, par[:16], len(par)))
		} else if len(par) > 0 {
			out = append(out, fmt.Sprintf("%d: %s %x", ip, op, par))
		} else {
			out = append(out, fmt.Sprintf("%d: %s", ip, op))
		}
	}
	return out
}

func hexScript(b []byte) string {
	if len(b) > 70000 {
		return hex.EncodeToString(b[:70000]) + "..."
	}
	return hex.EncodeToString(b)
}

func witnessOf(workload string, idx int, c *caseCfg, m *caseMeta, v *violation) map[string]any {
	w := map[string]any{"workload": workload, "index": idx, "name": m.Name, "script": hexScript(c.Script), "script_len": len(c.Script),
		"priced": c.Priced, "base_fee_picogas": c.BaseFee, "gas_limit": c.GasLimit, "step_cap": c.StepCap}
	if v != nil {
		w["step"], w["ip"], w["op"] = v.Step, v.IP, v.Op
	}
	for i := range c.Subs {
		w[fmt.Sprintf("sub%d", i)] = map[string]any{"script": hexScript(c.Subs[i].Script), "nargs": c.Subs[i].NArgs, "hash": c.Subs[i].Hash.StringLE(), "disasm": disasm(c.Subs[i].Script, 200)}
	}
	if len(c.Subs) > 0 {
		w["loader"] = "SYSCALL id = k | mode<<8 | nargs<<16 | 0xC1<<24; modes: 0 LoadScriptWithHash, 1 LoadNEFMethod(no return), 2 LoadNEFMethod(return), 3 LoadDynamicScript, 4 LoadScriptWithFlags; nargs items are moved from the caller's stack to the new context's stack"
	}
	if len(c.Script) < 4000 {
		w["disasm"] = disasm(c.Script, 400)
	}
	return w
}

func (r *childResult) flush(path string) {
	b, _ := json.Marshal(r)
	tmp := path + ".tmp"
	if os.WriteFile(tmp, b, 0o644) == nil {
		_ = os.Rename(tmp, path)
	}
}

func faultClass(msg string) string {
	switch {
	case msg == "":
		return ""
	case strings.Contains(msg, "invocation stack is too big"):
		return "faults_at_invocation_depth_limit"
	case strings.Contains(msg, "stack is too big"):
		return "faults_at_item_limit"
	case strings.Contains(msg, "maximum TRY depth"):
		return "faults_at_try_limit"
	case strings.Contains(msg, "too big: integer"):
		return "faults_at_integer_width"
	case strings.Contains(msg, "too big item") || strings.Contains(msg, "invalid size"):
		return "faults_at_item_size"
	case strings.Contains(msg, "GAS limit exceeded"):
		return "faults_at_gas_limit"
	case strings.Contains(msg, "too big") || strings.Contains(msg, "wrong number of elements"):
		return "faults_at_other_size_limits"
	case strings.Contains(msg, "unhandled exception"):
		return "faults_unhandled_exception"
	}
	return "faults_other"
}

func childMain(t *testing.T, specPath string) {
	var spec childSpec
	b, err := os.ReadFile(specPath)
	if err != nil || json.Unmarshal(b, &spec) != nil {
		t.Fatalf("child: bad spec %s: %v", specPath, err)
	}
	// hard cap on the address space: an allocation storm kills this child only.
	lim := uint64(3 << 30)
	_ = syscall.Setrlimit(syscall.RLIMIT_AS, &syscall.Rlimit{Cur: lim, Max: lim})

	res := &childResult{Obs: map[string]int64{}, Max: map[string]int64{}, Sigs: map[string]int64{}, Next: spec.Lo, Watchdog: -1}
	skip := map[int]bool{}
	for _, s := range spec.Skip {
		skip[s] = true
	}
	var curCase, curStart atomic.Int64
	curCase.Store(-1)
	go func() {
		for {
			time.Sleep(250 * time.Millisecond)
			if c := curCase.Load(); c >= 0 && time.Now().UnixNano()-curStart.Load() > int64(90*time.Second) {
				_ = os.WriteFile(spec.Out+".watchdog", []byte(strconv.FormatInt(c, 10)), 0o644)
				os.Exit(97)
			}
		}
	}()
	mon := newMonitor()
	heapSample := [1]metrics.Sample{{Name: "/memory/classes/heap/objects:bytes"}}
	if spec.Trace {
		tf, err := os.Create(spec.Last + ".trace")
		if err == nil {
			defer tf.Close()
			var line [96]byte
			traceStep = func(phase string, step, ip int, op opcode.Opcode) {
				b := line[:0]
				b = append(b, phase...)
				b = append(b, ' ')
				b = strconv.AppendInt(b, int64(step), 10)
				b = append(b, ' ')
				b = strconv.AppendInt(b, int64(ip), 10)
				b = append(b, ' ')
				b = append(b, op.String()...)
				for len(b) < 95 {
					b = append(b, ' ')
				}
				b = append(b, '\n')
				_, _ = tf.WriteAt(b, 0)
			}
		}
	}
	obsMax := func(k string, v int) {
		if int64(v) > res.Max[k] {
			res.Max[k] = int64(v)
		}
	}
	for idx := spec.Lo; idx < spec.Hi; idx++ {
		if skip[idx] || (spec.Only >= 0 && idx != spec.Only) {
			res.Next = idx + 1
			continue
		}
		id := spec.Workload + ":" + strconv.Itoa(idx)
		c, m := makeCase(spec.Workload, idx)
		// the input is on disk before anything runs it
		lb, _ := json.Marshal(map[string]any{"case_id": id, "witness": witnessOf(spec.Workload, idx, &c, &m, nil)})
		_ = os.WriteFile(spec.Last, lb, 0o644)
		curStart.Store(time.Now().UnixNano())
		curCase.Store(int64(idx))

		o := mon.run(&c)

		res.Cases++
		res.Obs["scripts_"+spec.Workload]++
		res.Obs["monitored_steps"] += int64(o.Steps)
		res.Obs["state_"+o.State]++
		if fc := faultClass(o.FaultMsg); fc != "" {
			res.Obs[fc]++
		}
		if o.EverCyclic {
			res.Obs["scripts_with_cycle_built"]++
		}
		if len(c.Subs) > 0 {
			res.Obs["scripts_with_sub_scripts"]++
			res.Obs["loader_syscalls_executed"] += int64(o.Loads)
		}
		obsMax("max_script_contexts_loaded_one_script", o.Loads)
		res.Obs["steps_counter_above_walk_with_cycle"] += int64(o.OverCount)
		if o.StaticPanic {
			res.Obs["static_check_panicked"]++
		}
		if o.Correct {
			res.Obs["static_check_accepted"]++
			res.Obs["executed_offsets_checked"] += int64(o.OffChecked)
		}
		if m.Hostile {
			res.Obs["hostile_target_scripts"]++
			if !o.Correct {
				res.Obs["hostile_target_rejected_by_static_check"]++
			}
		}
		obsMax("max_items_walked", o.MaxItems)
		obsMax("max_invocation_depth", o.MaxDepth)
		obsMax("max_try_depth", o.MaxTry)
		obsMax("max_integer_bits", o.MaxBits)
		obsMax("max_item_bytes", o.MaxBytes)
		obsMax("max_compound_nesting", o.MaxNest)
		obsMax("max_steps_one_script", o.Steps)
		for i, n := range o.OpCount {
			res.Ops[i] += int64(n)
		}
		viol := o.Viol
		// gas clause, sharp form: with one datoshi less than it consumed a halting script must not halt.
		if viol == nil && o.State == "HALT" && c.Priced && o.Gas >= 1 {
			c2 := c
			c2.GasLimit = o.Gas - 1
			st, g2, v2 := runPlain(&c2)
			res.Obs["gas_reruns_with_limit_minus_one"]++
			if st == "FAULT" {
				res.Obs["gas_reruns_faulted"]++
			}
			_ = g2
			if v2 != nil {
				viol = v2
				viol.Detail = fmt.Sprintf("rerun with GasLimit=%d (one less than the %d consumed by the halting monitored run): %s", c2.GasLimit, o.Gas, v2.Detail)
				c = c2
			}
		}
		// totality through Run() (no step cap) when the gas limit bounds the work.
		if viol == nil && spec.Workload != wlTyped && c.Priced && c.GasLimit >= 0 && c.GasLimit*10000/c.BaseFee <= 300000 {
			st, _, v2 := runPlain(&c)
			res.Obs["plain_runs_to_completion"]++
			if v2 != nil {
				viol = v2
			} else if (o.State == "HALT" || o.State == "FAULT") && st != o.State {
				res.Obs["plain_run_state_differs"]++
			}
		}
		curCase.Store(-1)
		// a case that left a lot of garbage must not starve its neighbours of address space
		metrics.Read(heapSample[:])
		if heapSample[0].Value.Kind() == metrics.KindUint64 && heapSample[0].Value.Uint64() > 384<<20 {
			runtime.GC()
			debug.FreeOSMemory()
			res.Obs["forced_collections_after_big_cases"]++
		}
		if o.Leak != nil {
			res.Obs["abandoned_evaluation_stack_events"] += int64(o.Leaks)
			res.Obs["violating_cases"]++
			if len(res.Violations) < 40 {
				res.Violations = append(res.Violations, childViol{Sig: o.Leak.Sig, CaseID: id, Detail: o.Leak.Detail, Witness: witnessOf(spec.Workload, idx, &c, &m, o.Leak)})
			}
		}
		if viol != nil {
			res.Obs["violating_cases"]++
			if len(res.Violations) < 40 {
				res.Violations = append(res.Violations, childViol{Sig: viol.Sig, CaseID: id, Detail: viol.Detail, Witness: witnessOf(spec.Workload, idx, &c, &m, viol)})
			}
		}
		if o.Steps >= 1 {
			h := fnv.New64a()
			var buf [6]byte
			for i, n := range o.OpCount {
				if n != 0 {
					buf[0] = byte(i)
					buf[1], buf[2], buf[3], buf[4] = byte(n), byte(n>>8), byte(n>>16), byte(n>>24)
					h.Write(buf[:5])
				}
			}
			buf[0], buf[1] = byte(o.MaxDepth), byte(o.MaxDepth>>8)
			h.Write(buf[:2])
			res.Sigs[strconv.FormatUint(h.Sum64(), 16)]++
		} else {
			res.Trivial++
		}
		if len(res.Samples) < 2 && o.Steps > 8 {
			s := hexScript(c.Script)
			if len(s) > 400 {
				s = s[:400] + "..."
			}
			res.Samples = append(res.Samples, map[string]any{"case_id": id, "kind": m.Name, "script": s, "state": o.State, "steps": o.Steps, "max_items": o.MaxItems, "max_depth": o.MaxDepth, "cycle_built": o.EverCyclic, "gas": o.Gas})
		}
		res.Next = idx + 1
		if (idx-spec.Lo)%400 == 399 {
			res.flush(spec.Out)
		}
	}
	res.Done = true
	res.flush(spec.Out)
}

// ------------------------------------------------------------------ parent side

var crashHead = regexp.MustCompile(`(?m)^(panic: .*|fatal error: .*|runtime: .*out of memory.*)$`)
var crashFrame = regexp.MustCompile(`(?m)^(github\.com/\S+)\([^()]*\)$`)

func crashSignature(log string) (sig string, inRepo bool) {
	m := crashHead.FindStringIndex(log)
	if m == nil {
		return "", false
	}
	head := log[m[0]:m[1]]
	top := ""
	for _, f := range crashFrame.FindAllStringSubmatch(log[m[0]:], 200) {
		if strings.Contains(f[1], "/verifharness") {
			continue
		}
		if strings.HasPrefix(f[1], "github.com/nspcc-dev/neo-go/") {
			top = strings.TrimPrefix(f[1], "github.com/nspcc-dev/neo-go/")
			break
		}
	}
	msg := normMsg(strings.TrimSpace(head))
	if top == "" {
		if strings.Contains(head, "out of memory") || strings.Contains(head, "stack overflow") || strings.Contains(head, "stack exceeds") {
			return "process-fatal:" + msg, true
		}
		return "process-fatal:harness:" + msg, false
	}
	return "process-fatal:" + top + ":" + msg, true
}

type batch struct {
	workload string
	lo, hi   int
}

// autopsy re-runs one case alone in a fresh child with step tracing and reports
// where the process died ("phase step offset opcode").
func autopsy(bin, dir, workload string, idx int) (where string, reproduced bool) {
	if idx < 0 {
		return "", false
	}
	tag := fmt.Sprintf("autopsy-%s-%d", workload, idx)
	spec := childSpec{Workload: workload, Lo: idx, Hi: idx + 1, Only: idx, Seed: ev.Seed(), Trace: true,
		Out: filepath.Join(dir, tag+".out.json"), Last: filepath.Join(dir, tag+".last.json")}
	sp := filepath.Join(dir, tag+".spec.json")
	sb, _ := json.Marshal(&spec)
	if os.WriteFile(sp, sb, 0o644) != nil {
		return "", false
	}
	lf, err := os.Create(filepath.Join(dir, tag+".log"))
	if err != nil {
		return "", false
	}
	defer lf.Close()
	cmd := exec.Command(bin, "-test.run", "^TestCheck$", "-test.timeout", "0")
	cmd.Env = append(os.Environ(), "C12_CHILD="+sp, "GOMEMLIMIT=2GiB", "GOMAXPROCS=2", "GOTRACEBACK=all", "GOGC=400")
	cmd.Stdout, cmd.Stderr = lf, lf
	cmd.Dir = dir
	done := make(chan error, 1)
	if cmd.Start() != nil {
		return "", false
	}
	go func() { done <- cmd.Wait() }()
	var werr error
	select {
	case werr = <-done:
	case <-time.After(5 * time.Minute):
		_ = cmd.Process.Kill()
		<-done
		return "", false
	}
	tb, _ := os.ReadFile(spec.Last + ".trace")
	where = strings.Join(strings.Fields(string(tb)), " ")
	for _, f := range []string{spec.Out, sp, spec.Last, spec.Last + ".trace"} {
		_ = os.Remove(f)
	}
	return where, werr != nil && where != ""
}

func TestCheck(t *testing.T) {
	if p := os.Getenv("C12_CHILD"); p != "" {
		childMain(t, p)
		return
	}
	run := ev.Start("C12", "cases are scripts derived from (seed, workload, index): 'typed' = directed limit idioms followed by sequences from a generator "+
		"that steps a scratch VM while writing the script, so instructions are chosen for the concrete state (nested / shared compounds, every collection "+
		"instruction, slots, CALL/CALLA frames, TRY/THROW unwinding, loops, sizes around the limits, one deliberately off-boundary target in a share of scripts); "+
		"'mutated' = byte- and instruction-level mutations of those and of random instruction streams; 'raw' = random byte strings and instruction streams. "+
		"Every script runs under a boundary-biased gas limit / price. A case is distinct by the multiset of executed opcodes x maximal invocation depth, "+
		"and non-trivial when at least one instruction completed and was followed by the structural walk.")
	defer run.Finish()
	run.Assume("exported getters (Istack, Estack, Context.*Slot, stackitem Value()) expose the real VM state; the item counter and try depth are read through the verif-tagged hooks VerifRefs / VerifTryDepth")
	run.Assume("scripts run on a bare vm.VM without chain interops (CALLT faults; interops are exercised by C04/C16); the only SYSCALL is the harness loader that creates nested script contexts with the exported vm.Load* API the way System.Contract.Call / System.Runtime.LoadScript do")
	run.Assume("a Go panic is recovered in-process and reported; a process-fatal error (stack exhaustion, OOM under the 3 GiB address-space cap) kills only the child and is attributed through the case file written before execution")
	run.Assume("the item being thrown while a finally block runs is held outside stacks and slots and is not part of the walk (nor of the VM counter)")
	run.Assume("the executed-offset clause is evaluated on scripts accepted by scparser.IsScriptCorrect(script, nil); boundaries come from an independent linear decode plus the implicit RET at len(script)")

	nTyped := ev.Pick(200000, 3000000)
	nMut := ev.Pick(150000, 5000000)
	nRaw := ev.Pick(100000, 4000000)
	if v := os.Getenv("C12_SCALE"); v != "" { // manual experiments only
		if f, err := strconv.ParseFloat(v, 64); err == nil {
			nTyped, nMut, nRaw = int(float64(nTyped)*f), int(float64(nMut)*f), int(float64(nRaw)*f)
		}
	}
	bsize := ev.Pick(2500, 10000)

	only := os.Getenv("VERIF_ONLY_CASE")
	if only == "" {
		if rp := run.Replaying(); rp != nil {
			if c, ok := rp["case_id"].(string); ok {
				only = c
			}
		}
	}
	onlyW, onlyI := "", -1
	if only != "" {
		if i := strings.LastIndex(only, ":"); i > 0 {
			onlyW = only[:i]
			onlyI, _ = strconv.Atoi(only[i+1:])
		}
	}

	var batches []batch
	for _, w := range []struct {
		n    string
		size int
	}{{wlTyped, nTyped}, {wlMut, nMut}, {wlRaw, nRaw}} {
		for lo := 0; lo < w.size; lo += bsize {
			hi := min(lo+bsize, w.size)
			if only != "" {
				if w.n != onlyW || onlyI < lo || onlyI >= hi || !run.Want(only) {
					continue
				}
			}
			batches = append(batches, batch{w.n, lo, hi})
		}
	}
	if only != "" && len(batches) == 0 && onlyW != "" && onlyI >= 0 {
		batches = append(batches, batch{onlyW, onlyI, onlyI + 1}) // replay of an index outside this tier's range
	}
	// interleave workloads so that the slow ones do not all end up last
	sort.SliceStable(batches, func(i, j int) bool { return batches[i].lo < batches[j].lo })

	bin := os.Getenv("VERIF_BIN")
	if bin == "" {
		bin = os.Args[0]
	}
	if abs, err := filepath.Abs(bin); err == nil {
		bin = abs
	}
	dir := t.TempDir()
	workers := runtime.NumCPU()
	batchTimeout := time.Duration(ev.Pick(600, 1500)) * time.Second

	var mu sync.Mutex
	sigs := map[uint64]int64{}
	var trivial int64
	samples := map[string][]any{}
	var ops [256]int64
	var next atomic.Int64
	var wg sync.WaitGroup

	merge := func(r *childResult) {
		mu.Lock()
		defer mu.Unlock()
		for k, v := range r.Obs {
			run.Obs(k, v)
		}
		for k, v := range r.Max {
			run.ObsMax(k, v)
		}
		for k, v := range r.Sigs {
			if h, err := strconv.ParseUint(k, 16, 64); err == nil {
				sigs[h] += v
			}
		}
		trivial += r.Trivial
		for i, n := range r.Ops {
			ops[i] += n
		}
		for _, s := range r.Samples {
			if m, ok := s.(map[string]any); ok {
				w, _ := m["case_id"].(string)
				w = w[:strings.Index(w+":", ":")]
				if len(samples[w]) < 2 {
					samples[w] = append(samples[w], s)
				}
			}
		}
		for _, v := range r.Violations {
			run.Violation(v.Sig, v.CaseID, v.Detail, v.Witness)
		}
	}

	runBatch := func(bi int, b batch) {
		lo := b.lo
		var skip []int
		for attempt := 0; lo < b.hi; attempt++ {
			tag := fmt.Sprintf("%s-%d-%d", b.workload, b.lo, attempt)
			spec := childSpec{Workload: b.workload, Lo: lo, Hi: b.hi, Skip: skip, Only: -1, Seed: ev.Seed(),
				Out: filepath.Join(dir, tag+".out.json"), Last: filepath.Join(dir, tag+".last.json")}
			if only != "" {
				spec.Only = onlyI
			}
			sp := filepath.Join(dir, tag+".spec.json")
			sb, _ := json.Marshal(&spec)
			if err := os.WriteFile(sp, sb, 0o644); err != nil {
				t.Errorf("cannot write spec: %v", err)
				return
			}
			logp := filepath.Join(dir, tag+".log")
			lf, err := os.Create(logp)
			if err != nil {
				t.Errorf("cannot create log: %v", err)
				return
			}
			cmd := exec.Command(bin, "-test.run", "^TestCheck$", "-test.timeout", "0")
			cmd.Env = append(os.Environ(), "C12_CHILD="+sp, "GOMEMLIMIT=2GiB", "GOMAXPROCS=2", "GOTRACEBACK=all", "GOGC=400")
			cmd.Stdout, cmd.Stderr = lf, lf
			cmd.Dir = dir
			if err := cmd.Start(); err != nil {
				lf.Close()
				t.Errorf("cannot start child: %v", err)
				return
			}
			done := make(chan error, 1)
			go func() { done <- cmd.Wait() }()
			var werr error
			killed := false
			select {
			case werr = <-done:
			case <-time.After(batchTimeout):
				killed = true
				_ = cmd.Process.Kill()
				werr = <-done
			}
			lf.Close()
			var res childResult
			haveRes := false
			if rb, err := os.ReadFile(spec.Out); err == nil && json.Unmarshal(rb, &res) == nil {
				haveRes = true
				merge(&res)
			}
			_ = os.Remove(spec.Out)
			_ = os.Remove(sp)
			if haveRes && res.Done && werr == nil {
				_ = os.Remove(logp)
				_ = os.Remove(spec.Last)
				return
			}
			// the child died before finishing its range
			resume := lo
			if haveRes {
				resume = res.Next
			}
			var last struct {
				CaseID  string         `json:"case_id"`
				Witness map[string]any `json:"witness"`
			}
			if lb, err := os.ReadFile(spec.Last); err == nil {
				_ = json.Unmarshal(lb, &last)
			}
			badIdx := -1
			if i := strings.LastIndex(last.CaseID, ":"); i > 0 {
				badIdx, _ = strconv.Atoi(last.CaseID[i+1:])
			}
			logb, _ := os.ReadFile(logp)
			logs := string(logb)
			code := -1
			if ee, ok := werr.(*exec.ExitError); ok {
				code = ee.ExitCode()
			}
			switch {
			case killed:
				run.Inconclusive("batch %s [%d,%d): watchdog killed the child after %s while running %s", b.workload, lo, b.hi, batchTimeout, last.CaseID)
			case code == 97:
				run.Inconclusive("batch %s: case %s ran for more than 90 s, abandoned (watchdog)", b.workload, last.CaseID)
			default:
				sig, inRepo := crashSignature(logs)
				tail := logs
				if len(tail) > 5000 {
					tail = tail[:5000]
				}
				if sig == "" || !inRepo {
					run.Inconclusive("batch %s [%d,%d): child exit %d without a neo-go crash signature (harness?) at %s: %s", b.workload, lo, b.hi, code, last.CaseID, tail)
					if sig == "" && badIdx < 0 {
						return
					}
				} else {
					// autopsy: re-run the case alone, recording the instruction before each step
					where, reproduced := autopsy(bin, dir, b.workload, badIdx)
					if last.Witness == nil {
						last.Witness = map[string]any{}
					}
					last.Witness["child_log"] = tail
					last.Witness["died_at"] = where
					mu.Lock()
					run.Obs("process_fatal_errors", 1)
					if reproduced {
						kind := sig
						if strings.Contains(sig, "out of memory") {
							kind = "process-fatal:out-of-memory"
						}
						op := where
						if f := strings.Fields(where); len(f) == 4 {
							op = f[3]
						}
						run.Violation(kind+":during-"+op, last.CaseID, "the child process executing this script died with a process-fatal error (not recoverable by the VM's central recover); the case alone reproduces it in a fresh process at: "+where+" (phase, step, offset, opcode)", last.Witness)
					} else {
						run.Inconclusive("case %s killed its child (%s) but runs to completion alone in a fresh process: attributed to memory left over from neighbouring cases, not counted as a verdict", last.CaseID, sig)
					}
					mu.Unlock()
				}
			}
			if badIdx >= 0 {
				skip = append(skip, badIdx)
			}
			if attempt >= 8 || badIdx < 0 {
				run.Inconclusive("batch %s [%d,%d) abandoned at %d after %d child failures", b.workload, b.lo, b.hi, resume, attempt+1)
				return
			}
			if resume <= lo && badIdx < lo {
				// no progress information at all: step over the whole flushed range
				return
			}
			lo = resume
		}
	}

	t0 := time.Now()
	for w := 0; w < workers; w++ {
		wg.Add(1)
		go func() {
			defer wg.Done()
			for {
				i := int(next.Add(1)) - 1
				if i >= len(batches) {
					return
				}
				runBatch(i, batches[i])
			}
		}()
	}
	wg.Wait()

	for _, w := range []string{wlTyped, wlMut, wlRaw} {
		for _, s := range samples[w] {
			run.Sample(s)
		}
	}
	for s, n := range sigs {
		run.CaseN(strconv.FormatUint(s, 16), true, n)
	}
	if trivial > 0 {
		run.CaseN("trivial", false, trivial)
	}
	distinctOps, nonFault := 0, int64(0)
	var missing []string
	for i, n := range ops {
		if n > 0 {
			distinctOps++
			nonFault += n
		} else if opcode.IsValid(opcode.Opcode(i)) {
			missing = append(missing, opcode.Opcode(i).String())
		}
	}
	run.Obs("distinct_opcodes_completed_without_fault", int64(distinctOps))
	run.Note("opcodes_never_completed", missing)
	run.Note("batches", len(batches))
	run.Note("children_wall_s", time.Since(t0).Seconds())
	run.Note("idioms", len(idioms))
}

// Package c05 decides property C05 (native token supply and governance
// accounting are conserved) with an invariant monitor evaluated from contract
// storage and execution results after every block of token-heavy histories.
package c05

import (
	"encoding/binary"
	"encoding/json"
	"fmt"
	"github.com/nspcc-dev/neo-go/pkg/compiler"
	"github.com/nspcc-dev/neo-go/pkg/core/interop/interopnames"
	"github.com/nspcc-dev/neo-go/pkg/io"
	"github.com/nspcc-dev/neo-go/pkg/smartcontract"
	"github.com/nspcc-dev/neo-go/pkg/smartcontract/callflag"
	"github.com/nspcc-dev/neo-go/pkg/smartcontract/manifest"
	"github.com/nspcc-dev/neo-go/pkg/smartcontract/nef"
	"github.com/nspcc-dev/neo-go/pkg/vm/emit"
	"math/big"
	"os"
	"sort"
	"strings"
	"testing"

	"github.com/nspcc-dev/neo-go/pkg/config"
	"github.com/nspcc-dev/neo-go/pkg/core"
	"github.com/nspcc-dev/neo-go/pkg/core/block"
	"github.com/nspcc-dev/neo-go/pkg/core/native/nativehashes"
	"github.com/nspcc-dev/neo-go/pkg/core/native/nativeids"
	"github.com/nspcc-dev/neo-go/pkg/core/state"
	"github.com/nspcc-dev/neo-go/pkg/core/transaction"
	"github.com/nspcc-dev/neo-go/pkg/encoding/bigint"
	"github.com/nspcc-dev/neo-go/pkg/neotest"
	"github.com/nspcc-dev/neo-go/pkg/smartcontract/trigger"
	"github.com/nspcc-dev/neo-go/pkg/util"
	"github.com/nspcc-dev/neo-go/pkg/vm/opcode"
	"github.com/nspcc-dev/neo-go/pkg/vm/stackitem"
	"github.com/nspcc-dev/neo-go/pkg/vm/vmstate"
	"github.com/nspcc-dev/neo-go/verifharness/vlib/ev"
	"github.com/nspcc-dev/neo-go/verifharness/vlib/vchain"
)

type snap struct {
	neo, gas map[util.Uint160]*big.Int
}

type viol struct{ sig, detail string }

type counters struct {
	accounts, candidates, deposits, transferEvents, burns, mints int64
}

// conservation evaluates every law of the statement at the current block
// boundary; prev is the snapshot of the previous boundary.
func conservation(bc *core.Blockchain, prev *snap, hasNotary bool, c *counters) (*snap, []viol) {
	var bad []viol
	neoID, gasID, notaryID := int32(nativeids.NeoToken), int32(nativeids.GasToken), int32(nativeids.Notary)
	s := &snap{neo: map[util.Uint160]*big.Int{}, gas: map[util.Uint160]*big.Int{}}
	sumNeo := new(big.Int)
	votesFor := map[string]*big.Int{}
	voters := new(big.Int)
	bc.SeekStorage(neoID, []byte{20}, func(k, v []byte) bool {
		st, err := state.NEOBalanceFromBytes(v)
		if err != nil {
			bad = append(bad, viol{"undecodable-neo-account", fmt.Sprintf("%x", k)})
			return true
		}
		var a util.Uint160
		copy(a[:], k)
		s.neo[a] = new(big.Int).Set(&st.Balance)
		c.accounts++
		if st.Balance.Sign() < 0 {
			bad = append(bad, viol{"negative-neo-balance", a.StringLE()})
		}
		sumNeo.Add(sumNeo, &st.Balance)
		if st.VoteTo != nil {
			key := string(st.VoteTo.Bytes())
			if votesFor[key] == nil {
				votesFor[key] = new(big.Int)
			}
			votesFor[key].Add(votesFor[key], &st.Balance)
			voters.Add(voters, &st.Balance)
		}
		return true
	})
	supNeo := bigint.FromBytes(bc.GetStorageItem(neoID, []byte{11}))
	if sumNeo.Cmp(big.NewInt(100_000_000)) != 0 {
		bad = append(bad, viol{"neo-balances-do-not-sum-to-100M", fmt.Sprintf("sum=%s", sumNeo)})
	}
	if supNeo.Cmp(sumNeo) != 0 {
		bad = append(bad, viol{"neo-stored-supply-differs-from-balances", fmt.Sprintf("sum=%s stored=%s", sumNeo, supNeo)})
	}
	bc.SeekStorage(neoID, []byte{33}, func(k, v []byte) bool {
		it, err := stackitem.Deserialize(v)
		if err != nil {
			bad = append(bad, viol{"undecodable-candidate", fmt.Sprintf("%x", k)})
			return true
		}
		arr, ok := it.Value().([]stackitem.Item)
		if !ok || len(arr) < 2 {
			bad = append(bad, viol{"undecodable-candidate", fmt.Sprintf("%x", k)})
			return true
		}
		c.candidates++
		votes, _ := arr[1].TryInteger()
		want := votesFor[string(k)]
		if want == nil {
			want = new(big.Int)
		}
		if votes.Cmp(want) != 0 {
			bad = append(bad, viol{"candidate-votes-differ-from-voters-neo", fmt.Sprintf("candidate %x stored=%s voters hold=%s", k[:4], votes, want)})
		}
		delete(votesFor, string(k))
		return true
	})
	for k, v := range votesFor {
		if v.Sign() != 0 {
			bad = append(bad, viol{"votes-for-candidate-without-record", fmt.Sprintf("%x: %s", k[:4], v)})
		}
	}
	vc := bigint.FromBytes(bc.GetStorageItem(neoID, []byte{1}))
	if vc.Cmp(voters) != 0 {
		bad = append(bad, viol{"voters-count-differs", fmt.Sprintf("stored=%s actual=%s", vc, voters)})
	}
	sumGas := new(big.Int)
	bc.SeekStorage(gasID, []byte{20}, func(k, v []byte) bool {
		st, err := state.NEP17BalanceFromBytes(v)
		if err != nil {
			bad = append(bad, viol{"undecodable-gas-account", fmt.Sprintf("%x", k)})
			return true
		}
		var a util.Uint160
		copy(a[:], k)
		s.gas[a] = new(big.Int).Set(&st.Balance)
		if st.Balance.Sign() < 0 {
			bad = append(bad, viol{"negative-gas-balance", a.StringLE()})
		}
		sumGas.Add(sumGas, &st.Balance)
		return true
	})
	supGas := bigint.FromBytes(bc.GetStorageItem(gasID, []byte{11}))
	if supGas.Cmp(sumGas) != 0 {
		bad = append(bad, viol{"gas-stored-supply-differs-from-balances", fmt.Sprintf("sum=%s stored=%s", sumGas, supGas)})
	}
	if hasNotary {
		dep := new(big.Int)
		bc.SeekStorage(notaryID, []byte{1}, func(k, v []byte) bool {
			d := new(state.Deposit)
			if err := stackitem.DeserializeConvertible(v, d); err != nil {
				bad = append(bad, viol{"undecodable-notary-deposit", fmt.Sprintf("%x", k)})
				return true
			}
			c.deposits++
			if d.Amount.Sign() < 0 {
				bad = append(bad, viol{"negative-notary-deposit", fmt.Sprintf("%x", k)})
			}
			dep.Add(dep, d.Amount)
			return true
		})
		nh, _ := bc.GetNativeContractScriptHash("Notary")
		nb := s.gas[nh]
		if nb == nil {
			nb = new(big.Int)
		}
		if nb.Cmp(dep) != 0 {
			bad = append(bad, viol{"notary-gas-differs-from-deposits", fmt.Sprintf("balance=%s deposits=%s", nb, dep)})
		}
	}
	if prev != nil {
		dn := map[util.Uint160]*big.Int{}
		dg := map[util.Uint160]*big.Int{}
		h := bc.CurrentBlockHash()
		blk, err := bc.GetBlock(h)
		if err != nil {
			return s, append(bad, viol{"tip-block-unavailable", err.Error()})
		}
		var aers []state.AppExecResult
		a, _ := bc.GetAppExecResults(h, trigger.All)
		if len(a) != 2 {
			bad = append(bad, viol{"block-execution-results-count", fmt.Sprint(len(a))})
		}
		aers = append(aers, a...)
		for _, tx := range blk.Transactions {
			x, _ := bc.GetAppExecResults(tx.Hash(), trigger.All)
			aers = append(aers, x...)
		}
		add := func(m map[util.Uint160]*big.Int, it stackitem.Item, amt *big.Int, sign int64) bool {
			if _, ok := it.(stackitem.Null); ok {
				return false
			}
			b, err := it.TryBytes()
			if err != nil {
				return false
			}
			u, err := util.Uint160DecodeBytesBE(b)
			if err != nil {
				return false
			}
			if m[u] == nil {
				m[u] = new(big.Int)
			}
			m[u].Add(m[u], new(big.Int).Mul(amt, big.NewInt(sign)))
			return true
		}
		for _, aer := range aers {
			if aer.VMState != vmstate.Halt {
				continue
			}
			for _, e := range aer.Events {
				if e.Name != "Transfer" {
					continue
				}
				var m map[util.Uint160]*big.Int
				switch e.ScriptHash {
				case bc.GoverningTokenHash():
					m = dn
				case bc.UtilityTokenHash():
					m = dg
				default:
					continue
				}
				arr := e.Item.Value().([]stackitem.Item)
				amt, err := arr[2].TryInteger()
				if err != nil || amt.Sign() < 0 {
					bad = append(bad, viol{"transfer-event-with-bad-amount", fmt.Sprint(arr[2])})
					continue
				}
				c.transferEvents++
				if !add(m, arr[0], amt, -1) {
					c.mints++
				}
				if !add(m, arr[1], amt, 1) {
					c.burns++
				}
			}
		}
		chk := func(name string, cur, old, d map[util.Uint160]*big.Int) {
			all := map[util.Uint160]bool{}
			for k := range cur {
				all[k] = true
			}
			for k := range old {
				all[k] = true
			}
			for k := range d {
				all[k] = true
			}
			ks := make([]util.Uint160, 0, len(all))
			for k := range all {
				ks = append(ks, k)
			}
			sort.Slice(ks, func(i, j int) bool { return ks[i].Less(ks[j]) })
			for _, k := range ks {
				cv, ov, dd := cur[k], old[k], d[k]
				if cv == nil {
					cv = new(big.Int)
				}
				if ov == nil {
					ov = new(big.Int)
				}
				if dd == nil {
					dd = new(big.Int)
				}
				if new(big.Int).Sub(cv, ov).Cmp(dd) != 0 {
					bad = append(bad, viol{name + "-balance-change-differs-from-transfer-events", fmt.Sprintf("%s: delta=%s events=%s", k.StringLE()[:8], new(big.Int).Sub(cv, ov), dd)})
					return
				}
			}
		}
		chk("neo", s.neo, prev.neo, dn)
		chk("gas", s.gas, prev.gas, dg)
	}
	return s, bad
}

func TestCheck(t *testing.T) {
	run := ev.Start("C05", "a case is one block boundary of a token-heavy generated history: all conservation laws (NEO = 100M = stored supply = sum of balances; GAS supply = sum of balances; candidate votes = NEO of its voters; voters count; Notary GAS = sum of deposits; no negative balance; per-account balance change = net Transfer events of HALTed executions incl. OnPersist/PostPersist) are evaluated from contract storage and execution results; distinct by (history, height); non-trivial if the block contained a transaction")
	defer run.Finish()
	run.Assume("accounts are those the generator creates (tens); storage decoded with the repository's own state types")
	nh := ev.Pick(14, 360)
	nb := ev.Pick(120, 250)
	w := vchain.DefaultWeights
	w.GasTransfer, w.NeoTransfer, w.Vote, w.Candidate, w.Notary, w.Payment, w.Fault, w.NotaryAssisted, w.Role = 14, 16, 16, 8, 12, 10, 8, 12, 4
	var cnt counters
	for hi := 0; hi < nh; hi++ {
		var prev *snap
		id := func(h uint32) string { return fmt.Sprintf("h%d/height%d", hi, h) }
		staged := hi%4 == 3
		proto := func(c *config.Blockchain) { vchain.AllForks(c) }
		pname := "all-forks"
		if staged {
			proto = func(c *config.Blockchain) { vchain.StagedForks(c) }
			pname = "staged-forks"
		} else if hi%5 == 2 {
			// a chain on which only the older hardforks are enabled
			stage := []string{"Cockatrice", "none", "Echidna", "Aspidochelone"}[(hi/5)%4]
			proto = func(c *config.Blockchain) { vchain.PartialForks(c, stage) }
			pname = "forks-up-to-" + stage
		}
		var hist *vchain.History
		stop := false
		hist = vchain.BuildHistory(t, vchain.HistoryCfg{Idx: 800 + hi, Blocks: nb, Weights: &w, Proto: proto, PName: pname, Echidna: hi%2 == 1,
			OnBlock: func(p *vchain.Producer, b *block.Block) {
				if stop || !run.Want(id(b.Index)) {
					return
				}
				if prev == nil {
					// the first observed boundary has no predecessor snapshot
					prev, _ = conservation(p.BC, nil, false, &counters{})
					return
				}
				hasNotary := p.BC.GetContractState(p.NotaryH) != nil
				s, bad := conservation(p.BC, prev, hasNotary, &cnt)
				prev = s
				run.Case(id(b.Index), len(b.Transactions) > 0)
				for _, v := range bad {
					kl := ""
					if int(b.Index) <= len(p.KindLog) && b.Index >= 1 {
						kl = strings.Join(p.KindLog[b.Index-1], " ")
					}
					run.Violation(v.sig, id(b.Index), fmt.Sprintf("height %d: %s (block txs: %s)", b.Index, v.detail, kl), map[string]any{"history": 800 + hi, "protocol": pname, "height": b.Index})
				}
			}})
		if hist.P.Rejected != nil {
			run.Violation("producer-rejected-own-block", fmt.Sprint("h", hi), hist.P.Rejected.Error(), nil)
		}
		// completely full blocks: the default per-block transaction limit (512),
		// one below and one above the notification count limit of one execution
		// (OnPersist burns a fee per transaction and then mints the primary's share)
		if hist.P.Rejected == nil && (hi%4 == 1 || ev.Tier() == "thorough" && hi%4 == 3) {
			p := hist.P
			for _, n := range []int{511, 512, 513} {
				var txs []*transaction.Transaction
				for k := 0; k < n; k++ {
					u := p.Users[k%len(p.Users)]
					var sg neotest.Signer = u.S
					from := u.Hash()
					if u.Blocked || k%3 == 0 {
						sg, from = p.Val, p.Val.ScriptHash()
					}
					txs = append(txs, p.Call("full-block-gas-transfer", []neotest.Signer{sg}, p.GasH, "transfer", from, p.Users[(k+1)%len(p.Users)].Hash(), int64(1+k%7), nil))
				}
				if p.AddBlock(txs...) == nil {
					run.Violation("producer-rejected-own-block:full-block", fmt.Sprint("h", hi), p.Rejected.Error(), nil)
					break
				}
				run.Obs("full_blocks_checked", 1)
			}
		}
		// a deposit spent to the last unit: a Notary-paid transaction whose fees equal
		// the payer's deposit exactly (the record must go, Notary's GAS must still be
		// the sum of the deposits); conservation is evaluated by OnBlock as usual
		if hist.P.Rejected == nil && hist.P.BC.GetContractState(hist.P.NotaryH) != nil {
			p := hist.P
			for k, u := range p.Users {
				dep := p.BC.GetUtilityTokenBalance(nativehashes.Notary, u.Hash()).Int64()
				if dep < 3000_0000 || u.Blocked {
					continue
				}
				tx := vchain.NotaryAssistedTx(t, p.BC, u, dep, p.BC.BlockHeight()+1, uint32(0x5e000000+hi*64+k))
				if tx == nil || tx.SystemFee+tx.NetworkFee != dep {
					continue
				}
				if p.AddBlock(tx) == nil {
					run.Violation("producer-rejected-own-block:deposit-spent-exactly", fmt.Sprint("h", hi), p.Rejected.Error(), nil)
					break
				}
				run.Obs("notary_deposits_spent_to_the_last_unit", 1)
				if left := p.BC.GetUtilityTokenBalance(nativehashes.Notary, u.Hash()).Int64(); left != 0 {
					run.Violation("notary-deposit-left-after-it-was-spent-exactly", id(p.BC.BlockHeight()), fmt.Sprintf("user %d: deposit %d, fees %d, deposit afterwards %d", k, dep, tx.SystemFee+tx.NetworkFee, left), nil)
				}
			}
		}
		// a withdrawal whose receiver puts half of it back from inside its payment
		// callback, as a deposit of the same owner: Notary's GAS must still be the sum
		// of the deposits afterwards
		if hist.P.Rejected == nil && hist.P.BC.GetContractState(hist.P.NotaryH) != nil && hi%2 == 0 {
			p := hist.P
			for k, u := range p.Users {
				if u.Blocked || p.BC.GetUtilityTokenBalance(nativehashes.Notary, u.Hash()).Sign() != 0 || p.BC.GetUtilityTokenBalance(u.Hash(), util.Uint160{}).Int64() < 100_0000_0000 {
					continue
				}
				h0 := p.BC.BlockHeight()
				const back = 2_0000_0000
				w := io.NewBufBinWriter()
				emit.InitSlot(w.BinWriter, 0, 3)
				emit.Opcodes(w.BinWriter, opcode.LDARG0)
				emit.Bytes(w.BinWriter, nativehashes.Notary.BytesBE())
				emit.Opcodes(w.BinWriter, opcode.EQUAL)
				body := io.NewBufBinWriter()
				emit.Int(body.BinWriter, int64(h0+60))
				emit.Bytes(body.BinWriter, u.Hash().BytesBE())
				emit.Opcodes(body.BinWriter, opcode.PUSH2, opcode.PACK)
				emit.Int(body.BinWriter, back)
				emit.Bytes(body.BinWriter, nativehashes.Notary.BytesBE())
				emit.Syscall(body.BinWriter, interopnames.SystemRuntimeGetExecutingScriptHash)
				emit.Opcodes(body.BinWriter, opcode.PUSH4, opcode.PACK)
				emit.AppCallNoArgs(body.BinWriter, nativehashes.GasToken, "transfer", callflag.All)
				emit.Opcodes(body.BinWriter, opcode.DROP)
				off := make([]byte, 4)
				binary.LittleEndian.PutUint32(off, uint32(5+body.Len()))
				emit.Instruction(w.BinWriter, opcode.JMPIFNOTL, off)
				w.WriteBytes(body.Bytes())
				emit.Opcodes(w.BinWriter, opcode.RET)
				nf, err := nef.NewFile(w.Bytes())
				if err != nil {
					t.Fatal(err)
				}
				name := fmt.Sprintf("redepositor-%d-%d", hi, k)
				mf := manifest.NewManifest(name)
				mf.ABI.Methods = []manifest.Method{{Name: "onNEP17Payment", Offset: 0, ReturnType: smartcontract.VoidType, Parameters: []manifest.Parameter{
					{Name: "from", Type: smartcontract.Hash160Type}, {Name: "amount", Type: smartcontract.IntegerType}, {Name: "data", Type: smartcontract.AnyType}}}}
				mf.Permissions = []manifest.Permission{*manifest.NewPermission(manifest.PermissionWildcard)}
				nb, _ := nf.Bytes()
				mb, _ := json.Marshal(mf)
				ch := state.CreateContractHash(u.Hash(), nf.Checksum, name)
				if p.AddBlock(
					p.Call("deploy-redepositor", []neotest.Signer{u.S}, p.MgmtH, "deploy", nb, mb, nil),
					p.Call("notary-deposit-short", []neotest.Signer{u.S}, p.GasH, "transfer", u.Hash(), nativehashes.Notary, int64(4_0000_0000), []any{nil, int64(h0 + 3)}),
				) == nil {
					break
				}
				for p.BC.BlockHeight() < h0+3 && p.AddBlock() != nil {
				}
				if p.Rejected != nil || p.BC.GetUtilityTokenBalance(nativehashes.Notary, u.Hash()).Int64() != 4_0000_0000 {
					break
				}
				if p.AddBlock(p.Call("notary-withdraw-to-redepositor", []neotest.Signer{u.S}, p.NotaryH, "withdraw", u.Hash(), ch)) == nil {
					break
				}
				run.Obs("notary_withdrawals_with_a_deposit_made_from_the_payment_callback", 1)
				if left := p.BC.GetUtilityTokenBalance(nativehashes.Notary, u.Hash()).Int64(); left != back {
					kl := strings.Join(p.KindLog[len(p.KindLog)-1], " ")
					if strings.Contains(kl, "notary-withdraw-to-redepositor:HALT") {
						run.Violation("notary-deposit-made-during-withdrawal-lost", id(p.BC.BlockHeight()), fmt.Sprintf("user %d withdrew 4 GAS to a contract that deposits 2 GAS back for the same owner from its payment callback: the deposit reads %d afterwards", k, left), nil)
					}
				}
				break
			}
			if p.Rejected != nil {
				run.Violation("producer-rejected-own-block:withdraw-with-redeposit", fmt.Sprint("h", hi), p.Rejected.Error(), nil)
			}
		}
		// a contract holding NEO votes; the GAS reward minted by that very vote enters
		// its payment callback, which votes again for another candidate: the votes of
		// every candidate and the voters count must match the accounts afterwards
		if hist.P.Rejected == nil && hi%2 == 1 {
			p := hist.P
			var cands []*vchain.User
			for _, u := range p.Users {
				if u.Candidate && !u.Blocked {
					cands = append(cands, u)
				}
			}
			var owner *vchain.User
			for _, u := range p.Users {
				nb, _ := p.BC.GetGoverningTokenBalance(u.Hash())
				if !u.Blocked && nb.Int64() > 5000 && p.BC.GetUtilityTokenBalance(u.Hash(), util.Uint160{}).Int64() > 200_0000_0000 {
					owner = u
					break
				}
			}
			if len(cands) >= 2 && owner != nil {
				c := revoterContract(t, owner.Hash(), fmt.Sprintf("revoter-%d", hi))
				nb, _ := c.NEF.Bytes()
				mb, _ := json.Marshal(c.Manifest)
				ok := p.AddBlock(p.Call("deploy-revoter", []neotest.Signer{owner.S}, p.MgmtH, "deploy", nb, mb, nil)) != nil &&
					p.AddBlock(p.Call("fund-revoter-neo", []neotest.Signer{owner.S}, p.NeoH, "transfer", owner.Hash(), c.Hash, int64(1000), nil)) != nil &&
					p.AddBlock() != nil && p.AddBlock() != nil &&
					p.AddBlock(p.Call("arm-revoter", []neotest.Signer{owner.S}, c.Hash, "arm", cands[1].Acc.PublicKey().Bytes())) != nil &&
					p.AddBlock(p.Call("revoter-votes", []neotest.Signer{owner.S}, c.Hash, "vote", cands[0].Acc.PublicKey().Bytes())) != nil
				if !ok {
					run.Violation("producer-rejected-own-block:vote-from-reward-callback", fmt.Sprint("h", hi), p.Rejected.Error(), nil)
				} else if strings.Contains(strings.Join(p.KindLog[len(p.KindLog)-1], " "), "revoter-votes:HALT") {
					run.Obs("votes_cast_again_from_the_reward_payment_callback", 1)
				} else {
					run.Obs("revoter_scenarios_not_reaching_the_vote", 1)
					if os.Getenv("C05_DEBUG") != "" {
						b := p.Blocks[len(p.Blocks)-1]
						for _, tx := range b.Transactions {
							if aer, err := p.BC.GetAppExecResults(tx.Hash(), trigger.Application); err == nil && len(aer) == 1 {
								fmt.Println("DEBUG revoter fault:", aer[0].FaultException)
							}
						}
					}
				}
			} else if os.Getenv("C05_DEBUG") != "" {
				fmt.Println("DEBUG revoter: no candidates/owner", len(cands), owner != nil)
			}
		}
		// a signed block carrying a transaction its sender cannot pay for, offered to a
		// node that does not verify transactions of blocks: whether it refuses the
		// block or not, no balance may go negative and the supply laws hold
		if hist.P.Rejected == nil && hi%3 == 0 {
			p := hist.P
			cid := fmt.Sprintf("h%d/unpayable-transaction-at-a-non-verifying-node", hi)
			if run.Want(cid) {
				rep, err := vchain.OpenReplica(t, vchain.ReplicaCfg{Name: "noverify", Cfg: func(c *config.Blockchain) { proto(c); c.VerifyTransactions = false }})
				if err != nil {
					t.Fatal(err)
				}
				ok := true
				for i := range p.Raw {
					if err := rep.AddRaw(p.Raw[i]); err != nil {
						run.Violation("non-verifying-replica-rejects-a-history-block", cid, fmt.Sprintf("block %d: %v", i+1, err), nil)
						ok = false
						break
					}
				}
				if ok {
					var txs []*transaction.Transaction
					for k, u := range p.Users[:3] {
						bal := p.BC.GetUtilityTokenBalance(u.Hash(), util.Uint160{}).Int64()
						tx := transaction.New([]byte{byte(opcode.PUSH1)}, 1_0000_0000)
						tx.Nonce = uint32(0x5f000000 + hi*64 + k)
						tx.ValidUntilBlock = p.BC.BlockHeight() + 1
						tx.Signers = []transaction.Signer{{Account: u.Hash(), Scopes: transaction.None}}
						neotest.AddNetworkFee(t, p.BC, tx, u.S)
						tx.NetworkFee += bal // system fee + network fee is above the balance
						if err := u.S.SignTx(p.BC.GetConfig().Magic, tx); err != nil {
							t.Fatal(err)
						}
						txs = append(txs, tx)
					}
					blk := p.NewBlock(txs...)
					run.Case(cid, true)
					var aerr error
					func() {
						defer func() {
							if x := recover(); x != nil {
								aerr = fmt.Errorf("panic: %v", x)
							}
						}()
						aerr = rep.BC.AddBlock(blk)
					}()
					if aerr != nil {
						run.Obs("blocks_with_unpayable_transactions_refused_by_a_non_verifying_node", 1)
					} else {
						run.Obs("blocks_with_unpayable_transactions_accepted_by_a_non_verifying_node", 1)
					}
					_, bad := conservation(rep.BC, nil, rep.BC.GetContractState(p.NotaryH) != nil, &counters{})
					for _, v := range bad {
						run.Violation(v.sig+":non-verifying-node", cid, fmt.Sprintf("after the block with unpayable transactions (AddBlock: %v): %s", aerr, v.detail), nil)
					}
				}
				rep.Close()
			}
		}
		stop = true
		if hi < 3 {
			run.Sample(map[string]any{"history": 800 + hi, "protocol": pname, "blocks": len(hist.P.Raw), "tx_kinds": hist.P.KindsSummary()})
		}
		hist.P.Close()
	}
	run.Obs("account_records_summed", cnt.accounts)
	run.Obs("candidate_records_checked", cnt.candidates)
	run.Obs("notary_deposits_summed", cnt.deposits)
	run.Obs("transfer_events_matched", cnt.transferEvents)
	run.Obs("mint_events", cnt.mints)
	run.Obs("burn_events", cnt.burns)
}

// revoterSrc: a contract that holds NEO and votes; when the GAS reward of its
// own vote arrives (a mint: no sender) while it is armed, it votes again, for
// the candidate it was armed with.
const revoterSrc = `package revoter

import (
	"github.com/nspcc-dev/neo-go/pkg/interop"
	"github.com/nspcc-dev/neo-go/pkg/interop/contract"
	"github.com/nspcc-dev/neo-go/pkg/interop/native/neo"
	"github.com/nspcc-dev/neo-go/pkg/interop/runtime"
	"github.com/nspcc-dev/neo-go/pkg/interop/storage"
)

func OnNEP17Payment(from interop.Hash160, amount int, data any) {
	ctx := storage.GetContext()
	second := storage.Get(ctx, "second")
	if from == nil && second != nil {
		storage.Delete(ctx, "second")
		contract.Call(interop.Hash160(neo.Hash), "vote", contract.All, runtime.GetExecutingScriptHash(), second.(interop.PublicKey))
	}
}

func Arm(second interop.PublicKey) {
	storage.Put(storage.GetContext(), "second", second)
}

// Vote votes through System.Contract.Call with all flags (the method token of
// the interop wrapper would leave NEO without AllowCall, and the callback
// below could call nothing).
func Vote(first interop.PublicKey) bool {
	return contract.Call(interop.Hash160(neo.Hash), "vote", contract.All, runtime.GetExecutingScriptHash(), first).(bool)
}
`

func revoterContract(t testing.TB, sender util.Uint160, name string) *neotest.Contract {
	return neotest.CompileSource(t, sender, strings.NewReader(revoterSrc), &compiler.Options{
		Name: name, NoEventsCheck: true, NoPermissionsCheck: true, NoStandardCheck: true,
		Permissions: []manifest.Permission{*manifest.NewPermission(manifest.PermissionWildcard)},
	})
}

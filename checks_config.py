"""Per-property configuration of the ./check driver.

parts[tier] is a list of runs of the check's test binary; each may be built
with the race detector and selects a portion of the workload via VERIF_PART.
"""

def P(name="all", race=False, timeout=900, env=None):
    return {"name": name, "race": race, "timeout": timeout, "env": env or {}}

CHECKS = {
    "C08": {"pkg": "checks/c08", "level": "exploration",
            "technique": "runtime invariant monitor after every pool operation over seeded random histories",
            "level_text": "Held on the explored histories: every clause of the statement (uniqueness, capacity, ordering, lowest-priority eviction, per-payer solvency incl. notary depositors, no pooled Conflicts pair, one response per oracle id, failed Add leaves all observables unchanged, no panic) is evaluated through the exported API after every operation of thousands of seeded Add/Remove/RemoveStale sequences built to make ties, near-balance payers and conflict chains common. Exploration is the right level: the state space is unbounded and the oracle is exact for each visited state.",
            "level_note": "Trusts the exported getters to reflect the pool; balances change only at RemoveStale as on a node; no concurrency (the property quantifies over histories).",
            "parts": {"quick": [P(timeout=600)], "thorough": [P(timeout=3000)]}},
}

NOT_APPLICABLE = {}

"""Per-property configuration of the ./check driver, discovered from
harness/checks/*/check.json (one file per property, owned by that check).

check.json keys:
  id, level, technique, level_text, level_note
  parts: {"quick": [part...], "thorough": [part...]}; part = {"name": str,
         "race": bool, "timeout": seconds, "env": {..}} — one run of the test
         binary each; VERIF_PART=<name> selects the portion of the workload.
"""
import glob, json, os

ROOT = os.path.dirname(os.path.abspath(__file__))
CHECKS = {}
for f in sorted(glob.glob(os.path.join(ROOT, "harness", "checks", "*", "check.json"))):
    c = json.load(open(f))
    c["pkg"] = "checks/" + os.path.basename(os.path.dirname(f))
    for tier in ("quick", "thorough"):
        for p in c["parts"][tier]:
            p.setdefault("race", False)
            p.setdefault("timeout", 900)
            p.setdefault("env", {})
    if c.get("enabled", True):
        CHECKS[c["id"]] = c

# Properties deliberately not claimed (with the reason); anything else that has
# no check.json yet is listed by tools/gen_manifest.py as "not built yet".
NOT_APPLICABLE = {}

#!/bin/bash
# usage: tools/keep_seed.sh <cNN> <n> "<needs>" "<caught by>" [<id number, default n>]  — stores a confirmed seeded change under /verif/seeded/
c=$1; n=$2; needs=$3; caught=$4; out=${SEED_OUT:-/tmp/seed-out-$c}
id=$(echo $c | tr a-z A-Z)-${5:-$n}
d=/verif/seeded/$id; mkdir -p $d
cp $out/change$n.diff $d/patch.diff
cp $out/demo${n}_test.go $d/demo_test.go
cp $out/notes$n.md $d/notes.md 2>/dev/null
python3 - "$id" "$c" "$needs" "$caught" <<'PY'
import json,sys
id,c,needs,caught=sys.argv[1:5]
json.dump({"id":id,"property":c.upper(),"needs_to_manifest":needs,
 "confirmed":"tools/confirm_seed.sh: demo passes on the unmodified worktree, fails with patch.diff; suites of the touched packages and pkg/core pass with patch.diff",
 "checks_run":caught}, open('/verif/seeded/%s/meta.json'%id,'w'), indent=1)
PY
echo kept $id

#!/usr/bin/env python3
"""Regenerates /verif/MANIFEST.json from checks_config.py (single source of truth)."""
import json, os, sys, subprocess
ROOT = os.path.dirname(os.path.dirname(os.path.abspath(__file__)))
sys.path.insert(0, ROOT)
from checks_config import CHECKS, NOT_APPLICABLE
props = [json.loads(l)["id"] for l in open(os.path.join(ROOT, "properties.jsonl"))]
hooks = subprocess.run(["git", "-C", "/repo", "log", "--format=%H %s"], stdout=subprocess.PIPE, text=True).stdout.splitlines()
hook_commits = [l.split()[0] for l in hooks if "verif hook" in l]
baseline = json.load(open("/root/.vp/BASELINE.json"))["cmd"]
m = {
    "version": 1,
    "setup_cmd": "./check --setup",
    "hooks": {"guard": "verif",
              "enable": "go test -c -tags verif (build tag; files /repo/pkg/core/verif_hooks.go, /repo/pkg/vm/verif_hooks.go)",
              "baseline_off_cmd": baseline,
              "source_commits": hook_commits,
              "add_only": True},
    "engines": [{"name": "verifharness", "path": "harness",
                 "serves_properties": sorted(set(open(os.path.join(ROOT, "claimed.txt")).read().split())),
                 "kind_free_text": "Go test binaries built from /repo's working tree (tag verif, -race where the quantifier includes schedules) running seeded workloads under monitors; driver ./check turns their result files into evidence and verdict lines"}],
    "checks": [],
    "not_applicable": [],
    "notes": "Technique family: runtime monitoring and sanitizers. See DESIGN.md. Genuine defects: known_findings.json.",
}
claimed = set(open(os.path.join(ROOT, "claimed.txt")).read().split())
for cid in props:
    if cid in CHECKS and cid in claimed:
        c = CHECKS[cid]
        m["checks"].append({
            "property_id": cid,
            "quick_cmd": "./check %s quick" % cid,
            "thorough_cmd": "./check %s thorough" % cid,
            "evidence_file": "evidence/%s.json" % cid,
            "replay_cmd_template": "./check %s --replay {path}" % cid,
            "engine": "verifharness",
            "level_claimed": {"category": c["level"], "text": c["level_text"], "design_ref": "DESIGN.md section 4, " + cid},
            "level_note": c["level_note"],
            "technique": c["technique"],
        })
    else:
        m["not_applicable"].append({"property_id": cid, "reason": NOT_APPLICABLE.get(cid, "check not built yet in this session; runtime monitoring applies (see DESIGN.md) but nothing is claimed until the check exists")})
json.dump(m, open(os.path.join(ROOT, "MANIFEST.json"), "w"), indent=1)
print("checks:", len(m["checks"]), "not_applicable:", len(m["not_applicable"]))

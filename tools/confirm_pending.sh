#!/bin/bash
# usage: tools/confirm_pending.sh <cNN> <n>  — confirms /verif/seeded/pending/<cNN>/change<n>.diff in a fresh scratch worktree of /repo
c=$1; n=$2
git -C /repo worktree add --detach /tmp/seed-$c HEAD >/dev/null 2>&1
mkdir -p /tmp/seed-out-$c; cp /verif/seeded/pending/$c/* /tmp/seed-out-$c/
/verif/tools/confirm_seed.sh $c $n
git -C /repo worktree remove --force /tmp/seed-$c

#!/opt/veriftools/pyvenv/bin/python
import json, jsonschema, glob, sys
jsonschema.validate(json.load(open('/verif/MANIFEST.json')), json.load(open('/root/.vp/MANIFEST.schema.json')))
es = json.load(open('/root/.vp/EVIDENCE.schema.json'))
for f in sorted(glob.glob('/verif/evidence/*.json')):
    jsonschema.validate(json.load(open(f)), es)
    print('ok', f)
print('manifest ok')

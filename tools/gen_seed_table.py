#!/usr/bin/env python3
"""Regenerates the table of kept seeded changes in DESIGN.md (between the
SEED-TABLE markers) from seeded/*/meta.json."""
import json, glob, os, re
rows = []
for d in sorted(glob.glob('/verif/seeded/C*-*')):
    m = json.load(open(os.path.join(d, 'meta.json')))
    rows.append('| %s | %s | %s |' % (m['id'], m['needs_to_manifest'].replace('|', '/'), m['checks_run'].replace('|', '/')))
tab = '| seed | what it needs to manifest | checks run against it and what they reported |\n|---|---|---|\n' + '\n'.join(rows)
p = '/verif/DESIGN.md'
s = open(p).read()
s = re.sub(r'<!-- SEED-TABLE-BEGIN -->.*<!-- SEED-TABLE-END -->', '<!-- SEED-TABLE-BEGIN -->\n' + tab + '\n<!-- SEED-TABLE-END -->', s, flags=re.S)
open(p, 'w').write(s)
print(len(rows), 'seeds')

#!/bin/bash
# usage: tools/try_seed.sh <diff> <tier> <check-id>...   (applies the diff to /repo, runs the checks, reverts)
d=$1; tier=$2; shift 2
cd /repo && git apply --check "$d" || { echo "patch does not apply"; exit 2; }
git -C /repo apply "$d"
for c in "$@"; do
  out=$(cd /verif && ./check $c $tier 2>&1)
  if echo "$out" | grep -q "^VIOLATION property=$c"; then echo "$c: CAUGHT: $(echo "$out" | grep signature | head -3 | tr '\n' ' ')"; else echo "$c: missed ($(echo "$out" | grep "^$c" | head -1))"; fi
done
git -C /repo checkout -- . ; git -C /repo status --short | head -3

#!/bin/bash
# usage: tools/confirm_seed.sh <cNN> <n>   — confirms a seeded change in its scratch worktree
c=$1; n=$2; wt=/tmp/seed-$c; out=/tmp/seed-out-$c
export GOFLAGS=-mod=mod GOPROXY=off
cd $wt || exit 2
git checkout -q -- . ; git clean -qfd
dir=$(head -1 $out/demo$n_test.go 2>/dev/null | sed 's/.*: *//; s/^\.\///' )
dir=$(head -1 $out/demo${n}_test.go | grep -o 'pkg/[A-Za-z0-9_/]*\|cli/[A-Za-z0-9_/]*\|internal/[A-Za-z0-9_/]*' | head -1)
[ -d "$dir" ] || { echo "cannot find package dir ($dir)"; exit 2; }
cp $out/demo${n}_test.go $dir/seeded_${n}_test.go
tests=$(grep -o '^func Test[A-Za-z0-9_]*' $dir/seeded_${n}_test.go | sed 's/func //' | paste -sd'|')
echo "package $dir tests $tests"
go test -count=1 -run "^($tests)\$" ./$dir > /tmp/confirm-$c-$n-clean.log 2>&1 && echo "unmodified: demo PASSES" || { echo "unmodified: demo FAILS (bad demo)"; tail -5 /tmp/confirm-$c-$n-clean.log; }
git apply $out/change$n.diff || { echo "change does not apply"; exit 2; }
go test -count=1 -run "^($tests)\$" ./$dir > /tmp/confirm-$c-$n-mut.log 2>&1 && echo "with change: demo PASSES (bad)" || echo "with change: demo FAILS (good)"
rm $dir/seeded_${n}_test.go
pkgs=$(git diff --name-only | xargs -n1 dirname | sort -u | sed 's#^#./#' | paste -sd' ')
go test -count=1 -skip '^TestUT$' $pkgs ./pkg/core/ 2>&1 | grep -v "^ok\|no test files" | grep -v "TestUT" | head -10
echo "suite of [$pkgs ./pkg/core/] done (lines above = failures, none = passes)"
git checkout -q -- . ; git clean -qfd
rm -f /tmp/confirm-$c-$n-*.log

#!/bin/bash
# Runs the repository's own suite with the verif guard OFF (no build tags) and
# compares with the stable_pass list of /root/.vp/BASELINE.json.
out=${1:-/verif/.work/baseline.json}
: > $out
for m in . ./internal/contracts/oracle_contract ./pkg/interop; do
  (cd /repo/$m && GOFLAGS=-mod=mod GOPROXY=off go test -mod=mod -json -vet=off -count=1 -timeout 25m ./... ) >> $out 2>/dev/null
done
python3 - "$out" <<'PY'
import json,sys
res={}
for l in open(sys.argv[1]):
    try: e=json.loads(l)
    except Exception: continue
    if e.get('Action') in ('pass','fail','skip') and e.get('Test'):
        res[e['Package']+'::'+e['Test']]=e['Action']
b=json.load(open('/root/.vp/BASELINE.json'))
stable=set(b['stable_pass'])-set(b.get('always_fail',[]))
bad=[t for t in stable if res.get(t)!='pass']
print('tests seen',len(res),'stable',len(stable),'not passing',len(bad))
for t in sorted(bad)[:40]: print('  ',t,res.get(t))
PY

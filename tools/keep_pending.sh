#!/bin/bash
# usage: tools/keep_pending.sh <cNN> <n> "<needs>" "<caught by>" <id number> — keeps seeded/pending/<cNN>/change<n>.diff (confirmed earlier) as seeded/<ID>-<idn>
c=$1; n=$2
export SEED_OUT=$(mktemp -d /tmp/keep-pending-XXXXXX); cp /verif/seeded/pending/$c/*$n* $SEED_OUT/
/verif/tools/keep_seed.sh "$c" "$n" "$3" "$4" "$5" && rm -f /verif/seeded/pending/$c/*$n*
rmdir /verif/seeded/pending/$c 2>/dev/null; rm -rf $SEED_OUT

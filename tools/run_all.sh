#!/bin/bash
# usage: tools/run_all.sh <tier> [seed]  — runs every claimed check, prints one line each
tier=${1:-quick}; seed=${2:-1}
cd /verif
for c in $(cat claimed.txt); do
  s=$(date +%s)
  out=$(VERIF_SEED=$seed ./check $c $tier 2>&1); rc=$?
  e=$(( $(date +%s) - s ))
  echo "$c rc=$rc ${e}s $(echo "$out" | grep "^$c " | head -1 | cut -c1-150)"
  echo "$out" | grep "^VIOLATION\|signature:\|INCONCLUSIVE" | head -5
done

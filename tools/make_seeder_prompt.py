#!/usr/bin/env python3
"""usage: tools/make_seeder_prompt.py <CNN> [suffix]  - prints the prompt for a seeding sub-agent and
creates its scratch worktree /tmp/seed-<cnn><suffix> (output dir /tmp/seed-out-<cnn><suffix>)."""
import json, sys, glob, os, subprocess
pid = sys.argv[1].upper(); suf = sys.argv[2] if len(sys.argv) > 2 else ""
root = os.path.dirname(os.path.dirname(os.path.abspath(__file__)))
prop = [json.loads(l) for l in open(root + "/properties.jsonl") if json.loads(l)["id"] == pid][0]
wt = "/tmp/seed-%s%s" % (pid.lower(), suf); out = "/tmp/seed-out-%s%s" % (pid.lower(), suf)
if not os.path.isdir(wt):
    subprocess.run(["git", "-C", "/repo", "worktree", "add", "--detach", wt, "HEAD"], stdout=subprocess.DEVNULL, stderr=subprocess.DEVNULL, check=True)
a = prop.get("anchors", {})
anch = "files: " + ", ".join(a.get("files", []))
mech = "; ".join("%s (%s)" % (m["name"], m["where"]) for m in a.get("mechanism", []))
if mech:
    anch += ". Mechanisms: " + mech
prev = []
for f in sorted(glob.glob(root + "/seeded/%s-*/meta.json" % pid)):
    prev.append("* " + json.load(open(f))["needs_to_manifest"])
for f in sorted(glob.glob(root + "/seeded/pending/%s*/notes*.md" % pid.lower())):
    prev.append("* " + open(f).readline().lstrip("# ").strip())
avoid = ""
if prev:
    avoid = ("Earlier rounds already produced changes needing the following triggers; "
             "do something DIFFERENT (another file or function, another clause of the property, another kind of trigger):\n\n"
             + "\n".join(prev) + "\n")
t = open(root + "/tools/seeder_prompt.md").read()
print(t.replace("{WT}", wt).replace("{OUT}", out).replace("{ID}", pid).replace("{TITLE}", prop.get("title", ""))
      .replace("{STATEMENT}", prop["statement"]).replace("{ANCHORS}", anch).replace("{AVOID}", avoid))

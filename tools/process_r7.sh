#!/bin/bash
# usage: tools/process_r7.sh <cNN> <check ids...>  — copies /tmp/seed-out-<cNN>r7 to pending, confirms both seeds, tries them against the named checks
c=$1; shift; cr=${c}${ROUND:-r7}
cd /verif
mkdir -p seeded/pending/$cr; cp /tmp/seed-out-$cr/{change,demo,notes}* seeded/pending/$cr/
( tools/confirm_seed.sh $cr 1; tools/confirm_seed.sh $cr 2 ) 2>&1 | grep -v "conda\|^package\|suite of" | sed "s/^/$cr: /"
for n in 1 2; do tools/try_seed_scratch.sh /tmp/seed-out-$cr/change$n.diff quick "$@" 2>&1 | grep "^\[" | cut -c1-330; done

#!/bin/bash
# usage: tools/try_seed_scratch.sh <diff> <tier> <check-id>...
# Like try_seed.sh but applies the diff to a scratch copy of /repo (VERIF_REPO), so it can run
# while other checks are using /repo. The copy and its build products are removed afterwards.
d=$1; tier=$2; shift 2
s=/tmp/verif-try-$$
rsync -a --exclude .git /repo/ $s/ || exit 2
(cd $s && git init -q . 2>/dev/null; git -C $s apply "$d") || { echo "patch does not apply"; rm -rf $s; exit 2; }
for c in "$@"; do
  out=$(cd /verif && VERIF_REPO=$s ./check $c $tier 2>&1)
  if echo "$out" | grep -q "^VIOLATION property=$c"; then echo "[$(basename $(dirname $d))/$(basename $d)] $c: CAUGHT: $(echo "$out" | grep signature | head -3 | tr '\n' ' ')"; else echo "[$(basename $(dirname $d))/$(basename $d)] $c: missed ($(echo "$out" | grep "^$c" | head -1))"; fi
done
tag=$(python3 -c "import hashlib,sys;print(hashlib.sha1(sys.argv[1].encode()).hexdigest()[:8])" $s)
rm -rf $s /verif/.build/*.$tag.* /verif/.build/go.$tag.*
